/-
  The iterator closures `(*reader).iter` of formats/fasta/iter.go and formats/fastq/iter.go and the
  `Write` methods of formats/fasta/fasta.go and formats/fastq/fastq.go, translated from the Go
  source text on every run into `Bio.Generated.GoSrc` (`fasta_iter`, `fastq_iter` with a fuel bound
  on the `for {}` loop and the log of the items handed to the consumer; `fasta_Write`, `fastq_Write`
  over the abstract failing writer `Bio.GoRt.Wr`):

  * the log of an iterator is the model decode cut after the first item the consumer declined
    (`takeThrough`), for every input, both endings and every consumer;
  * `Write` performs the model's `Write` calls (`Fasta.writeCalls 80`, `[Fastq.encode r]`) on the
    writer, stopping at the first error — `runWriter` of `Bio.Lemmas.Cross`.

  Guarded by the translator's `<f>_Found` flags as in `Bio.Lemmas.GoSrc`.
-/
import Bio.Lemmas.GoSrcReaders
import Bio.Lemmas.Iter
import Bio.Lemmas.IterReaders
import Bio.Lemmas.Cross
set_option linter.unusedVariables false
set_option linter.unusedSimpArgs false
namespace Bio.GoSrcLemmas
open Bio Bio.GoRt Bio.Generated

/-! ## Iterators: the generic `for { x, err := r.read(); … }` loop -/

/-- what the `for { x, err := r.read(); … }` loop of an `iter()` closure computes, by recursion on the fuel -/
def iterSpec {ρ σ : Type} (read : σ → Option ((Option ρ × GoErr) × σ)) (f : Option ρ × GoErr → Bool) :
    Nat → σ → Option (List (Option ρ × GoErr))
  | 0, _ => none
  | fuel + 1, s =>
    match read s with
    | none => none
    | some ((x, err), s') =>
      if err != GoErr.nil then
        (if err != GoErr.eof then some [(none, err)] else some [])
      else if f (x, GoErr.nil) then (iterSpec read f fuel s').map ((x, GoErr.nil) :: ·)
      else some [(x, GoErr.nil)]

abbrev IterSt (ρ σ : Type) := Option (List (Option ρ × GoErr)) × List (Option ρ × GoErr) × σ × Bool

def iterStep {ρ σ : Type} (f : Option ρ × GoErr → Bool) (st : IterSt ρ σ) (r : (Option ρ × GoErr) × σ) :
    ForInStep (IterSt ρ σ) :=
  if r.1.2 != GoErr.nil then
    (if r.1.2 != GoErr.eof then .done (none, st.2.1 ++ [(none, r.1.2)], r.2, false)
     else .done (none, st.2.1, r.2, false))
  else if f (r.1.1, GoErr.nil) then .yield (none, st.2.1 ++ [(r.1.1, GoErr.nil)], r.2, st.2.2.2)
  else .done (some (st.2.1 ++ [(r.1.1, GoErr.nil)]), st.2.1 ++ [(r.1.1, GoErr.nil)], r.2, st.2.2.2)

theorem iter_loop {ρ σ : Type} (read : σ → Option ((Option ρ × GoErr) × σ)) (f : Option ρ × GoErr → Bool)
    (body : Nat → IterSt ρ σ → Option (ForInStep (IterSt ρ σ)))
    (fin : IterSt ρ σ → Option (List (Option ρ × GoErr)))
    (hbody : ∀ i st, body i st = (read st.2.2.1).bind fun r => some (iterStep f st r))
    (hfin : ∀ st, fin st = match st.1 with
      | some r => some r
      | none => if st.2.2.2 = true then none else some st.2.1)
    (l : List Nat) : ∀ (log : List (Option ρ × GoErr)) (s : σ),
    (forIn l ((none, log, s, true) : IterSt ρ σ) body).bind fin
      = (iterSpec read f l.length s).map (log ++ ·) := by
  induction l with
  | nil => intro log s; simp [iterSpec, hfin]
  | cons a l ih =>
    intro log s
    simp only [List.forIn_cons, List.length_cons, iterSpec, hbody]
    cases hr : read s with
    | none => simp
    | some r =>
      obtain ⟨⟨x, err⟩, s'⟩ := r
      simp only [Option.bind_some, Option.bind_eq_bind, iterStep]
      by_cases h1 : (err != GoErr.nil) = true
      · by_cases h2 : (err != GoErr.eof) = true
        · simp [h1, h2, hfin]
        · simp [h1, h2, hfin]
      · by_cases h3 : f (x, GoErr.nil) = true
        · simp only [h1, h3, if_false, Bool.not_true, Bool.false_eq_true, if_true, Option.bind_some]
          have := ih (log ++ [(x, GoErr.nil)]) s'
          rw [this]
          cases iterSpec read f l.length s' <;> simp
        · simp [h1, h3, hfin]

theorem fasta_iter_spec (hF : GoSrc.fasta_iter_Found = true) (fuel : Nat) (src : Bytes) (e : Ending)
    (f : Option (Bytes × Bytes) × GoErr → Bool) :
    GoSrc.fasta_iter fuel src e f = iterSpec (fun s => GoSrc.fasta_read s e) f fuel src := by
  first
  | exact absurd hF (by decide)
  | (unfold GoSrc.fasta_iter
     simp only [Option.pure_def, Option.bind_eq_bind]
     refine (iter_loop (fun s => GoSrc.fasta_read s e) f _ _ ?_ ?_ (List.range fuel) [] src).trans ?_
     · intro i st
       cases GoSrc.fasta_read st.2.2.1 e with
       | none => rfl
       | some r =>
         obtain ⟨⟨x, err⟩, s'⟩ := r
         cases err <;> cases h : f (x, GoErr.nil) <;> simp [iterStep, h]
     · intro st
       rcases st with ⟨_ | r, log, s, _ | _⟩ <;> rfl
     · rw [List.length_range]
       cases iterSpec (fun s => GoSrc.fasta_read s e) f fuel src <;> simp)

theorem fastq_iter_spec (hF : GoSrc.fastq_iter_Found = true) (fuel : Nat) (ls : List Bytes) (e : Ending)
    (f : Option (Bytes × Bytes × Bytes) × GoErr → Bool) :
    GoSrc.fastq_iter fuel ls e f = iterSpec (fun s => GoSrc.fastq_read s e) f fuel ls := by
  first
  | exact absurd hF (by decide)
  | (unfold GoSrc.fastq_iter
     simp only [Option.pure_def, Option.bind_eq_bind]
     refine (iter_loop (fun s => GoSrc.fastq_read s e) f _ _ ?_ ?_ (List.range fuel) [] ls).trans ?_
     · intro i st
       cases GoSrc.fastq_read st.2.2.1 e with
       | none => rfl
       | some r =>
         obtain ⟨⟨x, err⟩, s'⟩ := r
         cases err <;> cases h : f (x, GoErr.nil) <;> simp [iterStep, h]
     · intro st
       rcases st with ⟨_ | r, log, s, _ | _⟩ <;> rfl
     · rw [List.length_range]
       cases iterSpec (fun s => GoSrc.fastq_read s e) f fuel ls <;> simp)

/-! ### FASTA / FASTQ: the loop over the translated `read` is the model decode, cut by the consumer -/

/-- the `(*Fasta, error)` pair the iterator hands to its consumer for an item of the model decode -/
def faRaw : Item Fasta.Fa → Option (Bytes × Bytes) × GoErr
  | .ok r => (some (r.name, r.seq), GoErr.nil)
  | .err => (none, GoErr.other)

/-- the model item of a `(*Fasta, error)` pair: a record, or (no record) an error -/
def faItem : Option (Bytes × Bytes) × GoErr → Item Fasta.Fa
  | (some (n, s), _) => .ok ⟨n, s⟩
  | (none, _) => .err

@[simp] theorem faItem_faRaw (it : Item Fasta.Fa) : faItem (faRaw it) = it := by
  cases it <;> rfl

theorem decodeSrc_cons' (e : Ending) (b : UInt8) (rest : Bytes) :
    Fasta.decodeSrc e (b :: rest) =
      if (Fasta.readOne b rest).2 = [] ∧ e = Ending.fail then [.err]
      else .ok (Fasta.readOne b rest).1 :: Fasta.decodeSrc e (Fasta.readOne b rest).2 := by
  rw [Fasta.decodeSrc_cons]
  by_cases h : (Fasta.readOne b rest).2 = []
  · cases e <;> simp [h, Fasta.decodeSrc_nil]
  · simp [h]

theorem fasta_iterSpec (hR : GoSrc.fasta_read_Found = true) (e : Ending)
    (f : Option (Bytes × Bytes) × GoErr → Bool) :
    ∀ (fuel : Nat) (src : Bytes), src.length < fuel →
      iterSpec (fun s => GoSrc.fasta_read s e) f fuel src
        = some ((takeThrough (fun it => !f (faRaw it)) (Fasta.decodeSrc e src)).map faRaw) := by
  intro fuel
  induction fuel with
  | zero => intro src h; omega
  | succ fuel ih =>
    intro src hx
    cases src with
    | nil =>
      rw [iterSpec, fasta_read_nil hR, Fasta.decodeSrc_nil]
      cases e <;> simp [endErr, takeThrough, faRaw]
    | cons b rest =>
      rw [iterSpec, fasta_read_cons hR, decodeSrc_cons']
      have hlt := fasta_readOne_rest_lt b rest
      by_cases h2 : (Fasta.readOne b rest).2 = [] ∧ e = Ending.fail
      · simp [h2, takeThrough, faRaw]
      · simp only [h2, if_false, takeThrough_cons]
        rw [ih _ (by simp only [List.length_cons] at hx hlt; omega)]
        cases hf : f (some ((Fasta.readOne b rest).1.name, (Fasta.readOne b rest).1.seq), GoErr.nil) <;>
          simp [faRaw, hf]


def fqRaw : Item Fastq.Fq → Option (Bytes × Bytes × Bytes) × GoErr
  | .ok r => (some (r.name, r.seq, r.quals), GoErr.nil)
  | .err => (none, GoErr.other)

def fqItem : Option (Bytes × Bytes × Bytes) × GoErr → Item Fastq.Fq
  | (some (n, s, q), _) => .ok ⟨n, s, q⟩
  | (none, _) => .err

@[simp] theorem fqItem_fqRaw (it : Item Fastq.Fq) : fqItem (fqRaw it) = it := by
  cases it <;> rfl

theorem fastq_iterSpec (hR : GoSrc.fastq_read_Found = true) (e : Ending)
    (f : Option (Bytes × Bytes × Bytes) × GoErr → Bool) :
    ∀ (fuel : Nat) (ls : List Bytes), ls.length < fuel →
      iterSpec (fun s => GoSrc.fastq_read s e) f fuel ls
        = some ((takeThrough (fun it => !f (fqRaw it)) (Fastq.fromLines e ls)).map fqRaw) := by
  intro fuel
  induction fuel with
  | zero => intro ls h; omega
  | succ fuel ih =>
    intro ls hls
    rw [iterSpec, fastq_read_spec hR]
    rcases fastqStep_cases e ls with ⟨_, h1, h2⟩ | ⟨name, sq, pl, ql, rest, hls', _, h1, h2⟩ | ⟨_, _, h1, h2⟩
    · rw [h1, h2]; cases e <;> simp [endErr, takeThrough, fqRaw]
    · rw [h1, h2]
      simp only [takeThrough_cons]
      rw [ih rest (by subst hls'; simp only [List.length_cons] at hls; omega)]
      cases hf : f (some (name, sq, ql), GoErr.nil) <;> simp [fqRaw, hf]
    · rw [h2]
      generalize fastqStep e ls = r at h1
      obtain ⟨⟨a, b⟩, c⟩ := r
      simp only [Prod.mk.injEq] at h1
      obtain ⟨rfl, rfl⟩ := h1
      simp [takeThrough, fqRaw]


/-! ### The statements about the translated closures -/

/-- the loop asks the consumer only about `(x, nil)` items: its verdict on the error item is ignored -/
theorem iterSpec_congr {ρ σ : Type} (read : σ → Option ((Option ρ × GoErr) × σ))
    (f g : Option ρ × GoErr → Bool) (h : ∀ x, f (x, GoErr.nil) = g (x, GoErr.nil)) :
    ∀ (fuel : Nat) (s : σ), iterSpec read f fuel s = iterSpec read g fuel s := by
  intro fuel
  induction fuel with
  | zero => intro s; rfl
  | succ fuel ih =>
    intro s
    simp only [iterSpec, h, ih]

/-- every call but the last returned `true`, hence a declined item is the last one -/
theorem declined_is_last {α : Type} (f : α → Bool) (L : List α) (h : ∀ x ∈ L.dropLast, f x = true)
    (i : Nat) (x : α) (hx : L[i]? = some x) (hf : f x = false) : i + 1 = L.length := by
  have hi : i < L.length := by
    rcases Nat.lt_or_ge i L.length with h | h
    · exact h
    · rw [List.getElem?_eq_none h] at hx; cases hx
  by_cases hlt : i < L.length - 1
  · have : L.dropLast[i]? = some x := by rw [List.getElem?_dropLast, if_pos hlt, hx]
    have := h x (List.mem_of_getElem? this)
    rw [hf] at this; cases this
  · omega

/-- FASTA, the log itself: the items of the model decode, as `(*Fasta, error)` pairs, up to and
including the first one the consumer declined.  The error item (always the last item of the decode)
is `(nil, err)` with `err` neither `nil` nor `io.EOF`. -/
theorem fasta_iter_raw (hI : GoSrc.fasta_iter_Found = true) (hR : GoSrc.fasta_read_Found = true)
    (fuel : Nat) (src : Bytes) (e : Ending) (f : Option (Bytes × Bytes) × GoErr → Bool)
    (h : src.length + 1 ≤ fuel) :
    GoSrc.fasta_iter fuel src e f
      = some ((takeThrough (fun it => !f (faRaw it)) (Fasta.decodeSrc e src)).map faRaw) := by
  rw [fasta_iter_spec hI, fasta_iterSpec hR e f fuel src (by omega)]

theorem fasta_iter_log (hI : GoSrc.fasta_iter_Found = true) (hR : GoSrc.fasta_read_Found = true)
    (fuel : Nat) (src : Bytes) (e : Ending) (f : Option (Bytes × Bytes) × GoErr → Bool)
    (h : src.length + 1 ≤ fuel) :
    (GoSrc.fasta_iter fuel src e f).map (·.map faItem)
      = some (takeThrough (fun it => !f (faRaw it)) (Fasta.decodeSrc e src)) := by
  rw [fasta_iter_raw hI hR fuel src e f h]
  simp [Function.comp_def]

theorem fasta_iter_total (hI : GoSrc.fasta_iter_Found = true) (hR : GoSrc.fasta_read_Found = true)
    (fuel : Nat) (src : Bytes) (e : Ending) (f : Option (Bytes × Bytes) × GoErr → Bool)
    (h : src.length + 1 ≤ fuel) : (GoSrc.fasta_iter fuel src e f).isSome = true := by
  rw [fasta_iter_raw hI hR fuel src e f h]; rfl

theorem fasta_iter_all (hI : GoSrc.fasta_iter_Found = true) (hR : GoSrc.fasta_read_Found = true)
    (fuel : Nat) (src : Bytes) (e : Ending) (h : src.length + 1 ≤ fuel) :
    (GoSrc.fasta_iter fuel src e (fun _ => true)).map (·.map faItem) = some (Fasta.decodeSrc e src) := by
  rw [fasta_iter_log hI hR fuel src e _ h]
  exact congrArg some (takeThrough_false _)

theorem fasta_iter_stops (hI : GoSrc.fasta_iter_Found = true) (hR : GoSrc.fasta_read_Found = true)
    (fuel : Nat) (src : Bytes) (e : Ending) (f : Option (Bytes × Bytes) × GoErr → Bool)
    (h : src.length + 1 ≤ fuel) :
    ∃ L, GoSrc.fasta_iter fuel src e f = some L ∧ L.map faItem <+: Fasta.decodeSrc e src
      ∧ (∀ x ∈ L.dropLast, f x = true)
      ∧ (∀ i x, L[i]? = some x → f x = false → i + 1 = L.length) := by
  refine ⟨_, fasta_iter_raw hI hR fuel src e f h, ?_, ?_⟩
  · simpa [Function.comp_def] using takeThrough_isPrefix (fun it => !f (faRaw it)) (Fasta.decodeSrc e src)
  · have hd : ∀ x ∈ ((takeThrough (fun it => !f (faRaw it)) (Fasta.decodeSrc e src)).map faRaw).dropLast,
        f x = true := by
      intro x hx
      rw [← List.map_dropLast, List.mem_map] at hx
      obtain ⟨it, hit, rfl⟩ := hx
      simpa using takeThrough_dropLast (fun it => !f (faRaw it)) (Fasta.decodeSrc e src) it hit
    exact ⟨hd, declined_is_last f _ hd⟩

/-- the consumer's answer to `yield(nil, err)` is never looked at (any fuel) -/
theorem fasta_iter_congr (hI : GoSrc.fasta_iter_Found = true)
    (fuel : Nat) (src : Bytes) (e : Ending) (f g : Option (Bytes × Bytes) × GoErr → Bool)
    (h : ∀ x, f (x, GoErr.nil) = g (x, GoErr.nil)) :
    GoSrc.fasta_iter fuel src e f = GoSrc.fasta_iter fuel src e g := by
  rw [fasta_iter_spec hI, fasta_iter_spec hI, iterSpec_congr _ f g h]

/-- FASTQ, the log itself. -/
theorem fastq_iter_raw (hI : GoSrc.fastq_iter_Found = true) (hR : GoSrc.fastq_read_Found = true)
    (fuel : Nat) (ls : List Bytes) (e : Ending) (f : Option (Bytes × Bytes × Bytes) × GoErr → Bool)
    (h : ls.length + 1 ≤ fuel) :
    GoSrc.fastq_iter fuel ls e f
      = some ((takeThrough (fun it => !f (fqRaw it)) (Fastq.fromLines e ls)).map fqRaw) := by
  rw [fastq_iter_spec hI, fastq_iterSpec hR e f fuel ls (by omega)]

theorem fastq_iter_log (hI : GoSrc.fastq_iter_Found = true) (hR : GoSrc.fastq_read_Found = true)
    (fuel : Nat) (ls : List Bytes) (e : Ending) (f : Option (Bytes × Bytes × Bytes) × GoErr → Bool)
    (h : ls.length + 1 ≤ fuel) :
    (GoSrc.fastq_iter fuel ls e f).map (·.map fqItem)
      = some (takeThrough (fun it => !f (fqRaw it)) (Fastq.fromLines e ls)) := by
  rw [fastq_iter_raw hI hR fuel ls e f h]
  simp [Function.comp_def]

theorem fastq_iter_total (hI : GoSrc.fastq_iter_Found = true) (hR : GoSrc.fastq_read_Found = true)
    (fuel : Nat) (ls : List Bytes) (e : Ending) (f : Option (Bytes × Bytes × Bytes) × GoErr → Bool)
    (h : ls.length + 1 ≤ fuel) : (GoSrc.fastq_iter fuel ls e f).isSome = true := by
  rw [fastq_iter_raw hI hR fuel ls e f h]; rfl

theorem fastq_iter_all (hI : GoSrc.fastq_iter_Found = true) (hR : GoSrc.fastq_read_Found = true)
    (fuel : Nat) (ls : List Bytes) (e : Ending) (h : ls.length + 1 ≤ fuel) :
    (GoSrc.fastq_iter fuel ls e (fun _ => true)).map (·.map fqItem) = some (Fastq.fromLines e ls) := by
  rw [fastq_iter_log hI hR fuel ls e _ h]
  exact congrArg some (takeThrough_false _)

theorem fastq_iter_stops (hI : GoSrc.fastq_iter_Found = true) (hR : GoSrc.fastq_read_Found = true)
    (fuel : Nat) (ls : List Bytes) (e : Ending) (f : Option (Bytes × Bytes × Bytes) × GoErr → Bool)
    (h : ls.length + 1 ≤ fuel) :
    ∃ L, GoSrc.fastq_iter fuel ls e f = some L ∧ L.map fqItem <+: Fastq.fromLines e ls
      ∧ (∀ x ∈ L.dropLast, f x = true)
      ∧ (∀ i x, L[i]? = some x → f x = false → i + 1 = L.length) := by
  refine ⟨_, fastq_iter_raw hI hR fuel ls e f h, ?_, ?_⟩
  · simpa [Function.comp_def] using takeThrough_isPrefix (fun it => !f (fqRaw it)) (Fastq.fromLines e ls)
  · have hd : ∀ x ∈ ((takeThrough (fun it => !f (fqRaw it)) (Fastq.fromLines e ls)).map fqRaw).dropLast,
        f x = true := by
      intro x hx
      rw [← List.map_dropLast, List.mem_map] at hx
      obtain ⟨it, hit, rfl⟩ := hx
      simpa using takeThrough_dropLast (fun it => !f (fqRaw it)) (Fastq.fromLines e ls) it hit
    exact ⟨hd, declined_is_last f _ hd⟩

theorem fastq_iter_congr (hI : GoSrc.fastq_iter_Found = true)
    (fuel : Nat) (ls : List Bytes) (e : Ending) (f g : Option (Bytes × Bytes × Bytes) × GoErr → Bool)
    (h : ∀ x, f (x, GoErr.nil) = g (x, GoErr.nil)) :
    GoSrc.fastq_iter fuel ls e f = GoSrc.fastq_iter fuel ls e g := by
  rw [fastq_iter_spec hI, fastq_iter_spec hI, iterSpec_congr _ f g h]

/-! ## Writers -/

/-- perform the `Write` calls in order on the abstract writer, stopping at the first error -/
def wrWriteAll : Wr → List Bytes → Wr × GoErr
  | w, [] => (w, GoErr.nil)
  | w, c :: cs => if (wrWrite w c).2 = GoErr.nil then wrWriteAll (wrWrite w c).1 cs else wrWrite w c

theorem wrWriteAll_runWriter' (k : Nat) (o : Bytes) (calls : List Bytes) :
    wrWriteAll ⟨k, o⟩ calls
      = (⟨k - (runWriter k calls).1.length, o ++ (runWriter k calls).1⟩,
         if (runWriter k calls).2 then GoErr.nil else GoErr.other) := by
  induction calls generalizing k o with
  | nil => simp [wrWriteAll, runWriter]
  | cons c cs ih =>
    rw [wrWriteAll, runWriter]
    by_cases h : c.length ≤ k
    · simp only [wrWrite, h, if_true, ih, List.length_append, List.append_assoc]
      congr 2
      omega
    · have hk : k ≤ c.length := by omega
      simp [wrWrite, h, List.length_take, Nat.min_eq_left hk]

theorem wrWriteAll_runWriter (k : Nat) (calls : List Bytes) :
    wrWriteAll ⟨k, []⟩ calls
      = (⟨k - (runWriter k calls).1.length, (runWriter k calls).1⟩,
         if (runWriter k calls).2 then GoErr.nil else GoErr.other) := by
  simpa using wrWriteAll_runWriter' k [] calls

theorem wrWriteAll_singleton (w : Wr) (c : Bytes) : wrWriteAll w [c] = wrWrite w c := by
  simp only [wrWriteAll]
  split
  · rename_i h; exact Prod.ext rfl h.symm
  · rfl

theorem fastq_Write_eq (hF : GoSrc.fastq_Write_Found = true) (n s q : Bytes) (w : Wr) :
    GoSrc.fastq_Write n s q w
      = some ((wrWrite w (Fastq.encode ⟨n, s, q⟩)).2, (wrWrite w (Fastq.encode ⟨n, s, q⟩)).1) := by
  first
  | exact absurd hF (by decide)
  | (unfold GoSrc.fastq_Write
     simp [Fastq.encode])


/-- `f.Sequence[i:min(i+80, len)]` at `i = 80*j` is the next line of `Fasta.wrap 80` -/
theorem slice_chunk (s : Bytes) (j : Nat) (h : 80 * j ≤ s.length) :
    slice s ((j : Int) * 80) (min ((j : Int) * 80 + 80) (len s)) = some ((s.drop (80 * j)).take 80) := by
  unfold slice len
  have h1 : (0 : Int) ≤ (j : Int) * 80 ∧ (j : Int) * 80 ≤ min ((j : Int) * 80 + 80) (s.length : Int)
      ∧ min ((j : Int) * 80 + 80) (s.length : Int) ≤ (s.length : Int) := by omega
  rw [if_pos h1]
  have e1 : ((j : Int) * 80).toNat = 80 * j := by omega
  have e2 : (min ((j : Int) * 80 + 80) (s.length : Int) - (j : Int) * 80).toNat = min 80 (s.length - 80 * j) := by omega
  rw [e1, e2]
  congr 1
  rw [List.take_eq_take_iff]
  simp only [List.length_drop]; omega

abbrev WrSt := Option (GoErr × Wr) × Wr

/-- the loop state after a run of `Write` calls: `return err` inside the loop, or go on -/
def wrResult (r : Wr × GoErr) : WrSt := if r.2 = GoErr.nil then (none, r.1) else (some (r.2, r.1), r.1)

theorem fasta_write_loop (s : Bytes) (body : Int → WrSt → Option (ForInStep WrSt))
    (hbody : ∀ (j : Nat) (o : Option (GoErr × Wr)) (w : Wr), 80 * j < s.length →
      body ((j : Int) * 80) (o, w)
        = some (if (wrWrite w ((s.drop (80 * j)).take 80 ++ [10])).2 = GoErr.nil
            then .yield (none, (wrWrite w ((s.drop (80 * j)).take 80 ++ [10])).1)
            else .done (some ((wrWrite w ((s.drop (80 * j)).take 80 ++ [10])).2,
                   (wrWrite w ((s.drop (80 * j)).take 80 ++ [10])).1),
                   (wrWrite w ((s.drop (80 * j)).take 80 ++ [10])).1))) :
    ∀ (n j : Nat) (w : Wr), n = (s.length - 80 * j + 79) / 80 →
      forIn ((List.range' j n).map fun (k : Nat) => (k : Int) * 80) ((none, w) : WrSt) body
        = some (wrResult (wrWriteAll w ((Fasta.wrap 80 (s.drop (80 * j))).map (· ++ [10])))) := by
  intro n
  induction n with
  | zero =>
    intro j w hn
    have : s.drop (80 * j) = [] := List.drop_of_length_le (by omega)
    simp [this, Fasta.wrap_nil, wrWriteAll, wrResult]
  | succ n ih =>
    intro j w hn
    have hlt : 80 * j < s.length := by omega
    have hne : s.drop (80 * j) ≠ [] := by
      intro h; have := congrArg List.length h; simp at this; omega
    rw [Fasta.wrap_cons_eq 80 (by omega) _ hne]
    simp only [List.range'_succ, List.map_cons, List.forIn_cons, hbody j none w hlt, wrWriteAll,
      Option.bind_eq_bind, Option.bind_some]
    by_cases hw : (wrWrite w ((s.drop (80 * j)).take 80 ++ [10])).2 = GoErr.nil
    · simp only [hw, if_true]
      rw [ih (j + 1) _ (by omega), List.drop_drop]
      rw [show 80 * j + 80 = 80 * (j + 1) by omega]
    · simp [hw, wrResult]

theorem fasta_Write_eq (hF : GoSrc.fasta_Write_Found = true) (n s : Bytes) (w : Wr) :
    GoSrc.fasta_Write n s w
      = some (let r := wrWriteAll w (Fasta.writeCalls 80 ⟨n, s⟩); (r.2, r.1)) := by
  first
  | exact absurd hF (by decide)
  | (unfold GoSrc.fasta_Write
     simp only [Option.pure_def, Option.bind_eq_bind]
     have hup : upToStep (len s) 80 = (List.range' 0 ((s.length - 80 * 0 + 79) / 80)).map fun (k : Nat) => (k : Int) * 80 := by
       simp [upToStep, len, List.range_eq_range']
     have hc : ([62] ++ n ++ [10] : Bytes) = 62 :: n ++ [10] := rfl
     rw [hup, hc]
     simp only [Fasta.writeCalls, wrWriteAll]
     generalize wrWrite w (62 :: n ++ [10]) = r0
     by_cases h0 : r0.2 = GoErr.nil
     · rw [fasta_write_loop s _ ?_ _ 0 _ rfl]
       · simp only [h0, Nat.mul_zero, List.drop_zero, wrResult]
         generalize wrWriteAll r0.1 ((Fasta.wrap 80 s).map (· ++ [10])) = r1
         by_cases h1 : r1.2 = GoErr.nil <;> simp [h1]
       · intro j o w' hj
         rw [slice_chunk s j (by omega)]
         simp only [Option.bind_some]
         by_cases hw : (wrWrite w' ((s.drop (80 * j)).take 80 ++ [10])).2 = GoErr.nil <;> simp [hw]
     · simp [h0])


/-! ### On a writer that accepts `k` more bytes -/

theorem wrWriteAll_take (k : Nat) (o : Bytes) (calls : List Bytes) :
    wrWriteAll ⟨k, o⟩ calls
      = (⟨k - (calls.flatten.take k).length, o ++ calls.flatten.take k⟩,
         if calls.flatten.length ≤ k then GoErr.nil else GoErr.other) := by
  rw [wrWriteAll_runWriter', runWriter_bytes]
  congr 1
  by_cases h : calls.flatten.length ≤ k
  · simp only [(runWriter_ok_iff k calls).2 h, h, ↓reduceIte]
  · have : (runWriter k calls).2 = false := by
      cases hb : (runWriter k calls).2
      · rfl
      · exact absurd ((runWriter_ok_iff k calls).1 hb) h
    simp only [this, h, ↓reduceIte, Bool.false_eq_true]

/-- FASTA `Write` on a writer with `k` bytes of room: an error iff the record's text is longer than
`k`; the bytes accepted are the first `k` bytes of the text -/
theorem fasta_Write_fault (hF : GoSrc.fasta_Write_Found = true) (n s : Bytes) (k : Nat) (o : Bytes) :
    GoSrc.fasta_Write n s ⟨k, o⟩
      = some (if (Fasta.encode 80 ⟨n, s⟩).length ≤ k then GoErr.nil else GoErr.other,
          ⟨k - ((Fasta.encode 80 ⟨n, s⟩).take k).length, o ++ (Fasta.encode 80 ⟨n, s⟩).take k⟩) := by
  rw [fasta_Write_eq hF, wrWriteAll_take]
  rfl

theorem fastq_Write_fault (hF : GoSrc.fastq_Write_Found = true) (n s q : Bytes) (k : Nat) (o : Bytes) :
    GoSrc.fastq_Write n s q ⟨k, o⟩
      = some (if (Fastq.encode ⟨n, s, q⟩).length ≤ k then GoErr.nil else GoErr.other,
          ⟨k - ((Fastq.encode ⟨n, s, q⟩).take k).length, o ++ (Fastq.encode ⟨n, s, q⟩).take k⟩) := by
  rw [fastq_Write_eq hF]
  by_cases h : (Fastq.encode ⟨n, s, q⟩).length ≤ k
  · simp [wrWrite, h, List.take_of_length_le h]
  · have hk : k ≤ (Fastq.encode ⟨n, s, q⟩).length := by omega
    simp [wrWrite, h, List.length_take, Nat.min_eq_left hk]

/-- `for _, r := range rs { if err := r.Write(w); err != nil { return err } }` over the translated
FASTA `Write` -/
def fastaWriteAll : List Fasta.Fa → Wr → Option (GoErr × Wr)
  | [], w => some (GoErr.nil, w)
  | r :: rs, w =>
    match GoSrc.fasta_Write r.name r.seq w with
    | none => none
    | some (GoErr.nil, w') => fastaWriteAll rs w'
    | some (err, w') => some (err, w')

/-- the same over the translated FASTQ `Write` -/
def fastqWriteAll : List Fastq.Fq → Wr → Option (GoErr × Wr)
  | [], w => some (GoErr.nil, w)
  | r :: rs, w =>
    match GoSrc.fastq_Write r.name r.seq r.quals w with
    | none => none
    | some (GoErr.nil, w') => fastqWriteAll rs w'
    | some (err, w') => some (err, w')

theorem fastaWriteAll_ok (hF : GoSrc.fasta_Write_Found = true) (rs : List Fasta.Fa) (k : Nat) (o : Bytes)
    (h : (Fasta.encodeAll 80 rs).length ≤ k) :
    fastaWriteAll rs ⟨k, o⟩
      = some (GoErr.nil, ⟨k - (Fasta.encodeAll 80 rs).length, o ++ Fasta.encodeAll 80 rs⟩) := by
  induction rs generalizing k o with
  | nil => simp [fastaWriteAll, Fasta.encodeAll]
  | cons r rs ih =>
    have he : Fasta.encodeAll 80 (r :: rs) = Fasta.encode 80 r ++ Fasta.encodeAll 80 rs := by
      simp [Fasta.encodeAll]
    rw [he, List.length_append] at h
    have h1 : (Fasta.encode 80 r).length ≤ k := by omega
    rw [fastaWriteAll, fasta_Write_fault hF r.name r.seq k o]
    simp only [h1, if_true, List.take_of_length_le h1]
    rw [ih _ _ (by omega), he]
    simp only [List.length_append, List.append_assoc]
    congr 3
    omega

theorem fastqWriteAll_ok (hF : GoSrc.fastq_Write_Found = true) (rs : List Fastq.Fq) (k : Nat) (o : Bytes)
    (h : (Fastq.encodeAll rs).length ≤ k) :
    fastqWriteAll rs ⟨k, o⟩
      = some (GoErr.nil, ⟨k - (Fastq.encodeAll rs).length, o ++ Fastq.encodeAll rs⟩) := by
  induction rs generalizing k o with
  | nil => simp [fastqWriteAll, Fastq.encodeAll]
  | cons r rs ih =>
    have he : Fastq.encodeAll (r :: rs) = Fastq.encode r ++ Fastq.encodeAll rs := by
      simp [Fastq.encodeAll]
    rw [he, List.length_append] at h
    have h1 : (Fastq.encode r).length ≤ k := by omega
    rw [fastqWriteAll, fastq_Write_fault hF r.name r.seq r.quals k o]
    simp only [h1, if_true, List.take_of_length_le h1]
    rw [ih _ _ (by omega), he]
    simp only [List.length_append, List.append_assoc]
    congr 3
    omega

end Bio.GoSrcLemmas
