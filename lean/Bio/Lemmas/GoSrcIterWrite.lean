/-
  The iterator closures `(*reader).iter` of formats/fasta/iter.go and formats/fastq/iter.go and the
  `Write` methods of formats/fasta/fasta.go and formats/fastq/fastq.go, translated from the Go
  source text on every run into `Bio.Generated.GoSrc` (`fasta_iter`, `fastq_iter` with a fuel bound
  on the `for {}` loop and the log of the items handed to the consumer; `fasta_Write`, `fastq_Write`
  over the abstract failing writer `Bio.GoRt.Wr`):

  * the log of an iterator is the model decode cut after the first item the consumer declined
    (`takeThrough`), for every input, both endings and every consumer;
  * `Write` performs the model's `Write` calls (`Fasta.writeCalls 80`, `[Fastq.encode r]`) on the
    writer, stopping at the first error — `runWriter` of `Bio.Lemmas.Cross`.

  Guarded by the translator's `<f>_Found` flags as in `Bio.Lemmas.GoSrc`.
-/
import Bio.Lemmas.GoSrcReaders
import Bio.Lemmas.Iter
import Bio.Lemmas.IterReaders
import Bio.Lemmas.Cross
set_option linter.unusedVariables false
set_option linter.unusedSimpArgs false
namespace Bio.GoSrcLemmas
open Bio Bio.GoRt Bio.Generated

/-! ## `takeThroughH`: what a consumer that may keep state sees -/

theorem takeThroughH_cons {α : Type} (h : List α → Bool) (acc : List α) (x : α) (xs : List α) :
    takeThroughH h acc (x :: xs)
      = if h (acc ++ [x]) then takeThroughH h (acc ++ [x]) xs else acc ++ [x] := rfl

theorem takeThroughH_singleton {α : Type} (h : List α → Bool) (acc : List α) (x : α) :
    takeThroughH h acc [x] = acc ++ [x] := by
  simp only [takeThroughH]; split <;> rfl

/-- the items handed over extend `acc` by a prefix of `xs`, and the consumer said "go on" after every
item but the last -/
theorem takeThroughH_spec {α : Type} (h : List α → Bool) (xs : List α) : ∀ (acc : List α),
    ∃ t, takeThroughH h acc xs = acc ++ t ∧ t <+: xs
      ∧ ∀ j, j + 1 < t.length → h (acc ++ t.take (j + 1)) = true := by
  induction xs with
  | nil => intro acc; exact ⟨[], by simp [takeThroughH], List.prefix_refl _, by simp⟩
  | cons x xs ih =>
    intro acc
    by_cases hx : h (acc ++ [x]) = true
    · obtain ⟨t, h1, h2, h3⟩ := ih (acc ++ [x])
      refine ⟨x :: t, by simp [takeThroughH, hx, h1], by simpa using h2, ?_⟩
      intro j hj
      cases j with
      | zero => simpa using hx
      | succ j =>
        have := h3 j (by simpa using hj)
        simpa using this
    · refine ⟨[x], by simp [takeThroughH, hx], by simp, ?_⟩
      intro j hj; simp at hj

theorem takeThroughH_prefix {α : Type} (h : List α → Bool) (xs : List α) : takeThroughH h [] xs <+: xs := by
  obtain ⟨t, h1, h2, _⟩ := takeThroughH_spec h xs []
  rw [h1]; simpa using h2

/-- every call but the last returned `true` … -/
theorem takeThroughH_go_on {α : Type} (h : List α → Bool) (xs : List α) (i : Nat)
    (hi : i + 1 < (takeThroughH h [] xs).length) : h ((takeThroughH h [] xs).take (i + 1)) = true := by
  obtain ⟨t, h1, _, h3⟩ := takeThroughH_spec h xs []
  rw [h1] at hi ⊢
  simpa using h3 i (by simpa using hi)

/-- … so a call that returned `false` was the last one -/
theorem takeThroughH_stop {α : Type} (h : List α → Bool) (xs : List α) (i : Nat)
    (hi : i < (takeThroughH h [] xs).length) (hf : h ((takeThroughH h [] xs).take (i + 1)) = false) :
    i + 1 = (takeThroughH h [] xs).length := by
  by_cases hlt : i + 1 < (takeThroughH h [] xs).length
  · rw [takeThroughH_go_on h xs i hlt] at hf; cases hf
  · omega

/-- the verdict on the LAST item of the run does not matter: consumers that agree on every shorter
history hand over the same items -/
theorem takeThroughH_congr {α : Type} (h g : List α → Bool) (xs : List α) : ∀ (acc : List α),
    (∀ l, l.length < acc.length + xs.length → h l = g l) → takeThroughH h acc xs = takeThroughH g acc xs := by
  induction xs with
  | nil => intro acc _; rfl
  | cons x xs ih =>
    intro acc hl
    cases xs with
    | nil => rw [takeThroughH_singleton, takeThroughH_singleton]
    | cons y ys =>
      rw [takeThroughH_cons h, takeThroughH_cons g, hl (acc ++ [x]) (by simp),
        ih (acc ++ [x]) (fun l hlen => hl l (by simp at hlen ⊢; omega))]

/-- a consumer without state: it judges the current item (the last of the history) -/
def lastH {α : Type} (f : α → Bool) : List α → Bool :=
  fun l => match l.getLast? with | some x => f x | none => true

@[simp] theorem lastH_append_singleton {α : Type} (f : α → Bool) (l : List α) (x : α) :
    lastH f (l ++ [x]) = f x := by
  simp [lastH]

/-- the bridge: for a consumer without state, `takeThroughH` is `takeThrough` -/
theorem takeThroughH_lastH_acc {α : Type} (f : α → Bool) (xs : List α) : ∀ (acc : List α),
    takeThroughH (lastH f) acc xs = acc ++ takeThrough (fun x => !f x) xs := by
  induction xs with
  | nil => intro acc; simp [takeThroughH, takeThrough]
  | cons x xs ih =>
    intro acc
    rw [takeThroughH, lastH_append_singleton, takeThrough_cons, ih]
    cases f x <;> simp

theorem takeThroughH_lastH {α : Type} (f : α → Bool) (xs : List α) :
    takeThroughH (lastH f) [] xs = takeThrough (fun x => !f x) xs := by
  rw [takeThroughH_lastH_acc]; rfl

theorem takeThrough_map {α β : Type} (p : β → Bool) (g : α → β) (l : List α) :
    takeThrough p (l.map g) = (takeThrough (fun a => p (g a)) l).map g := by
  induction l with
  | nil => rfl
  | cons a l ih =>
    rw [List.map_cons, takeThrough_cons, takeThrough_cons, ih]
    cases p (g a) <;> simp

/-! ## Iterators: the generic `for { x, err := r.read(); … }` loop -/

/-- what the `for { x, err := r.read(); … }` loop of an `iter()` closure computes, by recursion on the
fuel; `acc` = the items handed over so far, `h` = the consumer, asked about the whole history -/
def iterSpec {ρ σ : Type} (read : σ → Option ((Option ρ × GoErr) × σ)) (h : List (Option ρ × GoErr) → Bool) :
    Nat → List (Option ρ × GoErr) → σ → Option (List (Option ρ × GoErr))
  | 0, _, _ => none
  | fuel + 1, acc, s =>
    match read s with
    | none => none
    | some ((x, err), s') =>
      if err != GoErr.nil then
        (if err != GoErr.eof then some (acc ++ [(none, err)]) else some acc)
      else if h (acc ++ [(x, GoErr.nil)]) then iterSpec read h fuel (acc ++ [(x, GoErr.nil)]) s'
      else some (acc ++ [(x, GoErr.nil)])

abbrev IterSt (ρ σ : Type) := Option (List (Option ρ × GoErr)) × List (Option ρ × GoErr) × σ × Bool

def iterStep {ρ σ : Type} (h : List (Option ρ × GoErr) → Bool) (st : IterSt ρ σ) (r : (Option ρ × GoErr) × σ) :
    ForInStep (IterSt ρ σ) :=
  if r.1.2 != GoErr.nil then
    (if r.1.2 != GoErr.eof then .done (none, st.2.1 ++ [(none, r.1.2)], r.2, false)
     else .done (none, st.2.1, r.2, false))
  else if h (st.2.1 ++ [(r.1.1, GoErr.nil)]) then .yield (none, st.2.1 ++ [(r.1.1, GoErr.nil)], r.2, st.2.2.2)
  else .done (some (st.2.1 ++ [(r.1.1, GoErr.nil)]), st.2.1 ++ [(r.1.1, GoErr.nil)], r.2, st.2.2.2)

theorem iter_loop {ρ σ : Type} (read : σ → Option ((Option ρ × GoErr) × σ)) (h : List (Option ρ × GoErr) → Bool)
    (body : Nat → IterSt ρ σ → Option (ForInStep (IterSt ρ σ)))
    (fin : IterSt ρ σ → Option (List (Option ρ × GoErr)))
    (hbody : ∀ i st, body i st = (read st.2.2.1).bind fun r => some (iterStep h st r))
    (hfin : ∀ st, fin st = match st.1 with
      | some r => some r
      | none => if st.2.2.2 = true then none else some st.2.1)
    (l : List Nat) : ∀ (log : List (Option ρ × GoErr)) (s : σ),
    (forIn l ((none, log, s, true) : IterSt ρ σ) body).bind fin = iterSpec read h l.length log s := by
  induction l with
  | nil => intro log s; simp [iterSpec, hfin]
  | cons a l ih =>
    intro log s
    simp only [List.forIn_cons, List.length_cons, iterSpec, hbody]
    cases hr : read s with
    | none => simp
    | some r =>
      obtain ⟨⟨x, err⟩, s'⟩ := r
      simp only [Option.bind_some, Option.bind_eq_bind, iterStep]
      by_cases h1 : (err != GoErr.nil) = true
      · by_cases h2 : (err != GoErr.eof) = true
        · simp [h1, h2, hfin]
        · simp [h1, h2, hfin]
      · by_cases h3 : h (log ++ [(x, GoErr.nil)]) = true
        · simp only [h1, h3, if_false, Bool.false_eq_true, if_true]
          exact ih (log ++ [(x, GoErr.nil)]) s'
        · simp [h1, h3, hfin]

theorem fasta_iter_spec (hF : GoSrc.fasta_iter_Found = true) (fuel : Nat) (src : Bytes) (e : Ending)
    (h : List (Option (Bytes × Bytes) × GoErr) → Bool) :
    GoSrc.fasta_iter fuel src e h = iterSpec (fun s => GoSrc.fasta_read s e) h fuel [] src := by
  first
  | exact absurd hF (by decide)
  | (unfold GoSrc.fasta_iter
     simp only [Option.pure_def, Option.bind_eq_bind]
     refine (iter_loop (fun s => GoSrc.fasta_read s e) h _ _ ?_ ?_ (List.range fuel) [] src).trans ?_
     · intro i st
       cases GoSrc.fasta_read st.2.2.1 e with
       | none => rfl
       | some r =>
         obtain ⟨⟨x, err⟩, s'⟩ := r
         cases err <;> cases hh : h (st.2.1 ++ [(x, GoErr.nil)]) <;> simp [iterStep, hh]
     · intro st
       rcases st with ⟨_ | r, log, s, _ | _⟩ <;> rfl
     · rw [List.length_range])

theorem fastq_iter_spec (hF : GoSrc.fastq_iter_Found = true) (fuel : Nat) (ls : List Bytes) (e : Ending)
    (h : List (Option (Bytes × Bytes × Bytes) × GoErr) → Bool) :
    GoSrc.fastq_iter fuel ls e h = iterSpec (fun s => GoSrc.fastq_read s e) h fuel [] ls := by
  first
  | exact absurd hF (by decide)
  | (unfold GoSrc.fastq_iter
     simp only [Option.pure_def, Option.bind_eq_bind]
     refine (iter_loop (fun s => GoSrc.fastq_read s e) h _ _ ?_ ?_ (List.range fuel) [] ls).trans ?_
     · intro i st
       cases GoSrc.fastq_read st.2.2.1 e with
       | none => rfl
       | some r =>
         obtain ⟨⟨x, err⟩, s'⟩ := r
         cases err <;> cases hh : h (st.2.1 ++ [(x, GoErr.nil)]) <;> simp [iterStep, hh]
     · intro st
       rcases st with ⟨_ | r, log, s, _ | _⟩ <;> rfl
     · rw [List.length_range])

/-- the loop asks the consumer only about histories that end in a record `(x, nil)`: its verdict on
the error item is ignored -/
theorem iterSpec_congr {ρ σ : Type} (read : σ → Option ((Option ρ × GoErr) × σ))
    (h g : List (Option ρ × GoErr) → Bool) (hg : ∀ l x, h (l ++ [(x, GoErr.nil)]) = g (l ++ [(x, GoErr.nil)])) :
    ∀ (fuel : Nat) (acc : List (Option ρ × GoErr)) (s : σ), iterSpec read h fuel acc s = iterSpec read g fuel acc s := by
  intro fuel
  induction fuel with
  | zero => intro acc s; rfl
  | succ fuel ih =>
    intro acc s
    simp only [iterSpec, hg, ih]

/-! ### FASTA / FASTQ: the loop over the translated `read` is the model decode, cut by the consumer -/

/-- the `(*Fasta, error)` pair the iterator hands to its consumer for an item of the model decode -/
def faRaw : Item Fasta.Fa → Option (Bytes × Bytes) × GoErr
  | .ok r => (some (r.name, r.seq), GoErr.nil)
  | .err => (none, GoErr.other)

/-- the model item of a `(*Fasta, error)` pair: a record, or (no record) an error -/
def faItem : Option (Bytes × Bytes) × GoErr → Item Fasta.Fa
  | (some (n, s), _) => .ok ⟨n, s⟩
  | (none, _) => .err

@[simp] theorem faItem_faRaw (it : Item Fasta.Fa) : faItem (faRaw it) = it := by
  cases it <;> rfl

theorem decodeSrc_cons' (e : Ending) (b : UInt8) (rest : Bytes) :
    Fasta.decodeSrc e (b :: rest) =
      if (Fasta.readOne b rest).2 = [] ∧ e = Ending.fail then [.err]
      else .ok (Fasta.readOne b rest).1 :: Fasta.decodeSrc e (Fasta.readOne b rest).2 := by
  rw [Fasta.decodeSrc_cons]
  by_cases h : (Fasta.readOne b rest).2 = []
  · cases e <;> simp [h, Fasta.decodeSrc_nil]
  · simp [h]

theorem fasta_iterSpec (hR : GoSrc.fasta_read_Found = true) (e : Ending)
    (h : List (Option (Bytes × Bytes) × GoErr) → Bool) :
    ∀ (fuel : Nat) (acc : List (Option (Bytes × Bytes) × GoErr)) (src : Bytes), src.length < fuel →
      iterSpec (fun s => GoSrc.fasta_read s e) h fuel acc src
        = some (takeThroughH h acc ((Fasta.decodeSrc e src).map faRaw)) := by
  intro fuel
  induction fuel with
  | zero => intro acc src h; omega
  | succ fuel ih =>
    intro acc src hx
    cases src with
    | nil =>
      rw [iterSpec, fasta_read_nil hR, Fasta.decodeSrc_nil]
      cases e <;> simp [endErr, takeThroughH, faRaw]
    | cons b rest =>
      rw [iterSpec, fasta_read_cons hR, decodeSrc_cons']
      have hlt := fasta_readOne_rest_lt b rest
      by_cases h2 : (Fasta.readOne b rest).2 = [] ∧ e = Ending.fail
      · simp [h2, takeThroughH, faRaw]
      · simp only [h2, if_false, List.map_cons, takeThroughH]
        rw [ih _ _ (by simp only [List.length_cons] at hx hlt; omega)]
        simp [faRaw]
        split <;> rename_i hh <;> simp [hh]

def fqRaw : Item Fastq.Fq → Option (Bytes × Bytes × Bytes) × GoErr
  | .ok r => (some (r.name, r.seq, r.quals), GoErr.nil)
  | .err => (none, GoErr.other)

def fqItem : Option (Bytes × Bytes × Bytes) × GoErr → Item Fastq.Fq
  | (some (n, s, q), _) => .ok ⟨n, s, q⟩
  | (none, _) => .err

@[simp] theorem fqItem_fqRaw (it : Item Fastq.Fq) : fqItem (fqRaw it) = it := by
  cases it <;> rfl

theorem fastq_iterSpec (hR : GoSrc.fastq_read_Found = true) (e : Ending)
    (h : List (Option (Bytes × Bytes × Bytes) × GoErr) → Bool) :
    ∀ (fuel : Nat) (acc : List (Option (Bytes × Bytes × Bytes) × GoErr)) (ls : List Bytes), ls.length < fuel →
      iterSpec (fun s => GoSrc.fastq_read s e) h fuel acc ls
        = some (takeThroughH h acc ((Fastq.fromLines e ls).map fqRaw)) := by
  intro fuel
  induction fuel with
  | zero => intro acc ls h; omega
  | succ fuel ih =>
    intro acc ls hls
    rw [iterSpec, fastq_read_spec hR]
    rcases fastqStep_cases e ls with ⟨_, h1, h2⟩ | ⟨name, sq, pl, ql, rest, hls', _, h1, h2⟩ | ⟨_, _, h1, h2⟩
    · rw [h1, h2]; cases e <;> simp [endErr, takeThroughH, fqRaw]
    · rw [h1, h2]
      simp only [List.map_cons, takeThroughH]
      rw [ih _ rest (by subst hls'; simp only [List.length_cons] at hls; omega)]
      simp [fqRaw]
      split <;> rename_i hh <;> simp [hh]
    · rw [h2]
      generalize fastqStep e ls = r at h1
      obtain ⟨⟨a, b⟩, c⟩ := r
      simp only [Prod.mk.injEq] at h1
      obtain ⟨rfl, rfl⟩ := h1
      simp [takeThroughH, fqRaw]

/-! ### The statements about the translated closures -/

/-- every call but the last returned `true`, hence a declined item is the last one -/
theorem declined_is_last {α : Type} (f : α → Bool) (L : List α) (h : ∀ x ∈ L.dropLast, f x = true)
    (i : Nat) (x : α) (hx : L[i]? = some x) (hf : f x = false) : i + 1 = L.length := by
  have hi : i < L.length := by
    rcases Nat.lt_or_ge i L.length with h | h
    · exact h
    · rw [List.getElem?_eq_none h] at hx; cases hx
  by_cases hlt : i < L.length - 1
  · have : L.dropLast[i]? = some x := by rw [List.getElem?_dropLast, if_pos hlt, hx]
    have := h x (List.mem_of_getElem? this)
    rw [hf] at this; cases this
  · omega

/-- FASTA, every consumer (it may keep state: it is asked about the history of items handed to it):
the log is the model decode, as `(*Fasta, error)` pairs, up to and including the first item after
which the consumer said stop.  The error item (always the last item of the decode) is `(nil, err)`
with `err` neither `nil` nor `io.EOF`; the verdict on it is ignored by the Go code and, being the
verdict on the last item, irrelevant for `takeThroughH` (`takeThroughH_congr`). -/
theorem fasta_iter_raw (hI : GoSrc.fasta_iter_Found = true) (hR : GoSrc.fasta_read_Found = true)
    (fuel : Nat) (src : Bytes) (e : Ending) (h : List (Option (Bytes × Bytes) × GoErr) → Bool)
    (hf : src.length + 1 ≤ fuel) :
    GoSrc.fasta_iter fuel src e h = some (takeThroughH h [] ((Fasta.decodeSrc e src).map faRaw)) := by
  rw [fasta_iter_spec hI, fasta_iterSpec hR e h fuel [] src (by omega)]

/-- … as model items -/
theorem fasta_iter_items (hI : GoSrc.fasta_iter_Found = true) (hR : GoSrc.fasta_read_Found = true)
    (fuel : Nat) (src : Bytes) (e : Ending) (h : List (Option (Bytes × Bytes) × GoErr) → Bool)
    (hf : src.length + 1 ≤ fuel) :
    (GoSrc.fasta_iter fuel src e h).map (·.map faItem)
      = some ((takeThroughH h [] ((Fasta.decodeSrc e src).map faRaw)).map faItem) := by
  rw [fasta_iter_raw hI hR fuel src e h hf]; rfl

theorem fasta_iter_total (hI : GoSrc.fasta_iter_Found = true) (hR : GoSrc.fasta_read_Found = true)
    (fuel : Nat) (src : Bytes) (e : Ending) (h : List (Option (Bytes × Bytes) × GoErr) → Bool)
    (hf : src.length + 1 ≤ fuel) : (GoSrc.fasta_iter fuel src e h).isSome = true := by
  rw [fasta_iter_raw hI hR fuel src e h hf]; rfl

/-- C18 for every consumer: the log is a prefix of the uninterrupted run; after every item but the
last the consumer said "go on"; so an item after which it said "stop" is the last one logged -/
theorem fasta_iter_stops (hI : GoSrc.fasta_iter_Found = true) (hR : GoSrc.fasta_read_Found = true)
    (fuel : Nat) (src : Bytes) (e : Ending) (h : List (Option (Bytes × Bytes) × GoErr) → Bool)
    (hf : src.length + 1 ≤ fuel) :
    ∃ L, GoSrc.fasta_iter fuel src e h = some L ∧ L <+: (Fasta.decodeSrc e src).map faRaw
      ∧ L.map faItem <+: Fasta.decodeSrc e src
      ∧ (∀ i, i + 1 < L.length → h (L.take (i + 1)) = true)
      ∧ (∀ i, i < L.length → h (L.take (i + 1)) = false → i + 1 = L.length) := by
  refine ⟨_, fasta_iter_raw hI hR fuel src e h hf, takeThroughH_prefix _ _, ?_,
    takeThroughH_go_on _ _, takeThroughH_stop _ _⟩
  have := (takeThroughH_prefix h ((Fasta.decodeSrc e src).map faRaw)).map faItem
  simpa [Function.comp_def] using this

/-- the answer to `yield(nil, err)` is never looked at: consumers that agree on every history ending
in a record get the same log (any fuel) -/
theorem fasta_iter_congr (hI : GoSrc.fasta_iter_Found = true)
    (fuel : Nat) (src : Bytes) (e : Ending) (h g : List (Option (Bytes × Bytes) × GoErr) → Bool)
    (hg : ∀ l x, h (l ++ [(x, GoErr.nil)]) = g (l ++ [(x, GoErr.nil)])) :
    GoSrc.fasta_iter fuel src e h = GoSrc.fasta_iter fuel src e g := by
  rw [fasta_iter_spec hI, fasta_iter_spec hI, iterSpec_congr _ h g hg]

/-- a consumer WITHOUT state (`lastH f`: it judges the current item): `takeThrough` -/
theorem fasta_iter_raw_pure (hI : GoSrc.fasta_iter_Found = true) (hR : GoSrc.fasta_read_Found = true)
    (fuel : Nat) (src : Bytes) (e : Ending) (f : Option (Bytes × Bytes) × GoErr → Bool)
    (hf : src.length + 1 ≤ fuel) :
    GoSrc.fasta_iter fuel src e (lastH f)
      = some ((takeThrough (fun it => !f (faRaw it)) (Fasta.decodeSrc e src)).map faRaw) := by
  rw [fasta_iter_raw hI hR fuel src e _ hf, takeThroughH_lastH, takeThrough_map]

theorem fasta_iter_log (hI : GoSrc.fasta_iter_Found = true) (hR : GoSrc.fasta_read_Found = true)
    (fuel : Nat) (src : Bytes) (e : Ending) (f : Option (Bytes × Bytes) × GoErr → Bool)
    (hf : src.length + 1 ≤ fuel) :
    (GoSrc.fasta_iter fuel src e (lastH f)).map (·.map faItem)
      = some (takeThrough (fun it => !f (faRaw it)) (Fasta.decodeSrc e src)) := by
  rw [fasta_iter_raw_pure hI hR fuel src e f hf]
  simp [Function.comp_def]

theorem fasta_iter_all (hI : GoSrc.fasta_iter_Found = true) (hR : GoSrc.fasta_read_Found = true)
    (fuel : Nat) (src : Bytes) (e : Ending) (hf : src.length + 1 ≤ fuel) :
    (GoSrc.fasta_iter fuel src e (fun _ => true)).map (·.map faItem) = some (Fasta.decodeSrc e src) := by
  have h1 : GoSrc.fasta_iter fuel src e (fun _ => true) = GoSrc.fasta_iter fuel src e (lastH fun _ => true) :=
    fasta_iter_congr hI fuel src e _ _ (by intro l x; simp)
  rw [h1, fasta_iter_log hI hR fuel src e _ hf]
  exact congrArg some (takeThrough_false _)

theorem fasta_iter_stops_pure (hI : GoSrc.fasta_iter_Found = true) (hR : GoSrc.fasta_read_Found = true)
    (fuel : Nat) (src : Bytes) (e : Ending) (f : Option (Bytes × Bytes) × GoErr → Bool)
    (hf : src.length + 1 ≤ fuel) :
    ∃ L, GoSrc.fasta_iter fuel src e (lastH f) = some L ∧ L.map faItem <+: Fasta.decodeSrc e src
      ∧ (∀ x ∈ L.dropLast, f x = true)
      ∧ (∀ i x, L[i]? = some x → f x = false → i + 1 = L.length) := by
  refine ⟨_, fasta_iter_raw_pure hI hR fuel src e f hf, ?_, ?_⟩
  · simpa [Function.comp_def] using takeThrough_isPrefix (fun it => !f (faRaw it)) (Fasta.decodeSrc e src)
  · have hd : ∀ x ∈ ((takeThrough (fun it => !f (faRaw it)) (Fasta.decodeSrc e src)).map faRaw).dropLast,
        f x = true := by
      intro x hx
      rw [← List.map_dropLast, List.mem_map] at hx
      obtain ⟨it, hit, rfl⟩ := hx
      simpa using takeThrough_dropLast (fun it => !f (faRaw it)) (Fasta.decodeSrc e src) it hit
    exact ⟨hd, declined_is_last f _ hd⟩

/-- FASTQ, every consumer. -/
theorem fastq_iter_raw (hI : GoSrc.fastq_iter_Found = true) (hR : GoSrc.fastq_read_Found = true)
    (fuel : Nat) (ls : List Bytes) (e : Ending) (h : List (Option (Bytes × Bytes × Bytes) × GoErr) → Bool)
    (hf : ls.length + 1 ≤ fuel) :
    GoSrc.fastq_iter fuel ls e h = some (takeThroughH h [] ((Fastq.fromLines e ls).map fqRaw)) := by
  rw [fastq_iter_spec hI, fastq_iterSpec hR e h fuel [] ls (by omega)]

theorem fastq_iter_items (hI : GoSrc.fastq_iter_Found = true) (hR : GoSrc.fastq_read_Found = true)
    (fuel : Nat) (ls : List Bytes) (e : Ending) (h : List (Option (Bytes × Bytes × Bytes) × GoErr) → Bool)
    (hf : ls.length + 1 ≤ fuel) :
    (GoSrc.fastq_iter fuel ls e h).map (·.map fqItem)
      = some ((takeThroughH h [] ((Fastq.fromLines e ls).map fqRaw)).map fqItem) := by
  rw [fastq_iter_raw hI hR fuel ls e h hf]; rfl

theorem fastq_iter_total (hI : GoSrc.fastq_iter_Found = true) (hR : GoSrc.fastq_read_Found = true)
    (fuel : Nat) (ls : List Bytes) (e : Ending) (h : List (Option (Bytes × Bytes × Bytes) × GoErr) → Bool)
    (hf : ls.length + 1 ≤ fuel) : (GoSrc.fastq_iter fuel ls e h).isSome = true := by
  rw [fastq_iter_raw hI hR fuel ls e h hf]; rfl

theorem fastq_iter_stops (hI : GoSrc.fastq_iter_Found = true) (hR : GoSrc.fastq_read_Found = true)
    (fuel : Nat) (ls : List Bytes) (e : Ending) (h : List (Option (Bytes × Bytes × Bytes) × GoErr) → Bool)
    (hf : ls.length + 1 ≤ fuel) :
    ∃ L, GoSrc.fastq_iter fuel ls e h = some L ∧ L <+: (Fastq.fromLines e ls).map fqRaw
      ∧ L.map fqItem <+: Fastq.fromLines e ls
      ∧ (∀ i, i + 1 < L.length → h (L.take (i + 1)) = true)
      ∧ (∀ i, i < L.length → h (L.take (i + 1)) = false → i + 1 = L.length) := by
  refine ⟨_, fastq_iter_raw hI hR fuel ls e h hf, takeThroughH_prefix _ _, ?_,
    takeThroughH_go_on _ _, takeThroughH_stop _ _⟩
  have := (takeThroughH_prefix h ((Fastq.fromLines e ls).map fqRaw)).map fqItem
  simpa [Function.comp_def] using this

theorem fastq_iter_congr (hI : GoSrc.fastq_iter_Found = true)
    (fuel : Nat) (ls : List Bytes) (e : Ending) (h g : List (Option (Bytes × Bytes × Bytes) × GoErr) → Bool)
    (hg : ∀ l x, h (l ++ [(x, GoErr.nil)]) = g (l ++ [(x, GoErr.nil)])) :
    GoSrc.fastq_iter fuel ls e h = GoSrc.fastq_iter fuel ls e g := by
  rw [fastq_iter_spec hI, fastq_iter_spec hI, iterSpec_congr _ h g hg]

theorem fastq_iter_raw_pure (hI : GoSrc.fastq_iter_Found = true) (hR : GoSrc.fastq_read_Found = true)
    (fuel : Nat) (ls : List Bytes) (e : Ending) (f : Option (Bytes × Bytes × Bytes) × GoErr → Bool)
    (hf : ls.length + 1 ≤ fuel) :
    GoSrc.fastq_iter fuel ls e (lastH f)
      = some ((takeThrough (fun it => !f (fqRaw it)) (Fastq.fromLines e ls)).map fqRaw) := by
  rw [fastq_iter_raw hI hR fuel ls e _ hf, takeThroughH_lastH, takeThrough_map]

theorem fastq_iter_log (hI : GoSrc.fastq_iter_Found = true) (hR : GoSrc.fastq_read_Found = true)
    (fuel : Nat) (ls : List Bytes) (e : Ending) (f : Option (Bytes × Bytes × Bytes) × GoErr → Bool)
    (hf : ls.length + 1 ≤ fuel) :
    (GoSrc.fastq_iter fuel ls e (lastH f)).map (·.map fqItem)
      = some (takeThrough (fun it => !f (fqRaw it)) (Fastq.fromLines e ls)) := by
  rw [fastq_iter_raw_pure hI hR fuel ls e f hf]
  simp [Function.comp_def]

theorem fastq_iter_all (hI : GoSrc.fastq_iter_Found = true) (hR : GoSrc.fastq_read_Found = true)
    (fuel : Nat) (ls : List Bytes) (e : Ending) (hf : ls.length + 1 ≤ fuel) :
    (GoSrc.fastq_iter fuel ls e (fun _ => true)).map (·.map fqItem) = some (Fastq.fromLines e ls) := by
  have h1 : GoSrc.fastq_iter fuel ls e (fun _ => true) = GoSrc.fastq_iter fuel ls e (lastH fun _ => true) :=
    fastq_iter_congr hI fuel ls e _ _ (by intro l x; simp)
  rw [h1, fastq_iter_log hI hR fuel ls e _ hf]
  exact congrArg some (takeThrough_false _)

theorem fastq_iter_stops_pure (hI : GoSrc.fastq_iter_Found = true) (hR : GoSrc.fastq_read_Found = true)
    (fuel : Nat) (ls : List Bytes) (e : Ending) (f : Option (Bytes × Bytes × Bytes) × GoErr → Bool)
    (hf : ls.length + 1 ≤ fuel) :
    ∃ L, GoSrc.fastq_iter fuel ls e (lastH f) = some L ∧ L.map fqItem <+: Fastq.fromLines e ls
      ∧ (∀ x ∈ L.dropLast, f x = true)
      ∧ (∀ i x, L[i]? = some x → f x = false → i + 1 = L.length) := by
  refine ⟨_, fastq_iter_raw_pure hI hR fuel ls e f hf, ?_, ?_⟩
  · simpa [Function.comp_def] using takeThrough_isPrefix (fun it => !f (fqRaw it)) (Fastq.fromLines e ls)
  · have hd : ∀ x ∈ ((takeThrough (fun it => !f (fqRaw it)) (Fastq.fromLines e ls)).map fqRaw).dropLast,
        f x = true := by
      intro x hx
      rw [← List.map_dropLast, List.mem_map] at hx
      obtain ⟨it, hit, rfl⟩ := hx
      simpa using takeThrough_dropLast (fun it => !f (fqRaw it)) (Fastq.fromLines e ls) it hit
    exact ⟨hd, declined_is_last f _ hd⟩

/-! ## Writers -/

/-- perform the `Write` calls in order on the abstract writer, stopping at the first error -/
def wrWriteAll : Wr → List Bytes → Wr × GoErr
  | w, [] => (w, GoErr.nil)
  | w, c :: cs => if (wrWrite w c).2 = GoErr.nil then wrWriteAll (wrWrite w c).1 cs else wrWrite w c

theorem wrWriteAll_runWriter' (k : Nat) (o : Bytes) (calls : List Bytes) :
    wrWriteAll ⟨k, o⟩ calls
      = (⟨k - (runWriter k calls).1.length, o ++ (runWriter k calls).1⟩,
         if (runWriter k calls).2 then GoErr.nil else GoErr.other) := by
  induction calls generalizing k o with
  | nil => simp [wrWriteAll, runWriter]
  | cons c cs ih =>
    rw [wrWriteAll, runWriter]
    by_cases h : c.length ≤ k
    · simp only [wrWrite, h, if_true, ih, List.length_append, List.append_assoc]
      congr 2
      omega
    · have hk : k ≤ c.length := by omega
      simp [wrWrite, h, List.length_take, Nat.min_eq_left hk]

theorem wrWriteAll_runWriter (k : Nat) (calls : List Bytes) :
    wrWriteAll ⟨k, []⟩ calls
      = (⟨k - (runWriter k calls).1.length, (runWriter k calls).1⟩,
         if (runWriter k calls).2 then GoErr.nil else GoErr.other) := by
  simpa using wrWriteAll_runWriter' k [] calls

theorem wrWriteAll_singleton (w : Wr) (c : Bytes) : wrWriteAll w [c] = wrWrite w c := by
  simp only [wrWriteAll]
  split
  · rename_i h; exact Prod.ext rfl h.symm
  · rfl

theorem fastq_Write_eq (hF : GoSrc.fastq_Write_Found = true) (n s q : Bytes) (w : Wr) :
    GoSrc.fastq_Write n s q w
      = some ((wrWrite w (Fastq.encode ⟨n, s, q⟩)).2, (wrWrite w (Fastq.encode ⟨n, s, q⟩)).1) := by
  first
  | exact absurd hF (by decide)
  | (unfold GoSrc.fastq_Write
     simp [Fastq.encode])


/-- `f.Sequence[i:min(i+80, len)]` at `i = 80*j` is the next line of `Fasta.wrap 80` -/
theorem slice_chunk (s : Bytes) (j : Nat) (h : 80 * j ≤ s.length) :
    slice s ((j : Int) * 80) (min ((j : Int) * 80 + 80) (len s)) = some ((s.drop (80 * j)).take 80) := by
  unfold slice len
  have h1 : (0 : Int) ≤ (j : Int) * 80 ∧ (j : Int) * 80 ≤ min ((j : Int) * 80 + 80) (s.length : Int)
      ∧ min ((j : Int) * 80 + 80) (s.length : Int) ≤ (s.length : Int) := by omega
  rw [if_pos h1]
  have e1 : ((j : Int) * 80).toNat = 80 * j := by omega
  have e2 : (min ((j : Int) * 80 + 80) (s.length : Int) - (j : Int) * 80).toNat = min 80 (s.length - 80 * j) := by omega
  rw [e1, e2]
  congr 1
  rw [List.take_eq_take_iff]
  simp only [List.length_drop]; omega

abbrev WrSt := Option (GoErr × Wr) × Wr

/-- the loop state after a run of `Write` calls: `return err` inside the loop, or go on -/
def wrResult (r : Wr × GoErr) : WrSt := if r.2 = GoErr.nil then (none, r.1) else (some (r.2, r.1), r.1)

theorem fasta_write_loop (s : Bytes) (body : Int → WrSt → Option (ForInStep WrSt))
    (hbody : ∀ (j : Nat) (o : Option (GoErr × Wr)) (w : Wr), 80 * j < s.length →
      body ((j : Int) * 80) (o, w)
        = some (if (wrWrite w ((s.drop (80 * j)).take 80 ++ [10])).2 = GoErr.nil
            then .yield (none, (wrWrite w ((s.drop (80 * j)).take 80 ++ [10])).1)
            else .done (some ((wrWrite w ((s.drop (80 * j)).take 80 ++ [10])).2,
                   (wrWrite w ((s.drop (80 * j)).take 80 ++ [10])).1),
                   (wrWrite w ((s.drop (80 * j)).take 80 ++ [10])).1))) :
    ∀ (n j : Nat) (w : Wr), n = (s.length - 80 * j + 79) / 80 →
      forIn ((List.range' j n).map fun (k : Nat) => (k : Int) * 80) ((none, w) : WrSt) body
        = some (wrResult (wrWriteAll w ((Fasta.wrap 80 (s.drop (80 * j))).map (· ++ [10])))) := by
  intro n
  induction n with
  | zero =>
    intro j w hn
    have : s.drop (80 * j) = [] := List.drop_of_length_le (by omega)
    simp [this, Fasta.wrap_nil, wrWriteAll, wrResult]
  | succ n ih =>
    intro j w hn
    have hlt : 80 * j < s.length := by omega
    have hne : s.drop (80 * j) ≠ [] := by
      intro h; have := congrArg List.length h; simp at this; omega
    rw [Fasta.wrap_cons_eq 80 (by omega) _ hne]
    simp only [List.range'_succ, List.map_cons, List.forIn_cons, hbody j none w hlt, wrWriteAll,
      Option.bind_eq_bind, Option.bind_some]
    by_cases hw : (wrWrite w ((s.drop (80 * j)).take 80 ++ [10])).2 = GoErr.nil
    · simp only [hw, if_true]
      rw [ih (j + 1) _ (by omega), List.drop_drop]
      rw [show 80 * j + 80 = 80 * (j + 1) by omega]
    · simp [hw, wrResult]

theorem fasta_Write_eq (hF : GoSrc.fasta_Write_Found = true) (n s : Bytes) (w : Wr) :
    GoSrc.fasta_Write n s w
      = some (let r := wrWriteAll w (Fasta.writeCalls 80 ⟨n, s⟩); (r.2, r.1)) := by
  first
  | exact absurd hF (by decide)
  | (unfold GoSrc.fasta_Write
     simp only [Option.pure_def, Option.bind_eq_bind]
     have hup : upToStep (len s) 80 = (List.range' 0 ((s.length - 80 * 0 + 79) / 80)).map fun (k : Nat) => (k : Int) * 80 := by
       simp [upToStep, len, List.range_eq_range']
     have hc : ([62] ++ n ++ [10] : Bytes) = 62 :: n ++ [10] := rfl
     rw [hup, hc]
     simp only [Fasta.writeCalls, wrWriteAll]
     generalize wrWrite w (62 :: n ++ [10]) = r0
     by_cases h0 : r0.2 = GoErr.nil
     · rw [fasta_write_loop s _ ?_ _ 0 _ rfl]
       · simp only [h0, Nat.mul_zero, List.drop_zero, wrResult]
         generalize wrWriteAll r0.1 ((Fasta.wrap 80 s).map (· ++ [10])) = r1
         by_cases h1 : r1.2 = GoErr.nil <;> simp [h1]
       · intro j o w' hj
         rw [slice_chunk s j (by omega)]
         simp only [Option.bind_some]
         by_cases hw : (wrWrite w' ((s.drop (80 * j)).take 80 ++ [10])).2 = GoErr.nil <;> simp [hw]
     · simp [h0])


/-! ### On a writer that accepts `k` more bytes -/

theorem wrWriteAll_take (k : Nat) (o : Bytes) (calls : List Bytes) :
    wrWriteAll ⟨k, o⟩ calls
      = (⟨k - (calls.flatten.take k).length, o ++ calls.flatten.take k⟩,
         if calls.flatten.length ≤ k then GoErr.nil else GoErr.other) := by
  rw [wrWriteAll_runWriter', runWriter_bytes]
  congr 1
  by_cases h : calls.flatten.length ≤ k
  · simp only [(runWriter_ok_iff k calls).2 h, h, ↓reduceIte]
  · have : (runWriter k calls).2 = false := by
      cases hb : (runWriter k calls).2
      · rfl
      · exact absurd ((runWriter_ok_iff k calls).1 hb) h
    simp only [this, h, ↓reduceIte, Bool.false_eq_true]

/-- FASTA `Write` on a writer with `k` bytes of room: an error iff the record's text is longer than
`k`; the bytes accepted are the first `k` bytes of the text -/
theorem fasta_Write_fault (hF : GoSrc.fasta_Write_Found = true) (n s : Bytes) (k : Nat) (o : Bytes) :
    GoSrc.fasta_Write n s ⟨k, o⟩
      = some (if (Fasta.encode 80 ⟨n, s⟩).length ≤ k then GoErr.nil else GoErr.other,
          ⟨k - ((Fasta.encode 80 ⟨n, s⟩).take k).length, o ++ (Fasta.encode 80 ⟨n, s⟩).take k⟩) := by
  rw [fasta_Write_eq hF, wrWriteAll_take]
  rfl

theorem fastq_Write_fault (hF : GoSrc.fastq_Write_Found = true) (n s q : Bytes) (k : Nat) (o : Bytes) :
    GoSrc.fastq_Write n s q ⟨k, o⟩
      = some (if (Fastq.encode ⟨n, s, q⟩).length ≤ k then GoErr.nil else GoErr.other,
          ⟨k - ((Fastq.encode ⟨n, s, q⟩).take k).length, o ++ (Fastq.encode ⟨n, s, q⟩).take k⟩) := by
  rw [fastq_Write_eq hF]
  by_cases h : (Fastq.encode ⟨n, s, q⟩).length ≤ k
  · simp [wrWrite, h, List.take_of_length_le h]
  · have hk : k ≤ (Fastq.encode ⟨n, s, q⟩).length := by omega
    simp [wrWrite, h, List.length_take, Nat.min_eq_left hk]

/-- `for _, r := range rs { if err := r.Write(w); err != nil { return err } }` over the translated
FASTA `Write` -/
def fastaWriteAll : List Fasta.Fa → Wr → Option (GoErr × Wr)
  | [], w => some (GoErr.nil, w)
  | r :: rs, w =>
    match GoSrc.fasta_Write r.name r.seq w with
    | none => none
    | some (GoErr.nil, w') => fastaWriteAll rs w'
    | some (err, w') => some (err, w')

/-- the same over the translated FASTQ `Write` -/
def fastqWriteAll : List Fastq.Fq → Wr → Option (GoErr × Wr)
  | [], w => some (GoErr.nil, w)
  | r :: rs, w =>
    match GoSrc.fastq_Write r.name r.seq r.quals w with
    | none => none
    | some (GoErr.nil, w') => fastqWriteAll rs w'
    | some (err, w') => some (err, w')

theorem fastaWriteAll_ok (hF : GoSrc.fasta_Write_Found = true) (rs : List Fasta.Fa) (k : Nat) (o : Bytes)
    (h : (Fasta.encodeAll 80 rs).length ≤ k) :
    fastaWriteAll rs ⟨k, o⟩
      = some (GoErr.nil, ⟨k - (Fasta.encodeAll 80 rs).length, o ++ Fasta.encodeAll 80 rs⟩) := by
  induction rs generalizing k o with
  | nil => simp [fastaWriteAll, Fasta.encodeAll]
  | cons r rs ih =>
    have he : Fasta.encodeAll 80 (r :: rs) = Fasta.encode 80 r ++ Fasta.encodeAll 80 rs := by
      simp [Fasta.encodeAll]
    rw [he, List.length_append] at h
    have h1 : (Fasta.encode 80 r).length ≤ k := by omega
    rw [fastaWriteAll, fasta_Write_fault hF r.name r.seq k o]
    simp only [h1, if_true, List.take_of_length_le h1]
    rw [ih _ _ (by omega), he]
    simp only [List.length_append, List.append_assoc]
    congr 3
    omega

theorem fastqWriteAll_ok (hF : GoSrc.fastq_Write_Found = true) (rs : List Fastq.Fq) (k : Nat) (o : Bytes)
    (h : (Fastq.encodeAll rs).length ≤ k) :
    fastqWriteAll rs ⟨k, o⟩
      = some (GoErr.nil, ⟨k - (Fastq.encodeAll rs).length, o ++ Fastq.encodeAll rs⟩) := by
  induction rs generalizing k o with
  | nil => simp [fastqWriteAll, Fastq.encodeAll]
  | cons r rs ih =>
    have he : Fastq.encodeAll (r :: rs) = Fastq.encode r ++ Fastq.encodeAll rs := by
      simp [Fastq.encodeAll]
    rw [he, List.length_append] at h
    have h1 : (Fastq.encode r).length ≤ k := by omega
    rw [fastqWriteAll, fastq_Write_fault hF r.name r.seq r.quals k o]
    simp only [h1, if_true, List.take_of_length_le h1]
    rw [ih _ _ (by omega), he]
    simp only [List.length_append, List.append_assoc]
    congr 3
    omega

end Bio.GoSrcLemmas
