/-
  `fasta.Reader`, `fasta.File` (formats/fasta/iter.go), `fastq.Reader`, `fastq.File`
  (formats/fastq/iter.go), as translated on every run from the Go SOURCE TEXT into
  `Bio.Generated.GoSrc.fasta_Reader`, `fasta_File`, `fastq_Reader`, `fastq_File`:

      func Reader(r io.Reader) iter.Seq2[*T, error] {
        return func(yield …) { for x, err := range newReader(r).iter() { if !yield(x, err) { break } } } }
      func File(file string) … { f, err := aio.Open(file); if err != nil { yield(nil, err); return }
        defer f.Close(); for x, err := range Reader(f) { if !yield(x, err) { break } } }

  TWO forwarding range-over-func loops on top of the translated `(*reader).iter` (`fasta_iter`,
  `fastq_iter`, `Bio.Lemmas.GoSrcIterWrite`).  Everything is an instance of `Bio.Lemmas.GoSrcFile`
  (`FileW.fwd`, `fwdC`, `after`, `after_takeThroughH`, `after_layers`, `fwd_replay`).

  * `*_Reader_spec`, `*_File_spec`: the translated text is `after yield (inner … (fwdC yield))`
    (behind the `aio.Open` test for `File`);
  * `*_Reader_raw`, `*_File_raw`: with the fuel of the inner theorems, `Reader = iter`, `File = Reader`;
  * `*_File_log`: one item list, cut by the consumer (`takeThroughH`), path opened or not;
  * `iterSpec_go_on`, `iterSpec_fwdC`, `after_iterSpec`: for ANY fuel the `iter()` loop has the
    take-through discipline and does not tell the loop body from the outer consumer, so a forwarding
    layer on top of it changes nothing — `*_Reader_any`, `*_File_any`: `Reader = iter`, `File = Reader`
    whatever the fuel (both sides run out of fuel together).

  Guarded by the translator's `_Found` flags as in `Bio.Lemmas.GoSrc`.
-/
import Bio.Lemmas.GoSrcFile
import Bio.Lemmas.GoSrcIterWrite
set_option linter.unusedVariables false
set_option linter.unusedSimpArgs false
namespace Bio.GoSrcLemmas
open Bio Bio.GoRt Bio.Generated

namespace FileW2
open SamRd FileW

/-- `(*Fasta, error)` -/
abbrev FaItem := Option (Bytes × Bytes) × GoErr
/-- `(*Fastq, error)` -/
abbrev FqItem := Option (Bytes × Bytes × Bytes) × GoErr

/-! ## The `iter()` loop under a forwarding body, for ANY fuel -/

/-- whatever the fuel: if the loop returns, the consumer answered `true` on every history but the last -/
theorem iterSpec_go_on {ρ σ : Type} (read : σ → Option ((Option ρ × GoErr) × σ))
    (h : List (Option ρ × GoErr) → Bool) :
    ∀ (fuel : Nat) (acc : List (Option ρ × GoErr)) (s : σ) (L : List (Option ρ × GoErr)),
      iterSpec read h fuel acc s = some L →
      ∃ t, L = acc ++ t ∧ ∀ j, j + 1 < t.length → h (acc ++ t.take (j + 1)) = true := by
  intro fuel
  induction fuel with
  | zero => intro acc s L hL; cases hL
  | succ fuel ih =>
    intro acc s L hL
    simp only [iterSpec] at hL
    split at hL
    · cases hL
    · split at hL
      · split at hL
        · cases hL; exact ⟨[_], rfl, by simp⟩
        · cases hL; exact ⟨[], by simp, by simp⟩
      · split at hL
        · rename_i hy
          obtain ⟨t, rfl, ht⟩ := ih _ _ _ hL
          refine ⟨_ :: t, List.append_assoc _ [_] t, ?_⟩
          intro j hj
          cases j with
          | zero => simpa using hy
          | succ j =>
            have := ht j (by simpa using hj)
            simpa using this
        · cases hL; exact ⟨[_], rfl, by simp⟩

/-- the loop under the forwarding body IS the loop under the outer consumer, for any fuel -/
theorem iterSpec_fwdC {ρ σ : Type} (read : σ → Option ((Option ρ × GoErr) × σ))
    (y : List (Option ρ × GoErr) → Bool) :
    ∀ (fuel : Nat) (acc : List (Option ρ × GoErr)) (s : σ), runG (fwd y) acc = (acc, true) →
      iterSpec read (fwdC y) fuel acc s = iterSpec read y fuel acc s := by
  intro fuel
  induction fuel with
  | zero => intro acc s _; rfl
  | succ fuel ih =>
    intro acc s hacc
    simp only [iterSpec]
    split
    · rfl
    · rename_i x err s' _
      have hs := runG_fwd_snoc y acc (x, GoErr.nil) hacc
      have hc : fwdC y (acc ++ [(x, GoErr.nil)]) = y (acc ++ [(x, GoErr.nil)]) := by
        show (runG (fwd y) (acc ++ [(x, GoErr.nil)])).2 = _; rw [hs]
      rw [hc]
      split
      · rfl
      · split
        · rename_i hy
          exact ih _ _ (by rw [hs, hy])
        · rfl

/-- the whole forwarding layer on top of an `iter()` loop, for ANY fuel: nothing changes -/
theorem after_iterSpec {ρ σ : Type} (read : σ → Option ((Option ρ × GoErr) × σ))
    (y : List (Option ρ × GoErr) → Bool) (fuel : Nat) (s : σ) :
    after y (iterSpec read (fwdC y) fuel [] s) = iterSpec read y fuel [] s := by
  cases hin : iterSpec read (fwdC y) fuel [] s with
  | none => rw [← iterSpec_fwdC read y fuel [] s rfl, hin]; rfl
  | some inner =>
    obtain ⟨t, ht, hgo⟩ := iterSpec_go_on read (fwdC y) fuel [] s inner hin
    have hr := fwd_replay y inner (by
      intro j hj
      have := hgo j (by rw [ht] at hj; simpa using hj)
      rw [ht]; simpa using this)
    rw [← iterSpec_fwdC read y fuel [] s rfl, hin]
    simp only [after, Option.bind_some, if_pos hr.1, hr.2.1]

/-- a SECOND forwarding layer on top: still nothing changes -/
theorem after_after_iterSpec {ρ σ : Type} (read : σ → Option ((Option ρ × GoErr) × σ))
    (y : List (Option ρ × GoErr) → Bool) (fuel : Nat) (s : σ) :
    after y (after (fwdC y) (iterSpec read (fwdC (fwdC y)) fuel [] s)) = iterSpec read y fuel [] s := by
  rw [after_iterSpec, after_iterSpec]

/-! ## fasta -/

theorem fasta_Reader_spec (hRd : GoSrc.fasta_Reader_Found = true) (fuel : Nat) (r : Bytes × Ending)
    (yield : List FaItem → Bool) :
    GoSrc.fasta_Reader fuel r yield = after yield (GoSrc.fasta_iter fuel r.1 r.2 (fwdC yield)) := by
  first
  | exact absurd hRd (by decide)
  | (unfold GoSrc.fasta_Reader
     simp only [FileW.step_eq]
     show Option.bind _ _ = Option.bind _ _
     congr 1
     funext inner
     show (if (!(runG (fwd yield) inner.dropLast).2) = true then _ else _) = _
     cases (runG (fwd yield) inner.dropLast).2 <;> rfl)

theorem fasta_Reader_raw (hRd : GoSrc.fasta_Reader_Found = true) (hI : GoSrc.fasta_iter_Found = true)
    (hR : GoSrc.fasta_read_Found = true) (fuel : Nat) (r : Bytes × Ending) (yield : List FaItem → Bool)
    (hf : r.1.length + 1 ≤ fuel) :
    GoSrc.fasta_Reader fuel r yield = GoSrc.fasta_iter fuel r.1 r.2 yield := by
  rw [fasta_Reader_spec hRd, fasta_iter_raw hI hR fuel r.1 r.2 _ hf, fasta_iter_raw hI hR fuel r.1 r.2 _ hf,
    after_takeThroughH]

/-- ANY fuel -/
theorem fasta_Reader_any (hRd : GoSrc.fasta_Reader_Found = true) (hI : GoSrc.fasta_iter_Found = true)
    (fuel : Nat) (r : Bytes × Ending) (yield : List FaItem → Bool) :
    GoSrc.fasta_Reader fuel r yield = GoSrc.fasta_iter fuel r.1 r.2 yield := by
  rw [fasta_Reader_spec hRd, fasta_iter_spec hI, fasta_iter_spec hI, after_iterSpec]

theorem fasta_File_spec (hFl : GoSrc.fasta_File_Found = true) (o : Bytes → (Bytes × Ending) × GoErr)
    (fuel : Nat) (file : Bytes) (yield : List FaItem → Bool) :
    GoSrc.fasta_File o fuel file yield
      = if (o file).2 ≠ GoErr.nil then some [(none, (o file).2)]
        else after yield (GoSrc.fasta_Reader fuel (o file).1 (fwdC yield)) := by
  first
  | exact absurd hFl (by decide)
  | (unfold GoSrc.fasta_File
     simp only [FileW.step_eq]
     by_cases he : (o file).2 = GoErr.nil
     · rw [if_neg (by simpa using he), if_neg (by simpa using he)]
       show Option.bind _ _ = Option.bind _ _
       congr 1
       funext inner
       show (if (!(runG (fwd yield) inner.dropLast).2) = true then _ else _) = _
       cases (runG (fwd yield) inner.dropLast).2 <;> rfl
     · rw [if_pos (by simpa using he), if_pos he]
       rfl)

theorem fasta_File_raw (hFl : GoSrc.fasta_File_Found = true) (hRd : GoSrc.fasta_Reader_Found = true)
    (hI : GoSrc.fasta_iter_Found = true) (hR : GoSrc.fasta_read_Found = true)
    (o : Bytes → (Bytes × Ending) × GoErr) (fuel : Nat) (file : Bytes) (yield : List FaItem → Bool)
    (ho : (o file).2 = GoErr.nil) (hf : (o file).1.1.length + 1 ≤ fuel) :
    GoSrc.fasta_File o fuel file yield = GoSrc.fasta_Reader fuel (o file).1 yield := by
  rw [fasta_File_spec hFl, if_neg (by simpa using ho), fasta_Reader_raw hRd hI hR fuel _ _ hf,
    fasta_Reader_raw hRd hI hR fuel _ _ hf, fasta_iter_raw hI hR fuel _ _ _ hf,
    fasta_iter_raw hI hR fuel _ _ _ hf, after_takeThroughH]

/-- ANY fuel -/
theorem fasta_File_any (hFl : GoSrc.fasta_File_Found = true) (hRd : GoSrc.fasta_Reader_Found = true)
    (hI : GoSrc.fasta_iter_Found = true)
    (o : Bytes → (Bytes × Ending) × GoErr) (fuel : Nat) (file : Bytes) (yield : List FaItem → Bool)
    (ho : (o file).2 = GoErr.nil) :
    GoSrc.fasta_File o fuel file yield = GoSrc.fasta_Reader fuel (o file).1 yield := by
  rw [fasta_File_spec hFl, if_neg (by simpa using ho), fasta_Reader_any hRd hI, fasta_Reader_any hRd hI,
    fasta_iter_spec hI, fasta_iter_spec hI, after_iterSpec]

/-- the items `fasta.File` hands over when nobody stops it -/
def fastaFileItems (o : Bytes → (Bytes × Ending) × GoErr) (file : Bytes) : List FaItem :=
  if (o file).2 = GoErr.nil then (Fasta.decodeSrc (o file).1.2 (o file).1.1).map faRaw
  else [(none, (o file).2)]

theorem fasta_File_log (hFl : GoSrc.fasta_File_Found = true) (hRd : GoSrc.fasta_Reader_Found = true)
    (hI : GoSrc.fasta_iter_Found = true) (hR : GoSrc.fasta_read_Found = true)
    (o : Bytes → (Bytes × Ending) × GoErr) (fuel : Nat) (file : Bytes) (yield : List FaItem → Bool)
    (hf : (o file).2 = GoErr.nil → (o file).1.1.length + 1 ≤ fuel) :
    GoSrc.fasta_File o fuel file yield = some (takeThroughH yield [] (fastaFileItems o file)) := by
  by_cases ho : (o file).2 = GoErr.nil
  · rw [fasta_File_raw hFl hRd hI hR o fuel file yield ho (hf ho), fasta_Reader_raw hRd hI hR fuel _ _ (hf ho),
      fastaFileItems, if_pos ho]
    exact fasta_iter_raw hI hR fuel _ _ yield (hf ho)
  · rw [fasta_File_spec hFl, if_pos ho, fastaFileItems, if_neg ho, takeThroughH_singleton]; rfl

/-! ## fastq -/

theorem fastq_Reader_spec (hRd : GoSrc.fastq_Reader_Found = true) (fuel : Nat) (r : List Bytes × Ending)
    (yield : List FqItem → Bool) :
    GoSrc.fastq_Reader fuel r yield = after yield (GoSrc.fastq_iter fuel r.1 r.2 (fwdC yield)) := by
  first
  | exact absurd hRd (by decide)
  | (unfold GoSrc.fastq_Reader
     simp only [FileW.step_eq]
     show Option.bind _ _ = Option.bind _ _
     congr 1
     funext inner
     show (if (!(runG (fwd yield) inner.dropLast).2) = true then _ else _) = _
     cases (runG (fwd yield) inner.dropLast).2 <;> rfl)

theorem fastq_Reader_raw (hRd : GoSrc.fastq_Reader_Found = true) (hI : GoSrc.fastq_iter_Found = true)
    (hR : GoSrc.fastq_read_Found = true) (fuel : Nat) (r : List Bytes × Ending) (yield : List FqItem → Bool)
    (hf : r.1.length + 1 ≤ fuel) :
    GoSrc.fastq_Reader fuel r yield = GoSrc.fastq_iter fuel r.1 r.2 yield := by
  rw [fastq_Reader_spec hRd, fastq_iter_raw hI hR fuel r.1 r.2 _ hf, fastq_iter_raw hI hR fuel r.1 r.2 _ hf,
    after_takeThroughH]

/-- ANY fuel -/
theorem fastq_Reader_any (hRd : GoSrc.fastq_Reader_Found = true) (hI : GoSrc.fastq_iter_Found = true)
    (fuel : Nat) (r : List Bytes × Ending) (yield : List FqItem → Bool) :
    GoSrc.fastq_Reader fuel r yield = GoSrc.fastq_iter fuel r.1 r.2 yield := by
  rw [fastq_Reader_spec hRd, fastq_iter_spec hI, fastq_iter_spec hI, after_iterSpec]

theorem fastq_File_spec (hFl : GoSrc.fastq_File_Found = true) (o : Bytes → (List Bytes × Ending) × GoErr)
    (fuel : Nat) (file : Bytes) (yield : List FqItem → Bool) :
    GoSrc.fastq_File o fuel file yield
      = if (o file).2 ≠ GoErr.nil then some [(none, (o file).2)]
        else after yield (GoSrc.fastq_Reader fuel (o file).1 (fwdC yield)) := by
  first
  | exact absurd hFl (by decide)
  | (unfold GoSrc.fastq_File
     simp only [FileW.step_eq]
     by_cases he : (o file).2 = GoErr.nil
     · rw [if_neg (by simpa using he), if_neg (by simpa using he)]
       show Option.bind _ _ = Option.bind _ _
       congr 1
       funext inner
       show (if (!(runG (fwd yield) inner.dropLast).2) = true then _ else _) = _
       cases (runG (fwd yield) inner.dropLast).2 <;> rfl
     · rw [if_pos (by simpa using he), if_pos he]
       rfl)

theorem fastq_File_raw (hFl : GoSrc.fastq_File_Found = true) (hRd : GoSrc.fastq_Reader_Found = true)
    (hI : GoSrc.fastq_iter_Found = true) (hR : GoSrc.fastq_read_Found = true)
    (o : Bytes → (List Bytes × Ending) × GoErr) (fuel : Nat) (file : Bytes) (yield : List FqItem → Bool)
    (ho : (o file).2 = GoErr.nil) (hf : (o file).1.1.length + 1 ≤ fuel) :
    GoSrc.fastq_File o fuel file yield = GoSrc.fastq_Reader fuel (o file).1 yield := by
  rw [fastq_File_spec hFl, if_neg (by simpa using ho), fastq_Reader_raw hRd hI hR fuel _ _ hf,
    fastq_Reader_raw hRd hI hR fuel _ _ hf, fastq_iter_raw hI hR fuel _ _ _ hf,
    fastq_iter_raw hI hR fuel _ _ _ hf, after_takeThroughH]

/-- ANY fuel -/
theorem fastq_File_any (hFl : GoSrc.fastq_File_Found = true) (hRd : GoSrc.fastq_Reader_Found = true)
    (hI : GoSrc.fastq_iter_Found = true)
    (o : Bytes → (List Bytes × Ending) × GoErr) (fuel : Nat) (file : Bytes) (yield : List FqItem → Bool)
    (ho : (o file).2 = GoErr.nil) :
    GoSrc.fastq_File o fuel file yield = GoSrc.fastq_Reader fuel (o file).1 yield := by
  rw [fastq_File_spec hFl, if_neg (by simpa using ho), fastq_Reader_any hRd hI, fastq_Reader_any hRd hI,
    fastq_iter_spec hI, fastq_iter_spec hI, after_iterSpec]

/-- the items `fastq.File` hands over when nobody stops it -/
def fastqFileItems (o : Bytes → (List Bytes × Ending) × GoErr) (file : Bytes) : List FqItem :=
  if (o file).2 = GoErr.nil then (Fastq.fromLines (o file).1.2 (o file).1.1).map fqRaw
  else [(none, (o file).2)]

theorem fastq_File_log (hFl : GoSrc.fastq_File_Found = true) (hRd : GoSrc.fastq_Reader_Found = true)
    (hI : GoSrc.fastq_iter_Found = true) (hR : GoSrc.fastq_read_Found = true)
    (o : Bytes → (List Bytes × Ending) × GoErr) (fuel : Nat) (file : Bytes) (yield : List FqItem → Bool)
    (hf : (o file).2 = GoErr.nil → (o file).1.1.length + 1 ≤ fuel) :
    GoSrc.fastq_File o fuel file yield = some (takeThroughH yield [] (fastqFileItems o file)) := by
  by_cases ho : (o file).2 = GoErr.nil
  · rw [fastq_File_raw hFl hRd hI hR o fuel file yield ho (hf ho), fastq_Reader_raw hRd hI hR fuel _ _ (hf ho),
      fastqFileItems, if_pos ho]
    exact fastq_iter_raw hI hR fuel _ _ yield (hf ho)
  · rw [fastq_File_spec hFl, if_pos ho, fastqFileItems, if_neg ho, takeThroughH_singleton]; rfl

end FileW2
end Bio.GoSrcLemmas
