/-
  Helper lemmas: line scanning (`rawLines`, `scanLines`, general, namespace `Bio`) and the
  FASTQ model (`Bio/Model/Fastq.lean`).
-/
import Bio.Model.Fastq

/-! ## Line scanning (general) -/
namespace Bio

@[simp] theorem rawLines_nil : rawLines [] = [] := rfl
@[simp] theorem scanLines_nil : scanLines [] = [] := rfl

/-- A terminated line is the first raw line. -/
theorem rawLines_line (l rest : Bytes) (h : (10 : UInt8) ∉ l) :
    rawLines (l ++ 10 :: rest) = l :: rawLines rest := by
  induction l with
  | nil => simp [rawLines]
  | cons b l ih =>
    have hb : b ≠ 10 := fun e => h (by simp [e])
    have := ih (fun hm => h (by simp [hm]))
    simp [rawLines, hb, this]

theorem dropCR_of_getLast? (l : Bytes) (h : l.getLast? ≠ some 13) : dropCR l = l := by
  unfold dropCR
  split
  · rename_i heq; exact absurd heq h
  · rfl

theorem getLast?_ne_of_not_mem (l : Bytes) (c : UInt8) (h : c ∉ l) : l.getLast? ≠ some c := by
  intro e
  exact h (List.mem_of_getLast? e)

/-- A terminated line not ending in CR is the first token of `bufio.ScanLines`. -/
theorem scanLines_line (l rest : Bytes) (h : (10 : UInt8) ∉ l) (hcr : l.getLast? ≠ some 13) :
    scanLines (l ++ 10 :: rest) = l :: scanLines rest := by
  simp [scanLines, rawLines_line l rest h, dropCR_of_getLast? l hcr]

/-- Free of LF and CR. -/
def Clean (l : Bytes) : Prop := ∀ b ∈ l, b ≠ 10 ∧ b ≠ 13

instance (l : Bytes) : Decidable (Clean l) := by unfold Clean; infer_instance

theorem Clean.not_lf {l : Bytes} (h : Clean l) : (10 : UInt8) ∉ l := fun hm => (h 10 hm).1 rfl
theorem Clean.not_cr {l : Bytes} (h : Clean l) : (13 : UInt8) ∉ l := fun hm => (h 13 hm).2 rfl
theorem Clean.take {l : Bytes} (h : Clean l) (k : Nat) : Clean (l.take k) :=
  fun b hb => h b (List.mem_of_mem_take hb)

theorem scanLines_clean_line (l rest : Bytes) (h : Clean l) :
    scanLines (l ++ 10 :: rest) = l :: scanLines rest :=
  scanLines_line l rest h.not_lf (getLast?_ne_of_not_mem l 13 h.not_cr)

/-- Lines written each with a terminating LF are scanned back (then the rest is scanned). -/
theorem scanLines_unlines_append (ls : List Bytes) (rest : Bytes) (h : ∀ l ∈ ls, Clean l) :
    scanLines ((ls.map (· ++ [10])).flatten ++ rest) = ls ++ scanLines rest := by
  induction ls with
  | nil => simp
  | cons l ls ih =>
    have := ih (fun m hm => h m (by simp [hm]))
    have e : (((l :: ls).map (· ++ [10])).flatten ++ rest) =
        l ++ 10 :: ((ls.map (· ++ [10])).flatten ++ rest) := by simp
    rw [e, scanLines_clean_line l _ (h l (by simp)), this]
    simp

theorem scanLines_unlines (ls : List Bytes) (h : ∀ l ∈ ls, Clean l) :
    scanLines ((ls.map (· ++ [10])).flatten) = ls := by
  have := scanLines_unlines_append ls [] h
  simpa using this

theorem rawLines_no_lf (p : Bytes) (h : (10 : UInt8) ∉ p) :
    rawLines p = if p = [] then [] else [p] := by
  induction p with
  | nil => simp
  | cons b p ih =>
    have hb : b ≠ 10 := fun e => h (by simp [e])
    have := ih (fun hm => h (by simp [hm]))
    by_cases hp : p = []
    · subst hp; simp [rawLines, hb]
    · simp [rawLines, hb, this, hp]

/-- An unterminated LF/CR-free tail is one token if non-empty, none if empty. -/
theorem scanLines_clean (p : Bytes) (h : Clean p) :
    scanLines p = if p = [] then [] else [p] := by
  rw [scanLines, rawLines_no_lf p h.not_lf]
  split
  · rfl
  · simp [dropCR_of_getLast? p (getLast?_ne_of_not_mem p 13 h.not_cr)]

/-- The tokens of the first `k` bytes of a file of terminated lines: the complete lines
that fit, then the non-empty cut part of the next line. -/
def takeLines : Nat → List Bytes → List Bytes
  | _, [] => []
  | k, l :: ls =>
    if k ≤ l.length then (if k = 0 then [] else [l.take k])
    else l :: takeLines (k - l.length - 1) ls

theorem scanLines_take_unlines (ls : List Bytes) (h : ∀ l ∈ ls, Clean l) (k : Nat) :
    scanLines (((ls.map (· ++ [10])).flatten).take k) = takeLines k ls := by
  induction ls generalizing k with
  | nil => simp [takeLines]
  | cons l ls ih =>
    have hl := h l (by simp)
    have e : ((l :: ls).map (· ++ [10])).flatten = l ++ 10 :: (ls.map (· ++ [10])).flatten := by
      simp
    rw [e, takeLines]
    by_cases hk : k ≤ l.length
    · rw [if_pos hk, List.take_append_of_le_length hk, scanLines_clean _ (hl.take k)]
      by_cases h0 : k = 0
      · simp [h0]
      · have : l.take k ≠ [] := by
          intro e
          have := congrArg List.length e
          simp only [List.length_take, List.length_nil] at this
          omega
        simp [h0, this]
    · rw [if_neg hk, List.take_append]
      have h1 : l.take k = l := List.take_of_length_le (by omega)
      obtain ⟨j, hj⟩ : ∃ j, k - l.length = j + 1 := ⟨k - l.length - 1, by omega⟩
      rw [h1, hj, List.take_succ_cons, scanLines_clean_line l _ hl, ih (fun m hm => h m (by simp [hm]))]
      simp

end Bio

/-! ## FASTQ -/
namespace Bio.Fastq

/-- The four lines of a written record. -/
def recLines (r : Fq) : List Bytes := [64 :: r.name, r.seq, [43], r.quals]

theorem encode_eq_lines (r : Fq) : encode r = ((recLines r).map (· ++ [10])).flatten := by
  simp [encode, recLines]

theorem encodeAll_eq_lines (rs : List Fq) :
    encodeAll rs = (((rs.map recLines).flatten).map (· ++ [10])).flatten := by
  induction rs with
  | nil => simp [encodeAll]
  | cons r rs ih =>
    simp only [encodeAll, List.map_cons, List.flatten_cons] at ih ⊢
    rw [ih, encode_eq_lines]
    simp

theorem recLines_clean (r : Fq) (h : ∀ b ∈ r.name ++ r.seq ++ r.quals, b ≠ 10 ∧ b ≠ 13) :
    ∀ l ∈ recLines r, Clean l := by
  intro l hl b hb
  simp only [recLines, List.mem_cons, List.not_mem_nil, or_false] at hl
  rcases hl with rfl | rfl | rfl | rfl
  · rcases List.mem_cons.mp hb with rfl | hb
    · decide
    · exact h b (by simp [hb])
  · exact h b (by simp [hb])
  · have : b = 43 := by simpa using hb
    subst this; decide
  · exact h b (by simp [hb])

theorem allLines_clean (rs : List Fq)
    (h : ∀ r ∈ rs, (∀ b ∈ r.name ++ r.seq ++ r.quals, b ≠ 10 ∧ b ≠ 13) ∧
      r.seq.length = r.quals.length) :
    ∀ l ∈ (rs.map recLines).flatten, Clean l := by
  intro l hl
  obtain ⟨ls, hls, hl⟩ := List.mem_flatten.mp hl
  obtain ⟨r, hr, rfl⟩ := List.mem_map.mp hls
  exact recLines_clean r (h r hr).1 l hl

/-- Four well-formed lines make a record. -/
theorem fromLines_rec (e : Ending) (r : Fq) (rest : List Bytes)
    (hl : r.seq.length = r.quals.length) :
    fromLines e (recLines r ++ rest) = .ok r :: fromLines e rest := by
  simp [recLines, fromLines, hl]

theorem fromLines_recs (e : Ending) (pre : List Fq) (rest : List Bytes)
    (h : ∀ r ∈ pre, r.seq.length = r.quals.length) :
    fromLines e ((pre.map recLines).flatten ++ rest) = pre.map .ok ++ fromLines e rest := by
  induction pre with
  | nil => simp
  | cons r pre ih =>
    have := ih (fun q hq => h q (by simp [hq]))
    simp only [List.map_cons, List.flatten_cons, List.append_assoc]
    rw [fromLines_rec e r _ (h r (by simp)), this]
    simp

theorem fromLines_nil (e : Ending) :
    fromLines e [] = (match e with | .eof => [] | .fail => [.err]) := by
  cases e <;> simp [fromLines]

/-- An error item is always the last item. -/
theorem fromLines_err_last (e : Ending) (ls : List Bytes) :
    ∀ i, (fromLines e ls)[i]? = some Item.err → i + 1 = (fromLines e ls).length := by
  fun_induction fromLines e ls <;> intro i <;> cases i <;> simp_all

/-- Decoding a file of terminated clean lines is decoding the lines. -/
theorem decodeSrc_unlines (e : Ending) (ls : List Bytes) (h : ∀ l ∈ ls, Clean l) :
    decodeSrc e ((ls.map (· ++ [10])).flatten) = fromLines e ls := by
  rw [decodeSrc, scanLines_unlines ls h]

/-- Well-formed records in front of arbitrary clean lines are delivered intact. -/
theorem decodeSrc_pre (e : Ending) (pre : List Fq) (tail : List Bytes)
    (h : ∀ r ∈ pre, (∀ b ∈ r.name ++ r.seq ++ r.quals, b ≠ 10 ∧ b ≠ 13) ∧
      r.seq.length = r.quals.length)
    (ht : ∀ l ∈ tail, Clean l) :
    decodeSrc e ((((pre.map recLines).flatten ++ tail).map (· ++ [10])).flatten) =
      pre.map .ok ++ fromLines e tail := by
  rw [decodeSrc_unlines, fromLines_recs e pre tail (fun r hr => (h r hr).2)]
  intro l hl
  rcases List.mem_append.mp hl with hl | hl
  · exact allLines_clean pre h l hl
  · exact ht l hl

/-- A first line that does not start with `'@'` (or is empty) is an error. -/
theorem fromLines_no_at (e : Ending) (l1 : Bytes) (rest : List Bytes) (h : l1.head? ≠ some 64) :
    fromLines e (l1 :: rest) = [.err] := by
  rw [fromLines]
  intro t ht
  subst ht
  simp at h

/-- A third line that does not start with `'+'` is an error. -/
theorem fromLines_no_plus (e : Ending) (name sq pl ql : Bytes) (rest : List Bytes)
    (h : pl.head? ≠ some 43) :
    fromLines e ((64 :: name) :: sq :: pl :: ql :: rest) = [.err] := by
  rw [fromLines]
  intro t ht
  subst ht
  simp at h

/-- Failing source after `k` bytes of a written file: leading records, then one error. -/
theorem fromLines_fail_takeLines (rs : List Fq)
    (h : ∀ r ∈ rs, (∀ b ∈ r.name ++ r.seq ++ r.quals, b ≠ 10 ∧ b ≠ 13) ∧
      r.seq.length = r.quals.length) (k : Nat) :
    ∃ n, fromLines .fail (takeLines k ((rs.map recLines).flatten)) =
      (rs.take n).map .ok ++ [.err] := by
  induction rs generalizing k with
  | nil => exact ⟨0, by simp [takeLines, fromLines]⟩
  | cons r rs ih =>
    have hlen := (h r (by simp)).2
    simp only [List.map_cons, List.flatten_cons, recLines, List.cons_append, List.nil_append,
      takeLines]
    split
    · -- cut inside the name line
      refine ⟨0, ?_⟩
      split
      · simp [fromLines]
      · obtain ⟨j, rfl⟩ : ∃ j, k = j + 1 := ⟨k - 1, by omega⟩
        simp [fromLines]
    · split
      · -- cut inside the sequence line
        refine ⟨0, ?_⟩
        split <;> simp [fromLines]
      · split
        · -- cut inside the '+' line
          refine ⟨0, ?_⟩
          split <;> simp [fromLines]
        · split
          · -- cut inside the quality line
            rename_i hq
            split
            · exact ⟨0, by simp [fromLines]⟩
            · by_cases hfull : (r.quals.take (k - (64 :: r.name).length - 1 - r.seq.length - 1 -
                  [(43 : UInt8)].length - 1)).length = r.seq.length
              · refine ⟨1, ?_⟩
                have : r.quals.take (k - (64 :: r.name).length - 1 - r.seq.length - 1 -
                  [(43 : UInt8)].length - 1) = r.quals := by
                  apply List.take_of_length_le
                  simp only [List.length_take] at hfull
                  omega
                rw [this]
                simp [fromLines, hlen]
              · refine ⟨0, ?_⟩
                simp only [fromLines, if_neg hfull]
                simp
          · -- the record is complete
            obtain ⟨n, hn⟩ := ih (fun q hq => h q (by simp [hq]))
              (k - (64 :: r.name).length - 1 - r.seq.length - 1 - [(43 : UInt8)].length - 1 -
                r.quals.length - 1)
            refine ⟨n + 1, ?_⟩
            simp only [fromLines]
            rw [if_pos hlen.symm, hn]
            simp

end Bio.Fastq
