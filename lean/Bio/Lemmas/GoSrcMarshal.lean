/-
  `(*Fasta).MarshalText` of formats/fasta/fasta.go and `(*Fastq).MarshalText` of
  formats/fastq/fastq.go, translated from the Go source text on every run into
  `Bio.Generated.GoSrc.fasta_MarshalText` / `fastq_MarshalText`.  Each computes the length `n` of
  the text in advance, has the translated `Write` write the record into a `bytes.Buffer` (the `Wr`
  with `room` bytes of room) and panics (`none`) when the buffer's length differs from `n`.

  The exact value, for EVERY `room`: the model's text (`Fasta.encode 80` / `Fastq.encode`) when it
  fits into `room`, a panic otherwise (the writer then cut the text, and the self-check fires).

  Guarded by the translator's `<f>_Found` flags as in `Bio.Lemmas.GoSrc`.
-/
import Bio.Lemmas.GoSrcIterWrite
import Bio.Props.C01
import Bio.Props.C02
set_option linter.unusedVariables false
set_option linter.unusedSimpArgs false
namespace Bio.GoSrcLemmas
open Bio Bio.GoRt Bio.Generated

/-- the length the FASTA text has, as the natural number of the task statement -/
theorem fasta_encode_length (n s : Bytes) :
    (Fasta.encode 80 ⟨n, s⟩).length = 2 + n.length + s.length + (s.length + 79) / 80 := by
  rw [Fasta.encode_length 80 (by decide)]
  simp only [Fasta.marshalLen]
  omega

theorem fastq_encode_length (n s q : Bytes) :
    (Fastq.encode ⟨n, s, q⟩).length = 6 + n.length + s.length + q.length := by
  rw [Fastq.encode_length]
  simp only [Fastq.marshalLen]

/-- the `n` of the Go text (an `int` expression with Go's truncating `/`) is the length of the text -/
theorem fasta_marshal_n (n s : Bytes) :
    ((2 + (len n)) + (len s)) + (Int.tdiv (((len s) + 80) - 1) 80)
      = ((Fasta.encode 80 ⟨n, s⟩).length : Int) := by
  rw [fasta_encode_length]
  simp only [len]
  rw [Int.tdiv_eq_ediv_of_nonneg (by omega)]
  omega

theorem fastq_marshal_n (n s q : Bytes) :
    ((6 + (len n)) + (len s)) + (len q) = ((Fastq.encode ⟨n, s, q⟩).length : Int) := by
  rw [fastq_encode_length]
  simp only [len]
  omega

/-- FASTA `MarshalText` with a buffer of `room` bytes: the text if it fits, else the panic of the
self-check. -/
theorem fasta_MarshalText_eq (hM : GoSrc.fasta_MarshalText_Found = true)
    (hW : GoSrc.fasta_Write_Found = true) (room : Nat) (n s : Bytes) :
    GoSrc.fasta_MarshalText room n s
      = if (Fasta.encode 80 ⟨n, s⟩).length ≤ room then some (Fasta.encode 80 ⟨n, s⟩, GoErr.nil)
        else none := by
  unfold GoSrc.fasta_MarshalText
  simp only [fasta_marshal_n, makeCap, fasta_Write_fault hW]
  have h0 : ¬ (((Fasta.encode 80 ⟨n, s⟩).length : Int) < 0) := by omega
  rw [if_neg h0]
  by_cases h : (Fasta.encode 80 ⟨n, s⟩).length ≤ room
  · simp [h, List.take_of_length_le h, len]
  · have hk : room < (Fasta.encode 80 ⟨n, s⟩).length := by omega
    simp [h, len, List.length_take, Nat.min_eq_left (Nat.le_of_lt hk)]
    omega

theorem fastq_MarshalText_eq (hM : GoSrc.fastq_MarshalText_Found = true)
    (hW : GoSrc.fastq_Write_Found = true) (room : Nat) (n s q : Bytes) :
    GoSrc.fastq_MarshalText room n s q
      = if (Fastq.encode ⟨n, s, q⟩).length ≤ room then some (Fastq.encode ⟨n, s, q⟩, GoErr.nil)
        else none := by
  unfold GoSrc.fastq_MarshalText
  simp only [fastq_marshal_n, makeCap, fastq_Write_fault hW]
  have h0 : ¬ (((Fastq.encode ⟨n, s, q⟩).length : Int) < 0) := by omega
  rw [if_neg h0]
  by_cases h : (Fastq.encode ⟨n, s, q⟩).length ≤ room
  · simp [h, List.take_of_length_le h, len]
  · have hk : room < (Fastq.encode ⟨n, s, q⟩).length := by omega
    simp [h, len, List.length_take, Nat.min_eq_left (Nat.le_of_lt hk)]
    omega

end Bio.GoSrcLemmas
