/-
  trie/trie.go at the Go SOURCE level, part 4: the interface (`HWF` / `Rep`) and histories.

  `Bio.Generated.GoSrc.New` / `Trie_Add` / `Trie_Has` / `Trie_Delete` are translated statement by
  statement from trie/trie.go over an explicit heap (see `GoSrcTrie1`).  This file packages the loop
  lemmas of parts 2 and 3 as a REFINEMENT of the hand model `Bio.Trie` (`add` / `has` / `del`):

    HWF heap root → Rep heap root t →
      Trie_Has  fuel heap root b = some (has b t)
      Trie_Add  fuel heap root b = some heap'        with  HWF heap' root ∧ Rep heap' root (add b t)
      Trie_Delete    heap root b = some (false, heap)                      if del b t = none
                                 = some (true, heap') with … Rep heap' root t'   if del b t = some t'

  and lifts it to every history of `Add` / `Delete` calls (`goRun`) from `New()`.
  Guarded by the translator's `<f>_Found` flags as in `Bio.Lemmas.GoSrc`.
-/
import Bio.Lemmas.GoSrcTrie3
import Bio.Props.C15
set_option linter.unusedVariables false
set_option linter.unusedSimpArgs false
namespace Bio.GoSrcLemmas
namespace TrieGo
open Bio Bio.GoRt Bio.Generated Bio.Trie

/-! ## `HWF` + `Rep` ⇔ `Good` -/

theorem good_of {heap : Heap} {root : Int} {t : T} (hw : HWF heap root) (hr : Rep heap root t) :
    ∃ (n : Nat) (S : List Nat), root = (n : Int) ∧ Good heap n t S := by
  obtain ⟨n, t0, S, hroot, es, hn, hre, hnd, hk⟩ := hw
  obtain ⟨n', es', S', hroot', hn', hre'⟩ := hr
  have hnn : n = n' := Int.ofNat.inj (hroot.symm.trans hroot')
  subst hnn
  rw [hn] at hn'
  cases hn'
  obtain ⟨rfl, rfl⟩ := hre.det hre'
  exact ⟨n, S, hroot, es, hn, hre, hnd, hk⟩

theorem of_good {heap : Heap} {n : Nat} {t : T} {S : List Nat} (hg : Good heap n t S) :
    HWF heap (n : Int) ∧ Rep heap (n : Int) t := by
  obtain ⟨es, hn, hr, hnd, hk⟩ := hg
  exact ⟨⟨n, t, S, rfl, es, hn, hr, hnd, hk⟩, ⟨n, es, S, rfl, hn, hr⟩⟩

/-- the trie an invariant heap stands for -/
theorem rep_of_hwf {heap : Heap} {root : Int} (hw : HWF heap root) : ∃ t, Rep heap root t := by
  obtain ⟨n, t, S, hroot, hg⟩ := hw
  exact ⟨t, hroot ▸ (of_good hg).2⟩

theorem rep_unique {heap : Heap} {root : Int} {t t' : T} (h : Rep heap root t) (h' : Rep heap root t') :
    t = t' := by
  obtain ⟨n, es, S, hroot, hn, hre⟩ := h
  obtain ⟨n', es', S', hroot', hn', hre'⟩ := h'
  have hnn : n = n' := Int.ofNat.inj (hroot.symm.trans hroot')
  subst hnn
  rw [hn] at hn'
  cases hn'
  exact (hre.det hre').1

/-- the model's invariant `NoDupKeys` follows from the heap invariant -/
theorem RepE.noDupKeys {heap : Heap} {es t S} (h : RepE heap es t S) :
    (es.map Prod.fst).Nodup → KeysOK heap S → NoDupKeys t := by
  induction h with
  | nil => intro _ _; exact noDupKeys_nil
  | @cons k v c es' es tc tr Sc Sr hv hc hc1 hr1 ih1 ih2 =>
    intro hnd hk
    simp only [List.map_cons, List.nodup_cons] at hnd
    rw [noDupKeys_cons]
    refine ⟨?_, ih1 (hk c (by simp) es' hc) fun x hx => hk x (by simp [hx]),
      ih2 hnd.2 fun x hx => hk x (by simp [hx])⟩
    have hkeys := hr1.keys
    have : ∀ (u : T) (x : UInt8), hasKey x u = true ↔ x ∈ tkeys u := by
      intro u x
      induction u with
      | nil => simp [hasKey, tkeys]
      | cons k' c' r' _ ih =>
        simp only [hasKey, tkeys, Bool.or_eq_true, beq_iff_eq, List.mem_cons, ih]
        constructor
        · rintro (h | h)
          · exact Or.inl h.symm
          · exact Or.inr h
        · rintro (h | h)
          · exact Or.inl h.symm
          · exact Or.inr h
    cases hh : hasKey k tr
    · rfl
    · exact absurd ((this tr k).1 hh) (by rw [hkeys]; exact hnd.1)

theorem noDupKeys_of_good {heap : Heap} {n : Nat} {t : T} {S : List Nat} (hg : Good heap n t S) :
    NoDupKeys t := by
  obtain ⟨es, hn, hr, hnd, hk⟩ := hg
  exact hr.noDupKeys (hk n (by simp) es hn) fun x hx => hk x (by simp [hx])

/-! ## `New` -/

theorem good_new (heap : Heap) : Good (heap ++ [[]]) heap.length .nil [] := by
  refine ⟨[], by simp, .nil, by simp, ?_⟩
  intro x hx es hes
  simp only [List.mem_singleton] at hx
  subst hx
  simp at hes
  subst hes
  simp

theorem good_append {heap : Heap} {n : Nat} {t : T} {S : List Nat} (hg : Good heap n t S)
    (X : Heap) : Good (heap ++ X) n t S := by
  obtain ⟨es, hn, hr, hnd, hk⟩ := hg
  have hnlt : n < heap.length := (List.getElem?_eq_some_iff.1 hn).1
  have hSlt := hr.lt
  refine ⟨es, by rw [List.getElem?_append_left hnlt]; exact hn, hr.frame ?_, hnd, ?_⟩
  · intro x hx
    rw [List.getElem?_append_left (hSlt x hx)]
  · intro x hx es0 hes0
    have hxlt : x < heap.length := by
      simp only [List.mem_cons] at hx
      rcases hx with rfl | hx
      · exact hnlt
      · exact hSlt x hx
    rw [List.getElem?_append_left hxlt] at hes0
    exact hk x hx es0 hes0


/-! ## A decidable sufficient check (for concrete heaps) -/

/-- the abstraction as a function: the trie and the footprint of an edge list, `none` when a pointer
is nil / dangling or the fuel (nesting of children and siblings) runs out -/
def absE (heap : Heap) : Nat → List (UInt8 × Int) → Option (T × List Nat)
  | 0, _ => none
  | _ + 1, [] => some (.nil, [])
  | fuel + 1, (k, v) :: es =>
    if v < 0 then none else
      match heap[v.toNat]? with
      | none => none
      | some es' =>
        match absE heap fuel es', absE heap fuel es with
        | some (tc, Sc), some (tr, Sr) => some (.cons k tc tr, v.toNat :: (Sc ++ Sr))
        | _, _ => none

/-- the sub-trie below pointer `root`, with its footprint -/
def absT (heap : Heap) (fuel : Nat) (root : Int) : Option (T × List Nat) :=
  if root < 0 then none else
    match heap[root.toNat]? with
    | none => none
    | some es => absE heap fuel es

def keysOKb (heap : Heap) (S : List Nat) : Bool :=
  S.all fun x => match heap[x]? with
    | some es => decide (es.map Prod.fst).Nodup
    | none => true

def checkHWF (heap : Heap) (fuel : Nat) (root : Int) : Bool :=
  match absT heap fuel root with
  | none => false
  | some (_, S) => decide (root.toNat :: S).Nodup && keysOKb heap (root.toNat :: S)

theorem absE_sound (heap : Heap) : ∀ (fuel : Nat) (es : List (UInt8 × Int)) (t : T) (S : List Nat),
    absE heap fuel es = some (t, S) → RepE heap es t S := by
  intro fuel
  induction fuel with
  | zero => intro es t S h; simp [absE] at h
  | succ fuel ih =>
    intro es t S h
    cases es with
    | nil =>
      simp only [absE, Option.some.injEq, Prod.mk.injEq] at h
      obtain ⟨rfl, rfl⟩ := h
      exact .nil
    | cons e es =>
      obtain ⟨k, v⟩ := e
      simp only [absE] at h
      split at h
      · cases h
      · rename_i hv
        split at h
        · cases h
        · rename_i es' hes'
          split at h
          · rename_i tc Sc tr Sr h1 h2
            simp only [Option.some.injEq, Prod.mk.injEq] at h
            obtain ⟨rfl, rfl⟩ := h
            exact .cons (by omega) hes' (ih _ _ _ h1) (ih _ _ _ h2)
          · cases h

theorem keysOK_of_b {heap : Heap} {S : List Nat} (h : keysOKb heap S = true) : KeysOK heap S := by
  intro x hx es hes
  have := (List.all_eq_true.1 h) x hx
  simpa [hes] using this

theorem checkHWF_sound {heap : Heap} {fuel : Nat} {root : Int} (h : checkHWF heap fuel root = true) :
    ∀ t S, absT heap fuel root = some (t, S) → HWF heap root ∧ Rep heap root t := by
  intro t S ha
  simp only [checkHWF, ha, Bool.and_eq_true, decide_eq_true_eq] at h
  simp only [absT] at ha
  split at ha
  · cases ha
  · rename_i hroot
    split at ha
    · cases ha
    · rename_i es hes
      have hr := absE_sound heap fuel es t S ha
      have e : root = (root.toNat : Int) := by omega
      have hg : Good heap root.toNat t S := ⟨es, hes, hr, h.1, keysOK_of_b h.2⟩
      rw [e]
      exact of_good hg

theorem checkHWF_hwf {heap : Heap} {fuel : Nat} {root : Int} (h : checkHWF heap fuel root = true) :
    HWF heap root := by
  cases ha : absT heap fuel root with
  | none => simp [checkHWF, ha] at h
  | some p => exact (checkHWF_sound h p.1 p.2 ha).1

/-! ## Histories -/

def opBytes : Op → Bytes
  | .add b => b
  | .del b => b

/-- one call of the history on the Go side: the flag returned (`Delete` only) and the new heap -/
def goStep (fuel : Nat) (op : Op) (heap : Heap) (root : Int) : Option (Option Bool × Heap) :=
  match op with
  | .add b => (GoSrc.Trie_Add fuel heap root b).map fun h => (none, h)
  | .del b => (GoSrc.Trie_Delete heap root b).map fun r => (some r.1, r.2)

/-- a history of calls on the Go side, all on the same root pointer: the flags and the final heap -/
def goRun (fuel : Nat) : List Op → Heap × Int → Option (List (Option Bool) × Heap)
  | [], (heap, _) => some ([], heap)
  | op :: ops, (heap, root) =>
    (goStep fuel op heap root).bind fun r =>
      (goRun fuel ops (r.2, root)).map fun rs => (r.1 :: rs.1, rs.2)

/-- `t := New(); <history>` -/
def goHistory (fuel : Nat) (ops : List Op) : Option (List (Option Bool) × Heap × Int) :=
  (GoSrc.New []).bind fun r => (goRun fuel ops (r.2, r.1)).map fun rs => (rs.1, rs.2, r.1)

theorem goStep_good (hN : GoSrc.New_Found = true) (hA : GoSrc.Trie_Add_Found = true)
    (hD : GoSrc.Trie_Delete_Found = true) (fuel : Nat) (op : Op) (heap : Heap) (n : Nat) (t : T)
    (S : List Nat) (hg : Good heap n t S) (hf : (opBytes op).length + 1 ≤ fuel) :
    ∃ heap' S', goStep fuel op heap (n : Int) = some ((step op t).2, heap') ∧
      Good heap' n (step op t).1 S' := by
  cases op with
  | add b =>
    obtain ⟨heap', S', h1, h2, _⟩ := Add_eq hN hA fuel heap n t S b hg hf
    exact ⟨heap', S', by simp [goStep, h1, step], h2⟩
  | del b =>
    obtain ⟨d1, d2⟩ := Delete_eq hD heap n t S b hg
    cases hd : del b t with
    | none => exact ⟨heap, S, by simp [goStep, d1 hd, step, hd], by simpa [step, hd] using hg⟩
    | some t' =>
      obtain ⟨heap', S', h1, h2, _⟩ := d2 t' hd
      exact ⟨heap', S', by simp [goStep, h1, step, hd], by simpa [step, hd] using h2⟩

theorem goRun_good (hN : GoSrc.New_Found = true) (hA : GoSrc.Trie_Add_Found = true)
    (hD : GoSrc.Trie_Delete_Found = true) (fuel : Nat) :
    ∀ (ops : List Op) (heap : Heap) (n : Nat) (t : T) (S : List Nat), Good heap n t S →
      (∀ op ∈ ops, (opBytes op).length + 1 ≤ fuel) →
      ∃ heap' S', goRun fuel ops (heap, (n : Int)) = some (results ops t, heap') ∧
        Good heap' n (run ops t) S' := by
  intro ops
  induction ops with
  | nil => intro heap n t S hg _; exact ⟨heap, S, rfl, hg⟩
  | cons op ops ih =>
    intro heap n t S hg hf
    obtain ⟨heap1, S1, h1, g1⟩ := goStep_good hN hA hD fuel op heap n t S hg (hf op (by simp))
    obtain ⟨heap2, S2, h2, g2⟩ := ih heap1 n (step op t).1 S1 g1 fun o ho => hf o (by simp [ho])
    exact ⟨heap2, S2, by simp [goRun, h1, h2, results], by simpa [run] using g2⟩

theorem goHistory_good (hN : GoSrc.New_Found = true) (hA : GoSrc.Trie_Add_Found = true)
    (hD : GoSrc.Trie_Delete_Found = true) (fuel : Nat) (ops : List Op)
    (hf : ∀ op ∈ ops, (opBytes op).length + 1 ≤ fuel) :
    ∃ heap' S', goHistory fuel ops = some (results ops .nil, heap', 0) ∧
      Good heap' 0 (run ops .nil) S' := by
  have hnew := New_eq hN []
  have hg : Good ([] ++ [[]]) ([] : Heap).length .nil [] := good_new []
  obtain ⟨heap', S', h1, h2⟩ := goRun_good hN hA hD fuel ops _ _ _ _ hg hf
  refine ⟨heap', S', ?_, h2⟩
  simp only [List.length_nil, List.nil_append] at hnew h1
  have hnew' : GoSrc.New [] = some ((0 : Int), [[]]) := hnew
  have h1' : goRun fuel ops ([[]], (0 : Int)) = some (results ops .nil, heap') := h1
  simp [goHistory, hnew', h1']

end TrieGo
end Bio.GoSrcLemmas
