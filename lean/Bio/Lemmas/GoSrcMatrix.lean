/-
  `SubstitutionMatrix.Symmetrical` (align/align.go), the `init` of align/levenshtein.go and
  `SubstitutionMatrix.Get`, translated from the Go SOURCE TEXT on every run into
  `Bio.Generated.GoSrc.Matrix_Symmetrical` / `init_3` / `Matrix_Get`.  A Go
  `map[[2]byte]float64` is an association list keyed by two-element lists; `range` visits it in
  list order, so everything here is proved for EVERY well-formed list (`WF`: keys of length 2,
  pairwise distinct), and results are compared extensionally (`look` = `mapHas` + `mapGet`).

  * `look`, `mapSet`: lookup after `m[k] = v`, well-formedness is preserved;
  * `Matrix_Symmetrical_eq`: the translated loop = "panic iff some entry conflicts with its
    mirror image in `m`, else fold `result[k] = v; result[flip k] = v`";
  * the bridge to the hand model `Bio.Matrix.symmetrical` (`get m k = look (ofM m) (keyOf k)`);
  * `init_3`: the two nested loops, with the invariant "after `n = 256 * i + j` steps the map has
    exactly the `n` keys `[x, y]` with `256 * x + y < n`, each with the Levenshtein score".

  Guarded by the translator's `<f>_Found` flags as in `Bio.Lemmas.GoSrc`.
-/
import Bio.Model.Matrix
import Bio.Generated.GoSrc
import Bio.Lemmas.GoRt
import Bio.Props.C20
set_option linter.unusedVariables false
namespace Bio.GoSrcLemmas
namespace MxGo
open Bio Bio.GoRt Bio.Generated

abbrev GM := List (List UInt8 × Int)
def keyOf (k : Matrix.Key) : List UInt8 := [k.1, k.2]
def ofM (m : Matrix.M) : GM := m.map fun e => (keyOf e.1, e.2)
def WF (gm : GM) : Prop := (∀ e ∈ gm, e.1.length = 2) ∧ (gm.map (·.1)).Nodup
instance (gm : GM) : Decidable (WF gm) := by unfold WF; infer_instance

def look (g : GM) (k : List UInt8) : Option Int := (g.find? fun e => e.1 == k).map (·.2)

theorem mapHas_eq (g : GM) (k : List UInt8) : mapHas g k = (look g k).isSome := by
  simp [mapHas, look]
theorem mapGet_eq (g : GM) (k : List UInt8) : mapGet g k 0 = (look g k).getD 0 := rfl

theorem look_nil (k : List UInt8) : look [] k = none := rfl

theorem look_cons (e : List UInt8 × Int) (g : GM) (k : List UInt8) :
    look (e :: g) k = if e.1 = k then some e.2 else look g k := by
  unfold look
  by_cases h : e.1 = k <;> simp [h]

theorem look_eq_none_iff (g : GM) (k : List UInt8) : look g k = none ↔ k ∉ g.map (·.1) := by
  induction g with
  | nil => simp [look_nil]
  | cons e g ih =>
    rw [look_cons]
    by_cases h : e.1 = k
    · simp [h]
    · simp [h, ih, Ne.symm h]

theorem mem_of_look {g : GM} {k : List UInt8} {v : Int} (h : look g k = some v) : (k, v) ∈ g := by
  induction g with
  | nil => simp [look_nil] at h
  | cons e g ih =>
    rw [look_cons] at h
    by_cases hk : e.1 = k
    · simp [hk] at h; subst hk; subst h; simp
    · simp [hk] at h; exact List.mem_cons_of_mem _ (ih h)

theorem look_of_mem {g : GM} (hu : (g.map (·.1)).Nodup) {k : List UInt8} {v : Int} (h : (k, v) ∈ g) :
    look g k = some v := by
  induction g with
  | nil => simp at h
  | cons e g ih =>
    rw [look_cons]
    simp only [List.map_cons, List.nodup_cons] at hu
    rcases List.mem_cons.1 h with h | h
    · subst h; simp
    · have : e.1 ≠ k := by
        rintro rfl
        exact hu.1 (List.mem_map.2 ⟨_, h, rfl⟩)
      simp [this, ih hu.2 h]

theorem look_iff_mem {g : GM} (hu : WF g) (k : List UInt8) (v : Int) :
    look g k = some v ↔ (k, v) ∈ g := ⟨mem_of_look, look_of_mem hu.2⟩

theorem look_len {g : GM} (hu : WF g) {k : List UInt8} {v : Int} (h : look g k = some v) : k.length = 2 :=
  hu.1 _ (mem_of_look h)

theorem any_key_eq (g : GM) (k : List UInt8) : g.any (fun e => e.1 == k) = (look g k).isSome := by
  induction g with
  | nil => rfl
  | cons e g ih =>
    rw [List.any_cons, look_cons, ih]
    by_cases h : e.1 = k <;> simp [h]

theorem look_map_replace (g : GM) (k : List UInt8) (v : Int) (k' : List UInt8) :
    look (g.map fun e => if e.1 == k then (k, v) else e) k'
      = if k' = k then (look g k).map (fun _ => v) else look g k' := by
  induction g with
  | nil => simp [look_nil]
  | cons e g ih =>
    rw [List.map_cons, look_cons, ih]
    by_cases h : e.1 = k
    · by_cases h' : k' = k
      · subst h'; simp [h, look_cons]
      · simp [h, h', look_cons, Ne.symm h']
    · by_cases h' : k' = k
      · subst h'; simp [h, look_cons]
      · simp [h, h', look_cons]

theorem look_append_single (g : GM) (k : List UInt8) (v : Int) (k' : List UInt8) :
    look (g ++ [(k, v)]) k' = (look g k').or (if k' = k then some v else none) := by
  induction g with
  | nil => simp [look_cons, look_nil, eq_comm]
  | cons e g ih =>
    rw [List.cons_append, look_cons, look_cons, ih]
    by_cases h : e.1 = k' <;> simp [h]

theorem look_mapSet (g : GM) (k : List UInt8) (v : Int) (k' : List UInt8) :
    look (mapSet g k v) k' = if k' = k then some v else look g k' := by
  unfold mapSet
  rw [any_key_eq]
  cases hl : look g k with
  | none =>
    simp only [Option.isSome_none, Bool.false_eq_true, if_false, look_append_single]
    by_cases h' : k' = k
    · subst h'; simp [hl]
    · simp [h']
  | some w =>
    simp only [Option.isSome_some, if_true, look_map_replace, hl, Option.map_some]

theorem keys_mapSet (g : GM) (k : List UInt8) (v : Int) :
    (mapSet g k v).map (·.1) = if k ∈ g.map (·.1) then g.map (·.1) else g.map (·.1) ++ [k] := by
  unfold mapSet
  rw [any_key_eq]
  cases hl : look g k with
  | none =>
    have := (look_eq_none_iff g k).1 hl
    simp [this]
  | some w =>
    have : k ∈ g.map (·.1) := by
      apply Classical.byContradiction; intro hn
      rw [← look_eq_none_iff, hl] at hn; cases hn
    simp only [Option.isSome_some, if_true, this, List.map_map]
    apply List.map_congr_left
    intro e he
    by_cases h : e.1 = k <;> simp [h]

theorem WF_mapSet {g : GM} (h : WF g) {k : List UInt8} (hk : k.length = 2) (v : Int) : WF (mapSet g k v) := by
  constructor
  · intro e he
    have : e.1 ∈ (mapSet g k v).map (·.1) := List.mem_map.2 ⟨e, he, rfl⟩
    rw [keys_mapSet] at this
    split at this
    · obtain ⟨e', he', h'⟩ := List.mem_map.1 this
      rw [← h']; exact h.1 e' he'
    · rcases List.mem_append.1 this with this | this
      · obtain ⟨e', he', h'⟩ := List.mem_map.1 this
        rw [← h']; exact h.1 e' he'
      · simp at this; rw [this]; exact hk
  · rw [keys_mapSet]
    split
    · exact h.2
    · rename_i hn
      rw [List.nodup_append]
      refine ⟨h.2, by simp, ?_⟩
      intro a ha b hb
      simp at hb; subst hb
      rintro rfl; exact hn ha

theorem length_mapSet_fresh (g : GM) (k : List UInt8) (v : Int) (h : look g k = none) :
    (mapSet g k v).length = g.length + 1 := by
  unfold mapSet
  rw [any_key_eq, h]
  simp

/-! ## The loop of `Symmetrical` -/

/-- `[2]byte{k[1], k[0]}` -/
def flipL : List UInt8 → List UInt8
  | [a, b] => [b, a]
  | k => k

/-- the `panic` condition of one iteration: `k[0] != k[1]` and `m[flip]` present with another score -/
def gconf (m : GM) (e : List UInt8 × Int) : Bool :=
  match e.1 with
  | [a, b] => a != b && (mapHas m [b, a] && mapGet m [b, a] 0 != e.2)
  | _ => false

/-- `result[k] = v; result[flip] = v` -/
def gstep (s : GM) (e : List UInt8 × Int) : GM := mapSet (mapSet s e.1 e.2) (flipL e.1) e.2

theorem len2 {k : List UInt8} (h : k.length = 2) : ∃ a b, k = [a, b] := by
  match k, h with
  | [a, b], _ => exact ⟨a, b, rfl⟩

theorem forIn_sym (m : GM) (body : List UInt8 × Int → GM → Option (ForInStep GM))
    (hbody : ∀ e s, e.1.length = 2 →
      body e s = if gconf m e = true then none else some (ForInStep.yield (gstep s e)))
    (l : GM) (hl : ∀ e ∈ l, e.1.length = 2) (s : GM) :
    forIn l s body = if l.any (gconf m) = true then none else some (l.foldl gstep s) := by
  induction l generalizing s with
  | nil => simp
  | cons e l ih =>
    rw [List.forIn_cons, hbody e s (hl e (by simp)), List.any_cons, List.foldl_cons]
    by_cases hc : gconf m e = true
    · simp [hc]
    · simp only [hc, Bool.false_or]
      exact ih (fun e' he' => hl e' (List.mem_cons_of_mem _ he')) _

/-- The translated `Symmetrical`, loop-free. -/
theorem Matrix_Symmetrical_eq (hF : GoSrc.Matrix_Symmetrical_Found = true) (gm : GM)
    (hl : ∀ e ∈ gm, e.1.length = 2) :
    GoSrc.Matrix_Symmetrical gm
      = if gm.any (gconf gm) = true then none else some (gm.foldl gstep []) := by
  first
  | exact absurd hF (by decide)
  | (unfold GoSrc.Matrix_Symmetrical
     simp only [Option.pure_def, Option.bind_eq_bind]
     rw [forIn_sym gm _ _ gm hl]
     · split <;> rfl
     · intro e s he
       obtain ⟨a, b, hk⟩ := len2 he
       obtain ⟨k, v⟩ := e
       simp only at hk
       subst hk
       have h0 : idx [a, b] 0 = some a := rfl
       have h1 : idx [a, b] 1 = some b := rfl
       simp only [h0, h1, Option.bind_some, gconf, gstep, flipL]
       by_cases hab : a = b
       · subst hab; simp
       · by_cases hh : mapHas gm [b, a] = true <;> by_cases hv : mapGet gm [b, a] 0 = v <;> simp [hab, hh, hv])

/-! ## What the fold does, and the bridge to the hand model -/

theorem look_gstep (s : GM) (e : List UInt8 × Int) (k : List UInt8) :
    look (gstep s e) k = if k = flipL e.1 ∨ k = e.1 then some e.2 else look s k := by
  unfold gstep
  rw [look_mapSet, look_mapSet]
  by_cases h1 : k = flipL e.1 <;> by_cases h2 : k = e.1 <;> simp [h1, h2]

theorem flipL_len {k : List UInt8} (h : k.length = 2) : (flipL k).length = 2 := by
  obtain ⟨a, b, rfl⟩ := len2 h; rfl

theorem WF_gstep {s : GM} (h : WF s) {e : List UInt8 × Int} (he : e.1.length = 2) : WF (gstep s e) :=
  WF_mapSet (WF_mapSet h he _) (flipL_len he) _

theorem WF_fold (l : GM) (hl : ∀ e ∈ l, e.1.length = 2) (s : GM) (h : WF s) : WF (l.foldl gstep s) := by
  induction l generalizing s with
  | nil => exact h
  | cons e l ih =>
    exact ih (fun e' he' => hl e' (List.mem_cons_of_mem _ he')) _ (WF_gstep h (hl e (by simp)))

theorem WF_nil : WF [] := by decide

theorem keyOf_inj {k k' : Matrix.Key} : keyOf k = keyOf k' ↔ k = k' := by
  rcases k with ⟨a, b⟩; rcases k' with ⟨c, d⟩
  simp [keyOf]

theorem flipL_keyOf (k : Matrix.Key) : flipL (keyOf k) = keyOf (Matrix.flip k) := rfl

theorem get_eq_look (m : Matrix.M) (k : Matrix.Key) : Matrix.get m k = look (ofM m) (keyOf k) := by
  induction m with
  | nil => rfl
  | cons e m ih =>
    show _ = look ((keyOf e.1, e.2) :: ofM m) (keyOf k)
    rw [Matrix.get_cons, look_cons, ih]
    simp only [keyOf_inj]

theorem gconf_ofM (m : Matrix.M) (e : Matrix.Key × Int) :
    gconf (ofM m) (keyOf e.1, e.2) = Matrix.conflicts m e := by
  unfold gconf Matrix.conflicts
  simp only [keyOf]
  have : look (ofM m) [e.1.2, e.1.1] = Matrix.get m (Matrix.flip e.1) := (get_eq_look m (Matrix.flip e.1)).symm
  rw [mapHas_eq, mapGet_eq, this]
  cases Matrix.get m (Matrix.flip e.1) <;> simp

theorem any_gconf_ofM (m : Matrix.M) : (ofM m).any (gconf (ofM m)) = m.any (Matrix.conflicts m) := by
  unfold ofM
  rw [List.any_map]
  congr 1
  funext e
  exact gconf_ofM m e

theorem fold_bridge (l : Matrix.M) (acc : Matrix.M) (acc' : GM)
    (h : ∀ k, Matrix.get acc k = look acc' (keyOf k)) :
    ∀ k, Matrix.get (l.foldl Matrix.symStep acc) k = look ((ofM l).foldl gstep acc') (keyOf k) := by
  induction l generalizing acc acc' with
  | nil => exact h
  | cons e l ih =>
    show ∀ k, Matrix.get (l.foldl Matrix.symStep (Matrix.symStep acc e)) k
      = look ((ofM l).foldl gstep (gstep acc' (keyOf e.1, e.2))) (keyOf k)
    apply ih
    intro k
    rw [Matrix.get_symStep, look_gstep, h]
    simp only [flipL_keyOf, keyOf_inj]

/-- The model's result, loop-free. -/
theorem symmetrical_eq (m : Matrix.M) :
    Matrix.symmetrical m
      = if m.any (Matrix.conflicts m) = true then none else some (m.foldl Matrix.symStep []) := rfl

/-- The translated `Symmetrical` against the hand model, on the image of any model matrix. -/
theorem sym_model (hF : GoSrc.Matrix_Symmetrical_Found = true) (m : Matrix.M) :
    (GoSrc.Matrix_Symmetrical (ofM m) = none ↔ Matrix.symmetrical m = none) ∧
    ∀ r r', GoSrc.Matrix_Symmetrical (ofM m) = some r → Matrix.symmetrical m = some r' →
      ∀ k, Matrix.get r' k = look r (keyOf k) := by
  have hl : ∀ e ∈ ofM m, e.1.length = 2 := by
    intro e he
    obtain ⟨e', _, rfl⟩ := List.mem_map.1 he
    rfl
  rw [Matrix_Symmetrical_eq hF _ hl, symmetrical_eq, any_gconf_ofM]
  by_cases hc : m.any (Matrix.conflicts m) = true
  · simp [hc]
  · simp only [hc]
    refine ⟨by simp, ?_⟩
    intro r r' hr hr' k
    simp at hr hr'
    subst hr; subst hr'
    exact fold_bridge m [] [] (fun _ => rfl) k

/-! ## Every well-formed Go map is the image of a model matrix -/

def toM (gm : GM) : Matrix.M := gm.map fun e => ((e.1.getD 0 0, e.1.getD 1 0), e.2)

theorem ofM_toM (gm : GM) (h : ∀ e ∈ gm, e.1.length = 2) : ofM (toM gm) = gm := by
  unfold ofM toM
  rw [List.map_map]
  conv => rhs; rw [← List.map_id gm]
  apply List.map_congr_left
  intro e he
  obtain ⟨a, b, hk⟩ := len2 (h e he)
  obtain ⟨k, v⟩ := e
  simp only at hk
  subst hk
  rfl

theorem keyUnique_toM {gm : GM} (h : WF gm) : Matrix.KeyUnique (toM gm) := by
  unfold Matrix.KeyUnique
  have h2 := h.2
  rw [← ofM_toM gm h.1] at h2
  unfold ofM at h2
  rw [List.map_map] at h2
  have : (List.map ((fun x => x.1) ∘ fun e : Matrix.Key × Int => (keyOf e.1, e.2)) (toM gm))
      = ((toM gm).map (·.1)).map keyOf := by
    rw [List.map_map]; rfl
  rw [this] at h2
  rw [List.Nodup, List.pairwise_map] at h2
  exact h2.imp (fun hne heq => hne (by rw [heq]))

/-- `KeyUnique m` is exactly well-formedness of the Go-level image. -/
theorem WF_ofM_iff (m : Matrix.M) : WF (ofM m) ↔ Matrix.KeyUnique m := by
  constructor
  · intro h
    have := keyUnique_toM h
    have e : toM (ofM m) = m := by
      unfold toM ofM
      rw [List.map_map]
      conv => rhs; rw [← List.map_id m]
      apply List.map_congr_left
      intro e _
      rfl
    rwa [e] at this
  · intro h
    refine ⟨?_, ?_⟩
    · intro e he
      obtain ⟨e', _, rfl⟩ := List.mem_map.1 he
      rfl
    · unfold Matrix.KeyUnique at h
      have : (ofM m).map (·.1) = (m.map (·.1)).map keyOf := by
        unfold ofM; rw [List.map_map, List.map_map]; rfl
      rw [this, List.Nodup, List.pairwise_map]
      exact h.imp (fun hne heq => hne (keyOf_inj.1 heq))

/-- The core of the Go-level specification, lookup form. -/
theorem sym_look (hF : GoSrc.Matrix_Symmetrical_Found = true) {gm : GM} (h : WF gm) {r : GM}
    (hr : GoSrc.Matrix_Symmetrical gm = some r) :
    WF r ∧ ∀ (a b : UInt8) (v : Int),
      look r [a, b] = some v ↔ (look gm [a, b] = some v ∨ look gm [b, a] = some v) := by
  constructor
  · rw [Matrix_Symmetrical_eq hF _ h.1] at hr
    split at hr
    · cases hr
    · simp only [Option.some.injEq] at hr
      subst hr
      exact WF_fold gm h.1 [] WF_nil
  · intro a b v
    have hgm := ofM_toM gm h.1
    have hku := keyUnique_toM h
    have hm := sym_model hF (toM gm)
    rw [hgm] at hm
    cases hs : Matrix.symmetrical (toM gm) with
    | none => rw [hm.1.2 hs] at hr; cases hr
    | some r' =>
      have hb := hm.2 r r' hr hs
      have hspec := (Matrix.symmetrical_spec_some (toM gm) r' hku hs).2.2 (a, b) v
      rw [hb (a, b), get_eq_look, get_eq_look, hgm] at hspec
      exact hspec

theorem look_none_of_len {g : GM} (h : WF g) {k : List UInt8} (hk : k.length ≠ 2) : look g k = none := by
  cases hl : look g k with
  | none => rfl
  | some v => exact absurd (look_len h hl) hk

/-- from the lookup form to `mapHas` / `mapGet` -/
theorem has_get_of_iff {x y z : Option Int} (h : ∀ v, z = some v ↔ (x = some v ∨ y = some v)) :
    z.isSome = (x.isSome || y.isSome) ∧ z.getD 0 = if x.isSome = true then x.getD 0 else y.getD 0 := by
  cases x with
  | some v =>
    have := (h v).2 (Or.inl rfl)
    subst this; simp
  | none =>
    cases y with
    | some w =>
      have := (h w).2 (Or.inr rfl)
      subst this; simp
    | none =>
      cases z with
      | none => simp
      | some u => have := (h u).1 rfl; simp at this

theorem gconf_iff (gm : GM) (e : List UInt8 × Int) : gconf gm e = true ↔
    ∃ a b, e.1 = [a, b] ∧ a ≠ b ∧ ∃ v2, look gm [b, a] = some v2 ∧ v2 ≠ e.2 := by
  unfold gconf
  split
  · rename_i a b hk
    rw [mapHas_eq, mapGet_eq]
    constructor
    · intro hc
      refine ⟨a, b, hk, ?_⟩
      cases hl : look gm [b, a] with
      | none => simp [hl] at hc
      | some v2 =>
        simp [hl] at hc
        exact ⟨hc.1, v2, rfl, hc.2⟩
    · rintro ⟨a', b', hk', hne, v2, hl, hv⟩
      rw [hk] at hk'
      simp only [List.cons.injEq, and_true] at hk'
      obtain ⟨rfl, rfl⟩ := hk'
      simp [hl, hne, hv]
  · rename_i hk
    constructor
    · intro h; cases h
    · rintro ⟨a, b, hk', _⟩
      exact absurd hk' (hk a b)

theorem sym_none_iff (hF : GoSrc.Matrix_Symmetrical_Found = true) {gm : GM} (h : WF gm) :
    GoSrc.Matrix_Symmetrical gm = none ↔
      ∃ (a b : UInt8) (v v2 : Int), a ≠ b ∧ ([a, b], v) ∈ gm ∧ ([b, a], v2) ∈ gm ∧ v2 ≠ v := by
  rw [Matrix_Symmetrical_eq hF _ h.1]
  constructor
  · intro hn
    split at hn
    · rename_i hany
      obtain ⟨e, he, hc⟩ := List.any_eq_true.1 hany
      obtain ⟨a, b, hk, hne, v2, hl, hv⟩ := (gconf_iff gm e).1 hc
      obtain ⟨k, v⟩ := e
      simp only at hk hv
      subst hk
      exact ⟨a, b, v, v2, hne, he, mem_of_look hl, hv⟩
    · cases hn
  · rintro ⟨a, b, v, v2, hne, h1, h2, hv⟩
    have : gm.any (gconf gm) = true :=
      List.any_eq_true.2 ⟨([a, b], v), h1,
        (gconf_iff gm _).2 ⟨a, b, rfl, hne, v2, look_of_mem h.2 h2, hv⟩⟩
    simp [this]

theorem WF_perm {gm gm' : GM} (hp : gm.Perm gm') (h : WF gm) : WF gm' :=
  ⟨fun e he => h.1 e (hp.mem_iff.2 he), (hp.map (·.1)).nodup_iff.1 h.2⟩

theorem look_perm {gm gm' : GM} (hp : gm.Perm gm') (h : WF gm) (k : List UInt8) :
    look gm k = look gm' k := by
  have h' := WF_perm hp h
  cases hl : look gm' k with
  | some v => exact (look_iff_mem h k v).2 (hp.mem_iff.2 ((look_iff_mem h' k v).1 hl))
  | none =>
    cases hl2 : look gm k with
    | none => rfl
    | some v =>
      have := (look_iff_mem h' k v).2 (hp.mem_iff.1 ((look_iff_mem h k v).1 hl2))
      rw [hl] at this; cases this

theorem look_eq_has_get (g : GM) (k : List UInt8) :
    (if mapHas g k = true then some (mapGet g k 0) else none) = look g k := by
  rw [mapHas_eq, mapGet_eq]
  cases look g k <;> simp

theorem has_get_ext {g g' : GM} {k : List UInt8} (h : look g k = look g' k) :
    mapHas g k = mapHas g' k ∧ mapGet g k 0 = mapGet g' k 0 := by
  rw [mapHas_eq, mapHas_eq, mapGet_eq, mapGet_eq, h]
  exact ⟨rfl, rfl⟩

/-- The results on two orderings of the same map agree as maps. -/
theorem sym_perm_look (hF : GoSrc.Matrix_Symmetrical_Found = true) {gm gm' : GM} (h : WF gm)
    (hp : gm.Perm gm') {r r' : GM} (hr : GoSrc.Matrix_Symmetrical gm = some r)
    (hr' : GoSrc.Matrix_Symmetrical gm' = some r') (k : List UInt8) : look r k = look r' k := by
  have h' := WF_perm hp h
  obtain ⟨hw, hl⟩ := sym_look hF h hr
  obtain ⟨hw', hl'⟩ := sym_look hF h' hr'
  by_cases hk : k.length = 2
  · obtain ⟨a, b, rfl⟩ := len2 hk
    apply Option.ext
    intro v
    rw [hl, hl', look_perm hp h, look_perm hp h]
  · rw [look_none_of_len hw hk, look_none_of_len hw' hk]

/-! ## The `init` of levenshtein.go -/

/-- an index loop `for i := 0; i < N; i++` whose body never panics or breaks and steps an invariant -/
theorem forIn_range_inv {σ : Type} (inv : Nat → σ → Prop) (body : Int → σ → Option (ForInStep σ))
    (N : Nat)
    (hstep : ∀ j s, j < N → inv j s → ∃ s', body (Int.ofNat j) s = some (ForInStep.yield s') ∧ inv (j + 1) s') :
    ∀ (c a : Nat) (s : σ), a + c = N → inv a s →
      ∃ s', forIn ((List.range' a c).map Int.ofNat) s body = some s' ∧ inv N s' := by
  intro c
  induction c with
  | zero =>
    intro a s ha hi
    have : a = N := by omega
    subst this
    exact ⟨s, by simp, hi⟩
  | succ c ih =>
    intro a s ha hi
    obtain ⟨s', hb, hi'⟩ := hstep a s (by omega) hi
    obtain ⟨s'', hf, hi''⟩ := ih (a + 1) s' (by omega) hi'
    refine ⟨s'', ?_, hi''⟩
    rw [List.range'_succ, List.map_cons, List.forIn_cons, hb]
    exact hf

theorem forIn_upTo_inv {σ : Type} (inv : Nat → σ → Prop) (body : Int → σ → Option (ForInStep σ))
    (N : Nat)
    (hstep : ∀ j s, j < N → inv j s → ∃ s', body (Int.ofNat j) s = some (ForInStep.yield s') ∧ inv (j + 1) s')
    (s : σ) (h0 : inv 0 s) :
    ∃ s', forIn (upTo (N : Int)) s body = some s' ∧ inv N s' := by
  have := forIn_range_inv inv body N hstep N 0 s (by omega) h0
  unfold upTo
  rw [List.range_eq_range']
  simpa using this

theorem u8_ofNat (j : Nat) (h : j < 256) : u8 (Int.ofNat j) = UInt8.ofNat j := by
  unfold u8
  congr 1
  show ((j : Int) % 256).toNat = j
  omega

theorem toNat_ofNat_lt (j : Nat) (h : j < 256) : (UInt8.ofNat j).toNat = j := by
  rw [UInt8.toNat_ofNat']; omega

/-- After `n` steps of the two nested loops (`n = 256 * i + j`): the `n` keys `[x, y]` with
`256 * x + y < n`, each with the Levenshtein score. -/
def LevInv (n : Nat) (g : GM) : Prop :=
  WF g ∧ g.length = n ∧
  ∀ x y : UInt8, look g [x, y]
    = if 256 * x.toNat + y.toNat < n then some (if x = y then 0 else -1) else none

theorem levInv_zero : LevInv 0 [] := ⟨WF_nil, rfl, fun x y => by simp [look_nil]⟩

theorem levInv_step (i j : Nat) (hi : i < 256) (hj : j < 256) (g : GM) (h : LevInv (256 * i + j) g) :
    LevInv (256 * i + j + 1) (mapSet g [UInt8.ofNat i, UInt8.ofNat j] (if i = j then 0 else -1)) := by
  obtain ⟨hw, hlen, hlook⟩ := h
  have ti := toNat_ofNat_lt i hi
  have tj := toNat_ofNat_lt j hj
  refine ⟨WF_mapSet hw rfl _, ?_, ?_⟩
  · rw [length_mapSet_fresh, hlen]
    rw [hlook, ti, tj]
    simp
  · intro x y
    rw [look_mapSet, hlook]
    have hx := UInt8.toNat_lt x
    have hy := UInt8.toNat_lt y
    by_cases hk : [x, y] = [UInt8.ofNat i, UInt8.ofNat j]
    · simp only [List.cons.injEq, and_true] at hk
      obtain ⟨rfl, rfl⟩ := hk
      rw [ti, tj]
      have : (UInt8.ofNat i = UInt8.ofNat j) ↔ i = j := by
        rw [← UInt8.toNat_inj, ti, tj]
      simp [this]
    · rw [if_neg hk]
      have hne : ¬ (x.toNat = i ∧ y.toNat = j) := by
        rintro ⟨h1, h2⟩
        apply hk
        rw [← h1, ← h2, UInt8.ofNat_toNat, UInt8.ofNat_toNat]
      have : (256 * x.toNat + y.toNat < 256 * i + j + 1) ↔ (256 * x.toNat + y.toNat < 256 * i + j) := by
        omega
      simp only [this]

/-- The translated `init`: it does not panic and builds a map satisfying `LevInv (256 * 256)`. -/
theorem init_3_inv (hF : GoSrc.init_3_Found = true) :
    ∃ L, GoSrc.init_3 = some L ∧ LevInv 65536 L := by
  first
  | exact absurd hF (by decide)
  | (unfold GoSrc.init_3
     simp only [Option.pure_def, Option.bind_eq_bind]
     have houter := forIn_upTo_inv (fun i g => LevInv (256 * i) g)
       (fun i __s =>
          (forIn (upTo 256) __s fun j __s =>
                if (i != j) = true then some (ForInStep.yield (mapSet __s [u8 i, u8 j] (-1)))
                else some (ForInStep.yield (mapSet __s [u8 i, u8 j] 0))).bind
            fun __s => some (ForInStep.yield __s)) 256
       (by
         intro i g hi hinv
         have hinner := forIn_upTo_inv (fun j g => LevInv (256 * i + j) g)
           (fun j __s =>
                if (Int.ofNat i != j) = true then some (ForInStep.yield (mapSet __s [u8 (Int.ofNat i), u8 j] (-1)))
                else some (ForInStep.yield (mapSet __s [u8 (Int.ofNat i), u8 j] 0))) 256
           (by
             intro j g' hj hinv'
             refine ⟨_, ?_, levInv_step i j hi hj g' hinv'⟩
             simp only [u8_ofNat i hi, u8_ofNat j hj]
             by_cases hij : i = j
             · subst hij; simp
             · have hij' : ¬ ((i : Int) = (j : Int)) := by omega
               simp [hij, hij'])
           g hinv
         obtain ⟨g', hg', hinv'⟩ := hinner
         refine ⟨g', ?_, ?_⟩
         · rw [show ((256 : Nat) : Int) = 256 from rfl] at hg'
           simp only [hg', Option.bind_some]
         · have : 256 * (i + 1) = 256 * i + 256 := by omega
           rw [this]; exact hinv')
       [] levInv_zero
     obtain ⟨L, hL, hinv⟩ := houter
     refine ⟨L, ?_, hinv⟩
     rw [show ((256 : Nat) : Int) = 256 from rfl] at hL
     rw [hL]; rfl)

theorem levInv_final {L : GM} (h : LevInv 65536 L) :
    WF L ∧ L.length = 65536 ∧
    ∀ x y : UInt8, mapHas L [x, y] = true ∧ mapGet L [x, y] 0 = (if x = y then 0 else -1) := by
  obtain ⟨hw, hlen, hlook⟩ := h
  refine ⟨hw, hlen, ?_⟩
  intro x y
  have hx := UInt8.toNat_lt x
  have hy := UInt8.toNat_lt y
  have : 256 * x.toNat + y.toNat < 65536 := by omega
  rw [mapHas_eq, mapGet_eq, hlook, if_pos this]
  simp

theorem Matrix_Get_of (hF : GoSrc.Matrix_Get_Found = true) (L : GM) (x y : UInt8) (v : Int)
    (h : mapHas L [x, y] = true ∧ mapGet L [x, y] 0 = v) : GoSrc.Matrix_Get L x y = some v := by
  first
  | exact absurd hF (by decide)
  | (unfold GoSrc.Matrix_Get
     simp [h.1, h.2])

end MxGo
end Bio.GoSrcLemmas
