/-
  Helper definitions and lemmas for property C15 (the trie as a set of maximal
  sequences): abstraction function `abs`, invariant `NoDupKeys`, and the
  per-operation refinement lemmas.
-/
import Bio.Model.Trie
import Bio.Lemmas.Codec
namespace Bio.Trie

/-! ## Abstraction function and invariant -/

/-- Paths from the root to the leaf nodes (nodes without edges), the root
itself excluded. -/
def abs : T → List Bytes
  | .nil => []
  | .cons k c r => (if c.isNil then [[k]] else (abs c).map (k :: ·)) ++ abs r

/-- Leaf paths of a *node*, the node itself included when it is a leaf. -/
def sub (c : T) : List Bytes := if c.isNil then [[]] else abs c

/-- `b` is the key of one of the edges of the node. -/
def hasKey (b : UInt8) : T → Bool
  | .nil => false
  | .cons k _ r => k == b || hasKey b r

def noDupKeysB : T → Bool
  | .nil => true
  | .cons k c r => !hasKey k r && noDupKeysB c && noDupKeysB r

/-- Sibling keys are distinct at every node (the Go `map` invariant). -/
def NoDupKeys (t : T) : Prop := noDupKeysB t = true

instance (t : T) : Decidable (NoDupKeys t) := by unfold NoDupKeys; infer_instance

@[simp] theorem noDupKeys_nil : NoDupKeys .nil := rfl

@[simp] theorem noDupKeys_cons {k c r} :
    NoDupKeys (.cons k c r) ↔ hasKey k r = false ∧ NoDupKeys c ∧ NoDupKeys r := by
  simp [NoDupKeys, noDupKeysB, and_assoc]

@[simp] theorem isNil_iff {t : T} : t.isNil = true ↔ t = .nil := by
  cases t <;> simp [T.isNil]

@[simp] theorem isNil_false_iff {t : T} : t.isNil = false ↔ t ≠ .nil := by
  cases t <;> simp [T.isNil]

@[simp] theorem abs_nil : abs .nil = [] := rfl

theorem abs_cons (k c r) : abs (.cons k c r) = (sub c).map (k :: ·) ++ abs r := by
  unfold sub; rw [abs]; split <;> simp

@[simp] theorem sub_nil : sub .nil = [[]] := rfl

theorem sub_of_ne {c : T} (h : c ≠ .nil) : sub c = abs c := by
  cases c <;> simp_all [sub, T.isNil]

theorem abs_ne_nil : ∀ {t : T}, t ≠ .nil → abs t ≠ []
  | .nil, h => absurd rfl h
  | .cons k c r, _ => by
    rw [abs]
    split
    · simp
    · rename_i hc
      have := abs_ne_nil (t := c) (by simpa using hc)
      simp [this]

theorem sub_ne_nil (c : T) : sub c ≠ [] := by
  by_cases h : c = .nil
  · subst h; simp
  · rw [sub_of_ne h]; exact abs_ne_nil h

theorem mem_abs_cons {y : Bytes} {k c r} :
    y ∈ abs (.cons k c r) ↔ (∃ ys, ys ∈ sub c ∧ y = k :: ys) ∨ y ∈ abs r := by
  rw [abs_cons]; simp [eq_comm]

theorem mem_sub {y : Bytes} {c : T} :
    y ∈ sub c ↔ (c = .nil ∧ y = []) ∨ (c ≠ .nil ∧ y ∈ abs c) := by
  by_cases h : c = .nil
  · subst h; simp
  · simp [sub_of_ne h, h]

/-- Every member of `abs t` starts with one of the keys of `t`. -/
theorem head_of_mem_abs : ∀ {t : T} {y : Bytes}, y ∈ abs t →
    ∃ k ys, y = k :: ys ∧ hasKey k t = true
  | .nil, y, h => by simp at h
  | .cons k c r, y, h => by
    rcases mem_abs_cons.1 h with ⟨ys, _, rfl⟩ | h
    · exact ⟨k, ys, rfl, by simp [hasKey]⟩
    · obtain ⟨k', ys, rfl, hk⟩ := head_of_mem_abs h
      exact ⟨k', ys, rfl, by simp [hasKey, hk]⟩

theorem not_mem_abs_of_not_hasKey {t : T} {k : UInt8} {ys : Bytes}
    (h : hasKey k t = false) : k :: ys ∉ abs t := by
  intro hm
  obtain ⟨k', ys', he, hk⟩ := head_of_mem_abs hm
  simp only [List.cons.injEq] at he
  rw [← he.1, h] at hk
  exact Bool.noConfusion hk

theorem ne_nil_of_mem_abs {t : T} {y : Bytes} (h : y ∈ abs t) : y ≠ [] := by
  obtain ⟨k, ys, rfl, _⟩ := head_of_mem_abs h
  simp

/-- `∃ m ∈ sub c, x <+: m` in terms of `abs`. -/
theorem exists_prefix_sub {c : T} {x : Bytes} :
    (∃ m ∈ sub c, x <+: m) ↔ x = [] ∨ ∃ m ∈ abs c, x <+: m := by
  by_cases h : c = .nil
  · subst h; simp
  · rw [sub_of_ne h]
    constructor
    · exact fun h => Or.inr h
    · rintro (rfl | h)
      · obtain ⟨m, hm⟩ := List.exists_mem_of_ne_nil _ (abs_ne_nil h)
        exact ⟨m, hm, List.nil_prefix⟩
      · exact h

/-! ## `Has` -/

theorem has_iff_abs : ∀ (t : T) (x : Bytes), NoDupKeys t →
    (has x t = true ↔ x = [] ∨ ∃ m ∈ abs t, x <+: m)
  | _, [], _ => by simp [has]
  | .nil, _ :: _, _ => by simp [has]
  | .cons k c r, b :: bs, h => by
    rw [noDupKeys_cons] at h
    obtain ⟨hk, hc, hr⟩ := h
    rw [has]
    by_cases hkb : k = b
    · subst hkb
      simp only [beq_self_eq_true, if_true]
      rw [has_iff_abs c bs hc, ← exists_prefix_sub]
      simp only [reduceCtorEq, false_or]
      constructor
      · rintro ⟨m, hm, hp⟩
        exact ⟨k :: m, mem_abs_cons.2 (Or.inl ⟨m, hm, rfl⟩), by simpa using hp⟩
      · rintro ⟨m, hm, hp⟩
        rcases mem_abs_cons.1 hm with ⟨ys, hys, rfl⟩ | hm
        · exact ⟨ys, hys, by simpa using hp⟩
        · obtain ⟨k', ys, rfl, hk'⟩ := head_of_mem_abs hm
          simp only [List.cons_prefix_cons] at hp
          rw [← hp.1, hk] at hk'
          exact Bool.noConfusion hk'
    · have : (k == b) = false := by simpa using hkb
      simp only [this, Bool.false_eq_true, if_false]
      rw [has_iff_abs r (b :: bs) hr]
      simp only [reduceCtorEq, false_or]
      constructor
      · rintro ⟨m, hm, hp⟩
        exact ⟨m, mem_abs_cons.2 (Or.inr hm), hp⟩
      · rintro ⟨m, hm, hp⟩
        rcases mem_abs_cons.1 hm with ⟨ys, hys, rfl⟩ | hm
        · simp only [List.cons_prefix_cons] at hp
          exact absurd hp.1.symm hkb
        · exact ⟨m, hm, hp⟩

theorem has_iff_sub (t : T) (x : Bytes) (h : NoDupKeys t) :
    has x t = true ↔ ∃ m ∈ sub t, x <+: m := by
  rw [has_iff_abs t x h, exists_prefix_sub]

/-! ## `Add` -/

@[simp] theorem add_nil_left (t : T) : add [] t = t := by cases t <;> rfl

theorem chain_eq_nil {b : Bytes} : chain b = .nil ↔ b = [] := by
  cases b <;> simp [chain]

theorem sub_chain : ∀ b : Bytes, sub (chain b) = [b]
  | [] => rfl
  | b :: bs => by
    have : chain (b :: bs) ≠ .nil := by simp [chain]
    rw [sub_of_ne this, chain, abs_cons, sub_chain bs]; simp

theorem noDupKeys_chain : ∀ b : Bytes, NoDupKeys (chain b)
  | [] => rfl
  | b :: bs => by simp [chain, hasKey, noDupKeys_chain bs]

theorem add_ne_nil {b : Bytes} (hb : b ≠ []) (t : T) : add b t ≠ .nil := by
  cases b with
  | nil => exact absurd rfl hb
  | cons b bs =>
    cases t with
    | nil => simp [add]
    | cons k c r => rw [add]; split <;> simp

theorem hasKey_add : ∀ (t : T) (b : UInt8) (bs : Bytes) (x : UInt8),
    hasKey x (add (b :: bs) t) = (hasKey x t || b == x)
  | .nil, b, bs, x => by simp [add, hasKey]
  | .cons k c r, b, bs, x => by
    rw [add]
    split
    · rename_i h
      have : k = b := by simpa using h
      subst this
      simp only [hasKey]
      cases hk : k == x <;> simp
    · rw [hasKey, hasKey, hasKey_add r b bs x, Bool.or_assoc]

theorem noDupKeys_add : ∀ (b : Bytes) (t : T), NoDupKeys t → NoDupKeys (add b t)
  | [], t, h => by simpa using h
  | b :: bs, .nil, _ => by simp [add, hasKey, noDupKeys_chain bs]
  | b :: bs, .cons k c r, h => by
    rw [noDupKeys_cons] at h
    obtain ⟨hk, hc, hr⟩ := h
    rw [add]
    split
    · exact noDupKeys_cons.2 ⟨hk, noDupKeys_add bs c hc, hr⟩
    · rename_i hkb
      refine noDupKeys_cons.2 ⟨?_, hc, noDupKeys_add (b :: bs) r hr⟩
      rw [hasKey_add, hk]
      have hne : k ≠ b := by simpa using hkb
      simp [Ne.symm hne]

/-- Adding something that is already a prefix of a member changes nothing. -/
theorem add_of_has : ∀ (b : Bytes) (t : T), has b t = true → add b t = t
  | [], t, _ => by simp
  | _ :: _, .nil, h => by simp [has] at h
  | b :: bs, .cons k c r, h => by
    rw [has] at h
    rw [add]
    split
    · rename_i hkb
      rw [if_pos hkb] at h
      rw [add_of_has bs c h]
    · rename_i hkb
      rw [if_neg hkb] at h
      rw [add_of_has (b :: bs) r h]

/-- Node-level version of `mem_abs_add_of_not_has`, from the list-level one. -/
theorem mem_sub_add_aux (c : T) (bs : Bytes) (hbs : bs ≠ [])
    (ih : ∀ y, y ∈ abs (add bs c) ↔ y = bs ∨ (y ∈ abs c ∧ ¬ y <+: bs)) (ys : Bytes) :
    ys ∈ sub (add bs c) ↔ ys = bs ∨ (ys ∈ sub c ∧ ¬ ys <+: bs) := by
  rw [sub_of_ne (add_ne_nil hbs c), ih]
  by_cases hc : c = .nil
  · subst hc
    simp only [abs_nil, List.not_mem_nil, false_and, or_false, sub_nil, List.mem_singleton]
    constructor
    · exact Or.inl
    · rintro (h | ⟨rfl, h⟩)
      · exact h
      · exact absurd List.nil_prefix h
  · rw [sub_of_ne hc]

theorem mem_abs_add_of_not_has : ∀ (b : Bytes) (t : T), NoDupKeys t → has b t = false →
    ∀ y, y ∈ abs (add b t) ↔ y = b ∨ (y ∈ abs t ∧ ¬ y <+: b)
  | [], t, _, h => by simp [has] at h
  | b :: bs, .nil, _, _ => by
    intro y
    rw [add, abs_cons, sub_chain]; simp
  | b :: bs, .cons k c r, hnd, h => by
    intro y
    rw [noDupKeys_cons] at hnd
    obtain ⟨hk, hc, hr⟩ := hnd
    rw [has] at h
    rw [add]
    split
    · rename_i hkb
      rw [if_pos hkb] at h
      have hkb : k = b := by simpa using hkb
      subst hkb
      have hbs : bs ≠ [] := by rintro rfl; simp [has] at h
      have ih := mem_sub_add_aux c bs hbs (mem_abs_add_of_not_has bs c hc h)
      rw [mem_abs_cons, mem_abs_cons]
      constructor
      · rintro (⟨ys, hys, rfl⟩ | hy)
        · rcases (ih ys).1 hys with rfl | ⟨h1, h2⟩
          · exact Or.inl rfl
          · exact Or.inr ⟨Or.inl ⟨ys, h1, rfl⟩, by simpa using h2⟩
        · refine Or.inr ⟨Or.inr hy, ?_⟩
          obtain ⟨k', ys, rfl, hk'⟩ := head_of_mem_abs hy
          simp only [List.cons_prefix_cons, not_and]
          rintro rfl
          rw [hk] at hk'; exact Bool.noConfusion hk'
      · rintro (rfl | ⟨⟨ys, hys, rfl⟩ | hy, hnp⟩)
        · exact Or.inl ⟨bs, (ih bs).2 (Or.inl rfl), rfl⟩
        · exact Or.inl ⟨ys, (ih ys).2 (Or.inr ⟨hys, by simpa using hnp⟩), rfl⟩
        · exact Or.inr hy
    · rename_i hkb
      rw [if_neg hkb] at h
      have hkb : k ≠ b := by simpa using hkb
      have ih := mem_abs_add_of_not_has (b :: bs) r hr h
      rw [mem_abs_cons, mem_abs_cons, ih]
      constructor
      · rintro (⟨ys, hys, rfl⟩ | rfl | ⟨hy, hnp⟩)
        · exact Or.inr ⟨Or.inl ⟨ys, hys, rfl⟩, by simp [hkb]⟩
        · exact Or.inl rfl
        · exact Or.inr ⟨Or.inr hy, hnp⟩
      · rintro (rfl | ⟨⟨ys, hys, rfl⟩ | hy, hnp⟩)
        · exact Or.inr (Or.inl rfl)
        · exact Or.inl ⟨ys, hys, rfl⟩
        · exact Or.inr (Or.inr ⟨hy, hnp⟩)

/-! ## `Delete` -/

@[simp] theorem del_nil_left (t : T) : del [] t = some t := by cases t <;> rfl

theorem del_cons_nil (b : UInt8) (bs : Bytes) : del (b :: bs) .nil = none := rfl

theorem del_cons_cons_eq_single (k : UInt8) (c r : T) : del [k] (.cons k c r) = some r := by
  simp [del]

theorem del_cons_cons_eq (k b1 : UInt8) (bs : Bytes) (c r : T) :
    del (k :: b1 :: bs) (.cons k c r) =
      match del (b1 :: bs) c with
      | none => none
      | some c' => if c'.isNil then some r else some (.cons k c' r) := by
  simp only [del, beq_self_eq_true, if_true]
  cases del (b1 :: bs) c <;> rfl

theorem del_cons_cons_ne {k b : UInt8} (h : k ≠ b) (bs : Bytes) (c r : T) :
    del (b :: bs) (.cons k c r) = (del (b :: bs) r).map (.cons k c ·) := by
  have : (k == b) = false := by simpa using h
  cases bs <;> simp [del, this]

/-- `Delete` fails exactly when `Has` fails (no invariant needed: same walk). -/
theorem del_eq_none_iff : ∀ (b : Bytes) (t : T), del b t = none ↔ has b t = false
  | [], t => by simp [has]
  | _ :: _, .nil => by simp [del, has]
  | [b], .cons k c r => by
    by_cases hkb : k = b
    · subst hkb; simp [del_cons_cons_eq_single, has]
    · have : (k == b) = false := by simpa using hkb
      rw [del_cons_cons_ne hkb, has, this]
      simpa using del_eq_none_iff [b] r
  | b :: b1 :: bs, .cons k c r => by
    by_cases hkb : k = b
    · subst hkb
      have ih := del_eq_none_iff (b1 :: bs) c
      rw [del_cons_cons_eq, has]
      simp only [beq_self_eq_true, if_true]
      rw [← ih]
      cases hd : del (b1 :: bs) c with
      | none => simp
      | some c' => by_cases hc' : c' = .nil <;> simp [hc']
    · have : (k == b) = false := by simpa using hkb
      rw [del_cons_cons_ne hkb, has, this]
      simpa using del_eq_none_iff (b :: b1 :: bs) r

theorem hasKey_of_del : ∀ (b : Bytes) (t t' : T) (x : UInt8), del b t = some t' →
    hasKey x t' = true → hasKey x t = true
  | [], t, t', x, h, hx => by simp at h; subst h; exact hx
  | _ :: _, .nil, t', x, h, hx => by simp [del] at h
  | [b], .cons k c r, t', x, h, hx => by
    by_cases hkb : k = b
    · subst hkb
      rw [del_cons_cons_eq_single] at h
      cases h
      simp [hasKey, hx]
    · rw [del_cons_cons_ne hkb] at h
      cases hd : del [b] r with
      | none => simp [hd] at h
      | some r' =>
        simp only [hd, Option.map_some, Option.some.injEq] at h
        subst h
        simp only [hasKey, Bool.or_eq_true] at hx ⊢
        exact hx.imp id (hasKey_of_del [b] r r' x hd)
  | b :: b1 :: bs, .cons k c r, t', x, h, hx => by
    by_cases hkb : k = b
    · subst hkb
      rw [del_cons_cons_eq] at h
      cases hd : del (b1 :: bs) c with
      | none => simp [hd] at h
      | some c' =>
        simp only [hd] at h
        split at h
        · cases h; simp [hasKey, hx]
        · cases h; simpa [hasKey] using hx
    · rw [del_cons_cons_ne hkb] at h
      cases hd : del (b :: b1 :: bs) r with
      | none => simp [hd] at h
      | some r' =>
        simp only [hd, Option.map_some, Option.some.injEq] at h
        subst h
        simp only [hasKey, Bool.or_eq_true] at hx ⊢
        exact hx.imp id (hasKey_of_del _ r r' x hd)

theorem not_hasKey_of_del {b : Bytes} {t t' : T} {x : UInt8} (h : del b t = some t')
    (hx : hasKey x t = false) : hasKey x t' = false := by
  cases h' : hasKey x t' with
  | false => rfl
  | true => rw [hasKey_of_del b t t' x h h'] at hx; exact Bool.noConfusion hx

theorem noDupKeys_del : ∀ (b : Bytes) (t t' : T), del b t = some t' → NoDupKeys t → NoDupKeys t'
  | [], t, t', h, hnd => by simp at h; subst h; exact hnd
  | _ :: _, .nil, t', h, _ => by simp [del] at h
  | [b], .cons k c r, t', h, hnd => by
    rw [noDupKeys_cons] at hnd
    obtain ⟨hk, hc, hr⟩ := hnd
    by_cases hkb : k = b
    · subst hkb
      rw [del_cons_cons_eq_single] at h
      cases h; exact hr
    · rw [del_cons_cons_ne hkb] at h
      cases hd : del [b] r with
      | none => simp [hd] at h
      | some r' =>
        simp only [hd, Option.map_some, Option.some.injEq] at h
        subst h
        exact noDupKeys_cons.2 ⟨not_hasKey_of_del hd hk, hc, noDupKeys_del _ r r' hd hr⟩
  | b :: b1 :: bs, .cons k c r, t', h, hnd => by
    rw [noDupKeys_cons] at hnd
    obtain ⟨hk, hc, hr⟩ := hnd
    by_cases hkb : k = b
    · subst hkb
      rw [del_cons_cons_eq] at h
      cases hd : del (b1 :: bs) c with
      | none => simp [hd] at h
      | some c' =>
        simp only [hd] at h
        split at h
        · cases h; exact hr
        · cases h; exact noDupKeys_cons.2 ⟨hk, noDupKeys_del _ c c' hd hc, hr⟩
    · rw [del_cons_cons_ne hkb] at h
      cases hd : del (b :: b1 :: bs) r with
      | none => simp [hd] at h
      | some r' =>
        simp only [hd, Option.map_some, Option.some.injEq] at h
        subst h
        exact noDupKeys_cons.2 ⟨not_hasKey_of_del hd hk, hc, noDupKeys_del _ r r' hd hr⟩

/-- Sibling case shared by the two non-trivial cases of `mem_abs_del`. -/
theorem mem_abs_del_sibling {k b : UInt8} (hkb : k ≠ b) (bs : Bytes) (c r r' : T)
    (ih : ∀ y, y ∈ abs r' ↔ y ∈ abs r ∧ ¬ (b :: bs) <+: y) (y : Bytes) :
    y ∈ abs (.cons k c r') ↔ y ∈ abs (.cons k c r) ∧ ¬ (b :: bs) <+: y := by
  rw [mem_abs_cons, mem_abs_cons, ih]
  constructor
  · rintro (⟨ys, hys, rfl⟩ | ⟨hy, hnp⟩)
    · exact ⟨Or.inl ⟨ys, hys, rfl⟩, by simp [Ne.symm hkb]⟩
    · exact ⟨Or.inr hy, hnp⟩
  · rintro ⟨⟨ys, hys, rfl⟩ | hy, hnp⟩
    · exact Or.inl ⟨ys, hys, rfl⟩
    · exact Or.inr ⟨hy, hnp⟩

/-- The members after a successful `Delete` are exactly the old members that
do not have the deleted prefix: in particular no childless remnant of the
deleted path survives as a new member. -/
theorem mem_abs_del : ∀ (b : Bytes) (t t' : T), b ≠ [] → NoDupKeys t → del b t = some t' →
    ∀ y, y ∈ abs t' ↔ y ∈ abs t ∧ ¬ b <+: y
  | [], _, _, hb, _, _ => absurd rfl hb
  | _ :: _, .nil, t', _, _, h => by simp [del] at h
  | [b], .cons k c r, t', _, hnd, h => by
    intro y
    rw [noDupKeys_cons] at hnd
    obtain ⟨hk, hc, hr⟩ := hnd
    by_cases hkb : k = b
    · subst hkb
      rw [del_cons_cons_eq_single] at h
      cases h
      rw [mem_abs_cons]
      constructor
      · intro hy
        refine ⟨Or.inr hy, ?_⟩
        obtain ⟨k', ys, rfl, hk'⟩ := head_of_mem_abs hy
        simp only [List.cons_prefix_cons, List.nil_prefix, and_true]
        rintro rfl
        rw [hk] at hk'; exact Bool.noConfusion hk'
      · rintro ⟨⟨ys, _, rfl⟩ | hy, hnp⟩
        · simp at hnp
        · exact hy
    · rw [del_cons_cons_ne hkb] at h
      cases hd : del [b] r with
      | none => simp [hd] at h
      | some r' =>
        simp only [hd, Option.map_some, Option.some.injEq] at h
        subst h
        exact mem_abs_del_sibling hkb [] c r r'
          (mem_abs_del [b] r r' (by simp) hr hd) y
  | b :: b1 :: bs, .cons k c r, t', _, hnd, h => by
    intro y
    rw [noDupKeys_cons] at hnd
    obtain ⟨hk, hc, hr⟩ := hnd
    by_cases hkb : k = b
    · subst hkb
      rw [del_cons_cons_eq] at h
      cases hd : del (b1 :: bs) c with
      | none => simp [hd] at h
      | some c' =>
        have ih := mem_abs_del (b1 :: bs) c c' (by simp) hc hd
        have hcne : c ≠ .nil := by rintro rfl; simp [del] at hd
        simp only [hd] at h
        -- members of `r` never have prefix `k :: _`
        have hrk : ∀ y, y ∈ abs r → ¬ (k :: b1 :: bs) <+: y := by
          intro y hy
          obtain ⟨k', ys, rfl, hk'⟩ := head_of_mem_abs hy
          simp only [List.cons_prefix_cons, not_and]
          rintro rfl
          rw [hk] at hk'; exact Bool.noConfusion hk'
        split at h
        · -- the child became childless: it is pruned
          rename_i hnil
          cases h
          have hc' : c' = .nil := by simpa using hnil
          subst hc'
          rw [mem_abs_cons, sub_of_ne hcne]
          constructor
          · intro hy
            exact ⟨Or.inr hy, hrk y hy⟩
          · rintro ⟨⟨ys, hys, rfl⟩ | hy, hnp⟩
            · have := (ih ys).2 ⟨hys, by simpa using hnp⟩
              simp at this
            · exact hy
        · -- the child keeps other members: it stays
          rename_i hnil
          cases h
          have hc' : c' ≠ .nil := by simpa using hnil
          rw [mem_abs_cons, mem_abs_cons, sub_of_ne hcne, sub_of_ne hc']
          constructor
          · rintro (⟨ys, hys, rfl⟩ | hy)
            · have := (ih ys).1 hys
              exact ⟨Or.inl ⟨ys, this.1, rfl⟩, by simpa using this.2⟩
            · exact ⟨Or.inr hy, hrk y hy⟩
          · rintro ⟨⟨ys, hys, rfl⟩ | hy, hnp⟩
            · exact Or.inl ⟨ys, (ih ys).2 ⟨hys, by simpa using hnp⟩, rfl⟩
            · exact Or.inr hy
    · rw [del_cons_cons_ne hkb] at h
      cases hd : del (b :: b1 :: bs) r with
      | none => simp [hd] at h
      | some r' =>
        simp only [hd, Option.map_some, Option.some.injEq] at h
        subst h
        exact mem_abs_del_sibling hkb (b1 :: bs) c r r'
          (mem_abs_del (b :: b1 :: bs) r r' (by simp) hr hd) y

/-! ## The members form an antichain without repetitions -/

theorem sub_nodup_of {c : T} (h : (abs c).Nodup) : (sub c).Nodup := by
  by_cases hc : c = .nil
  · subst hc; simp
  · rwa [sub_of_ne hc]

theorem abs_nodup : ∀ (t : T), NoDupKeys t → (abs t).Nodup
  | .nil, _ => by simp
  | .cons k c r, hnd => by
    rw [noDupKeys_cons] at hnd
    obtain ⟨hk, hc, hr⟩ := hnd
    rw [abs_cons, List.nodup_append]
    refine ⟨?_, abs_nodup r hr, ?_⟩
    · have := sub_nodup_of (abs_nodup c hc)
      rw [List.Nodup, List.pairwise_map]
      exact this.imp (fun h => by simpa using h)
    · intro a ha b hb hab
      subst hab
      obtain ⟨ys, _, rfl⟩ := List.mem_map.1 ha
      exact not_mem_abs_of_not_hasKey hk hb

theorem sub_antichain_of {c : T}
    (h : ∀ m1 ∈ abs c, ∀ m2 ∈ abs c, m1 <+: m2 → m1 = m2) :
    ∀ m1 ∈ sub c, ∀ m2 ∈ sub c, m1 <+: m2 → m1 = m2 := by
  by_cases hc : c = .nil
  · subst hc; simp
  · rwa [sub_of_ne hc]

theorem abs_antichain : ∀ (t : T), NoDupKeys t →
    ∀ m1 ∈ abs t, ∀ m2 ∈ abs t, m1 <+: m2 → m1 = m2
  | .nil, _ => by simp
  | .cons k c r, hnd => by
    rw [noDupKeys_cons] at hnd
    obtain ⟨hk, hc, hr⟩ := hnd
    intro m1 h1 m2 h2 hp
    rcases mem_abs_cons.1 h1 with ⟨y1, hy1, rfl⟩ | h1
    · rcases mem_abs_cons.1 h2 with ⟨y2, hy2, rfl⟩ | h2
      · simp only [List.cons_prefix_cons, true_and] at hp
        rw [sub_antichain_of (abs_antichain c hc) y1 hy1 y2 hy2 hp]
      · obtain ⟨k', ys, rfl, hk'⟩ := head_of_mem_abs h2
        simp only [List.cons_prefix_cons] at hp
        rw [← hp.1, hk] at hk'; exact Bool.noConfusion hk'
    · rcases mem_abs_cons.1 h2 with ⟨y2, hy2, rfl⟩ | h2
      · obtain ⟨k', ys, rfl, hk'⟩ := head_of_mem_abs h1
        simp only [List.cons_prefix_cons] at hp
        rw [hp.1, hk] at hk'; exact Bool.noConfusion hk'
      · exact abs_antichain r hr m1 h1 m2 h2 hp

/-! ## `ForEach` with a consumer that never stops -/

/-- Steps the loop spends on a sibling list (and everything below it). -/
def cost : T → Nat
  | .nil => 1
  | .cons _ c r => 1 + cost c + cost r

theorem cost_eq (t : T) : cost t = 2 * t.size + 1 := by
  induction t with
  | nil => rfl
  | cons k c r ihc ihr => simp only [cost, T.size, ihc, ihr]; omega

def stackCost : List (Bool × T) → Nat
  | [] => 0
  | (_, rem) :: s => cost rem + stackCost s

/-- What the frames of the stack will still report (leaf reports of the top
frame aside): the members below the unvisited edges, under the current path. -/
def outRest : List (Bool × T) → Bytes → List Bytes
  | [], _ => []
  | (_, rem) :: s, cur => (abs rem).map (cur.reverse ++ ·) ++ outRest s (cur.drop 1)

/-- Stack invariant: a frame whose node is a leaf has no edges, and only the
top frame can be a leaf. -/
def StackOK : List (Bool × T) → Prop
  | [] => True
  | (leaf, rem) :: s => (leaf = true → rem = .nil) ∧ ∀ f ∈ s, f.1 = false

theorem eachLoop_all : ∀ (fuel : Nat) (leaf : Bool) (rem : T) (s : List (Bool × T)) (cur : Bytes),
    StackOK ((leaf, rem) :: s) → stackCost ((leaf, rem) :: s) ≤ fuel →
    eachLoop (fun _ => true) fuel ((leaf, rem) :: s) cur =
      (if leaf && !cur.isEmpty then [cur.reverse] else []) ++ outRest ((leaf, rem) :: s) cur
  | 0, leaf, rem, s, cur, _, hf => by
    cases rem <;> simp [stackCost, cost] at hf <;> omega
  | fuel + 1, leaf, .nil, [], cur, _, _ => by
    simp [eachLoop, outRest]
  | fuel + 1, leaf, .nil, (l2, rem2) :: s, cur, hok, hf => by
    have hl2 : l2 = false := hok.2 (l2, rem2) (by simp)
    subst hl2
    have hok' : StackOK ((false, rem2) :: s) :=
      ⟨by simp, fun f hf => hok.2 f (List.mem_cons_of_mem _ hf)⟩
    have hf' : stackCost ((false, rem2) :: s) ≤ fuel := by
      simp only [stackCost, cost] at hf ⊢; omega
    have ih := eachLoop_all fuel false rem2 s (cur.drop 1) hok' hf'
    simp only [eachLoop, ih, outRest]
    split <;> simp
  | fuel + 1, leaf, .cons k c r, s, cur, hok, hf => by
    have hl : leaf = false := by
      cases leaf with
      | false => rfl
      | true => exact absurd (hok.1 rfl) (by simp)
    subst hl
    have hok' : StackOK ((c.isNil, c) :: (false, r) :: s) := by
      refine ⟨by simp, ?_⟩
      intro f hf
      rcases List.mem_cons.1 hf with rfl | hf
      · rfl
      · exact hok.2 f hf
    have hf' : stackCost ((c.isNil, c) :: (false, r) :: s) ≤ fuel := by
      simp only [stackCost, cost] at hf ⊢; omega
    have ih := eachLoop_all fuel c.isNil c ((false, r) :: s) (k :: cur) hok' hf'
    simp only [eachLoop, ih, outRest, Bool.false_and, Bool.false_eq_true, if_false,
      List.nil_append, List.drop_one, List.tail_cons, abs_cons, List.map_append, List.map_map,
      List.append_assoc]
    by_cases hc : c = .nil
    · subst hc; simp
    · simp [sub_of_ne hc, hc, Function.comp_def]

/-- With a consumer that never stops, `ForEach` reports exactly the leaf paths,
each once, in edge order; the root is never reported. -/
theorem members_eq_abs (t : T) : members t = abs t := by
  unfold members forEachLog
  rw [eachLoop_all _ _ _ _ _ ⟨by simp, by simp⟩ (by simp [stackCost, cost_eq])]
  simp [outRest]

/-! ## JSON: a reader of exactly the text `toJSON` writes -/

/-- `{"m":{` -/
def openB : Bytes := [123, 34, 109, 34, 58, 123]
/-- `}}` -/
def closeB : Bytes := [125, 125]

/-- Remove the prefix `p`, if it is there. -/
def dropPre : Bytes → Bytes → Option Bytes
  | [], s => some s
  | _ :: _, [] => none
  | a :: p, b :: s => if a == b then dropPre p s else none

/-- Reads the entries of one object up to and including its closing `}}`;
the opening `{"m":{` has been consumed.  `first`: no entry has been read yet
(only then may the object be empty).  An entry is `"<decimal>":<object>` with a
canonical decimal below 256; entries are separated by single commas. -/
def parseEntries : Nat → Bool → Bytes → Option (T × Bytes)
  | 0, _, _ => none
  | fuel + 1, first, s =>
    match (if first then dropPre closeB s else none) with
    | some rest => some (.nil, rest)
    | none =>
      match dropPre [34] s with
      | none => none
      | some s1 =>
        let ds := s1.takeWhile isDigit
        match parseNat ds with
        | none => none
        | some n =>
          if n < 256 ∧ natDigits n = ds then
            match dropPre (34 :: 58 :: openB) (s1.dropWhile isDigit) with
            | none => none
            | some s2 =>
              match parseEntries fuel true s2 with
              | none => none
              | some (c, s3) =>
                match dropPre closeB s3 with
                | some s4 => some (.cons (UInt8.ofNat n) c .nil, s4)
                | none =>
                  match dropPre [44] s3 with
                  | none => none
                  | some s4 =>
                    match parseEntries fuel false s4 with
                    | none => none
                    | some (r, s5) => some (.cons (UInt8.ofNat n) c r, s5)
          else none

/-- `UnmarshalJSON` restricted to the texts `MarshalJSON` produces. -/
def fromJSON (s : Bytes) : Option T :=
  match dropPre openB s with
  | none => none
  | some s1 =>
    match parseEntries (s.length + 1) true s1 with
    | some (t, []) => some t
    | _ => none

theorem dropPre_append (p s : Bytes) : dropPre p (p ++ s) = some s := by
  induction p with
  | nil => rfl
  | cons a p ih => simp [dropPre, ih]

theorem dropPre_ne {a b : UInt8} (h : a ≠ b) (p s : Bytes) : dropPre (a :: p) (b :: s) = none := by
  simp [dropPre, h]

/-- `u` is `r` with the edge `(k, c)` inserted somewhere. -/
inductive Ins (k : UInt8) (c : T) : T → T → Prop
  | here (r : T) : Ins k c r (.cons k c r)
  | there (k' : UInt8) (c' : T) {r u : T} : Ins k c r u → Ins k c (.cons k' c' r) (.cons k' c' u)

/-- Same trie up to the order of the edges at every node. -/
inductive Sim : T → T → Prop
  | nil : Sim .nil .nil
  | cons {k : UInt8} {c c' r r' u : T} : Sim c c' → Sim r r' → Ins k c' r' u → Sim (.cons k c r) u

theorem Ins.hasKey {k c r u} (h : Ins k c r u) (x : UInt8) :
    hasKey x u = (k == x || hasKey x r) := by
  induction h with
  | here r => rfl
  | there k' c' _ ih =>
    simp only [Trie.hasKey, ih]
    cases k' == x <;> cases k == x <;> simp

theorem Ins.mem_abs {k c r u} (h : Ins k c r u) (y : Bytes) :
    y ∈ abs u ↔ y ∈ abs (.cons k c r) := by
  induction h with
  | here r => exact Iff.rfl
  | there k' c' _ ih =>
    rw [mem_abs_cons, ih, mem_abs_cons, mem_abs_cons, mem_abs_cons]
    constructor
    · rintro (h | h | h)
      · exact Or.inr (Or.inl h)
      · exact Or.inl h
      · exact Or.inr (Or.inr h)
    · rintro (h | h | h)
      · exact Or.inr (Or.inl h)
      · exact Or.inl h
      · exact Or.inr (Or.inr h)

theorem Ins.noDupKeys {k c r u} (h : Ins k c r u) :
    NoDupKeys u ↔ NoDupKeys (.cons k c r) := by
  induction h with
  | here r => exact Iff.rfl
  | there k' c' hi ih =>
    rename_i r u
    rw [noDupKeys_cons, ih, noDupKeys_cons, noDupKeys_cons, noDupKeys_cons, hi.hasKey]
    simp only [Trie.hasKey, Bool.or_eq_false_iff, beq_eq_false_iff_ne, ne_eq]
    constructor
    · rintro ⟨⟨h1, h2⟩, h3, h4, h5, h6⟩
      exact ⟨⟨fun h => h1 h.symm, h4⟩, h5, h2, h3, h6⟩
    · rintro ⟨⟨h1, h2⟩, h3, h4, h5, h6⟩
      exact ⟨⟨fun h => h1 h.symm, h4⟩, h5, h2, h3, h6⟩

theorem Ins.ne_nil {k c r u} (h : Ins k c r u) : u ≠ .nil := by
  cases h <;> simp

theorem Sim.nil_iff {t t'} (h : Sim t t') : t = .nil ↔ t' = .nil := by
  cases h with
  | nil => simp
  | cons _ _ hi => simp [hi.ne_nil]

theorem Sim.hasKey {t t'} (h : Sim t t') (x : UInt8) : hasKey x t' = hasKey x t := by
  induction h with
  | nil => rfl
  | cons _ _ hi _ ihr => rw [hi.hasKey, ihr]; rfl

theorem Sim.mem_abs {t t'} (h : Sim t t') : ∀ y, y ∈ abs t' ↔ y ∈ abs t := by
  induction h with
  | nil => intro y; exact Iff.rfl
  | @cons k c c' r r' u hc hr hi ihc ihr =>
    intro y
    rw [hi.mem_abs, mem_abs_cons, mem_abs_cons, ihr]
    have : ∀ ys, ys ∈ sub c' ↔ ys ∈ sub c := fun ys => by
      rw [mem_sub, mem_sub, ihc ys, ne_eq, ne_eq, hc.nil_iff]
    simp only [this]

theorem Sim.noDupKeys {t t'} (h : Sim t t') : NoDupKeys t' ↔ NoDupKeys t := by
  induction h with
  | nil => exact Iff.rfl
  | cons hc hr hi ihc ihr =>
    rw [hi.noDupKeys, noDupKeys_cons, noDupKeys_cons, ihc, ihr, hr.hasKey]

/-- The reader, given enough fuel, turns `body` followed by anything into `u`
and leaves what follows. -/
def Parses (body : Bytes) (first : Bool) (u : T) : Prop :=
  ∀ fuel rest, body.length < fuel → parseEntries fuel first (body ++ rest) = some (u, rest)

/-- The entry list consists of canonical keys and readable objects, and `u`
is what reading them one after the other gives. -/
inductive EntsOK : List (Bytes × Bytes) → T → Prop
  | nil : EntsOK [] .nil
  | cons (k : UInt8) {body : Bytes} {c u : T} {E : List (Bytes × Bytes)} :
      Parses body true c → EntsOK E u →
      EntsOK ((natDigits k.toNat, openB ++ body) :: E) (.cons k c u)

theorem takeWhile_digits (n : Nat) (s : Bytes) :
    (natDigits n ++ 34 :: s).takeWhile isDigit = natDigits n := by
  rw [List.takeWhile_append_of_pos (natDigits_isDigit n)]
  simp [List.takeWhile, isDigit]

theorem dropWhile_digits (n : Nat) (s : Bytes) :
    (natDigits n ++ 34 :: s).dropWhile isDigit = 34 :: s := by
  rw [List.dropWhile_append_of_pos (natDigits_isDigit n)]
  simp [List.dropWhile, isDigit]

/-- Reading one entry `"k":{"m":{body` followed by `tail`. -/
theorem parseEntries_entry (k : UInt8) (body tail : Bytes) (c : T) (first : Bool) (fuel : Nat)
    (hp : Parses body true c) (hf : body.length < fuel) :
    parseEntries (fuel + 1) first
        (34 :: (natDigits k.toNat ++ 34 :: 58 :: (openB ++ (body ++ tail)))) =
      match dropPre closeB tail with
      | some s4 => some (.cons k c .nil, s4)
      | none =>
        match dropPre [44] tail with
        | none => none
        | some s4 =>
          match parseEntries fuel false s4 with
          | none => none
          | some (r, s5) => some (.cons k c r, s5) := by
  have h1 : (if first = true then dropPre closeB
      (34 :: (natDigits k.toNat ++ 34 :: 58 :: (openB ++ (body ++ tail)))) else none) = none := by
    split
    · exact dropPre_ne (by decide) _ _
    · rfl
  have h2 : dropPre [34] (34 :: (natDigits k.toNat ++ 34 :: 58 :: (openB ++ (body ++ tail)))) =
      some (natDigits k.toNat ++ 34 :: (58 :: (openB ++ (body ++ tail)))) := by
    simp [dropPre]
  have h3 : dropPre (34 :: 58 :: openB) (34 :: (58 :: (openB ++ (body ++ tail)))) =
      some (body ++ tail) := by
    have := dropPre_append (34 :: 58 :: openB) (body ++ tail)
    simpa using this
  have hk : k.toNat < 256 := UInt8.toNat_lt k
  rw [parseEntries]
  simp only [h1, h2, takeWhile_digits, dropWhile_digits, parseNat_natDigits, hk, true_and,
    if_true, h3, hp fuel tail hf, UInt8.ofNat_toNat]

theorem parses_close : Parses closeB true .nil := by
  intro fuel rest hf
  cases fuel with
  | zero => simp at hf
  | succ fuel =>
    rw [parseEntries]
    simp [dropPre_append]

theorem parses_entries {E : List (Bytes × Bytes)} {u : T} (h : EntsOK E u) :
    E ≠ [] → ∀ first, Parses (renderEntries E ++ closeB) first u := by
  induction h with
  | nil => intro h; exact absurd rfl h
  | @cons k body c u E hp hE ih =>
    intro _ first fuel rest hf
    cases fuel with
    | zero => simp at hf
    | succ fuel =>
      cases E with
      | nil =>
        cases hE
        simp only [renderEntries, List.append_assoc, List.cons_append, List.length_cons,
          List.length_append] at hf ⊢
        rw [parseEntries_entry k body (closeB ++ rest) c first fuel hp (by omega)]
        simp [dropPre_append]
      | cons e es =>
        have ih' := ih (by simp) false fuel rest
        simp only [renderEntries, List.append_assoc, List.cons_append, List.length_cons,
          List.length_append] at hf ih' ⊢
        rw [parseEntries_entry k body _ c first fuel hp (by omega)]
        have hc : ∀ x, dropPre closeB (44 :: x) = none :=
          fun x => dropPre_ne (a := 125) (b := 44) (by decide) [125] x
        have h44 : ∀ x, dropPre [44] (44 :: x) = some x := fun x => by simp [dropPre]
        simp only [hc, h44]
        rw [ih' (by omega)]

theorem parses_of_entsOK {E : List (Bytes × Bytes)} {u : T} (h : EntsOK E u) :
    Parses (renderEntries E ++ closeB) true u := by
  cases E with
  | nil => cases h; exact parses_close
  | cons e es => exact parses_entries h (by simp) true

theorem entsOK_insertE (k : UInt8) {body : Bytes} {c : T} (hp : Parses body true c)
    {E : List (Bytes × Bytes)} {u : T} (h : EntsOK E u) :
    ∃ u', Ins k c u u' ∧ EntsOK (toJSON.insertE (natDigits k.toNat, openB ++ body) E) u' := by
  induction h with
  | nil => exact ⟨_, .here _, .cons k hp .nil⟩
  | @cons k' body' c' u E hp' hE ih =>
    rw [toJSON.insertE]
    split
    · exact ⟨_, .here _, .cons k hp (.cons k' hp' hE)⟩
    · obtain ⟨u', hi, he⟩ := ih
      exact ⟨_, .there k' c' hi, .cons k' hp' he⟩

theorem toJSON_eq (t : T) :
    toJSON t = openB ++ (renderEntries (toJSON.entries t) ++ closeB) := by
  rw [toJSON]; simp [openB, closeB]

theorem entsOK_entries : ∀ t : T, ∃ t', Sim t t' ∧ EntsOK (toJSON.entries t) t'
  | .nil => ⟨.nil, .nil, by rw [toJSON.entries]; exact .nil⟩
  | .cons k c r => by
    obtain ⟨c', sc, ec⟩ := entsOK_entries c
    obtain ⟨r', sr, er⟩ := entsOK_entries r
    obtain ⟨u, hi, hu⟩ := entsOK_insertE k (parses_of_entsOK ec) er
    refine ⟨u, .cons sc sr hi, ?_⟩
    rw [toJSON.entries, toJSON_eq]
    exact hu

theorem fromJSON_toJSON (t : T) : ∃ t', fromJSON (toJSON t) = some t' ∧ Sim t t' := by
  obtain ⟨t', st, et⟩ := entsOK_entries t
  refine ⟨t', ?_, st⟩
  have hp := parses_of_entsOK et (toJSON t).length.succ []
  rw [fromJSON, toJSON_eq, dropPre_append]
  rw [toJSON_eq] at hp
  simp only [List.append_nil] at hp
  simp only [hp (by simp; omega)]

end Bio.Trie
