/-
  `(*reader).read` of formats/bed/bed.go, as translated on every run from the Go SOURCE TEXT into
  `Bio.Generated.GoSrc.bed_read` (receiver fields `r.r` — a `BufRd` — and `r.nfields` as threaded
  state, the `for { }` loop with fuel), iterated the way `Reader` of formats/bed/iter.go does, against
  the hand-written model `Bio.Bed` (`fromLines`, `decodeSrc`).

  * `BedRd.readSpec P` is one call of `read` with the line parser `P` as a parameter; for ARBITRARY
    `strconv` parameters the translated `read` is `readSpec (parseSpec (reqA f) (u8G g))`
    (`bed_read_spec`);
  * one `ReadString('\n')` + the two `TrimSuffix` calls is the head of `textLines` (`trim_line`,
    `textLines_line`, …);
  * one call of `readSpec` on the bytes `rest` in terms of the lines `textLines e rest`
    (`readSpec_lines`): the leading skipped lines are consumed, then end of input / the record line;
  * iterating (`decodeWith`) gives `Bed.fromLines` (`decode_lines`).

  Guarded by the translator's `_Found` flags as in `Bio.Lemmas.GoSrc`.
-/
import Bio.Lemmas.GoSrcBedRead2
import Bio.Lemmas.GoSrcBed
set_option linter.unusedVariables false
set_option linter.unusedSimpArgs false
namespace Bio.GoSrcLemmas
open Bio Bio.GoRt Bio.Generated

namespace BedRd

/-! ## One call of `read`, with the line parser as a parameter -/

abbrev RdOut := Option BedT × GoErr × BufRd × Int

/-- what `read` returns for a line that is not skipped -/
def lineOut (P : List Bytes → Option Bed.Bed) (nf : Int) (t : Bytes) (r' : BufRd) : RdOut :=
  if nf = 0 then ((resultOf (P (splitOn 9 t))).1, (resultOf (P (splitOn 9 t))).2, r', len (splitOn 9 t))
  else if len (splitOn 9 t) ≠ nf then (none, GoErr.other, r', nf)
  else ((resultOf (P (splitOn 9 t))).1, (resultOf (P (splitOn 9 t))).2, r', nf)

def readSpec (P : List Bytes → Option Bed.Bed) : Nat → BufRd → Int → Option RdOut
  | 0, _, _ => none
  | fuel + 1, r, nf =>
    let t := readString r 10
    let line := trimSuffix (trimSuffix t.1 [10]) [13]
    if t.2.1 ≠ GoErr.nil ∧ (t.2.1 ≠ GoErr.eof ∨ t.1 = []) then some (none, t.2.1, t.2.2, nf)
    else if Bed.isSkipped line = true then
      (if t.2.1 = GoErr.eof then some (none, GoErr.eof, t.2.2, nf) else readSpec P fuel t.2.2 nf)
    else some (lineOut P nf line t.2.2)

theorem isSkipped_go (line : Bytes) :
    (if line == [] then (some true : Option Bool) else (idx line 0).bind fun c => some (c == 35))
      = some (Bed.isSkipped line) := by
  cases line with
  | nil => rfl
  | cons c rest =>
    have : idx (c :: rest) 0 = some c := rfl
    simp only [this, Option.bind_some]
    by_cases hc : c = 35
    · subst hc; rfl
    · have h1 : (c == 35) = false := by simpa using hc
      rw [h1]
      simp [Bed.isSkipped]
      split <;> simp_all

abbrev RdSt := Option RdOut × BufRd × Int

/-- one iteration of the `for { }` loop of `read` -/
def stepOf (P : List Bytes → Option Bed.Bed) (r : BufRd) (nf : Int) : ForInStep RdSt :=
  let t := readString r 10
  let line := trimSuffix (trimSuffix t.1 [10]) [13]
  if t.2.1 ≠ GoErr.nil ∧ (t.2.1 ≠ GoErr.eof ∨ t.1 = []) then .done (some (none, t.2.1, t.2.2, nf), t.2.2, nf)
  else if Bed.isSkipped line = true then
    (if t.2.1 = GoErr.eof then .done (some (none, GoErr.eof, t.2.2, nf), t.2.2, nf) else .yield (none, t.2.2, nf))
  else .done (some (lineOut P nf line t.2.2), t.2.2, (lineOut P nf line t.2.2).2.2.2)

theorem read_loop (P : List Bytes → Option Bed.Bed) (body : Nat → RdSt → Option (ForInStep RdSt))
    (hbody : ∀ x o r nf, body x (o, r, nf) = some (stepOf P r nf))
    (post : RdSt → Option RdOut) (hpost : ∀ s, post s = s.1) :
    ∀ (l : List Nat) (r : BufRd) (nf : Int),
      (forIn l ((none, r, nf) : RdSt) body).bind post = readSpec P l.length r nf := by
  intro l
  induction l with
  | nil => intro r nf; simp [readSpec, hpost]
  | cons a l ih =>
    intro r nf
    simp only [List.forIn_cons, hbody, List.length_cons, readSpec, Option.bind_some, Option.bind_eq_bind]
    unfold stepOf
    simp only
    by_cases c1 : (readString r 10).2.1 ≠ GoErr.nil ∧ ((readString r 10).2.1 ≠ GoErr.eof ∨ (readString r 10).1 = [])
    · rw [if_pos c1, if_pos c1]; simp [hpost]
    · rw [if_neg c1, if_neg c1]
      by_cases c2 : Bed.isSkipped (trimSuffix (trimSuffix (readString r 10).1 [10]) [13]) = true
      · rw [if_pos c2, if_pos c2]
        by_cases c3 : (readString r 10).2.1 = GoErr.eof
        · rw [if_pos c3, if_pos c3]; simp [hpost]
        · rw [if_neg c3, if_neg c3]; exact ih _ _
      · rw [if_neg c2, if_neg c2]; simp [hpost]

theorem bed_read_spec (hF : GoSrc.bed_read_Found = true) (hP : GoSrc.parseLine_Found = true)
    (f : Bytes → Int × GoErr) (g : Bytes → Int → Int → Int × GoErr) (fuel : Nat) (r : BufRd) (nf : Int) :
    GoSrc.bed_read f g fuel r nf = readSpec (parseSpec (reqA f) (u8G g)) fuel r nf := by
  first
  | exact absurd hF (by decide)
  | exact absurd hP (by decide)
  | (unfold GoSrc.bed_read
     simp only [Option.pure_def, Option.bind_eq_bind, go_parseLine_spec hP, Option.bind_some]
     conv => rhs; rw [show fuel = (List.range fuel).length by simp]
     apply read_loop
     rotate_left
     · intro s; split <;> simp_all
     intro x o r nf
     unfold stepOf
     generalize readString r 10 = t
     obtain ⟨line, err, r'⟩ := t
     simp only
     generalize htl : trimSuffix (trimSuffix line [10]) [13] = tl
     have hidx : ∀ c rest, idx (c :: rest : Bytes) 0 = some c := fun _ _ => rfl
     by_cases h1 : err ≠ GoErr.nil ∧ (err ≠ GoErr.eof ∨ line = [])
     · have h1' : (err != GoErr.nil && (err != GoErr.eof || line == [])) = true := by
         simpa using h1
       simp [h1, h1']
     · have h1' : ¬ (err != GoErr.nil && (err != GoErr.eof || line == [])) = true := by
         simpa using h1
       rw [if_neg h1', if_neg h1]
       cases tl with
       | nil =>
         simp [Bed.isSkipped]
         split <;> rfl
       | cons c rest =>
         simp [hidx]
         by_cases hc : c = 35
         · subst hc
           simp [Bed.isSkipped]
           split <;> rfl
         · have hs : Bed.isSkipped (c :: rest) = false := by
             simp only [Bed.isSkipped]
             split <;> simp_all
           simp only [hc, if_false, hs, Bool.false_eq_true, lineOut]
           by_cases hnf : nf = 0
           · simp [hnf]
           · simp only [hnf, if_false]
             by_cases hl : len (splitOn 9 (c :: rest)) = nf
             · simp [hl]
             · simp [hl])

/-! ## bytes → lines -/

theorem rest_cases (rest : Bytes) :
    rest = [] ∨ (rest ≠ [] ∧ ∀ b ∈ rest, b ≠ 10)
      ∨ ∃ l rest', rest = l ++ 10 :: rest' ∧ ∀ b ∈ l, b ≠ 10 := by
  induction rest with
  | nil => exact Or.inl rfl
  | cons b rest ih =>
    right
    by_cases hb : b = 10
    · right; exact ⟨[], rest, by simp [hb], by simp⟩
    · rcases ih with h | ⟨_, h⟩ | ⟨l, rest', h, hl⟩
      · left; subst h; exact ⟨by simp, by simpa using hb⟩
      · left; exact ⟨by simp, by intro c hc; rcases List.mem_cons.mp hc with rfl | hc; exact hb; exact h c hc⟩
      · right
        refine ⟨b :: l, rest', by simp [h], ?_⟩
        intro c hc; rcases List.mem_cons.mp hc with rfl | hc
        · exact hb
        · exact hl c hc

theorem takeWhile_free (l : Bytes) (h : ∀ b ∈ l, b ≠ 10) : l.takeWhile (· != 10) = l := by
  induction l with
  | nil => rfl
  | cons b l ih =>
    have hb : b ≠ 10 := h b (by simp)
    simp [List.takeWhile_cons, hb, ih (fun c hc => h c (by simp [hc]))]

theorem takeWhile_line (l rest' : Bytes) (h : ∀ b ∈ l, b ≠ 10) :
    (l ++ 10 :: rest').takeWhile (· != 10) = l := by
  induction l with
  | nil => simp [List.takeWhile_cons]
  | cons b l ih =>
    have hb : b ≠ 10 := h b (by simp)
    simp [List.takeWhile_cons, hb, ih (fun c hc => h c (by simp [hc]))]

theorem dropCR_eq (l : Bytes) : dropCR l = if l.getLast? = some 13 then l.dropLast else l := by
  unfold dropCR
  split
  · rename_i h; rw [if_pos h]
  · rename_i h; rw [if_neg]; exact fun h' => h h'

theorem readString_nil (e : Ending) : readString ⟨[], e⟩ 10 = ([], endErr e, ⟨[], e⟩) := rfl

theorem readString_free (l : Bytes) (e : Ending) (h : ∀ b ∈ l, b ≠ 10) :
    readString ⟨l, e⟩ 10 = (l, endErr e, ⟨[], e⟩) := by
  unfold readString
  simp only [takeWhile_free l h, Nat.lt_irrefl, if_false]

theorem readString_line (l rest' : Bytes) (e : Ending) (h : ∀ b ∈ l, b ≠ 10) :
    readString ⟨l ++ 10 :: rest', e⟩ 10 = (l ++ [10], GoErr.nil, ⟨rest', e⟩) := by
  unfold readString
  simp only [takeWhile_line l rest' h]
  have : l.length < (l ++ 10 :: rest').length := by simp
  rw [if_pos this]
  simp

theorem trimSuffix_single (s : Bytes) (c : UInt8) :
    trimSuffix s [c] = if s.getLast? = some c then s.dropLast else s := by
  unfold trimSuffix
  rcases List.eq_nil_or_concat s with rfl | ⟨t, d, rfl⟩
  · simp
  · by_cases hd : d = c
    · subst hd; simp [List.isSuffixOf_iff_suffix]
    · have : ¬ [c] <:+ t ++ [d] := by
        intro hs
        obtain ⟨u, hu⟩ := hs
        have := congrArg List.getLast? hu
        simp at this
        exact hd this.symm
      simp [List.isSuffixOf_iff_suffix, this, hd]

theorem trim_line (l : Bytes) (h : ∀ b ∈ l, b ≠ 10) :
    trimSuffix (trimSuffix (l ++ [10]) [10]) [13] = dropCR l := by
  rw [trimSuffix_single (l ++ [10]) 10]
  simp only [List.getLast?_append, List.getLast?_singleton, Option.some_or, if_true, List.dropLast_concat]
  rw [trimSuffix_single, dropCR_eq]

theorem trim_free (l : Bytes) (h : ∀ b ∈ l, b ≠ 10) :
    trimSuffix (trimSuffix l [10]) [13] = dropCR l := by
  have h1 : trimSuffix l [10] = l := by
    rw [trimSuffix_single, if_neg]
    intro hl
    exact h 10 (List.mem_of_getLast? hl) rfl
  rw [h1, trimSuffix_single, dropCR_eq]

theorem textLines_nil (e : Ending) : textLines e [] = [] := by
  cases e <;> rfl

theorem textLines_line (e : Ending) (l rest' : Bytes) (h : ∀ b ∈ l, b ≠ 10) :
    textLines e (l ++ 10 :: rest') = dropCR l :: textLines e rest' := by
  cases e with
  | eof => simp [textLines, scanLines, Bed.rawLines_append_LF l rest' h]
  | fail => simp [textLines, Bed.completeLines_append_LF l rest' h]

theorem textLines_free_eof (l : Bytes) (hne : l ≠ []) (h : ∀ b ∈ l, b ≠ 10) :
    textLines .eof l = [dropCR l] := by
  simp [textLines, scanLines, Bed.rawLines_free l hne h]

theorem textLines_free_fail (l : Bytes) (h : ∀ b ∈ l, b ≠ 10) : textLines .fail l = [] := by
  simp [textLines, Bed.completeLines_free l h]

/-! ## One call of `readSpec` on bytes -/

theorem endErr_ne_nil (e : Ending) : endErr e ≠ GoErr.nil := by cases e <;> simp [endErr]

theorem readSpec_nil (P : List Bytes → Option Bed.Bed) (fuel : Nat) (e : Ending) (nf : Int) :
    readSpec P (fuel + 1) ⟨[], e⟩ nf = some (none, endErr e, ⟨[], e⟩, nf) := by
  simp [readSpec, readString_nil, endErr_ne_nil]

theorem readSpec_free_fail (P : List Bytes → Option Bed.Bed) (fuel : Nat) (l : Bytes) (nf : Int)
    (h : ∀ b ∈ l, b ≠ 10) :
    readSpec P (fuel + 1) ⟨l, .fail⟩ nf = some (none, GoErr.other, ⟨[], .fail⟩, nf) := by
  simp only [readSpec, readString_free l .fail h, endErr]
  rw [if_pos ⟨by simp, Or.inl (by simp)⟩]

theorem readSpec_free_eof (P : List Bytes → Option Bed.Bed) (fuel : Nat) (l : Bytes) (nf : Int)
    (hne : l ≠ []) (h : ∀ b ∈ l, b ≠ 10) :
    readSpec P (fuel + 1) ⟨l, .eof⟩ nf
      = if Bed.isSkipped (dropCR l) = true then some (none, GoErr.eof, ⟨[], .eof⟩, nf)
        else some (lineOut P nf (dropCR l) ⟨[], .eof⟩) := by
  simp only [readSpec, readString_free l .eof h, endErr, trim_free l h]
  rw [if_neg (by simp [hne])]
  simp

theorem readSpec_line (P : List Bytes → Option Bed.Bed) (fuel : Nat) (l rest' : Bytes) (e : Ending) (nf : Int)
    (h : ∀ b ∈ l, b ≠ 10) :
    readSpec P (fuel + 1) ⟨l ++ 10 :: rest', e⟩ nf
      = if Bed.isSkipped (dropCR l) = true then readSpec P fuel ⟨rest', e⟩ nf
        else some (lineOut P nf (dropCR l) ⟨rest', e⟩) := by
  simp only [readSpec, readString_line l rest' e h, trim_line l h]
  rw [if_neg (by simp)]
  simp

/-! ## One call of `readSpec` in terms of the lines -/

/-- number of leading skipped (blank or `#`) lines -/
def leadSkips (ls : List Bytes) : Nat := (ls.takeWhile Bed.isSkipped).length

/-- One call of `read` on the remaining bytes `rest`, with more fuel than there are leading skipped
lines: the skipped lines are consumed; then, at the end of the lines, `io.EOF` / the read error
(nothing left to read), and otherwise the outcome for the first record line `t`, the reader left at
bytes `rest'` whose lines are the lines after `t`. -/
theorem readSpec_lines (P : List Bytes → Option Bed.Bed) (e : Ending) :
    ∀ (n : Nat) (rest : Bytes), rest.length = n → ∀ (fuel : Nat) (nf : Int),
      leadSkips (textLines e rest) < fuel →
      match (textLines e rest).dropWhile Bed.isSkipped with
      | [] => readSpec P fuel ⟨rest, e⟩ nf = some (none, endErr e, ⟨[], e⟩, nf)
      | t :: more => ∃ rest', textLines e rest' = more ∧ rest'.length < rest.length
          ∧ readSpec P fuel ⟨rest, e⟩ nf = some (lineOut P nf t ⟨rest', e⟩) := by
  intro n
  induction n using Nat.strongRecOn with
  | _ n ih =>
    intro rest hn fuel nf hfuel
    obtain ⟨fuel, rfl⟩ : ∃ k, fuel = k + 1 := ⟨fuel - 1, by omega⟩
    rcases rest_cases rest with rfl | ⟨hne, hfree⟩ | ⟨l, rest', rfl, hl⟩
    · simp only [textLines_nil, List.dropWhile_nil]
      exact readSpec_nil P fuel e nf
    · cases e with
      | fail =>
        simp only [textLines_free_fail rest hfree, List.dropWhile_nil]
        exact readSpec_free_fail P fuel rest nf hfree
      | eof =>
        rw [textLines_free_eof rest hne hfree, readSpec_free_eof P fuel rest nf hne hfree]
        by_cases hs : Bed.isSkipped (dropCR rest) = true
        · simp [List.dropWhile_cons, hs, endErr]
        · simp only [List.dropWhile_cons, hs, Bool.false_eq_true, if_false]
          refine ⟨[], textLines_nil _, ?_, rfl⟩
          cases rest with
          | nil => exact absurd rfl hne
          | cons => simp
    · rw [textLines_line e l rest' hl, readSpec_line P fuel l rest' e nf hl]
      rw [textLines_line e l rest' hl] at hfuel
      by_cases hs : Bed.isSkipped (dropCR l) = true
      · simp only [List.dropWhile_cons, hs, if_true]
        have hf' : leadSkips (textLines e rest') < fuel := by
          simp only [leadSkips, List.takeWhile_cons, hs, if_true, List.length_cons] at hfuel
          simp only [leadSkips]; omega
        have := ih rest'.length (by subst hn; simp; omega) rest' rfl fuel nf hf'
        cases hd : (textLines e rest').dropWhile Bed.isSkipped with
        | nil => rw [hd] at this; exact this
        | cons t more =>
          rw [hd] at this
          obtain ⟨r'', h1, h2, h3⟩ := this
          exact ⟨r'', h1, by simp; omega, h3⟩
      · simp only [List.dropWhile_cons, hs, Bool.false_eq_true, if_false]
        exact ⟨rest', rfl, by simp; omega, rfl⟩

/-- there are at most as many lines as bytes -/
theorem textLines_length_le (e : Ending) : ∀ (n : Nat) (rest : Bytes), rest.length = n →
    (textLines e rest).length ≤ rest.length := by
  intro n
  induction n using Nat.strongRecOn with
  | _ n ih =>
    intro rest hn
    rcases rest_cases rest with rfl | ⟨hne, hfree⟩ | ⟨l, rest', rfl, hl⟩
    · simp [textLines_nil]
    · cases e with
      | fail => simp [textLines_free_fail rest hfree]
      | eof =>
        rw [textLines_free_eof rest hne hfree]
        cases rest with
        | nil => exact absurd rfl hne
        | cons => simp
    · rw [textLines_line e l rest' hl]
      have := ih rest'.length (by subst hn; simp; omega) rest' rfl
      simp; omega

theorem leadSkips_le (e : Ending) (rest : Bytes) : leadSkips (textLines e rest) ≤ rest.length := by
  have h1 := textLines_length_le e _ rest rfl
  have h2 : leadSkips (textLines e rest) ≤ (textLines e rest).length := by
    unfold leadSkips
    exact (List.takeWhile_sublist _).length_le
  omega

/-! ## Iterating `read` the way `Reader` (formats/bed/iter.go) does -/

/-- `for { bed, err := rd.read(); if err == io.EOF { return }; if err != nil { yield(nil, err); return };
if !yield(bed, nil) { return } }` over a `read` given as a function of the reader state, at most `k`
calls (`none` = a call panicked or ran out of fuel, or `k` calls were not enough; a `(nil, nil)` result,
which `read` never produces, is reported as `none` as well). -/
def decodeWith (rd : BufRd → Int → Option RdOut) : Nat → BufRd → Int → Option (List (Item Bed.Bed))
  | 0, _, _ => none
  | k + 1, r, nf =>
    match rd r nf with
    | none => none
    | some (_, GoErr.eof, _, _) => some []
    | some (_, GoErr.other, _, _) => some [Item.err]
    | some (none, GoErr.nil, _, _) => none
    | some (some t, GoErr.nil, r', nf') => (decodeWith rd k r' nf').map (Item.ok (bedOf t) :: ·)

/-- the reader's `nfields` for the model's `Option Nat` -/
def nfInt : Option Nat → Int
  | none => 0
  | some m => (m : Int)

theorem fromLines_dropWhile (e : Ending) (nf : Option Nat) (ls : List Bytes) :
    Bed.fromLines e nf ls = Bed.fromLines e nf (ls.dropWhile Bed.isSkipped) := by
  induction ls with
  | nil => rfl
  | cons l ls ih =>
    by_cases hs : Bed.isSkipped l = true
    · simp only [List.dropWhile_cons, hs, if_true]
      rw [← ih]; simp [Bed.fromLines, hs]
    · simp [List.dropWhile_cons, hs]

theorem splitOn_length_pos (sep : UInt8) (s : Bytes) : 0 < (splitOn sep s).length :=
  List.length_pos_iff.mpr (Bed.splitOn_ne_nil sep s)

/-- Iterating `readSpec P` over the bytes is the model's reader over the lines, provided `P` is the
model's parser on the lines present. -/
theorem decode_lines (P : List Bytes → Option Bed.Bed) (e : Ending) (fuel : Nat) :
    ∀ (n : Nat) (rest : Bytes), rest.length = n → ∀ (k : Nat) (nfo : Option Nat),
      rest.length < fuel → rest.length < k → nfo ≠ some 0 →
      (∀ l ∈ textLines e rest, P (splitOn 9 l) = Bed.parseLine (splitOn 9 l)) →
      decodeWith (readSpec P fuel) k ⟨rest, e⟩ (nfInt nfo) = some (Bed.fromLines e nfo (textLines e rest)) := by
  intro n
  induction n using Nat.strongRecOn with
  | _ n ih =>
    intro rest hn k nfo hfuel hk hnfo hP
    obtain ⟨k, rfl⟩ : ∃ k', k = k' + 1 := ⟨k - 1, by omega⟩
    have hL := readSpec_lines P e _ rest rfl fuel (nfInt nfo) (by have := leadSkips_le e rest; omega)
    rw [fromLines_dropWhile]
    cases hd : (textLines e rest).dropWhile Bed.isSkipped with
    | nil =>
      rw [hd] at hL
      simp only [decodeWith, hL]
      cases e <;> simp [endErr, Bed.fromLines, Bed.endItems]
    | cons t more =>
      rw [hd] at hL
      obtain ⟨rest', hmore, hlt, hread⟩ := hL
      have hmem : t ∈ textLines e rest :=
        (List.dropWhile_sublist _).subset (by rw [hd]; simp)
      have hns : Bed.isSkipped t = false := by
        have := List.head_dropWhile_not Bed.isSkipped (l := textLines e rest) (by rw [hd]; simp)
        simpa [hd] using this
      have hPt := hP t hmem
      have hP' : ∀ l ∈ textLines e rest', P (splitOn 9 l) = Bed.parseLine (splitOn 9 l) := by
        intro l hl
        apply hP
        apply (List.dropWhile_sublist Bed.isSkipped).subset
        rw [hd, ← hmore]; simp [hl]
      have hpos := splitOn_length_pos 9 t
      have hrec : ∀ nfo', nfo' ≠ some 0 →
          decodeWith (readSpec P fuel) k ⟨rest', e⟩ (nfInt nfo') = some (Bed.fromLines e nfo' more) := by
        intro nfo' h0
        rw [← hmore]
        exact ih rest'.length (by omega) rest' rfl k nfo' (by omega) (by omega) h0 hP'
      cases nfo with
      | none =>
        have hread' : readSpec P fuel ⟨rest, e⟩ 0 = some (lineOut P 0 t ⟨rest', e⟩) := hread
        simp only [decodeWith, nfInt, hread', Bed.fromLines, hns, Bool.false_eq_true, if_false, lineOut, hPt,
          TAB, if_true, Option.isSome_none, Bool.false_and]
        cases hp : Bed.parseLine (splitOn 9 t) with
        | none => simp [resultOf]
        | some b =>
          have := hrec (some (splitOn 9 t).length) (by intro h; injection h with h; omega)
          simp only [nfInt] at this
          simp [resultOf, len, this, bedOf_tupleOf]
      | some m =>
        have hread' : readSpec P fuel ⟨rest, e⟩ (m : Int) = some (lineOut P (m : Int) t ⟨rest', e⟩) := hread
        have hm : m ≠ 0 := by intro h; apply hnfo; rw [h]
        have hm' : ¬ ((m : Int) = 0) := by omega
        simp only [decodeWith, nfInt, hread', Bed.fromLines, hns, Bool.false_eq_true, if_false, lineOut, hPt,
          TAB, hm', Option.isSome_some, Bool.true_and]
        by_cases hl : (splitOn 9 t).length = m
        · have hl' : len (splitOn 9 t) = (m : Int) := by simp [len, hl]
          have hne : (some m != some (splitOn 9 t).length) = false := by simp [hl]
          simp only [hl', ne_eq, not_true_eq_false, if_false, hne, Bool.false_eq_true]
          cases hp : Bed.parseLine (splitOn 9 t) with
          | none => simp [resultOf]
          | some b =>
            have := hrec (some m) hnfo
            simp only [nfInt] at this
            simp [resultOf, this, bedOf_tupleOf, hl]
        · have hl' : ¬ (len (splitOn 9 t) = (m : Int)) := by simp [len]; omega
          have hne : (some m != some (splitOn 9 t).length) = true := by
            simp; exact fun h => hl h.symm
          simp [hl', hne]

/-! ## The translated reader -/

/-- `Reader` of formats/bed/iter.go over the translated `read`: a fresh reader (`nfields = 0`) on the
input `x` ending as `e`; `fuel` bounds both the `for { }` loop inside every `read` call and the number
of `read` calls. -/
def goBedDecode (f : Bytes → Int × GoErr) (g : Bytes → Int → Int → Int × GoErr) (fuel : Nat)
    (x : Bytes) (e : Ending) : Option (List (Item Bed.Bed)) :=
  decodeWith (GoSrc.bed_read f g fuel) fuel ⟨x, e⟩ 0

/-- under the two models the parametrised parser is the hand-written one -/
theorem parseSpec_of_models {f g} (hf : AtoiModel f) (hg : PUModel g) :
    parseSpec (reqA f) (u8G g) = Bed.parseLine := by
  funext fs
  rw [reqA_of_model hf, u8G_of_model hg, parseLine_eq_spec]

/-- `read` never panics and never runs out of fuel when `fuel` exceeds the number of bytes left -/
theorem readSpec_isSome (P : List Bytes → Option Bed.Bed) (e : Ending) (rest : Bytes) (fuel : Nat) (nf : Int)
    (h : leadSkips (textLines e rest) < fuel) : (readSpec P fuel ⟨rest, e⟩ nf).isSome = true := by
  have hL := readSpec_lines P e _ rest rfl fuel nf h
  cases hd : (textLines e rest).dropWhile Bed.isSkipped with
  | nil => rw [hd] at hL; simp only at hL; rw [hL]; rfl
  | cons t more =>
    rw [hd] at hL
    obtain ⟨_, _, _, h3⟩ := hL
    rw [h3]; rfl

/-- the general form: the translated reader on `x` is the model decoder, provided the parametrised
parser agrees with the model's on the text lines of `x` -/
theorem goBedDecode_eq (hF : GoSrc.bed_read_Found = true) (hP : GoSrc.parseLine_Found = true)
    (f : Bytes → Int × GoErr) (g : Bytes → Int → Int → Int × GoErr) (fuel : Nat) (x : Bytes) (e : Ending)
    (hfuel : x.length < fuel)
    (hlines : ∀ l ∈ textLines e x,
      parseSpec (reqA f) (u8G g) (splitOn 9 l) = Bed.parseLine (splitOn 9 l)) :
    goBedDecode f g fuel x e = some (Bed.decodeSrc e x) := by
  unfold goBedDecode Bed.decodeSrc
  have hrd : GoSrc.bed_read f g fuel = readSpec (parseSpec (reqA f) (u8G g)) fuel := by
    funext r nf; exact bed_read_spec hF hP f g fuel r nf
  rw [hrd]
  exact decode_lines _ e fuel _ x rfl fuel none hfuel hfuel (by simp) hlines

/-! ## The lines `Write` produces, under the weak `ParseUint` hypothesis -/

theorem allFields_get8 (b : Bed.Bed) :
    (Bed.allFields b)[8]? = some (natDigits b.rgb.1.toNat ++ Bed.COMMA :: natDigits b.rgb.2.1.toNat
      ++ Bed.COMMA :: natDigits b.rgb.2.2.toNat) := rfl

/-- the pieces of field 9 of a written line are the canonical decimals of the three bytes -/
theorem rgbPieces_take (b : Bed.Bed) (N : Nat) :
    ∀ p ∈ rgbPieces ((Bed.allFields b).take N),
      p = natDigits b.rgb.1.toNat ∨ p = natDigits b.rgb.2.1.toNat ∨ p = natDigits b.rgb.2.2.toNat := by
  intro p hp
  unfold rgbPieces at hp
  by_cases hN : 8 < N
  · have h8 : ((Bed.allFields b).take N)[8]? = some (natDigits b.rgb.1.toNat ++ Bed.COMMA ::
        natDigits b.rgb.2.1.toNat ++ Bed.COMMA :: natDigits b.rgb.2.2.toNat) := by
      rw [List.getElem?_take_of_lt hN, allFields_get8]
    rw [h8] at hp
    simp only [Option.getD_some] at hp
    rw [if_neg (Bed.rgbText_ne_nil _ _ _)] at hp
    have h1 : (natDigits b.rgb.1.toNat ++ Bed.COMMA :: natDigits b.rgb.2.1.toNat ++ Bed.COMMA ::
        natDigits b.rgb.2.2.toNat)
        = natDigits b.rgb.1.toNat ++ Bed.COMMA :: (natDigits b.rgb.2.1.toNat ++ Bed.COMMA ::
          natDigits b.rgb.2.2.toNat) := by simp
    rw [h1, show (44 : UInt8) = Bed.COMMA from rfl,
      Bed.splitOn_append_sep Bed.COMMA _ _ (Bed.natDigits_no_comma _),
      Bed.splitOn_append_sep Bed.COMMA _ _ (Bed.natDigits_no_comma _),
      Bed.splitOn_free Bed.COMMA _ (Bed.natDigits_no_comma _)] at hp
    simpa using hp
  · have h8 : ((Bed.allFields b).take N)[8]? = none := by
      rw [List.getElem?_eq_none]; simp [Bed.allFields_length]; omega
    rw [h8] at hp
    simp at hp

/-- on a written line the translated parser needs `ParseUint` only on canonical decimals -/
theorem parseSpec_written (f : Bytes → Int × GoErr) (g : Bytes → Int → Int → Int × GoErr)
    (hf : AtoiModel f) (hg : PUCanon g) (b : Bed.Bed) (N : Nat) :
    parseSpec (reqA f) (u8G g) ((Bed.allFields b).take N) = Bed.parseLine ((Bed.allFields b).take N) := by
  rw [reqA_of_model hf, parseLine_eq_spec]
  apply parseSpec_congr_U
  intro p hp
  rcases rgbPieces_take b N p hp with rfl | rfl | rfl <;>
    rw [u8G_canon hg, Bed.parseU8_natDigits]

/-- The write → read round trip at the level of lines, for ANY list of records whose fields are
clean: if `x` consists of the lines `joinWith TAB (take N (allFields b))`, LF-terminated, the translated
reader on `x` is the model decoder on `x`. -/
theorem goBedDecode_written (hF : GoSrc.bed_read_Found = true) (hP : GoSrc.parseLine_Found = true)
    (f : Bytes → Int × GoErr) (g : Bytes → Int → Int → Int × GoErr) (hf : AtoiModel f) (hg : PUCanon g)
    (N : Nat) (h3 : 3 ≤ N) (bs : List Bed.Bed) (hclean : ∀ b ∈ bs, ∀ fl ∈ Bed.allFields b, Bed.Clean fl)
    (fuel : Nat)
    (hfuel : (bs.map fun b => joinWith TAB ((Bed.allFields b).take N) ++ [10]).flatten.length < fuel) :
    goBedDecode f g fuel (bs.map fun b => joinWith TAB ((Bed.allFields b).take N) ++ [10]).flatten .eof
      = some (Bed.decode (bs.map fun b => joinWith TAB ((Bed.allFields b).take N) ++ [10]).flatten) := by
  apply goBedDecode_eq hF hP f g fuel _ .eof hfuel
  intro l hl
  have hsl := Bed.scanLines_file (fun b => joinWith TAB ((Bed.allFields b).take N)) (fun _ => false) bs
    (fun b hb => Bed.line_noNL b N (hclean b hb)) []
  simp only [Bed.term, Bool.false_eq_true, if_false, List.append_nil, Bed.scanLines_nil] at hsl
  simp only [textLines, hsl, List.mem_map] at hl
  obtain ⟨b, hb, rfl⟩ := hl
  rw [show (9 : UInt8) = TAB from rfl, Bed.splitOn_line b N h3 (hclean b hb)]
  exact parseSpec_written f g hf hg b N

end BedRd

end Bio.GoSrcLemmas
