/-
  Generally useful lemmas about the shared codecs of `Bio.Model.Basic` and
  `Bio.Model.Lines`: decimal / hex round trips, split/join, line scanning,
  and `sortBytes`.  Core Lean only.
-/
import Bio.Model.Lines
namespace Bio

/-! ## Decimal codec -/

theorem digitChar_spec : ∀ d, d < 10 →
    isDigit (digitChar d) = true ∧ (digitChar d).toNat - 48 = d ∧
    48 ≤ (digitChar d).toNat ∧ (digitChar d).toNat ≤ 57 := by decide

theorem isDigit_iff (b : UInt8) : isDigit b = true ↔ 48 ≤ b.toNat ∧ b.toNat ≤ 57 := by
  simp [isDigit, UInt8.le_iff_toNat_le]

theorem natDigits_ne_nil (n : Nat) : natDigits n ≠ [] := by
  rw [natDigits]; split <;> simp

/-- Every byte of `natDigits n` is an ASCII digit. -/
theorem natDigits_isDigit (n : Nat) : ∀ b ∈ natDigits n, isDigit b = true := by
  induction n using Nat.strongRecOn with
  | _ n ih =>
    intro b hb
    rw [natDigits] at hb
    split at hb
    · simp at hb; subst hb; exact (digitChar_spec n ‹_›).1
    · rename_i h
      simp at hb
      rcases hb with hb | hb
      · exact ih (n / 10) (by omega) b hb
      · subst hb; exact (digitChar_spec (n % 10) (by omega)).1

theorem natDigits_range (n : Nat) : ∀ b ∈ natDigits n, 48 ≤ b.toNat ∧ b.toNat ≤ 57 :=
  fun b hb => (isDigit_iff b).1 (natDigits_isDigit n b hb)

/-- A byte outside `'0'..'9'` does not occur in `natDigits n`. -/
theorem not_mem_natDigits {c : UInt8} (n : Nat) (hc : c.toNat < 48 ∨ 57 < c.toNat) :
    c ∉ natDigits n := by
  intro h; have := natDigits_range n c h; omega

theorem natDigits_no_special (n : Nat) :
    (9 : UInt8) ∉ natDigits n ∧ (10 : UInt8) ∉ natDigits n ∧ (13 : UInt8) ∉ natDigits n ∧
    (44 : UInt8) ∉ natDigits n ∧ (58 : UInt8) ∉ natDigits n ∧ (32 : UInt8) ∉ natDigits n ∧
    (45 : UInt8) ∉ natDigits n ∧ (43 : UInt8) ∉ natDigits n ∧ (64 : UInt8) ∉ natDigits n :=
  ⟨not_mem_natDigits n (by decide), not_mem_natDigits n (by decide),
   not_mem_natDigits n (by decide), not_mem_natDigits n (by decide),
   not_mem_natDigits n (by decide), not_mem_natDigits n (by decide),
   not_mem_natDigits n (by decide), not_mem_natDigits n (by decide),
   not_mem_natDigits n (by decide)⟩

theorem parseNatAux_append_digit (d : Nat) (hd : d < 10) :
    ∀ (s : Bytes) (acc : Nat),
      parseNatAux acc (s ++ [digitChar d]) = (parseNatAux acc s).map (fun m => m * 10 + d) := by
  intro s
  induction s with
  | nil =>
    intro acc
    have := digitChar_spec d hd
    simp [parseNatAux, this.1, this.2.1]
  | cons b rest ih =>
    intro acc
    simp only [List.cons_append, parseNatAux]
    split
    · exact ih _
    · simp

theorem parseNatAux_natDigits (n : Nat) : parseNatAux 0 (natDigits n) = some n := by
  induction n using Nat.strongRecOn with
  | _ n ih =>
    rw [natDigits]
    split
    · rename_i h
      have := digitChar_spec n h
      simp [parseNatAux, this.1, this.2.1]
    · rename_i h
      rw [parseNatAux_append_digit _ (by omega), ih (n / 10) (by omega)]
      simp; omega

theorem parseNat_eq_aux {s : Bytes} (h : s ≠ []) : parseNat s = parseNatAux 0 s := by
  cases s with
  | nil => exact absurd rfl h
  | cons b r => rfl

theorem parseNat_natDigits (n : Nat) : parseNat (natDigits n) = some n := by
  rw [parseNat_eq_aux (natDigits_ne_nil n), parseNatAux_natDigits]

theorem itoa_ne_nil (i : Int) : itoa i ≠ [] := by
  cases i with
  | ofNat n => exact natDigits_ne_nil n
  | negSucc n => simp [itoa]

/-- Every byte of `itoa i` is a digit or `'-'`. -/
theorem itoa_bytes (i : Int) : ∀ b ∈ itoa i, isDigit b = true ∨ b = 45 := by
  intro b hb
  cases i with
  | ofNat n => exact Or.inl (natDigits_isDigit n b hb)
  | negSucc n =>
    simp [itoa] at hb
    rcases hb with hb | hb
    · exact Or.inr hb
    · exact Or.inl (natDigits_isDigit _ b hb)

theorem itoa_range (i : Int) : ∀ b ∈ itoa i, (48 ≤ b.toNat ∧ b.toNat ≤ 57) ∨ b.toNat = 45 := by
  intro b hb
  rcases itoa_bytes i b hb with h | h
  · exact Or.inl ((isDigit_iff b).1 h)
  · subst h; exact Or.inr (by decide)

theorem not_mem_itoa {c : UInt8} (i : Int)
    (hc : (c.toNat < 48 ∨ 57 < c.toNat) ∧ c.toNat ≠ 45) : c ∉ itoa i := by
  intro h; have := itoa_range i c h; omega

theorem itoa_no_special (i : Int) :
    (9 : UInt8) ∉ itoa i ∧ (10 : UInt8) ∉ itoa i ∧ (13 : UInt8) ∉ itoa i ∧
    (44 : UInt8) ∉ itoa i ∧ (58 : UInt8) ∉ itoa i ∧ (32 : UInt8) ∉ itoa i ∧
    (64 : UInt8) ∉ itoa i :=
  ⟨not_mem_itoa i (by decide), not_mem_itoa i (by decide), not_mem_itoa i (by decide),
   not_mem_itoa i (by decide), not_mem_itoa i (by decide), not_mem_itoa i (by decide),
   not_mem_itoa i (by decide)⟩

/-- `atoi` on a string whose first byte is neither `+` nor `-`. -/
theorem atoi_unsigned {s : Bytes} (h : s.head? ≠ some 43 ∧ s.head? ≠ some 45) :
    atoi s = match parseNat s with
      | none => none
      | some n => if int64Min ≤ (n : Int) ∧ (n : Int) ≤ int64Max then some (n : Int) else none := by
  unfold atoi
  split
  rename_i x neg body heq
  split at heq
  · simp at h
  · simp at h
  · cases heq
    cases hp : parseNat s <;> simp

theorem atoi_neg (r : Bytes) :
    atoi (45 :: r) = match parseNat r with
      | none => none
      | some n => if int64Min ≤ -(n : Int) ∧ -(n : Int) ≤ int64Max then some (-(n : Int)) else none := by
  unfold atoi
  cases hp : parseNat r <;> simp [hp]

theorem atoi_itoa (i : Int) (h : int64Min ≤ i ∧ i ≤ int64Max) : atoi (itoa i) = some i := by
  cases i with
  | ofNat n =>
    have hne := natDigits_ne_nil n
    have hd := natDigits_isDigit n
    have hh : (natDigits n).head? ≠ some 43 ∧ (natDigits n).head? ≠ some 45 := by
      cases hs : natDigits n with
      | nil => exact absurd hs hne
      | cons b r =>
        have := (isDigit_iff b).1 (hd b (by simp [hs]))
        constructor <;> (intro hb; simp at hb; subst hb; revert this; decide)
    show atoi (natDigits n) = _
    rw [atoi_unsigned hh, parseNat_natDigits]
    simp only [Int.ofNat_eq_natCast] at h
    simp [h]
  | negSucc n =>
    show atoi (45 :: natDigits (n + 1)) = _
    rw [atoi_neg, parseNat_natDigits]
    have e : -((n + 1 : Nat) : Int) = Int.negSucc n := by omega
    simp only [e]
    simp [h]

/-! ## Hex codec -/

theorem hexDigit_spec : ∀ n, n < 16 →
    hexVal (hexDigit n) = some n ∧
    ((48 ≤ (hexDigit n).toNat ∧ (hexDigit n).toNat ≤ 57) ∨
     (97 ≤ (hexDigit n).toNat ∧ (hexDigit n).toNat ≤ 102)) := by decide

theorem hexDec_hexEnc (b : Bytes) : hexDec (hexEnc b) = some b := by
  induction b with
  | nil => rfl
  | cons x rest ih =>
    have hx := UInt8.toNat_lt x
    have h1 := (hexDigit_spec (x.toNat / 16) (by omega)).1
    have h2 := (hexDigit_spec (x.toNat % 16) (by omega)).1
    simp only [hexEnc, hexDec, h1, h2, ih]
    have : x.toNat / 16 * 16 + x.toNat % 16 = x.toNat := by omega
    rw [this, UInt8.ofNat_toNat]

/-- Bytes of `hexEnc` are in `0-9a-f`. -/
theorem hexEnc_range (b : Bytes) :
    ∀ c ∈ hexEnc b, (48 ≤ c.toNat ∧ c.toNat ≤ 57) ∨ (97 ≤ c.toNat ∧ c.toNat ≤ 102) := by
  induction b with
  | nil => intro c hc; simp [hexEnc] at hc
  | cons x rest ih =>
    intro c hc
    have hx := UInt8.toNat_lt x
    simp only [hexEnc, List.mem_cons] at hc
    rcases hc with hc | hc | hc
    · subst hc; exact (hexDigit_spec (x.toNat / 16) (by omega)).2
    · subst hc; exact (hexDigit_spec (x.toNat % 16) (by omega)).2
    · exact ih c hc

theorem not_mem_hexEnc {c : UInt8} (b : Bytes)
    (hc : (c.toNat < 48 ∨ 57 < c.toNat) ∧ (c.toNat < 97 ∨ 102 < c.toNat)) : c ∉ hexEnc b := by
  intro h; have := hexEnc_range b c h; omega

theorem hexEnc_length (b : Bytes) : (hexEnc b).length = 2 * b.length := by
  induction b with
  | nil => rfl
  | cons x rest ih => simp [hexEnc, ih]; omega

/-- `hexDec` rejects odd-length input. -/
theorem hexDec_odd : ∀ (s : Bytes), s.length % 2 = 1 → hexDec s = none
  | [], h => by simp at h
  | [_], _ => rfl
  | a :: b :: rest, h => by
    have ih := hexDec_odd rest (by simp at h; omega)
    simp only [hexDec, ih]
    split <;> simp_all

/-! ## split / join -/

theorem splitOn_ne_nil (sep : UInt8) (x : Bytes) : splitOn sep x ≠ [] := by
  induction x with
  | nil => simp [splitOn]
  | cons b rest ih =>
    rw [splitOn]
    split
    · simp
    · split <;> simp

theorem splitOn_length_pos (sep : UInt8) (x : Bytes) : 0 < (splitOn sep x).length :=
  List.length_pos_iff.2 (splitOn_ne_nil sep x)

theorem splitOn_cons_sep (sep : UInt8) (rest : Bytes) :
    splitOn sep (sep :: rest) = [] :: splitOn sep rest := by
  simp [splitOn]

theorem splitOn_cons_ne {sep b : UInt8} (h : b ≠ sep) (rest : Bytes) :
    ∃ p ps, splitOn sep rest = p :: ps ∧ splitOn sep (b :: rest) = (b :: p) :: ps := by
  obtain ⟨p, ps, hp⟩ := List.exists_cons_of_ne_nil (splitOn_ne_nil sep rest)
  refine ⟨p, ps, hp, ?_⟩
  rw [splitOn]
  simp [h, hp]

/-- A separator-free string is a single piece. -/
theorem splitOn_of_not_mem {sep : UInt8} {p : Bytes} (h : sep ∉ p) : splitOn sep p = [p] := by
  induction p with
  | nil => rfl
  | cons b rest ih =>
    simp only [List.mem_cons, not_or] at h
    obtain ⟨q, qs, hq, hb⟩ := splitOn_cons_ne (sep := sep) (b := b) (Ne.symm h.1) rest
    rw [hb]
    rw [ih h.2] at hq
    cases hq; rfl

theorem splitOn_append_sep {sep : UInt8} {p : Bytes} (h : sep ∉ p) (rest : Bytes) :
    splitOn sep (p ++ sep :: rest) = p :: splitOn sep rest := by
  induction p with
  | nil => exact splitOn_cons_sep sep rest
  | cons b q ih =>
    simp only [List.mem_cons, not_or] at h
    obtain ⟨r, rs, hr, hb⟩ := splitOn_cons_ne (sep := sep) (b := b) (Ne.symm h.1) (q ++ sep :: rest)
    rw [List.cons_append, hb]
    rw [ih h.2] at hr
    cases hr; rfl

theorem splitOn_joinWith (sep : UInt8) (ps : List Bytes) (h : ps ≠ [])
    (hs : ∀ p ∈ ps, sep ∉ p) : splitOn sep (joinWith sep ps) = ps := by
  induction ps with
  | nil => exact absurd rfl h
  | cons p rest ih =>
    cases rest with
    | nil => simpa [joinWith] using splitOn_of_not_mem (hs p (by simp))
    | cons q qs =>
      rw [joinWith, splitOn_append_sep (hs p (by simp))]
      rw [ih (by simp) (fun r hr => hs r (List.mem_cons_of_mem _ hr))]

theorem joinWith_cons_cons (sep : UInt8) (p q : Bytes) (ps : List Bytes) :
    joinWith sep (p :: q :: ps) = p ++ sep :: joinWith sep (q :: ps) := rfl

theorem joinWith_cons_of_ne_nil (sep : UInt8) (p : Bytes) {ps : List Bytes} (h : ps ≠ []) :
    joinWith sep (p :: ps) = p ++ sep :: joinWith sep ps := by
  cases ps with
  | nil => exact absurd rfl h
  | cons q qs => rfl

/-- `joinWith` as "first piece, then every further piece preceded by the separator". -/
theorem joinWith_cons (sep : UInt8) (p : Bytes) (ps : List Bytes) :
    joinWith sep (p :: ps) = p ++ (ps.map (sep :: ·)).flatten := by
  induction ps generalizing p with
  | nil => simp [joinWith]
  | cons q qs ih => rw [joinWith, ih q]; simp

theorem joinWith_append (sep : UInt8) {ps : List Bytes} (h : ps ≠ []) (qs : List Bytes) :
    joinWith sep (ps ++ qs) = joinWith sep ps ++ (qs.map (sep :: ·)).flatten := by
  cases ps with
  | nil => exact absurd rfl h
  | cons p ps => rw [List.cons_append, joinWith_cons, joinWith_cons]; simp

/-- A byte of a joined string is the separator or a byte of some piece. -/
theorem mem_joinWith {sep c : UInt8} {ps : List Bytes} (h : c ∈ joinWith sep ps) :
    c = sep ∨ ∃ p ∈ ps, c ∈ p := by
  cases ps with
  | nil => simp [joinWith] at h
  | cons p ps =>
    rw [joinWith_cons] at h
    simp only [List.mem_append, List.mem_flatten, List.mem_map] at h
    rcases h with h | ⟨l, ⟨q, hq, rfl⟩, hc⟩
    · exact Or.inr ⟨p, by simp, h⟩
    · simp only [List.mem_cons] at hc
      rcases hc with hc | hc
      · exact Or.inl hc
      · exact Or.inr ⟨q, by simp [hq], hc⟩

theorem joinWith_ne_nil_of_two (sep : UInt8) (p q : Bytes) (ps : List Bytes) :
    joinWith sep (p :: q :: ps) ≠ [] := by
  simp [joinWith]

/-! ## Lines -/

theorem dropCR_of_getLast {l : Bytes} (h : l.getLast? ≠ some 13) : dropCR l = l := by
  unfold dropCR
  split
  · rename_i h'; exact absurd h' h
  · rfl

theorem dropCR_nil : dropCR [] = [] := rfl

theorem dropCR_append_CR (l : Bytes) : dropCR (l ++ [13]) = l := by
  unfold dropCR
  simp

theorem dropCR_of_not_mem {l : Bytes} (h : (13 : UInt8) ∉ l) : dropCR l = l := by
  apply dropCR_of_getLast
  intro h'
  exact h (List.mem_of_getLast? h')

theorem rawLines_nil : rawLines [] = [] := rfl

theorem rawLines_cons_LF (rest : Bytes) : rawLines (10 :: rest) = [] :: rawLines rest := by
  simp [rawLines]

theorem rawLines_of_not_mem {l : Bytes} (hne : l ≠ []) (h : (10 : UInt8) ∉ l) :
    rawLines l = [l] := by
  induction l with
  | nil => exact absurd rfl hne
  | cons b rest ih =>
    simp only [List.mem_cons, not_or] at h
    have hb : (b == 10) = false := by simpa using Ne.symm h.1
    cases rest with
    | nil => simp [rawLines, hb]
    | cons c r =>
      rw [rawLines, ih (by simp) h.2]
      simp [hb]

theorem rawLines_append_LF {l : Bytes} (h : (10 : UInt8) ∉ l) (rest : Bytes) :
    rawLines (l ++ 10 :: rest) = l :: rawLines rest := by
  induction l with
  | nil => exact rawLines_cons_LF rest
  | cons b q ih =>
    simp only [List.mem_cons, not_or] at h
    have hb : (b == 10) = false := by simpa using Ne.symm h.1
    rw [List.cons_append, rawLines, ih h.2]
    simp [hb]

theorem scanLines_nil : scanLines [] = [] := rfl

theorem scanLines_append_LF {l : Bytes} (h : (10 : UInt8) ∉ l) (hcr : l.getLast? ≠ some 13)
    (rest : Bytes) : scanLines (l ++ 10 :: rest) = l :: scanLines rest := by
  simp [scanLines, rawLines_append_LF h, dropCR_of_getLast hcr]

/-- General form: the scanned line is `dropCR l`. -/
theorem scanLines_append_LF' {l : Bytes} (h : (10 : UInt8) ∉ l) (rest : Bytes) :
    scanLines (l ++ 10 :: rest) = dropCR l :: scanLines rest := by
  simp [scanLines, rawLines_append_LF h]

theorem scanLines_append_CRLF {l : Bytes} (h : (10 : UInt8) ∉ l) (rest : Bytes) :
    scanLines (l ++ 13 :: 10 :: rest) = l :: scanLines rest := by
  have h' : (10 : UInt8) ∉ l ++ [13] := by simp [h]
  have := scanLines_append_LF' h' rest
  simpa [dropCR_append_CR] using this

theorem scanLines_single {l : Bytes} (hne : l ≠ []) (h : (10 : UInt8) ∉ l)
    (hcr : l.getLast? ≠ some 13) : scanLines l = [l] := by
  simp [scanLines, rawLines_of_not_mem hne h, dropCR_of_getLast hcr]

/-- The file made of the given lines, each terminated by LF. -/
def lfFile (ls : List Bytes) : Bytes := (ls.map (· ++ [10])).flatten

/-- The file made of the given lines, each terminated by CR LF. -/
def crlfFile (ls : List Bytes) : Bytes := (ls.map (· ++ [13, 10])).flatten

theorem lfFile_nil : lfFile [] = [] := rfl
theorem lfFile_cons (l : Bytes) (ls : List Bytes) : lfFile (l :: ls) = l ++ 10 :: lfFile ls := by
  simp [lfFile]
theorem lfFile_append (a b : List Bytes) : lfFile (a ++ b) = lfFile a ++ lfFile b := by
  simp [lfFile]
theorem crlfFile_cons (l : Bytes) (ls : List Bytes) :
    crlfFile (l :: ls) = l ++ 13 :: 10 :: crlfFile ls := by
  simp [crlfFile]

/-- `scanLines` recovers exactly the lines of an LF-terminated file. -/
theorem scanLines_lfFile (ls : List Bytes)
    (h : ∀ l ∈ ls, (10 : UInt8) ∉ l ∧ l.getLast? ≠ some 13) : scanLines (lfFile ls) = ls := by
  induction ls with
  | nil => rfl
  | cons l rest ih =>
    rw [lfFile_cons, scanLines_append_LF (h l (by simp)).1 (h l (by simp)).2,
      ih (fun m hm => h m (List.mem_cons_of_mem _ hm))]

theorem scanLines_crlfFile (ls : List Bytes) (h : ∀ l ∈ ls, (10 : UInt8) ∉ l) :
    scanLines (crlfFile ls) = ls := by
  induction ls with
  | nil => rfl
  | cons l rest ih =>
    rw [crlfFile_cons, scanLines_append_CRLF (h l (by simp)),
      ih (fun m hm => h m (List.mem_cons_of_mem _ hm))]

/-- Missing final newline: all lines LF-terminated except the (non-empty) last. -/
theorem scanLines_lfFile_append_last (ls : List Bytes) (last : Bytes)
    (h : ∀ l ∈ ls, (10 : UInt8) ∉ l ∧ l.getLast? ≠ some 13)
    (hne : last ≠ []) (hl : (10 : UInt8) ∉ last) (hcr : last.getLast? ≠ some 13) :
    scanLines (lfFile ls ++ last) = ls ++ [last] := by
  induction ls with
  | nil => simpa [lfFile] using scanLines_single hne hl hcr
  | cons l rest ih =>
    rw [lfFile_cons, List.append_assoc, List.cons_append,
      scanLines_append_LF (h l (by simp)).1 (h l (by simp)).2,
      ih (fun m hm => h m (List.mem_cons_of_mem _ hm))]
    rfl

theorem completeLines_nil : completeLines [] = [] := rfl

theorem completeLines_of_not_mem {l : Bytes} (h : (10 : UInt8) ∉ l) : completeLines l = [] := by
  simp [completeLines, splitOn_of_not_mem h]

theorem completeLines_append_LF {l : Bytes} (h : (10 : UInt8) ∉ l) (rest : Bytes) :
    completeLines (l ++ 10 :: rest) = l :: completeLines rest := by
  unfold completeLines
  rw [splitOn_append_sep h]
  obtain ⟨p, ps, hp⟩ := List.exists_cons_of_ne_nil (splitOn_ne_nil 10 rest)
  rw [hp]; rfl

theorem completeLines_lfFile (ls : List Bytes) (h : ∀ l ∈ ls, (10 : UInt8) ∉ l) :
    completeLines (lfFile ls) = ls := by
  induction ls with
  | nil => rfl
  | cons l rest ih =>
    rw [lfFile_cons, completeLines_append_LF (h l (by simp)),
      ih (fun m hm => h m (List.mem_cons_of_mem _ hm))]

/-- The complete lines of a truncated LF-terminated file are a prefix of its lines:
no line is built from a truncated one. -/
theorem completeLines_take_lfFile (ls : List Bytes) (h : ∀ l ∈ ls, (10 : UInt8) ∉ l) (k : Nat) :
    ∃ n, completeLines ((lfFile ls).take k) = ls.take n := by
  induction ls generalizing k with
  | nil => exact ⟨0, by simp [lfFile, completeLines, splitOn]⟩
  | cons l rest ih =>
    have hl := h l (by simp)
    rw [lfFile_cons]
    by_cases hk : k ≤ l.length
    · refine ⟨0, ?_⟩
      rw [List.take_append_of_le_length hk]
      rw [completeLines_of_not_mem (fun hm => hl (List.mem_of_mem_take hm))]
      rfl
    · obtain ⟨n, hn⟩ := ih (fun m hm => h m (List.mem_cons_of_mem _ hm)) (k - l.length - 1)
      refine ⟨n + 1, ?_⟩
      have hk' : k - l.length = (k - l.length - 1) + 1 := by omega
      rw [List.take_append, List.take_of_length_le (by omega), hk', List.take_succ_cons,
        completeLines_append_LF hl, hn]
      rfl

theorem textLines_eof (x : Bytes) : textLines .eof x = scanLines x := rfl
theorem textLines_fail (x : Bytes) : textLines .fail x = (completeLines x).map dropCR := rfl

theorem textLines_eof_lfFile (ls : List Bytes)
    (h : ∀ l ∈ ls, (10 : UInt8) ∉ l ∧ l.getLast? ≠ some 13) : textLines .eof (lfFile ls) = ls :=
  scanLines_lfFile ls h

theorem map_dropCR_of_ok (ls : List Bytes) (h : ∀ l ∈ ls, l.getLast? ≠ some 13) :
    ls.map dropCR = ls := by
  induction ls with
  | nil => rfl
  | cons l rest ih =>
    simp [dropCR_of_getLast (h l (by simp)), ih (fun m hm => h m (List.mem_cons_of_mem _ hm))]

theorem textLines_fail_lfFile (ls : List Bytes)
    (h : ∀ l ∈ ls, (10 : UInt8) ∉ l ∧ l.getLast? ≠ some 13) : textLines .fail (lfFile ls) = ls := by
  rw [textLines_fail, completeLines_lfFile ls (fun l hl => (h l hl).1),
    map_dropCR_of_ok ls (fun l hl => (h l hl).2)]

/-- With a failing source and a truncated LF-terminated file, the reader sees a prefix of the
file's lines. -/
theorem textLines_fail_take_lfFile (ls : List Bytes)
    (h : ∀ l ∈ ls, (10 : UInt8) ∉ l ∧ l.getLast? ≠ some 13) (k : Nat) :
    ∃ n, textLines .fail ((lfFile ls).take k) = ls.take n := by
  obtain ⟨n, hn⟩ := completeLines_take_lfFile ls (fun l hl => (h l hl).1) k
  refine ⟨n, ?_⟩
  rw [textLines_fail, hn]
  exact map_dropCR_of_ok _ (fun l hl => (h l (List.mem_of_mem_take hl)).2)

/-! ## Byte-string order and `sortBytes` -/

theorem bytesLt_irrefl (a : Bytes) : bytesLt a a = false := by
  induction a with
  | nil => rfl
  | cons x xs ih => simp [bytesLt, UInt8.lt_irrefl, ih]

theorem bytesLt_asymm : ∀ {a b : Bytes}, bytesLt a b = true → bytesLt b a = false
  | [], [], h => by simp [bytesLt] at h
  | [], _ :: _, _ => rfl
  | _ :: _, [], h => by simp [bytesLt] at h
  | x :: xs, y :: ys, h => by
    simp only [bytesLt] at h ⊢
    by_cases hxy : x < y
    · simp [hxy, UInt8.lt_asymm hxy]
    · by_cases hyx : y < x
      · simp [hxy, hyx] at h
      · simp only [hxy, hyx, if_false] at h ⊢
        exact bytesLt_asymm h

theorem bytesLt_trans : ∀ {a b c : Bytes}, bytesLt a b = true → bytesLt b c = true →
    bytesLt a c = true
  | [], [], _, h, _ => by simp [bytesLt] at h
  | [], _ :: _, [], _, h => by simp [bytesLt] at h
  | [], _ :: _, _ :: _, _, _ => rfl
  | _ :: _, [], _, h, _ => by simp [bytesLt] at h
  | _ :: _, _ :: _, [], _, h => by simp [bytesLt] at h
  | x :: xs, y :: ys, z :: zs, h1, h2 => by
    simp only [bytesLt] at h1 h2 ⊢
    by_cases hxy : x < y
    · by_cases hyz : y < z
      · simp [UInt8.lt_trans hxy hyz]
      · by_cases hzy : z < y
        · simp [hyz, hzy] at h2
        · have : y = z := UInt8.le_antisymm (UInt8.not_lt.1 hzy) (UInt8.not_lt.1 hyz)
          subst this; simp [hxy]
    · by_cases hyx : y < x
      · simp [hxy, hyx] at h1
      · have : x = y := UInt8.le_antisymm (UInt8.not_lt.1 hyx) (UInt8.not_lt.1 hxy)
        subst this
        simp only [hxy, if_false] at h1
        by_cases hxz : x < z
        · simp [hxz]
        · by_cases hzx : z < x
          · simp [hxz, hzx] at h2
          · simp only [hxz, hzx, if_false] at h2 ⊢
            exact bytesLt_trans h1 h2

theorem bytesLt_trichotomy : ∀ (a b : Bytes), bytesLt a b = true ∨ a = b ∨ bytesLt b a = true
  | [], [] => Or.inr (Or.inl rfl)
  | [], _ :: _ => Or.inl rfl
  | _ :: _, [] => Or.inr (Or.inr rfl)
  | x :: xs, y :: ys => by
    simp only [bytesLt]
    by_cases hxy : x < y
    · simp [hxy]
    · by_cases hyx : y < x
      · simp [hyx]
      · have : x = y := UInt8.le_antisymm (UInt8.not_lt.1 hyx) (UInt8.not_lt.1 hxy)
        subst this
        simp only [hxy, if_false]
        rcases bytesLt_trichotomy xs ys with h | h | h
        · exact Or.inl h
        · exact Or.inr (Or.inl (by rw [h]))
        · exact Or.inr (Or.inr h)

theorem bytesLt_of_ne_of_not_lt {a b : Bytes} (hne : a ≠ b) (h : bytesLt a b = false) :
    bytesLt b a = true := by
  rcases bytesLt_trichotomy a b with h' | h' | h'
  · rw [h] at h'; cases h'
  · exact absurd h' hne
  · exact h'

theorem bytesLt_ne {a b : Bytes} (h : bytesLt a b = true) : a ≠ b := by
  intro e; subst e; rw [bytesLt_irrefl] at h; cases h

theorem bytesLe_refl (a : Bytes) : bytesLe a a = true := by simp [bytesLe, bytesLt_irrefl]

theorem bytesLe_total (a b : Bytes) : bytesLe a b = true ∨ bytesLe b a = true := by
  simp only [bytesLe]
  cases h : bytesLt b a with
  | false => simp
  | true => simp [bytesLt_asymm h]

theorem bytesLe_of_not_le {a b : Bytes} (h : bytesLe a b = false) : bytesLe b a = true := by
  rcases bytesLe_total a b with h' | h'
  · rw [h] at h'; cases h'
  · exact h'

theorem bytesLe_of_lt {a b : Bytes} (h : bytesLt a b = true) : bytesLe a b = true := by
  simp [bytesLe, bytesLt_asymm h]

theorem bytesLe_trans {a b c : Bytes} (h1 : bytesLe a b = true) (h2 : bytesLe b c = true) :
    bytesLe a c = true := by
  simp only [bytesLe, Bool.not_eq_true'] at h1 h2 ⊢
  cases hca : bytesLt c a with
  | false => rfl
  | true =>
    rcases bytesLt_trichotomy b c with h | h | h
    · rw [bytesLt_trans h hca] at h1; cases h1
    · subst h; rw [hca] at h1; cases h1
    · rw [h] at h2; cases h2

theorem bytesLe_antisymm {a b : Bytes} (h1 : bytesLe a b = true) (h2 : bytesLe b a = true) :
    a = b := by
  simp only [bytesLe, Bool.not_eq_true'] at h1 h2
  rcases bytesLt_trichotomy a b with h | h | h
  · rw [h] at h2; cases h2
  · exact h
  · rw [h] at h1; cases h1

theorem insertSorted_perm (x : Bytes) (l : List Bytes) : (insertSorted x l).Perm (x :: l) := by
  induction l with
  | nil => exact List.Perm.refl _
  | cons y ys ih =>
    rw [insertSorted]
    split
    · exact List.Perm.refl _
    · exact (List.Perm.cons y ih).trans (List.Perm.swap x y ys)

theorem sortBytes_nil : sortBytes [] = [] := rfl
theorem sortBytes_cons (x : Bytes) (l : List Bytes) :
    sortBytes (x :: l) = insertSorted x (sortBytes l) := rfl

theorem sortBytes_perm (l : List Bytes) : (sortBytes l).Perm l := by
  induction l with
  | nil => exact List.Perm.refl _
  | cons x xs ih =>
    rw [sortBytes_cons]
    exact (insertSorted_perm x _).trans (List.Perm.cons x ih)

theorem mem_sortBytes {x : Bytes} {l : List Bytes} : x ∈ sortBytes l ↔ x ∈ l :=
  (sortBytes_perm l).mem_iff

theorem sortBytes_length (l : List Bytes) : (sortBytes l).length = l.length :=
  (sortBytes_perm l).length_eq

theorem insertSorted_sorted (x : Bytes) (l : List Bytes)
    (h : List.Pairwise (fun a b => bytesLe a b = true) l) :
    List.Pairwise (fun a b => bytesLe a b = true) (insertSorted x l) := by
  induction l with
  | nil => simp [insertSorted]
  | cons y ys ih =>
    rw [insertSorted]
    rw [List.pairwise_cons] at h
    split
    · rename_i hxy
      rw [List.pairwise_cons]
      refine ⟨?_, List.pairwise_cons.2 h⟩
      intro z hz
      rcases List.mem_cons.1 hz with hz | hz
      · subst hz; exact hxy
      · exact bytesLe_trans hxy (h.1 z hz)
    · rename_i hxy
      have hyx : bytesLe y x = true := bytesLe_of_not_le (by simpa using hxy)
      rw [List.pairwise_cons]
      refine ⟨?_, ih h.2⟩
      intro z hz
      rcases List.mem_cons.1 ((insertSorted_perm x ys).mem_iff.1 hz) with hz | hz
      · subst hz; exact hyx
      · exact h.1 z hz

theorem sortBytes_sorted (l : List Bytes) :
    List.Pairwise (fun a b => bytesLe a b = true) (sortBytes l) := by
  induction l with
  | nil => exact List.Pairwise.nil
  | cons x xs ih => rw [sortBytes_cons]; exact insertSorted_sorted x _ ih

end Bio
