/-
  Helper lemmas about the alignment model (`Bio/Model/Align.lean`):
  table shape, cell recurrences, `rescore` algebra, traceback invariants,
  `argmax` specification.
-/
import Bio.Model.Align
namespace Bio.Align

/-! ## Shape of the table -/

/-- The interior recurrence as one function of the three neighbours. -/
def stepCell (m : Mat) (loc : Bool) (x y : UInt8) (diag up left : Cell) : Cell :=
  clamp loc (decideOnStep (diag.score + m x y)
    (up.score + m x GAP + (if up.step != .del then m GAP GAP else 0))
    (left.score + m GAP y + (if left.step != .ins then m GAP GAP else 0)))

theorem row0Aux_length (m : Mat) (loc : Bool) : ∀ (b : Bytes) (prev : Int) (first : Bool),
    (row0Aux m loc prev first b).length = b.length
  | [], _, _ => rfl
  | _ :: ys, _, _ => by simp [row0Aux, row0Aux_length m loc ys]

theorem row0_length (m : Mat) (loc : Bool) (b : Bytes) : (row0 m loc b).length = b.length + 1 := by
  simp [row0, row0Aux_length]

theorem rowAux_length (m : Mat) (loc : Bool) (x : UInt8) :
    ∀ (ups : List Cell) (ys : Bytes) (left diag : Cell), ups.length = ys.length →
      (rowAux m loc x left diag ups ys).length = ys.length
  | [], [], _, _, _ => by simp [rowAux]
  | [], _ :: _, _, _, h => by simp at h
  | _ :: _, [], _, _, h => by simp at h
  | up :: ups, y :: ys, left, diag, h => by
    simp only [rowAux, List.length_cons]
    rw [rowAux_length m loc x ups ys]
    simpa using h

theorem nextRow_length (m : Mat) (loc : Bool) (x : UInt8) (first : Bool) (prev : List Cell)
    (b : Bytes) (h : prev.length = b.length + 1) :
    (nextRow m loc x first prev b).length = b.length + 1 := by
  cases prev with
  | nil => simp at h
  | cons up0 ups =>
    simp only [nextRow, List.length_cons]
    rw [rowAux_length]
    simpa using h

theorem tableAux_length (m : Mat) (loc : Bool) (b : Bytes) :
    ∀ (a : Bytes) (prev : List Cell) (first : Bool),
      (tableAux m loc b prev first a).length = a.length
  | [], _, _ => rfl
  | _ :: xs, _, _ => by simp [tableAux, tableAux_length m loc b xs]

theorem table_length (m : Mat) (loc : Bool) (a b : Bytes) :
    (table m loc a b).length = a.length + 1 := by
  simp [table, tableAux_length]

theorem tableAux_row_length (m : Mat) (loc : Bool) (b : Bytes) :
    ∀ (a : Bytes) (prev : List Cell) (first : Bool), prev.length = b.length + 1 →
      ∀ r ∈ tableAux m loc b prev first a, r.length = b.length + 1
  | [], _, _, _ => by simp [tableAux]
  | x :: xs, prev, first, h => by
    intro r hr
    simp only [tableAux, List.mem_cons] at hr
    have hn := nextRow_length m loc x first prev b h
    rcases hr with rfl | hr
    · exact hn
    · exact tableAux_row_length m loc b xs _ _ hn r hr

theorem table_row_length (m : Mat) (loc : Bool) (a b : Bytes) :
    ∀ r ∈ table m loc a b, r.length = b.length + 1 := by
  intro r hr
  simp only [table, List.mem_cons] at hr
  rcases hr with rfl | hr
  · exact row0_length m loc b
  · exact tableAux_row_length m loc b a _ _ (row0_length m loc b) r hr

/-! ## Element access -/

theorem tableAux_zero (m : Mat) (loc : Bool) (b : Bytes) (a : Bytes) (prev : List Cell)
    (first : Bool) (x : UInt8) (h : a[0]? = some x) :
    (tableAux m loc b prev first a)[0]? = some (nextRow m loc x first prev b) := by
  cases a with
  | nil => simp at h
  | cons x0 xs => simp at h; subst h; simp [tableAux]

theorem tableAux_succ (m : Mat) (loc : Bool) (b : Bytes) :
    ∀ (a : Bytes) (prev : List Cell) (first : Bool) (k : Nat) (x : UInt8), a[k + 1]? = some x →
      (tableAux m loc b prev first a)[k + 1]? =
        some (nextRow m loc x false ((tableAux m loc b prev first a)[k]?.getD []) b)
  | [], _, _, _, _, h => by simp at h
  | x0 :: xs, prev, first, 0, x, h => by
    simp only [List.getElem?_cons_succ] at h
    simp only [tableAux, List.getElem?_cons_succ, List.getElem?_cons_zero, Option.getD_some]
    exact tableAux_zero m loc b xs _ _ x h
  | x0 :: xs, prev, first, k + 1, x, h => by
    simp only [List.getElem?_cons_succ] at h
    simp only [tableAux, List.getElem?_cons_succ]
    exact tableAux_succ m loc b xs _ _ k x h

theorem table_row_zero (m : Mat) (loc : Bool) (a b : Bytes) :
    (table m loc a b)[0]? = some (row0 m loc b) := by
  simp [table]

theorem table_row_succ (m : Mat) (loc : Bool) (a b : Bytes) (i : Nat) (x : UInt8)
    (h : a[i]? = some x) :
    (table m loc a b)[i + 1]? =
      some (nextRow m loc x (i == 0) ((table m loc a b)[i]?.getD []) b) := by
  cases i with
  | zero =>
    simp only [table, List.getElem?_cons_succ, List.getElem?_cons_zero, Option.getD_some]
    exact tableAux_zero m loc b a _ _ x h
  | succ k =>
    simp only [table, List.getElem?_cons_succ]
    have := tableAux_succ m loc b a (row0 m loc b) true k x h
    simpa using this

theorem row0Aux_zero (m : Mat) (loc : Bool) (b : Bytes) (prev : Int) (first : Bool) (y : UInt8)
    (h : b[0]? = some y) :
    (row0Aux m loc prev first b)[0]? =
      some (clamp loc ⟨prev + m GAP y + (if first then m GAP GAP else 0), .ins⟩) := by
  cases b with
  | nil => simp at h
  | cons y0 ys => simp at h; subst h; simp [row0Aux]

theorem row0Aux_succ (m : Mat) (loc : Bool) :
    ∀ (b : Bytes) (prev : Int) (first : Bool) (k : Nat) (y : UInt8), b[k + 1]? = some y →
      (row0Aux m loc prev first b)[k + 1]? =
        some (clamp loc ⟨((row0Aux m loc prev first b)[k]?.getD ⟨0, .none⟩).score + m GAP y, .ins⟩)
  | [], _, _, _, _, h => by simp at h
  | y0 :: ys, prev, first, 0, y, h => by
    simp only [List.getElem?_cons_succ] at h
    simp only [row0Aux, List.getElem?_cons_succ, List.getElem?_cons_zero, Option.getD_some]
    rw [row0Aux_zero m loc ys _ _ y h]
    simp
  | y0 :: ys, prev, first, k + 1, y, h => by
    simp only [List.getElem?_cons_succ] at h
    simp only [row0Aux, List.getElem?_cons_succ]
    exact row0Aux_succ m loc ys _ _ k y h

theorem row0_zero (m : Mat) (loc : Bool) (b : Bytes) : (row0 m loc b)[0]? = some ⟨0, .none⟩ := by
  simp [row0]

theorem row0_succ (m : Mat) (loc : Bool) (b : Bytes) (j : Nat) (y : UInt8) (h : b[j]? = some y) :
    (row0 m loc b)[j + 1]? =
      some (clamp loc ⟨((row0 m loc b)[j]?.getD ⟨0, .none⟩).score + m GAP y
        + (if j = 0 then m GAP GAP else 0), .ins⟩) := by
  cases j with
  | zero =>
    simp only [row0, List.getElem?_cons_succ, List.getElem?_cons_zero, Option.getD_some]
    rw [row0Aux_zero m loc b _ _ y h]
    simp
  | succ k =>
    simp only [row0, List.getElem?_cons_succ]
    rw [row0Aux_succ m loc b _ _ k y h]
    simp

theorem rowAux_zero (m : Mat) (loc : Bool) (x : UInt8) (left diag : Cell) (ups : List Cell)
    (ys : Bytes) (y : UInt8) (up : Cell) (hy : ys[0]? = some y) (hu : ups[0]? = some up) :
    (rowAux m loc x left diag ups ys)[0]? = some (stepCell m loc x y diag up left) := by
  cases ys with
  | nil => simp at hy
  | cons y0 ys =>
    cases ups with
    | nil => simp at hu
    | cons u0 us =>
      simp at hy hu; subst hy; subst hu
      simp [rowAux, stepCell]

theorem rowAux_succ (m : Mat) (loc : Bool) (x : UInt8) :
    ∀ (ups : List Cell) (ys : Bytes) (left diag : Cell) (k : Nat) (y : UInt8) (up d : Cell),
      ys[k + 1]? = some y → ups[k + 1]? = some up → ups[k]? = some d →
      (rowAux m loc x left diag ups ys)[k + 1]? =
        some (stepCell m loc x y d up
          ((rowAux m loc x left diag ups ys)[k]?.getD ⟨0, .none⟩))
  | [], _, _, _, _, _, _, _, _, hu, _ => by simp at hu
  | _ :: _, [], _, _, _, _, _, _, hy, _, _ => by simp at hy
  | u0 :: us, y0 :: ys, left, diag, 0, y, up, d, hy, hu, hd => by
    simp only [List.getElem?_cons_succ] at hy hu
    simp only [List.getElem?_cons_zero, Option.some.injEq] at hd
    subst hd
    simp only [rowAux, List.getElem?_cons_succ, List.getElem?_cons_zero, Option.getD_some]
    exact rowAux_zero m loc x _ _ us ys y up hy hu
  | u0 :: us, y0 :: ys, left, diag, k + 1, y, up, d, hy, hu, hd => by
    simp only [List.getElem?_cons_succ] at hy hu hd
    simp only [rowAux, List.getElem?_cons_succ]
    exact rowAux_succ m loc x us ys _ _ k y up d hy hu hd

theorem nextRow_zero (m : Mat) (loc : Bool) (x : UInt8) (first : Bool) (prev : List Cell)
    (b : Bytes) (up0 : Cell) (h : prev[0]? = some up0) :
    (nextRow m loc x first prev b)[0]? =
      some (clamp loc ⟨up0.score + m x GAP + (if first then m GAP GAP else 0), .del⟩) := by
  cases prev with
  | nil => simp at h
  | cons u us => simp at h; subst h; simp [nextRow]

theorem nextRow_succ (m : Mat) (loc : Bool) (x : UInt8) (first : Bool) (prev : List Cell)
    (b : Bytes) (j : Nat) (y : UInt8) (d up : Cell)
    (hy : b[j]? = some y) (hd : prev[j]? = some d) (hu : prev[j + 1]? = some up) :
    (nextRow m loc x first prev b)[j + 1]? =
      some (stepCell m loc x y d up ((nextRow m loc x first prev b)[j]?.getD ⟨0, .none⟩)) := by
  cases prev with
  | nil => simp at hd
  | cons u0 us =>
    simp only [List.getElem?_cons_succ] at hu
    cases j with
    | zero =>
      simp only [List.getElem?_cons_zero, Option.some.injEq] at hd
      subst hd
      simp only [nextRow, List.getElem?_cons_succ, List.getElem?_cons_zero, Option.getD_some]
      exact rowAux_zero m loc x _ _ us b y up hy hu
    | succ k =>
      simp only [List.getElem?_cons_succ] at hd
      simp only [nextRow, List.getElem?_cons_succ]
      exact rowAux_succ m loc x us b _ _ k y up d hy hu hd

/-! ## Cell recurrences -/

theorem table_getElem?_of_le (m : Mat) (loc : Bool) (a b : Bytes) (i : Nat) (hi : i ≤ a.length) :
    ∃ r, (table m loc a b)[i]? = some r ∧ r.length = b.length + 1 := by
  have hlt : i < (table m loc a b).length := by rw [table_length]; omega
  refine ⟨(table m loc a b)[i], List.getElem?_eq_getElem hlt, ?_⟩
  exact table_row_length m loc a b _ (List.getElem_mem hlt)

/-- In range, `cellAt` is a genuine element of the table. -/
theorem cellAt_spec (m : Mat) (loc : Bool) (a b : Bytes) (i j : Nat) (hi : i ≤ a.length)
    (hj : j ≤ b.length) :
    ∃ r, (table m loc a b)[i]? = some r ∧ r[j]? = some (cellAt (table m loc a b) i j) := by
  obtain ⟨r, hr, hl⟩ := table_getElem?_of_le m loc a b i hi
  refine ⟨r, hr, ?_⟩
  have hlt : j < r.length := by omega
  simp [cellAt, hr, List.getElem?_eq_getElem hlt]

theorem cellAt_zero_zero (m : Mat) (loc : Bool) (a b : Bytes) :
    cellAt (table m loc a b) 0 0 = ⟨0, .none⟩ := by
  simp [cellAt, table, row0]

theorem cellAt_zero_succ (m : Mat) (loc : Bool) (a b : Bytes) (j : Nat) (y : UInt8)
    (hy : b[j]? = some y) :
    cellAt (table m loc a b) 0 (j + 1) =
      clamp loc ⟨(cellAt (table m loc a b) 0 j).score + m GAP y
        + (if j = 0 then m GAP GAP else 0), .ins⟩ := by
  simp only [cellAt, table_row_zero, Option.getD_some]
  rw [row0_succ m loc b j y hy]
  simp

theorem cellAt_succ_zero (m : Mat) (loc : Bool) (a b : Bytes) (i : Nat) (x : UInt8)
    (hx : a[i]? = some x) :
    cellAt (table m loc a b) (i + 1) 0 =
      clamp loc ⟨(cellAt (table m loc a b) i 0).score + m x GAP
        + (if i = 0 then m GAP GAP else 0), .del⟩ := by
  have hi : i ≤ a.length := by
    have := (List.getElem?_eq_some_iff.mp hx).1; omega
  obtain ⟨r, hr, hc⟩ := cellAt_spec m loc a b i 0 hi (Nat.zero_le _)
  rw [← show ((table m loc a b)[i]?.getD [])[0]?.getD ⟨0, .none⟩ = cellAt (table m loc a b) i 0
    from rfl] at *
  simp only [cellAt, table_row_succ m loc a b i x hx, Option.getD_some]
  rw [hr] at hc ⊢
  simp only [Option.getD_some] at hc ⊢
  rw [nextRow_zero m loc x _ r b _ hc]
  simp

theorem cellAt_succ_succ (m : Mat) (loc : Bool) (a b : Bytes) (i j : Nat) (x y : UInt8)
    (hx : a[i]? = some x) (hy : b[j]? = some y) :
    cellAt (table m loc a b) (i + 1) (j + 1) =
      stepCell m loc x y (cellAt (table m loc a b) i j) (cellAt (table m loc a b) i (j + 1))
        (cellAt (table m loc a b) (i + 1) j) := by
  have hi : i ≤ a.length := by
    have := (List.getElem?_eq_some_iff.mp hx).1; omega
  have hj : j + 1 ≤ b.length := by
    have := (List.getElem?_eq_some_iff.mp hy).1; omega
  obtain ⟨r, hr, hd⟩ := cellAt_spec m loc a b i j hi (by omega)
  obtain ⟨r', hr', hu⟩ := cellAt_spec m loc a b i (j + 1) hi hj
  rw [hr] at hr'; cases hr'
  have hrow := table_row_succ m loc a b i x hx
  rw [hr] at hrow
  simp only [Option.getD_some] at hrow
  have h1 : cellAt (table m loc a b) (i + 1) (j + 1) =
      ((nextRow m loc x (i == 0) r b)[j + 1]?).getD ⟨0, .none⟩ := by
    simp [cellAt, hrow]
  have h2 : cellAt (table m loc a b) (i + 1) j =
      ((nextRow m loc x (i == 0) r b)[j]?).getD ⟨0, .none⟩ := by
    simp [cellAt, hrow]
  rw [h1, h2, nextRow_succ m loc x _ r b j y _ _ hy hd hu]
  simp

/-! ## Algebra of `rescore` -/

/-- The step preceding position `|p|` when `p` has been applied after `prev`. -/
def lastStep (prev : Step) (p : List Step) : Step := p.getLast?.getD prev

@[simp] theorem lastStep_nil (prev : Step) : lastStep prev [] = prev := rfl
@[simp] theorem lastStep_cons (prev s : Step) (p : List Step) :
    lastStep prev (s :: p) = lastStep s p := by
  cases p with
  | nil => simp [lastStep]
  | cons t p =>
    simp only [lastStep, List.getLast?_cons_cons]
    rcases h : (t :: p).getLast? with _ | v
    · simp at h
    · simp

/-- Cost of one gap step given the previous step. -/
def openIf (m : Mat) (prev kind : Step) : Int := if prev != kind then m GAP GAP else 0

theorem rescore_nil (m : Mat) (prev : Step) (a b : Bytes) : rescore m prev a b [] = some (0, a, b) := by
  simp [rescore]

theorem rescore_mch (m : Mat) (prev : Step) (x y : UInt8) (a b : Bytes) (s : List Step) :
    rescore m prev (x :: a) (y :: b) (.mch :: s) =
      (rescore m .mch a b s).map fun r => (m x y + r.1, r.2) := by
  simp [rescore]

theorem rescore_del (m : Mat) (prev : Step) (x : UInt8) (a b : Bytes) (s : List Step) :
    rescore m prev (x :: a) b (.del :: s) =
      (rescore m .del a b s).map fun r => (m x GAP + openIf m prev .del + r.1, r.2) := by
  cases b <;> simp [rescore, openIf]

theorem rescore_ins (m : Mat) (prev : Step) (y : UInt8) (a b : Bytes) (s : List Step) :
    rescore m prev a (y :: b) (.ins :: s) =
      (rescore m .ins a b s).map fun r => (m GAP y + openIf m prev .ins + r.1, r.2) := by
  cases a <;> simp [rescore, openIf]

theorem rescore_append (m : Mat) : ∀ (p : List Step) (prev : Step) (a b : Bytes) (q : List Step),
    rescore m prev a b (p ++ q) =
      (rescore m prev a b p).bind fun r =>
        (rescore m (lastStep prev p) r.2.1 r.2.2 q).map fun r' => (r.1 + r'.1, r'.2)
  | [], prev, a, b, q => by
    simp [rescore]
  | .none :: p, prev, a, b, q => by simp [rescore]
  | .mch :: p, prev, [], b, q => by simp [rescore]
  | .mch :: p, prev, _ :: _, [], q => by simp [rescore]
  | .mch :: p, prev, x :: a, y :: b, q => by
    rw [List.cons_append, rescore_mch, rescore_mch, rescore_append m p]
    cases rescore m .mch a b p <;> simp [Int.add_assoc, Function.comp_def]
  | .del :: p, prev, [], b, q => by cases b <;> simp [rescore]
  | .del :: p, prev, x :: a, b, q => by
    rw [List.cons_append, rescore_del, rescore_del, rescore_append m p]
    cases rescore m .del a b p <;> simp [Int.add_assoc, Function.comp_def]
  | .ins :: p, prev, a, [], q => by cases a <;> simp [rescore]
  | .ins :: p, prev, a, y :: b, q => by
    rw [List.cons_append, rescore_ins, rescore_ins, rescore_append m p]
    cases rescore m .ins a b p <;> simp [Int.add_assoc, Function.comp_def]

theorem rescore_frame (m : Mat) : ∀ (p : List Step) (prev : Step) (a b a' b' ra rb : Bytes) (s : Int),
    rescore m prev a b p = some (s, ra, rb) →
    rescore m prev (a ++ a') (b ++ b') p = some (s, ra ++ a', rb ++ b')
  | [], prev, a, b, a', b', ra, rb, s, h => by
    simp [rescore] at h ⊢
    obtain ⟨rfl, rfl, rfl⟩ := h
    simp
  | .none :: p, prev, a, b, _, _, _, _, _, h => by simp [rescore] at h
  | .mch :: p, prev, [], b,  _, _, _, _, _, h => by simp [rescore] at h
  | .mch :: p, prev, _ :: _, [],  _, _, _, _, _, h => by simp [rescore] at h
  | .mch :: p, prev, x :: a, y :: b, a', b', ra, rb, s, h => by
    rw [rescore_mch] at h
    rw [List.cons_append, List.cons_append, rescore_mch]
    rcases hr : rescore m .mch a b p with _ | ⟨s1, ra1, rb1⟩
    · simp [hr] at h
    · rw [rescore_frame m p _ _ _ a' b' _ _ _ hr]
      simp [hr] at h ⊢
      simpa using h
  | .del :: p, prev, [], b,  _, _, _, _, _, h => by cases b <;> simp [rescore] at h
  | .del :: p, prev, x :: a, b, a', b', ra, rb, s, h => by
    rw [rescore_del] at h
    rw [List.cons_append, rescore_del]
    rcases hr : rescore m .del a b p with _ | ⟨s1, ra1, rb1⟩
    · simp [hr] at h
    · rw [rescore_frame m p _ _ _ a' b' _ _ _ hr]
      simp [hr] at h ⊢
      simpa using h
  | .ins :: p, prev, a, [],  _, _, _, _, _, h => by cases a <;> simp [rescore] at h
  | .ins :: p, prev, a, y :: b, a', b', ra, rb, s, h => by
    rw [rescore_ins] at h
    rw [List.cons_append, rescore_ins]
    rcases hr : rescore m .ins a b p with _ | ⟨s1, ra1, rb1⟩
    · simp [hr] at h
    · rw [rescore_frame m p _ _ _ a' b' _ _ _ hr]
      simp [hr] at h ⊢
      simpa using h


theorem lastStep_append_singleton (prev s : Step) (p : List Step) : lastStep prev (p ++ [s]) = s := by
  simp [lastStep]

theorem lastStep_reverse (prev : Step) (p : List Step) :
    lastStep prev p.reverse = p.head?.getD prev := by
  simp [lastStep]

theorem rescore_snoc_mch (m : Mat) (prev : Step) (a b : Bytes) (p : List Step) (s : Int)
    (x y : UInt8) (h : rescore m prev a b p = some (s, [], [])) :
    rescore m prev (a ++ [x]) (b ++ [y]) (p ++ [.mch]) = some (s + m x y, [], []) := by
  rw [rescore_append, rescore_frame m p prev a b [x] [y] _ _ _ h]
  simp [rescore]

theorem rescore_snoc_del (m : Mat) (prev : Step) (a b : Bytes) (p : List Step) (s : Int)
    (x : UInt8) (h : rescore m prev a b p = some (s, [], [])) :
    rescore m prev (a ++ [x]) b (p ++ [.del]) =
      some (s + m x GAP + openIf m (lastStep prev p) .del, [], []) := by
  have := rescore_frame m p prev a b [x] [] _ _ _ h
  simp only [List.append_nil] at this
  rw [rescore_append, this]
  simp [rescore, openIf, Int.add_assoc]

theorem rescore_snoc_ins (m : Mat) (prev : Step) (a b : Bytes) (p : List Step) (s : Int)
    (y : UInt8) (h : rescore m prev a b p = some (s, [], [])) :
    rescore m prev a (b ++ [y]) (p ++ [.ins]) =
      some (s + m GAP y + openIf m (lastStep prev p) .ins, [], []) := by
  have := rescore_frame m p prev a b [] [y] _ _ _ h
  simp only [List.append_nil] at this
  rw [rescore_append, this]
  simp [rescore, openIf, Int.add_assoc]

/-! ## decideOnStep -/

theorem decideOnStep_cases (mc dl is : Int) :
    (decideOnStep mc dl is = ⟨mc, .mch⟩) ∨ (decideOnStep mc dl is = ⟨dl, .del⟩) ∨
    (decideOnStep mc dl is = ⟨is, .ins⟩) := by
  unfold decideOnStep
  split
  · exact Or.inl rfl
  · split
    · exact Or.inr (Or.inl rfl)
    · exact Or.inr (Or.inr rfl)

@[simp] theorem clamp_false (c : Cell) : clamp false c = c := by simp [clamp]

/-! ## Global table: unified recurrences -/

theorem g_zero_succ (m : Mat) (a b : Bytes) (j : Nat) (y : UInt8) (hy : b[j]? = some y) :
    cellAt (table m false a b) 0 (j + 1) =
      ⟨(cellAt (table m false a b) 0 j).score + m GAP y
        + openIf m (cellAt (table m false a b) 0 j).step .ins, .ins⟩ := by
  rw [cellAt_zero_succ m false a b j y hy, clamp_false]
  cases j with
  | zero => simp [cellAt_zero_zero, openIf]
  | succ k =>
    have : k < b.length := by have := (List.getElem?_eq_some_iff.mp hy).1; omega
    rw [cellAt_zero_succ m false a b k b[k] (List.getElem?_eq_getElem this)]
    simp [openIf]

theorem g_succ_zero (m : Mat) (a b : Bytes) (i : Nat) (x : UInt8) (hx : a[i]? = some x) :
    cellAt (table m false a b) (i + 1) 0 =
      ⟨(cellAt (table m false a b) i 0).score + m x GAP
        + openIf m (cellAt (table m false a b) i 0).step .del, .del⟩ := by
  rw [cellAt_succ_zero m false a b i x hx, clamp_false]
  cases i with
  | zero => simp [cellAt_zero_zero, openIf]
  | succ k =>
    have : k < a.length := by have := (List.getElem?_eq_some_iff.mp hx).1; omega
    rw [cellAt_succ_zero m false a b k a[k] (List.getElem?_eq_getElem this)]
    simp [openIf]

theorem stepCell_eq (m : Mat) (loc : Bool) (x y : UInt8) (d u l : Cell) :
    stepCell m loc x y d u l = clamp loc (decideOnStep (d.score + m x y)
      (u.score + m x GAP + openIf m u.step .del) (l.score + m GAP y + openIf m l.step .ins)) := rfl

/-! ## traceG unfolding -/

theorem traceG_zero (t : List (List Cell)) (fuel : Nat) : traceG t fuel 0 0 = [] := by
  cases fuel <;> simp [traceG]

theorem traceG_step (t : List (List Cell)) (fuel i j : Nat) (h : ¬ (i = 0 ∧ j = 0)) :
    traceG t (fuel + 1) i j =
      match (cellAt t i j).step with
      | .mch => .mch :: traceG t fuel (i - 1) (j - 1)
      | .del => .del :: traceG t fuel (i - 1) j
      | .ins => .ins :: traceG t fuel i (j - 1)
      | .none => [] := by
  have : (i == 0 && j == 0) = false := by
    simp only [Bool.and_eq_false_iff, beq_eq_false_iff_ne]; omega
  simp only [traceG, this]
  cases (cellAt t i j).step <;> simp

theorem take_succ_of_getElem? {α} (l : List α) (i : Nat) (x : α) (h : l[i]? = some x) :
    l.take (i + 1) = l.take i ++ [x] := by
  rw [List.take_add_one, h]; rfl

theorem global_inv (m : Mat) (a b : Bytes) : ∀ (fuel i j : Nat), i ≤ a.length → j ≤ b.length →
    i + j ≤ fuel →
    rescore m .none (a.take i) (b.take j) (traceG (table m false a b) fuel i j).reverse =
        some ((cellAt (table m false a b) i j).score, [], []) ∧
      lastStep .none (traceG (table m false a b) fuel i j).reverse =
        (cellAt (table m false a b) i j).step := by
  intro fuel
  induction fuel with
  | zero =>
    intro i j _ _ h
    have hi : i = 0 := by omega
    have hj : j = 0 := by omega
    subst hi; subst hj
    simp [traceG_zero, cellAt_zero_zero, rescore]
  | succ fuel ih =>
    intro i j hi hj hf
    match i, j with
    | 0, 0 => simp [traceG_zero, cellAt_zero_zero, rescore]
    | 0, j + 1 =>
      have hjl : j < b.length := by omega
      have hy := List.getElem?_eq_getElem hjl
      have hc := g_zero_succ m a b j _ hy
      obtain ⟨ih1, ih2⟩ := ih 0 j hi (by omega) (by omega)
      rw [traceG_step _ _ _ _ (by omega), hc]
      simp only [Nat.add_sub_cancel, List.reverse_cons]
      rw [take_succ_of_getElem? b j _ hy]
      refine ⟨?_, lastStep_append_singleton _ _ _⟩
      rw [rescore_snoc_ins m _ _ _ _ _ _ ih1, ih2]
    | i + 1, 0 =>
      have hil : i < a.length := by omega
      have hx := List.getElem?_eq_getElem hil
      have hc := g_succ_zero m a b i _ hx
      obtain ⟨ih1, ih2⟩ := ih i 0 (by omega) hj (by omega)
      rw [traceG_step _ _ _ _ (by omega), hc]
      simp only [Nat.add_sub_cancel, List.reverse_cons]
      rw [take_succ_of_getElem? a i _ hx]
      refine ⟨?_, lastStep_append_singleton _ _ _⟩
      rw [rescore_snoc_del m _ _ _ _ _ _ ih1, ih2]
    | i + 1, j + 1 =>
      have hil : i < a.length := by omega
      have hx := List.getElem?_eq_getElem hil
      have hjl : j < b.length := by omega
      have hy := List.getElem?_eq_getElem hjl
      have hc := cellAt_succ_succ m false a b i j _ _ hx hy
      rw [stepCell_eq, clamp_false] at hc
      rw [traceG_step _ _ _ _ (by omega)]
      rcases decideOnStep_cases (((cellAt (table m false a b) i j)).score + m a[i] b[j])
        ((cellAt (table m false a b) i (j + 1)).score + m a[i] GAP
          + openIf m (cellAt (table m false a b) i (j + 1)).step .del)
        ((cellAt (table m false a b) (i + 1) j).score + m GAP b[j]
          + openIf m (cellAt (table m false a b) (i + 1) j).step .ins) with hd | hd | hd
      · rw [hd] at hc
        obtain ⟨ih1, ih2⟩ := ih i j (by omega) (by omega) (by omega)
        rw [hc]
        simp only [Nat.add_sub_cancel, List.reverse_cons]
        rw [take_succ_of_getElem? a i _ hx, take_succ_of_getElem? b j _ hy]
        refine ⟨?_, lastStep_append_singleton _ _ _⟩
        rw [rescore_snoc_mch m _ _ _ _ _ _ _ ih1]
      · rw [hd] at hc
        obtain ⟨ih1, ih2⟩ := ih i (j + 1) (by omega) (by omega) (by omega)
        rw [hc]
        simp only [Nat.add_sub_cancel, List.reverse_cons]
        rw [take_succ_of_getElem? a i _ hx]
        refine ⟨?_, lastStep_append_singleton _ _ _⟩
        rw [rescore_snoc_del m _ _ _ _ _ _ ih1, ih2]
      · rw [hd] at hc
        obtain ⟨ih1, ih2⟩ := ih (i + 1) j (by omega) (by omega) (by omega)
        rw [hc]
        simp only [Nat.add_sub_cancel, List.reverse_cons]
        rw [take_succ_of_getElem? b j _ hy]
        refine ⟨?_, lastStep_append_singleton _ _ _⟩
        rw [rescore_snoc_ins m _ _ _ _ _ _ ih1, ih2]


/-! ## argmax -/

theorem argmaxRow_nil (i j0 : Nat) (best : Nat × Nat × Int) : argmaxRow [] i j0 best = best := rfl

theorem argmaxRow_cons (c : Cell) (cs : List Cell) (i j0 : Nat) (best : Nat × Nat × Int) :
    argmaxRow (c :: cs) i j0 best =
      argmaxRow cs i (j0 + 1) (if c.score > best.2.2 then (i, j0, c.score) else best) := rfl

theorem argmaxRow_spec (i : Nat) : ∀ (row : List Cell) (j0 : Nat) (best : Nat × Nat × Int),
    best.2.2 ≤ (argmaxRow row i j0 best).2.2 ∧
    (∀ (k : Nat) (c : Cell), row[k]? = some c → c.score ≤ (argmaxRow row i j0 best).2.2) ∧
    (argmaxRow row i j0 best = best ∨
      ∃ (k : Nat) (c : Cell), row[k]? = some c ∧ argmaxRow row i j0 best = (i, j0 + k, c.score))
  | [], j0, best => by simp [argmaxRow_nil]
  | c :: cs, j0, best => by
    rw [argmaxRow_cons]
    obtain ⟨h1, h2, h3⟩ := argmaxRow_spec i cs (j0 + 1)
      (if c.score > best.2.2 then (i, j0, c.score) else best)
    by_cases hc : c.score > best.2.2
    · simp only [hc, ↓reduceIte] at h1 h2 h3 ⊢
      refine ⟨by omega, ?_, ?_⟩
      · intro k c' hk
        cases k with
        | zero => simp at hk; subst hk; exact h1
        | succ k => exact h2 k c' (by simpa using hk)
      · rcases h3 with h3 | ⟨k, c', hk, h3⟩
        · exact Or.inr ⟨0, c, by simp, by simp [h3]⟩
        · exact Or.inr ⟨k + 1, c', by simpa using hk, by rw [h3]; simp; omega⟩
    · simp only [hc, ↓reduceIte] at h1 h2 h3 ⊢
      refine ⟨h1, ?_, ?_⟩
      · intro k c' hk
        cases k with
        | zero => simp at hk; subst hk; omega
        | succ k => exact h2 k c' (by simpa using hk)
      · rcases h3 with h3 | ⟨k, c', hk, h3⟩
        · exact Or.inl h3
        · exact Or.inr ⟨k + 1, c', by simpa using hk, by rw [h3]; simp; omega⟩

def argmaxAux (rows : List (List Cell)) (i0 : Nat) (best : Nat × Nat × Int) : Nat × Nat × Int :=
  (rows.foldl (fun (st : Nat × (Nat × Nat × Int)) row =>
      (st.1 + 1, argmaxRow row st.1 0 st.2)) (i0, best)).2

theorem argmax_eq (t : List (List Cell)) : argmax t = argmaxAux t 0 (0, 0, (cellAt t 0 0).score) := rfl

theorem argmaxAux_nil (i0 : Nat) (best : Nat × Nat × Int) : argmaxAux [] i0 best = best := rfl

theorem argmaxAux_cons (row : List Cell) (rows : List (List Cell)) (i0 : Nat)
    (best : Nat × Nat × Int) :
    argmaxAux (row :: rows) i0 best = argmaxAux rows (i0 + 1) (argmaxRow row i0 0 best) := rfl

theorem argmaxAux_spec : ∀ (rows : List (List Cell)) (i0 : Nat) (best : Nat × Nat × Int),
    best.2.2 ≤ (argmaxAux rows i0 best).2.2 ∧
    (∀ (k : Nat) (row : List Cell) (j : Nat) (c : Cell), rows[k]? = some row → row[j]? = some c →
      c.score ≤ (argmaxAux rows i0 best).2.2) ∧
    (argmaxAux rows i0 best = best ∨
      ∃ (k : Nat) (row : List Cell) (j : Nat) (c : Cell), rows[k]? = some row ∧ row[j]? = some c ∧
        argmaxAux rows i0 best = (i0 + k, j, c.score))
  | [], i0, best => by simp [argmaxAux_nil]
  | row :: rows, i0, best => by
    rw [argmaxAux_cons]
    obtain ⟨h1, h2, h3⟩ := argmaxAux_spec rows (i0 + 1) (argmaxRow row i0 0 best)
    obtain ⟨r1, r2, r3⟩ := argmaxRow_spec i0 row 0 best
    refine ⟨by omega, ?_, ?_⟩
    · intro k row' j c hk hj
      cases k with
      | zero =>
        simp at hk; subst hk
        have := r2 j c hj; omega
      | succ k => exact h2 k row' j c (by simpa using hk) hj
    · rcases h3 with h3 | ⟨k, row', j, c, hk, hj, h3⟩
      · rw [h3]
        rcases r3 with r3 | ⟨j, c, hj, r3⟩
        · exact Or.inl r3
        · exact Or.inr ⟨0, row, j, c, by simp, hj, by rw [r3]; simp⟩
      · exact Or.inr ⟨k + 1, row', j, c, by simpa using hk, hj, by rw [h3]; simp; omega⟩

theorem cellAt_of_getElem? (t : List (List Cell)) (i j : Nat) (row : List Cell) (c : Cell)
    (hi : t[i]? = some row) (hj : row[j]? = some c) : cellAt t i j = c := by
  simp [cellAt, hi, hj]

/-- `argmax` returns a cell's own score, that cell is `(0,0)` or in range, and it
dominates every in-range cell and cell `(0,0)`. -/
theorem argmax_spec (t : List (List Cell)) :
    (argmax t).2.2 = (cellAt t (argmax t).1 (argmax t).2.1).score ∧
    (cellAt t 0 0).score ≤ (argmax t).2.2 ∧
    (∀ (i : Nat) (row : List Cell) (j : Nat) (c : Cell), t[i]? = some row → row[j]? = some c → c.score ≤ (argmax t).2.2) ∧
    (((argmax t).1 = 0 ∧ (argmax t).2.1 = 0) ∨
      ∃ (row : List Cell) (c : Cell), t[(argmax t).1]? = some row ∧ row[(argmax t).2.1]? = some c) := by
  rw [argmax_eq]
  obtain ⟨h1, h2, h3⟩ := argmaxAux_spec t 0 (0, 0, (cellAt t 0 0).score)
  refine ⟨?_, h1, h2, ?_⟩
  · rcases h3 with h3 | ⟨k, row, j, c, hk, hj, h3⟩
    · rw [h3]
    · rw [h3]; simp [cellAt_of_getElem? t k j row c hk hj]
  · rcases h3 with h3 | ⟨k, row, j, c, hk, hj, h3⟩
    · rw [h3]; exact Or.inl ⟨rfl, rfl⟩
    · rw [h3]; exact Or.inr ⟨row, c, by simpa using hk, by simpa using hj⟩


/-! ## Local table -/

def gapScoresNonPos (m : Mat) (a b : Bytes) : Prop :=
  m GAP GAP ≤ 0 ∧ (∀ x ∈ a, m x GAP ≤ 0) ∧ (∀ y ∈ b, m GAP y ≤ 0)

theorem clamp_true_nonneg (c : Cell) : 0 ≤ (clamp true c).score := by
  unfold clamp
  by_cases h : c.score < 0 <;> simp [h]
  omega

theorem clamp_true_of_nonpos (c : Cell) (h : c.score ≤ 0) : (clamp true c).score = 0 := by
  unfold clamp
  by_cases h' : c.score < 0 <;> simp [h']
  omega

theorem clamp_true_of_pos (c : Cell) (h : 0 < (clamp true c).score) : clamp true c = c := by
  unfold clamp at h ⊢
  by_cases h' : c.score < 0 <;> simp [h'] at h ⊢

theorem local_cell_nonneg (m : Mat) (a b : Bytes) (i j : Nat) (hi : i ≤ a.length)
    (hj : j ≤ b.length) : 0 ≤ (cellAt (table m true a b) i j).score := by
  match i, j with
  | 0, 0 => simp [cellAt_zero_zero]
  | 0, j + 1 =>
    have hjl : j < b.length := by omega
    rw [cellAt_zero_succ m true a b j _ (List.getElem?_eq_getElem hjl)]
    exact clamp_true_nonneg _
  | i + 1, 0 =>
    have hil : i < a.length := by omega
    rw [cellAt_succ_zero m true a b i _ (List.getElem?_eq_getElem hil)]
    exact clamp_true_nonneg _
  | i + 1, j + 1 =>
    have hil : i < a.length := by omega
    have hjl : j < b.length := by omega
    rw [cellAt_succ_succ m true a b i j _ _ (List.getElem?_eq_getElem hil)
      (List.getElem?_eq_getElem hjl)]
    exact clamp_true_nonneg _

theorem openIf_nonpos (m : Mat) (h : m GAP GAP ≤ 0) (p k : Step) : openIf m p k ≤ 0 := by
  unfold openIf; split <;> omega

theorem local_row0_zero (m : Mat) (a b : Bytes) (hg : gapScoresNonPos m a b) :
    ∀ j, j ≤ b.length → (cellAt (table m true a b) 0 j).score = 0
  | 0, _ => by simp [cellAt_zero_zero]
  | j + 1, hj => by
    have hjl : j < b.length := by omega
    rw [cellAt_zero_succ m true a b j _ (List.getElem?_eq_getElem hjl)]
    apply clamp_true_of_nonpos
    have h0 := local_row0_zero m a b hg j (by omega)
    have h1 := hg.2.2 b[j] (List.getElem_mem hjl)
    have h2 := hg.1
    simp only [h0]
    split <;> omega

theorem local_col0_zero (m : Mat) (a b : Bytes) (hg : gapScoresNonPos m a b) :
    ∀ i, i ≤ a.length → (cellAt (table m true a b) i 0).score = 0
  | 0, _ => by simp [cellAt_zero_zero]
  | i + 1, hi => by
    have hil : i < a.length := by omega
    rw [cellAt_succ_zero m true a b i _ (List.getElem?_eq_getElem hil)]
    apply clamp_true_of_nonpos
    have h0 := local_col0_zero m a b hg i (by omega)
    have h1 := hg.2.1 a[i] (List.getElem_mem hil)
    have h2 := hg.1
    simp only [h0]
    split <;> omega

/-! ## traceL unfolding -/

theorem traceL_of_zero (t : List (List Cell)) (fuel i j : Nat) (last : Nat × Nat)
    (h : (cellAt t i j).score = 0) : traceL t fuel i j last = ([], last) := by
  cases fuel with
  | zero => rfl
  | succ fuel =>
    simp only [traceL, h]
    simp

theorem traceL_mch (t : List (List Cell)) (fuel i j : Nat) (last : Nat × Nat)
    (hij : ¬ (i = 0 ∧ j = 0)) (h : (cellAt t i j).score ≠ 0) (hs : (cellAt t i j).step = .mch) :
    traceL t (fuel + 1) i j last =
      (.mch :: (traceL t fuel (i - 1) (j - 1) (i, j)).1, (traceL t fuel (i - 1) (j - 1) (i, j)).2) := by
  have h1 : (i == 0 && j == 0) = false := by
    simp only [Bool.and_eq_false_iff, beq_eq_false_iff_ne]; omega
  have h2 : ((cellAt t i j).score == 0) = false := by simpa using h
  simp [traceL, h1, h2, hs]

theorem traceL_del (t : List (List Cell)) (fuel i j : Nat) (last : Nat × Nat)
    (hij : ¬ (i = 0 ∧ j = 0)) (h : (cellAt t i j).score ≠ 0) (hs : (cellAt t i j).step = .del) :
    traceL t (fuel + 1) i j last =
      (.del :: (traceL t fuel (i - 1) j (i, j)).1, (traceL t fuel (i - 1) j (i, j)).2) := by
  have h1 : (i == 0 && j == 0) = false := by
    simp only [Bool.and_eq_false_iff, beq_eq_false_iff_ne]; omega
  have h2 : ((cellAt t i j).score == 0) = false := by simpa using h
  simp [traceL, h1, h2, hs]

theorem traceL_ins (t : List (List Cell)) (fuel i j : Nat) (last : Nat × Nat)
    (hij : ¬ (i = 0 ∧ j = 0)) (h : (cellAt t i j).score ≠ 0) (hs : (cellAt t i j).step = .ins) :
    traceL t (fuel + 1) i j last =
      (.ins :: (traceL t fuel i (j - 1) (i, j)).1, (traceL t fuel i (j - 1) (i, j)).2) := by
  have h1 : (i == 0 && j == 0) = false := by
    simp only [Bool.and_eq_false_iff, beq_eq_false_iff_ne]; omega
  have h2 : ((cellAt t i j).score == 0) = false := by simpa using h
  simp [traceL, h1, h2, hs]

theorem drop_take_succ {α} (l : List α) (i k : Nat) (x : α) (h : l[i]? = some x) (hk : k ≤ i) :
    (l.take (i + 1)).drop k = (l.take i).drop k ++ [x] := by
  have hil := (List.getElem?_eq_some_iff.mp h).1
  rw [take_succ_of_getElem? l i x h, List.drop_append_of_le_length]
  rw [List.length_take]; omega

theorem local_inv (m : Mat) (a b : Bytes) (hg : gapScoresNonPos m a b) :
    ∀ (fuel i j : Nat) (last : Nat × Nat), i ≤ a.length → j ≤ b.length → i + j ≤ fuel →
    0 < (cellAt (table m true a b) i j).score →
    1 ≤ (traceL (table m true a b) fuel i j last).2.1 ∧
    (traceL (table m true a b) fuel i j last).2.1 ≤ i ∧
    1 ≤ (traceL (table m true a b) fuel i j last).2.2 ∧
    (traceL (table m true a b) fuel i j last).2.2 ≤ j ∧
    rescore m .none ((a.take i).drop ((traceL (table m true a b) fuel i j last).2.1 - 1))
        ((b.take j).drop ((traceL (table m true a b) fuel i j last).2.2 - 1))
        (traceL (table m true a b) fuel i j last).1.reverse =
      some ((cellAt (table m true a b) i j).score, [], []) ∧
    lastStep .none (traceL (table m true a b) fuel i j last).1.reverse =
      (cellAt (table m true a b) i j).step ∧
    (traceL (table m true a b) fuel i j last).1.getLast? = some .mch := by
  intro fuel
  induction fuel with
  | zero =>
    intro i j last _ _ h hpos
    have hi : i = 0 := by omega
    have hj : j = 0 := by omega
    subst hi; subst hj
    simp [cellAt_zero_zero] at hpos
  | succ fuel ih =>
    intro i j last hi hj hf hpos
    match i, j with
    | 0, j =>
      rw [local_row0_zero m a b hg j hj] at hpos; omega
    | i + 1, 0 =>
      rw [local_col0_zero m a b hg (i + 1) hi] at hpos; omega
    | i + 1, j + 1 =>
      have hil : i < a.length := by omega
      have hx := List.getElem?_eq_getElem hil
      have hjl : j < b.length := by omega
      have hy := List.getElem?_eq_getElem hjl
      have hc := cellAt_succ_succ m true a b i j _ _ hx hy
      have hxg := hg.2.1 a[i] (List.getElem_mem hil)
      have hyg := hg.2.2 b[j] (List.getElem_mem hjl)
      rw [stepCell_eq] at hc
      have hpos' := hpos
      rw [hc] at hpos'
      rw [clamp_true_of_pos _ hpos'] at hc
      have hne : (cellAt (table m true a b) (i + 1) (j + 1)).score ≠ 0 := by omega
      rcases decideOnStep_cases (((cellAt (table m true a b) i j)).score + m a[i] b[j])
        ((cellAt (table m true a b) i (j + 1)).score + m a[i] GAP
          + openIf m (cellAt (table m true a b) i (j + 1)).step .del)
        ((cellAt (table m true a b) (i + 1) j).score + m GAP b[j]
          + openIf m (cellAt (table m true a b) (i + 1) j).step .ins) with hd | hd | hd
      · rw [hd] at hc
        have hs : (cellAt (table m true a b) (i + 1) (j + 1)).step = .mch := by rw [hc]
        rw [traceL_mch _ _ _ _ _ (by omega) hne hs]
        simp only [Nat.add_sub_cancel, List.reverse_cons]
        by_cases hD : (cellAt (table m true a b) i j).score = 0
        · rw [traceL_of_zero _ _ _ _ _ hD]
          simp only [Nat.add_sub_cancel, List.reverse_nil, List.nil_append]
          refine ⟨by omega, by omega, by omega, by omega, ?_, ?_, rfl⟩
          · rw [drop_take_succ a i i _ hx (Nat.le_refl _), drop_take_succ b j j _ hy (Nat.le_refl _)]
            have h0 : rescore m .none ((a.take i).drop i) ((b.take j).drop j) [] = some (0, [], []) := by
              simp [rescore]
            have := rescore_snoc_mch m _ _ _ _ _ a[i] b[j] h0
            simp only [List.nil_append] at this
            rw [this, hc, hD]
          · rw [hc]; rfl
        · have hDpos : 0 < (cellAt (table m true a b) i j).score := by
            have := local_cell_nonneg m a b i j (by omega) (by omega); omega
          obtain ⟨i1, i2, i3, i4, i5, i6, i7⟩ := ih i j (i + 1, j + 1) (by omega) (by omega) (by omega) hDpos
          refine ⟨i1, by omega, i3, by omega, ?_, ?_, by rw [List.getLast?_cons, i7]; rfl⟩
          · rw [drop_take_succ a i _ _ hx (by omega), drop_take_succ b j _ _ hy (by omega)]
            rw [rescore_snoc_mch m _ _ _ _ _ _ _ i5, hc]
          · rw [lastStep_append_singleton, hc]
      · rw [hd] at hc
        have hs : (cellAt (table m true a b) (i + 1) (j + 1)).step = .del := by rw [hc]
        rw [traceL_del _ _ _ _ _ (by omega) hne hs]
        simp only [Nat.add_sub_cancel, List.reverse_cons]
        have hop := openIf_nonpos m hg.1 (cellAt (table m true a b) i (j + 1)).step .del
        have hUpos : 0 < (cellAt (table m true a b) i (j + 1)).score := by
          rw [hc] at hpos; simp only at hpos; omega
        obtain ⟨i1, i2, i3, i4, i5, i6, i7⟩ := ih i (j + 1) (i + 1, j + 1) (by omega) (by omega) (by omega) hUpos
        refine ⟨i1, by omega, i3, by omega, ?_, ?_, by rw [List.getLast?_cons, i7]; rfl⟩
        · rw [drop_take_succ a i _ _ hx (by omega)]
          rw [rescore_snoc_del m _ _ _ _ _ _ i5, hc, i6]
        · rw [lastStep_append_singleton, hc]
      · rw [hd] at hc
        have hs : (cellAt (table m true a b) (i + 1) (j + 1)).step = .ins := by rw [hc]
        rw [traceL_ins _ _ _ _ _ (by omega) hne hs]
        simp only [Nat.add_sub_cancel, List.reverse_cons]
        have hop := openIf_nonpos m hg.1 (cellAt (table m true a b) (i + 1) j).step .ins
        have hLpos : 0 < (cellAt (table m true a b) (i + 1) j).score := by
          rw [hc] at hpos; simp only at hpos; omega
        obtain ⟨i1, i2, i3, i4, i5, i6, i7⟩ := ih (i + 1) j (i + 1, j + 1) (by omega) (by omega) (by omega) hLpos
        refine ⟨i1, by omega, i3, by omega, ?_, ?_, by rw [List.getLast?_cons, i7]; rfl⟩
        · rw [drop_take_succ b j _ _ hy (by omega)]
          rw [rescore_snoc_ins m _ _ _ _ _ _ i5, hc, i6]
        · rw [lastStep_append_singleton, hc]

theorem drop_eq_drop_take_append {α} (l : List α) (i k : Nat) (hk : k ≤ i) (hi : i ≤ l.length) :
    l.drop k = (l.take i).drop k ++ l.drop i := by
  conv => lhs; rw [← List.take_append_drop i l]
  rw [List.drop_append_of_le_length]
  rw [List.length_take]; omega

/-- The maximal cell of the table is in range. -/
theorem argmax_table_in_range (m : Mat) (loc : Bool) (a b : Bytes) :
    (argmax (table m loc a b)).1 ≤ a.length ∧ (argmax (table m loc a b)).2.1 ≤ b.length := by
  obtain ⟨_, _, _, h4⟩ := argmax_spec (table m loc a b)
  rcases h4 with ⟨h1, h2⟩ | ⟨row, c, hr, hc⟩
  · omega
  · have h1 := (List.getElem?_eq_some_iff.mp hr).1
    have hmem : row ∈ table m loc a b := List.mem_of_getElem? hr
    have h2 := (List.getElem?_eq_some_iff.mp hc).1
    rw [table_row_length m loc a b row hmem] at h2
    rw [table_length] at h1
    omega

theorem argmax_local_nonneg (m : Mat) (a b : Bytes) : 0 ≤ (argmax (table m true a b)).2.2 := by
  have := (argmax_spec (table m true a b)).2.1
  rw [cellAt_zero_zero] at this
  exact this

theorem localT_of_zero (m : Mat) (a b : Bytes) (h : (argmax (table m true a b)).2.2 = 0) :
    localT m a b = ([], -1, -1, 0) := by
  simp [localT, h]

theorem localT_of_ne_zero (m : Mat) (a b : Bytes) (h : (argmax (table m true a b)).2.2 ≠ 0) :
    localT m a b =
      ((traceL (table m true a b) (a.length + b.length + 1) (argmax (table m true a b)).1
          (argmax (table m true a b)).2.1
          ((argmax (table m true a b)).1, (argmax (table m true a b)).2.1)).1.reverse,
       ((traceL (table m true a b) (a.length + b.length + 1) (argmax (table m true a b)).1
          (argmax (table m true a b)).2.1
          ((argmax (table m true a b)).1, (argmax (table m true a b)).2.1)).2.1 : Int) - 1,
       ((traceL (table m true a b) (a.length + b.length + 1) (argmax (table m true a b)).1
          (argmax (table m true a b)).2.1
          ((argmax (table m true a b)).1, (argmax (table m true a b)).2.1)).2.2 : Int) - 1,
       (argmax (table m true a b)).2.2) := by
  simp [localT, h]

/-- Explicit form of Local's result under non-positive gap scores. -/
theorem localT_cases (m : Mat) (a b : Bytes) (hg : gapScoresNonPos m a b) :
    localT m a b = ([], -1, -1, 0) ∨
    ∃ (p : List Step) (li lj mi mj : Nat) (s : Int),
      localT m a b = (p, (li : Int), (lj : Int), s) ∧ 0 < s ∧
      li < mi ∧ mi ≤ a.length ∧ lj < mj ∧ mj ≤ b.length ∧
      s = (cellAt (table m true a b) mi mj).score ∧
      rescore m .none (a.drop li) (b.drop lj) p = some (s, a.drop mi, b.drop mj) ∧
      p.head? = some .mch := by
  by_cases h0 : (argmax (table m true a b)).2.2 = 0
  · exact Or.inl (localT_of_zero m a b h0)
  · right
    obtain ⟨hmi, hmj⟩ := argmax_table_in_range m true a b
    have hs := (argmax_spec (table m true a b)).1
    have hnn := argmax_local_nonneg m a b
    have hpos : 0 < (cellAt (table m true a b) (argmax (table m true a b)).1
        (argmax (table m true a b)).2.1).score := by omega
    obtain ⟨i1, i2, i3, i4, i5, _, i7⟩ := local_inv m a b hg (a.length + b.length + 1) _ _
      ((argmax (table m true a b)).1, (argmax (table m true a b)).2.1) hmi hmj (by omega) hpos
    rw [localT_of_ne_zero m a b h0]
    generalize traceL (table m true a b) (a.length + b.length + 1) _ _ _ = r at *
    refine ⟨r.1.reverse, r.2.1 - 1, r.2.2 - 1, _, _, _, ?_, by omega, by omega, hmi, by omega, hmj,
      hs, ?_, by rw [List.head?_reverse]; exact i7⟩
    · have e1 : ((r.2.1 : Int) - 1) = ((r.2.1 - 1 : Nat) : Int) := by omega
      have e2 : ((r.2.2 : Int) - 1) = ((r.2.2 - 1 : Nat) : Int) := by omega
      rw [e1, e2]
    · have := rescore_frame m _ _ _ _ (a.drop (argmax (table m true a b)).1)
        (b.drop (argmax (table m true a b)).2.1) _ _ _ i5
      rw [← drop_eq_drop_take_append a _ _ (by omega) hmi,
        ← drop_eq_drop_take_append b _ _ (by omega) hmj] at this
      rw [this, hs]
      simp


theorem argmax_local_zero_iff (m : Mat) (a b : Bytes) :
    (argmax (table m true a b)).2.2 = 0 ↔
      ∀ i j, i ≤ a.length → j ≤ b.length → (cellAt (table m true a b) i j).score ≤ 0 := by
  constructor
  · intro h i j hi hj
    obtain ⟨r, hr, hc⟩ := cellAt_spec m true a b i j hi hj
    have := (argmax_spec (table m true a b)).2.2.1 i r j _ hr hc
    omega
  · intro h
    obtain ⟨hmi, hmj⟩ := argmax_table_in_range m true a b
    have hs := (argmax_spec (table m true a b)).1
    have hnn := argmax_local_nonneg m a b
    have := h _ _ hmi hmj
    omega

theorem argmax_table_max (m : Mat) (loc : Bool) (a b : Bytes) (i j : Nat) (hi : i ≤ a.length)
    (hj : j ≤ b.length) :
    (cellAt (table m loc a b) i j).score ≤ (argmax (table m loc a b)).2.2 := by
  obtain ⟨r, hr, hc⟩ := cellAt_spec m loc a b i j hi hj
  exact (argmax_spec (table m loc a b)).2.2.1 i r j _ hr hc

theorem localT_score (m : Mat) (a b : Bytes) :
    (localT m a b).2.2.2 = (argmax (table m true a b)).2.2 := by
  by_cases h : (argmax (table m true a b)).2.2 = 0
  · rw [localT_of_zero m a b h, h]
  · rw [localT_of_ne_zero m a b h]

theorem localT_eq_empty_iff (m : Mat) (a b : Bytes) :
    localT m a b = ([], -1, -1, 0) ↔ (argmax (table m true a b)).2.2 = 0 := by
  constructor
  · intro h
    rw [← localT_score, h]
  · exact localT_of_zero m a b

/-! ## `needed` -/

theorem mem_needed (a b : Bytes) (p : UInt8 × UInt8) :
    p ∈ needed a b ↔
      (p = (GAP, GAP) ∧ (a ≠ [] ∨ b ≠ [])) ∨ (∃ x ∈ a, p = (x, GAP)) ∨ (∃ y ∈ b, p = (GAP, y)) ∨
      (∃ x ∈ a, ∃ y ∈ b, p = (x, y)) := by
  unfold needed
  simp only [List.mem_append, List.mem_map]
  constructor
  · rintro (((h | h) | h) | h)
    · left
      cases a <;> cases b <;> simp_all
    · obtain ⟨x, hx, rfl⟩ := h; exact Or.inr (Or.inl ⟨x, hx, rfl⟩)
    · obtain ⟨y, hy, rfl⟩ := h; exact Or.inr (Or.inr (Or.inl ⟨y, hy, rfl⟩))
    · right; right; right
      cases b with
      | nil => simp at h
      | cons y0 ys =>
        simp only [List.isEmpty_cons, Bool.false_eq_true, ↓reduceIte, List.mem_flatMap,
          List.mem_map] at h
        obtain ⟨x, hx, y, hy, rfl⟩ := h
        exact ⟨x, hx, y, hy, rfl⟩
  · rintro (⟨rfl, h⟩ | ⟨x, hx, rfl⟩ | ⟨y, hy, rfl⟩ | ⟨x, hx, y, hy, rfl⟩)
    · left; left; left
      cases a <;> cases b <;> simp_all
    · exact Or.inl (Or.inl (Or.inr ⟨x, hx, rfl⟩))
    · exact Or.inl (Or.inr ⟨y, hy, rfl⟩)
    · right
      cases b with
      | nil => simp at hy
      | cons y0 ys =>
        simp only [List.isEmpty_cons, Bool.false_eq_true, ↓reduceIte, List.mem_flatMap,
          List.mem_map]
        exact ⟨x, hx, y, hy, rfl⟩

theorem globalP_isSome (pm : PMat) (a b : Bytes) (h : ∀ p ∈ needed a b, (pm p.1 p.2).isSome) :
    globalP pm a b = some (globalT (total pm) a b) := by
  unfold globalP
  rw [if_pos]
  simpa [List.all_eq_true] using h

theorem localP_isSome (pm : PMat) (a b : Bytes) (h : ∀ p ∈ needed a b, (pm p.1 p.2).isSome) :
    localP pm a b = some (localT (total pm) a b) := by
  unfold localP
  rw [if_pos]
  simpa [List.all_eq_true] using h

/-! ## Counting consumed characters -/

theorem rescore_consumes (m : Mat) : ∀ (p : List Step) (prev : Step) (a b ra rb : Bytes) (s : Int),
    rescore m prev a b p = some (s, ra, rb) →
    .none ∉ p ∧
    a.length = ra.length + p.count .mch + p.count .del ∧
    b.length = rb.length + p.count .mch + p.count .ins
  | [], prev, a, b, ra, rb, s, h => by
    simp [rescore] at h
    obtain ⟨_, rfl, rfl⟩ := h
    simp
  | .none :: p, prev, a, b, _, _, _, h => by simp [rescore] at h
  | .mch :: p, prev, [], b, _, _, _, h => by simp [rescore] at h
  | .mch :: p, prev, _ :: _, [], _, _, _, h => by simp [rescore] at h
  | .mch :: p, prev, x :: a, y :: b, ra, rb, s, h => by
    rw [rescore_mch] at h
    rcases hr : rescore m .mch a b p with _ | ⟨s1, ra1, rb1⟩
    · simp [hr] at h
    · simp [hr] at h
      obtain ⟨_, rfl, rfl⟩ := h
      obtain ⟨h1, h2, h3⟩ := rescore_consumes m p _ _ _ _ _ _ hr
      simp [h1]; omega
  | .del :: p, prev, [], b, _, _, _, h => by cases b <;> simp [rescore] at h
  | .del :: p, prev, x :: a, b, ra, rb, s, h => by
    rw [rescore_del] at h
    rcases hr : rescore m .del a b p with _ | ⟨s1, ra1, rb1⟩
    · simp [hr] at h
    · simp [hr] at h
      obtain ⟨_, rfl, rfl⟩ := h
      obtain ⟨h1, h2, h3⟩ := rescore_consumes m p _ _ _ _ _ _ hr
      simp [h1]; omega
  | .ins :: p, prev, a, [], _, _, _, h => by cases a <;> simp [rescore] at h
  | .ins :: p, prev, a, y :: b, ra, rb, s, h => by
    rw [rescore_ins] at h
    rcases hr : rescore m .ins a b p with _ | ⟨s1, ra1, rb1⟩
    · simp [hr] at h
    · simp [hr] at h
      obtain ⟨_, rfl, rfl⟩ := h
      obtain ⟨h1, h2, h3⟩ := rescore_consumes m p _ _ _ _ _ _ hr
      simp [h1]; omega


/-- Shape of the stored steps in the global table: no `.none` except at `(0,0)`,
and every stored step points to a predecessor inside the table. -/
theorem global_step_shape (m : Mat) (a b : Bytes) (i j : Nat) (hi : i ≤ a.length)
    (hj : j ≤ b.length) (hij : ¬ (i = 0 ∧ j = 0)) :
    ((cellAt (table m false a b) i j).step = .mch ∧ 1 ≤ i ∧ 1 ≤ j) ∨
    ((cellAt (table m false a b) i j).step = .del ∧ 1 ≤ i) ∨
    ((cellAt (table m false a b) i j).step = .ins ∧ 1 ≤ j) := by
  match i, j with
  | 0, 0 => omega
  | 0, j + 1 =>
    have hjl : j < b.length := by omega
    rw [g_zero_succ m a b j _ (List.getElem?_eq_getElem hjl)]
    simp
  | i + 1, 0 =>
    have hil : i < a.length := by omega
    rw [g_succ_zero m a b i _ (List.getElem?_eq_getElem hil)]
    simp
  | i + 1, j + 1 =>
    have hil : i < a.length := by omega
    have hjl : j < b.length := by omega
    rw [cellAt_succ_succ m false a b i j _ _ (List.getElem?_eq_getElem hil)
      (List.getElem?_eq_getElem hjl), stepCell_eq, clamp_false]
    rcases decideOnStep_cases (((cellAt (table m false a b) i j)).score + m a[i] b[j])
        ((cellAt (table m false a b) i (j + 1)).score + m a[i] GAP
          + openIf m (cellAt (table m false a b) i (j + 1)).step .del)
        ((cellAt (table m false a b) (i + 1) j).score + m GAP b[j]
          + openIf m (cellAt (table m false a b) (i + 1) j).step .ins) with hd | hd | hd <;>
      rw [hd] <;> simp


/-! ## The table reads only the `needed` entries -/

theorem row0Aux_congr (m m' : Mat) (loc : Bool) : ∀ (b : Bytes) (prev : Int) (first : Bool),
    (∀ y ∈ b, m GAP y = m' GAP y) → (b ≠ [] → m GAP GAP = m' GAP GAP) →
    row0Aux m loc prev first b = row0Aux m' loc prev first b
  | [], _, _, _, _ => rfl
  | y :: ys, prev, first, h1, h2 => by
    have hy := h1 y (by simp)
    have hg := h2 (by simp)
    simp only [row0Aux, hy, hg]
    rw [row0Aux_congr m m' loc ys _ _ (fun z hz => h1 z (by simp [hz])) (fun _ => hg)]

theorem rowAux_congr (m m' : Mat) (loc : Bool) (x : UInt8) (hxg : m x GAP = m' x GAP)
    (hgg : m GAP GAP = m' GAP GAP) :
    ∀ (ups : List Cell) (ys : Bytes) (left diag : Cell),
      (∀ y ∈ ys, m x y = m' x y ∧ m GAP y = m' GAP y) →
      rowAux m loc x left diag ups ys = rowAux m' loc x left diag ups ys
  | [], _, _, _, _ => by simp [rowAux]
  | _ :: _, [], _, _, _ => by simp [rowAux]
  | up :: ups, y :: ys, left, diag, h => by
    obtain ⟨h1, h2⟩ := h y (by simp)
    simp only [rowAux, hxg, hgg, h1, h2]
    rw [rowAux_congr m m' loc x hxg hgg ups ys _ _ (fun z hz => h z (by simp [hz]))]

theorem nextRow_congr (m m' : Mat) (loc : Bool) (x : UInt8) (first : Bool) (prev : List Cell)
    (b : Bytes) (hxg : m x GAP = m' x GAP) (hgg : m GAP GAP = m' GAP GAP)
    (h : ∀ y ∈ b, m x y = m' x y ∧ m GAP y = m' GAP y) :
    nextRow m loc x first prev b = nextRow m' loc x first prev b := by
  cases prev with
  | nil => rfl
  | cons up0 ups =>
    simp only [nextRow, hxg, hgg]
    rw [rowAux_congr m m' loc x hxg hgg ups b _ _ h]

theorem tableAux_congr (m m' : Mat) (loc : Bool) (b : Bytes) (hgg : m GAP GAP = m' GAP GAP)
    (hb : ∀ y ∈ b, m GAP y = m' GAP y) :
    ∀ (a : Bytes) (prev : List Cell) (first : Bool),
      (∀ x ∈ a, m x GAP = m' x GAP ∧ ∀ y ∈ b, m x y = m' x y) →
      tableAux m loc b prev first a = tableAux m' loc b prev first a
  | [], _, _, _ => rfl
  | x :: xs, prev, first, h => by
    obtain ⟨h1, h2⟩ := h x (by simp)
    simp only [tableAux]
    rw [nextRow_congr m m' loc x first prev b h1 hgg (fun y hy => ⟨h2 y hy, hb y hy⟩),
      tableAux_congr m m' loc b hgg hb xs _ _ (fun z hz => h z (by simp [hz]))]

theorem table_congr (m m' : Mat) (loc : Bool) (a b : Bytes)
    (h : ∀ p ∈ needed a b, m p.1 p.2 = m' p.1 p.2) : table m loc a b = table m' loc a b := by
  have hb : ∀ y ∈ b, m GAP y = m' GAP y := fun y hy =>
    h (GAP, y) ((mem_needed a b _).2 (Or.inr (Or.inr (Or.inl ⟨y, hy, rfl⟩))))
  have hgg : a ≠ [] ∨ b ≠ [] → m GAP GAP = m' GAP GAP := fun hne =>
    h (GAP, GAP) ((mem_needed a b _).2 (Or.inl ⟨rfl, hne⟩))
  have hr0 : row0 m loc b = row0 m' loc b := by
    simp only [row0]
    rw [row0Aux_congr m m' loc b _ _ hb (fun hne => hgg (Or.inr hne))]
  simp only [table, hr0]
  cases a with
  | nil => rfl
  | cons x xs =>
    rw [tableAux_congr m m' loc b (hgg (Or.inl (by simp))) hb]
    intro z hz
    exact ⟨h (z, GAP) ((mem_needed _ b _).2 (Or.inr (Or.inl ⟨z, hz, rfl⟩))),
      fun y hy => h (z, y) ((mem_needed _ b _).2 (Or.inr (Or.inr (Or.inr ⟨z, hz, y, hy, rfl⟩))))⟩

theorem globalT_congr (m m' : Mat) (a b : Bytes)
    (h : ∀ p ∈ needed a b, m p.1 p.2 = m' p.1 p.2) : globalT m a b = globalT m' a b := by
  simp only [globalT, table_congr m m' false a b h]

theorem localT_congr (m m' : Mat) (a b : Bytes)
    (h : ∀ p ∈ needed a b, m p.1 p.2 = m' p.1 p.2) : localT m a b = localT m' a b := by
  simp only [localT, table_congr m m' true a b h]

end Bio.Align
