/-
  `Reader` of formats/newick/newick.go, as translated on every run from the Go SOURCE TEXT into
  `Bio.Generated.GoSrc.newick_Reader` (the `iter.Seq2[*Node, error]` closure: a fresh `reader`, the
  `for { }` loop with fuel around the translated `read()`, `yield` a HISTORY consumer of
  `(pointer, error)` pairs, the result the log of the pairs handed over and the final heap).

  * `NwkIt.nrSpec`: the loop by recursion on the fuel; the translated closure IS `nrSpec`
    (`newick_Reader_spec`, arbitrary `ParseFloat`, arbitrary consumer);
  * `NwkIt.goReads`: the results of the successive `read()` calls of an UNINTERRUPTED run (every call on
    the heap, reader and buffer the previous one handed back; the first result whose error is not `nil`
    is the last); `itemsOf`: what `Reader` hands over for them (`(p, nil)` for a tree, `(nil, err)`
    for an error that is not `io.EOF`, nothing for `io.EOF`); `readsDone y`: the calls that are made
    under the consumer `y` (a prefix: through the first tree `y` declines); `lastHeap`: the heap the
    last of them handed back;
  * `nrSpec_reads` / `runReads_wf` / `items_readsDone`: the closure returns
    `(takeThroughH y [] (itemsOf R), lastHeap heap (readsDone y [] R))`;
  * `ReadsRep`: the calls of an uninterrupted run against the hand model's `Newick.decodeSrc`
    (`goReads_rep`, by `newick_read_model`), and what follows for the log (`log_rep`): every pointer
    handed over represents, in the FINAL heap, the model's tree at the same position.

  Guarded by the translator's `_Found` flags as in `Bio.Lemmas.GoSrc`.
-/
import Bio.Lemmas.GoSrcNewickRead
import Bio.Lemmas.GoSrcIterWrite
import Bio.Lemmas.IterH
import Bio.Lemmas.CrossNewick
set_option linter.unusedVariables false
set_option linter.unusedSimpArgs false
namespace Bio.GoSrcLemmas
open Bio Bio.GoRt Bio.Generated Bio.Newick

namespace NwkIt
open NwkRd

/-- what `Reader` hands to `yield`: `(*Node, error)` -/
abbrev GoItem := Int × GoErr

/-- the state of the translated `for { }` loop: pending `return`, `log`, `heap`, `rd.r`, `rd.b` -/
abbrev RdSt := Option (List GoItem × Heap) × List GoItem × Heap × ByteRd × Bytes

/-! ## The loop, by recursion on the fuel -/

def nrSpec (pf : PF) (fuel : Nat) (y : List GoItem → Bool) :
    Nat → List GoItem → Heap → ByteRd → Bytes → Option (List GoItem × Heap)
  | 0, _, _, _, _ => none
  | n + 1, log, heap, r, rb =>
    match GoSrc.newick_read pf fuel heap r rb with
    | none => none
    | some res =>
      if res.2.1 = GoErr.eof then some (log, res.2.2.1)
      else if res.2.1 ≠ GoErr.nil then some (log ++ [(-1, res.2.1)], res.2.2.1)
      else if y (log ++ [(res.1, GoErr.nil)]) = true then
        nrSpec pf fuel y n (log ++ [(res.1, GoErr.nil)]) res.2.2.1 res.2.2.2.1 res.2.2.2.2
      else some (log ++ [(res.1, GoErr.nil)], res.2.2.1)

/-- one iteration of the `for { }` loop, after `n, err := rd.read()` -/
def nrStep (y : List GoItem → Bool) (log : List GoItem) (res : Res) : ForInStep RdSt :=
  if res.2.1 = GoErr.eof then .done (some (log, res.2.2.1), log, res.2.2.1, res.2.2.2.1, res.2.2.2.2)
  else if res.2.1 ≠ GoErr.nil then
    .done (some (log ++ [(-1, res.2.1)], res.2.2.1), log ++ [(-1, res.2.1)], res.2.2.1, res.2.2.2.1, res.2.2.2.2)
  else if y (log ++ [(res.1, GoErr.nil)]) = true then
    .yield (none, log ++ [(res.1, GoErr.nil)], res.2.2.1, res.2.2.2.1, res.2.2.2.2)
  else .done (some (log ++ [(res.1, GoErr.nil)], res.2.2.1), log ++ [(res.1, GoErr.nil)], res.2.2.1,
    res.2.2.2.1, res.2.2.2.2)

theorem nr_loop (pf : PF) (fuel : Nat) (y : List GoItem → Bool)
    (body : Nat → RdSt → Option (ForInStep RdSt))
    (hbody : ∀ i o log heap r rb, body i (o, log, heap, r, rb)
      = (GoSrc.newick_read pf fuel heap r rb).bind fun res => some (nrStep y log res))
    (post : RdSt → Option (List GoItem × Heap))
    (hpost : ∀ s, post s = s.1) :
    ∀ (l : List Nat) (log : List GoItem) (heap : Heap) (r : ByteRd) (rb : Bytes),
      (forIn l ((none, log, heap, r, rb) : RdSt) body).bind post = nrSpec pf fuel y l.length log heap r rb := by
  intro l
  induction l with
  | nil => intro log heap r rb; simp [nrSpec, hpost]
  | cons a l ih =>
    intro log heap r rb
    simp only [List.forIn_cons, hbody, List.length_cons, nrSpec, Option.bind_eq_bind]
    cases hr : GoSrc.newick_read pf fuel heap r rb with
    | none => simp
    | some res =>
      simp only [Option.bind_some]
      unfold nrStep
      by_cases c1 : res.2.1 = GoErr.eof
      · rw [if_pos c1, if_pos c1]; simp [hpost]
      · rw [if_neg c1, if_neg c1]
        by_cases c2 : res.2.1 ≠ GoErr.nil
        · rw [if_pos c2, if_pos c2]; simp [hpost]
        · rw [if_neg c2, if_neg c2]
          by_cases c3 : y (log ++ [(res.1, GoErr.nil)]) = true
          · rw [if_pos c3, if_pos c3]; exact ih _ _ _ _
          · rw [if_neg c3, if_neg c3]; simp [hpost]

/-- for an ARBITRARY `ParseFloat` and an ARBITRARY consumer the translated closure is the loop `nrSpec`
on a fresh `reader` (empty buffer) -/
theorem newick_Reader_spec (hF : GoSrc.newick_Reader_Found = true) (pf : PF) (fuel : Nat) (heap : Heap)
    (r : ByteRd) (y : List GoItem → Bool) :
    GoSrc.newick_Reader pf fuel heap r y = nrSpec pf fuel y fuel [] heap r [] := by
  first
  | exact absurd hF (by decide)
  | (unfold GoSrc.newick_Reader
     simp only [Option.pure_def, Option.bind_eq_bind]
     refine (nr_loop pf fuel y _ ?_ _ ?_ (List.range fuel) [] heap r []).trans
       (by rw [List.length_range])
     rotate_left
     · intro s
       rcases s with ⟨_ | r, log, hp, rr, rb⟩ <;> rfl
     intro i o log hp rr rb
     congr 1
     funext res
     obtain ⟨p, err, hp', rr', rb'⟩ := res
     unfold nrStep
     cases err <;> cases hy : y (log ++ [(p, GoErr.nil)]) <;> simp [hy])

/-! ## The calls of an uninterrupted run -/

/-- the results of the successive `read()` calls (at most `calls` of them, each with `fuel`), every call
on the heap, reader and buffer the previous one handed back; the first result whose error is not `nil`
is the last (a call that panics / runs out of fuel, or `calls` used up, cuts the list short) -/
def goReads (pf : PF) (fuel : Nat) : Nat → Heap → ByteRd → Bytes → List Res
  | 0, _, _, _ => []
  | n + 1, heap, r, rb =>
    match GoSrc.newick_read pf fuel heap r rb with
    | none => []
    | some res =>
      if res.2.1 = GoErr.nil then res :: goReads pf fuel n res.2.2.1 res.2.2.2.1 res.2.2.2.2 else [res]

/-- what `Reader` hands over for one `read()` result: nothing for `io.EOF`, `(nil, err)` for another
error, `(n, nil)` for a tree -/
def resItem (res : Res) : Option GoItem :=
  if res.2.1 = GoErr.eof then none
  else if res.2.1 = GoErr.nil then some (res.1, GoErr.nil)
  else some (-1, res.2.1)

def itemsOf (rs : List Res) : List GoItem := rs.filterMap resItem

/-- the calls that are made under the consumer `y` (which has seen `log` so far): through the first
tree after which `y` says stop -/
def readsDone (y : List GoItem → Bool) : List GoItem → List Res → List Res
  | _, [] => []
  | log, res :: rs =>
    if res.2.1 = GoErr.nil ∧ y (log ++ [(res.1, GoErr.nil)]) = true then
      res :: readsDone y (log ++ [(res.1, GoErr.nil)]) rs
    else [res]

/-- the heap after the calls `rs` (`h` if there is none) -/
def lastHeap : Heap → List Res → Heap
  | h, [] => h
  | _, res :: rs => lastHeap res.2.2.1 rs

/-- the loop on the list of results -/
def runReads (y : List GoItem → Bool) : List GoItem → List Res → Option (List GoItem × Heap)
  | _, [] => none
  | log, res :: rs =>
    if res.2.1 = GoErr.eof then some (log, res.2.2.1)
    else if res.2.1 ≠ GoErr.nil then some (log ++ [(-1, res.2.1)], res.2.2.1)
    else if y (log ++ [(res.1, GoErr.nil)]) = true then runReads y (log ++ [(res.1, GoErr.nil)]) rs
    else some (log ++ [(res.1, GoErr.nil)], res.2.2.1)

theorem nrSpec_reads (pf : PF) (fuel : Nat) (y : List GoItem → Bool) :
    ∀ (n : Nat) (log : List GoItem) (heap : Heap) (r : ByteRd) (rb : Bytes),
      nrSpec pf fuel y n log heap r rb = runReads y log (goReads pf fuel n heap r rb) := by
  intro n
  induction n with
  | zero => intro log heap r rb; rfl
  | succ n ih =>
    intro log heap r rb
    simp only [nrSpec, goReads]
    cases hr : GoSrc.newick_read pf fuel heap r rb with
    | none => rfl
    | some res =>
      simp only
      by_cases c1 : res.2.1 = GoErr.eof
      · have c0 : res.2.1 ≠ GoErr.nil := by rw [c1]; decide
        rw [if_pos c1, if_neg c0]; simp [runReads, c1]
      · rw [if_neg c1]
        by_cases c2 : res.2.1 ≠ GoErr.nil
        · rw [if_pos c2, if_neg c2]; simp [runReads, c1, c2]
        · rw [if_neg c2, if_pos (Decidable.not_not.1 c2)]
          simp only [runReads, if_neg c1, if_neg c2]
          by_cases c3 : y (log ++ [(res.1, GoErr.nil)]) = true
          · rw [if_pos c3, if_pos c3]; exact ih _ _ _ _
          · rw [if_neg c3, if_neg c3]

/-- a complete run: every result but the last has error `nil`, the last has not -/
def WF : List Res → Prop
  | [] => False
  | res :: rs => (res.2.1 = GoErr.nil ∧ WF rs) ∨ (res.2.1 ≠ GoErr.nil ∧ rs = [])

theorem itemsOf_cons_nil {res : Res} (h : res.2.1 = GoErr.nil) (rs : List Res) :
    itemsOf (res :: rs) = (res.1, GoErr.nil) :: itemsOf rs := by
  have : resItem res = some (res.1, GoErr.nil) := by simp [resItem, h]
  simp [itemsOf, List.filterMap_cons, this]

theorem itemsOf_single_eof {res : Res} (h : res.2.1 = GoErr.eof) : itemsOf [res] = [] := by
  simp [itemsOf, List.filterMap_cons, resItem, h]

theorem itemsOf_single_err {res : Res} (h0 : res.2.1 ≠ GoErr.nil) (h1 : res.2.1 ≠ GoErr.eof) :
    itemsOf [res] = [(-1, res.2.1)] := by
  simp [itemsOf, List.filterMap_cons, resItem, h0, h1]

theorem itemsOf_nil : itemsOf [] = [] := rfl

theorem readsDone_stop {y : List GoItem → Bool} {log : List GoItem} {res : Res} (rs : List Res)
    (h : ¬ (res.2.1 = GoErr.nil ∧ y (log ++ [(res.1, GoErr.nil)]) = true)) :
    readsDone y log (res :: rs) = [res] := by
  simp only [readsDone, if_neg h]

theorem readsDone_go {y : List GoItem → Bool} {log : List GoItem} {res : Res} (rs : List Res)
    (h0 : res.2.1 = GoErr.nil) (h1 : y (log ++ [(res.1, GoErr.nil)]) = true) :
    readsDone y log (res :: rs) = res :: readsDone y (log ++ [(res.1, GoErr.nil)]) rs := by
  simp only [readsDone, if_pos (And.intro h0 h1)]

/-- on a complete run the loop returns the items of the calls made and the heap of the last of them -/
theorem runReads_wf (y : List GoItem → Bool) : ∀ (R : List Res) (log : List GoItem) (h : Heap), WF R →
    runReads y log R = some (log ++ itemsOf (readsDone y log R), lastHeap h (readsDone y log R)) := by
  intro R
  induction R with
  | nil => intro log h hw; exact absurd hw (by simp [WF])
  | cons res rs ih =>
    intro log h hw
    simp only [WF] at hw
    rcases hw with ⟨h0, hw⟩ | ⟨h0, rfl⟩
    · have c1 : res.2.1 ≠ GoErr.eof := by rw [h0]; decide
      simp only [runReads, if_neg c1, if_neg (Decidable.not_not.2 h0)]
      by_cases c3 : y (log ++ [(res.1, GoErr.nil)]) = true
      · rw [if_pos c3, readsDone_go rs h0 c3, itemsOf_cons_nil h0, ih _ res.2.2.1 hw]
        simp [lastHeap]
      · rw [if_neg c3, readsDone_stop rs (fun hh => c3 hh.2), itemsOf_cons_nil h0]
        simp [lastHeap, itemsOf_nil]
    · rw [readsDone_stop [] (fun hh => h0 hh.1)]
      by_cases c1 : res.2.1 = GoErr.eof
      · simp [runReads, c1, itemsOf_single_eof c1, lastHeap]
      · simp [runReads, c1, h0, itemsOf_single_err h0 c1, lastHeap]

/-- … and those items are the items of the uninterrupted run, cut by the consumer (the consumer's verdict
on an error item is not asked, and does not matter to `takeThroughH`: it is the last item) -/
theorem items_readsDone (y : List GoItem → Bool) : ∀ (R : List Res) (log : List GoItem), WF R →
    log ++ itemsOf (readsDone y log R) = takeThroughH y log (itemsOf R) := by
  intro R
  induction R with
  | nil => intro log hw; exact absurd hw (by simp [WF])
  | cons res rs ih =>
    intro log hw
    simp only [WF] at hw
    rcases hw with ⟨h0, hw⟩ | ⟨h0, rfl⟩
    · rw [itemsOf_cons_nil h0, takeThroughH_cons]
      by_cases c3 : y (log ++ [(res.1, GoErr.nil)]) = true
      · rw [if_pos c3, readsDone_go rs h0 c3, itemsOf_cons_nil h0, ← ih _ hw]
        simp
      · rw [if_neg c3, readsDone_stop rs (fun hh => c3 hh.2), itemsOf_cons_nil h0]
        simp [itemsOf_nil]
    · rw [readsDone_stop [] (fun hh => h0 hh.1)]
      by_cases c1 : res.2.1 = GoErr.eof
      · simp [itemsOf_single_eof c1, takeThroughH]
      · rw [itemsOf_single_err h0 c1, takeThroughH_singleton]

theorem readsDone_prefix (y : List GoItem → Bool) : ∀ (R : List Res) (log : List GoItem),
    readsDone y log R <+: R := by
  intro R
  induction R with
  | nil => intro log; simp [readsDone]
  | cons res rs ih =>
    intro log
    simp only [readsDone]
    split
    · exact (List.prefix_cons_inj res).2 (ih _)
    · exact ⟨rs, rfl⟩

theorem readsDone_ne_nil (y : List GoItem → Bool) (R : List Res) (log : List GoItem) (h : R ≠ []) :
    readsDone y log R ≠ [] := by
  cases R with
  | nil => exact absurd rfl h
  | cons res rs => simp only [readsDone]; split <;> simp

/-- with the consumer that never stops every call is made -/
theorem readsDone_true : ∀ (R : List Res) (log : List GoItem), WF R →
    readsDone (fun _ => true) log R = R := by
  intro R
  induction R with
  | nil => intro log hw; rfl
  | cons res rs ih =>
    intro log hw
    simp only [WF] at hw
    rcases hw with ⟨h0, hw⟩ | ⟨h0, rfl⟩
    · rw [readsDone_go rs h0 rfl, ih _ hw]
    · rw [readsDone_stop [] (fun hh => h0 hh.1)]

/-- how many calls are made: as many as items are handed over, and one more when the run ended with
`io.EOF` (then every call of the uninterrupted run was made) -/
theorem readsDone_length (y : List GoItem → Bool) : ∀ (R : List Res) (log : List GoItem), WF R →
    ((readsDone y log R).length = (itemsOf (readsDone y log R)).length ∧
      ((readsDone y log R).getLast?.map (·.2.1) ≠ some GoErr.eof)) ∨
    ((readsDone y log R).length = (itemsOf (readsDone y log R)).length + 1 ∧ readsDone y log R = R ∧
      R.getLast?.map (·.2.1) = some GoErr.eof) := by
  intro R
  induction R with
  | nil => intro log hw; exact absurd hw (by simp [WF])
  | cons res rs ih =>
    intro log hw
    simp only [WF] at hw
    rcases hw with ⟨h0, hw⟩ | ⟨h0, rfl⟩
    · by_cases c3 : y (log ++ [(res.1, GoErr.nil)]) = true
      · rw [readsDone_go rs h0 c3, itemsOf_cons_nil h0]
        have hne := readsDone_ne_nil y rs (log ++ [(res.1, GoErr.nil)])
          (by intro hh; rw [hh] at hw; simp [WF] at hw)
        have hne' : rs ≠ [] := by intro hh; rw [hh] at hw; simp [WF] at hw
        rcases ih (log ++ [(res.1, GoErr.nil)]) hw with ⟨h1, h2⟩ | ⟨h1, h2, h3⟩
        · left
          refine ⟨by simp [h1], ?_⟩
          rw [List.getLast?_cons_of_ne_nil hne]
          exact h2
        · right
          refine ⟨by simp [h1], by rw [h2], ?_⟩
          rw [List.getLast?_cons_of_ne_nil hne']
          exact h3
      · left
        rw [readsDone_stop rs (fun hh => c3 hh.2), itemsOf_cons_nil h0]
        simp [itemsOf_nil, h0]
    · rw [readsDone_stop [] (fun hh => h0 hh.1)]
      by_cases c1 : res.2.1 = GoErr.eof
      · right; simp [itemsOf_single_eof c1, c1]
      · left; simp [itemsOf_single_err h0 c1, c1]

/-! ## Error items -/

/-- in the items of a complete run an error item is the last one (and its pointer is `nil`) -/
theorem itemsOf_err_last : ∀ (R : List Res), WF R → ∀ (i : Nat) (p : Int) (err : GoErr),
    (itemsOf R)[i]? = some (p, err) → err ≠ GoErr.nil → i + 1 = (itemsOf R).length ∧ p = -1 := by
  intro R
  induction R with
  | nil => intro hw; exact absurd hw (by simp [WF])
  | cons res rs ih =>
    intro hw i p err hi he
    simp only [WF] at hw
    rcases hw with ⟨h0, hw⟩ | ⟨h0, rfl⟩
    · rw [itemsOf_cons_nil h0] at hi ⊢
      cases i with
      | zero => simp at hi; exact absurd hi.2.symm he
      | succ i =>
        simp only [List.getElem?_cons_succ] at hi
        have := ih hw i p err hi he
        simp [this.1.symm, this.2]
    · by_cases c1 : res.2.1 = GoErr.eof
      · rw [itemsOf_single_eof c1] at hi; simp at hi
      · rw [itemsOf_single_err h0 c1] at hi ⊢
        cases i with
        | zero => simp at hi; simp [hi.1.symm]
        | succ i => simp at hi

/-- a complete run whose last result is an error other than `io.EOF` ends with an error item -/
theorem itemsOf_getLast_err : ∀ (R : List Res), WF R →
    R.getLast?.map (·.2.1) ≠ some GoErr.eof →
    ∃ err, (itemsOf R).getLast? = some (-1, err) ∧ err ≠ GoErr.nil ∧ err ≠ GoErr.eof := by
  intro R
  induction R with
  | nil => intro hw; exact absurd hw (by simp [WF])
  | cons res rs ih =>
    intro hw hl
    simp only [WF] at hw
    rcases hw with ⟨h0, hw⟩ | ⟨h0, rfl⟩
    · have hne' : rs ≠ [] := by intro hh; rw [hh] at hw; simp [WF] at hw
      rw [List.getLast?_cons_of_ne_nil hne'] at hl
      obtain ⟨err, h1, h2⟩ := ih hw hl
      refine ⟨err, ?_, h2⟩
      rw [itemsOf_cons_nil h0, List.getLast?_cons_of_ne_nil (by intro hh; rw [hh] at h1; simp at h1)]
      exact h1
    · have c1 : res.2.1 ≠ GoErr.eof := by simpa using hl
      exact ⟨res.2.1, by rw [itemsOf_single_err h0 c1]; rfl, h0, c1⟩

/-! ## Against the hand model -/

/-- The calls `R` of an uninterrupted run from the heap `h`, against the model's item list: every call
extends the heap it was given; a tree call returns the first cell it allocated, which represents the
model's tree at that position in the heap handed back; the run ends with `io.EOF` where the model's
list ends, or with an error where the model's list ends with its error item. -/
def ReadsRep (pf : PF) (pd : Bytes → Option Dist) : Heap → List Res → List (Item Tree) → Prop
  | _, [], _ => False
  | h, res :: rs, its =>
    Ext h res.2.2.1 ∧
    ((res.2.1 = GoErr.nil ∧ res.1 = len h ∧
        ∃ t its', its = Item.ok t :: its' ∧ RepT res.2.2.1 res.1 t ∧ ReadsRep pf pd res.2.2.1 rs its')
      ∨ (res.2.1 = GoErr.eof ∧ res.1 = -1 ∧ rs = [] ∧ its = [])
      ∨ (res.2.1 ≠ GoErr.nil ∧ res.1 = -1 ∧ rs = [] ∧ its = [Item.err] ∧
          (res.2.1 = GoErr.other ∨ ∃ s, pd s = none ∧ res.2.1 = (pf s 64).2)))

theorem goReads_rep (hR : GoSrc.newick_read_Found = true)
    (hT : GoSrc.newick_nextToken_Found = true) (hN : GoSrc.nameFromText_Found = true)
    (hQ : GoSrc.quoted_Found = true) {pf : PF} {pd : Bytes → Option Dist} (hpf : PFModel pf pd)
    (e : Ending) (fuel : Nat) :
    ∀ (calls : Nat) (x : Bytes) (heap : Heap) (last : Option UInt8) (rb : Bytes),
      x.length + 1 ≤ calls → x.length + 1 ≤ fuel →
      ReadsRep pf pd heap (goReads pf fuel calls heap ⟨last, x, e⟩ rb) (decodeSrc pd e x) := by
  intro calls
  induction calls with
  | zero => intro x heap last rb h; omega
  | succ n ih =>
    intro x heap last rb hc hf
    have hp := newick_read_model hR hT hN hQ hpf x e heap last rb fuel hf
    cases hr : readTree pd e x with
    | eof =>
      simp only [hr] at hp
      rw [decodeSrc_eof _ _ _ hr]
      simp only [goReads, hp]
      rw [if_neg (by decide)]
      exact ⟨⟨[zero], rfl⟩, Or.inr (Or.inl ⟨rfl, rfl, rfl, rfl⟩)⟩
    | err =>
      simp only [hr] at hp
      obtain ⟨err, heap', r', rb', h1, h2, h3, _⟩ := hp
      have hfr := newick_read_frame hR hT hN hQ pf fuel heap _ rb _ _ _ _ _ h1
      rw [decodeSrc_err _ _ _ hr]
      simp only [goReads, h1]
      rw [if_neg h2]
      exact ⟨hfr, Or.inr (Or.inr ⟨h2, rfl, rfl, rfl, h3⟩)⟩
    | tree t rest =>
      simp only [hr] at hp
      obtain ⟨heap', last', rb', h1, h2, h3⟩ := hp
      have hlt := readTree_rest_lt pd e x t rest hr
      rw [decodeSrc_tree _ _ _ _ _ hr]
      simp only [goReads, h1, if_true]
      exact ⟨h3, Or.inl ⟨rfl, rfl, t, _, rfl, h2, ih rest heap' last' rb' (by omega) (by omega)⟩⟩

theorem ReadsRep.wf {pf : PF} {pd : Bytes → Option Dist} : ∀ {R : List Res} {h : Heap}
    {its : List (Item Tree)}, ReadsRep pf pd h R its → WF R := by
  intro R
  induction R with
  | nil => intro h its hr; exact hr.elim
  | cons res rs ih =>
    intro h its hr
    simp only [ReadsRep] at hr
    simp only [WF]
    rcases hr.2 with ⟨h0, _, t, its', _, _, hrec⟩ | ⟨h0, _, h1, _⟩ | ⟨h0, _, h1, _⟩
    · exact Or.inl ⟨h0, ih hrec⟩
    · exact Or.inr ⟨by rw [h0]; decide, h1⟩
    · exact Or.inr ⟨h0, h1⟩

/-- the heap after any prefix of the calls extends the initial heap -/
theorem ReadsRep.ext {pf : PF} {pd : Bytes → Option Dist} : ∀ {R : List Res} {h : Heap}
    {its : List (Item Tree)}, ReadsRep pf pd h R its → ∀ D, D <+: R → Ext h (lastHeap h D) := by
  intro R
  induction R with
  | nil => intro h its hr; exact hr.elim
  | cons res rs ih =>
    intro h its hr D hD
    cases D with
    | nil => exact Ext.refl h
    | cons d D' =>
      have hd : d = res := (List.cons_prefix_cons.1 hD).1
      have hD' : D' <+: rs := (List.cons_prefix_cons.1 hD).2
      subst hd
      simp only [ReadsRep] at hr
      simp only [lastHeap]
      rcases hr.2 with ⟨h0, _, t, its', _, _, hrec⟩ | ⟨h0, _, h1, _⟩ | ⟨h0, _, h1, _⟩
      · exact Ext.trans hr.1 (ih hrec D' hD')
      · subst h1
        rw [List.prefix_nil.1 hD']
        exact hr.1
      · subst h1
        rw [List.prefix_nil.1 hD']
        exact hr.1

theorem RepT.ext {heap heap' : Heap} {p : Int} {t : Tree} (h : RepT heap p t) (he : Ext heap heap') :
    RepT heap' p t := by
  obtain ⟨m, rfl⟩ := he
  exact RepT.append h m

/-- Every item handed over under the consumer `y`, against the model's list `its` of the whole input:
the item at position `i` is a tree pointer that REPRESENTS, in the heap after the LAST call made (later
calls only append cells), the model's tree at position `i`; or it is an error item and the model's item
at position `i` is its error item. -/
theorem log_rep {pf : PF} {pd : Bytes → Option Dist} (y : List GoItem → Bool) :
    ∀ (R : List Res) (h : Heap) (its : List (Item Tree)) (log : List GoItem), ReadsRep pf pd h R its →
    ∀ (i : Nat) (p : Int) (err : GoErr), (itemsOf (readsDone y log R))[i]? = some (p, err) →
      (err = GoErr.nil → ∃ t, its[i]? = some (Item.ok t) ∧ RepT (lastHeap h (readsDone y log R)) p t) ∧
      (err ≠ GoErr.nil → its[i]? = some Item.err ∧ its.length = i + 1) := by
  intro R
  induction R with
  | nil => intro h its log hr; exact hr.elim
  | cons res rs ih =>
    intro h its log hr i p err hi
    have hr' := hr
    simp only [ReadsRep] at hr
    rcases hr.2 with ⟨h0, _, t, its', hits, hrep, hrec⟩ | ⟨h0, _, h1, _⟩ | ⟨h0, _, h1, hits, _⟩
    · subst hits
      by_cases c3 : y (log ++ [(res.1, GoErr.nil)]) = true
      · rw [readsDone_go rs h0 c3] at hi ⊢
        rw [itemsOf_cons_nil h0] at hi
        simp only [lastHeap]
        cases i with
        | zero =>
          simp only [List.getElem?_cons_zero, Option.some.injEq, Prod.mk.injEq] at hi
          obtain ⟨hp, he⟩ := hi
          subst hp; subst he
          refine ⟨fun _ => ⟨t, rfl, ?_⟩, fun hh => absurd rfl hh⟩
          exact RepT.ext hrep (ReadsRep.ext hrec _ (readsDone_prefix y rs _))
        | succ i =>
          simp only [List.getElem?_cons_succ] at hi ⊢
          have := ih res.2.2.1 its' _ hrec i p err hi
          exact ⟨this.1, fun hh => ⟨(this.2 hh).1, by simp [(this.2 hh).2]⟩⟩
      · rw [readsDone_stop rs (fun hh => c3 hh.2)] at hi ⊢
        rw [itemsOf_cons_nil h0, itemsOf_nil] at hi
        simp only [lastHeap]
        cases i with
        | zero =>
          simp only [List.getElem?_cons_zero, Option.some.injEq, Prod.mk.injEq] at hi
          obtain ⟨hp, he⟩ := hi
          subst hp; subst he
          exact ⟨fun _ => ⟨t, rfl, hrep⟩, fun hh => absurd rfl hh⟩
        | succ i => simp at hi
    · subst h1
      rw [readsDone_stop [] (fun hh => by rw [h0] at hh; exact absurd hh.1 (by decide)),
        itemsOf_single_eof h0] at hi
      simp at hi
    · subst h1
      subst hits
      rw [readsDone_stop [] (fun hh => h0 hh.1)] at hi ⊢
      by_cases c1 : res.2.1 = GoErr.eof
      · rw [itemsOf_single_eof c1] at hi; simp at hi
      · rw [itemsOf_single_err h0 c1] at hi
        cases i with
        | zero =>
          simp only [List.getElem?_cons_zero, Option.some.injEq, Prod.mk.injEq] at hi
          obtain ⟨hp, he⟩ := hi
          subst he
          exact ⟨fun hh => absurd hh h0, fun _ => ⟨rfl, rfl⟩⟩
        | succ i => simp at hi

/-- the items of a complete run whose error (if any) is not `io.EOF`, read back in any heap that extends
the last one, are the model's items -/
theorem items_length {pf : PF} {pd : Bytes → Option Dist} : ∀ (R : List Res) (h : Heap)
    (its : List (Item Tree)), ReadsRep pf pd h R its →
    (R.getLast?.map (·.2.1) = some GoErr.eof → Item.err ∉ its) →
    (itemsOf R).length = its.length := by
  intro R
  induction R with
  | nil => intro h its hr; exact hr.elim
  | cons res rs ih =>
    intro h its hr hl
    simp only [ReadsRep] at hr
    rcases hr.2 with ⟨h0, _, t, its', hits, hrep, hrec⟩ | ⟨h0, _, h1, hits⟩ | ⟨h0, _, h1, hits, _⟩
    · subst hits
      have hne' : rs ≠ [] := by intro hh; rw [hh] at hrec; exact hrec.elim
      rw [List.getLast?_cons_of_ne_nil hne'] at hl
      rw [itemsOf_cons_nil h0]
      simp only [List.length_cons]
      rw [ih _ _ hrec (fun hh hm => hl hh (List.mem_cons_of_mem _ hm))]
    · subst h1; subst hits
      rw [itemsOf_single_eof h0]; rfl
    · subst h1; subst hits
      by_cases c1 : res.2.1 = GoErr.eof
      · exact absurd (List.mem_singleton.2 rfl) (hl (by simp [c1]))
      · rw [itemsOf_single_err h0 c1]; rfl

/-- the last result of the run is not `io.EOF` when the model's list has an error item and `ParseFloat`
never returns `io.EOF` where the model's parser rejects -/
theorem last_not_eof {pf : PF} {pd : Bytes → Option Dist} : ∀ (R : List Res) (h : Heap)
    (its : List (Item Tree)), ReadsRep pf pd h R its →
    (∀ s, pd s = none → (pf s 64).2 ≠ GoErr.eof) → Item.err ∈ its →
    R.getLast?.map (·.2.1) ≠ some GoErr.eof := by
  intro R
  induction R with
  | nil => intro h its hr; exact hr.elim
  | cons res rs ih =>
    intro h its hr hne hm
    simp only [ReadsRep] at hr
    rcases hr.2 with ⟨h0, _, t, its', hits, hrep, hrec⟩ | ⟨h0, _, h1, hits⟩ | ⟨h0, _, h1, hits, h3⟩
    · subst hits
      have hne' : rs ≠ [] := by intro hh; rw [hh] at hrec; exact hrec.elim
      rw [List.getLast?_cons_of_ne_nil hne']
      exact ih _ _ hrec hne (by simpa using hm)
    · subst hits; simp at hm
    · subst h1
      rcases h3 with h3 | ⟨s, hs, h3⟩
      · simp [h3]
      · simp only [List.getLast?_singleton, Option.map_some, ne_eq, Option.some.injEq]
        rw [h3]; exact hne s hs

/-- the model's list has an error item exactly when the run's last result is not the model's clean end -/
theorem last_eof_of_no_err {pf : PF} {pd : Bytes → Option Dist} : ∀ (R : List Res) (h : Heap)
    (its : List (Item Tree)), ReadsRep pf pd h R its → Item.err ∉ its →
    R.getLast?.map (·.2.1) = some GoErr.eof := by
  intro R
  induction R with
  | nil => intro h its hr; exact hr.elim
  | cons res rs ih =>
    intro h its hr hm
    simp only [ReadsRep] at hr
    rcases hr.2 with ⟨h0, _, t, its', hits, hrep, hrec⟩ | ⟨h0, _, h1, hits⟩ | ⟨h0, _, h1, hits, h3⟩
    · subst hits
      have hne' : rs ≠ [] := by intro hh; rw [hh] at hrec; exact hrec.elim
      rw [List.getLast?_cons_of_ne_nil hne']
      exact ih _ _ hrec (fun hh => hm (List.mem_cons_of_mem _ hh))
    · subst h1; simp [h0]
    · subst hits; simp at hm

/-! ## The run of `Reader`, assembled -/

/-- the `read()` results of the uninterrupted run of `Reader` (a fresh `reader`: empty buffer) on the
source `r`, from the heap `heap` -/
def reads (pf : PF) (fuel : Nat) (heap : Heap) (r : ByteRd) : List Res := goReads pf fuel fuel heap r []

/-- … and the items `Reader` hands over for them -/
def goItems (pf : PF) (fuel : Nat) (heap : Heap) (r : ByteRd) : List GoItem := itemsOf (reads pf fuel heap r)

/-- a Go item read back in the heap `H`: the tree at the pointer, or the error item -/
def absItem (H : Heap) (it : GoItem) : Item Tree :=
  if it.2 = GoErr.nil then .ok (absT H H.length it.1) else .err

/-- the list of results is the chain of `read()` calls: the first on the initial state, each next one on
the heap, reader and buffer the previous one handed back, and only after a result without error -/
theorem goReads_chain (pf : PF) (fuel : Nat) : ∀ (calls : Nat) (heap : Heap) (r : ByteRd) (rb : Bytes)
    (i : Nat) (res : Res), (goReads pf fuel calls heap r rb)[i]? = some res →
    (i = 0 → GoSrc.newick_read pf fuel heap r rb = some res) ∧
    (∀ res', (goReads pf fuel calls heap r rb)[i + 1]? = some res' →
      res.2.1 = GoErr.nil ∧ GoSrc.newick_read pf fuel res.2.2.1 res.2.2.2.1 res.2.2.2.2 = some res') := by
  intro calls
  induction calls with
  | zero => intro heap r rb i res h; simp [goReads] at h
  | succ n ih =>
    intro heap r rb i res h
    simp only [goReads] at h ⊢
    cases hr : GoSrc.newick_read pf fuel heap r rb with
    | none => rw [hr] at h; simp at h
    | some res0 =>
      rw [hr] at h
      simp only at h ⊢
      by_cases c : res0.2.1 = GoErr.nil
      · rw [if_pos c] at h ⊢
        cases i with
        | zero =>
          simp only [List.getElem?_cons_zero, Option.some.injEq] at h
          subst h
          refine ⟨fun _ => rfl, fun res' h' => ⟨c, ?_⟩⟩
          simp only [List.getElem?_cons_succ] at h'
          exact (ih _ _ _ 0 res' h').1 rfl
        | succ i =>
          simp only [List.getElem?_cons_succ] at h ⊢
          exact ⟨fun hh => by omega, (ih _ _ _ i res h).2⟩
      · rw [if_neg c] at h ⊢
        cases i with
        | zero =>
          simp only [List.getElem?_cons_zero, Option.some.injEq] at h
          subst h
          exact ⟨fun _ => rfl, fun res' h' => by simp at h'⟩
        | succ i => simp at h

theorem lastHeap_getLast : ∀ (D : List Res) (h : Heap) (res : Res), D.getLast? = some res →
    lastHeap h D = res.2.2.1 := by
  intro D
  induction D with
  | nil => intro h res hl; simp at hl
  | cons d D ih =>
    intro h res hl
    simp only [lastHeap]
    cases D with
    | nil => simp at hl; subst hl; rfl
    | cons d' D' =>
      rw [List.getLast?_cons_cons] at hl
      exact ih _ _ hl

/-- if the consumer declined the last item handed over (a tree), the last call made is the one that read
it: no further `read()`, hence no further allocation -/
theorem readsDone_declined (y : List GoItem → Bool) : ∀ (R : List Res) (log : List GoItem), WF R →
    ∀ p, (itemsOf (readsDone y log R)).getLast? = some (p, GoErr.nil) →
      y (log ++ itemsOf (readsDone y log R)) = false →
      ∃ res, (readsDone y log R).getLast? = some res ∧ res.1 = p ∧ res.2.1 = GoErr.nil := by
  intro R
  induction R with
  | nil => intro log hw; exact absurd hw (by simp [WF])
  | cons res rs ih =>
    intro log hw p hl hy
    simp only [WF] at hw
    rcases hw with ⟨h0, hw⟩ | ⟨h0, rfl⟩
    · by_cases c3 : y (log ++ [(res.1, GoErr.nil)]) = true
      · rw [readsDone_go rs h0 c3] at hl hy ⊢
        rw [itemsOf_cons_nil h0] at hl hy
        have hne := readsDone_ne_nil y rs (log ++ [(res.1, GoErr.nil)])
          (by intro hh; rw [hh] at hw; simp [WF] at hw)
        rw [List.getLast?_cons_of_ne_nil hne]
        by_cases hi : itemsOf (readsDone y (log ++ [(res.1, GoErr.nil)]) rs) = []
        · rw [hi] at hy
          rw [hy] at c3
          cases c3
        · rw [List.getLast?_cons_of_ne_nil hi] at hl
          exact ih _ hw p hl (by rw [List.append_assoc]; exact hy)
      · rw [readsDone_stop rs (fun hh => c3 hh.2)] at hl ⊢
        rw [itemsOf_cons_nil h0, itemsOf_nil] at hl
        simp only [List.getLast?_singleton, Option.some.injEq, Prod.mk.injEq] at hl
        exact ⟨res, rfl, hl.1, h0⟩
    · rw [readsDone_stop [] (fun hh => h0 hh.1)] at hl
      by_cases c1 : res.2.1 = GoErr.eof
      · rw [itemsOf_single_eof c1] at hl; simp at hl
      · rw [itemsOf_single_err h0 c1] at hl
        simp only [List.getLast?_singleton, Option.some.injEq, Prod.mk.injEq] at hl
        exact absurd hl.2 h0

/-- an item is never `(·, io.EOF)` -/
theorem mem_itemsOf_ne_eof {R : List Res} {p : Int} {err : GoErr} (h : (p, err) ∈ itemsOf R) :
    err ≠ GoErr.eof := by
  simp only [itemsOf, List.mem_filterMap] at h
  obtain ⟨res, _, hres⟩ := h
  unfold resItem at hres
  split at hres
  · cases hres
  · rename_i c1
    split at hres
    · rename_i c2
      simp only [Option.some.injEq, Prod.mk.injEq] at hres
      rw [← hres.2]; decide
    · simp only [Option.some.injEq, Prod.mk.injEq] at hres
      rw [← hres.2]; exact c1

theorem map_prefix_of_getElem {α β : Type} (f : α → β) : ∀ (L : List α) (its : List β),
    (∀ (i : Nat) (a : α), L[i]? = some a → its[i]? = some (f a)) → L.map f <+: its := by
  intro L
  induction L with
  | nil => intro its _; simp
  | cons a L ih =>
    intro its h
    cases its with
    | nil => have := h 0 a rfl; simp at this
    | cons b its =>
      have h0 := h 0 a rfl
      simp only [List.getElem?_cons_zero, Option.some.injEq] at h0
      subst h0
      rw [List.map_cons]
      refine (List.prefix_cons_inj _).2 (ih its fun i c hc => ?_)
      have := h (i + 1) c (by simpa using hc)
      simpa using this

/-- the consumer "at most `k` items" sees the first `k` items -/
theorem takeThroughH_count {α : Type} (k : Nat) : ∀ (xs acc : List α), acc.length < k →
    takeThroughH (fun l => decide (l.length < k)) acc xs = acc ++ xs.take (k - acc.length) := by
  intro xs
  induction xs with
  | nil => intro acc _; simp [takeThroughH]
  | cons x xs ih =>
    intro acc hk
    rw [takeThroughH_cons]
    by_cases c : acc.length + 1 < k
    · rw [if_pos (by simpa using c), ih _ (by simpa using c)]
      have : k - acc.length = (k - (acc ++ [x]).length) + 1 := by simp; omega
      rw [this, List.take_succ_cons]
      simp
    · rw [if_neg (by simpa using c)]
      have : k - acc.length = 1 := by omega
      rw [this]
      simp

/-- For an ARBITRARY `ParseFloat`, any heap, source and consumer, with `r.rest.length + 1` fuel: the run
is complete (it ends with a result whose error is not `nil`), it is described by the model for the
distance parser `pdOf pf` that `pf` induces, and the closure returns the items cut by the consumer and
the heap after the calls made. -/
theorem newick_Reader_raw (hF : GoSrc.newick_Reader_Found = true) (hR : GoSrc.newick_read_Found = true)
    (hT : GoSrc.newick_nextToken_Found = true) (hN : GoSrc.nameFromText_Found = true)
    (hQ : GoSrc.quoted_Found = true) (pf : PF) (fuel : Nat) (heap : Heap) (r : ByteRd)
    (y : List GoItem → Bool) (hf : r.rest.length + 1 ≤ fuel) :
    ReadsRep pf (pdOf pf) heap (reads pf fuel heap r) (decodeSrc (pdOf pf) r.ending r.rest) ∧
    WF (reads pf fuel heap r) ∧
    GoSrc.newick_Reader pf fuel heap r y
      = some (takeThroughH y [] (goItems pf fuel heap r), lastHeap heap (readsDone y [] (reads pf fuel heap r))) ∧
    takeThroughH y [] (goItems pf fuel heap r) = itemsOf (readsDone y [] (reads pf fuel heap r)) := by
  obtain ⟨last, x, e⟩ := r
  have hrep := goReads_rep hR hT hN hQ (pfModel_pdOf pf) e fuel fuel x heap last [] hf hf
  have hw := hrep.wf
  refine ⟨hrep, hw, ?_, ?_⟩
  · rw [newick_Reader_spec hF, nrSpec_reads, runReads_wf y _ [] heap hw]
    have := items_readsDone y _ [] hw
    simp only [List.nil_append] at this ⊢
    rw [this]; rfl
  · have := items_readsDone y _ [] hw
    simp only [List.nil_append] at this
    exact this.symm

/-- the same run against the model for any `pd` with `PFModel pf pd` -/
theorem reads_rep (hR : GoSrc.newick_read_Found = true)
    (hT : GoSrc.newick_nextToken_Found = true) (hN : GoSrc.nameFromText_Found = true)
    (hQ : GoSrc.quoted_Found = true) {pf : PF} {pd : Bytes → Option Dist} (hpf : PFModel pf pd)
    (fuel : Nat) (heap : Heap) (last : Option UInt8) (x : Bytes) (e : Ending) (hf : x.length + 1 ≤ fuel) :
    ReadsRep pf pd heap (reads pf fuel heap ⟨last, x, e⟩) (decodeSrc pd e x) :=
  goReads_rep hR hT hN hQ hpf e fuel fuel x heap last [] hf hf

/-- in a complete run exactly the results before the last have error `nil` -/
theorem WF.nil_iff : ∀ {R : List Res}, WF R → ∀ (i : Nat) (res : Res), R[i]? = some res →
    (res.2.1 = GoErr.nil ↔ i + 1 < R.length) := by
  intro R
  induction R with
  | nil => intro hw; exact absurd hw (by simp [WF])
  | cons r rs ih =>
    intro hw i res hi
    simp only [WF] at hw
    rcases hw with ⟨h0, hw⟩ | ⟨h0, rfl⟩
    · have hne' : rs ≠ [] := by intro hh; rw [hh] at hw; simp [WF] at hw
      cases i with
      | zero =>
        simp only [List.getElem?_cons_zero, Option.some.injEq] at hi
        subst hi
        have : 0 < rs.length := List.length_pos_iff.2 hne'
        simp [h0]; omega
      | succ i =>
        simp only [List.getElem?_cons_succ] at hi
        rw [ih hw i res hi]
        simp
    · cases i with
      | zero =>
        simp only [List.getElem?_cons_zero, Option.some.injEq] at hi
        subst hi
        simp [h0]
      | succ i => simp at hi

/-- the consumer "at most `k` items" has the first `k` calls made -/
theorem readsDone_count (k : Nat) : ∀ (R : List Res) (log : List GoItem), WF R → log.length < k →
    readsDone (fun l => decide (l.length < k)) log R = R.take (k - log.length) := by
  intro R
  induction R with
  | nil => intro log hw; exact absurd hw (by simp [WF])
  | cons res rs ih =>
    intro log hw hk
    simp only [WF] at hw
    obtain ⟨n, hn⟩ : ∃ n, k - log.length = n + 1 := ⟨k - log.length - 1, by omega⟩
    rw [hn, List.take_succ_cons]
    rcases hw with ⟨h0, hw⟩ | ⟨h0, rfl⟩
    · by_cases c : log.length + 1 < k
      · rw [readsDone_go rs h0 (by simpa using c), ih _ hw (by simpa using c)]
        have : k - (log ++ [(res.1, GoErr.nil)]).length = n := by simp; omega
        rw [this]
      · rw [readsDone_stop rs (fun hh => c (by simpa using hh.2))]
        have : n = 0 := by omega
        rw [this]; rfl
    · rw [readsDone_stop [] (fun hh => h0 hh.1)]; simp

/-- as many items as the model has, when the run does not end with an `io.EOF` that stands for a model
error -/
theorem goItems_length (hR : GoSrc.newick_read_Found = true)
    (hT : GoSrc.newick_nextToken_Found = true) (hN : GoSrc.nameFromText_Found = true)
    (hQ : GoSrc.quoted_Found = true) {pf : PF} {pd : Bytes → Option Dist} (hpf : PFModel pf pd)
    (fuel : Nat) (heap : Heap) (last : Option UInt8) (x : Bytes) (e : Ending) (hf : x.length + 1 ≤ fuel)
    (hH : (∀ s, pd s = none → (pf s 64).2 ≠ GoErr.eof) ∨ Item.err ∉ decodeSrc pd e x) :
    (goItems pf fuel heap ⟨last, x, e⟩).length = (decodeSrc pd e x).length := by
  have hrep := reads_rep hR hT hN hQ hpf fuel heap last x e hf
  refine items_length _ _ _ hrep fun hl hm => ?_
  rcases hH with hH | hH
  · exact last_not_eof _ _ _ hrep hH hm hl
  · exact hH hm

end NwkIt
end Bio.GoSrcLemmas
