/-
  Helper lemmas for property C03 (formats/sam): well-formedness predicates,
  tag codec, record round trip, file readers.
-/
import Bio.Lemmas.Codec
import Bio.Model.Sam
namespace Bio.Sam
open Bio

/-! ## Well-formedness predicates (all decidable) -/

/-- Free of TAB, LF, CR. -/
def textOK (s : Bytes) : Prop := ∀ b ∈ s, b ≠ 9 ∧ b ≠ 10 ∧ b ≠ 13

/-- Free of LF, CR (header lines may contain TABs). -/
def lineOK (s : Bytes) : Prop := ∀ b ∈ s, b ≠ 10 ∧ b ≠ 13

/-- A tag name: free of colon, TAB, LF, CR.  (The SAM-spec shape `[A-Za-z][A-Za-z0-9]`
implies this; no length restriction is needed.) -/
def nameOK (n : Bytes) : Prop := ∀ b ∈ n, b ≠ 58 ∧ b ≠ 9 ∧ b ≠ 10 ∧ b ≠ 13

def WFVal (pf : Bytes → Option Bytes) : TagVal → Prop
  | .A c => c ≠ 9 ∧ c ≠ 10 ∧ c ≠ 13
  | .I n => int64Min ≤ n ∧ n ≤ int64Max
  | .F t => pf t = some t ∧ textOK t
  | .Z s => textOK s
  | .H _ => True

def WF (pf : Bytes → Option Bytes) (s : Sam) : Prop :=
  textOK s.qname ∧ textOK s.rname ∧ textOK s.cigar ∧ textOK s.rnext ∧ textOK s.seq ∧
  textOK s.qual ∧ s.qname.head? ≠ some 64 ∧
  (int64Min ≤ s.flag ∧ s.flag ≤ int64Max) ∧ (int64Min ≤ s.pos ∧ s.pos ≤ int64Max) ∧
  (int64Min ≤ s.mapq ∧ s.mapq ≤ int64Max) ∧ (int64Min ≤ s.pnext ∧ s.pnext ≤ int64Max) ∧
  (int64Min ≤ s.tlen ∧ s.tlen ≤ int64Max) ∧
  (∀ p ∈ s.tags, nameOK p.1 ∧ WFVal pf p.2) ∧
  List.Pairwise (fun a b => bytesLt a.1 b.1 = true) s.tags

/-- A header line: starts with `@`, free of LF/CR. -/
def hdrOK (h : Bytes) : Prop := h.head? = some 64 ∧ lineOK h

/-- A plain line as the reader hands it to the parser: LF-free, not ending in CR. -/
def plainLine (l : Bytes) : Prop := (10 : UInt8) ∉ l ∧ l.getLast? ≠ some 13

instance (s : Bytes) : Decidable (textOK s) := inferInstanceAs (Decidable (∀ b ∈ s, _))
instance (s : Bytes) : Decidable (lineOK s) := inferInstanceAs (Decidable (∀ b ∈ s, _))
instance (s : Bytes) : Decidable (nameOK s) := inferInstanceAs (Decidable (∀ b ∈ s, _))
instance (pf : Bytes → Option Bytes) : (v : TagVal) → Decidable (WFVal pf v)
  | .A c => inferInstanceAs (Decidable (c ≠ 9 ∧ c ≠ 10 ∧ c ≠ 13))
  | .I n => inferInstanceAs (Decidable (int64Min ≤ n ∧ n ≤ int64Max))
  | .F t => inferInstanceAs (Decidable (pf t = some t ∧ textOK t))
  | .Z s => inferInstanceAs (Decidable (textOK s))
  | .H _ => inferInstanceAs (Decidable True)
instance (pf : Bytes → Option Bytes) (s : Sam) : Decidable (WF pf s) :=
  inferInstanceAs (Decidable (_ ∧ _))
instance (h : Bytes) : Decidable (hdrOK h) := inferInstanceAs (Decidable (_ ∧ _))
instance (l : Bytes) : Decidable (plainLine l) := inferInstanceAs (Decidable (_ ∧ _))

/-! ## Small byte facts -/

theorem ne_special_of_ge32 {b : UInt8} (h : 32 ≤ b.toNat) : b ≠ 9 ∧ b ≠ 10 ∧ b ≠ 13 := by
  refine ⟨?_, ?_, ?_⟩ <;> (intro e; subst e; revert h; decide)

theorem textOK_of_ge32 {s : Bytes} (h : ∀ b ∈ s, 32 ≤ b.toNat) : textOK s :=
  fun b hb => ne_special_of_ge32 (h b hb)

theorem textOK_nil : textOK [] := fun _ h => by simp at h

theorem textOK_append {a b : Bytes} (ha : textOK a) (hb : textOK b) : textOK (a ++ b) := by
  intro c hc
  rcases List.mem_append.1 hc with h | h
  · exact ha c h
  · exact hb c h

theorem textOK_cons {c : UInt8} {s : Bytes} (hc : c ≠ 9 ∧ c ≠ 10 ∧ c ≠ 13) (hs : textOK s) :
    textOK (c :: s) := by
  intro b hb
  rcases List.mem_cons.1 hb with h | h
  · subst h; exact hc
  · exact hs b h

theorem textOK_itoa (i : Int) : textOK (itoa i) := by
  apply textOK_of_ge32
  intro b hb
  have := itoa_range i b hb
  omega

theorem textOK_hexEnc (bs : Bytes) : textOK (hexEnc bs) := by
  apply textOK_of_ge32
  intro b hb
  have := hexEnc_range bs b hb
  omega

theorem textOK_of_nameOK {n : Bytes} (h : nameOK n) : textOK n :=
  fun b hb => (h b hb).2

theorem textOK.tab {s : Bytes} (h : textOK s) : TAB ∉ s := fun hm => (h _ hm).1 rfl
theorem textOK.lf {s : Bytes} (h : textOK s) : (10 : UInt8) ∉ s := fun hm => (h _ hm).2.1 rfl
theorem textOK.cr {s : Bytes} (h : textOK s) : (13 : UInt8) ∉ s := fun hm => (h _ hm).2.2 rfl
theorem nameOK.colon {s : Bytes} (h : nameOK s) : COLON ∉ s := fun hm => (h _ hm).1 rfl

theorem lineOK_of_textOK {s : Bytes} (h : textOK s) : lineOK s := fun b hb => (h b hb).2

theorem plainLine_of_lineOK {s : Bytes} (h : lineOK s) : plainLine s :=
  ⟨fun hm => (h _ hm).1 rfl, fun hl => (h _ (List.mem_of_getLast? hl)).2 rfl⟩

/-! ## Tag codec -/

theorem splitColon_append {a : Bytes} (h : COLON ∉ a) (r : Bytes) :
    splitColon (a ++ COLON :: r) = some (a, r) := by
  induction a with
  | nil => simp [splitColon]
  | cons b q ih =>
    simp only [List.mem_cons, not_or] at h
    have hb : (b == COLON) = false := by simpa using Ne.symm h.1
    simp [splitColon, hb, ih h.2]

theorem splitColon_none {f : Bytes} (h : COLON ∉ f) : splitColon f = none := by
  induction f with
  | nil => rfl
  | cons b q ih =>
    simp only [List.mem_cons, not_or] at h
    have hb : (b == COLON) = false := by simpa using Ne.symm h.1
    simp [splitColon, hb, ih h.2]

theorem splitColon_some {f a r : Bytes} (h : splitColon f = some (a, r)) :
    f = a ++ COLON :: r ∧ COLON ∉ a := by
  induction f generalizing a with
  | nil => simp [splitColon] at h
  | cons b q ih =>
    rw [splitColon] at h
    split at h
    · rename_i hb
      simp at hb
      cases h
      simp [hb]
    · rename_i hb
      split at h
      · rename_i a' r' hq
        cases h
        obtain ⟨h1, h2⟩ := ih hq
        refine ⟨by rw [h1]; rfl, ?_⟩
        simp only [List.mem_cons, not_or]
        exact ⟨fun e => hb (by simp [e]), h2⟩
      · cases h

theorem splitTag_text {name ty : Bytes} (hn : COLON ∉ name) (ht : COLON ∉ ty) (val : Bytes) :
    splitTag (name ++ COLON :: (ty ++ COLON :: val)) = some (name, ty, val) := by
  simp [splitTag, splitColon_append hn, splitColon_append ht]

/-- A field with fewer than two colons is rejected by `splitTag`. -/
theorem splitTag_none_of_count {f : Bytes} (h : f.count COLON < 2) : splitTag f = none := by
  unfold splitTag
  split
  · rfl
  · rename_i name r h1
    split
    · rfl
    · rename_i ty val h2
      obtain ⟨e1, _⟩ := splitColon_some h1
      obtain ⟨e2, _⟩ := splitColon_some h2
      subst e2; subst e1
      simp [List.count_append] at h
      omega

/-- One tag field to a (name, value) pair. -/
def parseTag (pf : Bytes → Option Bytes) (f : Bytes) : Option (Bytes × TagVal) :=
  match splitTag f with
  | none => none
  | some (name, ty, val) => (parseTagVal pf ty val).map (fun v => (name, v))

theorem parseTags_nil (pf : Bytes → Option Bytes) (acc : List (Bytes × TagVal)) :
    parseTags pf [] acc = some acc := rfl

theorem parseTags_cons (pf : Bytes → Option Bytes) (f : Bytes) (rest : List Bytes)
    (acc : List (Bytes × TagVal)) :
    parseTags pf (f :: rest) acc =
      match parseTag pf f with
      | none => none
      | some p => parseTags pf rest (tagInsert p.1 p.2 acc) := by
  rw [parseTags, parseTag]
  cases h : splitTag f with
  | none => rfl
  | some t =>
    obtain ⟨name, ty, val⟩ := t
    cases hv : parseTagVal pf ty val <;> simp [hv]

theorem parseTags_none_of_mem (pf : Bytes → Option Bytes) {f : Bytes} {fs : List Bytes}
    (hf : f ∈ fs) (h : parseTag pf f = none) (acc : List (Bytes × TagVal)) :
    parseTags pf fs acc = none := by
  induction fs generalizing acc with
  | nil => simp at hf
  | cons g rest ih =>
    rw [parseTags_cons]
    rcases List.mem_cons.1 hf with e | hm
    · subst e; rw [h]
    · split
      · rfl
      · exact ih hm _

theorem tagToText_A (name : Bytes) (c : UInt8) :
    tagToText name (.A c) = name ++ COLON :: ([65] ++ COLON :: [c]) := by simp [tagToText]
theorem tagToText_I (name : Bytes) (n : Int) :
    tagToText name (.I n) = name ++ COLON :: ([105] ++ COLON :: itoa n) := by simp [tagToText]
theorem tagToText_F (name : Bytes) (t : Bytes) :
    tagToText name (.F t) = name ++ COLON :: ([102] ++ COLON :: t) := by simp [tagToText]
theorem tagToText_Z (name : Bytes) (z : Bytes) :
    tagToText name (.Z z) = name ++ COLON :: ([90] ++ COLON :: z) := by simp [tagToText]
theorem tagToText_H (name : Bytes) (bs : Bytes) :
    tagToText name (.H bs) = name ++ COLON :: ([72] ++ COLON :: hexEnc bs) := by simp [tagToText]

theorem parseTag_tagToText (pf : Bytes → Option Bytes) {name : Bytes} {v : TagVal}
    (hn : nameOK name) (hv : WFVal pf v) : parseTag pf (tagToText name v) = some (name, v) := by
  have hc := hn.colon
  cases v with
  | A c => rw [tagToText_A, parseTag, splitTag_text hc (by decide)]; rfl
  | I n =>
    rw [tagToText_I, parseTag, splitTag_text hc (by decide)]; simp [parseTagVal, atoi_itoa n hv]
  | F t => rw [tagToText_F, parseTag, splitTag_text hc (by decide)]; simp [parseTagVal, hv.1]
  | Z z => rw [tagToText_Z, parseTag, splitTag_text hc (by decide)]; rfl
  | H bs =>
    rw [tagToText_H, parseTag, splitTag_text hc (by decide)]; simp [parseTagVal, hexDec_hexEnc]

theorem textOK_tagToText (pf : Bytes → Option Bytes) {name : Bytes} {v : TagVal}
    (hn : nameOK name) (hv : WFVal pf v) : textOK (tagToText name v) := by
  have hname := textOK_of_nameOK hn
  cases v with
  | A c =>
    rw [tagToText_A]
    exact textOK_append hname (textOK_cons (by decide) (textOK_cons (by decide)
      (textOK_cons (by decide) (textOK_cons hv textOK_nil))))
  | I n =>
    rw [tagToText_I]
    exact textOK_append hname (textOK_cons (by decide) (textOK_cons (by decide)
      (textOK_cons (by decide) (textOK_itoa n))))
  | F t =>
    rw [tagToText_F]
    exact textOK_append hname (textOK_cons (by decide) (textOK_cons (by decide)
      (textOK_cons (by decide) hv.2)))
  | Z z =>
    rw [tagToText_Z]
    exact textOK_append hname (textOK_cons (by decide) (textOK_cons (by decide)
      (textOK_cons (by decide) hv)))
  | H bs =>
    rw [tagToText_H]
    exact textOK_append hname (textOK_cons (by decide) (textOK_cons (by decide)
      (textOK_cons (by decide) (textOK_hexEnc bs))))

/-- A tag field `name:ty:val` whose value its type rejects. -/
theorem parseTag_bad_value (pf : Bytes → Option Bytes) {name ty : Bytes} (val : Bytes)
    (hn : COLON ∉ name) (ht : COLON ∉ ty) (h : parseTagVal pf ty val = none) :
    parseTag pf (name ++ COLON :: (ty ++ COLON :: val)) = none := by
  rw [parseTag, splitTag_text hn ht]; simp [h]

theorem parseTag_none_of_splitTag {pf : Bytes → Option Bytes} {f : Bytes}
    (h : splitTag f = none) : parseTag pf f = none := by
  rw [parseTag, h]

theorem parseTagVal_A_bad (pf : Bytes → Option Bytes) {val : Bytes} (h : val.length ≠ 1) :
    parseTagVal pf [65] val = none := by
  match val, h with
  | [], _ => rfl
  | [_], h => simp at h
  | _ :: _ :: _, _ => rfl

theorem parseTagVal_i_bad (pf : Bytes → Option Bytes) {val : Bytes} (h : atoi val = none) :
    parseTagVal pf [105] val = none := by
  simp [parseTagVal, h]

theorem parseTagVal_H_bad (pf : Bytes → Option Bytes) {val : Bytes} (h : val.length % 2 = 1) :
    parseTagVal pf [72] val = none := by
  simp [parseTagVal, hexDec_odd val h]

theorem parseTagVal_unknown (pf : Bytes → Option Bytes) {ty : Bytes} (val : Bytes)
    (h : ty ∉ [[65], [105], [102], [90], [72], [66]]) : parseTagVal pf ty val = none := by
  unfold parseTagVal
  split <;> first | rfl | simp at h

/-! ### `atoi` rejects non-numeric text -/

theorem parseNatAux_none_of_nondigit {s : Bytes} (h : ∃ b ∈ s, isDigit b = false) (acc : Nat) :
    parseNatAux acc s = none := by
  induction s generalizing acc with
  | nil => simp at h
  | cons c r ih =>
    rw [parseNatAux]
    split
    · rename_i hc
      obtain ⟨b, hb, hd⟩ := h
      rcases List.mem_cons.1 hb with e | hm
      · subst e; rw [hc] at hd; cases hd
      · exact ih ⟨b, hm, hd⟩ _
    · rfl

theorem parseNat_none_of_nondigit {s : Bytes} (h : ∃ b ∈ s, isDigit b = false) :
    parseNat s = none := by
  cases s with
  | nil => rfl
  | cons c r => exact parseNatAux_none_of_nondigit h 0

/-- A byte that is neither a digit nor a sign makes `atoi` fail. -/
theorem atoi_none_of_nondigit {s : Bytes}
    (h : ∃ b ∈ s, isDigit b = false ∧ b ≠ 43 ∧ b ≠ 45) : atoi s = none := by
  obtain ⟨b, hb, hd, h43, h45⟩ := h
  unfold atoi
  split
  rename_i x neg body heq
  have hbody : parseNat body = none := by
    apply parseNat_none_of_nondigit
    refine ⟨b, ?_, hd⟩
    split at heq
    · cases heq
      rcases List.mem_cons.1 hb with e | hm
      · exact absurd e h43
      · exact hm
    · cases heq
      rcases List.mem_cons.1 hb with e | hm
      · exact absurd e h45
      · exact hm
    · cases heq; exact hb
  rw [hbody]

theorem atoi_nil : atoi [] = none := by
  simp [atoi, parseNat]

/-! ## The tag map: insertion in any order gives the sorted list -/

abbrev Tags := List (Bytes × TagVal)

def SortedTags (l : Tags) : Prop := List.Pairwise (fun a b => bytesLt a.1 b.1 = true) l
def DistinctTags (l : Tags) : Prop := List.Pairwise (fun a b => a.1 ≠ b.1) l

def insertAll (ps : Tags) (acc : Tags) : Tags :=
  ps.foldl (fun acc p => tagInsert p.1 p.2 acc) acc

theorem insertAll_nil (acc : Tags) : insertAll [] acc = acc := rfl
theorem insertAll_cons (p : Bytes × TagVal) (ps acc : Tags) :
    insertAll (p :: ps) acc = insertAll ps (tagInsert p.1 p.2 acc) := rfl

theorem SortedTags.distinct {l : Tags} (h : SortedTags l) : DistinctTags l :=
  List.Pairwise.imp (fun hab => bytesLt_ne hab) h

theorem DistinctTags.perm {l l' : Tags} (h : DistinctTags l) (hp : l.Perm l') :
    DistinctTags l' :=
  List.Pairwise.perm h hp (fun hab => Ne.symm hab)

theorem tagInsert_perm (k : Bytes) (v : TagVal) (acc : Tags) (hk : ∀ q ∈ acc, k ≠ q.1) :
    (tagInsert k v acc).Perm ((k, v) :: acc) := by
  induction acc with
  | nil => exact List.Perm.refl _
  | cons q rest ih =>
    obtain ⟨k', v'⟩ := q
    rw [tagInsert]
    have hne : k ≠ k' := hk (k', v') (by simp)
    simp only [hne, if_false]
    split
    · exact List.Perm.refl _
    · exact (List.Perm.cons _ (ih (fun q hq => hk q (List.mem_cons_of_mem _ hq)))).trans
        (List.Perm.swap _ _ _)

theorem tagInsert_sorted (k : Bytes) (v : TagVal) (acc : Tags) (hk : ∀ q ∈ acc, k ≠ q.1)
    (hs : SortedTags acc) : SortedTags (tagInsert k v acc) := by
  induction acc with
  | nil => simp [tagInsert, SortedTags]
  | cons q rest ih =>
    obtain ⟨k', v'⟩ := q
    rw [tagInsert]
    have hne : k ≠ k' := hk (k', v') (by simp)
    simp only [hne, if_false]
    unfold SortedTags at hs ih ⊢
    rw [List.pairwise_cons] at hs
    split
    · rename_i hlt
      rw [List.pairwise_cons]
      refine ⟨?_, List.pairwise_cons.2 hs⟩
      intro z hz
      rcases List.mem_cons.1 hz with e | hm
      · subst e; exact hlt
      · exact bytesLt_trans hlt (hs.1 z hm)
    · rename_i hlt
      have hgt : bytesLt k' k = true := bytesLt_of_ne_of_not_lt hne (by simpa using hlt)
      have hk' : ∀ q ∈ rest, k ≠ q.1 := fun q hq => hk q (List.mem_cons_of_mem _ hq)
      rw [List.pairwise_cons]
      refine ⟨?_, ih hk' hs.2⟩
      intro z hz
      rcases List.mem_cons.1 ((tagInsert_perm k v rest hk').mem_iff.1 hz) with e | hm
      · subst e; exact hgt
      · exact hs.1 z hm

theorem insertAll_spec (ps acc : Tags) (hs : SortedTags acc) (hd : DistinctTags (ps ++ acc)) :
    SortedTags (insertAll ps acc) ∧ (insertAll ps acc).Perm (ps ++ acc) := by
  induction ps generalizing acc with
  | nil => exact ⟨hs, List.Perm.refl _⟩
  | cons p ps ih =>
    rw [insertAll_cons]
    have hd' := hd
    unfold DistinctTags at hd'
    rw [List.cons_append, List.pairwise_cons] at hd'
    have hk : ∀ q ∈ acc, p.1 ≠ q.1 := fun q hq => hd'.1 q (List.mem_append_right _ hq)
    have hperm := tagInsert_perm p.1 p.2 acc hk
    have hsorted := tagInsert_sorted p.1 p.2 acc hk hs
    have hp2 : (ps ++ tagInsert p.1 p.2 acc).Perm (p :: ps ++ acc) :=
      ((List.Perm.append_left ps hperm).trans List.perm_middle)
    have := ih _ hsorted (hd.perm hp2.symm)
    exact ⟨this.1, this.2.trans hp2⟩

/-- Inserting any permutation of a strictly sorted tag list into the empty map yields that
list. -/
theorem insertAll_perm_sorted {ps tags : Tags} (hp : ps.Perm tags) (hs : SortedTags tags) :
    insertAll ps [] = tags := by
  have hd : DistinctTags (ps ++ []) := by
    rw [List.append_nil]; exact hs.distinct.perm hp.symm
  obtain ⟨h1, h2⟩ := insertAll_spec ps [] List.Pairwise.nil hd
  rw [List.append_nil] at h2
  refine List.Perm.eq_of_pairwise ?_ h1 hs (h2.trans hp)
  intro a b _ _ hab hba
  rw [bytesLt_asymm hab] at hba; cases hba

theorem parseTags_eq_insertAll (pf : Bytes → Option Bytes) (g : Bytes → Bytes × TagVal)
    (fs : List Bytes) (h : ∀ f ∈ fs, parseTag pf f = some (g f)) (acc : Tags) :
    parseTags pf fs acc = some (insertAll (fs.map g) acc) := by
  induction fs generalizing acc with
  | nil => rfl
  | cons f rest ih =>
    rw [parseTags_cons, h f (by simp)]
    exact ih (fun f' hf' => h f' (List.mem_cons_of_mem _ hf')) _

theorem tagsOK_texts (pf : Bytes → Option Bytes) {tags : Tags}
    (hw : ∀ p ∈ tags, nameOK p.1 ∧ WFVal pf p.2) :
    ∀ t ∈ tagsToText tags, textOK t := by
  intro t ht
  rw [tagsToText, mem_sortBytes, List.mem_map] at ht
  obtain ⟨p, hp, rfl⟩ := ht
  exact textOK_tagToText pf (hw p hp).1 (hw p hp).2

theorem parseTags_tagsToText (pf : Bytes → Option Bytes) {tags : Tags}
    (hw : ∀ p ∈ tags, nameOK p.1 ∧ WFVal pf p.2) (hs : SortedTags tags) :
    parseTags pf (tagsToText tags) [] = some tags := by
  let g : Bytes → Bytes × TagVal := fun f => (parseTag pf f).getD ([], .H [])
  have hg : ∀ p ∈ tags, g (tagToText p.1 p.2) = p := by
    intro p hp
    show (parseTag pf (tagToText p.1 p.2)).getD _ = p
    rw [parseTag_tagToText pf (hw p hp).1 (hw p hp).2]; rfl
  have hall : ∀ f ∈ tagsToText tags, parseTag pf f = some (g f) := by
    intro f hf
    rw [tagsToText, mem_sortBytes, List.mem_map] at hf
    obtain ⟨p, hp, rfl⟩ := hf
    rw [hg p hp, parseTag_tagToText pf (hw p hp).1 (hw p hp).2]
  rw [parseTags_eq_insertAll pf g _ hall]
  congr 1
  apply insertAll_perm_sorted _ hs
  have h1 : ((tagsToText tags).map g).Perm ((tags.map fun p => tagToText p.1 p.2).map g) :=
    (sortBytes_perm _).map g
  have h2 : (tags.map fun p => tagToText p.1 p.2).map g = tags := by
    rw [List.map_map]
    conv => rhs; rw [← List.map_id tags]
    exact List.map_congr_left (fun p hp => hg p hp)
  rw [h2] at h1
  exact h1

/-! ## Record round trip -/

theorem pieces_textOK (pf : Bytes → Option Bytes) {s : Sam} (h : WF pf s) :
    ∀ p ∈ fields11 s ++ tagsToText s.tags, textOK p := by
  obtain ⟨hq, hr, hc, hx, hs, hql, -, -, -, -, -, -, htags, -⟩ := h
  intro p hp
  rcases List.mem_append.1 hp with hp | hp
  · simp only [fields11, List.mem_cons, List.not_mem_nil, or_false] at hp
    rcases hp with e | e | e | e | e | e | e | e | e | e | e <;> subst e <;>
      first | assumption | exact textOK_itoa _
  · exact tagsOK_texts pf htags p hp

theorem fields11_ne_nil (s : Sam) : fields11 s ≠ [] := by simp [fields11]

theorem splitOn_encodeLine (pf : Bytes → Option Bytes) {s : Sam} (h : WF pf s) :
    splitOn TAB (encodeLine s) = fields11 s ++ tagsToText s.tags := by
  apply splitOn_joinWith
  · simp [fields11]
  · intro p hp
    exact (pieces_textOK pf h p hp).tab

theorem parseLine_fields (pf : Bytes → Option Bytes) {s : Sam} (h : WF pf s) :
    parseLine pf (fields11 s ++ tagsToText s.tags) = some s := by
  obtain ⟨-, -, -, -, -, -, -, hfl, hpo, hmq, hpn, htl, htags, hsorted⟩ := h
  simp only [fields11, List.cons_append, List.nil_append, parseLine,
    atoi_itoa _ hfl, atoi_itoa _ hpo, atoi_itoa _ hmq, atoi_itoa _ hpn, atoi_itoa _ htl,
    parseTags_tagsToText pf htags hsorted]

theorem encodeLine_eq (s : Sam) :
    encodeLine s = s.qname ++ TAB :: joinWith TAB ((fields11 s).tail ++ tagsToText s.tags) := by
  simp [encodeLine, fields11, joinWith]

theorem encodeLine_ne_nil (s : Sam) : encodeLine s ≠ [] := by
  rw [encodeLine_eq]; simp

theorem encodeLine_head (pf : Bytes → Option Bytes) {s : Sam} (h : WF pf s) :
    (encodeLine s).head? ≠ some 64 := by
  have hh : s.qname.head? ≠ some 64 := h.2.2.2.2.2.2.1
  rw [encodeLine_eq]
  cases hq : s.qname with
  | nil => simp [TAB]
  | cons b r => rw [hq] at hh; simpa using hh

theorem encodeLine_textOK_or_tab (pf : Bytes → Option Bytes) {s : Sam} (h : WF pf s) :
    lineOK (encodeLine s) := by
  intro b hb
  rcases mem_joinWith hb with e | ⟨p, hp, hbp⟩
  · subst e; decide
  · exact (pieces_textOK pf h p hp b hbp).2

theorem encodeLine_plain (pf : Bytes → Option Bytes) {s : Sam} (h : WF pf s) :
    plainLine (encodeLine s) := plainLine_of_lineOK (encodeLine_textOK_or_tab pf h)

theorem writeCalls_flatten' (s : Sam) : (writeCalls s).flatten = encode s := by
  simp [writeCalls, encode, encodeLine, joinWith_append TAB (fields11_ne_nil s)]

/-! ## Readers -/

theorem lineItem_hdr (pf : Bytes → Option Bytes) {l : Bytes} (h : l.head? = some 64) :
    lineItem pf l = .ok (.hdr l) := by
  cases l with
  | nil => simp at h
  | cons b r => simp at h; subst h; rfl

theorem lineItem_not_hdr (pf : Bytes → Option Bytes) {l : Bytes} (h : l.head? ≠ some 64) :
    lineItem pf l = match parseLine pf (splitOn TAB l) with
      | some s => .ok (.sam s)
      | none => .err := by
  unfold lineItem
  split
  · simp at h
  · rfl

theorem lineItem_encodeLine (pf : Bytes → Option Bytes) {s : Sam} (h : WF pf s) :
    lineItem pf (encodeLine s) = .ok (.sam s) := by
  rw [lineItem_not_hdr pf (encodeLine_head pf h), splitOn_encodeLine pf h, parseLine_fields pf h]

theorem lineItem_bad (pf : Bytes → Option Bytes) {l : Bytes} (h : l.head? ≠ some 64)
    (hp : parseLine pf (splitOn TAB l) = none) : lineItem pf l = .err := by
  rw [lineItem_not_hdr pf h, hp]

theorem itemsOfLines_nil (pf : Bytes → Option Bytes) : itemsOfLines pf [] = [] := rfl

theorem itemsOfLines_append (pf : Bytes → Option Bytes) (a b : List Bytes) :
    itemsOfLines pf (a ++ b) = itemsOfLines pf a ++ itemsOfLines pf b := by
  simp [itemsOfLines]

theorem itemsOfLines_cons (pf : Bytes → Option Bytes) {l : Bytes} (h : l ≠ []) (ls : List Bytes) :
    itemsOfLines pf (l :: ls) = lineItem pf l :: itemsOfLines pf ls := by
  simp [itemsOfLines, h]

theorem itemsOfLines_hdrs (pf : Bytes → Option Bytes) (hs : List Bytes)
    (h : ∀ l ∈ hs, hdrOK l) : itemsOfLines pf hs = hs.map (fun l => Item.ok (Entry.hdr l)) := by
  induction hs with
  | nil => rfl
  | cons l rest ih =>
    have hl := (h l (by simp)).1
    have hne : l ≠ [] := by intro e; subst e; simp at hl
    rw [itemsOfLines_cons pf hne, lineItem_hdr pf hl,
      ih (fun m hm => h m (List.mem_cons_of_mem _ hm))]
    rfl

theorem itemsOfLines_records (pf : Bytes → Option Bytes) (rs : List Sam)
    (h : ∀ s ∈ rs, WF pf s) :
    itemsOfLines pf (rs.map encodeLine) = rs.map (fun s => Item.ok (Entry.sam s)) := by
  induction rs with
  | nil => rfl
  | cons s rest ih =>
    rw [List.map_cons, itemsOfLines_cons pf (encodeLine_ne_nil s),
      lineItem_encodeLine pf (h s (by simp)), ih (fun m hm => h m (List.mem_cons_of_mem _ hm))]
    rfl

theorem dropHeaders_append (a b : List (Item Entry)) :
    dropHeaders (a ++ b) = dropHeaders a ++ dropHeaders b := by
  induction a with
  | nil => rfl
  | cons x rest ih =>
    match x with
    | .ok (.hdr _) => simp [dropHeaders, ih]
    | .ok (.sam _) => simp [dropHeaders, ih]
    | .err => simp [dropHeaders, ih]

theorem dropHeaders_hdrs (hs : List Bytes) :
    dropHeaders (hs.map (fun l => Item.ok (Entry.hdr l))) = [] := by
  induction hs with
  | nil => rfl
  | cons l rest ih => simp [dropHeaders, ih]

theorem dropHeaders_records (rs : List Sam) :
    dropHeaders (rs.map (fun s => Item.ok (Entry.sam s))) = rs.map Item.ok := by
  induction rs with
  | nil => rfl
  | cons l rest ih => simp [dropHeaders, ih]

theorem dropHeaders_take (l : List (Item Entry)) (n : Nat) :
    ∃ m, dropHeaders (l.take n) = (dropHeaders l).take m := by
  induction l generalizing n with
  | nil => exact ⟨0, by simp [dropHeaders]⟩
  | cons x rest ih =>
    cases n with
    | zero => exact ⟨0, by simp [dropHeaders]⟩
    | succ n =>
      obtain ⟨m, hm⟩ := ih n
      match x with
      | .ok (.hdr _) => exact ⟨m, by simp [dropHeaders, hm]⟩
      | .ok (.sam _) => exact ⟨m + 1, by simp [dropHeaders, hm]⟩
      | .err => exact ⟨m + 1, by simp [dropHeaders, hm]⟩

theorem filter_take_exists {α : Type} (p : α → Bool) (l : List α) (n : Nat) :
    ∃ m, (l.take n).filter p = (l.filter p).take m := by
  induction l generalizing n with
  | nil => exact ⟨0, by simp⟩
  | cons x rest ih =>
    cases n with
    | zero => exact ⟨0, by simp⟩
    | succ n =>
      obtain ⟨m, hm⟩ := ih n
      by_cases hx : p x = true
      · exact ⟨m + 1, by simp [hx, hm]⟩
      · exact ⟨m, by simp [hx, hm]⟩

theorem itemsOfLines_take (pf : Bytes → Option Bytes) (ls : List Bytes) (n : Nat) :
    ∃ m, itemsOfLines pf (ls.take n) = (itemsOfLines pf ls).take m := by
  obtain ⟨m, hm⟩ := filter_take_exists (fun l : Bytes => decide (l ≠ [])) ls n
  refine ⟨m, ?_⟩
  unfold itemsOfLines
  rw [hm, List.map_take]

/-- When no line is empty, the item prefix has the same length as the line prefix. -/
theorem itemsOfLines_take_nonempty (pf : Bytes → Option Bytes) (ls : List Bytes)
    (h : ∀ l ∈ ls, l ≠ []) (n : Nat) :
    itemsOfLines pf (ls.take n) = (itemsOfLines pf ls).take n := by
  unfold itemsOfLines
  have h1 : ls.filter (fun l => decide (l ≠ [])) = ls :=
    List.filter_eq_self.2 (fun l hl => by simpa using h l hl)
  have h2 : (ls.take n).filter (fun l => decide (l ≠ [])) = ls.take n :=
    List.filter_eq_self.2 (fun l hl => by simpa using h l (List.mem_of_mem_take hl))
  rw [h1, h2, List.map_take]

theorem decodeHeader_lfFile (pf : Bytes → Option Bytes) (ls : List Bytes)
    (h : ∀ l ∈ ls, plainLine l) : decodeHeader pf (lfFile ls) = itemsOfLines pf ls := by
  simp [decodeHeader, decodeHeaderSrc, endItems, textLines_eof_lfFile ls h]

theorem decodeHeader_crlfFile (pf : Bytes → Option Bytes) (ls : List Bytes)
    (h : ∀ l ∈ ls, (10 : UInt8) ∉ l) : decodeHeader pf (crlfFile ls) = itemsOfLines pf ls := by
  simp [decodeHeader, decodeHeaderSrc, endItems, textLines_eof, scanLines_crlfFile ls h]

theorem decodeHeader_lfFile_last (pf : Bytes → Option Bytes) (ls : List Bytes) (last : Bytes)
    (h : ∀ l ∈ ls, plainLine l) (hne : last ≠ []) (hl : plainLine last) :
    decodeHeader pf (lfFile ls ++ last) = itemsOfLines pf (ls ++ [last]) := by
  simp [decodeHeader, decodeHeaderSrc, endItems, textLines_eof,
    scanLines_lfFile_append_last ls last h hne hl.1 hl.2]

theorem decode_eq (pf : Bytes → Option Bytes) (x : Bytes) :
    decode pf x = dropHeaders (decodeHeader pf x) := rfl

theorem decodeHeaderSrc_fail_take (pf : Bytes → Option Bytes) (ls : List Bytes)
    (h : ∀ l ∈ ls, plainLine l) (k : Nat) :
    ∃ n, decodeHeaderSrc pf .fail ((lfFile ls).take k) =
      itemsOfLines pf (ls.take n) ++ [Item.err] := by
  obtain ⟨n, hn⟩ := textLines_fail_take_lfFile ls h k
  exact ⟨n, by simp [decodeHeaderSrc, endItems, hn]⟩

/-- All lines of a file of header lines followed by well-formed records are plain. -/
theorem samLines_plain (pf : Bytes → Option Bytes) (hs : List Bytes) (rs : List Sam)
    (hh : ∀ l ∈ hs, hdrOK l) (hr : ∀ s ∈ rs, WF pf s) :
    ∀ l ∈ hs ++ rs.map encodeLine, plainLine l := by
  intro l hl
  rcases List.mem_append.1 hl with hl | hl
  · exact plainLine_of_lineOK (hh l hl).2
  · obtain ⟨s, hs', rfl⟩ := List.mem_map.1 hl
    exact encodeLine_plain pf (hr s hs')

theorem samLines_nonempty (hs : List Bytes) (rs : List Sam)
    (hh : ∀ l ∈ hs, hdrOK l) :
    ∀ l ∈ hs ++ rs.map encodeLine, l ≠ [] := by
  intro l hl
  rcases List.mem_append.1 hl with hl | hl
  · intro e; subst e; have := (hh [] hl).1; simp at this
  · obtain ⟨s, _, rfl⟩ := List.mem_map.1 hl
    exact encodeLine_ne_nil s

theorem itemsOfLines_samLines (pf : Bytes → Option Bytes) (hs : List Bytes) (rs : List Sam)
    (hh : ∀ l ∈ hs, hdrOK l) (hr : ∀ s ∈ rs, WF pf s) :
    itemsOfLines pf (hs ++ rs.map encodeLine) =
      hs.map (fun h => Item.ok (Entry.hdr h)) ++ rs.map (fun s => Item.ok (Entry.sam s)) := by
  rw [itemsOfLines_append, itemsOfLines_hdrs pf hs hh, itemsOfLines_records pf rs hr]

theorem dropHeaders_samItems (hs : List Bytes) (rs : List Sam) :
    dropHeaders (hs.map (fun h => Item.ok (Entry.hdr h)) ++
      rs.map (fun s => Item.ok (Entry.sam s))) = rs.map Item.ok := by
  rw [dropHeaders_append, dropHeaders_hdrs, dropHeaders_records]; rfl

/-! ## `parseLine` failures -/

theorem parseLine_too_few (pf : Bytes → Option Bytes) (fs : List Bytes) (h : fs.length < 11) :
    parseLine pf fs = none := by
  unfold parseLine
  split
  · simp at h; omega
  · rfl

theorem parseLine_bad_int (pf : Bytes → Option Bytes) (fs : List Bytes)
    (h : ∃ i ∈ [1, 3, 4, 7, 8], ∃ f, fs[i]? = some f ∧ atoi f = none) :
    parseLine pf fs = none := by
  unfold parseLine
  split
  · split
    · obtain ⟨i, hi, f, hf, hnone⟩ := h
      simp only [List.mem_cons, List.not_mem_nil, or_false] at hi
      rcases hi with rfl | rfl | rfl | rfl | rfl <;> simp at hf <;> subst hf <;> simp_all
    · rfl
  · rfl

theorem parseLine_none_of_tags (pf : Bytes → Option Bytes) (fs : List Bytes)
    (h : parseTags pf (fs.drop 11) [] = none) : parseLine pf fs = none := by
  unfold parseLine
  split
  · simp only [List.drop_succ_cons, List.drop_zero] at h
    split
    · simp [h]
    · rfl
  · rfl

theorem parseLine_none_of_tag (pf : Bytes → Option Bytes) (fs : List Bytes) {f : Bytes}
    (hf : f ∈ fs.drop 11) (h : parseTag pf f = none) : parseLine pf fs = none :=
  parseLine_none_of_tags pf fs (parseTags_none_of_mem pf hf h [])

end Bio.Sam
