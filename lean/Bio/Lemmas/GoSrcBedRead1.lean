/-
  `parseLine` of formats/bed/bed.go, as translated on every run from the Go SOURCE TEXT into
  `Bio.Generated.GoSrc.parseLine` (with `strconv.Atoi` and `strconv.ParseUint` as parameters `f`, `g`),
  against the hand-written model `Bio.Bed.parseLine`.

  * `BedRd.parseSpec A U` is the model's parser with the integer parser `A` and the byte parser `U` as
    parameters; `Bed.parseLine = parseSpec atoi parseU8` (`parseLine_eq_spec`);
  * for ARBITRARY `f`, `g` the translated `parseLine` is `parseSpec (reqA f) (u8G g)`, where
    `reqA f s` = the value of `f s` if its error is nil, `u8G g s` = `byte(value)` of `g s 0 8` if
    its error is nil (`go_parseLine_spec`) — in particular it never panics;
  * `parseSpec` looks at `U` only on the comma-separated pieces of a non-empty field 9
    (`parseSpec_congr_U`).

  Guarded by the translator's `parseLine_Found` flag as in `Bio.Lemmas.GoSrc`.
-/
import Bio.Generated.GoSrc
import Bio.Lemmas.GoRt
import Bio.Lemmas.Bed
set_option linter.unusedVariables false
set_option linter.unusedSimpArgs false
namespace Bio.GoSrcLemmas
open Bio Bio.GoRt Bio.Generated

namespace BedRd

/-- a `*BED` of the translated code: the thirteen fields (`ItemRGB [3]byte` as a list) -/
abbrev BedT := Int × Bytes × Int × Int × Bytes × Int × Bytes × Int × Int × Bytes × Int × List Int × List Int

set_option synthInstance.maxSize 100000 in
/-- (found in one step; the search through thirteen nested products doubles in size at every level) -/
instance instDecidableEqBedT : DecidableEq BedT := by unfold BedT; exact inferInstance

/-- the fields of a model record, as the translated code holds them -/
def tupleOf (b : Bed.Bed) : BedT :=
  (b.n, b.chrom, b.chromStart, b.chromEnd, b.name, b.score, b.strand, b.thickStart, b.thickEnd,
    [b.rgb.1, b.rgb.2.1, b.rgb.2.2], b.blockCount, b.blockSizes, b.blockStarts)

/-- and back (a `[3]byte` always has its three elements) -/
def bedOf (t : BedT) : Bed.Bed :=
  ⟨t.1, t.2.1, t.2.2.1, t.2.2.2.1, t.2.2.2.2.1, t.2.2.2.2.2.1, t.2.2.2.2.2.2.1, t.2.2.2.2.2.2.2.1,
    t.2.2.2.2.2.2.2.2.1,
    ((t.2.2.2.2.2.2.2.2.2.1[0]?).getD 0, (t.2.2.2.2.2.2.2.2.2.1[1]?).getD 0, (t.2.2.2.2.2.2.2.2.2.1[2]?).getD 0),
    t.2.2.2.2.2.2.2.2.2.2.1, t.2.2.2.2.2.2.2.2.2.2.2.1, t.2.2.2.2.2.2.2.2.2.2.2.2⟩

theorem bedOf_tupleOf (b : Bed.Bed) : bedOf (tupleOf b) = b := rfl

/-- what `parseLine` returns for the model's verdict -/
def resultOf (o : Option Bed.Bed) : Option BedT × GoErr :=
  match o with
  | some b => (some (tupleOf b), GoErr.nil)
  | none => (none, GoErr.other)

/-! ## The two `strconv` functions as the translated code uses them -/

/-- `v, err := strconv.Atoi(s); if err != nil { return … }`: the value, when there is no error -/
def reqA (f : Bytes → Int × GoErr) (s : Bytes) : Option Int :=
  if (f s).2 = GoErr.nil then some (f s).1 else none

/-- `a, err := strconv.ParseUint(s, 0, 8); if err != nil { return … }; byte(a)` -/
def u8G (g : Bytes → Int → Int → Int × GoErr) (s : Bytes) : Option UInt8 :=
  if (g s 0 8).2 = GoErr.nil then some (u8 (g s 0 8).1) else none

/-- the model's `strconv.Atoi` as a Go function: value and error -/
def atoiP (s : Bytes) : Int × GoErr :=
  match atoi s with
  | some v => (v, GoErr.nil)
  | none => (0, GoErr.other)

/-- the model's `strconv.ParseUint(s, 0, 8)` (canonical decimals only) as a Go function -/
def puP (s : Bytes) (_base _bits : Int) : Int × GoErr :=
  match Bed.parseU8 s with
  | some v => ((v.toNat : Int), GoErr.nil)
  | none => (0, GoErr.other)

/-- `strconv.Atoi` behaves as the model's `atoi`: the model's value and no error where the model
accepts, an error (any error, any value) where it rejects. -/
structure AtoiModel (f : Bytes → Int × GoErr) : Prop where
  ok : ∀ s v, atoi s = some v → f s = (v, GoErr.nil)
  bad : ∀ s, atoi s = none → (f s).2 ≠ GoErr.nil

/-- weak: `strconv.ParseUint(s, 0, 8)` reads the canonical decimal of `n < 256` as `n` -/
def PUCanon (g : Bytes → Int → Int → Int × GoErr) : Prop :=
  ∀ n : Nat, n < 256 → g (natDigits n) 0 8 = ((n : Int), GoErr.nil)

/-- strong: `strconv.ParseUint(s, 0, 8)` accepts exactly the canonical decimals `0…255` (the model's
`parseU8`; the real function also accepts `0x…`, `0b…`, `0o…`, a leading `0` as octal, underscores) -/
structure PUModel (g : Bytes → Int → Int → Int × GoErr) : Prop where
  ok : ∀ s v, Bed.parseU8 s = some v → g s 0 8 = ((v.toNat : Int), GoErr.nil)
  bad : ∀ s, Bed.parseU8 s = none → (g s 0 8).2 ≠ GoErr.nil

theorem atoiP_model : AtoiModel atoiP :=
  ⟨fun s v h => by simp [atoiP, h], fun s h => by simp [atoiP, h]⟩

theorem puP_model : PUModel puP :=
  ⟨fun s v h => by simp [puP, h], fun s h => by simp [puP, h]⟩

theorem u8_natCast_toNat (v : UInt8) : u8 (v.toNat : Int) = v := by
  unfold u8
  have h := v.toNat_lt
  have : ((v.toNat : Int) % 256).toNat = v.toNat := by omega
  rw [this]
  exact UInt8.ofNat_toNat

theorem PUModel.canon {g} (h : PUModel g) : PUCanon g := by
  intro n hn
  have := h.ok (natDigits n) (UInt8.ofNat n) (by
    have := Bed.parseU8_natDigits (UInt8.ofNat n)
    rwa [show (UInt8.ofNat n).toNat = n by simp [UInt8.toNat_ofNat']; omega] at this)
  rw [this]
  congr 2
  simp [UInt8.toNat_ofNat']; omega

theorem reqA_of_model {f} (h : AtoiModel f) : reqA f = atoi := by
  funext s
  unfold reqA
  cases ha : atoi s with
  | none => simp [h.bad s ha]
  | some v => simp [h.ok s v ha]

theorem u8G_of_model {g} (h : PUModel g) : u8G g = Bed.parseU8 := by
  funext s
  unfold u8G
  cases ha : Bed.parseU8 s with
  | none => simp [h.bad s ha]
  | some v => simp [h.ok s v ha, u8_natCast_toNat]

theorem u8G_canon {g} (h : PUCanon g) (v : UInt8) : u8G g (natDigits v.toNat) = some v := by
  unfold u8G
  rw [h v.toNat v.toNat_lt]
  simp [u8_natCast_toNat]

/-! ## The model's parser, with its two number parsers as parameters -/

def optI (A : Bytes → Option Int) (s : Bytes) : Option Int := if s = [] then some 0 else A s

def listI (A : Bytes → Option Int) (s : Bytes) : Option (List Int) :=
  if s = [] then some [] else (splitOn 44 s).mapM A

def rgbU (U : Bytes → Option UInt8) (s : Bytes) : Option (UInt8 × UInt8 × UInt8) :=
  if s = [] then some (0, 0, 0)
  else match splitOn 44 s with
    | [a, b, c] => (U a).bind fun a => (U b).bind fun b => (U c).bind fun c => some (a, b, c)
    | _ => none

/-- the pieces of field 9 the byte parser is asked about -/
def rgbPieces (fs : List Bytes) : List Bytes :=
  if (fs[8]?).getD [] = [] then [] else splitOn 44 ((fs[8]?).getD [])

/-- on the twelve (padded) fields, in the order of the Go code -/
def parseSpec12 (A : Bytes → Option Int) (U : Bytes → Option UInt8) (n : Int)
    (f0 f1 f2 f3 f4 f5 f6 f7 f8 f9 f10 f11 : Bytes) : Option Bed.Bed :=
  (A f1).bind fun cs => (A f2).bind fun ce => (optI A f4).bind fun sc =>
  if Bed.validStrand f5 = false then none else
  (optI A f6).bind fun ts => (optI A f7).bind fun te => (rgbU U f8).bind fun rgb =>
  (optI A f9).bind fun bc => (listI A f10).bind fun bs => (listI A f11).bind fun bst =>
  if n > 10 ∧ (bs.length : Int) ≠ bc then none
  else if n > 11 ∧ (bst.length : Int) ≠ bc then none
  else some ⟨n, f0, cs, ce, f3, sc, f5, ts, te, rgb, bc, bs, bst⟩

def parseSpec (A : Bytes → Option Int) (U : Bytes → Option UInt8) (fs : List Bytes) : Option Bed.Bed :=
  if fs.length < 3 ∨ fs.length > 12 then none
  else
    let p := fun i => (fs[i]?).getD []
    parseSpec12 A U fs.length (p 0) (p 1) (p 2) (p 3) (p 4) (p 5) (p 6) (p 7) (p 8) (p 9) (p 10) (p 11)

theorem optI_atoi : optI atoi = Bed.optInt := rfl
theorem listI_atoi : listI atoi = Bed.parseIntList := rfl

theorem rgbU_parseU8 (s : Bytes) : rgbU Bed.parseU8 s = Bed.parseRGB s := by
  unfold rgbU Bed.parseRGB
  split
  · rfl
  · simp only [Bed.COMMA]
    generalize splitOn 44 s = l
    split
    · rename_i a b c
      dsimp only
      cases Bed.parseU8 a <;> cases Bed.parseU8 b <;> cases Bed.parseU8 c <;> rfl
    · rename_i h
      split
      · rename_i a b c
        exact absurd rfl (h a b c)
      · rfl

/-- the hand-written model is the parametrised parser at the model's `atoi` and `parseU8` -/
theorem parseLine_eq_spec (fs : List Bytes) : Bed.parseLine fs = parseSpec atoi Bed.parseU8 fs := by
  unfold Bed.parseLine parseSpec parseSpec12
  simp only [optI_atoi, listI_atoi, rgbU_parseU8]
  split
  · rfl
  · generalize atoi (fs[1]?.getD []) = a1
    generalize atoi (fs[2]?.getD []) = a2
    generalize Bed.optInt (fs[4]?.getD []) = a4
    generalize Bed.optInt (fs[6]?.getD []) = a6
    generalize Bed.optInt (fs[7]?.getD []) = a7
    generalize Bed.parseRGB (fs[8]?.getD []) = a8
    generalize Bed.optInt (fs[9]?.getD []) = a9
    generalize Bed.parseIntList (fs[10]?.getD []) = a10
    generalize Bed.parseIntList (fs[11]?.getD []) = a11
    cases a1 with
    | none => rfl
    | some cs =>
    cases a2 with
    | none => rfl
    | some ce =>
    cases a4 with
    | none => rfl
    | some sc =>
    cases a6 with
    | none => cases Bed.validStrand (fs[5]?.getD []) <;> rfl
    | some ts =>
    cases a7 with
    | none => cases Bed.validStrand (fs[5]?.getD []) <;> rfl
    | some te =>
    cases a8 with
    | none => cases Bed.validStrand (fs[5]?.getD []) <;> rfl
    | some rgb =>
    cases a9 with
    | none => cases Bed.validStrand (fs[5]?.getD []) <;> rfl
    | some bc =>
    cases a10 with
    | none => cases Bed.validStrand (fs[5]?.getD []) <;> rfl
    | some bs =>
    cases a11 with
    | none => cases Bed.validStrand (fs[5]?.getD []) <;> rfl
    | some bst =>
      have e1 : ((10 : Int) < (fs.length : Int)) ↔ (10 < fs.length) := by omega
      have e2 : ((11 : Int) < (fs.length : Int)) ↔ (11 < fs.length) := by omega
      cases Bed.validStrand (fs[5]?.getD []) <;> simp [e1, e2]

theorem rgbU_congr (U U' : Bytes → Option UInt8) (s : Bytes)
    (h : s ≠ [] → ∀ p ∈ splitOn 44 s, U p = U' p) : rgbU U s = rgbU U' s := by
  unfold rgbU
  split
  · rfl
  · rename_i hs
    have h' := h hs
    split
    · rename_i a b c heq
      rw [heq] at h'
      rw [h' a (by simp), h' b (by simp), h' c (by simp)]
    · rfl

/-- `parseSpec` asks the byte parser only about the pieces of a non-empty field 9 -/
theorem parseSpec_congr_U (A : Bytes → Option Int) (U U' : Bytes → Option UInt8) (fs : List Bytes)
    (h : ∀ p ∈ rgbPieces fs, U p = U' p) : parseSpec A U fs = parseSpec A U' fs := by
  unfold parseSpec parseSpec12
  split
  · rfl
  · simp only
    rw [rgbU_congr U U' (fs[8]?.getD []) (by
      intro hs p hp
      apply h
      unfold rgbPieces
      rw [if_neg hs]; exact hp)]

end BedRd

end Bio.GoSrcLemmas
