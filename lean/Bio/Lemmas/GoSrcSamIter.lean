/-
  `ReaderHeader` of formats/sam/iter.go, as translated on every run from the Go SOURCE TEXT into
  `Bio.Generated.GoSrc.sam_ReaderHeader` (the closure `func(yield …)`: `bufio.NewReader(r)` is a `BufRd`,
  the `for { }` loop with fuel, `yield` a history consumer, the result the log of the items handed to
  it), against the hand-written model `Bio.Sam` (`lineItem`, `decodeHeaderSrc`) and the history-consumer
  closure model `Bio.IterH.samReaderHeaderH`.

  * `SamIt.rhSpec P y` is the loop with the line parser `P` as a parameter, by recursion on the fuel; for
    ARBITRARY `hex.DecodeString` / `strconv.Atoi` / `strconv.ParseFloat` parameters the translated closure
    is `rhSpec (lineSpec h f g) y` (`sam_ReaderHeader_spec`);
  * on the bytes `rest` with more fuel than there are text lines, `rhSpec P y` logs
    `takeThroughH y acc (goItems P e rest)`: one Go item per non-empty text line, then the read error
    (`rhSpec_lines`); one `ReadString('\n')` + the two `TrimSuffix` calls is the head of `textLines`
    (lemmas of `Bio.Lemmas.GoSrcBedRead`);
  * `normItem` turns a Go item `((H, S), err)` into a model item (the Go tag map, in insertion order,
    normalised by `Sam.insertAll … []`); under the three hypotheses about the library functions the
    normalised Go item of a line is the model's `Sam.lineItem` (`normItem_lineItemGo`), hence the
    normalised Go items are `Sam.decodeHeaderSrc` (`goItems_norm`);
  * `goWriteAll`: the translated `Write` on one record after the other, for the file round trip.

  Guarded by the translator's `_Found` flags as in `Bio.Lemmas.GoSrc`.
-/
import Bio.Lemmas.GoSrcSamParse
import Bio.Lemmas.GoSrcBedRead
import Bio.Lemmas.IterH
import Bio.Props.C03
import Bio.Props.C03Go
set_option linter.unusedVariables false
set_option linter.unusedSimpArgs false
namespace Bio.GoSrcLemmas
open Bio Bio.GoRt Bio.Generated

namespace SamIt
open BedRd SamP

/-! ## The items -/

/-- what `ReaderHeader` hands to `yield`: `(SAMOrHeader{H, S}, err)` -/
abbrev GoItem := (Option Bytes × Option SamT) × GoErr

/-- a `*SAM` of the translated code as a model record: the tag map (insertion order) normalised to the
model's sorted list -/
def samOfT : SamT → Sam.Sam
  | (qn, fl, rn, po, mq, cg, rx, pn, tl, sq, ql, tags) =>
    ⟨qn, fl, rn, po, mq, cg, rx, pn, tl, sq, ql, Sam.insertAll tags []⟩

/-- a Go item as a model item: `err ≠ nil` is an error item whatever the rest; a header line; a record
with its tags normalised (the pair `(SAMOrHeader{}, nil)`, which `ReaderHeader` never produces, is
classed with the errors) -/
def normItem : GoItem → Item Sam.Entry
  | ((some h, _), GoErr.nil) => .ok (.hdr h)
  | ((none, some t), GoErr.nil) => .ok (.sam (samOfT t))
  | _ => .err

/-- the item for one non-empty text line, with the line parser as a parameter -/
def lineItemGo (P : List Bytes → Option SamT × GoErr) (text : Bytes) : GoItem :=
  if List.isPrefixOf [64] text = true then ((some text, none), GoErr.nil)
  else ((none, (P (splitOn 9 text)).1), (P (splitOn 9 text)).2)

/-- the item for a failed read -/
def endItemsGo : Ending → List GoItem
  | .eof => []
  | .fail => [((none, none), GoErr.other)]

/-- the items of an uninterrupted run, with the line parser as a parameter -/
def goItems (P : List Bytes → Option SamT × GoErr) (e : Ending) (x : Bytes) : List GoItem :=
  ((textLines e x).filter (· ≠ [])).map (lineItemGo P) ++ endItemsGo e

/-! ## The loop, by recursion on the fuel -/

def rhSpec (P : List Bytes → Option SamT × GoErr) (y : List GoItem → Bool) :
    Nat → List GoItem → BufRd → Option (List GoItem)
  | 0, _, _ => none
  | fuel + 1, log, br =>
    let t := readString br 10
    let text := trimSuffix (trimSuffix t.1 [10]) [13]
    if t.2.1 ≠ GoErr.nil ∧ t.2.1 ≠ GoErr.eof then some (log ++ [((none, none), t.2.1)])
    else if text ≠ [] then
      (if y (log ++ [lineItemGo P text]) = true then
        (if t.2.1 = GoErr.eof then some (log ++ [lineItemGo P text])
         else rhSpec P y fuel (log ++ [lineItemGo P text]) t.2.2)
       else some (log ++ [lineItemGo P text]))
    else if t.2.1 = GoErr.eof then some log
    else rhSpec P y fuel log t.2.2

abbrev RhSt := Option (List GoItem) × List GoItem × BufRd

/-- one iteration of the `for { }` loop -/
def rhStep (P : List Bytes → Option SamT × GoErr) (y : List GoItem → Bool) (log : List GoItem) (br : BufRd) :
    ForInStep RhSt :=
  let t := readString br 10
  let text := trimSuffix (trimSuffix t.1 [10]) [13]
  if t.2.1 ≠ GoErr.nil ∧ t.2.1 ≠ GoErr.eof then
    .done (some (log ++ [((none, none), t.2.1)]), log ++ [((none, none), t.2.1)], t.2.2)
  else if text ≠ [] then
    (if y (log ++ [lineItemGo P text]) = true then
      (if t.2.1 = GoErr.eof then .done (some (log ++ [lineItemGo P text]), log ++ [lineItemGo P text], t.2.2)
       else .yield (none, log ++ [lineItemGo P text], t.2.2))
     else .done (some (log ++ [lineItemGo P text]), log ++ [lineItemGo P text], t.2.2))
  else if t.2.1 = GoErr.eof then .done (some log, log, t.2.2)
  else .yield (none, log, t.2.2)

theorem rh_loop (P : List Bytes → Option SamT × GoErr) (y : List GoItem → Bool)
    (body : Nat → RhSt → Option (ForInStep RhSt))
    (hbody : ∀ i o log br, body i (o, log, br) = some (rhStep P y log br))
    (post : RhSt → Option (List GoItem))
    (hpost : ∀ s, post s = s.1) :
    ∀ (l : List Nat) (log : List GoItem) (br : BufRd),
      (forIn l ((none, log, br) : RhSt) body).bind post = rhSpec P y l.length log br := by
  intro l
  induction l with
  | nil => intro log br; simp [rhSpec, hpost]
  | cons a l ih =>
    intro log br
    simp only [List.forIn_cons, hbody, List.length_cons, rhSpec, Option.bind_some, Option.bind_eq_bind]
    unfold rhStep
    simp only
    by_cases c1 : (readString br 10).2.1 ≠ GoErr.nil ∧ (readString br 10).2.1 ≠ GoErr.eof
    · rw [if_pos c1, if_pos c1]; simp [hpost]
    · rw [if_neg c1, if_neg c1]
      by_cases c2 : trimSuffix (trimSuffix (readString br 10).1 [10]) [13] ≠ []
      · rw [if_pos c2, if_pos c2]
        by_cases c3 : y (log ++ [lineItemGo P (trimSuffix (trimSuffix (readString br 10).1 [10]) [13])]) = true
        · rw [if_pos c3, if_pos c3]
          by_cases c4 : (readString br 10).2.1 = GoErr.eof
          · rw [if_pos c4, if_pos c4]; simp [hpost]
          · rw [if_neg c4, if_neg c4]; exact ih _ _
        · rw [if_neg c3, if_neg c3]; simp [hpost]
      · rw [if_neg c2, if_neg c2]
        by_cases c4 : (readString br 10).2.1 = GoErr.eof
        · rw [if_pos c4, if_pos c4]; simp [hpost]
        · rw [if_neg c4, if_neg c4]; exact ih _ _

/-- for ARBITRARY library functions the translated closure is the loop `rhSpec` at the translated
`parseLine` (= `lineSpec h f g`) -/
theorem sam_ReaderHeader_spec (hR : GoSrc.sam_ReaderHeader_Found = true)
    (hF : GoSrc.sam_parseLine_Found = true) (hI : GoSrc.parseInts_Found = true)
    (hT : GoSrc.parseTags_Found = true) (hS : GoSrc.splitTag_Found = true)
    (h : Bytes → Bytes × GoErr) (f : Bytes → Int × GoErr) (g : Bytes → Int → Bytes × GoErr)
    (fuel : Nat) (r : BufRd) (y : List GoItem → Bool) :
    GoSrc.sam_ReaderHeader h f g fuel r y = rhSpec (lineSpec h f g) y fuel [] r := by
  first
  | exact absurd hR (by decide)
  | (unfold GoSrc.sam_ReaderHeader
     simp only [Option.pure_def, Option.bind_eq_bind, sam_parseLine_eq hF hI hT hS, Option.bind_some]
     conv => rhs; rw [show fuel = (List.range fuel).length by simp]
     apply rh_loop
     rotate_left
     · intro s
       rcases s with ⟨_ | r, log, br⟩ <;> rfl
     intro i o log br
     unfold rhStep
     generalize readString br 10 = t
     obtain ⟨line, err, r'⟩ := t
     simp only
     generalize trimSuffix (trimSuffix line [10]) [13] = text
     by_cases c1 : err ≠ GoErr.nil ∧ err ≠ GoErr.eof
     · have c1' : (err != GoErr.nil && err != GoErr.eof) = true := by simpa using c1
       rw [if_pos c1', if_pos c1]
     · have c1' : ¬ (err != GoErr.nil && err != GoErr.eof) = true := by simpa using c1
       rw [if_neg c1', if_neg c1]
       by_cases c2 : text ≠ []
       · have c2' : (text != []) = true := by simpa using c2
         rw [if_pos c2', if_pos c2]
         unfold lineItemGo
         by_cases c3 : List.isPrefixOf [64] text = true
         · simp only [c3, if_true]
           cases hy : y (log ++ [((some text, none), GoErr.nil)]) <;> cases err <;> simp
         · simp only [c3, if_false, Bool.false_eq_true]
           cases hy : y (log ++ [((none, (lineSpec h f g (splitOn 9 text)).1), (lineSpec h f g (splitOn 9 text)).2)])
             <;> cases err <;> simp [hy]
       · have c2' : ¬ (text != []) = true := by simpa using c2
         rw [if_neg c2', if_neg c2]
         cases err <;> simp)

/-! ## The loop on bytes, in terms of the text lines -/

theorem takeThroughH_nil {α : Type} (y : List α → Bool) (acc : List α) : takeThroughH y acc [] = acc := rfl

theorem goItems_nil (P : List Bytes → Option SamT × GoErr) (e : Ending) : goItems P e [] = endItemsGo e := by
  simp [goItems, textLines_nil]

theorem goItems_line (P : List Bytes → Option SamT × GoErr) (e : Ending) (l rest' : Bytes)
    (h : ∀ b ∈ l, b ≠ 10) :
    goItems P e (l ++ 10 :: rest')
      = if dropCR l ≠ [] then lineItemGo P (dropCR l) :: goItems P e rest' else goItems P e rest' := by
  unfold goItems
  rw [textLines_line e l rest' h]
  by_cases hd : dropCR l ≠ []
  · rw [if_pos hd, List.filter_cons_of_pos (by simpa using hd)]; simp
  · rw [if_neg hd, List.filter_cons_of_neg (by simpa using hd)]

/-- With more fuel than there are text lines the loop logs the items of the lines, then the read
error, cut by the consumer (the verdict on the read-error item, which the Go code ignores, is the
verdict on the last item and does not matter to `takeThroughH`). -/
theorem rhSpec_lines (P : List Bytes → Option SamT × GoErr) (y : List GoItem → Bool) (e : Ending) :
    ∀ (n : Nat) (rest : Bytes), rest.length = n → ∀ (fuel : Nat) (log : List GoItem),
      (textLines e rest).length < fuel →
      rhSpec P y fuel log ⟨rest, e⟩ = some (takeThroughH y log (goItems P e rest)) := by
  intro n
  induction n using Nat.strongRecOn with
  | _ n ih =>
    intro rest hn fuel log hfuel
    obtain ⟨fuel, rfl⟩ : ∃ k, fuel = k + 1 := ⟨fuel - 1, by omega⟩
    rcases rest_cases rest with rfl | ⟨hne, hfree⟩ | ⟨l, rest', rfl, hl⟩
    · rw [goItems_nil]
      simp only [rhSpec, readString_nil]
      cases e with
      | eof => simp [endErr, endItemsGo, takeThroughH, trimSuffix]
      | fail => simp [endErr, endItemsGo, takeThroughH_singleton]
    · cases e with
      | fail =>
        simp only [rhSpec, readString_free rest .fail hfree, endErr]
        simp [goItems, textLines_free_fail rest hfree, endItemsGo, takeThroughH_singleton]
      | eof =>
        simp only [rhSpec, readString_free rest .eof hfree, endErr, trim_free rest hfree]
        simp only [goItems, textLines_free_eof rest hne hfree, endItemsGo, List.append_nil]
        by_cases hd : dropCR rest ≠ []
        · rw [if_neg (by simp), if_pos hd, List.filter_cons_of_pos (by simpa using hd)]
          simp only [List.filter_nil, List.map_cons, List.map_nil, takeThroughH_singleton, if_true]
          split <;> rfl
        · rw [if_neg (by simp), if_neg hd, List.filter_cons_of_neg (by simpa using hd)]
          simp [takeThroughH]
    · rw [textLines_line e l rest' hl] at hfuel
      have hf' : (textLines e rest').length < fuel := by simp at hfuel; omega
      have hrec := fun log' => ih rest'.length (by subst hn; simp; omega) rest' rfl fuel log' hf'
      simp only [rhSpec, readString_line l rest' e hl, trim_line l hl]
      rw [if_neg (by simp), goItems_line P e l rest' hl]
      by_cases hd : dropCR l ≠ []
      · rw [if_pos hd, if_pos hd, takeThroughH_cons]
        by_cases hy : y (log ++ [lineItemGo P (dropCR l)]) = true
        · rw [if_pos hy, if_pos hy, if_neg (by simp), hrec]
        · rw [if_neg hy, if_neg hy]
      · rw [if_neg hd, if_neg hd, if_neg (by simp), hrec]

/-- there are at most as many text lines as bytes: `x.length + 1` iterations always suffice -/
theorem lines_le (e : Ending) (x : Bytes) : (textLines e x).length + 1 ≤ x.length + 1 := by
  have := textLines_length_le e _ x rfl
  omega

/-- the translated closure, ARBITRARY library functions and ARBITRARY consumer: the Go items of the
uninterrupted run, cut by the consumer -/
theorem sam_ReaderHeader_raw (hR : GoSrc.sam_ReaderHeader_Found = true)
    (hF : GoSrc.sam_parseLine_Found = true) (hI : GoSrc.parseInts_Found = true)
    (hT : GoSrc.parseTags_Found = true) (hS : GoSrc.splitTag_Found = true)
    (h : Bytes → Bytes × GoErr) (f : Bytes → Int × GoErr) (g : Bytes → Int → Bytes × GoErr)
    (fuel : Nat) (x : Bytes) (e : Ending) (y : List GoItem → Bool)
    (hfuel : (textLines e x).length + 1 ≤ fuel) :
    GoSrc.sam_ReaderHeader h f g fuel ⟨x, e⟩ y = some (takeThroughH y [] (goItems (lineSpec h f g) e x)) := by
  rw [sam_ReaderHeader_spec hR hF hI hT hS]
  exact rhSpec_lines _ y e _ x rfl fuel [] (by omega)

/-- too little fuel for the loop to reach its end: `none` unless the consumer stopped it -/
theorem rhSpec_zero (P : List Bytes → Option SamT × GoErr) (y : List GoItem → Bool) (log : List GoItem)
    (br : BufRd) : rhSpec P y 0 log br = none := rfl

/-! ## Normalised items -/

theorem isPrefixOf_64 (text : Bytes) : List.isPrefixOf [64] text = true ↔ ∃ t, text = 64 :: t := by
  cases text with
  | nil => simp
  | cons b t =>
    simp only [List.isPrefixOf, Bool.and_eq_true, beq_iff_eq, List.cons.injEq]
    constructor
    · rintro ⟨hb, _⟩; exact ⟨t, by rw [← hb], rfl⟩
    · rintro ⟨t', hb, _⟩; exact ⟨hb.symm, by cases t <;> trivial⟩

theorem samOfT_tupleOf (s : Sam.Sam) (r : Sam.Tags) :
    samOfT (tupleOf s r) = { s with tags := Sam.insertAll r [] } := rfl

/-- under the three hypotheses the normalised Go item of a text line is the model's item -/
theorem normItem_lineItemGo {h f g pf} (hf : AtoiModel f) (hg : PFModel g pf) (hh : HexModel h) (text : Bytes) :
    normItem (lineItemGo (lineSpec h f g) text) = Sam.lineItem pf text := by
  unfold lineItemGo
  by_cases c : List.isPrefixOf [64] text = true
  · rw [if_pos c]
    obtain ⟨t, rfl⟩ := (isPrefixOf_64 text).1 c
    rfl
  · rw [if_neg c]
    have hm : Sam.lineItem pf text = match Sam.parseLine pf (splitOn TAB text) with
        | some s => .ok (.sam s)
        | none => .err := by
      unfold Sam.lineItem
      split
      · rename_i t; exact absurd ((isPrefixOf_64 _).2 ⟨t, rfl⟩) c
      · rfl
    rw [hm]
    have hl := lineSpec_model hf hg hh (splitOn 9 text)
    rw [show (9 : UInt8) = TAB from rfl] at hl ⊢
    cases hp : Sam.parseLine pf (splitOn TAB text) with
    | none =>
      rw [hp] at hl
      obtain ⟨e, he, hq⟩ := hl
      rw [hq]
      cases e with
      | nil => exact absurd rfl he
      | eof => rfl
      | other => rfl
    | some s =>
      rw [hp] at hl
      obtain ⟨r, hq, hperm, hs⟩ := hl
      rw [hq]
      show Item.ok (Sam.Entry.sam (samOfT (tupleOf s r))) = _
      rw [samOfT_tupleOf, Sam.insertAll_perm_sorted hperm hs]

theorem normItem_end (e : Ending) : (endItemsGo e).map normItem = Sam.endItems e := by
  cases e <;> rfl

/-- the normalised Go items of an uninterrupted run are the model's `decodeHeaderSrc` -/
theorem goItems_norm {h f g pf} (hf : AtoiModel f) (hg : PFModel g pf) (hh : HexModel h) (e : Ending) (x : Bytes) :
    (goItems (lineSpec h f g) e x).map normItem = Sam.decodeHeaderSrc pf e x := by
  unfold goItems Sam.decodeHeaderSrc Sam.itemsOfLines
  rw [List.map_append, normItem_end, List.map_map]
  congr 1
  apply List.map_congr_left
  intro l _
  exact normItem_lineItemGo hf hg hh l

/-- a consumer of NORMALISED histories, as a consumer of Go histories -/
def liftY (y' : List (Item Sam.Entry) → Bool) : List GoItem → Bool := fun l => y' (l.map normItem)

theorem takeThroughH_map {α β : Type} (φ : α → β) (y' : List β → Bool) (xs : List α) : ∀ (acc : List α),
    (takeThroughH (fun l => y' (l.map φ)) acc xs).map φ = takeThroughH y' (acc.map φ) (xs.map φ) := by
  induction xs with
  | nil => intro acc; rfl
  | cons a xs ih =>
    intro acc
    rw [List.map_cons, takeThroughH_cons, takeThroughH_cons]
    simp only [List.map_append, List.map_cons, List.map_nil]
    split
    · rw [ih]; simp
    · simp

/-! ## Writing a file with the translated `Write` -/

/-- the translated `(*SAM).Write` on one record after the other, onto the same writer, stopping at the
first error (`for _, s := range rs { if err := s.Write(w); err != nil { return err } }`) -/
def goWriteAll : List Sam.Sam → Wr → Option (GoErr × Wr)
  | [], w => some (GoErr.nil, w)
  | s :: rs, w =>
    match Bio.Props.C03Go.goWrite s w with
    | none => none
    | some (err, w') => if err = GoErr.nil then goWriteAll rs w' else some (err, w')

/-- with room for everything: no error, the output grows by the records' texts -/
theorem goWriteAll_bytes (hW : GoSrc.sam_Write_Found = true) : ∀ (rs : List Sam.Sam) (k : Nat) (o : Bytes),
    ((rs.map Sam.encode).flatten).length ≤ k →
    goWriteAll rs ⟨k, o⟩
      = some (GoErr.nil, ⟨k - ((rs.map Sam.encode).flatten).length, o ++ (rs.map Sam.encode).flatten⟩) := by
  intro rs
  induction rs with
  | nil => intro k o _; simp [goWriteAll]
  | cons s rs ih =>
    intro k o hk
    simp only [List.map_cons, List.flatten_cons, List.length_append] at hk
    rw [goWriteAll, Bio.Props.C03Go.go_sam_write_bytes hW s k o (by omega)]
    simp only [if_true]
    rw [ih _ _ (by omega)]
    simp only [List.map_cons, List.flatten_cons, List.length_append, List.append_assoc]
    congr 3
    omega

/-- header lines followed by the records' texts: the LF-terminated file of the lines -/
theorem written_file (hs : List Bytes) (rs : List Sam.Sam) :
    lfFile hs ++ (rs.map Sam.encode).flatten = lfFile (hs ++ rs.map Sam.encodeLine) := by
  rw [lfFile_append]
  congr 1
  induction rs with
  | nil => rfl
  | cons s rs ih => rw [List.map_cons, List.map_cons, List.flatten_cons, lfFile_cons, ih]; simp [Sam.encode, LF]

/-- the text lines of a written file -/
theorem written_lines (pf : Bytes → Option Bytes) (hs : List Bytes) (rs : List Sam.Sam)
    (hh : ∀ l ∈ hs, Sam.hdrOK l) (hr : ∀ s ∈ rs, Sam.WF pf s) :
    textLines .eof (lfFile (hs ++ rs.map Sam.encodeLine)) = hs ++ rs.map Sam.encodeLine :=
  textLines_eof_lfFile _ (Sam.samLines_plain pf hs rs hh hr)

end SamIt
end Bio.GoSrcLemmas
