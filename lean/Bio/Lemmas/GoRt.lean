/-
  Lemmas about the Go run-time vocabulary (`Bio.Model.GoRt`): index loops over a
  slice are loops over its elements.
-/
import Bio.Model.GoRt
namespace Bio.GoRt

theorem idx_ofNat {α : Type} (l : List α) (n : Nat) : idx l (n : Int) = l[n]? := by
  unfold idx; simp; omega

theorem forIn_congr_mem {α β : Type} (l : List α) (s : β) (f g : α → β → Option (ForInStep β))
    (h : ∀ a ∈ l, ∀ b, f a b = g a b) : forIn l s f = forIn l s g := by
  induction l generalizing s with
  | nil => rfl
  | cons a as ih =>
    simp only [List.forIn_cons]
    rw [h a (by simp)]
    congr 1
    funext r
    cases r with
    | done b => rfl
    | yield b => exact ih b (fun a ha b => h a (by simp [ha]) b)

/-- a loop over the indices `n-1 … 0` of `pre` reading `(pre ++ suf)[i]` is a loop over `pre` reversed -/
theorem forIn_range_reverse_getElem {α β : Type} (pre suf : List α) (s : β)
    (f : α → β → Option (ForInStep β)) :
    forIn (List.range pre.length).reverse s (fun i s => ((pre ++ suf)[i]?).bind fun x => f x s)
      = forIn pre.reverse s f := by
  generalize hn : pre.length = n
  induction n generalizing pre suf s with
  | zero =>
    have : pre = [] := List.length_eq_zero_iff.mp hn
    subst this; rfl
  | succ n ih =>
    rcases List.eq_nil_or_concat pre with h | ⟨pre', a, h⟩
    · subst h; simp at hn
    · subst h
      have hl : pre'.length = n := by simpa using hn
      simp only [List.concat_eq_append, List.range_succ, List.reverse_append,
        List.reverse_cons, List.reverse_nil, List.nil_append, List.singleton_append, List.forIn_cons]
      have h1 : (pre' ++ [a] ++ suf)[n]? = some a := by simp [← hl]
      rw [h1]
      simp only [Option.bind_some]
      congr 1
      funext r
      cases r with
      | done b => rfl
      | yield b =>
        have := ih pre' (a :: suf) b hl
        simpa using this

theorem downFrom_len {α : Type} (l : List α) :
    downFrom (len l - 1) = (List.range l.length).reverse.map Int.ofNat := by
  unfold downFrom len
  have : ((l.length : Int) - 1 + 1).toNat = l.length := by omega
  rw [this, List.map_reverse]

/-- `for i := len(l)-1; i >= 0; i-- { x := l[i]; … }` is a loop over `l` reversed -/
theorem forIn_downFrom_idx {α β : Type} (l : List α) (s : β) (f : α → β → Option (ForInStep β)) :
    forIn (downFrom (len l - 1)) s (fun i s => (idx l i).bind fun x => f x s) = forIn l.reverse s f := by
  rw [downFrom_len, List.forIn_map]
  have := forIn_range_reverse_getElem l [] s f
  simp only [List.append_nil] at this
  rw [← this]
  apply forIn_congr_mem
  intro a _ b
  show (idx l (Int.ofNat a)).bind _ = _
  rw [show Int.ofNat a = (a : Int) from rfl, idx_ofNat]

/-- generic: an `enum` loop whose body implements `step` and preserves `inv` -/
theorem forIn_enum_step {α σ : Type} (src : List α) (inv : Nat → σ → Prop)
    (step : Nat → σ → α → Option σ) (aux : Nat → σ → List α → Option σ)
    (haux_nil : ∀ i s, aux i s [] = some s)
    (haux_cons : ∀ i s a rest, aux i s (a :: rest) = (step i s a).bind fun d => aux (i + 1) d rest)
    (hinv : ∀ i s a d, inv i s → step i s a = some d → inv (i + 1) d)
    (body : Int × α → σ → Option (ForInStep σ))
    (hbody : ∀ i s a, inv i s → body ((i : Int), a) s = (step i s a).map ForInStep.yield)
    (k : Nat) (s : σ) (h : inv k s) :
    forIn ((src.zipIdx k).map fun p => ((p.2 : Int), p.1)) s body = aux k s src := by
  induction src generalizing k s with
  | nil => simp [haux_nil]
  | cons a rest ih =>
    simp only [List.zipIdx_cons, List.map_cons, List.forIn_cons, haux_cons]
    rw [hbody k s a h]
    cases hs : step k s a with
    | none => simp
    | some d => simpa using ih (k + 1) d (hinv k s a d h hs)

theorem shl8_ofNat (x : UInt8) (n : Nat) (h : n < 8) : shl8 x (n : Int) = some (x <<< UInt8.ofNat n) := by
  unfold shl8
  have h1 : ¬ ((n : Int) < 0) := by omega
  have h2 : ¬ ((n : Int) ≥ 8) := by omega
  simp [h1, h2]

theorem setIdx_ofNat {α : Type} (l : List α) (n : Nat) (v : α) :
    setIdx l (n : Int) v = if n < l.length then some (l.set n v) else none := by
  unfold setIdx
  have h1 : ¬ ((n : Int) < 0) := by omega
  simp [h1]

theorem forIn_range'_idx {α β : Type} (f : α → β → Option (ForInStep β)) (suf : List α) :
    ∀ (pre : List α) (s : β),
    forIn ((List.range' pre.length suf.length).map Int.ofNat) s
        (fun i s => (idx (pre ++ suf) i).bind fun x => f x s) = forIn suf s f := by
  induction suf with
  | nil => intro pre s; rfl
  | cons a suf ih =>
    intro pre s
    simp only [List.length_cons, List.range'_succ, List.map_cons, List.forIn_cons]
    have h1 : idx (pre ++ a :: suf) (Int.ofNat pre.length) = some a := by
      rw [show Int.ofNat pre.length = (pre.length : Int) from rfl, idx_ofNat]; simp
    rw [h1]
    simp only [Option.bind_some]
    congr 1
    funext r
    cases r with
    | done b => rfl
    | yield b =>
      have := ih (pre ++ [a]) b
      simpa using this

/-- `for i := 0; i < len(l); i++ { x := l[i]; … }` is a loop over `l` -/
theorem forIn_upTo_idx {α β : Type} (l : List α) (s : β) (f : α → β → Option (ForInStep β)) :
    forIn (upTo (len l)) s (fun i s => (idx l i).bind fun x => f x s) = forIn l s f := by
  have := forIn_range'_idx f l [] s
  simpa [upTo, len, List.range_eq_range'] using this

theorem slice_ofNat {α : Type} (l : List α) (a b : Nat) (h : a ≤ b) (hb : b ≤ l.length) :
    slice l (a : Int) (b : Int) = some ((l.drop a).take (b - a)) := by
  unfold slice
  have h1 : (0 : Int) ≤ (a : Int) ∧ (a : Int) ≤ (b : Int) ∧ (b : Int) ≤ (l.length : Int) := by omega
  rw [if_pos h1]
  have : ((b : Int) - (a : Int)).toNat = b - a := by omega
  simp [this]

theorem slice_from {α : Type} (l : List α) (i : Nat) :
    slice l (min (i : Int) (len l)) (len l) = some (l.drop i) := by
  unfold slice len
  have h1 : (0 : Int) ≤ min (i : Int) (l.length : Int) ∧ min (i : Int) (l.length : Int) ≤ (l.length : Int)
      ∧ (l.length : Int) ≤ (l.length : Int) := by omega
  rw [if_pos h1]
  congr 1
  by_cases h : i ≤ l.length
  · have e1 : (min (i : Int) (l.length : Int)).toNat = i := by omega
    have e2 : ((l.length : Int) - min (i : Int) (l.length : Int)).toNat = l.length - i := by omega
    rw [e1, e2]
    exact List.take_of_length_le (by simp)
  · have e1 : (min (i : Int) (l.length : Int)).toNat = l.length := by omega
    rw [e1, List.drop_of_length_le (Nat.le_refl _), List.drop_of_length_le (by omega)]
    simp

theorem slice_upto3 {α : Type} (l : List α) :
    slice l 0 (Int.tdiv (len l) 3 * 3) = some (l.take (l.length / 3 * 3)) := by
  unfold slice len
  have e : (l.length : Int).tdiv 3 = ((l.length / 3 : Nat) : Int) := by
    rw [Int.natCast_tdiv_eq_ediv]; omega
  rw [e]
  have h1 : (0 : Int) ≤ 0 ∧ (0 : Int) ≤ ((l.length / 3 : Nat) : Int) * 3
      ∧ ((l.length / 3 : Nat) : Int) * 3 ≤ (l.length : Int) := by omega
  rw [if_pos h1]
  have e2 : (((l.length / 3 : Nat) : Int) * 3 - 0).toNat = l.length / 3 * 3 := by omega
  rw [e2]
  rfl

end Bio.GoRt
