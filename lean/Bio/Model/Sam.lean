/-
  Model of formats/sam: record writer, tag codec, line parser, file readers.
  Floats are opaque canonical tokens (see DESIGN §3): `pf` is the assumed
  `FormatFloat(ParseFloat(t),'e',-1,64)` and is a parameter of the parser.
-/
import Bio.Model.Lines
namespace Bio.Sam

inductive TagVal where
  | A (c : UInt8)
  | I (n : Int)
  | F (t : Bytes)
  | Z (s : Bytes)
  | H (bs : Bytes)
  deriving Repr, DecidableEq

structure Sam where
  qname : Bytes
  flag : Int
  rname : Bytes
  pos : Int
  mapq : Int
  cigar : Bytes
  rnext : Bytes
  pnext : Int
  tlen : Int
  seq : Bytes
  qual : Bytes
  tags : List (Bytes × TagVal)   -- a finite map: sorted by name, names distinct
  deriving Repr, DecidableEq

def COLON : UInt8 := 58

def tagToText (name : Bytes) (v : TagVal) : Bytes :=
  match v with
  | .A c => name ++ [COLON, 65, COLON, c]
  | .I n => name ++ [COLON, 105, COLON] ++ itoa n
  | .F t => name ++ [COLON, 102, COLON] ++ t
  | .Z s => name ++ [COLON, 90, COLON] ++ s
  | .H bs => name ++ [COLON, 72, COLON] ++ hexEnc bs

def tagsToText (tags : List (Bytes × TagVal)) : List Bytes :=
  sortBytes (tags.map fun p => tagToText p.1 p.2)

/-- The eleven mandatory fields as text. -/
def fields11 (s : Sam) : List Bytes :=
  [s.qname, itoa s.flag, s.rname, itoa s.pos, itoa s.mapq, s.cigar, s.rnext,
   itoa s.pnext, itoa s.tlen, s.seq, s.qual]

/-- The record's line without the final LF. -/
def encodeLine (s : Sam) : Bytes := joinWith TAB (fields11 s ++ tagsToText s.tags)

/-- The sequence of `Write` calls (`Fprintf`) made by `SAM.Write`. -/
def writeCalls (s : Sam) : List Bytes :=
  joinWith TAB (fields11 s) :: (tagsToText s.tags).map (TAB :: ·) ++ [[LF]]

def encode (s : Sam) : Bytes := encodeLine s ++ [LF]

/-- Split at the first colon. -/
def splitColon : Bytes → Option (Bytes × Bytes)
  | [] => none
  | b :: rest =>
    if b == COLON then some ([], rest)
    else match splitColon rest with
      | some (a, r) => some (b :: a, r)
      | none => none

/-- `splitTag`: name, type, value by the first two colons. -/
def splitTag (t : Bytes) : Option (Bytes × Bytes × Bytes) :=
  match splitColon t with
  | none => none
  | some (name, r) =>
    match splitColon r with
    | none => none
    | some (ty, val) => some (name, ty, val)

def parseTagVal (pf : Bytes → Option Bytes) (ty val : Bytes) : Option TagVal :=
  match ty with
  | [65] => match val with
    | [c] => some (.A c)
    | _ => none
  | [105] => (atoi val).map .I
  | [102] => (pf val).map .F
  | [90] => some (.Z val)
  | [72] => (hexDec val).map .H
  | [66] => some (.Z val)
  | _ => none

/-- Map insert: overwrite an equal key, keep the list sorted by key. -/
def tagInsert (k : Bytes) (v : TagVal) : List (Bytes × TagVal) → List (Bytes × TagVal)
  | [] => [(k, v)]
  | (k', v') :: rest =>
    if k = k' then (k, v) :: rest
    else if bytesLt k k' then (k, v) :: (k', v') :: rest
    else (k', v') :: tagInsert k v rest

def parseTags (pf : Bytes → Option Bytes) :
    List Bytes → List (Bytes × TagVal) → Option (List (Bytes × TagVal))
  | [], acc => some acc
  | f :: rest, acc =>
    match splitTag f with
    | none => none
    | some (name, ty, val) =>
      match parseTagVal pf ty val with
      | none => none
      | some v => parseTags pf rest (tagInsert name v acc)

def parseLine (pf : Bytes → Option Bytes) (fs : List Bytes) : Option Sam :=
  match fs with
  | qn :: fl :: rn :: po :: mq :: cg :: rx :: pn :: tl :: sq :: ql :: tagFields =>
    match atoi fl, atoi po, atoi mq, atoi pn, atoi tl with
    | some fl, some po, some mq, some pn, some tl =>
      match parseTags pf tagFields [] with
      | some tags => some ⟨qn, fl, rn, po, mq, cg, rx, pn, tl, sq, ql, tags⟩
      | none => none
    | _, _, _, _, _ => none
  | _ => none

inductive Entry where
  | hdr (h : Bytes)
  | sam (s : Sam)
  deriving Repr, DecidableEq

/-- One non-empty text line to one `ReaderHeader` item. -/
def lineItem (pf : Bytes → Option Bytes) (l : Bytes) : Item Entry :=
  match l with
  | 64 :: _ => .ok (.hdr l)
  | _ => match parseLine pf (splitOn TAB l) with
    | some s => .ok (.sam s)
    | none => .err

def itemsOfLines (pf : Bytes → Option Bytes) (ls : List Bytes) : List (Item Entry) :=
  (ls.filter (· ≠ [])).map (lineItem pf)

def endItems {α : Type} : Ending → List (Item α)
  | .eof => []
  | .fail => [.err]

/-- `ReaderHeader`: every non-empty line in order; a read error ends the
iteration with one error item. -/
def decodeHeaderSrc (pf : Bytes → Option Bytes) (e : Ending) (x : Bytes) : List (Item Entry) :=
  itemsOfLines pf (textLines e x) ++ endItems e

/-- `Reader`: records and errors only. -/
def dropHeaders : List (Item Entry) → List (Item Sam)
  | [] => []
  | .ok (.hdr _) :: rest => dropHeaders rest
  | .ok (.sam s) :: rest => .ok s :: dropHeaders rest
  | .err :: rest => .err :: dropHeaders rest

def decodeSrc (pf : Bytes → Option Bytes) (e : Ending) (x : Bytes) : List (Item Sam) :=
  dropHeaders (decodeHeaderSrc pf e x)

def decodeHeader (pf : Bytes → Option Bytes) (x : Bytes) := decodeHeaderSrc pf .eof x
def decode (pf : Bytes → Option Bytes) (x : Bytes) := decodeSrc pf .eof x

end Bio.Sam
