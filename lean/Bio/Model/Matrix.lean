/-
  Model of align.SubstitutionMatrix (Symmetrical, GoString) and
  formats/smtext.ReadNCBI.  Scores are quarter-integers `q/4` held as `q : Int`
  (exactly representable; printed and parsed by the model's own decimal codec).
-/
import Bio.Model.Lines
namespace Bio.Matrix

abbrev Key := UInt8 × UInt8
/-- A partial matrix as a key-unique association list. -/
abbrev M := List (Key × Int)

def get (m : M) (k : Key) : Option Int := (m.find? fun e => e.1 == k).map (·.2)

def keyLt (a b : Key) : Bool := a.1 < b.1 || (a.1 == b.1 && a.2 < b.2)

/-- Map insert (overwrite), list kept in ascending key order. -/
def insert (k : Key) (v : Int) : M → M
  | [] => [(k, v)]
  | (k', v') :: rest =>
    if k == k' then (k, v) :: rest
    else if keyLt k k' then (k, v) :: (k', v') :: rest
    else (k', v') :: insert k v rest

def flip (k : Key) : Key := (k.2, k.1)

/-- Does the pair conflict with its mirror image in `m`? -/
def conflicts (m : M) (e : Key × Int) : Bool :=
  e.1.1 != e.1.2 && match get m (flip e.1) with
    | some v2 => v2 != e.2
    | none => false

/-- `Symmetrical`; `none` = panic. -/
def symmetrical (m : M) : Option M :=
  if m.any (conflicts m) then none
  else some (m.foldl (fun acc e => insert (flip e.1) e.2 (insert e.1 e.2 acc)) [])

/-- `%v` of the float `q/4`. -/
def quarterText (q : Int) : Bytes :=
  let neg := q < 0
  let a := q.natAbs
  let frac : Bytes := match a % 4 with
    | 1 => [46, 50, 53]
    | 2 => [46, 53]
    | 3 => [46, 55, 53]
    | _ => []
  (if neg then [45] else []) ++ natDigits (a / 4) ++ frac

/-- Canonical quarter decimals (and `-0`); other float spellings are outside
the model (the generator normalises them, see DESIGN). -/
def parseQuarter (s : Bytes) : Option Int :=
  let (neg, body) := match s with
    | 45 :: r => (true, r)
    | _ => (false, s)
  let (ip, fp) := match splitOn 46 body with
    | [i] => (i, ([] : Bytes))
    | [i, f] => (i, 46 :: f)
    | _ => ([], [0])
  let okInt := match ip with
    | [] => false
    | [48] => true
    | 48 :: _ => false
    | _ => true
  if !okInt then none else
  match parseNat ip with
  | none => none
  | some n =>
    let fq : Option Nat :=
      if fp == [] then some 0
      else if fp == [46, 50, 53] then some 1
      else if fp == [46, 53] then some 2
      else if fp == [46, 55, 53] then some 3
      else none
    match fq with
    | none => none
    | some f => let v : Int := (n * 4 + f : Nat); some (if neg then -v else v)

/-- `GoString` with the byte-quoting table `qt` (256 entries, regenerated). -/
def goString (qt : List Bytes) (m : M) : Bytes :=
  let hdr : Bytes := "SubstitutionMatrix{\n".toUTF8.toList
  let q := fun (b : UInt8) => (qt[b.toNat]?).getD []
  let sorted := m.foldl (fun acc e => insert e.1 e.2 acc) []
  hdr ++ sorted.flatMap (fun e =>
    123 :: q e.1.1 ++ 44 :: q e.1.2 ++ [125, 58] ++ quarterText e.2 ++ [44, 10])
  ++ [125, 10]

/-! ## ReadNCBI -/

/-- RE2 `\s`. -/
def isSpace (b : UInt8) : Bool := b == 9 || b == 10 || b == 12 || b == 13 || b == 32

/-- Maximal runs of non-space bytes (`\S+`). -/
def fields : Bytes → List Bytes
  | [] => []
  | b :: rest =>
    if isSpace b then fields rest
    else match rest with
      | [] => [[b]]
      | c :: _ =>
        if isSpace c then [b] :: fields rest
        else match fields rest with
          | f :: fs => (b :: f) :: fs
          | [] => [[b]]

def singleChar (s : Bytes) : Option UInt8 :=
  match s with
  | [42] => some 255
  | [c] => some c
  | _ => none

def rowInsert (c : UInt8) : List UInt8 → List Int → M → M
  | ch :: chs, v :: vs, m => rowInsert c chs vs (insert (c, ch) v m)
  | _, _, m => m

/-- The scan loop: `chars = none` until the header row is seen. -/
def readRows : Option (List UInt8) → List Bytes → M → Option M
  | _, [], m => some m
  | chars, row :: rows, m =>
    match row with
    | [] => readRows chars rows m
    | 35 :: _ => readRows chars rows m
    | _ =>
      match chars with
      | none =>
        match (fields row).mapM singleChar with
        | none => none
        | some cs => readRows (if cs.isEmpty then none else some cs) rows m
      | some cs =>
        match fields row with
        | [] => none
        | lab :: vals =>
          if vals.length != cs.length then none
          else match singleChar lab, vals.mapM parseQuarter with
            | some c, some vs => readRows (some cs) rows (rowInsert c cs vs m)
            | _, _ => none

def readNCBI (x : Bytes) : Option M := readRows none (scanLines x) []

end Bio.Matrix
