/-
  A small model of the pull interface the decoders sit on (`bufio.Reader` over an
  `io.Reader`): the underlying reader delivers the stream as a SCHEDULE of
  chunks (any partition of the data, empty reads allowed) and then ends cleanly
  or with an error; the buffered reader hands out one byte at a time.
  This is the documented contract of bufio, not biostuff code: it is what the
  statement "decoding is independent of how bytes are delivered" means for the
  models, whose decoders are functions of (all bytes, ending).
-/
import Bio.Model.Basic
namespace Bio.Bufio

/-- Buffered-reader state: unread buffered bytes, chunks still to be delivered. -/
structure St where
  buf : Bytes
  rest : List Bytes
  deriving Repr, DecidableEq

/-- Result of one `ReadByte`. -/
inductive RB where
  | byte (b : UInt8) (s : St)
  | done (e : Ending)
  deriving Repr, DecidableEq

/-- `fill`: keep reading until a non-empty chunk arrives (bufio retries empty reads). -/
def fill : List Bytes → Option (UInt8 × Bytes × List Bytes)
  | [] => none
  | [] :: cs => fill cs
  | (b :: r) :: cs => some (b, r, cs)

def readByte (e : Ending) (s : St) : RB :=
  match s.buf with
  | b :: r => .byte b ⟨r, s.rest⟩
  | [] =>
    match fill s.rest with
    | some (b, r, cs) => .byte b ⟨r, cs⟩
    | none => .done e

/-- `UnreadByte` after a successful `ReadByte` of `b`. -/
def unreadByte (b : UInt8) (s : St) : St := ⟨b :: s.buf, s.rest⟩

/-- Everything a consumer sees by calling `ReadByte` until it reports the end. -/
def drain (e : Ending) : Nat → St → Bytes × Option Ending
  | 0, _ => ([], none)
  | fuel + 1, s =>
    match readByte e s with
    | .byte b s' => let r := drain e fuel s'; (b :: r.1, r.2)
    | .done e' => ([], some e')

def size (s : St) : Nat := s.buf.length + (s.rest.map List.length).sum + s.rest.length

end Bio.Bufio
