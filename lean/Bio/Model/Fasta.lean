/-
  Model of formats/fasta: the writer (`Write`/`MarshalText`) and the
  four-state byte machine of `reader.read`, transcribed state for state.
-/
import Bio.Model.Basic
namespace Bio.Fasta

structure Fa where
  name : Bytes
  seq : Bytes
  deriving Repr, DecidableEq

/-- Sequence lines of width `w` (Go: `for i := 0; i < len; i += w`). -/
def wrap (w : Nat) (s : Bytes) : List Bytes :=
  if h : s = [] ∨ w = 0 then [] else s.take w :: wrap w (s.drop w)
termination_by s.length
decreasing_by
  have : s ≠ [] := fun e => h (Or.inl e)
  have : 0 < s.length := List.length_pos_iff.mpr this
  simp only [List.length_drop]; omega

/-- The sequence of `Write` calls (`Fprintf`) the writer makes. -/
def writeCalls (w : Nat) (r : Fa) : List Bytes :=
  (62 :: r.name ++ [10]) :: (wrap w r.seq).map (· ++ [10])

def encode (w : Nat) (r : Fa) : Bytes := (writeCalls w r).flatten

def encodeAll (w : Nat) (rs : List Fa) : Bytes := (rs.map (encode w)).flatten

/-- The length `MarshalText` pre-computes (it panics if the output differs). -/
def marshalLen (w : Nat) (r : Fa) : Nat :=
  2 + r.name.length + r.seq.length + (r.seq.length + w - 1) / w

inductive St where
  | newline | name | seq
  deriving Repr, DecidableEq

/-- The read loop after the first byte: returns name bytes, sequence bytes and
the unread rest (which starts with `'>'` when non-empty). -/
def loop : St → Bytes → Bytes × Bytes × Bytes
  | _, [] => ([], [], [])
  | .seq, b :: rest =>
    if isNL b then loop .newline rest
    else let (n, s, r) := loop .seq rest; (n, b :: s, r)
  | .name, b :: rest =>
    if isNL b then loop .newline rest
    else let (n, s, r) := loop .name rest; (b :: n, s, r)
  | .newline, b :: rest =>
    if isNL b then loop .newline rest
    else if b == 62 then ([], [], b :: rest)
    else let (n, s, r) := loop .seq rest; (n, b :: s, r)

/-- State after the `stateStart` step on the first byte. -/
def startState (b : UInt8) : St :=
  if b == 62 then .name else if isNL b then .newline else .seq

/-- Sequence bytes contributed by the first byte. -/
def startSeq (b : UInt8) : Bytes :=
  if b == 62 then [] else if isNL b then [] else [b]

/-- One call of `reader.read` on a non-empty input: the `stateStart` step on
the first byte, then `loop`. -/
def readOne (b : UInt8) (rest : Bytes) : Fa × Bytes :=
  let t := loop (startState b) rest
  (⟨t.1, startSeq b ++ t.2.1⟩, t.2.2)

theorem loop_rest_le (st : St) (x : Bytes) : (loop st x).2.2.length ≤ x.length := by
  induction x generalizing st with
  | nil => simp [loop]
  | cons b rest ih =>
    cases st <;> simp only [loop] <;> repeat' split
    all_goals first
      | (simp; done)
      | exact Nat.le_trans (ih _) (Nat.le_succ _)

/-- All records of an input, for a source with the given ending.  At the end
of the data: `eof` delivers the record being read, `fail` replaces it by an
error (the partial record is dropped).  -/
def decodeSrc (e : Ending) : Bytes → List (Item Fa)
  | [] => match e with
    | .eof => []
    | .fail => [.err]
  | b :: rest =>
    let p := readOne b rest
    if p.2 = [] then
      match e with
      | .eof => [.ok p.1]
      | .fail => [.err]
    else .ok p.1 :: decodeSrc e p.2
termination_by x => x.length
decreasing_by
  have := loop_rest_le (startState b) rest
  simp only [readOne, List.length_cons] at *
  omega

def decode (x : Bytes) : List (Item Fa) := decodeSrc .eof x

end Bio.Fasta
