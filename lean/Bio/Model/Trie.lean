/-
  Model of trie/trie.go.  A node is its list of (key, child) edges — the
  sibling list is inlined so the type is a plain (non-nested) inductive.
  Edge order is insertion order (Go: map order, compared as sets).
-/
import Bio.Model.Lines
namespace Bio.Trie

inductive T where
  | nil
  | cons (k : UInt8) (child : T) (rest : T)
  deriving Repr, DecidableEq

def T.isNil : T → Bool
  | .nil => true
  | _ => false

def T.size : T → Nat
  | .nil => 0
  | .cons _ c r => 1 + c.size + r.size

/-- A fresh chain of nodes spelling `b`. -/
def chain : Bytes → T
  | [] => .nil
  | b :: bs => .cons b (chain bs) .nil

def add : Bytes → T → T
  | [], t => t
  | b :: bs, .nil => .cons b (chain bs) .nil
  | b :: bs, .cons k c r =>
    if k == b then .cons k (add bs c) r else .cons k c (add (b :: bs) r)

def has : Bytes → T → Bool
  | [], _ => true
  | _ :: _, .nil => false
  | b :: bs, .cons k c r => if k == b then has bs c else has (b :: bs) r

/-- `Delete`: `none` = the path does not exist (returns false, no change);
`some t'` = returns true and the trie becomes `t'`. -/
def del : Bytes → T → Option T
  | [], t => some t
  | _ :: _, .nil => none
  | b :: bs, .cons k c r =>
    if k == b then
      match bs with
      | [] => some r
      | _ :: _ =>
        match del bs c with
        | none => none
        | some c' => if c'.isNil then some r else some (.cons k c' r)
    else (del (b :: bs) r).map (.cons k c ·)

/-- The explicit-stack loop of `ForEach`.  A frame is (node is a leaf, edges
not yet visited); `cur` is the current path, reversed.  Returns the log of
sequences handed to `f`. -/
def eachLoop (f : Bytes → Bool) : Nat → List (Bool × T) → Bytes → List Bytes
  | 0, _, _ => []
  | _, [], _ => []
  | fuel + 1, (leaf, rem) :: stack, cur =>
    let cont : Unit → List Bytes := fun _ =>
      match rem with
      | .nil =>
        match stack with
        | [] => []
        | _ => eachLoop f fuel stack (cur.drop 1)
      | .cons k c r => eachLoop f fuel ((c.isNil, c) :: (leaf, r) :: stack) (k :: cur)
    if leaf && !cur.isEmpty then
      let s := cur.reverse
      s :: (if f s then cont () else [])
    else cont ()

def forEachLog (f : Bytes → Bool) (t : T) : List Bytes :=
  eachLoop f (2 * t.size + 2) [(t.isNil, t)] []

def members (t : T) : List Bytes := forEachLog (fun _ => true) t

/-! ## JSON (`{"m":{"<decimal key>":<child>,...}}`, keys sorted as strings) -/

def edges : T → List (UInt8 × T)
  | .nil => []
  | .cons k c r => (k, c) :: edges r

def renderEntries : List (Bytes × Bytes) → Bytes
  | [] => []
  | [(k, v)] => 34 :: k ++ 34 :: 58 :: v
  | (k, v) :: e :: es => 34 :: k ++ 34 :: 58 :: v ++ 44 :: renderEntries (e :: es)

/-- Sorted (key text, child JSON) entries of a sibling list. -/
def toJSON : T → Bytes
  | t => [123, 34, 109, 34, 58, 123] ++ renderEntries (entries t) ++ [125, 125]
where
  entries : T → List (Bytes × Bytes)
    | .nil => []
    | .cons k c r =>
      let e := (natDigits k.toNat, toJSON c)
      insertE e (entries r)
  insertE (e : Bytes × Bytes) : List (Bytes × Bytes) → List (Bytes × Bytes)
    | [] => [e]
    | e' :: rest => if bytesLe e.1 e'.1 then e :: e' :: rest else e' :: insertE e rest

end Bio.Trie
