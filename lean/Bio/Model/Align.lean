/-
  Model of align/global.go, align/local.go: the single-state DP with the
  gap-open charge decided from the neighbour's stored step, the tie order of
  `decideOnStep`, both tracebacks, and the documented scoring (`rescore`).
  Scores are integers (exact in float64 below 2^53).
-/
import Bio.Model.Basic
namespace Bio.Align

inductive Step where
  | none | mch | del | ins
  deriving Repr, DecidableEq

structure Cell where
  score : Int
  step : Step
  deriving Repr, DecidableEq

def GAP : UInt8 := 255

/-- A matrix with every needed entry present. -/
abbrev Mat := UInt8 → UInt8 → Int

def decideOnStep (mch del ins : Int) : Cell :=
  if mch ≥ del ∧ mch ≥ ins then ⟨mch, .mch⟩
  else if del ≥ ins then ⟨del, .del⟩
  else ⟨ins, .ins⟩

def clamp (loc : Bool) (c : Cell) : Cell :=
  if loc && decide (c.score < 0) then ⟨0, .none⟩ else c

def row0Aux (m : Mat) (loc : Bool) (prev : Int) (first : Bool) : Bytes → List Cell
  | [] => []
  | y :: ys =>
    let c := clamp loc ⟨prev + m GAP y + (if first then m GAP GAP else 0), .ins⟩
    c :: row0Aux m loc c.score false ys

def row0 (m : Mat) (loc : Bool) (b : Bytes) : List Cell :=
  ⟨0, .none⟩ :: row0Aux m loc 0 true b

def rowAux (m : Mat) (loc : Bool) (x : UInt8) : Cell → Cell → List Cell → Bytes → List Cell
  | left, diag, up :: ups, y :: ys =>
    let mch := diag.score + m x y
    let del := up.score + m x GAP + (if up.step != .del then m GAP GAP else 0)
    let ins := left.score + m GAP y + (if left.step != .ins then m GAP GAP else 0)
    let c := clamp loc (decideOnStep mch del ins)
    c :: rowAux m loc x c up ups ys
  | _, _, _, _ => []

def nextRow (m : Mat) (loc : Bool) (x : UInt8) (first : Bool) (prev : List Cell) (b : Bytes) :
    List Cell :=
  match prev with
  | up0 :: ups =>
    let c0 := clamp loc ⟨up0.score + m x GAP + (if first then m GAP GAP else 0), .del⟩
    c0 :: rowAux m loc x c0 up0 ups b
  | [] => []

def tableAux (m : Mat) (loc : Bool) (b : Bytes) (prev : List Cell) (first : Bool) :
    Bytes → List (List Cell)
  | [] => []
  | x :: xs =>
    let r := nextRow m loc x first prev b
    r :: tableAux m loc b r false xs

def table (m : Mat) (loc : Bool) (a b : Bytes) : List (List Cell) :=
  let r0 := row0 m loc b
  r0 :: tableAux m loc b r0 true a

def cellAt (t : List (List Cell)) (i j : Nat) : Cell :=
  ((t[i]?).getD [])[j]?.getD ⟨0, .none⟩

/-- Global traceback from `(i, j)`; steps are produced last-first. -/
def traceG (t : List (List Cell)) : Nat → Nat → Nat → List Step
  | 0, _, _ => []
  | fuel + 1, i, j =>
    if i == 0 && j == 0 then []
    else
      let c := cellAt t i j
      match c.step with
      | .mch => c.step :: traceG t fuel (i - 1) (j - 1)
      | .del => c.step :: traceG t fuel (i - 1) j
      | .ins => c.step :: traceG t fuel i (j - 1)
      | .none => []

def globalT (m : Mat) (a b : Bytes) : List Step × Int :=
  let t := table m false a b
  ((traceG t (a.length + b.length + 1) a.length b.length).reverse,
   (cellAt t a.length b.length).score)

/-- Row-major first maximum (strict `>`), as `argmax`. Returns (i, j, score). -/
def argmaxRow (row : List Cell) (i : Nat) : Nat → (Nat × Nat × Int) → (Nat × Nat × Int)
  := fun j0 best =>
  (row.foldl (fun (st : Nat × (Nat × Nat × Int)) c =>
      let j := st.1
      let best := st.2
      (j + 1, if c.score > best.2.2 then (i, j, c.score) else best)) (j0, best)).2

def argmax (t : List (List Cell)) : Nat × Nat × Int :=
  (t.foldl (fun (st : Nat × (Nat × Nat × Int)) row =>
      (st.1 + 1, argmaxRow row st.1 0 st.2)) (0, (0, 0, (cellAt t 0 0).score))).2

/-- Local traceback: returns steps (last-first) and the last non-zero cell. -/
def traceL (t : List (List Cell)) : Nat → Nat → Nat → (Nat × Nat) → List Step × (Nat × Nat)
  | 0, _, _, last => ([], last)
  | fuel + 1, i, j, last =>
    if i == 0 && j == 0 then ([], last)
    else
      let c := cellAt t i j
      if c.score == 0 then ([], last)
      else
        let r := match c.step with
          | .mch => traceL t fuel (i - 1) (j - 1) (i, j)
          | .del => traceL t fuel (i - 1) j (i, j)
          | .ins => traceL t fuel i (j - 1) (i, j)
          | .none => ([], (i, j))
        (c.step :: r.1, r.2)

/-- steps, start offset in a, start offset in b, score. -/
def localT (m : Mat) (a b : Bytes) : List Step × Int × Int × Int :=
  let t := table m true a b
  let (mi, mj, ms) := argmax t
  if ms == 0 then ([], -1, -1, 0)
  else
    let r := traceL t (a.length + b.length + 1) mi mj (mi, mj)
    (r.1.reverse, (r.2.1 : Int) - 1, (r.2.2 : Int) - 1, ms)

/-! ## Partial matrices: `none` = `Get` panics -/

abbrev PMat := UInt8 → UInt8 → Option Int

def needed (a b : Bytes) : List (UInt8 × UInt8) :=
  (if a.isEmpty && b.isEmpty then [] else [(GAP, GAP)])
  ++ a.map (·, GAP) ++ b.map (GAP, ·)
  ++ (if b.isEmpty then [] else a.flatMap fun x => b.map fun y => (x, y))

def total (pm : PMat) : Mat := fun x y => (pm x y).getD 0

def globalP (pm : PMat) (a b : Bytes) : Option (List Step × Int) :=
  if (needed a b).all fun p => (pm p.1 p.2).isSome then some (globalT (total pm) a b) else none

def localP (pm : PMat) (a b : Bytes) : Option (List Step × Int × Int × Int) :=
  if (needed a b).all fun p => (pm p.1 p.2).isSome then some (localT (total pm) a b) else none

/-! ## The documented scoring of a step list -/

/-- Score of `steps` applied to `a`, `b` (from their starts); `prev` is the
previous step (for the gap-open rule).  Returns the score and what is left of
`a` and `b`; `none` if the steps run off a sequence. -/
def rescore (m : Mat) : Step → Bytes → Bytes → List Step → Option (Int × Bytes × Bytes)
  | _, a, b, [] => some (0, a, b)
  | _, x :: a, y :: b, .mch :: s =>
    (rescore m .mch a b s).map fun r => (m x y + r.1, r.2)
  | prev, x :: a, b, .del :: s =>
    (rescore m .del a b s).map fun r =>
      (m x GAP + (if prev != .del then m GAP GAP else 0) + r.1, r.2)
  | prev, a, y :: b, .ins :: s =>
    (rescore m .ins a b s).map fun r =>
      (m GAP y + (if prev != .ins then m GAP GAP else 0) + r.1, r.2)
  | _, _, _, _ => none

/-- Association-list matrices (what the driver and the generated tables use). -/
def lookup (l : List ((UInt8 × UInt8) × Int)) : PMat := fun x y =>
  (l.find? fun e => e.1 == (x, y)).map (·.2)

end Bio.Align
