/-
  Vocabulary for the translated newick traversal (`Bio.Generated.GoSrc.traverse`): a Go `*Node` is the
  hand model's `Newick.Tree` (the traversal code only reads it), `n.Children` is `kidsOf n`.
-/
import Bio.Model.Newick
namespace Bio.GoRt
open Bio.Newick

/-- The children of a forest in first-child / next-sibling encoding, as a list (Go: `n.Children`). -/
def forestList : Forest → List Tree
  | .nil => []
  | .cons n d k r => ⟨n, d, k⟩ :: forestList r

def kidsOf (t : Tree) : List Tree := forestList t.kids

end Bio.GoRt
