/-
  The reader iterators WITH the consumer callback (property C18).

  The other model files give, for each format, the whole list of items an
  uninterrupted iteration delivers (`Fasta.decodeSrc`, `Fastq.decodeSrc`,
  `Sam.decodeHeaderSrc`, `Sam.decodeSrc`, `Bed.decodeSrc`, `Newick.decodeSrc`).
  Here the Go closures of

    formats/fasta/iter.go   iter, Reader, File
    formats/fastq/iter.go   iter, Reader, File
    formats/sam/iter.go     ReaderHeader, Reader, File, FileHeader
    formats/bed/iter.go     Reader, File
    formats/newick/newick.go Reader, File

  are transcribed loop for loop, with `yield` as a parameter.

  Go range-over-func: `for x := range seq { body }` calls `seq(yield)` where
  `yield(x)` runs `body` and returns `false` iff the body executed
  `break`/`return`.

  An iterator is observed through the LOG of its callback invocations: given
  the consumer `f` (`true` = keep going), the list of items handed to `f`, in
  call order.  Core Lean only.
-/
import Bio.Model.Fasta
import Bio.Model.Fastq
import Bio.Model.Sam
import Bio.Model.Bed
import Bio.Model.Newick

namespace Bio.Iter

/-- A push iterator (`iter.Seq2[*T, error]`), as the log of the calls it
makes to the consumer `f`. -/
abbrev Seq (α : Type) := (α → Bool) → List α

/-! ## The pull side: one call of the format's `read()` -/

/-- Result of one `read()`: a record and the reader state after it, a non-EOF
error, or `io.EOF`. -/
inductive Pull (ρ σ : Type) where
  | item (a : ρ) (s : σ)
  | err
  | done

/-- A reader: `next` is one `read()` call on state `σ`; `size` is a measure
that every successful read decreases (the input is finite), which is what makes
the Go `for { ... }` loops below terminate. -/
structure Source (ρ σ : Type) where
  next : σ → Pull ρ σ
  size : σ → Nat
  dec : ∀ s a s', next s = .item a s' → size s' < size s

/-! ## The base loops -/

/-- fasta / fastq `(*reader).iter`:
```go
for {
    x, err := r.read()
    if err != nil {
        if err != io.EOF {
            yield(nil, err)      // answer ignored
        }
        break
    }
    if !yield(x, nil) {
        return
    }
}
``` -/
def iterLoop {ρ σ : Type} (S : Source ρ σ) (f : Item ρ → Bool) (s : σ) : List (Item ρ) :=
  match _h : S.next s with
  | .err => [.err]
  | .done => []
  | .item a s' => .ok a :: (if f (.ok a) then iterLoop S f s' else [])
termination_by S.size s
decreasing_by exact S.dec _ _ _ _h

/-- bed / newick `Reader`:
```go
for {
    x, err := rd.read()
    if err == io.EOF {
        return
    }
    if err != nil {
        yield(nil, err)          // answer ignored
        return
    }
    if !yield(x, nil) {
        return
    }
}
``` -/
def readerLoop {ρ σ : Type} (S : Source ρ σ) (f : Item ρ → Bool) (s : σ) : List (Item ρ) :=
  match _h : S.next s with
  | .done => []
  | .err => [.err]
  | .item a s' => .ok a :: (if f (.ok a) then readerLoop S f s' else [])
termination_by S.size s
decreasing_by exact S.dec _ _ _ _h

/-- sam `ReaderHeader`.  The source delivers text lines (`ReadString('\n')`,
LF and one CR trimmed); `.err` is a failed read, `.done` is `io.EOF` after the
last line.
```go
for {
    text, rerr := br.ReadString('\n')
    if rerr != nil && rerr != io.EOF {
        yield(SAMOrHeader{}, rerr)             // answer ignored
        return
    }
    text = TrimSuffix(TrimSuffix(text, "\n"), "\r")
    if text != "" {
        if strings.HasPrefix(text, "@") {
            if !yield(SAMOrHeader{H: &text}, nil) { return }
        } else {
            s, err := parseLine(strings.Split(text, "\t"))
            if !yield(SAMOrHeader{S: s}, err) { return }   // a parse error is an ordinary item
        }
    }
    if rerr == io.EOF { return }
}
``` -/
def samHeaderLoop {σ : Type} (pf : Bytes → Option Bytes) (S : Source Bytes σ)
    (f : Item Sam.Entry → Bool) (s : σ) : List (Item Sam.Entry) :=
  match _h : S.next s with
  | .err => [.err]
  | .done => []
  | .item text s' =>
    if text ≠ [] then
      match text with
      | 64 :: _ =>
        .ok (.hdr text) :: (if f (.ok (.hdr text)) then samHeaderLoop pf S f s' else [])
      | _ =>
        match Sam.parseLine pf (splitOn TAB text) with
        | some r => .ok (.sam r) :: (if f (.ok (.sam r)) then samHeaderLoop pf S f s' else [])
        | none => .err :: (if f .err then samHeaderLoop pf S f s' else [])
    else samHeaderLoop pf S f s'
termination_by S.size s
decreasing_by all_goals exact S.dec _ _ _ _h

/-! ## Ranging over an inner iterator -/

/-- `for x := range inner { body }` where running `body` on `x` makes the outer
callbacks `(body x).1` and then continues the loop iff `(body x).2` (`false` =
the body executed `break`/`return`).  `inner` is called with the body's answer
as its consumer; its log is the list of items the body was run on; the outer
log is the concatenation of what each run of the body handed out. -/
def rangeOver {α β : Type} (inner : Seq α) (body : α → List β × Bool) : List β :=
  (inner (fun x => (body x).2)).flatMap (fun x => (body x).1)

/-- `Reader` around `iter()`, `File` around `Reader`, `FileHeader` around
`ReaderHeader`:
```go
for x, err := range inner {
    if !yield(x, err) {
        break            // newick `File` says `return`; nothing follows the loop
    }
}
``` -/
def wrap {α : Type} (inner : Seq α) : Seq α := fun f =>
  rangeOver inner (fun x => ([x], f x))

/-- The same loop with a body that may `continue` without a callback:
`g x = none` — `continue`; `g x = some y` — `if !yield(y) { break }`. -/
def filterMapBody {α β : Type} (g : α → Option β) (f : β → Bool) (x : α) : List β × Bool :=
  match g x with
  | none => ([], true)
  | some y => ([y], f y)

def wrapFilterMap {α β : Type} (g : α → Option β) (inner : Seq α) : Seq β := fun f =>
  rangeOver inner (filterMapBody g f)

/-- sam `Reader` around `ReaderHeader`:
```go
for sh, err := range ReaderHeader(r) {
    if err != nil {
        if !yield(nil, err) { break }
        continue
    }
    if sh.S == nil {
        continue                 // header: no callback
    }
    if !yield(sh.S, nil) { break }
}
``` -/
def samBody (f : Item Sam.Sam → Bool) : Item Sam.Entry → List (Item Sam.Sam) × Bool
  | .err => ([.err], f .err)
  | .ok (.hdr _) => ([], true)
  | .ok (.sam r) => ([.ok r], f (.ok r))

def samWrap (inner : Seq (Item Sam.Entry)) : Seq (Item Sam.Sam) := fun f =>
  rangeOver inner (samBody f)

/-- `File` / `FileHeader`: `opened = none` — `aio.Open` failed.
```go
f, err := aio.Open(file)
if err != nil {
    yield(nil, err)              // answer ignored
    return
}
defer f.Close()
for x, err := range Reader(f) { if !yield(x, err) { break } }
``` -/
def file {ρ : Type} (opened : Option (Seq (Item ρ))) : Seq (Item ρ) := fun f =>
  match opened with
  | none => [.err]
  | some inner => wrap inner f

/-! ## The readers of the five formats -/

/-- A byte source: how it ends, and its bytes. -/
abbrev Input := Ending × Bytes

/-! ### FASTA — state: the unread bytes -/

/-- One `reader.read`, with the case split of `Fasta.decodeSrc`: no byte left —
EOF or the read error; a record that ran into the end of the data — delivered
if the source ends cleanly, replaced by the error if it fails. -/
def fastaNext (e : Ending) : Bytes → Pull Fasta.Fa Bytes
  | [] => match e with
    | .eof => .done
    | .fail => .err
  | b :: rest =>
    let p := Fasta.readOne b rest
    if p.2 = [] then
      match e with
      | .eof => .item p.1 p.2
      | .fail => .err
    else .item p.1 p.2

theorem fastaNext_dec (e : Ending) (s : Bytes) (a : Fasta.Fa) (s' : Bytes)
    (h : fastaNext e s = .item a s') : s'.length < s.length := by
  cases s with
  | nil => cases e <;> simp [fastaNext] at h
  | cons b rest =>
    have hle := Fasta.loop_rest_le (Fasta.startState b) rest
    simp only [fastaNext] at h
    split at h
    · cases e
      · simp only [Pull.item.injEq] at h
        rw [← h.2]; show (Fasta.loop (Fasta.startState b) rest).2.2.length < rest.length + 1; omega
      · cases h
    · simp only [Pull.item.injEq] at h
      rw [← h.2]; show (Fasta.loop (Fasta.startState b) rest).2.2.length < rest.length + 1; omega

def fastaSrc (e : Ending) : Source Fasta.Fa Bytes := ⟨fastaNext e, List.length, fastaNext_dec e⟩

/-- `newReader(r).iter()`. -/
def fastaIter (e : Ending) (x : Bytes) : Seq (Item Fasta.Fa) := fun f => iterLoop (fastaSrc e) f x
/-- `fasta.Reader(r)`. -/
def fastaReader (e : Ending) (x : Bytes) : Seq (Item Fasta.Fa) := wrap (fastaIter e x)
/-- `fasta.File(path)`; `none` = the path cannot be opened. -/
def fastaFile (o : Option Input) : Seq (Item Fasta.Fa) :=
  file (o.map fun i => fastaReader i.1 i.2)

/-! ### FASTQ — state: the unread `bufio.ScanLines` tokens -/

/-- One `reader.read`, with the case split of `Fastq.fromLines`. -/
def fastqNext (e : Ending) : List Bytes → Pull Fastq.Fq (List Bytes)
  | [] => match e with
    | .eof => .done
    | .fail => .err
  | l1 :: rest1 =>
    match l1 with
    | 64 :: name =>
      match rest1 with
      | sq :: pl :: ql :: rest =>
        match pl with
        | 43 :: _ => if ql.length = sq.length then .item ⟨name, sq, ql⟩ rest else .err
        | _ => .err
      | _ => .err
    | _ => .err

theorem fastqNext_dec (e : Ending) (s : List Bytes) (a : Fastq.Fq) (s' : List Bytes)
    (h : fastqNext e s = .item a s') : s'.length < s.length := by
  unfold fastqNext at h
  split at h
  · cases e <;> cases h
  · split at h
    · split at h
      · split at h
        · split at h
          · simp only [Pull.item.injEq] at h
            rw [← h.2]; simp only [List.length_cons]; omega
          · cases h
        · cases h
      · cases h
    · cases h

def fastqSrc (e : Ending) : Source Fastq.Fq (List Bytes) :=
  ⟨fastqNext e, List.length, fastqNext_dec e⟩

def fastqIter (e : Ending) (x : Bytes) : Seq (Item Fastq.Fq) := fun f =>
  iterLoop (fastqSrc e) f (scanLines x)
def fastqReader (e : Ending) (x : Bytes) : Seq (Item Fastq.Fq) := wrap (fastqIter e x)
def fastqFile (o : Option Input) : Seq (Item Fastq.Fq) :=
  file (o.map fun i => fastqReader i.1 i.2)

/-! ### BED — state: `r.nfields` and the unread text lines -/

/-- One `reader.read`: blank lines and `#` comments are skipped inside the
call, with the case split of `Bed.fromLines`. -/
def bedRead (e : Ending) : Option Nat → List Bytes → Pull Bed.Bed (Option Nat × List Bytes)
  | _, [] => match e with
    | .eof => .done
    | .fail => .err
  | nf, l :: rest =>
    if Bed.isSkipped l then bedRead e nf rest
    else
      let fs := splitOn TAB l
      if nf.isSome && nf != some fs.length then .err
      else match Bed.parseLine fs with
        | none => .err
        | some b => .item b (some fs.length, rest)

def bedNext (e : Ending) (s : Option Nat × List Bytes) : Pull Bed.Bed (Option Nat × List Bytes) :=
  bedRead e s.1 s.2

theorem bedRead_dec (e : Ending) (nf : Option Nat) (ls : List Bytes) (a : Bed.Bed)
    (s' : Option Nat × List Bytes) (h : bedRead e nf ls = .item a s') :
    s'.2.length < ls.length := by
  induction ls with
  | nil => cases e <;> simp [bedRead] at h
  | cons l rest ih =>
    simp only [bedRead] at h
    split at h
    · have := ih h; simp only [List.length_cons]; omega
    · split at h
      · cases h
      · split at h
        · cases h
        · simp only [Pull.item.injEq] at h
          rw [← h.2]; simp

def bedSrc (e : Ending) : Source Bed.Bed (Option Nat × List Bytes) :=
  ⟨bedNext e, fun s => s.2.length, fun s a s' h => bedRead_dec e s.1 s.2 a s' h⟩

/-- `bed.Reader(r)`: `newReader` starts with `nfields` unset. -/
def bedReader (e : Ending) (x : Bytes) : Seq (Item Bed.Bed) := fun f =>
  readerLoop (bedSrc e) f (none, textLines e x)
def bedFile (o : Option Input) : Seq (Item Bed.Bed) :=
  file (o.map fun i => bedReader i.1 i.2)

/-! ### Newick — state: the unread bytes -/

/-- One `reader.read` (`Newick.readTree`).  The progress guard is the one of
`Newick.decodeSrc`; it never fires (`Newick.read_consumes` in C05) and is here
only so that `Source.dec` holds by definition. -/
def newickNext (pd : Bytes → Option Newick.Dist) (e : Ending) (x : Bytes) :
    Pull Newick.Tree Bytes :=
  match Newick.readTree pd e x with
  | .eof => .done
  | .err => .err
  | .tree t rest => if rest.length < x.length then .item t rest else .err

theorem newickNext_dec (pd : Bytes → Option Newick.Dist) (e : Ending) (s : Bytes)
    (a : Newick.Tree) (s' : Bytes) (h : newickNext pd e s = .item a s') :
    s'.length < s.length := by
  unfold newickNext at h
  split at h
  · cases h
  · cases h
  · split at h
    · simp only [Pull.item.injEq] at h
      rw [← h.2]; assumption
    · cases h

def newickSrc (pd : Bytes → Option Newick.Dist) (e : Ending) : Source Newick.Tree Bytes :=
  ⟨newickNext pd e, List.length, newickNext_dec pd e⟩

def newickReader (pd : Bytes → Option Newick.Dist) (e : Ending) (x : Bytes) :
    Seq (Item Newick.Tree) := fun f => readerLoop (newickSrc pd e) f x
def newickFile (pd : Bytes → Option Newick.Dist) (o : Option Input) : Seq (Item Newick.Tree) :=
  file (o.map fun i => newickReader pd i.1 i.2)

/-! ### SAM — state: the unread text lines -/

/-- `ReadString('\n')` over the text lines of `textLines e x`: after the last
line a clean source reports `io.EOF`, a failing one the read error. -/
def linesNext (e : Ending) : List Bytes → Pull Bytes (List Bytes)
  | [] => match e with
    | .eof => .done
    | .fail => .err
  | l :: rest => .item l rest

theorem linesNext_dec (e : Ending) (s : List Bytes) (a : Bytes) (s' : List Bytes)
    (h : linesNext e s = .item a s') : s'.length < s.length := by
  cases s with
  | nil => cases e <;> cases h
  | cons l rest =>
    simp only [linesNext, Pull.item.injEq] at h
    rw [← h.2]; simp

def linesSrc (e : Ending) : Source Bytes (List Bytes) := ⟨linesNext e, List.length, linesNext_dec e⟩

/-- `sam.ReaderHeader(r)`. -/
def samReaderHeader (pf : Bytes → Option Bytes) (e : Ending) (x : Bytes) :
    Seq (Item Sam.Entry) := fun f => samHeaderLoop pf (linesSrc e) f (textLines e x)
/-- `sam.Reader(r)`. -/
def samReader (pf : Bytes → Option Bytes) (e : Ending) (x : Bytes) : Seq (Item Sam.Sam) :=
  samWrap (samReaderHeader pf e x)
/-- `sam.File(path)`. -/
def samFile (pf : Bytes → Option Bytes) (o : Option Input) : Seq (Item Sam.Sam) :=
  file (o.map fun i => samReader pf i.1 i.2)
/-- `sam.FileHeader(path)`. -/
def samFileHeader (pf : Bytes → Option Bytes) (o : Option Input) : Seq (Item Sam.Entry) :=
  file (o.map fun i => samReaderHeader pf i.1 i.2)

end Bio.Iter
