/-
  Model of formats/newick: name quoting, writer, tokenizer, parser, reader.
  Trees use the first-child / next-sibling encoding (`Forest`) so that plain
  structural induction works.  Distances are opaque canonical tokens:
  `none` = 0 = "no distance"; `pd` is the assumed
  `ParseFloat` ∘ `%v` normaliser and is a parameter of the parser.
-/
import Bio.Model.Basic
namespace Bio.Newick

abbrev Dist := Option Bytes

/-- An ordered list of sibling subtrees. -/
inductive Forest where
  | nil
  | cons (name : Bytes) (dist : Dist) (kids : Forest) (rest : Forest)
  deriving Repr, DecidableEq

structure Tree where
  name : Bytes
  dist : Dist
  kids : Forest
  deriving Repr, DecidableEq

def Forest.snoc : Forest → Tree → Forest
  | .nil, t => .cons t.name t.dist t.kids .nil
  | .cons n d k r, t => .cons n d k (r.snoc t)

def Forest.size : Forest → Nat
  | .nil => 0
  | .cons _ _ k r => 1 + k.size + r.size

def QUOTE : UInt8 := 39

/-- Bytes that force a name to be quoted (`strings.ContainsAny`). -/
def needsQuote (quoteSet : Bytes) (s : Bytes) : Bool := s.any (quoteSet.contains ·)

def doubleQuotes : Bytes → Bytes
  | [] => []
  | b :: rest => if b == QUOTE then QUOTE :: QUOTE :: doubleQuotes rest else b :: doubleQuotes rest

def undoubleQuotes : Bytes → Bytes
  | [] => []
  | [b] => [b]
  | a :: b :: rest =>
    if a == QUOTE && b == QUOTE then QUOTE :: undoubleQuotes rest
    else a :: undoubleQuotes (b :: rest)

def nameToText (quoteSet : Bytes) (s : Bytes) : Bytes :=
  if needsQuote quoteSet s then QUOTE :: doubleQuotes s ++ [QUOTE]
  else s.map fun b => if b == 32 then 95 else b

def quoted (s : Bytes) : Bool :=
  s.length ≥ 2 && s.head? == some QUOTE && s.getLast? == some QUOTE

def nameFromText (s : Bytes) : Bytes :=
  if quoted s then undoubleQuotes (s.drop 1).dropLast
  else s.map fun b => if b == 95 then 32 else b

def distText : Dist → Bytes
  | none => []
  | some t => 58 :: t

/-- Comma-separated subtrees. -/
def writeForest (qs : Bytes) : Forest → Bytes
  | .nil => []
  | .cons n d k r =>
    (match k with
      | .nil => []
      | _ => 40 :: writeForest qs k ++ [41])
    ++ nameToText qs n ++ distText d
    ++ (match r with
      | .nil => []
      | _ => 44 :: writeForest qs r)

def write (qs : Bytes) (t : Tree) : Bytes :=
  writeForest qs (.cons t.name t.dist t.kids .nil) ++ [59]

/-! ## Tokenizer -/

inductive Tok where
  | tok (t : Bytes) (rest : Bytes)
  | eof
  | err
  deriving Repr, DecidableEq

def isStruct (b : UInt8) : Bool := b == 40 || b == 41 || b == 44 || b == 58 || b == 59
def isWS (b : UInt8) : Bool := b == 32 || b == 9 || b == 10 || b == 13

/-- Inside a quoted token; `aq` = afterQuote flag.  Returns (token tail, rest);
`none` = read error at the end of a failing source. -/
def quotedTail (e : Ending) : Bool → Bytes → Option (Bytes × Bytes)
  | _, [] => match e with
    | .eof => some ([], [])
    | .fail => none
  | aq, b :: rest =>
    if b == QUOTE then (quotedTail e (!aq) rest).map fun p => (b :: p.1, p.2)
    else if aq then some ([], b :: rest)
    else (quotedTail e false rest).map fun p => (b :: p.1, p.2)

/-- Inside an unquoted token with a non-empty buffer. -/
def bareTail (e : Ending) : Bytes → Option (Option (Bytes × Bytes))
  -- none = read error; some none = syntax error (quote inside bare token)
  | [] => match e with
    | .eof => some (some ([], []))
    | .fail => none
  | b :: rest =>
    if b == QUOTE then some none
    else if isStruct b then some (some ([], b :: rest))
    else if isWS b then some (some ([], rest))
    else match bareTail e rest with
      | some (some p) => some (some (b :: p.1, p.2))
      | r => r

def nextToken (e : Ending) : Bytes → Tok
  | [] => match e with
    | .eof => .eof
    | .fail => .err
  | b :: rest =>
    if b == QUOTE then
      match quotedTail e false rest with
      | some p => .tok (b :: p.1) p.2
      | none => .err
    else if isStruct b then .tok [b] rest
    else if isWS b then nextToken e rest
    else match bareTail e rest with
      | some (some p) => .tok (b :: p.1) p.2
      | _ => .err

theorem quotedTail_le (e : Ending) (aq : Bool) (x : Bytes) (p : Bytes × Bytes)
    (h : quotedTail e aq x = some p) : p.2.length ≤ x.length := by
  induction x generalizing aq p with
  | nil => cases e <;> simp [quotedTail] at h; subst h; simp
  | cons b rest ih =>
    simp only [quotedTail] at h
    split at h
    · cases hq : quotedTail e (!aq) rest with
      | none => simp [hq] at h
      | some q => simp [hq] at h; subst h; have := ih _ q hq; simp; omega
    · split at h
      · simp at h; subst h; simp
      · cases hq : quotedTail e false rest with
        | none => simp [hq] at h
        | some q => simp [hq] at h; subst h; have := ih _ q hq; simp; omega

theorem bareTail_le (e : Ending) (x : Bytes) (p : Bytes × Bytes)
    (h : bareTail e x = some (some p)) : p.2.length ≤ x.length := by
  induction x generalizing p with
  | nil => cases e <;> simp [bareTail] at h; subst h; simp
  | cons b rest ih =>
    simp only [bareTail] at h
    split at h
    · simp at h
    · split at h
      · simp at h; subst h; simp
      · split at h
        · simp at h; subst h; simp
        · cases hq : bareTail e rest with
          | none => simp [hq] at h
          | some o => cases o with
            | none => simp [hq] at h
            | some q => simp [hq] at h; subst h; have := ih q hq; simp; omega

theorem nextToken_lt (e : Ending) (x : Bytes) (t rest : Bytes)
    (h : nextToken e x = .tok t rest) : rest.length < x.length := by
  induction x with
  | nil => cases e <;> simp [nextToken] at h
  | cons b r ih =>
    simp only [nextToken] at h
    split at h
    · cases hq : quotedTail e false r with
      | none => simp [hq] at h
      | some q =>
        simp [hq] at h; obtain ⟨_, h2⟩ := h; subst h2
        have := quotedTail_le e false r q hq; simp; omega
    · split at h
      · simp at h; obtain ⟨_, h2⟩ := h; subst h2; simp
      · split at h
        · have := ih h; simp; omega
        · cases hq : bareTail e r with
          | none => simp [hq] at h
          | some o => cases o with
            | none => simp [hq] at h
            | some q =>
              simp [hq] at h; obtain ⟨_, h2⟩ := h; subst h2
              have := bareTail_le e r q hq; simp; omega

/-! ## Parser -/

inductive PState where
  | beforeNode | afterName | afterColon | afterDist | afterChildren
  deriving Repr, DecidableEq

/-- Outcome of reading one tree. -/
inductive ReadRes where
  | tree (t : Tree) (rest : Bytes)
  | eof            -- clean end: no token before EOF
  | err
  deriving Repr, DecidableEq

/-- Close the top frame into its parent. -/
def closeTop (top parent : Tree) : Tree := { parent with kids := parent.kids.snoc top }

def emptyNode : Tree := ⟨[], none, .nil⟩

/-- The token loop of `reader.read`.  `stack` has the current node first and
the root last; `readAny` as in the code. -/
def readLoop (pd : Bytes → Option Dist) (e : Ending) :
    (x : Bytes) → (cur : Tree) → (stack : List Tree) → PState → Bool → ReadRes
  | x, cur, stack, st, readAny =>
    match h : nextToken e x with
    | .eof => if readAny then .err else .eof
    | .err => .err
    | .tok t rest =>
      have : rest.length < x.length := nextToken_lt e x t rest h
      match t with
      | [40] =>
        if st != .beforeNode then .err
        else readLoop pd e rest emptyNode (cur :: stack) st true
      | [41] =>
        if st == .afterColon then .err
        else match stack with
          | [] => .err
          | parent :: stack' => readLoop pd e rest (closeTop cur parent) stack' .afterChildren true
      | [44] =>
        if st == .afterColon then .err
        else match stack with
          | [] => .err
          | parent :: stack' =>
            readLoop pd e rest emptyNode (closeTop cur parent :: stack') .beforeNode true
      | [58] =>
        if st == .afterColon || st == .afterDist then .err
        else readLoop pd e rest cur stack .afterColon true
      | [59] =>
        if !stack.isEmpty then .err
        else if st == .afterColon then .err
        else .tree cur rest
      | _ =>
        if st == .afterName || st == .afterDist then .err
        else if st == .beforeNode || st == .afterChildren then
          readLoop pd e rest { cur with name := nameFromText t } stack .afterName true
        else match pd t with
          | none => .err
          | some d => readLoop pd e rest { cur with dist := d } stack .afterDist true
termination_by x => x.length

def readTree (pd : Bytes → Option Dist) (e : Ending) (x : Bytes) : ReadRes :=
  readLoop pd e x emptyNode [] .beforeNode false

/-- `Reader`: trees until a clean end; the first error ends the iteration.
(The `else` branch of the progress guard is dead code: every tree consumes at
least its `;`.  It is kept as a guard so that the definition is total without
appeal to that fact, and reports an error rather than a record.) -/
def decodeSrc (pd : Bytes → Option Dist) (e : Ending) (x : Bytes) : List (Item Tree) :=
  match readTree pd e x with
  | .eof => []
  | .err => [.err]
  | .tree t rest =>
    if _h : rest.length < x.length then .ok t :: decodeSrc pd e rest else [.err]
termination_by x.length

def decode (pd : Bytes → Option Dist) (x : Bytes) : List (Item Tree) := decodeSrc pd .eof x

end Bio.Newick
