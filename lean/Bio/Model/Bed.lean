/-
  Model of formats/bed: `Write` (first N fields), `parseLine`, and the line
  reader (blank lines and `#` comments skipped, all records must have as many
  fields as the first, iteration stops at the first error).
-/
import Bio.Model.Lines
namespace Bio.Bed

structure Bed where
  n : Int
  chrom : Bytes
  chromStart : Int
  chromEnd : Int
  name : Bytes
  score : Int
  strand : Bytes
  thickStart : Int
  thickEnd : Int
  rgb : UInt8 × UInt8 × UInt8
  blockCount : Int
  blockSizes : List Int
  blockStarts : List Int
  deriving Repr, DecidableEq

def COMMA : UInt8 := 44

def intList (l : List Int) : Bytes := joinWith COMMA (l.map itoa)

/-- Text of the twelve fields (all of them; `Write` emits the first `n`). -/
def allFields (b : Bed) : List Bytes :=
  [b.chrom, itoa b.chromStart, itoa b.chromEnd, b.name, itoa b.score, b.strand,
   itoa b.thickStart, itoa b.thickEnd,
   natDigits b.rgb.1.toNat ++ COMMA :: natDigits b.rgb.2.1.toNat ++ COMMA :: natDigits b.rgb.2.2.toNat,
   itoa b.blockCount, intList b.blockSizes, intList b.blockStarts]

/-- `none` ⇔ `Write` returns an error and emits nothing. -/
def encodeLine (b : Bed) : Option Bytes :=
  if b.n < 3 ∨ b.n > 12 then none
  else some (joinWith TAB ((allFields b).take b.n.toNat))

def encode (b : Bed) : Option Bytes := (encodeLine b).map (· ++ [LF])

/-- Canonical decimal 0…255 (`ParseUint(s, 0, 8)` restricted to the spellings
the writer emits; other spellings are outside the model, see DESIGN). -/
def parseU8 (s : Bytes) : Option UInt8 :=
  match s with
  | [] => none
  | [48] => some 0
  | 48 :: _ => none
  | _ => match parseNat s with
    | some v => if v ≤ 255 then some (UInt8.ofNat v) else none
    | none => none

def optInt (s : Bytes) : Option Int := if s = [] then some 0 else atoi s

def parseIntList (s : Bytes) : Option (List Int) :=
  if s = [] then some [] else (splitOn COMMA s).mapM atoi

def validStrand (s : Bytes) : Bool := s = [] || s = [43] || s = [45] || s = [46]

def parseRGB (s : Bytes) : Option (UInt8 × UInt8 × UInt8) :=
  if s = [] then some (0, 0, 0)
  else match splitOn COMMA s with
    | [a, b, c] =>
      match parseU8 a, parseU8 b, parseU8 c with
      | some a, some b, some c => some (a, b, c)
      | _, _, _ => none
    | _ => none

def parseLine (fs : List Bytes) : Option Bed :=
  let n := fs.length
  if n < 3 ∨ n > 12 then none else
  let f := fun i => (fs[i]?).getD []
  match atoi (f 1), atoi (f 2), optInt (f 4), optInt (f 6), optInt (f 7), parseRGB (f 8),
        optInt (f 9), parseIntList (f 10), parseIntList (f 11) with
  | some cs, some ce, some sc, some ts, some te, some rgb, some bc, some bs, some bst =>
    if !validStrand (f 5) then none
    else if n > 10 ∧ (bs.length : Int) ≠ bc then none
    else if n > 11 ∧ (bst.length : Int) ≠ bc then none
    else some ⟨n, f 0, cs, ce, f 3, sc, f 5, ts, te, rgb, bc, bs, bst⟩
  | _, _, _, _, _, _, _, _, _ => none

def endItems {α : Type} : Ending → List (Item α)
  | .eof => []
  | .fail => [.err]

def isSkipped (l : Bytes) : Bool :=
  match l with
  | [] => true
  | 35 :: _ => true
  | _ => false

/-- The reader over text lines; `nf` is the field count fixed by the first
record. -/
def fromLines (e : Ending) : Option Nat → List Bytes → List (Item Bed)
  | _, [] => endItems e
  | nf, l :: rest =>
    if isSkipped l then fromLines e nf rest
    else
      let fs := splitOn TAB l
      if nf.isSome && nf != some fs.length then [.err]
      else match parseLine fs with
        | none => [.err]
        | some b => .ok b :: fromLines e (some fs.length) rest

def decodeSrc (e : Ending) (x : Bytes) : List (Item Bed) := fromLines e none (textLines e x)

def decode (x : Bytes) : List (Item Bed) := decodeSrc .eof x

end Bio.Bed
