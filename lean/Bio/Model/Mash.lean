/-
  Model of mash/mash.go over an arbitrary hash `h : Bytes → Nat`, with the
  contract of gostuff's `minhash` (Push / Sort / intersect) transcribed.
-/
import Bio.Model.Sequtil
namespace Bio.Mash

def upper (s : Bytes) : Bytes := s.map fun b => if 97 ≤ b && b ≤ 122 then b - 32 else b

/-- All canonical k-mers of all sequences, in push order; `none` = panic. -/
def kmers (tbl : List UInt8) (k : Nat) : List Bytes → Option (List Bytes)
  | [] => some []
  | s :: rest =>
    match Sequtil.canonical tbl (upper s) k, kmers tbl k rest with
    | some a, some b => some (a ++ b)
    | _, _ => none

def insertDesc (x : Nat) : List Nat → List Nat
  | [] => [x]
  | y :: ys => if x > y then x :: y :: ys else y :: insertDesc x ys

/-- `MinHash.Push` on a sketch kept in descending order (head = maximum). -/
def push (n : Nat) (s : List Nat) (x : Nat) : List Nat :=
  if s.length == n && decide (x ≥ s.headD 0) then s
  else if s.contains x then s
  else insertDesc x (if s.length == n then s.drop 1 else s)

/-- `Add` on an existing sketch. -/
def addTo (tbl : List UInt8) (h : Bytes → Nat) (n k : Nat) (s : List Nat) (seqs : List Bytes) :
    Option (List Nat) :=
  (kmers tbl k seqs).map fun ks => (ks.map h).foldl (push n) s

/-- `Sequences(n, k, seqs...)`, as `View()` after `Sort()` (descending). -/
def sketch (tbl : List UInt8) (h : Bytes → Nat) (n k : Nat) (seqs : List Bytes) : Option (List Nat) :=
  addTo tbl h n k [] seqs

/-- gostuff `intersect`, walking both sketches from their small ends
(arguments are ascending lists here = the reversed views). `m` counts steps,
`ca`, `cb` elements consumed. Returns (intersection, m, ca, cb). -/
def interLoop (k : Nat) : Nat → List Nat → List Nat → Nat → Nat → Nat → Nat → Nat × Nat × Nat × Nat
  | 0, _, _, inter, m, ca, cb => (inter, m, ca, cb)
  | _, [], _, inter, m, ca, cb => (inter, m, ca, cb)
  | _, _, [], inter, m, ca, cb => (inter, m, ca, cb)
  | fuel + 1, x :: xs, y :: ys, inter, m, ca, cb =>
    if m ≥ k then (inter, m, ca, cb)
    else if x > y then interLoop k fuel (x :: xs) ys inter (m + 1) ca (cb + 1)
    else if x < y then interLoop k fuel xs (y :: ys) inter (m + 1) (ca + 1) cb
    else interLoop k fuel xs ys (inter + 1) (m + 1) (ca + 1) (cb + 1)

/-- (intersection, union) of two descending sketches, receiver size `k`. -/
def intersect (k : Nat) (a b : List Nat) : Nat × Nat :=
  let r := interLoop k (a.length + b.length + 1) a.reverse b.reverse 0 0 0 0
  -- i = len a - 1 - ca, j = len b - 1 - cb;  union = min k (m + len a - i + len b - j)
  (r.1, min k (r.2.1 + (r.2.2.1 + 1) + (r.2.2.2 + 1)))

end Bio.Mash
