/-
  Run-time vocabulary for the Go -> Lean source translator
  (`harness/cmd/translate -go`): what Go's slices, integer loops and byte
  arithmetic mean, as small total functions.  `Option` carries Go's run-time
  panics (`none` = the statement panics: index or slice out of range, explicit
  `panic(...)`).  Go `int` is `Int`, `byte` is `UInt8`, `[]T`/`[n]T`/`string`
  are `List`.  Core Lean only (the driver links against this).
-/
import Bio.Model.Lines
namespace Bio.GoRt

/-- `l[i]` -/
def idx {α : Type} (l : List α) (i : Int) : Option α :=
  if i < 0 then none else l[i.toNat]?

/-- `l[i] = v` -/
def setIdx {α : Type} (l : List α) (i : Int) (v : α) : Option (List α) :=
  if i < 0 then none else if i.toNat < l.length then some (l.set i.toNat v) else none

/-- `l[lo:hi]` (capacity beyond the length is not modelled: `hi ≤ len l`). -/
def slice {α : Type} (l : List α) (lo hi : Int) : Option (List α) :=
  if 0 ≤ lo ∧ lo ≤ hi ∧ hi ≤ (l.length : Int) then some ((l.drop lo.toNat).take (hi - lo).toNat) else none

/-- `len(l)` -/
def len {α : Type} (l : List α) : Int := (l.length : Int)

/-- index values of `for i := 0; i < n; i++` and of `for i := range n` -/
def upTo (n : Int) : List Int := (List.range n.toNat).map Int.ofNat

/-- index values of `for i := 0; i < n; i += step` (step ≥ 1) -/
def upToStep (n step : Int) : List Int :=
  (List.range ((n.toNat + step.toNat - 1) / step.toNat)).map fun (k : Nat) => (k : Int) * step

/-- index values of `for i := n; i >= 0; i--` -/
def downFrom (n : Int) : List Int := ((List.range (n + 1).toNat).map Int.ofNat).reverse

/-- `for i, x := range l` -/
def enum {α : Type} (l : List α) : List (Int × α) := l.zipIdx.map fun p => ((p.2 : Int), p.1)

/-- `bytes.Compare` -/
def cmp (a b : Bytes) : Int := if bytesLt a b then -1 else if bytesLt b a then 1 else 0

/-- `byte(i)` for an int -/
def u8 (i : Int) : UInt8 := UInt8.ofNat (i % 256).toNat

/-- `x << s` on a byte with an int shift count (negative count panics). -/
def shl8 (x : UInt8) (s : Int) : Option UInt8 :=
  if s < 0 then none else if s ≥ 8 then some 0 else some (x <<< UInt8.ofNat s.toNat)

/-- `x >> s` on an int (arithmetic; negative count panics). -/
def shrInt (x s : Int) : Option Int :=
  if s < 0 then none else some (x / (2 ^ s.toNat : Int))

/-- `x & y` on ints (two's complement, any sign): `.negSucc a` is `^a`, so `a & ^b = a - (a & b)` and
`^a & ^b = ^(a | b)`. -/
def andInt (x y : Int) : Int :=
  match x, y with
  | .ofNat a, .ofNat b => ((a &&& b : Nat) : Int)
  | .ofNat a, .negSucc b => ((a - (a &&& b) : Nat) : Int)
  | .negSucc a, .ofNat b => ((b - (b &&& a) : Nat) : Int)
  | .negSucc a, .negSucc b => .negSucc (a ||| b)

/-- `x / y`, `x % y` on ints: Go truncates toward zero; division by zero panics. -/
def quo (x y : Int) : Option Int := if y = 0 then none else some (Int.tdiv x y)
def rem (x y : Int) : Option Int := if y = 0 then none else some (Int.tmod x y)

/-- `m[k]` on a map given as an association list; the zero value when absent. -/
def mapGet {κ ν : Type} [BEq κ] (m : List (κ × ν)) (k : κ) (zero : ν) : ν :=
  ((m.find? fun e => e.1 == k).map (·.2)).getD zero

/-- `_, ok := m[k]`. -/
def mapHas {κ ν : Type} [BEq κ] (m : List (κ × ν)) (k : κ) : Bool :=
  (m.find? fun e => e.1 == k).isSome

/-- `m[k] = v` on a map kept as an association list without duplicate keys (the order of the list is the
order a `range` happens to visit the entries in; nothing may depend on it). -/
def mapSet {κ ν : Type} [BEq κ] (m : List (κ × ν)) (k : κ) (v : ν) : List (κ × ν) :=
  if m.any (fun e => e.1 == k) then m.map (fun e => if e.1 == k then (k, v) else e) else m ++ [(k, v)]

/-- `delete(m, k)`. -/
def mapErase {κ ν : Type} [BEq κ] (m : List (κ × ν)) (k : κ) : List (κ × ν) :=
  m.filter fun e => !(e.1 == k)

/-- `make([]T, 0, c)`: panics when the capacity is negative; the capacity itself is not modelled. -/
def makeCap {α : Type} (c : Int) : Option (List α) := if c < 0 then none else some []

/-- `fmt.Sprintf(format, x)` for a `format` computed at run time that consists of literal text and exactly one
verb, `%v`: the format with the verb replaced by `arg` (the `%v` text of `x`).  Any other format (`%%`, other
verbs, no verb, a second `%`) is outside the translated fragment: `none`, no claim. -/
def sprintf1 (format arg : Bytes) : Option Bytes :=
  let pre := format.takeWhile (· != 37)
  match format.drop pre.length with
  | 37 :: 118 :: rest => if rest.contains 37 then none else some (pre ++ arg ++ rest)
  | _ => none

/-- `copy(dst, src)`: overwrite the first `min` elements. -/
def copyInto {α : Type} (dst src : List α) : List α :=
  src.take dst.length ++ dst.drop (min dst.length src.length)

/-- `strings.ContainsAny(s, chars)` on byte strings (both arguments ASCII / single bytes in the translated code). -/
def containsAny (s chars : Bytes) : Bool := s.any (chars.contains ·)

/-- `strings.ReplaceAll(s, old, new)`: non-overlapping occurrences, left to right (`old` non-empty;
an empty `old` returns `s` unchanged here, which the translated code never uses).  `n` = bytes of a
matched occurrence still to skip. -/
def replaceAllAux (old new : Bytes) : Nat → Bytes → Bytes
  | _, [] => []
  | n + 1, _ :: rest => replaceAllAux old new n rest
  | 0, b :: rest =>
    if old.isPrefixOf (b :: rest) then new ++ replaceAllAux old new (old.length - 1) rest
    else b :: replaceAllAux old new 0 rest

def replaceAll (s old new : Bytes) : Bytes := if old.isEmpty then s else replaceAllAux old new 0 s


/-- Go `error` values as far as the translated readers distinguish them. -/
inductive GoErr where
  | nil | eof | other
  deriving Repr, DecidableEq

/-- the error a `bufio.Reader`/`bufio.Scanner` reports when the underlying source is exhausted -/
def endErr : Ending → GoErr
  | .eof => .eof
  | .fail => .other

/-- `Scanner.Err()` after `Scan()` returned false: `nil` at a clean end of input -/
def scanErr : Ending → GoErr
  | .eof => .nil
  | .fail => .other

/-- `*bufio.Reader` as far as `ReadString` goes: the bytes not yet read and how the source ends. -/
structure BufRd where
  rest : Bytes
  ending : Ending
  deriving Repr, DecidableEq

/-- `r.ReadString(delim)`: the bytes up to and including the first `delim`, or -- when there is none -- all
remaining bytes together with the error the source ends with (`io.EOF`, or the read error). -/
def readString (r : BufRd) (delim : UInt8) : Bytes × GoErr × BufRd :=
  let pre := r.rest.takeWhile (· != delim)
  if pre.length < r.rest.length then (pre ++ [delim], GoErr.nil, { r with rest := r.rest.drop (pre.length + 1) })
  else (r.rest, endErr r.ending, { r with rest := [] })

/-- `*bufio.Reader` as far as `ReadByte`/`UnreadByte` go: the byte that `UnreadByte` would put back (the last
byte read, if the last operation was a successful read), the bytes not yet read, how the source ends. -/
structure ByteRd where
  last : Option UInt8
  rest : Bytes
  ending : Ending
  deriving Repr, DecidableEq

/-- `r.ReadByte()` -/
def readByte (r : ByteRd) : UInt8 × GoErr × ByteRd :=
  match r.rest with
  | b :: t => (b, GoErr.nil, { r with last := some b, rest := t })
  | [] => (0, endErr r.ending, { r with last := none })

/-- `r.UnreadByte()` with its error ignored: puts the last byte back if the last operation read one. -/
def unreadByte (r : ByteRd) : ByteRd :=
  match r.last with
  | some b => { r with last := none, rest := b :: r.rest }
  | none => r

/-- gostuff `snm.At(s, idxs)`: the elements of `s` at the given indices (panics when one is out of range). -/
def atIdx {α : Type} (s : List α) (idxs : List Int) : Option (List α) := idxs.mapM (idx s)

/-- `strings.TrimSuffix`. -/
def trimSuffix (s suffix : Bytes) : Bytes :=
  if suffix.isSuffixOf s then s.take (s.length - suffix.length) else s

/-- `Scanner.Scan()` on the remaining tokens: (ok, current token, remaining tokens) -/
def scan (cur : Bytes) : List Bytes → Bool × Bytes × List Bytes
  | [] => (false, cur, [])
  | l :: rest => (true, l, rest)

/-- `*bufio.Scanner` with the default line splitter and no token-size limit (`Buffer(nil, math.MaxInt)`), as far as
`for sc.Scan() { … sc.Text() … }; sc.Err()` goes: the tokens not yet returned and how the source ends. -/
structure ScanRd where
  lines : List Bytes
  ending : Ending
  deriving Repr, DecidableEq

/-- RE2 `\s` (ASCII only: tab, LF, FF, CR, space) -/
def isSpaceRe (b : UInt8) : Bool := b == 9 || b == 10 || b == 12 || b == 13 || b == 32

/-- `regexp.MustCompile(`\S+`).FindAllString(s, -1)`: the maximal runs of non-space bytes, left to right
(a byte that is not valid UTF-8 counts as U+FFFD, which is `\S`, so bytewise is exact). -/
def nonSpaceFieldsAux : Bytes → Bytes → List Bytes
  | [], cur => if cur.isEmpty then [] else [cur]
  | b :: rest, cur =>
    if isSpaceRe b then (if cur.isEmpty then nonSpaceFieldsAux rest [] else cur :: nonSpaceFieldsAux rest [])
    else nonSpaceFieldsAux rest (cur ++ [b])

def nonSpaceFields (s : Bytes) : List Bytes := nonSpaceFieldsAux s []

/-- a set of ints (`map[int]struct{}`) as an ascending duplicate-free list: `m[k] = struct{}{}` -/
def setInsert (m : List Int) (k : Int) : List Int :=
  match m with
  | [] => [k]
  | x :: xs => if k < x then k :: x :: xs else if k == x then x :: xs else x :: setInsert xs k

/-- `delete(m, k)` -/
def setErase (m : List Int) (k : Int) : List Int := m.filter (· != k)

/-- `sort.Ints` -/
def sortInts (l : List Int) : List Int := l.mergeSort (fun a b => decide (a ≤ b))

/-- `sort.Slice(x, less)` for a strict total order `less` on the elements present (then the result
does not depend on the algorithm; `sort.Slice` is not stable, so nothing is claimed otherwise) -/
def sortByLess {α : Type} (less : α → α → Bool) (l : List α) : List α := l.mergeSort (fun a b => !less b a)

/-- `sort.Search(n, f)`: Go's binary search, transcribed (`i, j := 0, n; for i < j { h := int(uint(i+j) >> 1); if !f(h) { i = h + 1 } else { j = h } }; return i`) -/
def searchLoop (f : Int → Option Bool) : Nat → Int → Int → Option Int
  | 0, i, _ => some i
  | fuel + 1, i, j =>
    if i < j then do
      let h := (i + j) / 2
      if !(← f h) then searchLoop f fuel (h + 1) j else searchLoop f fuel i h
    else some i

def searchGo (n : Int) (f : Int → Option Bool) : Option Int := searchLoop f (n.toNat + 1) 0 n

/-- What a consumer that may keep state sees: `h` is asked about the list of all items handed over so far
(the current one last) and answers whether to continue.  `takeThroughH h acc xs` = the items of `xs`
handed over, after `acc` already was, until `h` first says stop (that item included). -/
def takeThroughH {α : Type} (h : List α → Bool) : List α → List α → List α
  | acc, [] => acc
  | acc, x :: xs => if h (acc ++ [x]) then takeThroughH h (acc ++ [x]) xs else acc ++ [x]

/-- An `io.Writer` that accepts `room` more bytes and then fails (what the properties quantify over:
"the destination starts failing after any number of bytes"); `out` = the bytes accepted so far. -/
structure Wr where
  room : Nat
  out : Bytes
  deriving Repr, DecidableEq

/-- one `Write(p)` call (what one `fmt.Fprintf` amounts to): all of `p`, or as much as fits and an error -/
def wrWrite (w : Wr) (p : Bytes) : Wr × GoErr :=
  if p.length ≤ w.room then (⟨w.room - p.length, w.out ++ p⟩, .nil)
  else (⟨0, w.out ++ p.take w.room⟩, .other)

end Bio.GoRt
