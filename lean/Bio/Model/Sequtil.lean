/-
  Model of sequtil/sequtil.go and sequtil/amino.go.  All finite tables are
  parameters here; `Bio.Model.SequtilInst` instantiates them with the tables
  regenerated from /repo on every run.
-/
import Bio.Model.Lines
namespace Bio.Sequtil

/-- Table look-up with the panic convention: entry 0 = `complementByte` panics. -/
def comp (tbl : List UInt8) (b : UInt8) : Option UInt8 :=
  match tbl[b.toNat]? with
  | some c => if c == 0 then none else some c
  | none => none

/-- `ReverseComplement(dst, src)`; `none` = panic. -/
def revComp (tbl : List UInt8) (dst src : Bytes) : Option Bytes :=
  (src.reverse.mapM (comp tbl)).map (dst ++ ·)

/-- The i-th item of `CanonicalSubsequences`. -/
def canonItem (seq rc : Bytes) (k i : Nat) : Bytes :=
  let kmer := (seq.drop i).take k
  let krc := (rc.drop (rc.length - i - k)).take k
  if bytesLt krc kmer then krc else kmer

/-- The yield loop with a consumer `f`: log of items handed over. -/
def canonLoop (f : Bytes → Bool) (seq rc : Bytes) (k : Nat) : Nat → Nat → List Bytes
  | _, 0 => []
  | i, n + 1 =>
    let x := canonItem seq rc k i
    x :: (if f x then canonLoop f seq rc k (i + 1) n else [])

def canonicalLog (tbl : List UInt8) (f : Bytes → Bool) (seq : Bytes) (k : Nat) : Option (List Bytes) :=
  match revComp tbl [] seq with
  | none => none
  | some rc => some (canonLoop f seq rc k 0 (seq.length + 1 - k))

def canonical (tbl : List UInt8) (seq : Bytes) (k : Nat) : Option (List Bytes) :=
  canonicalLog tbl (fun _ => true) seq k

def ntoi (tbl : List Int) (b : UInt8) : Int := (tbl[b.toNat]?).getD (-1)

def iton (n : Int) : UInt8 :=
  if n = 0 then 65 else if n = 1 then 67 else if n = 2 then 71 else if n = 3 then 84 else 78

/-- The indexed loop of `DNATo2Bit`. -/
def to2bitAux (tbl : List Int) (dn : Nat) : Nat → Bytes → Bytes → Option Bytes
  | _, dst, [] => some dst
  | i, dst, b :: rest =>
    let di := dn + i / 4
    let shift := 6 - i % 4 * 2
    let dst := if shift == 6 then dst ++ [0] else dst
    let v := ntoi tbl b
    if v < 0 then none
    else
      let db : UInt8 := (UInt8.ofNat v.toNat) <<< (UInt8.ofNat shift)
      to2bitAux tbl dn (i + 1) (dst.set di ((dst[di]?).getD 0 ||| db)) rest

def to2bit (tbl : List Int) (dst src : Bytes) : Option Bytes := to2bitAux tbl dst.length 0 dst src

def from2bit (tbl : List Bytes) (dst src : Bytes) : Bytes :=
  dst ++ src.flatMap fun b => (tbl[b.toNat]?).getD []

/-! ## amino.go -/

abbrev CodonTable := List ((UInt8 × UInt8 × UInt8) × UInt8)

def codon (tbl : CodonTable) (a b c : UInt8) : Option UInt8 :=
  (tbl.find? fun e => e.1 == (a, b, c)).map (·.2)

/-- `Translate(dst, src)`; `none` = panic. -/
def translate (tbl : CodonTable) : Bytes → Bytes → Option Bytes
  | dst, [] => some dst
  | dst, a :: b :: c :: rest =>
    match codon tbl a b c with
    | none => none
    | some aa => translate tbl (dst ++ [aa]) rest
  | _, _ => none

def frame (tbl : CodonTable) (s : Bytes) : Option Bytes :=
  translate tbl [] (s.take (s.length / 3 * 3))

/-- `TranslateReadingFrames`: any length. -/
def frames (tbl : CodonTable) (seq : Bytes) : Option (List Bytes) :=
  [seq, seq.drop 1, seq.drop 2].mapM (frame tbl)

def aminoName (tbl : List (UInt8 × Bytes × Bytes)) (b : UInt8) : Option (Bytes × Bytes) :=
  (tbl.find? fun e => e.1 == b).map (·.2)

end Bio.Sequtil
