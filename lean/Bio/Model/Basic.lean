/-
  Shared vocabulary of all models: byte strings, line splitting, the decimal
  and hexadecimal codecs, iterator items.  Core Lean only (the driver links
  against this).
-/
namespace Bio

abbrev Bytes := List UInt8

def LF : UInt8 := 10
def CR : UInt8 := 13
def TAB : UInt8 := 9
def SP : UInt8 := 32

/-- A line-break byte as the FASTA reader sees it. -/
def isNL (b : UInt8) : Bool := b == 10 || b == 13

/-- One item of a decoder's output: a record or an (unspecified) error. -/
inductive Item (α : Type) where
  | ok (r : α)
  | err
  deriving Repr, DecidableEq

/-- How the byte source ends: cleanly, or with a non-EOF read error. -/
inductive Ending where
  | eof
  | fail
  deriving Repr, DecidableEq

/-! ## Splitting -/

/-- Split at every occurrence of `sep` (like Go's `strings.Split`): always at
least one piece. -/
def splitOn (sep : UInt8) : Bytes → List Bytes
  | [] => [[]]
  | b :: rest =>
    if b == sep then [] :: splitOn sep rest
    else match splitOn sep rest with
      | [] => [[b]]          -- unreachable
      | p :: ps => (b :: p) :: ps

/-- Join pieces with a separator byte. -/
def joinWith (sep : UInt8) : List Bytes → Bytes
  | [] => []
  | [p] => p
  | p :: q :: ps => p ++ sep :: joinWith sep (q :: ps)

/-- Remove one trailing CR (what `bufio.ScanLines` does to a line). -/
def dropCR (l : Bytes) : Bytes :=
  match l.getLast? with
  | some 13 => l.dropLast
  | _ => l

/-- Raw lines: split at LF; a final piece is a line only if non-empty.
`bufio.ScanLines` minus the CR stripping. -/
def rawLines : Bytes → List Bytes
  | [] => []
  | b :: rest =>
    if b == 10 then [] :: rawLines rest
    else match rawLines rest with
      | [] => [[b]]
      | l :: ls => (b :: l) :: ls

/-- `bufio.ScanLines` token sequence of a complete input. -/
def scanLines (x : Bytes) : List Bytes := (rawLines x).map dropCR

/-! ## Decimal codec (the model's own `strconv.Itoa` / `strconv.Atoi`) -/

def digitChar (d : Nat) : UInt8 := UInt8.ofNat (48 + d)

def natDigits (n : Nat) : Bytes :=
  if _h : n < 10 then [digitChar n] else natDigits (n / 10) ++ [digitChar (n % 10)]
termination_by n
decreasing_by omega

def itoa (i : Int) : Bytes :=
  match i with
  | Int.ofNat n => natDigits n
  | Int.negSucc n => 45 :: natDigits (n + 1)

def isDigit (b : UInt8) : Bool := 48 ≤ b && b ≤ 57

/-- Parse a non-empty all-digit string. -/
def parseNatAux : Nat → Bytes → Option Nat
  | acc, [] => some acc
  | acc, b :: rest => if isDigit b then parseNatAux (acc * 10 + (b.toNat - 48)) rest else none

def parseNat (s : Bytes) : Option Nat :=
  match s with
  | [] => none
  | _ => parseNatAux 0 s

def int64Min : Int := -9223372036854775808
def int64Max : Int := 9223372036854775807

/-- `strconv.Atoi` on a 64-bit platform: optional sign, decimal digits, range
check.  `none` = error. -/
def atoi (s : Bytes) : Option Int :=
  let (neg, body) := match s with
    | 43 :: r => (false, r)
    | 45 :: r => (true, r)
    | _ => (false, s)
  match parseNat body with
  | none => none
  | some n =>
    let v : Int := if neg then -(n : Int) else (n : Int)
    if int64Min ≤ v ∧ v ≤ int64Max then some v else none

/-! ## Hex codec (`encoding/hex`) -/

def hexDigit (n : Nat) : UInt8 := if n < 10 then UInt8.ofNat (48 + n) else UInt8.ofNat (87 + n)

def hexEnc : Bytes → Bytes
  | [] => []
  | b :: rest => hexDigit (b.toNat / 16) :: hexDigit (b.toNat % 16) :: hexEnc rest

def hexVal (c : UInt8) : Option Nat :=
  if 48 ≤ c && c ≤ 57 then some (c.toNat - 48)
  else if 97 ≤ c && c ≤ 102 then some (c.toNat - 87)
  else if 65 ≤ c && c ≤ 70 then some (c.toNat - 55)
  else none

def hexDec : Bytes → Option Bytes
  | [] => some []
  | [_] => none
  | a :: b :: rest =>
    match hexVal a, hexVal b, hexDec rest with
    | some x, some y, some r => some (UInt8.ofNat (x * 16 + y) :: r)
    | _, _, _ => none

/-! ## Iterator adapter: what a consumer that stops after `j` items sees. -/

def runIter {α : Type} (items : List α) (stopAfter : Nat) : List α := items.take stopAfter

/-- Everything up to and including the first element satisfying `p`. -/
def takeThrough {α : Type} (p : α → Bool) : List α → List α
  | [] => []
  | x :: xs => if p x then [x] else x :: takeThrough p xs

end Bio
