/-
  Model of regions/regions.go (after the repair that skips intervals with
  start ≥ end): events, their order, the sweep producing breakpoints, `At`.
-/
import Bio.Model.Basic
namespace Bio.Regions

structure Ev where
  idx : Nat
  pos : Int
  start : Bool
  deriving Repr, DecidableEq

/-- `eventLess`: position, then end-before-start, then index. -/
def evLess (a b : Ev) : Bool :=
  if a.pos != b.pos then decide (a.pos < b.pos)
  else if a.start != b.start then !a.start
  else decide (a.idx < b.idx)

def evLe (a b : Ev) : Bool := !evLess b a

/-- Two events per interval with `start < end`; others are skipped. -/
def eventsFrom : Nat → List Int → List Int → List Ev
  | i, s :: ss, e :: es =>
    if s < e then ⟨i, s, true⟩ :: ⟨i, e, false⟩ :: eventsFrom (i + 1) ss es
    else eventsFrom (i + 1) ss es
  | _, _, _ => []

def insertNat (x : Nat) : List Nat → List Nat
  | [] => [x]
  | y :: ys => if x < y then x :: y :: ys else if x == y then y :: ys else y :: insertNat x ys

/-- The sweep: emits `(pos, active)` whenever the position changes, and once
more at the end. `active` is kept ascending and duplicate-free. -/
def sweep : List Ev → Int → List Nat → List (Int × List Nat)
  | [], pos, act => [(pos, act)]
  | e :: es, pos, act =>
    let act' := if e.start then insertNat e.idx act else act.erase e.idx
    if e.pos != pos then (pos, act) :: sweep es e.pos act' else sweep es pos act'

abbrev Index := List (Int × List Nat)

/-- `none` = `NewIndex` panics (different lengths). -/
def newIndex (starts ends : List Int) : Option Index :=
  if starts.length != ends.length then none
  else
    let evs := (eventsFrom 0 starts ends).mergeSort evLe
    let pos0 := match evs with
      | e :: _ => e.pos
      | [] => 0
    some (sweep evs pos0 [])

/-- `At(i)`: the active set of the last breakpoint with position ≤ i. -/
def at' (idx : Index) (i : Int) : List Nat :=
  match (idx.takeWhile fun bp => bp.1 ≤ i).getLast? with
  | some bp => bp.2
  | none => []

/-- The specification: a brute-force scan. -/
def covering (starts ends : List Int) (i : Int) : List Nat :=
  (List.range starts.length).filter fun x =>
    match starts[x]?, ends[x]? with
    | some s, some e => s ≤ i ∧ i < e
    | _, _ => false

end Bio.Regions
