/-
  Model of formats/newick/traverse.go: the explicit-stack machine of
  `traverse(pre)`, run with a consumer callback (the log of yielded nodes).
-/
import Bio.Model.Newick
namespace Bio.Newick

def Forest.length : Forest → Nat
  | .nil => 0
  | .cons _ _ _ r => 1 + r.length

def Forest.get? : Forest → Nat → Option Tree
  | .nil, _ => none
  | .cons n d k _, 0 => some ⟨n, d, k⟩
  | .cons _ _ _ r, i + 1 => r.get? i

/-- Classic recursive pre-order over a list of siblings. -/
def preRecF : Forest → List Tree
  | .nil => []
  | .cons n d k r => ⟨n, d, k⟩ :: (preRecF k ++ preRecF r)

def postRecF : Forest → List Tree
  | .nil => []
  | .cons n d k r => postRecF k ++ ⟨n, d, k⟩ :: postRecF r

def preRec (t : Tree) : List Tree := t :: preRecF t.kids
def postRec (t : Tree) : List Tree := postRecF t.kids ++ [t]

def Tree.size (t : Tree) : Nat := 1 + t.kids.size

/-- The loop of `traverse`: `stack` has the top frame first.  Returns the log
of nodes handed to the consumer `f`; stops after the first `false`. -/
def trav (pre : Bool) (f : Tree → Bool) : Nat → List (Tree × Nat) → List Tree
  | 0, _ => []
  | _, [] => []
  | fuel + 1, (n, i) :: stack =>
    let go : Unit → List Tree := fun _ =>
      if i == n.kids.length then
        if !pre then n :: (if f n then trav pre f fuel stack else [])
        else trav pre f fuel stack
      else match n.kids.get? i with
        | some c => trav pre f fuel ((c, 0) :: (n, i + 1) :: stack)
        | none => []
    if pre && i == 0 then n :: (if f n then go () else []) else go ()

def traverse (pre : Bool) (f : Tree → Bool) (t : Tree) : List Tree :=
  trav pre f (2 * t.size + 1) [(t, 0)]

def preOrder (t : Tree) : List Tree := traverse true (fun _ => true) t
def postOrder (t : Tree) : List Tree := traverse false (fun _ => true) t

end Bio.Newick
