/-
  The iterators WITH a consumer that may keep state (property C18, "the
  consumer stops at ANY position").

  `Bio/Model/IterReaders.lean`, `Bio/Model/Traverse.lean`, `Bio/Model/Trie.lean`
  and `Bio/Model/Sequtil.lean` transcribe the Go loops with a PURE consumer
  `f : α → Bool` — a function of the current item only.  Such a consumer cannot
  say "stop at the second item" when the first two items are equal.  Here the
  SAME Go loops are transcribed once more, definition for definition, with a
  HISTORY consumer

      h : List α → Bool

  which is asked about the list of all items handed to it so far, the current
  one last (`true` = keep going).  Every deterministic Go consumer — whatever
  state it keeps between calls — is such a function.  Every loop carries the log
  `acc` of the items handed over so far, and asks the consumer about
  `acc ++ [x]` exactly where the Go code evaluates `yield(x)`; where the Go code
  ignores the answer of `yield` the item is appended without asking.

  The sources (`Source`, `Pull`, `fastaSrc`, …) are the ones of
  `Bio/Model/IterReaders.lean`.  Core Lean only.
-/
import Bio.Model.IterReaders
import Bio.Model.Traverse
import Bio.Model.Trie
import Bio.Model.Sequtil

namespace Bio.IterH
open Bio.Iter

/-- A push iterator (`iter.Seq2[*T, error]`), as the log of the calls it makes
to the history consumer `h` (mirror of `Iter.Seq`). -/
abbrev SeqH (α : Type) := (List α → Bool) → List α

/-! ## The base loops -/

/-- fasta / fastq `(*reader).iter` (mirror of `Iter.iterLoop`):
```go
for {
    x, err := r.read()
    if err != nil {
        if err != io.EOF {
            yield(nil, err)      // answer ignored
        }
        break
    }
    if !yield(x, nil) {
        return
    }
}
``` -/
def iterLoopH {ρ σ : Type} (S : Source ρ σ) (h : List (Item ρ) → Bool)
    (acc : List (Item ρ)) (s : σ) : List (Item ρ) :=
  match _h : S.next s with
  | .err => acc ++ [.err]
  | .done => acc
  | .item a s' => if h (acc ++ [.ok a]) then iterLoopH S h (acc ++ [.ok a]) s' else acc ++ [.ok a]
termination_by S.size s
decreasing_by exact S.dec _ _ _ _h

/-- bed / newick `Reader` (mirror of `Iter.readerLoop`):
```go
for {
    x, err := rd.read()
    if err == io.EOF {
        return
    }
    if err != nil {
        yield(nil, err)          // answer ignored
        return
    }
    if !yield(x, nil) {
        return
    }
}
``` -/
def readerLoopH {ρ σ : Type} (S : Source ρ σ) (h : List (Item ρ) → Bool)
    (acc : List (Item ρ)) (s : σ) : List (Item ρ) :=
  match _h : S.next s with
  | .done => acc
  | .err => acc ++ [.err]
  | .item a s' => if h (acc ++ [.ok a]) then readerLoopH S h (acc ++ [.ok a]) s' else acc ++ [.ok a]
termination_by S.size s
decreasing_by exact S.dec _ _ _ _h

/-- sam `ReaderHeader` (mirror of `Iter.samHeaderLoop`):
```go
for {
    text, rerr := br.ReadString('\n')
    if rerr != nil && rerr != io.EOF {
        yield(SAMOrHeader{}, rerr)             // answer ignored
        return
    }
    text = TrimSuffix(TrimSuffix(text, "\n"), "\r")
    if text != "" {
        if strings.HasPrefix(text, "@") {
            if !yield(SAMOrHeader{H: &text}, nil) { return }
        } else {
            s, err := parseLine(strings.Split(text, "\t"))
            if !yield(SAMOrHeader{S: s}, err) { return }   // a parse error is an ordinary item
        }
    }
    if rerr == io.EOF { return }
}
``` -/
def samHeaderLoopH {σ : Type} (pf : Bytes → Option Bytes) (S : Source Bytes σ)
    (h : List (Item Sam.Entry) → Bool) (acc : List (Item Sam.Entry)) (s : σ) :
    List (Item Sam.Entry) :=
  match _h : S.next s with
  | .err => acc ++ [.err]
  | .done => acc
  | .item text s' =>
    if text ≠ [] then
      match text with
      | 64 :: _ =>
        if h (acc ++ [.ok (.hdr text)]) then samHeaderLoopH pf S h (acc ++ [.ok (.hdr text)]) s'
        else acc ++ [.ok (.hdr text)]
      | _ =>
        match Sam.parseLine pf (splitOn TAB text) with
        | some r =>
          if h (acc ++ [.ok (.sam r)]) then samHeaderLoopH pf S h (acc ++ [.ok (.sam r)]) s'
          else acc ++ [.ok (.sam r)]
        | none =>
          if h (acc ++ [.err]) then samHeaderLoopH pf S h (acc ++ [.err]) s'
          else acc ++ [.err]
    else samHeaderLoopH pf S h acc s'
termination_by S.size s
decreasing_by all_goals exact S.dec _ _ _ _h

/-! ## Ranging over an inner iterator -/

/-- The loop body of `for x := range inner { body }`, run on the inner items `l`
one after the other: `body out x = (out', go)` — with `out` the outer log before
the body runs on `x`, `out'` the outer log after it, and `go = false` iff the
body executed `break`/`return`.  Result: the outer log after the last item of
`l`, and the answer of the body on that last item. -/
def runBody {α β : Type} (body : List β → α → List β × Bool) (l : List α) : List β × Bool :=
  l.foldl (fun st x => body st.1 x) ([], true)

/-- `for x := range inner { body }` (mirror of `Iter.rangeOver`).  Go calls
`inner(yield)` where `yield(x)` runs the body on `x`; the body is a closure over
the OUTER consumer, whose state is a function of what the body handed to it so
far — i.e. of the inner items so far.  So the consumer that `inner` is given
answers, on the inner history `l`, what the body answers on the last item of `l`
after having run on the earlier ones (`(runBody body l).2`); the inner log is
the list of items the body was run on; the outer log is what the body runs
handed out (`(runBody body ·).1`). -/
def rangeOverH {α β : Type} (inner : SeqH α) (body : List β → α → List β × Bool) : List β :=
  (runBody body (inner (fun l => (runBody body l).2))).1

/-- `Reader` around `iter()`, `File` around `Reader`, `FileHeader` around
`ReaderHeader` (mirror of `Iter.wrap`):
```go
for x, err := range inner {
    if !yield(x, err) {
        break            // newick `File` says `return`; nothing follows the loop
    }
}
``` -/
def wrapH {α : Type} (inner : SeqH α) : SeqH α := fun h =>
  rangeOverH inner (fun out x => (out ++ [x], h (out ++ [x])))

/-- The same loop with a body that may `continue` without a callback (mirror of
`Iter.filterMapBody`): `g x = none` — `continue`; `g x = some y` —
`if !yield(y) { break }`.  The OUTER consumer is asked about the outer log: it
never hears of the items passed over by `continue`. -/
def filterMapBodyH {α β : Type} (g : α → Option β) (h : List β → Bool) (out : List β) (x : α) :
    List β × Bool :=
  match g x with
  | none => (out, true)
  | some y => (out ++ [y], h (out ++ [y]))

def wrapFilterMapH {α β : Type} (g : α → Option β) (inner : SeqH α) : SeqH β := fun h =>
  rangeOverH inner (filterMapBodyH g h)

/-- sam `Reader` around `ReaderHeader` (mirror of `Iter.samBody`):
```go
for sh, err := range ReaderHeader(r) {
    if err != nil {
        if !yield(nil, err) { break }
        continue
    }
    if sh.S == nil {
        continue                 // header: no callback
    }
    if !yield(sh.S, nil) { break }
}
``` -/
def samBodyH (h : List (Item Sam.Sam) → Bool) (out : List (Item Sam.Sam)) :
    Item Sam.Entry → List (Item Sam.Sam) × Bool
  | .err => (out ++ [.err], h (out ++ [.err]))
  | .ok (.hdr _) => (out, true)
  | .ok (.sam r) => (out ++ [.ok r], h (out ++ [.ok r]))

def samWrapH (inner : SeqH (Item Sam.Entry)) : SeqH (Item Sam.Sam) := fun h =>
  rangeOverH inner (samBodyH h)

/-- `File` / `FileHeader` (mirror of `Iter.file`): `opened = none` — `aio.Open` failed.
```go
f, err := aio.Open(file)
if err != nil {
    yield(nil, err)              // answer ignored
    return
}
defer f.Close()
for x, err := range Reader(f) { if !yield(x, err) { break } }
``` -/
def fileH {ρ : Type} (opened : Option (SeqH (Item ρ))) : SeqH (Item ρ) := fun h =>
  match opened with
  | none => [.err]
  | some inner => wrapH inner h

/-! ## The readers of the five formats (over the sources of `IterReaders.lean`) -/

/-- `newReader(r).iter()` (mirror of `Iter.fastaIter`). -/
def fastaIterH (e : Ending) (x : Bytes) : SeqH (Item Fasta.Fa) := fun h =>
  iterLoopH (fastaSrc e) h [] x
/-- `fasta.Reader(r)`. -/
def fastaReaderH (e : Ending) (x : Bytes) : SeqH (Item Fasta.Fa) := wrapH (fastaIterH e x)
/-- `fasta.File(path)`; `none` = the path cannot be opened. -/
def fastaFileH (o : Option Input) : SeqH (Item Fasta.Fa) :=
  fileH (o.map fun i => fastaReaderH i.1 i.2)

/-- fastq `newReader(r).iter()` (mirror of `Iter.fastqIter`). -/
def fastqIterH (e : Ending) (x : Bytes) : SeqH (Item Fastq.Fq) := fun h =>
  iterLoopH (fastqSrc e) h [] (scanLines x)
def fastqReaderH (e : Ending) (x : Bytes) : SeqH (Item Fastq.Fq) := wrapH (fastqIterH e x)
def fastqFileH (o : Option Input) : SeqH (Item Fastq.Fq) :=
  fileH (o.map fun i => fastqReaderH i.1 i.2)

/-- `bed.Reader(r)` (mirror of `Iter.bedReader`). -/
def bedReaderH (e : Ending) (x : Bytes) : SeqH (Item Bed.Bed) := fun h =>
  readerLoopH (bedSrc e) h [] (none, textLines e x)
def bedFileH (o : Option Input) : SeqH (Item Bed.Bed) :=
  fileH (o.map fun i => bedReaderH i.1 i.2)

/-- `newick.Reader(r)` (mirror of `Iter.newickReader`). -/
def newickReaderH (pd : Bytes → Option Newick.Dist) (e : Ending) (x : Bytes) :
    SeqH (Item Newick.Tree) := fun h => readerLoopH (newickSrc pd e) h [] x
def newickFileH (pd : Bytes → Option Newick.Dist) (o : Option Input) : SeqH (Item Newick.Tree) :=
  fileH (o.map fun i => newickReaderH pd i.1 i.2)

/-- `sam.ReaderHeader(r)` (mirror of `Iter.samReaderHeader`). -/
def samReaderHeaderH (pf : Bytes → Option Bytes) (e : Ending) (x : Bytes) :
    SeqH (Item Sam.Entry) := fun h => samHeaderLoopH pf (linesSrc e) h [] (textLines e x)
/-- `sam.Reader(r)`. -/
def samReaderH (pf : Bytes → Option Bytes) (e : Ending) (x : Bytes) : SeqH (Item Sam.Sam) :=
  samWrapH (samReaderHeaderH pf e x)
/-- `sam.File(path)`. -/
def samFileH (pf : Bytes → Option Bytes) (o : Option Input) : SeqH (Item Sam.Sam) :=
  fileH (o.map fun i => samReaderH pf i.1 i.2)
/-- `sam.FileHeader(path)`. -/
def samFileHeaderH (pf : Bytes → Option Bytes) (o : Option Input) : SeqH (Item Sam.Entry) :=
  fileH (o.map fun i => samReaderHeaderH pf i.1 i.2)

/-! ## The explicit-stack iterators -/

open Bio.Newick in
/-- The loop of newick `traverse` (mirror of `Newick.trav`; formats/newick/traverse.go):
`stack` has the top frame first, `acc` is the log of nodes handed over so far.
```go
for len(stack) > 0 {
    step := stack[len(stack)-1]
    if pre && step.i == 0 {
        if !yield(step.n) { return }
    }
    if step.i == len(step.n.Children) {
        if !pre {
            if !yield(step.n) { return }
        }
        stack = stack[:len(stack)-1]
        continue
    }
    stack = append(stack, traversalStep{step.n.Children[step.i], 0})
    stack[stepi].i++
}
``` -/
def travH (pre : Bool) (h : List Tree → Bool) : Nat → List (Tree × Nat) → List Tree → List Tree
  | 0, _, acc => acc
  | _, [], acc => acc
  | fuel + 1, (n, i) :: stack, acc =>
    let go : List Tree → List Tree := fun acc =>
      if i == n.kids.length then
        if !pre then (if h (acc ++ [n]) then travH pre h fuel stack (acc ++ [n]) else acc ++ [n])
        else travH pre h fuel stack acc
      else match n.kids.get? i with
        | some c => travH pre h fuel ((c, 0) :: (n, i + 1) :: stack) acc
        | none => acc
    if pre && i == 0 then (if h (acc ++ [n]) then go (acc ++ [n]) else acc ++ [n]) else go acc

open Bio.Newick in
/-- `(*Node).traverse(pre)` (mirror of `Newick.traverse`). -/
def traverseH (pre : Bool) (h : List Tree → Bool) (t : Tree) : List Tree :=
  travH pre h (2 * t.size + 1) [(t, 0)] []

open Bio.Trie in
/-- The explicit-stack loop of trie `ForEach` (mirror of `Trie.eachLoop`; trie/trie.go):
```go
for {
    step := stack[len(stack)-1]
    if len(step.t.m) == 0 { // Reached a leaf.
        if len(cur) > 0 && !f(cur) { break }
    }
    if step.i == len(step.t.m) { // Finished with this branch.
        stack = stack[:len(stack)-1]
        if len(stack) == 0 { break }
        cur = cur[:len(cur)-1]
        continue
    }
    ...push the next child, step.i++, cur = append(cur, key)
}
``` -/
def eachLoopH (h : List Bytes → Bool) : Nat → List (Bool × T) → Bytes → List Bytes → List Bytes
  | 0, _, _, acc => acc
  | _, [], _, acc => acc
  | fuel + 1, (leaf, rem) :: stack, cur, acc =>
    let cont : List Bytes → List Bytes := fun acc =>
      match rem with
      | .nil =>
        match stack with
        | [] => acc
        | _ => eachLoopH h fuel stack (cur.drop 1) acc
      | .cons k c r => eachLoopH h fuel ((c.isNil, c) :: (leaf, r) :: stack) (k :: cur) acc
    if leaf && !cur.isEmpty then
      let s := cur.reverse
      if h (acc ++ [s]) then cont (acc ++ [s]) else acc ++ [s]
    else cont acc

open Bio.Trie in
/-- `(*Trie).ForEach(f)` (mirror of `Trie.forEachLog`). -/
def forEachLogH (h : List Bytes → Bool) (t : T) : List Bytes :=
  eachLoopH h (2 * t.size + 2) [(t.isNil, t)] [] []

open Bio.Sequtil in
/-- The yield loop of `CanonicalSubsequences` (mirror of `Sequtil.canonLoop`;
sequtil/sequtil.go): `for i := range nk { …; if !yield(kmer) { return } }`. -/
def canonLoopH (h : List Bytes → Bool) (seq rc : Bytes) (k : Nat) :
    Nat → Nat → List Bytes → List Bytes
  | _, 0, acc => acc
  | i, n + 1, acc =>
    let x := canonItem seq rc k i
    if h (acc ++ [x]) then canonLoopH h seq rc k (i + 1) n (acc ++ [x]) else acc ++ [x]

open Bio.Sequtil in
/-- `CanonicalSubsequences(seq, k)` (mirror of `Sequtil.canonicalLog`); `none` = panic. -/
def canonicalLogH (tbl : List UInt8) (h : List Bytes → Bool) (seq : Bytes) (k : Nat) :
    Option (List Bytes) :=
  match revComp tbl [] seq with
  | none => none
  | some rc => some (canonLoopH h seq rc k 0 (seq.length + 1 - k) [])

end Bio.IterH
