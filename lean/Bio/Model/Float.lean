/-
  The float codec is NOT modelled (Lean's `Float` is opaque to the kernel).
  Floats are carried as canonical text tokens.  These recognisers accept the
  canonical spellings Go prints (`FormatFloat(x,'e',-1,64)` for SAM `f` tags,
  `%v` for Newick distances) and reject everything else; the correspondence
  generator normalises every token `ParseFloat` accepts to its canonical
  spelling before a case is used, so non-canonical-but-valid spellings never
  reach the model (see DESIGN §3 "Float64").
-/
import Bio.Model.Basic
namespace Bio.FloatTok

def allDigits (s : Bytes) : Bool := !s.isEmpty && s.all isDigit

/-- `e[+-]dd+` -/
def isExp (s : Bytes) : Bool :=
  match s with
  | 101 :: sg :: ds => (sg == 43 || sg == 45) && ds.length ≥ 2 && ds.all isDigit
  | _ => false

def isSpecial (s : Bytes) : Bool :=
  s == [78, 97, 78] || s == [43, 73, 110, 102] || s == [45, 73, 110, 102]

def stripSign (s : Bytes) : Bytes :=
  match s with
  | 45 :: r => r
  | _ => s

/-- Split at the first `e`. -/
def splitE : Bytes → Bytes × Bytes
  | [] => ([], [])
  | b :: rest => if b == 101 then ([], b :: rest) else let p := splitE rest; (b :: p.1, p.2)

/-- mantissa `digits` or `digits.digits` -/
def isMantissa (s : Bytes) : Bool :=
  match splitOn 46 s with
  | [i] => allDigits i
  | [i, f] => allDigits i && allDigits f
  | _ => false

/-- Canonical `'e'` format (one digit before the point, exponent present). -/
def isCanonE (s : Bytes) : Bool :=
  isSpecial s ||
  (let p := splitE (stripSign s)
   isMantissa p.1 && isExp p.2 && (match p.1 with
     | d :: rest => isDigit d && (rest.isEmpty || rest.head? == some 46)
     | [] => false))

/-- Canonical `%v` format (exponent optional). -/
def isCanonG (s : Bytes) : Bool :=
  isSpecial s ||
  (let p := splitE (stripSign s)
   isMantissa p.1 && (p.2.isEmpty || isExp p.2))

/-- SAM `f` tag value: `ParseFloat` then `FormatFloat 'e'`, on canonical input. -/
def samFloat (t : Bytes) : Option Bytes := if isCanonE t then some t else none

/-- Newick distance token: `ParseFloat` then `%v`; zero means "no distance". -/
def newickDist (t : Bytes) : Option (Option Bytes) :=
  if !isCanonG t then none
  else if t == [48] || t == [45, 48] then some none
  else some (some t)

end Bio.FloatTok
