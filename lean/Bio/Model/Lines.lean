/-
  Line readers shared by the SAM and BED models (the repaired readers use
  `bufio.Reader.ReadString('\n')`): split at LF, strip one trailing CR, an
  unterminated last line counts when the source ends cleanly and is dropped
  when the source fails.
-/
import Bio.Model.Basic
namespace Bio

/-- Lexicographic `<` on byte strings (Go string comparison / `bytes.Compare`). -/
def bytesLt : Bytes → Bytes → Bool
  | [], [] => false
  | [], _ :: _ => true
  | _ :: _, [] => false
  | a :: as, b :: bs => if a < b then true else if b < a then false else bytesLt as bs

def bytesLe (a b : Bytes) : Bool := !bytesLt b a

def insertSorted (x : Bytes) : List Bytes → List Bytes
  | [] => [x]
  | y :: ys => if bytesLe x y then x :: y :: ys else y :: insertSorted x ys

/-- `sort.Strings`. -/
def sortBytes (l : List Bytes) : List Bytes := l.foldr insertSorted []

/-- Lines terminated by LF only (the unterminated tail — the last piece of the
split — is dropped). -/
def completeLines (x : Bytes) : List Bytes := (splitOn 10 x).dropLast

/-- The text lines a `ReadString('\n')` loop hands to the parser, CR stripped. -/
def textLines (e : Ending) (x : Bytes) : List Bytes :=
  match e with
  | .eof => scanLines x
  | .fail => (completeLines x).map dropCR

end Bio
