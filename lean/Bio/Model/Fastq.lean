/-
  Model of formats/fastq: writer, and the four-line reader over the
  `bufio.ScanLines` token sequence (no token length ceiling: the property
  demands reads of every length).
-/
import Bio.Model.Basic
namespace Bio.Fastq

structure Fq where
  name : Bytes
  seq : Bytes
  quals : Bytes
  deriving Repr, DecidableEq

/-- `Fprintf(w, "@%s\n%s\n+\n%s\n", ...)` — a single `Write` call. -/
def encode (r : Fq) : Bytes :=
  64 :: r.name ++ 10 :: r.seq ++ 10 :: 43 :: 10 :: r.quals ++ [10]

def encodeAll (rs : List Fq) : Bytes := (rs.map encode).flatten

def marshalLen (r : Fq) : Nat := 6 + r.name.length + r.seq.length + r.quals.length

/-- Records from a token (line) sequence.  `e` says how the token stream ends:
after the last token `Scan` returns false with `Err() = nil` (`eof`) or with an
error (`fail`).  The iterator stops at the first error. -/
def fromLines (e : Ending) : List Bytes → List (Item Fq)
  | [] => match e with
    | .eof => []
    | .fail => [.err]
  | l1 :: rest1 =>
    match l1 with
    | 64 :: name =>
      match rest1 with
      | sq :: pl :: ql :: rest =>
        match pl with
        | 43 :: _ =>
          if ql.length = sq.length then .ok ⟨name, sq, ql⟩ :: fromLines e rest
          else [.err]
        | _ => [.err]
      | [_, pl] =>
        -- third Scan succeeded: the '+' check happens before the fourth Scan
        [.err]
      | _ => [.err]       -- ran out of lines (unexpected EOF / read error)
    | _ => [.err]         -- empty line or no '@'

def decodeSrc (e : Ending) (x : Bytes) : List (Item Fq) := fromLines e (scanLines x)

def decode (x : Bytes) : List (Item Fq) := decodeSrc .eof x

end Bio.Fastq
