/-
  C12, last clause ("a sequence and its reverse complement yield the same items in
  opposite order"), for the complement table regenerated from /repo.  The list-level
  theorem `canonical_revComp_bind` lives in Bio/Lemmas/Mash.lean (it is shared with
  C17); here it is instantiated for the generated table.
-/
import Bio.Props.C17
import Bio.Props.C17Inst
namespace Bio.Sequtil

/-- For every byte string `s` and every `k`: the canonical k-mers of the reverse
complement of `s` are the canonical k-mers of `s` in reverse order (and both sides
panic together when `s` has a foreign byte). -/
theorem generated_canonical_strand (s : Bytes) (k : Nat) :
    (revComp Generated.compTable [] s).bind (fun r => canonical Generated.compTable r k) =
      (canonical Generated.compTable s k).map List.reverse :=
  Bio.Mash.C17_canonical_strand Bio.Mash.generated_CompOK s k

example : canonical Generated.compTable [65, 65, 67, 71, 84] 2 =
    some [[65, 65], [65, 67], [67, 71], [65, 67]] := by decide +kernel

end Bio.Sequtil
