/-
  C03 (SAM), READER half, for the Go SOURCE TEXT of `splitTag`, `parseTags` (formats/sam/tags.go) and
  `parseInts`, `parseLine` (formats/sam/sam.go), as translated on every run into
  `Bio.Generated.GoSrc.splitTag`, `parseTags`, `parseInts`, `sam_parseLine`.

  `hex.DecodeString`, `strconv.Atoi`, `strconv.ParseFloat` are PARAMETERS `h`, `f`, `g` of the translated
  code; what is assumed about them is stated as explicit hypotheses:
  * `AtoiModel f`: no error and the model's value where the model's `atoi` accepts, an error (any error,
    any value) where it rejects;
  * `PFModel g pf`: `pf s = some t → g s 64 = (t, nil)`, `pf s = none → (g s 64).2 ≠ nil` (`pf` is the
    model's `FormatFloat ∘ ParseFloat` normaliser; a float is its canonical text);
  * `HexModel h`: the same shape against the model's `hexDec`.

  Tag values are the model's `Sam.TagVal`; the Go `map[string]any` is an association list in INSERTION
  order (`mapSet`: replace in place or append), the model keeps its list SORTED by name (`tagInsert`).
  `SameMap r m` says the two are the same finite map (same lookups, keys of `r` distinct, `r` a
  permutation of `m`).

  1. `go_splitTag`: `splitTag` is the model's `Sam.splitTag` on ALL byte strings; never a panic.
  2. `go_parseInts_param` / `go_parseInts`: `parseInts` (copy-in/copy-out of the pointees).
  3. `go_parseTags_param` / `go_parseTags` / `go_parseTags_insertion_order` / `go_parseTags_texts`.
  4. `go_sam_parseLine_param` / `go_sam_parseLine_no_panic` / `go_sam_parseLine`.
  5. `go_sam_write_parse` / `go_sam_write_then_parse`: the READ side of the C03 record round trip.
  6. `go_sam_too_few_fields`, `go_sam_bad_int`, `go_sam_tag_few_colons`, `go_sam_tag_bad_value`,
     `go_sam_line_error`: the `corrupt_*` theorems of `Bio.Props.C03` on the translated code.

  Guarded by the translator's `_Found` flags (see `Bio.Lemmas.GoSrc`).
-/
import Bio.Lemmas.GoSrcSamParse
import Bio.Props.C03
import Bio.Props.C03Go
set_option linter.unusedVariables false
namespace Bio.Props.C03ReadGo
open Bio Bio.GoRt Bio.Generated Bio.GoSrcLemmas Bio.GoSrcLemmas.SamP Bio.GoSrcLemmas.BedRd

/-- every translator flag this file depends on; the non-vacuity examples below are stated as
`allFound = false ∨ …` so that a source the translator no longer recognises is not an alarm -/
def allFound : Bool :=
  GoSrc.splitTag_Found && GoSrc.parseTags_Found && GoSrc.parseInts_Found && GoSrc.sam_parseLine_Found
    && GoSrc.sam_Write_Found

/-! ## The hypotheses are satisfiable -/

/-- the model's own `atoi` / `exPf` (accepts exactly `1.5e+00`) / `hexDec` as Go functions -/
example : AtoiModel atoiP ∧ PFModel (pfP Sam.exPf) Sam.exPf ∧ HexModel hexP :=
  ⟨atoiP_model, pfP_model _, hexP_model⟩

/-- concrete consequences on sample strings: `-5`, `+7`, `x`, the empty string; `1.5e+00`, `1.5`;
`00ff10`, `0g`, `abc` (odd length), the empty string -/
example : atoiP [45, 53] = (-5, GoErr.nil) ∧ atoiP [43, 55] = (7, GoErr.nil) ∧ atoiP [120] = (0, GoErr.other)
    ∧ atoiP [] = (0, GoErr.other)
    ∧ pfP Sam.exPf [49, 46, 53, 101, 43, 48, 48] 64 = ([49, 46, 53, 101, 43, 48, 48], GoErr.nil)
    ∧ pfP Sam.exPf [49, 46, 53] 64 = ([], GoErr.other)
    ∧ hexP [48, 48, 102, 102, 49, 48] = ([0, 255, 16], GoErr.nil) ∧ hexP [48, 103] = ([], GoErr.other)
    ∧ hexP [97, 98, 99] = ([], GoErr.other) ∧ hexP [] = ([], GoErr.nil) := by
  decide +kernel

/-! ## 1. `splitTag` -/

/-- For ALL byte strings (colons anywhere, bytes ≥ 0x80, empty pieces): the translated `splitTag` returns
the three pieces of the model's `Sam.splitTag` (split at the first two colons) and no error, or three
empty strings and an error when there are fewer than two colons.  It never panics: the three slice
expressions are always in range. -/
theorem go_splitTag : GoSrc.splitTag_Found = true → ∀ tag : Bytes,
    GoSrc.splitTag tag = some (match Sam.splitTag tag with
      | some (n, ty, v) => ([n, ty, v], GoErr.nil)
      | none => ([[], [], []], GoErr.other)) :=
  fun hF tag => splitTag_eq hF tag

set_option synthInstance.maxSize 2048 in
/-- `NM:i:3`; `ZZ:Z:a:b` (a colon inside the value); `::` (three empty pieces); `:A:` ; `NM:i3` (one colon);
the empty string; a byte ≥ 0x80 next to the colons -/
example : allFound = false ∨ (
    GoSrc.splitTag [78, 77, 58, 105, 58, 51] = some ([[78, 77], [105], [51]], GoErr.nil)
    ∧ GoSrc.splitTag [90, 90, 58, 90, 58, 97, 58, 98] = some ([[90, 90], [90], [97, 58, 98]], GoErr.nil)
    ∧ GoSrc.splitTag [58, 58] = some ([[], [], []], GoErr.nil)
    ∧ GoSrc.splitTag [58, 65, 58] = some ([[], [65], []], GoErr.nil)
    ∧ GoSrc.splitTag [78, 77, 58, 105, 51] = some ([[], [], []], GoErr.other)
    ∧ GoSrc.splitTag [] = some ([[], [], []], GoErr.other)
    ∧ GoSrc.splitTag [200, 58, 255, 58, 128] = some ([[200], [255], [128]], GoErr.nil)) := by
  decide +kernel

/-! ## 2. `parseInts` -/

/-- For an ARBITRARY `strconv.Atoi`: `parseInts(strs, p...)` panics exactly when the lengths differ, and
otherwise is `intsSpec`: the error of the first string with an error, the values before it written
through the pointers, the other pointees untouched. -/
theorem go_parseInts_param : GoSrc.parseInts_Found = true →
    ∀ (f : Bytes → Int × GoErr) (strs : List Bytes) (p : List Int),
    GoSrc.parseInts f strs p = if strs.length = p.length then some (intsSpec f strs p) else none :=
  fun hF f strs p => parseInts_eq hF f strs p

/-- Under `AtoiModel` (`p` = the pointees before the call; the result carries them after it):
* different lengths: a panic;
* every string accepted by the model's `atoi`: no error, the pointees are the parsed values;
* the first rejected string `s` at position `i` (all before it accepted, with values `vs`): the error
  of `f s` (not nil), the first `i` pointees are `vs`, the others are untouched. -/
theorem go_parseInts : GoSrc.parseInts_Found = true →
    ∀ (f : Bytes → Int × GoErr), AtoiModel f → ∀ (strs : List Bytes) (p : List Int),
    (strs.length ≠ p.length → GoSrc.parseInts f strs p = none)
    ∧ (strs.length = p.length → ∀ vs, strs.mapM atoi = some vs →
        GoSrc.parseInts f strs p = some (GoErr.nil, vs))
    ∧ (strs.length = p.length → ∀ (i : Nat) (s : Bytes) (vs : List Int),
        (strs.take i).mapM atoi = some vs → strs[i]? = some s → atoi s = none →
        (f s).2 ≠ GoErr.nil ∧ GoSrc.parseInts f strs p = some ((f s).2, vs ++ p.drop i)) := by
  intro hF f hf strs p
  refine ⟨fun hl => by rw [parseInts_eq hF, if_neg hl], fun hl vs hm => ?_, fun hl i s vs hpre hs hbad => ?_⟩
  · rw [parseInts_eq hF, if_pos hl, intsSpec_ok hf strs p vs hl hm]
  · obtain ⟨h1, h2⟩ := intsSpec_bad hf strs p vs i s hl hpre hs hbad
    exact ⟨h2, by rw [parseInts_eq hF, if_pos hl, h1]⟩

/-- hypotheses: `["12", "-3", "x", "4"]` against four pointees, the first rejected string at `i = 2` -/
example : ([[49, 50], [45, 51], [120], [52]] : List Bytes).length = ([100, 101, 102, 103] : List Int).length
    ∧ (([[49, 50], [45, 51], [120], [52]] : List Bytes).take 2).mapM atoi = some [12, -3]
    ∧ ([[49, 50], [45, 51], [120], [52]] : List Bytes)[2]? = some [120] ∧ atoi [120] = none
    ∧ ([[49, 50], [45, 51]] : List Bytes).mapM atoi = some [12, -3] := by decide +kernel
example : allFound = false ∨ (
    GoSrc.parseInts atoiP [[49, 50], [45, 51], [120], [52]] [100, 101, 102, 103]
      = some (GoErr.other, [12, -3, 102, 103])
    ∧ GoSrc.parseInts atoiP [[49, 50], [45, 51]] [100, 101] = some (GoErr.nil, [12, -3])
    ∧ GoSrc.parseInts atoiP [[49, 50], [45, 51]] [100] = none
    ∧ GoSrc.parseInts atoiP [] [] = some (GoErr.nil, [])
    -- an arbitrary `Atoi` whose error is `io.EOF`-like on "x": that very error is returned
    ∧ GoSrc.parseInts (fun s => if s = [120] then (9, GoErr.eof) else (7, GoErr.nil)) [[49], [120], [50]] [0, 0, 0]
      = some (GoErr.eof, [7, 0, 0])) := by
  decide +kernel

/-! ## 3. `parseTags` -/

/-- For ARBITRARY parameters: the translated `parseTags` is the model's tag parser with the three value
parsers as parameters (`reqA f` = value of `f s` when its error is nil, likewise `reqP g`, `reqH h`) and
the map kept in insertion order (`tagsSpec`); in particular it never panics (`parts[0..2]` of a `[3]string`,
`parts[2][0]` only after `len(parts[2]) == 1`). -/
theorem go_parseTags_param : GoSrc.parseTags_Found = true → GoSrc.splitTag_Found = true →
    ∀ (h : Bytes → Bytes × GoErr) (f : Bytes → Int × GoErr) (g : Bytes → Int → Bytes × GoErr)
      (values : List Bytes),
    GoSrc.parseTags h f g values = some (match tagsSpec (reqA f) (reqP g) (reqH h) values [] with
      | some r => (r, GoErr.nil)
      | none => ([], GoErr.other)) :=
  fun hT hS h f g values => parseTags_eq hT hS h f g values

/-- Under the three hypotheses, for ALL `values`: an error (and the nil map) iff the model's
`Sam.parseTags pf values [] = none`; on success the Go map `r` is the same finite map as the model's
sorted list `m`: same lookups, distinct keys, a permutation — hence the same tag texts. -/
theorem go_parseTags : GoSrc.parseTags_Found = true → GoSrc.splitTag_Found = true →
    ∀ (h : Bytes → Bytes × GoErr) (f : Bytes → Int × GoErr) (g : Bytes → Int → Bytes × GoErr)
      (pf : Bytes → Option Bytes), AtoiModel f → PFModel g pf → HexModel h → ∀ (values : List Bytes),
    match Sam.parseTags pf values [] with
    | none => GoSrc.parseTags h f g values = some ([], GoErr.other)
    | some m => ∃ r, GoSrc.parseTags h f g values = some (r, GoErr.nil)
        ∧ (∀ name, (r.find? (·.1 == name)).map (·.2) = (m.find? (·.1 == name)).map (·.2))
        ∧ r.Pairwise (fun a b => a.1 ≠ b.1)
        ∧ r.Perm m
        ∧ Sam.tagsToText r = Sam.tagsToText m
        ∧ Sam.insertAll r [] = m := by
  intro hT hS h f g pf hf hg hh values
  have := parseTags_model hT hS hf hg hh values
  cases hm : Sam.parseTags pf values [] with
  | none => rw [hm] at this; exact this
  | some m =>
    rw [hm] at this
    obtain ⟨r, hr, hsm, hs⟩ := this
    exact ⟨r, hr, hsm.1, hsm.2.1, hsm.2.2, tagsToText_perm hsm.2.2, insertAll_of_sameMap hsm hs⟩

/-- The exact Go map under the three hypotheses: the model's parser with `mapSet` (insertion order, a
repeated name overwritten in place) instead of the sorted `tagInsert`. -/
theorem go_parseTags_insertion_order : GoSrc.parseTags_Found = true → GoSrc.splitTag_Found = true →
    ∀ (h : Bytes → Bytes × GoErr) (f : Bytes → Int × GoErr) (g : Bytes → Int → Bytes × GoErr)
      (pf : Bytes → Option Bytes), AtoiModel f → PFModel g pf → HexModel h → ∀ (values : List Bytes),
    GoSrc.parseTags h f g values = some (match tagsSpec atoi pf hexDec values [] with
      | some r => (r, GoErr.nil)
      | none => ([], GoErr.other)) :=
  fun hT hS h f g pf hf hg hh values => parseTags_insertion hT hS hf hg hh values

/-- The tag texts (`tagsToText`, which sorts them) depend on the finite map only: any permutation of the
model's list gives the same texts, so writing the Go map gives what writing the model's list gives. -/
theorem go_parseTags_texts : ∀ (r m : Sam.Tags), r.Perm m → Sam.tagsToText r = Sam.tagsToText m :=
  fun _ _ h => tagsToText_perm h

example : ([([90, 90], Sam.TagVal.Z [97]), ([78, 77], Sam.TagVal.I 7)] : Sam.Tags).Perm
    [([78, 77], Sam.TagVal.I 7), ([90, 90], Sam.TagVal.Z [97])] := List.Perm.swap _ _ _

/-- `ZZ:Z:a:b NM:i:3 XA:A:c NM:i:7 XF:f:1.5e+00 XH:H:00ff` — a duplicate name (the last value wins and stays
at the first position), a colon inside a `Z` value: the Go map in insertion order, the model's sorted
list, the same texts; `NM:i:3 XA:A:c ZZ:Z:a:b NM:i:7`; a `B` tag is kept as a string; an empty name and
an empty value; no tags -/
def exTags : List Bytes :=
  [[90, 90, 58, 90, 58, 97, 58, 98], [78, 77, 58, 105, 58, 51], [88, 65, 58, 65, 58, 99], [78, 77, 58, 105, 58, 55],
   [88, 70, 58, 102, 58, 49, 46, 53, 101, 43, 48, 48], [88, 72, 58, 72, 58, 48, 48, 102, 102]]

set_option synthInstance.maxSize 2048 in
example : allFound = false ∨ (
    GoSrc.parseTags hexP atoiP (pfP Sam.exPf) exTags
      = some ([([90, 90], .Z [97, 58, 98]), ([78, 77], .I 7), ([88, 65], .A 99),
          ([88, 70], .F [49, 46, 53, 101, 43, 48, 48]), ([88, 72], .H [0, 255])], GoErr.nil)
    ∧ Sam.parseTags Sam.exPf exTags []
      = some [([78, 77], .I 7), ([88, 65], .A 99), ([88, 70], .F [49, 46, 53, 101, 43, 48, 48]),
          ([88, 72], .H [0, 255]), ([90, 90], .Z [97, 58, 98])]
    ∧ GoSrc.parseTags hexP atoiP (pfP Sam.exPf)
        [[78, 77, 58, 105, 58, 51], [88, 65, 58, 65, 58, 99], [90, 90, 58, 90, 58, 97, 58, 98], [78, 77, 58, 105, 58, 55]]
      = some ([([78, 77], .I 7), ([88, 65], .A 99), ([90, 90], .Z [97, 58, 98])], GoErr.nil)
    ∧ GoSrc.parseTags hexP atoiP (pfP Sam.exPf) [[88, 66, 58, 66, 58, 99, 44, 49]]
      = some ([([88, 66], .Z [99, 44, 49])], GoErr.nil)
    ∧ GoSrc.parseTags hexP atoiP (pfP Sam.exPf) [[58, 90, 58]] = some ([([], .Z [])], GoErr.nil)
    ∧ GoSrc.parseTags hexP atoiP (pfP Sam.exPf) [] = some ([], GoErr.nil)
    -- errors: one colon; `A` with two characters; `i` non-numeric; unknown type letter; a bad float; odd hex;
    -- an empty field
    ∧ GoSrc.parseTags hexP atoiP (pfP Sam.exPf) [[78, 77, 58, 105, 51]] = some ([], GoErr.other)
    ∧ GoSrc.parseTags hexP atoiP (pfP Sam.exPf) [[88, 65, 58, 65, 58, 99, 100]] = some ([], GoErr.other)
    ∧ GoSrc.parseTags hexP atoiP (pfP Sam.exPf) [[78, 77, 58, 105, 58, 120]] = some ([], GoErr.other)
    ∧ GoSrc.parseTags hexP atoiP (pfP Sam.exPf) [[78, 77, 58, 113, 58, 49]] = some ([], GoErr.other)
    ∧ GoSrc.parseTags hexP atoiP (pfP Sam.exPf) [[88, 70, 58, 102, 58, 49, 46, 53]] = some ([], GoErr.other)
    ∧ GoSrc.parseTags hexP atoiP (pfP Sam.exPf) [[88, 72, 58, 72, 58, 48]] = some ([], GoErr.other)
    ∧ GoSrc.parseTags hexP atoiP (pfP Sam.exPf) [[78, 77, 58, 105, 58, 51], []] = some ([], GoErr.other)) := by
  decide +kernel

/-! ## 4. `parseLine` -/

/-- For ARBITRARY parameters the translated `parseLine` is `lineSpec` (fewer than 11 fields: an error;
the five integers through `parseInts`; the tags through `parseTags`). -/
theorem go_sam_parseLine_param : GoSrc.sam_parseLine_Found = true → GoSrc.parseInts_Found = true →
    GoSrc.parseTags_Found = true → GoSrc.splitTag_Found = true →
    ∀ (h : Bytes → Bytes × GoErr) (f : Bytes → Int × GoErr) (g : Bytes → Int → Bytes × GoErr)
      (line : List Bytes),
    GoSrc.sam_parseLine h f g line = some (lineSpec h f g line) :=
  fun hF hI hT hS h f g line => sam_parseLine_eq hF hI hT hS h f g line

/-- `parseLine` never panics, whatever the three library functions return: `len(line) ≥ 11` guards
`line[0..10]`, `snm.At` and `line[11:]`; `parseInts` gets five strings and five pointers. -/
theorem go_sam_parseLine_no_panic : GoSrc.sam_parseLine_Found = true → GoSrc.parseInts_Found = true →
    GoSrc.parseTags_Found = true → GoSrc.splitTag_Found = true →
    ∀ (h : Bytes → Bytes × GoErr) (f : Bytes → Int × GoErr) (g : Bytes → Int → Bytes × GoErr)
      (line : List Bytes),
    GoSrc.sam_parseLine h f g line ≠ none := by
  intro hF hI hT hS h f g line
  rw [sam_parseLine_eq hF hI hT hS]; simp

/-- Under the three hypotheses, for ALL `line` (any number of fields, any bytes): the translated
`parseLine` returns a record exactly when the model's `Sam.parseLine pf line` does — the same eleven
fields, and a tag map that is the same finite map as the model's sorted list (`SameMap`: same lookups,
distinct keys, a permutation; sorting it by insertion gives the model's list) — and `(nil, err)` with
`err ≠ nil` exactly when the model rejects the line. -/
theorem go_sam_parseLine : GoSrc.sam_parseLine_Found = true → GoSrc.parseInts_Found = true →
    GoSrc.parseTags_Found = true → GoSrc.splitTag_Found = true →
    ∀ (h : Bytes → Bytes × GoErr) (f : Bytes → Int × GoErr) (g : Bytes → Int → Bytes × GoErr)
      (pf : Bytes → Option Bytes), AtoiModel f → PFModel g pf → HexModel h → ∀ (line : List Bytes),
    match Sam.parseLine pf line with
    | some s => ∃ r, GoSrc.sam_parseLine h f g line = some (some (tupleOf s r), GoErr.nil)
        ∧ SameMap r s.tags ∧ Sam.tagsToText r = Sam.tagsToText s.tags ∧ Sam.insertAll r [] = s.tags
    | none => ∃ e, e ≠ GoErr.nil ∧ GoSrc.sam_parseLine h f g line = some (none, e) := by
  intro hF hI hT hS h f g pf hf hg hh line
  have := sam_parseLine_model hF hI hT hS hf hg hh line
  cases hm : Sam.parseLine pf line with
  | none => rw [hm] at this; exact this
  | some s =>
    rw [hm] at this
    obtain ⟨r, hr, hsm, hs⟩ := this
    exact ⟨r, hr, hsm, tagsToText_perm hsm.2.2, insertAll_of_sameMap hsm hs⟩

/-- `SameMap`, spelled out -/
example (r m : Sam.Tags) : SameMap r m ↔
    ((∀ name, (r.find? (·.1 == name)).map (·.2) = (m.find? (·.1 == name)).map (·.2))
      ∧ r.Pairwise (fun a b => a.1 ≠ b.1) ∧ r.Perm m) := Iff.rfl

/-- `q 0 * 1 1 * * 0 0 * *` followed by `NM:i:3 XA:A:c ZZ:Z:a:b NM:i:7` (a duplicate name: the last value
wins; a colon inside a `Z` value) -/
def exLine : List Bytes :=
  [[113], [48], [42], [49], [49], [42], [42], [48], [48], [42], [42],
   [78, 77, 58, 105, 58, 51], [88, 65, 58, 65, 58, 99], [90, 90, 58, 90, 58, 97, 58, 98], [78, 77, 58, 105, 58, 55]]

/-- the same with the tags in another order: `ZZ:Z:a:b NM:i:3 XA:A:c NM:i:7` -/
def exLine2 : List Bytes :=
  exLine.take 11 ++ [[90, 90, 58, 90, 58, 97, 58, 98], [78, 77, 58, 105, 58, 51], [88, 65, 58, 65, 58, 99],
    [78, 77, 58, 105, 58, 55]]

def exRec : Sam.Sam :=
  { qname := [113], flag := 0, rname := [42], pos := 1, mapq := 1, cigar := [42], rnext := [42], pnext := 0,
    tlen := 0, seq := [42], qual := [42],
    tags := [([78, 77], .I 7), ([88, 65], .A 99), ([90, 90], .Z [97, 58, 98])] }

example : allFound = false ∨ (
    -- both parsers on the line: the model's record; the Go record with the same map
    Sam.parseLine Sam.exPf exLine = some exRec
    ∧ GoSrc.sam_parseLine hexP atoiP (pfP Sam.exPf) exLine = some (some (tupleOf exRec exRec.tags), GoErr.nil)
    ∧ Sam.parseLine Sam.exPf exLine2 = some exRec
    ∧ GoSrc.sam_parseLine hexP atoiP (pfP Sam.exPf) exLine2
      = some (some (tupleOf exRec [([90, 90], .Z [97, 58, 98]), ([78, 77], .I 7), ([88, 65], .A 99)]), GoErr.nil)
    ∧ Sam.insertAll [([90, 90], .Z [97, 58, 98]), ([78, 77], .I 7), ([88, 65], .A 99)] [] = exRec.tags
    -- exactly eleven fields; eleven fields and an empty twelfth (a trailing TAB): an error in both
    ∧ GoSrc.sam_parseLine hexP atoiP (pfP Sam.exPf) (exLine.take 11)
      = some (some (tupleOf exRec []), GoErr.nil)
    ∧ GoSrc.sam_parseLine hexP atoiP (pfP Sam.exPf) (exLine.take 11 ++ [[]]) = some (none, GoErr.other)
    ∧ Sam.parseLine Sam.exPf (exLine.take 11 ++ [[]]) = none) := by
  decide +kernel

/-- arbitrary (even absurd) library functions: every integer "parses" as 1000, every float as `x`, every
hex string as `[1]`, never an error — `parseLine` still returns -/
example : allFound = false ∨ (
    GoSrc.sam_parseLine (fun _ => ([1], GoErr.nil)) (fun _ => (1000, GoErr.nil)) (fun _ _ => ([120], GoErr.nil))
        (exLine.take 11 ++ [[97, 58, 102, 58], [98, 58, 72, 58, 122]])
      = some (some ([113], 1000, [42], 1000, 1000, [42], [42], 1000, 1000, [42], [42],
          [([97], .F [120]), ([98], .H [1])]), GoErr.nil)) := by
  decide +kernel

/-! ## 5. Write, then parse: the READ side of the C03 record round trip -/

/-- For every well-formed record (`Sam.WF pf s` of `Bio.Props.C03`): the translated `parseLine` on the
TAB-separated fields of the record's line `Sam.encodeLine s` gives back the record: the same eleven
fields and a tag map `r` that is the same finite map as `s.tags` (`SameMap`; the tag fields arrive sorted
by their TEXT, the model's list is sorted by NAME, so `r` is a permutation of `s.tags`, with the same
tag texts and `s.tags` itself after sorting by insertion). -/
theorem go_sam_write_parse : GoSrc.sam_parseLine_Found = true → GoSrc.parseInts_Found = true →
    GoSrc.parseTags_Found = true → GoSrc.splitTag_Found = true →
    ∀ (h : Bytes → Bytes × GoErr) (f : Bytes → Int × GoErr) (g : Bytes → Int → Bytes × GoErr)
      (pf : Bytes → Option Bytes), AtoiModel f → PFModel g pf → HexModel h →
    ∀ (s : Sam.Sam), Sam.WF pf s →
    ∃ r, GoSrc.sam_parseLine h f g (splitOn TAB (Sam.encodeLine s)) = some (some (tupleOf s r), GoErr.nil)
      ∧ SameMap r s.tags ∧ Sam.tagsToText r = Sam.tagsToText s.tags ∧ Sam.insertAll r [] = s.tags := by
  intro hF hI hT hS h f g pf hf hg hh s hwf
  have := go_sam_parseLine hF hI hT hS h f g pf hf hg hh (splitOn TAB (Sam.encodeLine s))
  rw [Sam.record_roundtrip pf s hwf] at this
  exact this

/-- The translated `Write` (C03Go) on a writer with enough room, then the translated `parseLine` on the
fields of what was written (without the final LF): the record. -/
theorem go_sam_write_then_parse : GoSrc.sam_Write_Found = true → GoSrc.sam_parseLine_Found = true →
    GoSrc.parseInts_Found = true → GoSrc.parseTags_Found = true → GoSrc.splitTag_Found = true →
    ∀ (h : Bytes → Bytes × GoErr) (f : Bytes → Int × GoErr) (g : Bytes → Int → Bytes × GoErr)
      (pf : Bytes → Option Bytes), AtoiModel f → PFModel g pf → HexModel h →
    ∀ (s : Sam.Sam), Sam.WF pf s → ∀ (k : Nat), (Sam.encode s).length ≤ k →
    ∃ w' r, C03Go.goWrite s ⟨k, []⟩ = some (GoErr.nil, w')
      ∧ w'.out = Sam.encodeLine s ++ [10]
      ∧ GoSrc.sam_parseLine h f g (splitOn TAB w'.out.dropLast) = some (some (tupleOf s r), GoErr.nil)
      ∧ SameMap r s.tags ∧ Sam.tagsToText r = Sam.tagsToText s.tags ∧ Sam.insertAll r [] = s.tags := by
  intro hW hF hI hT hS h f g pf hf hg hh s hwf k hk
  obtain ⟨r, hr⟩ := go_sam_write_parse hF hI hT hS h f g pf hf hg hh s hwf
  refine ⟨_, r, C03Go.go_sam_write_bytes hW s k [] hk, by simp [Sam.encode, LF], ?_⟩
  simpa [Sam.encode, LF] using hr

/-- Non-vacuity: C03's sample records (all five tag types, odd bytes, extreme integers; no tags) are
well-formed; room for the text -/
example : Sam.WF Sam.exPf Sam.exSam ∧ Sam.WF Sam.exPf Sam.exSam2 := ⟨Sam.exSam_WF, Sam.exSam2_WF⟩
example : (Sam.encode Sam.exSam).length ≤ 200 := by decide +kernel
/-- a record whose tag texts sort differently from its tag names (`a!` < `a:`… as texts, `a` < `a!` as
names): the Go map comes back in text order -/
def exOdd : Sam.Sam :=
  { exRec with tags := [([97], .I 1), ([97, 33], .I 2)] }
example : Sam.WF Sam.exPf exOdd := by decide
example : allFound = false ∨ (
    GoSrc.sam_parseLine hexP atoiP (pfP Sam.exPf) (splitOn TAB (Sam.encodeLine Sam.exSam))
      = some (some (tupleOf Sam.exSam Sam.exSam.tags), GoErr.nil)
    ∧ GoSrc.sam_parseLine hexP atoiP (pfP Sam.exPf) (splitOn TAB (Sam.encodeLine Sam.exSam2))
      = some (some (tupleOf Sam.exSam2 []), GoErr.nil)
    ∧ GoSrc.sam_parseLine hexP atoiP (pfP Sam.exPf) (splitOn TAB (Sam.encodeLine exOdd))
      = some (some (tupleOf exOdd [([97, 33], .I 2), ([97], .I 1)]), GoErr.nil)
    ∧ ((C03Go.goWrite Sam.exSam ⟨200, []⟩).bind fun p =>
        GoSrc.sam_parseLine hexP atoiP (pfP Sam.exPf) (splitOn TAB p.2.out.dropLast))
      = some (some (tupleOf Sam.exSam Sam.exSam.tags), GoErr.nil)) := by
  decide +kernel

/-! ## 6. Corrupt lines: `(nil, error)` -/

/-- Corruption kind 1: fewer than 11 fields — for ARBITRARY library functions. -/
theorem go_sam_too_few_fields : GoSrc.sam_parseLine_Found = true → GoSrc.parseInts_Found = true →
    GoSrc.parseTags_Found = true → GoSrc.splitTag_Found = true →
    ∀ (h : Bytes → Bytes × GoErr) (f : Bytes → Int × GoErr) (g : Bytes → Int → Bytes × GoErr)
      (line : List Bytes), line.length < 11 →
    GoSrc.sam_parseLine h f g line = some (none, GoErr.other) :=
  fun hF hI hT hS h f g line hn => sam_parseLine_too_few hF hI hT hS h f g line hn

example : (splitOn TAB [97, 9, 98, 9, 9, 99]).length < 11 := by decide

/-- Whatever the model's `parseLine` rejects, the translated `parseLine` answers with `(nil, err)`,
`err ≠ nil` (the general form of the corollaries below). -/
theorem go_sam_line_error : GoSrc.sam_parseLine_Found = true → GoSrc.parseInts_Found = true →
    GoSrc.parseTags_Found = true → GoSrc.splitTag_Found = true →
    ∀ (h : Bytes → Bytes × GoErr) (f : Bytes → Int × GoErr) (g : Bytes → Int → Bytes × GoErr)
      (pf : Bytes → Option Bytes), AtoiModel f → PFModel g pf → HexModel h →
    ∀ (line : List Bytes), Sam.parseLine pf line = none →
    ∃ e, e ≠ GoErr.nil ∧ GoSrc.sam_parseLine h f g line = some (none, e) :=
  fun hF hI hT hS h f g pf hf hg hh line hm => sam_parseLine_none hF hI hT hS hf hg hh line hm

/-- Corruption kind 2: one of FLAG, POS, MAPQ, PNEXT, TLEN (indices 1, 3, 4, 7, 8) is not accepted by
`atoi` (e.g. non-numeric: `Sam.atoi_nonnumeric`).  Only `AtoiModel` is needed (`ParseFloat` and
`DecodeString` arbitrary: the integers are parsed before the tags). -/
theorem go_sam_bad_int : GoSrc.sam_parseLine_Found = true → GoSrc.parseInts_Found = true →
    GoSrc.parseTags_Found = true → GoSrc.splitTag_Found = true →
    ∀ (h : Bytes → Bytes × GoErr) (f : Bytes → Int × GoErr) (g : Bytes → Int → Bytes × GoErr), AtoiModel f →
    ∀ (line : List Bytes), (∃ i ∈ [1, 3, 4, 7, 8], ∃ s, line[i]? = some s ∧ atoi s = none) →
    ∃ e, e ≠ GoErr.nil ∧ GoSrc.sam_parseLine h f g line = some (none, e) :=
  fun hF hI hT hS h f g hf line hb => sam_parseLine_bad_int hF hI hT hS hf h g line hb

example : ∃ i ∈ [1, 3, 4, 7, 8], ∃ s,
    ([[113], [48], [42], [49], [49, 120], [42], [42], [48], [48], [42], [42]] : List Bytes)[i]?
      = some s ∧ atoi s = none :=
  ⟨4, by decide, [49, 120], by decide, by decide⟩

/-- Corruption kind 3: a tag field with fewer than two colons — for ARBITRARY library functions (an
error from the integers, or else the error of `splitTag`). -/
theorem go_sam_tag_few_colons : GoSrc.sam_parseLine_Found = true → GoSrc.parseInts_Found = true →
    GoSrc.parseTags_Found = true → GoSrc.splitTag_Found = true →
    ∀ (h : Bytes → Bytes × GoErr) (f : Bytes → Int × GoErr) (g : Bytes → Int → Bytes × GoErr)
      (line : List Bytes) (fld : Bytes), fld ∈ line.drop 11 → fld.count 58 < 2 →
    ∃ e, e ≠ GoErr.nil ∧ GoSrc.sam_parseLine h f g line = some (none, e) :=
  fun hF hI hT hS h f g line fld hm hc => sam_parseLine_few_colons hF hI hT hS h f g line fld hm hc

example : ([78, 77, 58, 105, 49] : Bytes) ∈
    ([[113], [48], [42], [49], [49], [42], [42], [48], [48], [42], [42],
      [78, 77, 58, 105, 49]] : List Bytes).drop 11 ∧
    ([78, 77, 58, 105, 49] : Bytes).count 58 < 2 := by decide

/-- Corruption kind 4: a tag `name:ty:val` whose value its type rejects (`A` with length ≠ 1, `i`
rejected by `atoi`, `f` rejected by `pf`, `H` rejected by `hexDec`, e.g. of odd length), or whose type
letter is unknown. -/
theorem go_sam_tag_bad_value : GoSrc.sam_parseLine_Found = true → GoSrc.parseInts_Found = true →
    GoSrc.parseTags_Found = true → GoSrc.splitTag_Found = true →
    ∀ (h : Bytes → Bytes × GoErr) (f : Bytes → Int × GoErr) (g : Bytes → Int → Bytes × GoErr)
      (pf : Bytes → Option Bytes), AtoiModel f → PFModel g pf → HexModel h →
    ∀ (line : List Bytes) (name ty val : Bytes),
    name ++ 58 :: (ty ++ 58 :: val) ∈ line.drop 11 → (58 : UInt8) ∉ name → (58 : UInt8) ∉ ty →
    ((ty = [65] ∧ val.length ≠ 1) ∨ (ty = [105] ∧ atoi val = none) ∨ (ty = [102] ∧ pf val = none) ∨
      (ty = [72] ∧ (val.length % 2 = 1 ∨ hexDec val = none)) ∨
      ty ∉ [[65], [105], [102], [90], [72], [66]]) →
    ∃ e, e ≠ GoErr.nil ∧ GoSrc.sam_parseLine h f g line = some (none, e) := by
  intro hF hI hT hS h f g pf hf hg hh line name ty val hm hn ht hbad
  apply sam_parseLine_none hF hI hT hS hf hg hh line
  apply Sam.parseLine_none_of_tag pf line hm
  apply Sam.parseTag_bad_value pf val hn ht
  rcases hbad with ⟨rfl, hb⟩ | ⟨rfl, hb⟩ | ⟨rfl, hb⟩ | ⟨rfl, hb | hb⟩ | hb
  · exact Sam.parseTagVal_A_bad pf hb
  · exact Sam.parseTagVal_i_bad pf hb
  · simp [Sam.parseTagVal, hb]
  · exact Sam.parseTagVal_H_bad pf hb
  · simp [Sam.parseTagVal, hb]
  · exact Sam.parseTagVal_unknown pf val hb

/-- Non-vacuity for each disjunct (`XX:A:ab`, `XX:i:1x`, `XX:f:1.5`, `XX:H:abc`, `XX:H:0g`, `XX:q:1`). -/
example :
    (([65] : Bytes) = [65] ∧ ([97, 98] : Bytes).length ≠ 1) ∧
    (([105] : Bytes) = [105] ∧ atoi [49, 120] = none) ∧
    (([102] : Bytes) = [102] ∧ Sam.exPf [49, 46, 53] = none) ∧
    (([72] : Bytes) = [72] ∧ ([97, 98, 99] : Bytes).length % 2 = 1) ∧
    (([72] : Bytes) = [72] ∧ hexDec [48, 103] = none) ∧
    (([113] : Bytes) ∉ ([[65], [105], [102], [90], [72], [66]] : List Bytes)) ∧
    ([88, 88] : Bytes) ++ 58 :: (([113] : Bytes) ++ 58 :: [49]) ∈
      ([[113], [48], [42], [49], [49], [42], [42], [48], [48], [42], [42],
        [88, 88, 58, 113, 58, 49]] : List Bytes).drop 11 ∧
    (58 : UInt8) ∉ ([88, 88] : Bytes) ∧ (58 : UInt8) ∉ ([113] : Bytes) := by decide

/-- each corruption class once, on the translated code: ten fields; a non-numeric FLAG, POS, MAPQ, PNEXT,
TLEN; `NM:i3`; `XA:A:cd`; `NM:i:x`; `NM:q:1`; the Atoi error itself is what a bad integer returns -/
example : allFound = false ∨ (
    GoSrc.sam_parseLine hexP atoiP (pfP Sam.exPf) (exLine.take 10) = some (none, GoErr.other)
    ∧ GoSrc.sam_parseLine hexP atoiP (pfP Sam.exPf) (exLine.set 1 [120]) = some (none, GoErr.other)
    ∧ GoSrc.sam_parseLine hexP atoiP (pfP Sam.exPf) (exLine.set 3 [49, 120]) = some (none, GoErr.other)
    ∧ GoSrc.sam_parseLine hexP atoiP (pfP Sam.exPf) (exLine.set 4 []) = some (none, GoErr.other)
    ∧ GoSrc.sam_parseLine hexP atoiP (pfP Sam.exPf) (exLine.set 7 [45]) = some (none, GoErr.other)
    ∧ GoSrc.sam_parseLine hexP atoiP (pfP Sam.exPf) (exLine.set 8 [49, 46, 48]) = some (none, GoErr.other)
    ∧ GoSrc.sam_parseLine hexP atoiP (pfP Sam.exPf) (exLine.set 12 [78, 77, 58, 105, 51]) = some (none, GoErr.other)
    ∧ GoSrc.sam_parseLine hexP atoiP (pfP Sam.exPf) (exLine.set 12 [88, 65, 58, 65, 58, 99, 100]) = some (none, GoErr.other)
    ∧ GoSrc.sam_parseLine hexP atoiP (pfP Sam.exPf) (exLine.set 12 [78, 77, 58, 105, 58, 120]) = some (none, GoErr.other)
    ∧ GoSrc.sam_parseLine hexP atoiP (pfP Sam.exPf) (exLine.set 12 [78, 77, 58, 113, 58, 49]) = some (none, GoErr.other)
    ∧ GoSrc.sam_parseLine hexP (fun s => if s = [120] then (0, GoErr.eof) else atoiP s) (pfP Sam.exPf)
        (exLine.set 3 [120]) = some (none, GoErr.eof)) := by
  decide +kernel

end Bio.Props.C03ReadGo
