/-
  C10 — "Global / Local return an optimal alignment also when the gap-open
  score `m GAP GAP` is non-zero" is FALSE for the single-state recurrence of
  /repo/align.  This file states the full property and refutes it by concrete
  witnesses (for Global and for Local), and proves the part that does hold for
  every gap-open: the returned score is attained by an alignment, so it never
  exceeds the optimum (`*_le_opt_partial`, via C08).  Mechanism of the failure:
  a cell keeps only its best score and that score's last step; on a tie
  `decideOnStep` prefers a match, and the slightly-worse-or-equal path ending in
  a gap — which could be extended without paying gap-open again — is lost.
-/
import Bio.Lemmas.AlignOpt
import Bio.Props.C08
namespace Bio.Align

/-- The full C10 property for `Global`: for every matrix whose gap scores
(including gap-open) are non-positive, no alignment of `a`, `b` scores more
than the returned score. -/
def C10_full : Prop :=
  ∀ (m : Mat) (a b : Bytes), (∀ x, m x GAP ≤ 0) → (∀ y, m GAP y ≤ 0) →
    ∀ s v, rescore m .none a b s = some (v, [], []) → v ≤ (globalT m a b).2

/-- The full C10 property for `Local`: no alignment of any pair of substrings
scores more than the returned score. -/
def C10_local_full : Prop :=
  ∀ (m : Mat) (a b : Bytes), (∀ x, m x GAP ≤ 0) → (∀ y, m GAP y ≤ 0) →
    ∀ i i' j j', i ≤ i' → i' ≤ a.length → j ≤ j' → j' ≤ b.length →
    ∀ s v, rescore m .none ((a.drop i).take (i' - i)) ((b.drop j).take (j' - j)) s
        = some (v, [], []) →
      v ≤ (localT m a b).2.2.2

/-- Affine scoring: `mt` for equal letters, `mm` for different letters, `g` per
gap character, `o` for opening a gap. -/
def affineMat (mt mm g o : Int) : Mat := fun x y =>
  if x = GAP ∧ y = GAP then o else if x = GAP ∨ y = GAP then g else if x = y then mt else mm

theorem affineMat_gap_right (mt mm g o : Int) (hg : g ≤ 0) (ho : o ≤ 0) (x : UInt8) :
    affineMat mt mm g o x GAP ≤ 0 := by
  unfold affineMat; split
  · exact ho
  · simp [hg]

theorem affineMat_gap_left (mt mm g o : Int) (hg : g ≤ 0) (ho : o ≤ 0) (y : UInt8) :
    affineMat mt mm g o GAP y ≤ 0 := by
  unfold affineMat; split
  · exact ho
  · simp [hg]

/-- Witness: `a = "a"`, `b = "aab"`, match 2, mismatch -1, gap -1, gap-open -3.
`Global` returns score -6 (steps ins, ins, mch), but mch, ins, ins scores -3. -/
theorem global_affine_witness :
    globalT (affineMat 2 (-1) (-1) (-3)) [97] [97, 97, 98] = ([.ins, .ins, .mch], -6) ∧
    rescore (affineMat 2 (-1) (-1) (-3)) .none [97] [97, 97, 98] [.mch, .ins, .ins]
      = some (-3, [], []) := by
  decide +kernel

theorem global_affine_not_optimal : ¬ C10_full := by
  intro h
  have := h (affineMat 2 (-1) (-1) (-3)) [97] [97, 97, 98]
    (affineMat_gap_right _ _ _ _ (by decide) (by decide))
    (affineMat_gap_left _ _ _ _ (by decide) (by decide))
    [.mch, .ins, .ins] (-3) global_affine_witness.2
  rw [global_affine_witness.1] at this
  exact absurd this (by decide)

/-- Witness: `a = "cad"`, `b = "caabd"`, match 10, mismatch -1, gap -1, gap-open -3.
`Local` returns score 22, but mch, mch, ins, ins, mch on the whole strings scores 25. -/
theorem local_affine_witness :
    localT (affineMat 10 (-1) (-1) (-3)) [99, 97, 100] [99, 97, 97, 98, 100]
      = ([.mch, .ins, .mch, .ins, .mch], 0, 0, 22) ∧
    rescore (affineMat 10 (-1) (-1) (-3)) .none [99, 97, 100] [99, 97, 97, 98, 100]
      [.mch, .mch, .ins, .ins, .mch] = some (25, [], []) := by
  decide +kernel

theorem local_affine_not_optimal : ¬ C10_local_full := by
  intro h
  have := h (affineMat 10 (-1) (-1) (-3)) [99, 97, 100] [99, 97, 97, 98, 100]
    (affineMat_gap_right _ _ _ _ (by decide) (by decide))
    (affineMat_gap_left _ _ _ _ (by decide) (by decide))
    0 3 0 5 (by decide) (by decide) (by decide) (by decide)
    [.mch, .mch, .ins, .ins, .mch] 25 local_affine_witness.2
  rw [local_affine_witness.1] at this
  exact absurd this (by decide)

/-! ## What is true for every gap-open: the returned score never exceeds the optimum -/

/-- For EVERY matrix (any gap-open) the score returned by Global is the score of
an actual alignment of `a` and `b` — the returned steps (`global_valid`, C08).
Hence it is ≤ the optimum; by `global_affine_not_optimal` it can be strictly
smaller.  This is the part of `C10_full` that holds. -/
theorem global_affine_le_opt_partial (m : Mat) (a b : Bytes) :
    ∃ s, rescore m .none a b s = some ((globalT m a b).2, [], []) :=
  ⟨(globalT m a b).1, global_valid m a b⟩

/-- Same for Local under non-positive gap scores: the returned score is the score
of an alignment of some substring pair (`local_valid_explicit`, C08). -/
theorem local_affine_le_opt_partial (m : Mat) (a b : Bytes) (ho : m GAP GAP ≤ 0)
    (hg : ∀ x ∈ a, m x GAP ≤ 0) (hg' : ∀ y ∈ b, m GAP y ≤ 0) :
    ∃ i i' j j' s, i ≤ i' ∧ i' ≤ a.length ∧ j ≤ j' ∧ j' ≤ b.length ∧
      rescore m .none ((a.drop i).take (i' - i)) ((b.drop j).take (j' - j)) s
        = some ((localT m a b).2.2.2, [], []) := by
  rcases local_valid_explicit m a b ⟨ho, hg, hg'⟩ with
    h | ⟨p, li, lj, mi, mj, s, h, _, h1, h2, h3, h4, _, hr, _⟩
  · exact ⟨0, 0, 0, 0, [], Nat.le_refl _, Nat.zero_le _, Nat.le_refl _, Nat.zero_le _,
      by rw [h]; simp [rescore]⟩
  · refine ⟨li, mi, lj, mj, p, by omega, h2, by omega, h4, ?_⟩
    rw [h]
    exact Opt.rescore_segment m a b li mi lj mj (by omega) h2 (by omega) h4 p .none s hr

/-- The hypotheses are satisfiable with a non-zero gap-open (the witness matrix). -/
example : affineMat 10 (-1) (-1) (-3) GAP GAP ≤ 0 ∧
    (∀ x ∈ ([99, 97, 100] : Bytes), affineMat 10 (-1) (-1) (-3) x GAP ≤ 0) ∧
    (∀ y ∈ ([99, 97, 97, 98, 100] : Bytes), affineMat 10 (-1) (-1) (-3) GAP y ≤ 0) := by
  decide

/-- The alignment returned by Local on the witness does score the returned 22. -/
example : rescore (affineMat 10 (-1) (-1) (-3)) .none [99, 97, 100] [99, 97, 97, 98, 100]
    [.mch, .ins, .mch, .ins, .mch] = some (22, [], []) := by decide +kernel

end Bio.Align
