/-
  C12 — sequtil/sequtil.go: `ReverseComplement` / `ReverseComplementString`
  (the same function `revComp` in the model) and `CanonicalSubsequences`.

  The 256-entry complement table is a parameter; `compTableOK tbl` (defined in
  `Bio/Lemmas/Sequtil.lean`) says it is the tabulation of the hand-written
  `stdComp` (A↔T, C↔G, N↔N in both cases, every other entry 0) and is
  discharged on the regenerated table by `decide +kernel`.
-/
import Bio.Lemmas.Sequtil
namespace Bio.Sequtil

/-- The standard complement table written out as a literal (used by the
non-vacuity examples; the table regenerated from Go is checked elsewhere). -/
def exCompTable : List UInt8 :=
  ((((((((((List.replicate 256 (0 : UInt8)).set 65 84).set 84 65).set 67 71).set 71 67).set 78 78).set
    97 116).set 116 97).set 99 103).set 103 99).set 110 110

example : compTableOK exCompTable = true := by decide +kernel
/-- The predicate is not trivially true. -/
example : compTableOK (exCompTable.set 66 86) = false := by decide +kernel
example : compTableOK (List.replicate 256 0) = false := by decide +kernel

/-! ## 1. Table facts (for every byte) -/

/-- The accepted set is exactly `aAcCgGtTnN`, with the standard complement. -/
theorem comp_spec {tbl : List UInt8} (h : compTableOK tbl = true) (b : UInt8) :
    comp tbl b = if isDNAN b then some (stdComp b) else none := comp_eq h b

theorem stdComp_involution (b : UInt8) (hb : isDNAN b = true) : stdComp (stdComp b) = b :=
  stdComp_stdComp b hb

theorem stdComp_case (b : UInt8) (hb : isDNAN b = true) : isUpper (stdComp b) = isUpper b :=
  isUpper_stdComp b hb

theorem stdComp_closed (b : UInt8) (hb : isDNAN b = true) : isDNAN (stdComp b) = true :=
  isDNAN_stdComp b hb

example : isDNAN 97 = true ∧ stdComp 97 = 116 ∧ isUpper 97 = false ∧ stdComp 67 = 71 := by decide

/-! ## 2. `ReverseComplement` -/

theorem revComp_spec {tbl : List UInt8} (h : compTableOK tbl = true) (dst src : Bytes)
    (hs : ∀ b ∈ src, isDNAN b = true) :
    revComp tbl dst src = some (dst ++ src.reverse.map stdComp) := by
  unfold revComp
  rw [mapM_some_of_forall (g := stdComp)]
  · rfl
  · intro x hx
    rw [comp_eq h, hs x (List.mem_reverse.mp hx)]; rfl

example : compTableOK exCompTable = true ∧ (∀ b ∈ [65, 99, 110, 84], isDNAN b = true) := by
  refine ⟨by decide +kernel, by decide⟩
example : revComp exCompTable [1, 2] [65, 99, 110, 84] = some [1, 2, 65, 110, 103, 84] := by
  rw [revComp_spec (by decide +kernel) _ _ (by decide)]; decide

theorem revComp_panics {tbl : List UInt8} (h : compTableOK tbl = true) (dst src : Bytes)
    (hb : ∃ b ∈ src, isDNAN b = false) : revComp tbl dst src = none := by
  unfold revComp
  rw [mapM_none_of_exists]
  · rfl
  · obtain ⟨b, hm, hb⟩ := hb
    exact ⟨b, List.mem_reverse.mpr hm, by rw [comp_eq h, hb]; rfl⟩

example : ∃ b ∈ [65, 85, 67], isDNAN b = false := by decide
example : revComp exCompTable [] [65, 85, 67] = none :=
  revComp_panics (by decide +kernel) _ _ (by decide)

/-- Defined exactly on sequences over the alphabet. -/
theorem revComp_isSome_iff {tbl : List UInt8} (h : compTableOK tbl = true) (dst src : Bytes) :
    (revComp tbl dst src).isSome = true ↔ ∀ b ∈ src, isDNAN b = true := by
  constructor
  · intro hsome b hb
    cases hd : isDNAN b with
    | true => rfl
    | false => rw [revComp_panics h dst src ⟨b, hb, hd⟩] at hsome; simp at hsome
  · intro hs; rw [revComp_spec h dst src hs]; rfl

/-- `dst`'s existing content is a prefix of the result; the rest does not depend on `dst`. -/
theorem revComp_dst (tbl : List UInt8) (dst src : Bytes) :
    revComp tbl dst src = (revComp tbl [] src).map (dst ++ ·) := by
  unfold revComp
  cases src.reverse.mapM (comp tbl) <;> simp

theorem revComp_involution {tbl : List UInt8} (h : compTableOK tbl = true) (s r : Bytes)
    (hr : revComp tbl [] s = some r) : revComp tbl [] r = some s := by
  have hs : ∀ b ∈ s, isDNAN b = true :=
    (revComp_isSome_iff h [] s).mp (by rw [hr]; rfl)
  rw [revComp_spec h [] s hs] at hr
  simp only [List.nil_append, Option.some.injEq] at hr
  subst hr
  rw [revComp_spec h]
  · simp only [List.nil_append, List.map_reverse, List.reverse_reverse, List.map_map]
    congr 1
    conv => rhs; rw [← List.map_id s]
    apply List.map_congr_left
    intro b hb
    exact stdComp_stdComp b (hs b hb)
  · intro b hb
    simp only [List.mem_map, List.mem_reverse] at hb
    obtain ⟨a, ha, rfl⟩ := hb
    exact isDNAN_stdComp a (hs a ha)

example : revComp exCompTable [] [65, 99, 110] = some [110, 103, 84] := by
  rw [revComp_spec (by decide +kernel) _ _ (by decide)]; decide

/-! ## 3. `CanonicalSubsequences` -/

/-- `bytes.Compare`-style `<` of the model is the lexicographic order on lists. -/
theorem bytesLt_lex (x y : Bytes) : bytesLt x y = true ↔ x < y := bytesLt_iff_lt x y

/-- One item per window start: `|seq| - k + 1` items, none when `k > |seq|`. -/
theorem canonical_length (tbl : List UInt8) (seq : Bytes) (k : Nat) (items : List Bytes)
    (h : canonical tbl seq k = some items) : items.length = seq.length + 1 - k := by
  unfold canonical canonicalLog at h
  cases hr : revComp tbl [] seq with
  | none => simp [hr] at h
  | some rc =>
    simp only [hr, Option.some.injEq] at h
    subst h
    simp [canonLoop_true]

theorem canonical_empty (tbl : List UInt8) (seq : Bytes) (k : Nat) (items : List Bytes)
    (hk : seq.length < k) (h : canonical tbl seq k = some items) : items = [] := by
  have := canonical_length tbl seq k items h
  apply List.eq_nil_of_length_eq_zero
  omega

/-- Item `i` is the lexicographically smaller of window `i` of `seq` and the
window `rc[|rc|-i-k : |rc|-i]` of the reverse complement. -/
theorem canonical_item (tbl : List UInt8) (seq : Bytes) (k : Nat) (items : List Bytes)
    (h : canonical tbl seq k = some items) :
    ∃ rc, revComp tbl [] seq = some rc ∧ ∀ i, i < seq.length + 1 - k →
      items[i]? = some (lexMin (window seq k i) ((rc.drop (rc.length - i - k)).take k)) := by
  unfold canonical canonicalLog at h
  cases hr : revComp tbl [] seq with
  | none => simp [hr] at h
  | some rc =>
    simp only [hr, Option.some.injEq] at h
    subst h
    refine ⟨rc, rfl, ?_⟩
    intro i hi
    simp [canonLoop_true, List.getElem?_map, List.getElem?_range hi, canonItem_eq]

/-- The paired window of the reverse complement is the reverse complement of the window. -/
theorem rcWindow_eq (seq : Bytes) (k i : Nat) (hik : i + k ≤ seq.length) :
    (((seq.reverse.map stdComp).drop ((seq.reverse.map stdComp).length - i - k)).take k)
      = (window seq k i).reverse.map stdComp := by
  have := rc_window (seq.map stdComp) k i (by simpa using hik)
  rw [List.map_reverse, this, window, List.map_reverse, List.map_take, List.map_drop]

example : (2 : Nat) + 2 ≤ [65, 67, 71, 84, 65].length := by decide

/-- Closed form of the whole iteration over the alphabet `aAcCgGtTnN`. -/
theorem canonical_spec {tbl : List UInt8} (h : compTableOK tbl = true) (seq : Bytes) (k : Nat)
    (hs : ∀ b ∈ seq, isDNAN b = true) :
    canonical tbl seq k = some ((List.range (seq.length + 1 - k)).map fun i =>
      lexMin (window seq k i) ((window seq k i).reverse.map stdComp)) := by
  unfold canonical canonicalLog
  have hr := revComp_spec h [] seq hs
  simp only [List.nil_append] at hr
  simp only [hr, canonLoop_true, Nat.zero_add, canonItem_eq]
  congr 1
  apply List.map_congr_left
  intro i hi
  rw [rcWindow_eq seq k i (by have := List.mem_range.mp hi; omega)]

example : compTableOK exCompTable = true ∧ (∀ b ∈ [84, 84, 65, 67], isDNAN b = true) := by
  refine ⟨by decide +kernel, by decide⟩
/-- "TTAC", k = 2: TT→AA (rc), TA→TA, AC→AC (rc GT is larger). -/
example : canonical exCompTable [84, 84, 65, 67] 2 = some [[65, 65], [84, 65], [65, 67]] := by
  rw [canonical_spec (by decide +kernel) _ _ (by decide)]; decide

/-- `k > |seq|`: no items. -/
example : canonical exCompTable [65] 3 = some [] := by
  rw [canonical_spec (by decide +kernel) _ _ (by decide)]; decide

/-- Instances of the hypothesis of `canonical_length` / `canonical_item` exist, with 3 items. -/
example : ∃ items, canonical exCompTable [84, 84, 65, 67] 2 = some items ∧ items.length = 3 :=
  ⟨_, by rw [canonical_spec (by decide +kernel) _ _ (by decide)], by decide⟩

theorem canonical_panics {tbl : List UInt8} (h : compTableOK tbl = true) (seq : Bytes) (k : Nat)
    (hb : ∃ b ∈ seq, isDNAN b = false) : canonical tbl seq k = none := by
  unfold canonical canonicalLog
  rw [revComp_panics h [] seq hb]

example : canonical exCompTable [84, 88] 1 = none :=
  canonical_panics (by decide +kernel) _ _ (by decide)

/-
  3c. Strand symmetry, `canonical (revComp seq) k = reverse (canonical seq k)`, is proved
  once, in `Bio/Lemmas/Mash.lean` (it is what C17 needs); it is not duplicated here.
-/

end Bio.Sequtil
