/-
  C18 — early stop of the callback / range-over-func iterators: once the
  consumer returns `false` it is never called again, and what it saw is a
  prefix of the uninterrupted run.  Covered: newick `traverse`, trie `ForEach`,
  sequtil `CanonicalSubsequences`, and the generic adapter (`runIter`,
  `takeThrough`) used for the decoder iterators.
-/
import Bio.Props.C19
import Bio.Lemmas.Iter

/-! ## 4. Generic adapter facts -/

namespace Bio

/-- A consumer that breaks after `j` items sees a prefix of the full run. -/
theorem runIter_prefix {α : Type} (items : List α) (j : Nat) : runIter items j <+: items :=
  List.take_prefix j items

theorem runIter_length {α : Type} (items : List α) (j : Nat) :
    (runIter items j).length = min j items.length := by
  simp [runIter]

theorem takeThrough_prefix {α : Type} (p : α → Bool) (l : List α) : takeThrough p l <+: l :=
  takeThrough_isPrefix p l

/-- Every element handed over except the last did not trigger the stop. -/
theorem takeThrough_no_call_after {α : Type} (p : α → Bool) (l : List α) :
    ∀ x ∈ (takeThrough p l).dropLast, p x = false :=
  takeThrough_dropLast p l

/-- In consumer form: every call but the last returned `true`. -/
theorem consumer_true_before_last {α : Type} (f : α → Bool) (l : List α) :
    ∀ x ∈ (takeThrough (fun x => !f x) l).dropLast, f x = true := by
  intro x hx
  simpa using takeThrough_dropLast (fun x => !f x) l x hx

/-- A consumer that never stops sees everything. -/
theorem takeThrough_all {α : Type} (l : List α) : takeThrough (fun _ => false) l = l :=
  takeThrough_false l

/-- If nothing triggers the stop, nothing is cut. -/
theorem takeThrough_of_all_false {α : Type} (p : α → Bool) (l : List α)
    (h : ∀ x ∈ l, p x = false) : takeThrough p l = l :=
  takeThrough_eq_self p l h

example : ∀ x ∈ [1, 2, 3], (fun n : Nat => n == 7) x = false := by decide

/-- If something triggers the stop, the last element handed over did. -/
theorem takeThrough_last_stops {α : Type} (p : α → Bool) (l : List α)
    (h : ∃ x ∈ l, p x = true) : ∃ y, (takeThrough p l).getLast? = some y ∧ p y = true :=
  takeThrough_getLast p l h

example : ∃ x ∈ [1, 2, 3, 2, 5], (fun n : Nat => n == 2) x = true := by decide
example : takeThrough (fun n : Nat => n == 2) [1, 2, 3, 2, 5] = [1, 2] := by decide
example : runIter [1, 2, 3, 2, 5] 3 = [1, 2, 3] := by decide

end Bio

/-! ## 1. Newick `traverse` -/

namespace Bio.Newick

/-- Re-export of `traverse_log` (C19). -/
theorem traverse_early_stop (pre : Bool) (f : Tree → Bool) (t : Tree) :
    traverse pre f t
      = takeThrough (fun x => !f x) (if pre then preRec t else postRec t) :=
  traverse_log pre f t

/-- What an early-stopping consumer saw is a prefix of the full iteration. -/
theorem traverse_prefix (pre : Bool) (f : Tree → Bool) (t : Tree) :
    traverse pre f t <+: (if pre then preOrder t else postOrder t) := by
  rw [traverse_log]
  cases pre
  · simpa [postOrder_eq] using takeThrough_prefix _ _
  · simpa [preOrder_eq] using takeThrough_prefix _ _

theorem traverse_true_before_last (pre : Bool) (f : Tree → Bool) (t : Tree) :
    ∀ x ∈ (traverse pre f t).dropLast, f x = true := by
  rw [traverse_log]; exact consumer_true_before_last f _

end Bio.Newick

/-! ## 2. Trie `ForEach` -/

namespace Bio.Trie

/-- `ForEach` with consumer `f` hands over the leaf paths in edge order, cut
right after the first one on which `f` returns `false`. -/
theorem forEachLog_eq (f : Bytes → Bool) (t : T) :
    forEachLog f t = takeThrough (fun x => !f x) (leaves t) :=
  eachLoop_start f t _ (by omega)

theorem members_eq_leaves (t : T) : members t = leaves t := by
  simp [members, forEachLog_eq, takeThrough_false]

/-- The root (empty path) is never reported. -/
theorem nil_not_mem_leaves (t : T) : [] ∉ leaves t := by
  intro h
  have := leavesFrom_ne_nil [] t [] h
  simp at this

theorem nil_not_mem_forEachLog (f : Bytes → Bool) (t : T) : [] ∉ forEachLog f t := by
  intro h
  rw [forEachLog_eq] at h
  exact nil_not_mem_leaves t ((takeThrough_prefix _ _).subset h)

theorem forEachLog_prefix (f : Bytes → Bool) (t : T) : forEachLog f t <+: members t := by
  rw [forEachLog_eq, members_eq_leaves]; exact takeThrough_prefix _ _

theorem forEachLog_true_before_last (f : Bytes → Bool) (t : T) :
    ∀ x ∈ (forEachLog f t).dropLast, f x = true := by
  rw [forEachLog_eq]; exact consumer_true_before_last f _

/-- The fuel `2 * size + 2` is enough: any larger fuel gives the same log. -/
theorem eachLoop_fuel (f : Bytes → Bool) (t : T) (fuel : Nat) (h : 2 * t.size + 2 ≤ fuel) :
    eachLoop f fuel [(t.isNil, t)] [] = forEachLog f t := by
  rw [forEachLog_eq, eachLoop_start f t fuel (by omega)]

/-- The trie holding "ab", "ac", "d". -/
def exTrie : T := add [100] (add [97, 99] (add [97, 98] .nil))

example : 2 * exTrie.size + 2 ≤ 100 := by decide
example : members exTrie = [[97, 98], [97, 99], [100]] := by decide
example : leaves exTrie = [[97, 98], [97, 99], [100]] := by decide
/-- A consumer that stops at the 2nd member is not called for the 3rd. -/
example : forEachLog (fun s => s != [97, 99]) exTrie = [[97, 98], [97, 99]] := by decide
example : forEachLog (fun _ => false) exTrie = [[97, 98]] := by decide
example : members .nil = [] := by decide

end Bio.Trie

/-! ## 3. Sequtil `CanonicalSubsequences` -/

namespace Bio.Sequtil

theorem canonLoop_eq (f : Bytes → Bool) (seq rc : Bytes) (k i n : Nat) :
    canonLoop f seq rc k i n
      = takeThrough (fun x => !f x) ((List.range n).map fun j => canonItem seq rc k (i + j)) :=
  canonLoop_eq_aux f seq rc k i n

/-- With a consumer, the log is the uninterrupted item list cut right after the
first `false`; it panics (`none`) exactly when the uninterrupted run does. -/
theorem canonicalLog_eq (tbl : List UInt8) (f : Bytes → Bool) (seq : Bytes) (k : Nat) :
    canonicalLog tbl f seq k = (canonical tbl seq k).map (takeThrough (fun x => !f x)) := by
  unfold canonical canonicalLog
  cases revComp tbl [] seq with
  | none => rfl
  | some rc => simp [canonLoop_eq, takeThrough_false]

/-- The uninterrupted run, explicitly. -/
theorem canonical_eq (tbl : List UInt8) (seq : Bytes) (k : Nat) :
    canonical tbl seq k = (revComp tbl [] seq).map fun rc =>
      (List.range (seq.length + 1 - k)).map fun j => canonItem seq rc k j := by
  unfold canonical canonicalLog
  cases revComp tbl [] seq with
  | none => rfl
  | some rc => simp [canonLoop_eq, takeThrough_false]

theorem canonical_length (tbl : List UInt8) (seq : Bytes) (k : Nat) (items : List Bytes)
    (h : canonical tbl seq k = some items) : items.length = seq.length + 1 - k := by
  rw [canonical_eq] at h
  cases hrc : revComp tbl [] seq with
  | none => simp [hrc] at h
  | some rc =>
    simp only [hrc, Option.map_some, Option.some.injEq] at h
    subst h; simp

/-- Hypothesis-free form of `canonical_length`. -/
theorem canonical_length' (tbl : List UInt8) (seq : Bytes) (k : Nat) :
    (canonical tbl seq k).map List.length
      = (revComp tbl [] seq).map fun _ => seq.length + 1 - k := by
  rw [canonical_eq]
  cases revComp tbl [] seq <;> simp

/-- A complement table for `ACGT` only. -/
def exTbl : List UInt8 :=
  (List.range 256).map fun i =>
    if i = 65 then 84 else if i = 67 then 71 else if i = 71 then 67 else if i = 84 then 65 else 0

-- "AACG", k = 2: 3 items; revcomp = "CGTT"
example : canonical exTbl [65, 65, 67, 71] 2 = some [[65, 65], [65, 67], [67, 71]] := by
  decide +kernel
example : canonicalLog exTbl (fun s => s != [65, 67]) [65, 65, 67, 71] 2
    = some [[65, 65], [65, 67]] := by
  decide +kernel
example : canonical exTbl [65, 66] 1 = none := by decide +kernel

end Bio.Sequtil
