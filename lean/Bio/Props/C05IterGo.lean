/-
  C05 / C07 / C11 / C18 (newick), ITERATOR level, for the Go SOURCE TEXT of `Reader`
  (formats/newick/newick.go), as translated on every run, statement by statement, into
  `Bio.Generated.GoSrc.newick_Reader`:

      newick_Reader pf fuel heap r yield : Option (log × heap')

  `pf` stands for `strconv.ParseFloat` (a PARAMETER: arbitrary unless `PFModel pf pd` / `PFNoEof pf` is
  assumed, as in `Bio.Props.C05ReadGo`); `heap` is the list of all `Node` cells allocated so far (a
  `*Node` is an index, `nil` is `-1`); `r` the byte source (bytes, then `io.EOF` or a read error);
  `yield` a HISTORY consumer (asked about all `(pointer, error)` pairs handed to it so far, the current
  one last; NOT asked about the error item, whose verdict the Go code ignores); the result is the LOG of
  the pairs handed over and the FINAL heap; `fuel` bounds the `for { }` loop and every loop of the
  translated `read()` / `nextToken()` it calls (`none` = out of fuel or a panic).

  Vocabulary (`Bio.Lemmas.GoSrcNewickIter`, namespace `NwkIt`):
  `reads pf fuel heap r` = the results of the successive `read()` calls of the UNINTERRUPTED run (each on
  the heap, reader and buffer the previous one handed back, the first result whose error is not `nil` is
  the last: `go_newick_reads` states this chain without reference to the definition);
  `goItems pf fuel heap r = itemsOf (reads …)` = what `Reader` hands over for them — `(p, nil)` for a
  tree, one final `(nil, err)` for an error other than `io.EOF`, nothing for `io.EOF`;
  `readsDone y [] R` = the calls made under the consumer `y`; `lastHeap heap D` = the heap the last call
  of `D` handed back; `absItem H (p, err)` = the item read back in the heap `H` (`absT`, as in C05ReadGo).

  1. `go_newick_reader_log` (+ `go_newick_reader_heap`): with `len(input) + 1` fuel the closure returns
     `(takeThroughH y [] (goItems …), heap after exactly the calls made)`; if the consumer declined a
     tree, the last call made is the one that read it (no further `read()`, no further allocation).
  2. `go_newick_reader_trees`: under `PFModel pf pd` every `(p, nil)` of the log REPRESENTS (`RepT`, hence
     `absT`), in the FINAL heap, the tree at the same position of the hand model's `Newick.decodeSrc`; an
     error item sits where the model's error item sits; the log read back is a prefix of the model's list.
  3. `go_newick_reader_all` / `go_newick_reader_all_trees`: the consumer that never stops.
  4. `go_newick_reader_early_stop`, `go_newick_reader_stop_at` (C18, EVERY history consumer).
  5. `go_newick_reader_error_last`, `go_newick_reader_fail_error` (C07).
  6. `go_newick_reader_no_panic` (C11).
  7. `go_newick_reader_roundtrip`: the translated `MarshalText`, then the translated `Reader`.

  DEVIATIONS from the statements asked for (each with its counterexample below, as `example`s):
  * (5), second half, "with ending `.fail` and the always-true consumer the log ends with an error item"
    is FALSE for an arbitrary `ParseFloat`: with a `ParseFloat` whose error is `io.EOF` (`pfEofEx` of
    C05ReadGo; not a behaviour of the real one) `read()` on `a:x;` returns that `io.EOF` and `Reader`
    stops silently with an EMPTY log although the source would have failed later.  Proved under
    `PFNoEof pf` (`go_newick_reader_fail_error`); the general statement is kept as the `Prop`
    `go_newick_reader_fail_error_full`.  For the same reason (3)/(7)'s "the log read back IS the model's
    list" carries the hypothesis of `C05ReadGo.go_decode`/`go_decode_ok` (`ParseFloat` never errs with
    `io.EOF` where `pd` rejects, or the model's list has no error item); the PREFIX statement of (2) needs
    neither.
  * (2): a consumer of ABSTRACT histories (trees) cannot be expressed at this level: the translated
    consumer sees pointers and has no heap.  The statement is therefore about an arbitrary pointer-level
    consumer, and reads the log back afterwards, in the final heap.
  * the fuel bound `len(input) + 1` is sufficient, and sharp for some inputs only (see the examples).

  Guarded by the translator's `_Found` flags (see `Bio.Lemmas.GoSrc`).
-/
import Bio.Lemmas.GoSrcNewickIter
import Bio.Props.C05ReadGo
import Bio.Props.C05RoundGo
import Bio.Props.C18Hist
set_option linter.unusedVariables false
namespace Bio.Props.C05IterGo
open Bio Bio.GoRt Bio.Generated Bio.GoSrcLemmas Bio.GoSrcLemmas.NwkRd Bio.GoSrcLemmas.NwkIt
  Bio.GoSrcLemmas.NwkWr

/-- every translator flag this file depends on; the non-vacuity examples below are stated as
`allFound = false ∨ …` so that a source the translator no longer recognises is not an alarm -/
def allFound : Bool :=
  GoSrc.newick_Reader_Found && GoSrc.newick_read_Found && GoSrc.newick_nextToken_Found
    && GoSrc.nameFromText_Found && GoSrc.quoted_Found && GoSrc.Node_MarshalText_Found
    && GoSrc.Node_newick_Found && GoSrc.nameToText_Found

/-! ## 0. The calls of the uninterrupted run -/

/-- `reads pf fuel heap r`, without reference to its definition: it is not empty; its first element is
what `read()` returns on the initial heap, the source `r` and the empty buffer; each next element is what
`read()` returns on the heap, reader and buffer of the previous one; exactly the elements before the
last have error `nil` (so: the run goes on after a tree and ends at the first `io.EOF` or error); and
`goItems` maps `resItem` over it, dropping the `io.EOF`. -/
theorem go_newick_reads : GoSrc.newick_Reader_Found = true → GoSrc.newick_read_Found = true →
    GoSrc.newick_nextToken_Found = true → GoSrc.nameFromText_Found = true → GoSrc.quoted_Found = true →
    ∀ (pf : PF) (heap : Heap) (r : ByteRd) (fuel : Nat), r.rest.length + 1 ≤ fuel →
    reads pf fuel heap r ≠ []
    ∧ (reads pf fuel heap r)[0]? = GoSrc.newick_read pf fuel heap r []
    ∧ (∀ (i : Nat) (res res' : Res), (reads pf fuel heap r)[i]? = some res →
        (reads pf fuel heap r)[i + 1]? = some res' →
        GoSrc.newick_read pf fuel res.2.2.1 res.2.2.2.1 res.2.2.2.2 = some res')
    ∧ (∀ (i : Nat) (res : Res), (reads pf fuel heap r)[i]? = some res →
        (res.2.1 = GoErr.nil ↔ i + 1 < (reads pf fuel heap r).length))
    ∧ goItems pf fuel heap r = (reads pf fuel heap r).filterMap fun res =>
        if res.2.1 = GoErr.eof then none
        else if res.2.1 = GoErr.nil then some (res.1, GoErr.nil) else some (-1, res.2.1) := by
  intro hF hR hT hN hQ pf heap r fuel hf
  have hw := (newick_Reader_raw hF hR hT hN hQ pf fuel heap r (fun _ => true) hf).2.1
  have hne : reads pf fuel heap r ≠ [] := by intro hh; rw [hh] at hw; exact hw
  refine ⟨hne, ?_, ?_, fun i res hi => hw.nil_iff i res hi, rfl⟩
  · cases h0 : (reads pf fuel heap r)[0]? with
    | none => simp at h0; exact absurd h0 hne
    | some res => exact ((goReads_chain pf fuel fuel heap r [] 0 res h0).1 rfl).symm
  · intro i res res' hi hi'
    exact ((goReads_chain pf fuel fuel heap r [] i res hi).2 res' hi').2

/-! ## 1. The log and the heap -/

/-- THE LOG.  For an ARBITRARY `ParseFloat`, any initial heap, any source and EVERY history consumer `y`,
with `len(remaining input) + 1` fuel: the closure returns; the log is the item list of the uninterrupted
run cut by `y` (`takeThroughH`: up to and including the first item after which `y` said stop; `y`'s
verdict on the final error item is not asked — and cannot matter, it is the last item); the heap is the
heap after exactly the calls made under `y`, whose items are the log. -/
theorem go_newick_reader_log : GoSrc.newick_Reader_Found = true → GoSrc.newick_read_Found = true →
    GoSrc.newick_nextToken_Found = true → GoSrc.nameFromText_Found = true → GoSrc.quoted_Found = true →
    ∀ (pf : PF) (heap : Heap) (r : ByteRd) (y : List GoItem → Bool) (fuel : Nat), r.rest.length + 1 ≤ fuel →
    GoSrc.newick_Reader pf fuel heap r y
      = some (takeThroughH y [] (goItems pf fuel heap r),
          lastHeap heap (readsDone y [] (reads pf fuel heap r)))
    ∧ takeThroughH y [] (goItems pf fuel heap r) = itemsOf (readsDone y [] (reads pf fuel heap r)) := by
  intro hF hR hT hN hQ pf heap r y fuel hf
  exact (newick_Reader_raw hF hR hT hN hQ pf fuel heap r y hf).2.2

/-- THE HEAP, spelled out.  The calls made `D` are a prefix of the calls of the uninterrupted run; the log
is their items; the final heap is the heap the LAST of them handed back, and it is the initial heap with
cells appended (cells that existed before are never written); if the consumer DECLINED the last item
handed over (a tree), the last call made is the call that read it — no further `read()`, hence no further
allocation — and there were exactly as many calls as items; in general there are as many calls as items,
or one more: the `io.EOF` that ended the uninterrupted run, and then every call was made. -/
theorem go_newick_reader_heap : GoSrc.newick_Reader_Found = true → GoSrc.newick_read_Found = true →
    GoSrc.newick_nextToken_Found = true → GoSrc.nameFromText_Found = true → GoSrc.quoted_Found = true →
    ∀ (pf : PF) (heap : Heap) (r : ByteRd) (y : List GoItem → Bool) (fuel : Nat), r.rest.length + 1 ≤ fuel →
    ∃ (log : List GoItem) (heap' : Heap) (D : List Res),
      GoSrc.newick_Reader pf fuel heap r y = some (log, heap')
      ∧ D <+: reads pf fuel heap r ∧ log = itemsOf D
      ∧ (∃ res, D.getLast? = some res ∧ heap' = res.2.2.1)
      ∧ (∃ ext, heap' = heap ++ ext)
      ∧ (∀ p, log.getLast? = some (p, GoErr.nil) → y log = false →
          ∃ res, D.getLast? = some res ∧ res.1 = p ∧ res.2.1 = GoErr.nil ∧ D.length = log.length)
      ∧ (D.length = log.length
          ∨ (D.length = log.length + 1 ∧ D = reads pf fuel heap r
              ∧ ∃ res, D.getLast? = some res ∧ res.2.1 = GoErr.eof)) := by
  intro hF hR hT hN hQ pf heap r y fuel hf
  obtain ⟨hrep, hw, hrun, hlog⟩ := newick_Reader_raw hF hR hT hN hQ pf fuel heap r y hf
  have hne : reads pf fuel heap r ≠ [] := by intro hh; rw [hh] at hw; exact hw
  have hD := readsDone_ne_nil y (reads pf fuel heap r) [] hne
  have hlen := readsDone_length y (reads pf fuel heap r) [] hw
  refine ⟨_, _, readsDone y [] (reads pf fuel heap r), hrun, readsDone_prefix y _ _, hlog, ?_,
    hrep.ext _ (readsDone_prefix y _ _), ?_, ?_⟩
  · cases hl : (readsDone y [] (reads pf fuel heap r)).getLast? with
    | none => exact absurd (List.getLast?_eq_none_iff.1 hl) hD
    | some res => exact ⟨res, rfl, lastHeap_getLast _ _ _ hl⟩
  · intro p hp hy
    rw [hlog] at hp hy
    obtain ⟨res, h1, h2, h3⟩ := readsDone_declined y _ [] hw p hp (by simpa using hy)
    refine ⟨res, h1, h2, h3, ?_⟩
    rw [hlog]
    rcases hlen with ⟨h4, _⟩ | ⟨_, h5, h6⟩
    · exact h4
    · rw [← h5, h1] at h6
      simp only [Option.map_some, Option.some.injEq] at h6
      rw [h3] at h6; cases h6
  · rw [hlog]
    rcases hlen with ⟨h4, _⟩ | ⟨h4, h5, h6⟩
    · exact Or.inl h4
    · refine Or.inr ⟨h4, h5, ?_⟩
      rw [← h5] at h6
      obtain ⟨res, h7, h8⟩ := Option.map_eq_some_iff.1 h6
      exact ⟨res, h7, h8⟩

/-! ## 2. The trees handed over, in the final heap -/

/-- ABSTRACTION.  Under `PFModel pf pd`, for every input `x`, ending `e`, initial heap, reader history
(`last`) and EVERY pointer-level history consumer `y`, with `len x + 1` fuel: the closure returns a log
(the item list of the uninterrupted run cut by `y`) and a final heap `heap'` (the initial heap with cells
appended) such that, position by position against the hand model's `Newick.decodeSrc pd e x`:
every `(p, nil)` of the log REPRESENTS the model's tree at that position in `heap'` (`RepT`: own cells, no
sharing, no cycle) and reads back as it (`absT`) — the calls made AFTER `p` was handed over only appended
cells (`go_read_preserves`), the consumer owns what it was handed; an error item sits where the model's
(last) item is its error item; and the whole log, read back in `heap'`, is a prefix of the model's list. -/
theorem go_newick_reader_trees : GoSrc.newick_Reader_Found = true → GoSrc.newick_read_Found = true →
    GoSrc.newick_nextToken_Found = true → GoSrc.nameFromText_Found = true → GoSrc.quoted_Found = true →
    ∀ (pf : PF) (pd : Bytes → Option Newick.Dist), PFModel pf pd →
    ∀ (x : Bytes) (e : Ending) (last : Option UInt8) (heap : Heap) (y : List GoItem → Bool) (fuel : Nat),
    x.length + 1 ≤ fuel →
    ∃ (log : List GoItem) (heap' : Heap),
      GoSrc.newick_Reader pf fuel heap ⟨last, x, e⟩ y = some (log, heap')
      ∧ log = takeThroughH y [] (goItems pf fuel heap ⟨last, x, e⟩)
      ∧ (∃ ext, heap' = heap ++ ext)
      ∧ (∀ (i : Nat) (p : Int) (err : GoErr), log[i]? = some (p, err) →
          (err = GoErr.nil → ∃ t, (Newick.decodeSrc pd e x)[i]? = some (Item.ok t) ∧ RepT heap' p t
            ∧ absT heap' heap'.length p = t)
          ∧ (err ≠ GoErr.nil → (Newick.decodeSrc pd e x)[i]? = some Item.err
            ∧ (Newick.decodeSrc pd e x).length = i + 1))
      ∧ log.map (absItem heap') <+: Newick.decodeSrc pd e x := by
  intro hF hR hT hN hQ pf pd hpf x e last heap y fuel hf
  obtain ⟨hrep0, hw, hrun, hlog⟩ := newick_Reader_raw hF hR hT hN hQ pf fuel heap ⟨last, x, e⟩ y hf
  have hrep := reads_rep hR hT hN hQ hpf fuel heap last x e hf
  have hidx : ∀ (i : Nat) (p : Int) (err : GoErr),
      (takeThroughH y [] (goItems pf fuel heap ⟨last, x, e⟩))[i]? = some (p, err) →
      (err = GoErr.nil → ∃ t, (Newick.decodeSrc pd e x)[i]? = some (Item.ok t)
        ∧ RepT (lastHeap heap (readsDone y [] (reads pf fuel heap ⟨last, x, e⟩))) p t
        ∧ absT (lastHeap heap (readsDone y [] (reads pf fuel heap ⟨last, x, e⟩)))
            (lastHeap heap (readsDone y [] (reads pf fuel heap ⟨last, x, e⟩))).length p = t)
      ∧ (err ≠ GoErr.nil → (Newick.decodeSrc pd e x)[i]? = some Item.err
        ∧ (Newick.decodeSrc pd e x).length = i + 1) := by
    intro i p err hi
    rw [hlog] at hi
    have := log_rep y _ heap _ [] hrep i p err hi
    refine ⟨fun he => ?_, this.2⟩
    obtain ⟨t, h1, h2⟩ := this.1 he
    have hb := nwk_idx_some h2.choose_spec.1
    unfold len at hb
    exact ⟨t, h1, h2, absT_of_RepT h2 _ (by omega) (by omega)⟩
  refine ⟨_, _, hrun, rfl, hrep.ext _ (readsDone_prefix y _ _), hidx, ?_⟩
  apply map_prefix_of_getElem
  rintro i ⟨p, err⟩ hi
  have := hidx i p err hi
  by_cases he : err = GoErr.nil
  · obtain ⟨t, h1, _, h3⟩ := this.1 he
    rw [h1]; simp [absItem, he, h3]
  · rw [(this.2 he).1]; simp [absItem, he]

/-! ## 3. The consumer that never stops -/

/-- With the consumer that never stops (arbitrary `ParseFloat`): the log is ALL of the item list of the
uninterrupted run, the heap is the heap after all its calls. -/
theorem go_newick_reader_all : GoSrc.newick_Reader_Found = true → GoSrc.newick_read_Found = true →
    GoSrc.newick_nextToken_Found = true → GoSrc.nameFromText_Found = true → GoSrc.quoted_Found = true →
    ∀ (pf : PF) (heap : Heap) (r : ByteRd) (fuel : Nat), r.rest.length + 1 ≤ fuel →
    GoSrc.newick_Reader pf fuel heap r (fun _ => true)
      = some (goItems pf fuel heap r, lastHeap heap (reads pf fuel heap r)) := by
  intro hF hR hT hN hQ pf heap r fuel hf
  obtain ⟨_, hw, hrun, _⟩ := newick_Reader_raw hF hR hT hN hQ pf fuel heap r (fun _ => true) hf
  rw [hrun, readsDone_true _ _ hw, IterH.takeThroughH_true]
  rfl

/-- … and under `PFModel pf pd`, when `ParseFloat` never errs with `io.EOF` where `pd` rejects (e.g.
`PFNoEof pf`) or the model's list has no error item (the hypothesis of `C05ReadGo.go_decode` /
`go_decode_ok`): the log, read back in the final heap, IS the model's `Newick.decodeSrc pd e x` — what the
model closure `IterH.newickReaderH` logs for the consumer that never stops. -/
theorem go_newick_reader_all_trees : GoSrc.newick_Reader_Found = true → GoSrc.newick_read_Found = true →
    GoSrc.newick_nextToken_Found = true → GoSrc.nameFromText_Found = true → GoSrc.quoted_Found = true →
    ∀ (pf : PF) (pd : Bytes → Option Newick.Dist), PFModel pf pd →
    ∀ (x : Bytes) (e : Ending) (last : Option UInt8) (heap : Heap) (fuel : Nat), x.length + 1 ≤ fuel →
    ((∀ s, pd s = none → (pf s 64).2 ≠ GoErr.eof) ∨ Item.err ∉ Newick.decodeSrc pd e x) →
    ∃ (log : List GoItem) (heap' : Heap),
      GoSrc.newick_Reader pf fuel heap ⟨last, x, e⟩ (fun _ => true) = some (log, heap')
      ∧ log.map (absItem heap') = Newick.decodeSrc pd e x
      ∧ log.map (absItem heap') = IterH.newickReaderH pd e x (fun _ => true)
      ∧ (∀ (i : Nat) (p : Int) (err : GoErr), log[i]? = some (p, err) →
          (err = GoErr.nil → ∃ t, (Newick.decodeSrc pd e x)[i]? = some (Item.ok t) ∧ RepT heap' p t)
          ∧ (err ≠ GoErr.nil → (Newick.decodeSrc pd e x)[i]? = some Item.err)) := by
  intro hF hR hT hN hQ pf pd hpf x e last heap fuel hf hH
  obtain ⟨log, heap', h1, h2, _, h4, h5⟩ :=
    go_newick_reader_trees hF hR hT hN hQ pf pd hpf x e last heap (fun _ => true) fuel hf
  have hlen : log.length = (Newick.decodeSrc pd e x).length := by
    rw [h2, IterH.takeThroughH_true, List.nil_append]
    exact goItems_length hR hT hN hQ hpf fuel heap last x e hf hH
  have heq : log.map (absItem heap') = Newick.decodeSrc pd e x :=
    h5.eq_of_length (by rw [List.length_map, hlen])
  refine ⟨log, heap', h1, heq, ?_, fun i p err hi => ?_⟩
  · rw [heq, C18Hist.newickReaderH_log, IterH.takeThroughH_true, List.nil_append]
  · have := h4 i p err hi
    exact ⟨fun he => (this.1 he).imp fun t ht => ⟨ht.1, ht.2.1⟩, fun he => (this.2 he).1⟩

/-! ## 4. Early stop (C18) -/

/-- For an ARBITRARY `ParseFloat` and EVERY history consumer `y` (it may keep state): (a) the log is a
prefix of the item list of the uninterrupted run; (b) `y` answered `true` on every proper prefix history;
(c) an item after which `y` answered `false` is the LAST one: nothing is handed over after the consumer
declined (a consumer that declines at the `k`-th item sees exactly `k` items). -/
theorem go_newick_reader_early_stop : GoSrc.newick_Reader_Found = true → GoSrc.newick_read_Found = true →
    GoSrc.newick_nextToken_Found = true → GoSrc.nameFromText_Found = true → GoSrc.quoted_Found = true →
    ∀ (pf : PF) (heap : Heap) (r : ByteRd) (y : List GoItem → Bool) (fuel : Nat), r.rest.length + 1 ≤ fuel →
    ∃ (log : List GoItem) (heap' : Heap), GoSrc.newick_Reader pf fuel heap r y = some (log, heap')
      ∧ log <+: goItems pf fuel heap r
      ∧ (∀ i, i + 1 < log.length → y (log.take (i + 1)) = true)
      ∧ (∀ i, i < log.length → y (log.take (i + 1)) = false → i + 1 = log.length) := by
  intro hF hR hT hN hQ pf heap r y fuel hf
  exact ⟨_, _, (go_newick_reader_log hF hR hT hN hQ pf heap r y fuel hf).1, takeThroughH_prefix _ _,
    takeThroughH_go_on _ _, takeThroughH_stop _ _⟩

/-- (c), concretely: the consumer "stop at the `k`-th item" (`1 ≤ k`) is handed exactly the first `k` items
of the uninterrupted run (all of them if there are fewer), and the final heap is the heap after the first
`k` calls: the cells of the trees not asked for are never allocated. -/
theorem go_newick_reader_stop_at : GoSrc.newick_Reader_Found = true → GoSrc.newick_read_Found = true →
    GoSrc.newick_nextToken_Found = true → GoSrc.nameFromText_Found = true → GoSrc.quoted_Found = true →
    ∀ (pf : PF) (heap : Heap) (r : ByteRd) (fuel : Nat), r.rest.length + 1 ≤ fuel →
    ∀ (k : Nat), 1 ≤ k →
    GoSrc.newick_Reader pf fuel heap r (fun l => decide (l.length < k))
      = some ((goItems pf fuel heap r).take k, lastHeap heap ((reads pf fuel heap r).take k)) := by
  intro hF hR hT hN hQ pf heap r fuel hf k hk
  obtain ⟨_, hw, hrun, _⟩ :=
    newick_Reader_raw hF hR hT hN hQ pf fuel heap r (fun l => decide (l.length < k)) hf
  rw [hrun, takeThroughH_count k _ [] (by simp; omega), readsDone_count k _ [] hw (by simp; omega)]
  simp

/-! ## 5. Errors (C07) -/

/-- For an ARBITRARY `ParseFloat` and EVERY consumer: an error item of the log is its LAST item, its
pointer is `nil`, its error is not `io.EOF` (and of course not `nil`); so there is at most one. -/
theorem go_newick_reader_error_last : GoSrc.newick_Reader_Found = true → GoSrc.newick_read_Found = true →
    GoSrc.newick_nextToken_Found = true → GoSrc.nameFromText_Found = true → GoSrc.quoted_Found = true →
    ∀ (pf : PF) (heap : Heap) (r : ByteRd) (y : List GoItem → Bool) (fuel : Nat), r.rest.length + 1 ≤ fuel →
    ∃ (log : List GoItem) (heap' : Heap), GoSrc.newick_Reader pf fuel heap r y = some (log, heap')
      ∧ (∀ (i : Nat) (p : Int) (err : GoErr), log[i]? = some (p, err) → err ≠ GoErr.nil →
          i + 1 = log.length ∧ p = -1 ∧ err ≠ GoErr.eof)
      ∧ (∀ (i j : Nat) (p q : Int) (e₁ e₂ : GoErr), log[i]? = some (p, e₁) → log[j]? = some (q, e₂) →
          e₁ ≠ GoErr.nil → e₂ ≠ GoErr.nil → i = j) := by
  intro hF hR hT hN hQ pf heap r y fuel hf
  obtain ⟨_, hw, hrun, _⟩ := newick_Reader_raw hF hR hT hN hQ pf fuel heap r y hf
  have hpre : takeThroughH y [] (goItems pf fuel heap r) <+: goItems pf fuel heap r :=
    takeThroughH_prefix _ _
  have key : ∀ (i : Nat) (p : Int) (err : GoErr),
      (takeThroughH y [] (goItems pf fuel heap r))[i]? = some (p, err) → err ≠ GoErr.nil →
      i + 1 = (takeThroughH y [] (goItems pf fuel heap r)).length ∧ p = -1 ∧ err ≠ GoErr.eof := by
    intro i p err hi he
    have hi' : (goItems pf fuel heap r)[i]? = some (p, err) := by
      obtain ⟨t, ht⟩ := hpre
      rw [← ht, List.getElem?_append_left (by
        rcases Nat.lt_or_ge i (takeThroughH y [] (goItems pf fuel heap r)).length with h | h
        · exact h
        · rw [List.getElem?_eq_none h] at hi; cases hi)]
      exact hi
    have h1 := itemsOf_err_last _ hw i p err hi' he
    have h2 : i < (takeThroughH y [] (goItems pf fuel heap r)).length := by
      rcases Nat.lt_or_ge i (takeThroughH y [] (goItems pf fuel heap r)).length with h | h
      · exact h
      · rw [List.getElem?_eq_none h] at hi; cases hi
    have h3 := hpre.length_le
    refine ⟨?_, h1.2, mem_itemsOf_ne_eof (List.mem_of_getElem? hi')⟩
    have : i + 1 = (goItems pf fuel heap r).length := h1.1
    omega
  refine ⟨_, _, hrun, key, fun i j p q e₁ e₂ hi hj h1 h2 => ?_⟩
  have := (key i p e₁ hi h1).1
  have := (key j q e₂ hj h2).1
  omega

/-- FALSE for an arbitrary `ParseFloat` (counterexample at the end: `pfEofEx` on `a:x;`): "on a source
that FAILS, the consumer that never stops is handed a final error item"; kept as a `Prop` only. -/
def go_newick_reader_fail_error_full : Prop :=
  ∀ (pf : PF) (heap : Heap) (last : Option UInt8) (x : Bytes) (fuel : Nat), x.length + 1 ≤ fuel →
  ∃ (log : List GoItem) (heap' : Heap) (err : GoErr),
    GoSrc.newick_Reader pf fuel heap ⟨last, x, .fail⟩ (fun _ => true) = some (log, heap')
    ∧ log.getLast? = some (-1, err) ∧ err ≠ GoErr.nil

/-- C07.  When `ParseFloat` never returns `io.EOF` as its error (`PFNoEof pf`: the real one returns
`*strconv.NumError`s): on a source that FAILS after the bytes `x` — whatever `x` — the consumer that never
stops is handed a FINAL ERROR ITEM `(nil, err)`, `err` neither `nil` nor `io.EOF`. -/
theorem go_newick_reader_fail_error : GoSrc.newick_Reader_Found = true → GoSrc.newick_read_Found = true →
    GoSrc.newick_nextToken_Found = true → GoSrc.nameFromText_Found = true → GoSrc.quoted_Found = true →
    ∀ (pf : PF), PFNoEof pf →
    ∀ (heap : Heap) (last : Option UInt8) (x : Bytes) (fuel : Nat), x.length + 1 ≤ fuel →
    ∃ (log : List GoItem) (heap' : Heap) (err : GoErr),
      GoSrc.newick_Reader pf fuel heap ⟨last, x, .fail⟩ (fun _ => true) = some (log, heap')
      ∧ log.getLast? = some (-1, err) ∧ err ≠ GoErr.nil ∧ err ≠ GoErr.eof := by
  intro hF hR hT hN hQ pf hne heap last x fuel hf
  obtain ⟨hrep, hw, _, _⟩ :=
    newick_Reader_raw hF hR hT hN hQ pf fuel heap ⟨last, x, .fail⟩ (fun _ => true) hf
  have hm : Item.err ∈ Newick.decodeSrc (pdOf pf) .fail x :=
    List.mem_of_getLast? (Newick.fail_getLast (pdOf pf) x)
  have hl := last_not_eof _ _ _ hrep (fun s _ => hne s) hm
  obtain ⟨err, h1, h2, h3⟩ := itemsOf_getLast_err _ hw hl
  exact ⟨_, _, err, go_newick_reader_all hF hR hT hN hQ pf heap ⟨last, x, .fail⟩ fuel hf, h1, h2, h3⟩

/-! ## 6. No panic (C11) -/

/-- For EVERY `ParseFloat`, initial heap, source and consumer, with `len(remaining input) + 1` fuel the
closure returns: no index out of range in `read()`, `panic("unexpected state")` unreachable, every loop
ends within the fuel. -/
theorem go_newick_reader_no_panic : GoSrc.newick_Reader_Found = true → GoSrc.newick_read_Found = true →
    GoSrc.newick_nextToken_Found = true → GoSrc.nameFromText_Found = true → GoSrc.quoted_Found = true →
    ∀ (pf : PF) (heap : Heap) (r : ByteRd) (y : List GoItem → Bool) (fuel : Nat), r.rest.length + 1 ≤ fuel →
    GoSrc.newick_Reader pf fuel heap r y ≠ none := by
  intro hF hR hT hN hQ pf heap r y fuel hf
  rw [(go_newick_reader_log hF hR hT hN hQ pf heap r y fuel hf).1]
  simp

/-! ## 7. Write, then read -/

/-- The trees `ts` (every distance a clean token that `pd` parses to itself: `DistOK pd`), each written by
the translated `(*Node).MarshalText` (`FFModel ff`: `%v` prints the canonical token), the texts joined
(as in `C05ReadGo.go_roundtrip_trees`), read by the translated `Reader` (`PFModel pf pd`) from ANY initial
heap with the consumer that never stops: no write error; one `(p, nil)` per tree, no error item; the `i`-th
pointer represents `ts[i]` in the final heap; the log read back is exactly `ts`. -/
theorem go_newick_reader_roundtrip : GoSrc.Node_MarshalText_Found = true → GoSrc.Node_newick_Found = true →
    GoSrc.nameToText_Found = true →
    GoSrc.newick_Reader_Found = true → GoSrc.newick_read_Found = true →
    GoSrc.newick_nextToken_Found = true → GoSrc.nameFromText_Found = true → GoSrc.quoted_Found = true →
    ∀ (ff : Newick.Dist → Bytes), FFModel ff →
    ∀ (pf : PF) (pd : Bytes → Option Newick.Dist), PFModel pf pd →
    ∀ (ts : List Newick.Tree), (∀ t ∈ ts, t.AllDist (Newick.DistOK pd)) →
    ∀ (fuelW fuelR : Nat), (∀ t ∈ ts, depth t + 1 ≤ fuelW) →
      ((ts.map (Newick.write Generated.newickQuoteBytes)).flatten).length + 1 ≤ fuelR →
    ∀ (heap : Heap) (last : Option UInt8),
    ∃ (txts : List Bytes),
      ts.map (GoSrc.Node_MarshalText ff fuelW) = txts.map (fun b => some (b, GoErr.nil))
      ∧ ∃ (log : List GoItem) (heap' : Heap),
        GoSrc.newick_Reader pf fuelR heap ⟨last, txts.flatten, .eof⟩ (fun _ => true) = some (log, heap')
        ∧ log.map (absItem heap') = ts.map Item.ok
        ∧ log.length = ts.length
        ∧ (∀ (i : Nat) (p : Int) (err : GoErr), log[i]? = some (p, err) →
            err = GoErr.nil ∧ ∃ t, ts[i]? = some t ∧ RepT heap' p t) := by
  intro hM hW hNT hF hR hT hN hQ ff hff pf pd hpf ts hts fuelW fuelR hfw hfr heap last
  refine ⟨ts.map (Newick.write Generated.newickQuoteBytes), ?_, ?_⟩
  · rw [List.map_map]
    apply List.map_congr_left
    intro t ht
    exact C05WriteGo.go_MarshalText hM hW hNT ff hff t fuelW (hfw t ht)
  · have hm : Newick.decodeSrc pd .eof ((ts.map (Newick.write Generated.newickQuoteBytes)).flatten)
        = ts.map Item.ok := Newick.forest_roundtrip _ pd Newick.generated_quoteSet_ok ts hts
    obtain ⟨log, heap', h1, h2, _, h4⟩ := go_newick_reader_all_trees hF hR hT hN hQ pf pd hpf
      ((ts.map (Newick.write Generated.newickQuoteBytes)).flatten) .eof last heap fuelR hfr
      (Or.inr (by rw [hm]; simp))
    rw [hm] at h2 h4
    refine ⟨log, heap', h1, h2, ?_, fun i p err hi => ?_⟩
    · have := congrArg List.length h2
      simpa using this
    · have := h4 i p err hi
      by_cases he : err = GoErr.nil
      · obtain ⟨t, h5, h6⟩ := this.1 he
        refine ⟨he, t, ?_, h6⟩
        rw [List.getElem?_map] at h5
        cases hti : ts[i]? with
        | none => rw [hti] at h5; cases h5
        | some t' => rw [hti] at h5; simp at h5; rw [h5]
      · have := this.2 he
        rw [List.getElem?_map] at this
        cases hti : ts[i]? <;> rw [hti] at this <;> simp at this

/-! ## Non-vacuity: the hypotheses -/

open Bio.Props.C05ReadGo in
-- the flags; `PFModel` / `PFNoEof` for the `ParseFloat` built from a model parser (C05ReadGo's `pdEx2`:
-- accepts exactly `1.5` and `2`); `PFModel` always holds for the parser a given `ParseFloat` induces
example : allFound = false ∨ (GoSrc.newick_Reader_Found = true ∧ GoSrc.newick_read_Found = true ∧
    GoSrc.newick_nextToken_Found = true ∧ GoSrc.nameFromText_Found = true ∧ GoSrc.quoted_Found = true ∧
    GoSrc.Node_MarshalText_Found = true ∧ GoSrc.Node_newick_Found = true ∧ GoSrc.nameToText_Found = true) := by
  decide
example : PFModel (pfOf C05ReadGo.pdEx2) C05ReadGo.pdEx2 ∧ PFNoEof (pfOf C05ReadGo.pdEx2) :=
  ⟨pfModel_pfOf _, pfNoEof_pfOf _⟩
example (pf : PF) : PFModel pf (pdOf pf) := pfModel_pdOf pf

/-- `(a,b)c;(d)e;` -/
def exIn : Bytes := [40, 97, 44, 98, 41, 99, 59, 40, 100, 41, 101, 59]
/-- `(a,b)c;(d;` : the second tree is malformed (`;` inside the parentheses) -/
def exBad : Bytes := [40, 97, 44, 98, 41, 99, 59, 40, 100, 59]
/-- `(a,b)c;` -/
def exOne : Bytes := [40, 97, 44, 98, 41, 99, 59]
/-- the sample `ParseFloat` -/
def exPf : PF := pfOf C05ReadGo.pdEx2

-- the fuel hypotheses of the runs below, and the alternative hypothesis of `go_newick_reader_all_trees`
-- (both alternatives hold here)
example : (⟨none, exIn, .eof⟩ : ByteRd).rest.length + 1 ≤ 13 ∧ exBad.length + 1 ≤ 11 ∧ exOne.length + 1 ≤ 8 := by
  decide
example : (∀ s, C05ReadGo.pdEx2 s = none → (exPf s 64).2 ≠ GoErr.eof)
    ∧ Item.err ∉ Newick.decodeSrc C05ReadGo.pdEx2 .eof exIn :=
  ⟨fun s _ => pfNoEof_pfOf _ s, by decide +kernel⟩

/-! ## Concrete runs of the translated closure (item 8) -/

-- (instance search needs a larger budget than the default for `DecidableEq` of the nested result type)
set_option synthInstance.maxSize 4096

-- `(a,b)c;(d)e;` read completely from the empty heap: TWO items, the pointers 0 and 3; the first
-- `read()` allocated the cells 0..2 (`c` with children [1, 2], `a`, `b`), the second 3..4 (`e` with child
-- [4], `d`), the third — which met `io.EOF`, no item — one unused cell
example : allFound = false ∨
    GoSrc.newick_Reader exPf 13 [] ⟨none, exIn, .eof⟩ (fun _ => true)
      = some ([(0, GoErr.nil), (3, GoErr.nil)],
          [([99], none, [1, 2]), ([97], none, []), ([98], none, []), ([101], none, [4]), ([100], none, []),
           ([], none, [])]) := by
  decide +kernel

-- the calls of that uninterrupted run (`reads`): tree, tree, `io.EOF`; its items
example : allFound = false ∨ (
    reads exPf 13 [] ⟨none, exIn, .eof⟩
      = [(0, GoErr.nil, [([99], none, [1, 2]), ([97], none, []), ([98], none, [])],
            ⟨some 59, [40, 100, 41, 101, 59], .eof⟩, []),
         (3, GoErr.nil,
            [([99], none, [1, 2]), ([97], none, []), ([98], none, []), ([101], none, [4]), ([100], none, [])],
            ⟨some 59, [], .eof⟩, []),
         (-1, GoErr.eof,
            [([99], none, [1, 2]), ([97], none, []), ([98], none, []), ([101], none, [4]), ([100], none, []),
             ([], none, [])], ⟨none, [], .eof⟩, [])]
    ∧ goItems exPf 13 [] ⟨none, exIn, .eof⟩ = [(0, GoErr.nil), (3, GoErr.nil)]) := by
  decide +kernel

-- … the log read back in the FINAL heap is the hand model's decode of the input (`(a,b)c` and `(d)e`)
example : allFound = false ∨ (
    ((GoSrc.newick_Reader exPf 13 [] ⟨none, exIn, .eof⟩ (fun _ => true)).map fun p => p.1.map (absItem p.2))
      = some [Item.ok ⟨[99], none, .cons [97] none .nil (.cons [98] none .nil .nil)⟩,
              Item.ok ⟨[101], none, .cons [100] none .nil .nil⟩]
    ∧ Newick.decodeSrc C05ReadGo.pdEx2 .eof exIn
      = [Item.ok ⟨[99], none, .cons [97] none .nil (.cons [98] none .nil .nil)⟩,
         Item.ok ⟨[101], none, .cons [100] none .nil .nil⟩]) := by
  decide +kernel

-- the same input, the consumer stops after the FIRST item: one item, and the heap holds only the first
-- tree's cells (no second `read()`); an instance of the hypotheses of the "declined" clause of
-- `go_newick_reader_heap` and of (b)/(c) of `go_newick_reader_early_stop`
example : allFound = false ∨ (
    GoSrc.newick_Reader exPf 13 [] ⟨none, exIn, .eof⟩ (fun l => decide (l.length < 1))
      = some ([(0, GoErr.nil)], [([99], none, [1, 2]), ([97], none, []), ([98], none, [])])
    ∧ GoSrc.newick_Reader exPf 13 [] ⟨none, exIn, .eof⟩ (fun _ => false)
      = some ([(0, GoErr.nil)], [([99], none, [1, 2]), ([97], none, []), ([98], none, [])])
    ∧ ([(0, GoErr.nil)] : List GoItem).getLast? = some (0, GoErr.nil)
    ∧ (fun l : List GoItem => decide (l.length < 1)) [(0, GoErr.nil)] = false
    ∧ (0 : Nat) < ([(0, GoErr.nil)] : List GoItem).length
    ∧ (fun l : List GoItem => decide (l.length < 1)) (([(0, GoErr.nil)] : List GoItem).take (0 + 1)) = false) := by
  decide +kernel

-- stopping at the second item: both trees, but the third `read()` (the `io.EOF`, one more cell) is not made;
-- a consumer WITH state ("stop when the pointer just handed over is 3"); into a NON-EMPTY heap with a reader
-- that has a byte to unread: the old cell is untouched, the pointers are shifted
example : allFound = false ∨ (
    GoSrc.newick_Reader exPf 13 [] ⟨none, exIn, .eof⟩ (fun l => decide (l.length < 2))
      = some ([(0, GoErr.nil), (3, GoErr.nil)],
          [([99], none, [1, 2]), ([97], none, []), ([98], none, []), ([101], none, [4]), ([100], none, [])])
    ∧ GoSrc.newick_Reader exPf 13 [] ⟨none, exIn, .eof⟩ (fun l => l.getLast? != some (3, GoErr.nil))
      = some ([(0, GoErr.nil), (3, GoErr.nil)],
          [([99], none, [1, 2]), ([97], none, []), ([98], none, []), ([101], none, [4]), ([100], none, [])])
    ∧ GoSrc.newick_Reader exPf 8 [([7], none, [])] ⟨some 3, exOne, .eof⟩ (fun _ => true)
      = some ([(1, GoErr.nil)],
          [([7], none, []), ([99], none, [2, 3]), ([97], none, []), ([98], none, []), ([], none, [])])) := by
  decide +kernel

-- a MALFORMED second tree `(d;`: the first tree, then ONE final error item `(nil, err)`; the consumer's
-- verdict on it is not asked: "at most two items" and "never stop" log the same; "stop at once" stops before
example : allFound = false ∨ (
    GoSrc.newick_Reader exPf 11 [] ⟨none, exBad, .eof⟩ (fun _ => true)
      = some ([(0, GoErr.nil), (-1, GoErr.other)],
          [([99], none, [1, 2]), ([97], none, []), ([98], none, []), ([], none, [4]), ([100], none, [])])
    ∧ GoSrc.newick_Reader exPf 11 [] ⟨none, exBad, .eof⟩ (fun l => decide (l.length < 2))
      = GoSrc.newick_Reader exPf 11 [] ⟨none, exBad, .eof⟩ (fun _ => true)
    ∧ GoSrc.newick_Reader exPf 11 [] ⟨none, exBad, .eof⟩ (fun _ => false)
      = some ([(0, GoErr.nil)], [([99], none, [1, 2]), ([97], none, []), ([98], none, [])])
    ∧ Newick.decodeSrc C05ReadGo.pdEx2 .eof exBad
      = [Item.ok ⟨[99], none, .cons [97] none .nil (.cons [98] none .nil .nil)⟩, Item.err]
    -- an error first: the only item, whatever the consumer says
    ∧ GoSrc.newick_Reader exPf 4 [] ⟨none, [40, 100, 59], .eof⟩ (fun _ => false)
      = some ([(-1, GoErr.other)], [([], none, [1]), ([100], none, [])])) := by
  decide +kernel

-- a source that FAILS after `(a,b)c;`: the tree, then the final error item (C07)
example : allFound = false ∨ (
    GoSrc.newick_Reader exPf 8 [] ⟨none, exOne, .fail⟩ (fun _ => true)
      = some ([(0, GoErr.nil), (-1, GoErr.other)],
          [([99], none, [1, 2]), ([97], none, []), ([98], none, []), ([], none, [])])
    ∧ Newick.decodeSrc C05ReadGo.pdEx2 .fail exOne
      = [Item.ok ⟨[99], none, .cons [97] none .nil (.cons [98] none .nil .nil)⟩, Item.err]
    -- the empty input: nothing at `io.EOF`, the error item at a read error
    ∧ GoSrc.newick_Reader exPf 1 [] ⟨none, [], .eof⟩ (fun _ => true) = some ([], [([], none, [])])
    ∧ GoSrc.newick_Reader exPf 1 [] ⟨none, [], .fail⟩ (fun _ => true)
      = some ([(-1, GoErr.other)], [([], none, [])])) := by
  decide +kernel

-- `PFNoEof` is needed in `go_newick_reader_fail_error` (`go_newick_reader_fail_error_full` is false): with
-- C05ReadGo's `pfEofEx`, whose error is `io.EOF`, on `a:x;` from a FAILING source the log is EMPTY
example : allFound = false ∨ (
    GoSrc.newick_Reader C05ReadGo.pfEofEx 5 [] ⟨none, [97, 58, 120, 59], .fail⟩ (fun _ => true)
      = some ([], [([97], none, [])])
    ∧ Newick.decodeSrc C05ReadGo.pdEx2 .fail [97, 58, 120, 59] = [Item.err]) := by
  decide +kernel

-- the fuel bound: `len + 1` is enough, and for some inputs one less is not (a name running to the end);
-- for others much less is (every `read()` needs only its own tree's bytes)
example : allFound = false ∨ (
    GoSrc.newick_Reader exPf 3 [] ⟨none, [97, 98], .eof⟩ (fun _ => true)
      = some ([(-1, GoErr.other)], [([97, 98], none, [])])
    ∧ GoSrc.newick_Reader exPf 2 [] ⟨none, [97, 98], .eof⟩ (fun _ => true) = none
    ∧ GoSrc.newick_Reader exPf 7 [] ⟨none, exIn, .eof⟩ (fun _ => true)
      = GoSrc.newick_Reader exPf 13 [] ⟨none, exIn, .eof⟩ (fun _ => true)) := by
  decide +kernel

-- an absurd `ParseFloat` (every token "parses", to the same value): the closure still returns
example : allFound = false ∨
    GoSrc.newick_Reader (fun _ _ => (some [63], GoErr.nil)) 8 [] ⟨none, [97, 58, 59, 98, 58, 120, 59], .eof⟩
        (fun _ => true)
      = some ([(-1, GoErr.other)], [([97], none, [])]) := by
  decide +kernel

/-! ## Non-vacuity of the round trip -/

-- C05's sample tree `((A:1,'b (c)''\n',):2.5,,(x_y)inner)root:1;` (depth 3 at most), an empty node and the
-- sample again; C05WriteGo's `%v`; C05's sample distance parser (accepts `1` and `2.5`)
example : FFModel C05WriteGo.ffEx ∧ PFModel (pfOf Newick.pdEx) Newick.pdEx
    ∧ (∀ t ∈ [Newick.exTree, ⟨[], none, .nil⟩, Newick.exTree], t.AllDist (Newick.DistOK Newick.pdEx))
    ∧ (∀ t ∈ [Newick.exTree, ⟨[], none, .nil⟩, Newick.exTree], depth t + 1 ≤ 4)
    ∧ (([Newick.exTree, ⟨[], none, .nil⟩, Newick.exTree].map
          (Newick.write Generated.newickQuoteBytes)).flatten).length + 1 ≤ 90 :=
  ⟨fun _ => rfl, pfModel_pfOf _, by decide, by decide, by decide +kernel⟩

-- written by the translated `MarshalText`, read by the translated `Reader` into a non-empty heap: three
-- pointers, no error; read back in the final heap: the three trees
example : allFound = false ∨ (
    ((GoSrc.newick_Reader (pfOf Newick.pdEx) 90 [([7], none, [])]
        ⟨none, (([Newick.exTree, ⟨[], none, .nil⟩, Newick.exTree].map fun t =>
            ((GoSrc.Node_MarshalText C05WriteGo.ffEx 4 t).map (·.1)).getD []).flatten), .eof⟩
        (fun _ => true)).map fun p => (p.1.map (·.2), p.1.map (absItem p.2)))
      = some ([GoErr.nil, GoErr.nil, GoErr.nil],
          [Item.ok Newick.exTree, Item.ok ⟨[], none, .nil⟩, Item.ok Newick.exTree])) := by
  decide +kernel

end Bio.Props.C05IterGo
