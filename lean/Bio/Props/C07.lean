/-
  Property C07 — failing streams and failing writers.

  Part 1 (readers).  `decodeSrc … .fail y` is the model of a reader whose source delivers the
  bytes `y` and then returns a non-EOF error.  For every format:
  * `C07_X_fault_prefix`: for the writer's output `x` on well-formed records and EVERY offset
    `k`, the items delivered from `x.take k` are leading records of the fault-free decode,
    followed by exactly one error — never a record made from a cut line / cut tree.
    (FASTA: for every byte string `x`, not only writer output.)
  * `C07_X_ends_in_err`: for ARBITRARY bytes the item list ends with an error: a failing
    source is never reported as though the data were complete.  The item list is a finite
    `List` by construction: after the error item nothing follows (`err_only_last` in C01–C05),
    so a source that keeps failing forever yields the same items.

  Part 2 (writers).  `runWriter k calls` (defined in `Bio/Lemmas/Cross.lean`) is a writer that
  accepts `k` bytes in total and then fails; `calls` is the sequence of `Write` calls
  (`Fprintf`s) the format's `Write` method makes.  `Write` returns an error iff `k` is smaller
  than the encoded length, and the bytes that reached the writer are the first `k` bytes of the
  encoding.
-/
import Bio.Lemmas.CrossNewick
namespace Bio

/-! ## 1a. Fault prefix -/

/-- FASTA, every byte string `x`, every offset `k`. -/
theorem C07_fasta_fault_prefix (x : Bytes) (k : Nat) :
    ∃ n, Fasta.decodeSrc .fail (x.take k) = (Fasta.decode x).take n ++ [Item.err] :=
  Fasta.fault_prefix x k

/-- FASTA, writer output: the items before the error are the leading records written. -/
theorem C07_fasta_fault_prefix_wf (w : Nat) (hw : 0 < w) (rs : List Fasta.Fa)
    (h : ∀ r ∈ rs, Fasta.WF r) (k : Nat) :
    ∃ n, Fasta.decodeSrc .fail ((Fasta.encodeAll w rs).take k) =
      (rs.take n).map Item.ok ++ [Item.err] :=
  Fasta.fault_prefix_wf w hw rs h k

example :
    (0 : Nat) < 3 ∧
    ∀ r ∈ ([⟨[115, 49], [65, 67, 71, 84, 65, 67, 71]⟩, ⟨[], [84]⟩] : List Fasta.Fa), Fasta.WF r := by
  decide

theorem C07_fastq_fault_prefix (rs : List Fastq.Fq) (h : ∀ r ∈ rs, Fastq.WF r) (k : Nat) :
    ∃ n, Fastq.decodeSrc .fail ((Fastq.encodeAll rs).take k) =
      (rs.take n).map Item.ok ++ [Item.err] :=
  Fastq.fault_prefix_wf rs h k

example :
    ∀ r ∈ ([⟨[114, 49], [65, 67, 71, 84], [73, 73, 73, 73]⟩, ⟨[114, 50], [71], [43]⟩] : List Fastq.Fq),
      Fastq.WF r := by
  decide

/-- SAM: both readers (`ReaderHeader` and `Reader`). -/
theorem C07_sam_fault_prefix (pf : Bytes → Option Bytes) (hs : List Bytes) (rs : List Sam.Sam)
    (hh : ∀ h ∈ hs, Sam.hdrOK h) (hr : ∀ s ∈ rs, Sam.WF pf s) (k : Nat) :
    (∃ n, Sam.decodeHeaderSrc pf .fail
        (((hs ++ rs.map Sam.encodeLine).map (· ++ [10])).flatten.take k) =
      (Sam.decodeHeader pf ((hs ++ rs.map Sam.encodeLine).map (· ++ [10])).flatten).take n
        ++ [Item.err]) ∧
    (∃ n, Sam.decodeSrc pf .fail
        (((hs ++ rs.map Sam.encodeLine).map (· ++ [10])).flatten.take k) =
      (Sam.decode pf ((hs ++ rs.map Sam.encodeLine).map (· ++ [10])).flatten).take n
        ++ [Item.err]) :=
  Sam.fault_prefix pf hs rs hh hr k

/-- SAM: the items before the error are the leading records written. -/
theorem C07_sam_fault_prefix_records (pf : Bytes → Option Bytes) (hs : List Bytes)
    (rs : List Sam.Sam) (hh : ∀ h ∈ hs, Sam.hdrOK h) (hr : ∀ s ∈ rs, Sam.WF pf s) (k : Nat) :
    ∃ n, Sam.decodeSrc pf .fail
        (((hs ++ rs.map Sam.encodeLine).map (· ++ [10])).flatten.take k) =
      (rs.take n).map Item.ok ++ [Item.err] := by
  obtain ⟨n, hn⟩ := (Sam.fault_prefix pf hs rs hh hr k).2
  exact ⟨n, by rw [hn, (Sam.file_roundtrip pf hs rs hh hr).2, List.map_take]⟩

example : (∀ h ∈ Sam.exHs, Sam.hdrOK h) ∧ (∀ s ∈ Sam.exRs, Sam.WF Sam.exPf s) :=
  ⟨Sam.exHs_ok, Sam.exRs_ok⟩

theorem C07_bed_fault_prefix (N : Nat) (bs : List Bed.Bed) (h : ∀ b ∈ bs, Bed.WF N b) (k : Nat) :
    ∃ n, Bed.decodeSrc .fail ((bs.map fun b => (Bed.encodeLine b).getD [] ++ [10]).flatten.take k)
      = (bs.take n).map (fun b => Item.ok (Bed.truncate N b)) ++ [Item.err] :=
  Bed.fault_prefix_wf N bs h k

/-- BED, with the file spelled as the concatenation of what `Write` emits. -/
theorem C07_bed_fault_prefix_encode (N : Nat) (bs : List Bed.Bed) (h : ∀ b ∈ bs, Bed.WF N b)
    (k : Nat) :
    ∃ n, Bed.decodeSrc .fail ((bs.map fun b => (Bed.encode b).getD []).flatten.take k)
      = (bs.take n).map (fun b => Item.ok (Bed.truncate N b)) ++ [Item.err] := by
  rw [Bed.encode_file_eq N bs h]
  have := Bed.fault_prefix_wf N bs h k
  simpa [lfFile, List.map_map, Function.comp_def] using this

example : ∀ b ∈ [Bed.ex12, Bed.ex12], Bed.WF 12 b := by decide

/-- Newick (new): trees written back to back, source failing after `k` bytes. -/
theorem C07_newick_fault_prefix (qs : Bytes) (pd : Bytes → Option Newick.Dist)
    (h : Newick.QS_OK qs) (ts : List Newick.Tree)
    (hd : ∀ t ∈ ts, t.AllDist (Newick.DistOK pd)) (k : Nat) :
    ∃ n, Newick.decodeSrc pd .fail (((ts.map (Newick.write qs)).flatten).take k) =
      (ts.take n).map Item.ok ++ [Item.err] :=
  Newick.fault_prefix qs pd h ts hd k

example : Newick.QS_OK Newick.qsGo ∧
    (∀ t ∈ [Newick.exTree, ⟨[97, 32, 98], none, .nil⟩, Newick.exTree],
      Newick.Tree.AllDist (Newick.DistOK Newick.pdEx) t) := by decide

/-- Concrete instance on the model: cutting 5 bytes into the second copy of the example tree
(whose text is 42 bytes) gives the first tree and then the error. -/
example : Newick.decodeSrc Newick.pdEx .fail
    ((([Newick.exTree, Newick.exTree].map (Newick.write Newick.qsGo)).flatten).take 47) =
      [Item.ok Newick.exTree, Item.err] := by decide +kernel

/-- The two facts behind the Newick theorem, for ARBITRARY bytes `y`, `z`: a tree read from a
failing source was complete (it is read identically, with the longer rest, from any extension
of the data and with any ending). -/
theorem C07_newick_prefix_monotone (pd : Bytes → Option Newick.Dist) (e : Ending) (y z : Bytes)
    (t : Newick.Tree) (rest : Bytes) (h : Newick.readTree pd .fail y = .tree t rest) :
    Newick.readTree pd e (y ++ z) = .tree t (rest ++ z) :=
  Newick.readTree_fail_append pd e y z t rest h

/-- Non-vacuity: `"a;b"` under a failing source reads the tree `a` with rest `"b"`. -/
example : Newick.readTree Newick.pdEx .fail [97, 59, 98] = .tree ⟨[97], none, .nil⟩ [98] := by
  decide +kernel

/-- A strict prefix of a written tree never yields a tree. -/
theorem C07_newick_cut_tree (qs : Bytes) (pd : Bytes → Option Newick.Dist) (h : Newick.QS_OK qs)
    (t : Newick.Tree) (hd : t.AllDist (Newick.DistOK pd)) (k : Nat)
    (hk : k < (Newick.write qs t).length) :
    Newick.readTree pd .fail ((Newick.write qs t).take k) = .err :=
  Newick.readTree_strict_prefix qs pd h t hd k hk

example : Newick.QS_OK Newick.qsGo ∧ Newick.exTree.AllDist (Newick.DistOK Newick.pdEx) ∧
    17 < (Newick.write Newick.qsGo Newick.exTree).length := by decide

/-! ## 1b. A failing source never ends as though the data were complete (arbitrary bytes) -/

theorem C07_fasta_ends_in_err (x : Bytes) :
    (Fasta.decodeSrc .fail x).getLast? = some Item.err := Fasta.fail_getLast x

theorem C07_fastq_ends_in_err (x : Bytes) :
    (Fastq.decodeSrc .fail x).getLast? = some Item.err := Fastq.fromLines_fail_getLast _

theorem C07_sam_header_ends_in_err (pf : Bytes → Option Bytes) (x : Bytes) :
    (Sam.decodeHeaderSrc pf .fail x).getLast? = some Item.err := Sam.header_fail_getLast pf x

theorem C07_sam_ends_in_err (pf : Bytes → Option Bytes) (x : Bytes) :
    (Sam.decodeSrc pf .fail x).getLast? = some Item.err := Sam.fail_getLast pf x

theorem C07_bed_ends_in_err (x : Bytes) :
    (Bed.decodeSrc .fail x).getLast? = some Item.err := Bed.fromLines_fail_getLast _ _

theorem C07_newick_ends_in_err (pd : Bytes → Option Newick.Dist) (x : Bytes) :
    (Newick.decodeSrc pd .fail x).getLast? = some Item.err := Newick.fail_getLast pd x

/-- In particular never a clean end of the tree stream. -/
theorem C07_newick_never_eof (pd : Bytes → Option Newick.Dist) (x : Bytes) :
    Newick.readTree pd .fail x ≠ .eof := Newick.readTree_fail_ne_eof pd x

/-! ## 2. Failing writers -/

/-- `runWriter`, spelled out. -/
theorem C07_runWriter_def (k : Nat) (c : Bytes) (cs : List Bytes) :
    runWriter k [] = ([], true) ∧
    runWriter k (c :: cs) =
      if c.length ≤ k then
        (c ++ (runWriter (k - c.length) cs).1, (runWriter (k - c.length) cs).2)
      else (c.take k, false) :=
  ⟨by simp [runWriter], by rw [runWriter]⟩

/-- Three calls of 2, 0 and 3 bytes against a budget of 3: the first two succeed (a
zero-length call never fails), the third is cut after one byte and fails. -/
example : runWriter 3 [[1, 2], [], [3, 4, 5]] = ([1, 2, 3], false) := by decide
example : runWriter 2 [[1, 2], []] = ([1, 2], true) := by decide
example : runWriter 0 [[], []] = ([], true) := by decide

/-- `Write` returns `nil` iff the budget covers all bytes. -/
theorem C07_runWriter_ok_iff (k : Nat) (calls : List Bytes) :
    (runWriter k calls).2 = true ↔ calls.flatten.length ≤ k := runWriter_ok_iff k calls

/-- `Write` returns an error iff the budget is smaller than the output. -/
theorem C07_runWriter_err_iff (k : Nat) (calls : List Bytes) :
    (runWriter k calls).2 = false ↔ k < calls.flatten.length := by
  have := runWriter_ok_iff k calls
  cases h : (runWriter k calls).2 <;> simp [h] at this ⊢ <;> omega

/-- The bytes that reached the writer are the first `k` bytes of the output. -/
theorem C07_runWriter_bytes (k : Nat) (calls : List Bytes) :
    (runWriter k calls).1 = calls.flatten.take k := runWriter_bytes k calls

/-- FASTA: one `Fprintf` for the name line, one per sequence line. -/
theorem C07_fasta_writer (w : Nat) (r : Fasta.Fa) (k : Nat) :
    ((runWriter k (Fasta.writeCalls w r)).2 = false ↔ k < (Fasta.encode w r).length) ∧
    (runWriter k (Fasta.writeCalls w r)).1 = (Fasta.encode w r).take k :=
  ⟨C07_runWriter_err_iff k _, runWriter_bytes k _⟩

/-- FASTQ: a single `Fprintf`. -/
theorem C07_fastq_writer (r : Fastq.Fq) (k : Nat) :
    ((runWriter k [Fastq.encode r]).2 = false ↔ k < (Fastq.encode r).length) ∧
    (runWriter k [Fastq.encode r]).1 = (Fastq.encode r).take k := by
  have h1 := C07_runWriter_err_iff k [Fastq.encode r]
  have h2 := runWriter_bytes k [Fastq.encode r]
  simp only [List.flatten_cons, List.flatten_nil, List.append_nil] at h1 h2
  exact ⟨h1, h2⟩

/-- SAM: the eleven fields, one call per tag, the final newline. -/
theorem C07_sam_writer (s : Sam.Sam) (k : Nat) :
    ((runWriter k (Sam.writeCalls s)).2 = false ↔ k < (Sam.encode s).length) ∧
    (runWriter k (Sam.writeCalls s)).1 = (Sam.encode s).take k := by
  have h1 := C07_runWriter_err_iff k (Sam.writeCalls s)
  have h2 := runWriter_bytes k (Sam.writeCalls s)
  rw [Sam.writeCalls_flatten] at h1 h2
  exact ⟨h1, h2⟩

/-- Newick: a single write of the tree text. -/
theorem C07_newick_writer (qs : Bytes) (t : Newick.Tree) (k : Nat) :
    ((runWriter k [Newick.write qs t]).2 = false ↔ k < (Newick.write qs t).length) ∧
    (runWriter k [Newick.write qs t]).1 = (Newick.write qs t).take k := by
  have h1 := C07_runWriter_err_iff k [Newick.write qs t]
  have h2 := runWriter_bytes k [Newick.write qs t]
  simp only [List.flatten_cons, List.flatten_nil, List.append_nil] at h1 h2
  exact ⟨h1, h2⟩

/-- BED: the `Write` calls of /repo/formats/bed/bed.go `Write` for `3 ≤ N ≤ 12`: one
`Fprintf` for the first three fields, one per further field, for a block list one call for
the TAB and one per element, and the final newline (`Bed.writeCalls`, `Bed.listCalls` are
defined in `Bio/Lemmas/Cross.lean`). -/
theorem C07_bed_writeCalls_def (b : Bed.Bed) :
    Bed.writeCalls b =
      [b.chrom ++ TAB :: itoa b.chromStart ++ TAB :: itoa b.chromEnd] ++
      (if b.n > 3 then [TAB :: b.name] else []) ++
      (if b.n > 4 then [TAB :: itoa b.score] else []) ++
      (if b.n > 5 then [TAB :: b.strand] else []) ++
      (if b.n > 6 then [TAB :: itoa b.thickStart] else []) ++
      (if b.n > 7 then [TAB :: itoa b.thickEnd] else []) ++
      (if b.n > 8 then [TAB :: (natDigits b.rgb.1.toNat ++ Bed.COMMA :: natDigits b.rgb.2.1.toNat ++
          Bed.COMMA :: natDigits b.rgb.2.2.toNat)] else []) ++
      (if b.n > 9 then [TAB :: itoa b.blockCount] else []) ++
      (if b.n > 10 then [TAB] :: Bed.listCalls b.blockSizes else []) ++
      (if b.n > 11 then [TAB] :: Bed.listCalls b.blockStarts else []) ++
      [[LF]] ∧
    Bed.listCalls [] = [] ∧
    ∀ x xs, Bed.listCalls (x :: xs) = itoa x :: xs.map (fun y => Bed.COMMA :: itoa y) :=
  ⟨rfl, rfl, fun _ _ => rfl⟩

/-- The calls concatenate to what `encode` says is written. -/
theorem C07_bed_writeCalls_flatten (b : Bed.Bed) (t : Bytes) (h : Bed.encode b = some t) :
    (Bed.writeCalls b).flatten = t := Bed.writeCalls_flatten b t h

theorem C07_bed_writer (b : Bed.Bed) (t : Bytes) (h : Bed.encode b = some t) (k : Nat) :
    ((runWriter k (Bed.writeCalls b)).2 = false ↔ k < t.length) ∧
    (runWriter k (Bed.writeCalls b)).1 = t.take k := by
  have h1 := C07_runWriter_err_iff k (Bed.writeCalls b)
  have h2 := runWriter_bytes k (Bed.writeCalls b)
  rw [Bed.writeCalls_flatten b t h] at h1 h2
  exact ⟨h1, h2⟩

/-- Non-vacuity: the 12-field example record is written (in 15 calls). -/
example : (Bed.encode Bed.ex12).isSome ∧ (Bed.writeCalls Bed.ex12).length = 15 := by
  decide +kernel
example : (Bed.encode Bed.ex3).isSome ∧ (Bed.writeCalls Bed.ex3).length = 2 := by
  decide +kernel

/-- When `N` is outside 3…12 `Write` makes no call at all and returns an error
(`Bed.write_refuses`): nothing reaches the writer, whatever its budget. -/
theorem C07_bed_writer_refuses (b : Bed.Bed) (h : b.n < 3 ∨ b.n > 12) : Bed.encode b = none :=
  Bed.write_refuses b h

example : ({ Bed.ex12 with n := 13 } : Bed.Bed).n < 3 ∨ ({ Bed.ex12 with n := 13 } : Bed.Bed).n > 12 := by
  decide

end Bio
