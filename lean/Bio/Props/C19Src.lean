/-
  Source-level tie for C19 ("works for trees deeper than any recursion limit"):
  the call graph of formats/newick (go/ast, regenerated on every run) has no
  cycle reachable from PreOrder/PostOrder — the traversal is not recursive, as
  the model machine (`trav`, an explicit stack) is.  Stack depth is a runtime
  notion no executable model can exhibit; this syntactic fact plus the deep
  chains run on the real code are what stands for that clause.  (If the entry
  points cannot be found in the source the fact is `none` and nothing is claimed.)
-/
import Bio.Lemmas.SrcFacts
import Bio.Generated.Src
namespace Bio.SrcFacts

theorem newick_traversal_not_recursive :
    holdsIfFound Bio.Generated.Src.newickTraverseRecursive (· == false) = true := by decide

end Bio.SrcFacts
