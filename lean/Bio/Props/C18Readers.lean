/-
  C18 for the READERS — early stop of the range-over-func iterators of the
  five format readers.  `Bio/Model/IterReaders.lean` transcribes the Go
  closures with the consumer callback `f` as a parameter; an iterator is
  observed through the log of its calls to `f`.  Proved here, for all inputs,
  all endings of the byte source and ALL consumers:

    log with consumer f  =  takeThrough (fun it => !f it) (items of an uninterrupted run)

  i.e. after the first `false` no further call is made, and what was seen are
  the leading items of the uninterrupted run — which is the item list of the
  existing decoder models (`X.decodeSrc`).  `Reader`/`File` wrappers add no call
  and lose none; the SAM `Reader` wrapper drops the header items without a call.
-/
import Bio.Lemmas.IterReaders
import Bio.Props.C18
import Bio.Props.C01
import Bio.Props.C02
import Bio.Props.C04
import Bio.Props.C05

namespace Bio.Iter

/-! ## 1. The readers log `takeThrough` of the decoder's item list -/

/-- fasta `newReader(r).iter()`. -/
theorem fastaIter_log (e : Ending) (x : Bytes) (f : Item Fasta.Fa → Bool) :
    fastaIter e x f = takeThrough (fun it => !f it) (Fasta.decodeSrc e x) :=
  fastaIter_law e x f

/-- `fasta.Reader`. -/
theorem readerFasta_log (e : Ending) (x : Bytes) (f : Item Fasta.Fa → Bool) :
    fastaReader e x f = takeThrough (fun it => !f it) (Fasta.decodeSrc e x) := by
  rw [fastaReader, wrap_eq]; exact fastaIter_law e x f

theorem readerFasta_all (e : Ending) (x : Bytes) :
    fastaReader e x (fun _ => true) = Fasta.decodeSrc e x := by
  rw [readerFasta_log]; exact takeThrough_true_consumer _

/-- fastq `newReader(r).iter()`. -/
theorem fastqIter_log (e : Ending) (x : Bytes) (f : Item Fastq.Fq → Bool) :
    fastqIter e x f = takeThrough (fun it => !f it) (Fastq.decodeSrc e x) :=
  fastqIter_law e x f

/-- `fastq.Reader`. -/
theorem readerFastq_log (e : Ending) (x : Bytes) (f : Item Fastq.Fq → Bool) :
    fastqReader e x f = takeThrough (fun it => !f it) (Fastq.decodeSrc e x) := by
  rw [fastqReader, wrap_eq]; exact fastqIter_law e x f

theorem readerFastq_all (e : Ending) (x : Bytes) :
    fastqReader e x (fun _ => true) = Fastq.decodeSrc e x := by
  rw [readerFastq_log]; exact takeThrough_true_consumer _

/-- `bed.Reader`. -/
theorem readerBed_log (e : Ending) (x : Bytes) (f : Item Bed.Bed → Bool) :
    bedReader e x f = takeThrough (fun it => !f it) (Bed.decodeSrc e x) :=
  bedReader_law e x f

theorem readerBed_all (e : Ending) (x : Bytes) :
    bedReader e x (fun _ => true) = Bed.decodeSrc e x := by
  rw [readerBed_log]; exact takeThrough_true_consumer _

/-- `newick.Reader`. -/
theorem readerNewick_log (pd : Bytes → Option Newick.Dist) (e : Ending) (x : Bytes)
    (f : Item Newick.Tree → Bool) :
    newickReader pd e x f = takeThrough (fun it => !f it) (Newick.decodeSrc pd e x) :=
  newickReader_law pd e x f

theorem readerNewick_all (pd : Bytes → Option Newick.Dist) (e : Ending) (x : Bytes) :
    newickReader pd e x (fun _ => true) = Newick.decodeSrc pd e x := by
  rw [readerNewick_log]; exact takeThrough_true_consumer _

/-- The progress guard in `newickNext` (copied from `Newick.decodeSrc`) is dead:
one `read()` is `readTree`, nothing else. -/
theorem newickNext_eq (pd : Bytes → Option Newick.Dist) (e : Ending) (x : Bytes) :
    newickNext pd e x =
      match Newick.readTree pd e x with
      | .eof => .done
      | .err => .err
      | .tree t rest => .item t rest := by
  unfold newickNext
  cases h : Newick.readTree pd e x with
  | eof => rfl
  | err => rfl
  | tree t rest => simp only []; rw [if_pos (Newick.read_consumes pd e x t rest h)]

/-- `sam.ReaderHeader`: a line that does not parse is an ordinary item; only a
failed read ends the iteration. -/
theorem readerHeaderSam_log (pf : Bytes → Option Bytes) (e : Ending) (x : Bytes)
    (f : Item Sam.Entry → Bool) :
    samReaderHeader pf e x f = takeThrough (fun it => !f it) (Sam.decodeHeaderSrc pf e x) :=
  samReaderHeader_law pf e x f

theorem readerHeaderSam_all (pf : Bytes → Option Bytes) (e : Ending) (x : Bytes) :
    samReaderHeader pf e x (fun _ => true) = Sam.decodeHeaderSrc pf e x := by
  rw [readerHeaderSam_log]; exact takeThrough_true_consumer _

/-- `sam.Reader`: the headers that `ReaderHeader` hands to the loop body are
passed over by `continue` — no callback for them, and no stop either. -/
theorem readerSam_log (pf : Bytes → Option Bytes) (e : Ending) (x : Bytes)
    (f : Item Sam.Sam → Bool) :
    samReader pf e x f = takeThrough (fun it => !f it) (Sam.decodeSrc pf e x) :=
  samReader_law pf e x f

theorem readerSam_all (pf : Bytes → Option Bytes) (e : Ending) (x : Bytes) :
    samReader pf e x (fun _ => true) = Sam.decodeSrc pf e x := by
  rw [readerSam_log]; exact takeThrough_true_consumer _

/-! ## 2. The wrappers -/

/-- `for x, err := range inner { if !yield(x, err) { break } }` is `inner`:
the same calls, in the same order, for every consumer. -/
theorem wrap_transparent {α : Type} (inner : Seq α) : wrap inner = inner := wrap_eq inner

theorem wrap_log {α : Type} (inner : Seq α) (f : α → Bool) : wrap inner f = inner (fun x => f x) :=
  wrap_apply inner f

/-- `File` on an opened file is the `Reader` on it. -/
theorem file_opened {ρ : Type} (inner : Seq (Item ρ)) : file (some inner) = inner := file_some inner

/-- `File` on a path that cannot be opened: one error item whatever the consumer answers. -/
theorem file_unopened {ρ : Type} (f : Item ρ → Bool) :
    file (none : Option (Seq (Item ρ))) f = [.err] := rfl

/-- A loop body that, per inner item, either `continue`s without a callback
(`g x = none`) or does `if !yield(y) { break }` (`g x = some y`), around an
inner iterator with the take-through law for `L`: take-through law for
`L.filterMap g`. -/
theorem wrapFilterMap_log {α β : Type} (g : α → Option β) (inner : Seq α) (L : List α)
    (h : TakeThroughLaw inner L) (f : β → Bool) :
    wrapFilterMap g inner f = takeThrough (fun y => !f y) (L.filterMap g) :=
  wrapFilterMap_law g inner L h f

example : TakeThroughLaw (fun f => takeThrough (fun x => !f x) [1, 2, 3, 4, 5, 6]) [1, 2, 3, 4, 5, 6] :=
  fun _ => rfl
-- keep the even numbers, halved; the consumer declines 2: the odd 5 after it is never looked at
example :
    wrapFilterMap (fun n : Nat => if n % 2 = 0 then some (n / 2) else none)
      (fun f => takeThrough (fun x => !f x) [1, 2, 3, 4, 5, 6]) (fun y => y != 2) = [1, 2] := by
  decide

/-- The SAM wrapper over ANY inner iterator with the take-through law. -/
theorem samWrap_log (inner : Seq (Item Sam.Entry)) (L : List (Item Sam.Entry))
    (h : TakeThroughLaw inner L) (f : Item Sam.Sam → Bool) :
    samWrap inner f = takeThrough (fun it => !f it) (Sam.dropHeaders L) :=
  samWrap_law inner L h f

/-- `sam.Reader` as the wrapper around `sam.ReaderHeader`. -/
theorem samReader_over_header (pf : Bytes → Option Bytes) (e : Ending) (x : Bytes)
    (f : Item Sam.Sam → Bool) :
    samWrap (samReaderHeader pf e x) f
      = takeThrough (fun it => !f it) (Sam.dropHeaders (Sam.decodeHeaderSrc pf e x)) :=
  samWrap_law _ _ (samReaderHeader_law pf e x) f

/-- The `File` functions of the five packages (`none` = the path cannot be opened). -/
theorem fileFasta_log (o : Option Input) (f : Item Fasta.Fa → Bool) :
    fastaFile o f = takeThrough (fun it => !f it)
      (match o with | none => [.err] | some i => Fasta.decodeSrc i.1 i.2) := by
  cases o with
  | none => simp [fastaFile, file, takeThrough]
  | some i => exact (congrFun (file_some (fastaReader i.1 i.2)) f).trans (readerFasta_log i.1 i.2 f)

theorem fileFastq_log (o : Option Input) (f : Item Fastq.Fq → Bool) :
    fastqFile o f = takeThrough (fun it => !f it)
      (match o with | none => [.err] | some i => Fastq.decodeSrc i.1 i.2) := by
  cases o with
  | none => simp [fastqFile, file, takeThrough]
  | some i => exact (congrFun (file_some (fastqReader i.1 i.2)) f).trans (readerFastq_log i.1 i.2 f)

theorem fileBed_log (o : Option Input) (f : Item Bed.Bed → Bool) :
    bedFile o f = takeThrough (fun it => !f it)
      (match o with | none => [.err] | some i => Bed.decodeSrc i.1 i.2) := by
  cases o with
  | none => simp [bedFile, file, takeThrough]
  | some i => exact (congrFun (file_some (bedReader i.1 i.2)) f).trans (readerBed_log i.1 i.2 f)

theorem fileNewick_log (pd : Bytes → Option Newick.Dist) (o : Option Input)
    (f : Item Newick.Tree → Bool) :
    newickFile pd o f = takeThrough (fun it => !f it)
      (match o with | none => [.err] | some i => Newick.decodeSrc pd i.1 i.2) := by
  cases o with
  | none => simp [newickFile, file, takeThrough]
  | some i => exact (congrFun (file_some (newickReader pd i.1 i.2)) f).trans (readerNewick_log pd i.1 i.2 f)

theorem fileSam_log (pf : Bytes → Option Bytes) (o : Option Input) (f : Item Sam.Sam → Bool) :
    samFile pf o f = takeThrough (fun it => !f it)
      (match o with | none => [.err] | some i => Sam.decodeSrc pf i.1 i.2) := by
  cases o with
  | none => simp [samFile, file, takeThrough]
  | some i => exact (congrFun (file_some (samReader pf i.1 i.2)) f).trans (readerSam_log pf i.1 i.2 f)

theorem fileHeaderSam_log (pf : Bytes → Option Bytes) (o : Option Input)
    (f : Item Sam.Entry → Bool) :
    samFileHeader pf o f = takeThrough (fun it => !f it)
      (match o with | none => [.err] | some i => Sam.decodeHeaderSrc pf i.1 i.2) := by
  cases o with
  | none => simp [samFileHeader, file, takeThrough]
  | some i => exact (congrFun (file_some (samReaderHeader pf i.1 i.2)) f).trans (readerHeaderSam_log pf i.1 i.2 f)

/-! ## 3. Consequences of the take-through law, for any iterator -/

/-- Every call but the last was answered `true`: once the consumer answers
`false` the iterator is silent. -/
theorem stop_then_silent {α : Type} (it : Seq α) (L : List α) (h : TakeThroughLaw it L)
    (f : α → Bool) : ∀ x ∈ (it f).dropLast, f x = true := by
  rw [h f]; exact consumer_true_before_last f L

/-- Index form: a call answered `false` is the last call. -/
theorem declined_is_last {α : Type} (it : Seq α) (L : List α) (h : TakeThroughLaw it L)
    (f : α → Bool) (i : Nat) (x : α) (hx : (it f)[i]? = some x) (hf : f x = false) :
    i + 1 = (it f).length := by
  rw [h f] at hx ⊢
  exact takeThrough_stop_idx _ L i x hx (by simp [hf])

/-- What was seen are leading items of the uninterrupted run. -/
theorem log_prefix {α : Type} (it : Seq α) (L : List α) (h : TakeThroughLaw it L)
    (f : α → Bool) : it f <+: L := by
  rw [h f]; exact takeThrough_prefix _ L

/-- A consumer that never stops sees the whole run. -/
theorem log_all {α : Type} (it : Seq α) (L : List α) (h : TakeThroughLaw it L) :
    it (fun _ => true) = L := by
  rw [h]; exact takeThrough_true_consumer L

/-- If the consumer declines some item of the run, the log is non-empty and ends
with a declined item. -/
theorem log_ends_declined {α : Type} (it : Seq α) (L : List α) (h : TakeThroughLaw it L)
    (f : α → Bool) (hex : ∃ x ∈ L, f x = false) :
    ∃ y, (it f).getLast? = some y ∧ f y = false := by
  rw [h f]
  obtain ⟨x, hx, hfx⟩ := hex
  obtain ⟨y, hy, hpy⟩ := takeThrough_last_stops (fun x => !f x) L ⟨x, hx, by simp [hfx]⟩
  exact ⟨y, hy, by simpa using hpy⟩

example : ∃ x ∈ [1, 2, 3], (fun n : Nat => n != 2) x = false := by decide

/-- The law holds for all the reader iterators (instances of the hypothesis of
the theorems above). -/
theorem readers_lawful (pf : Bytes → Option Bytes) (pd : Bytes → Option Newick.Dist)
    (e : Ending) (x : Bytes) :
    TakeThroughLaw (fastaReader e x) (Fasta.decodeSrc e x) ∧
    TakeThroughLaw (fastqReader e x) (Fastq.decodeSrc e x) ∧
    TakeThroughLaw (samReaderHeader pf e x) (Sam.decodeHeaderSrc pf e x) ∧
    TakeThroughLaw (samReader pf e x) (Sam.decodeSrc pf e x) ∧
    TakeThroughLaw (bedReader e x) (Bed.decodeSrc e x) ∧
    TakeThroughLaw (newickReader pd e x) (Newick.decodeSrc pd e x) :=
  ⟨readerFasta_log e x, readerFastq_log e x, readerHeaderSam_log pf e x, readerSam_log pf e x,
   readerBed_log e x, readerNewick_log pd e x⟩

/-- Hypothesis-free instances of `stop_then_silent`. -/
theorem readerFasta_silent (e : Ending) (x : Bytes) (f : Item Fasta.Fa → Bool) :
    ∀ it ∈ (fastaReader e x f).dropLast, f it = true :=
  stop_then_silent _ _ (readerFasta_log e x) f

theorem readerFastq_silent (e : Ending) (x : Bytes) (f : Item Fastq.Fq → Bool) :
    ∀ it ∈ (fastqReader e x f).dropLast, f it = true :=
  stop_then_silent _ _ (readerFastq_log e x) f

theorem readerHeaderSam_silent (pf : Bytes → Option Bytes) (e : Ending) (x : Bytes)
    (f : Item Sam.Entry → Bool) : ∀ it ∈ (samReaderHeader pf e x f).dropLast, f it = true :=
  stop_then_silent _ _ (readerHeaderSam_log pf e x) f

theorem readerSam_silent (pf : Bytes → Option Bytes) (e : Ending) (x : Bytes)
    (f : Item Sam.Sam → Bool) : ∀ it ∈ (samReader pf e x f).dropLast, f it = true :=
  stop_then_silent _ _ (readerSam_log pf e x) f

theorem readerBed_silent (e : Ending) (x : Bytes) (f : Item Bed.Bed → Bool) :
    ∀ it ∈ (bedReader e x f).dropLast, f it = true :=
  stop_then_silent _ _ (readerBed_log e x) f

theorem readerNewick_silent (pd : Bytes → Option Newick.Dist) (e : Ending) (x : Bytes)
    (f : Item Newick.Tree → Bool) : ∀ it ∈ (newickReader pd e x f).dropLast, f it = true :=
  stop_then_silent _ _ (readerNewick_log pd e x) f

/-! ## 4. An error item is the last item (fasta, fastq, bed, newick) -/

/-- In an uninterrupted run an error item is the last item (re-export of
C01/C02/C04/C05 through `reader… (fun _ => true) = decodeSrc …`). -/
theorem readerFasta_err_last (e : Ending) (x : Bytes) (i : Nat)
    (h : (fastaReader e x (fun _ => true))[i]? = some Item.err) :
    i + 1 = (fastaReader e x (fun _ => true)).length := by
  rw [readerFasta_all] at h ⊢; exact Fasta.err_only_last e x i h

theorem readerFastq_err_last (e : Ending) (x : Bytes) (i : Nat)
    (h : (fastqReader e x (fun _ => true))[i]? = some Item.err) :
    i + 1 = (fastqReader e x (fun _ => true)).length := by
  rw [readerFastq_all] at h ⊢; exact Fastq.err_only_last e x i h

theorem readerBed_err_last (e : Ending) (x : Bytes) (i : Nat)
    (h : (bedReader e x (fun _ => true))[i]? = some Item.err) :
    i + 1 = (bedReader e x (fun _ => true)).length := by
  rw [readerBed_all] at h ⊢; exact Bed.err_only_last_idx e x i h

theorem readerNewick_err_last (pd : Bytes → Option Newick.Dist) (e : Ending) (x : Bytes) (i : Nat)
    (h : (newickReader pd e x (fun _ => true))[i]? = some Item.err) :
    i + 1 = (newickReader pd e x (fun _ => true)).length := by
  rw [readerNewick_all] at h ⊢; exact Newick.err_only_last pd e x i h

/-- The same for every consumer: in the log of any early-stopping run of an
iterator whose uninterrupted run has its errors last, an error is the last
call. -/
theorem err_last_any_consumer {ρ : Type} (it : Seq (Item ρ)) (L : List (Item ρ))
    (h : TakeThroughLaw it L)
    (hL : ∀ i, L[i]? = some Item.err → i + 1 = L.length)
    (f : Item ρ → Bool) (i : Nat) (hi : (it f)[i]? = some Item.err) :
    i + 1 = (it f).length := by
  obtain ⟨t, ht⟩ := log_prefix it L h f
  have hlt : i < (it f).length := by
    rcases Nat.lt_or_ge i (it f).length with hlt | hge
    · exact hlt
    · rw [List.getElem?_eq_none hge] at hi; cases hi
  have hLi : L[i]? = some Item.err := by
    rw [← ht, List.getElem?_append_left hlt]; exact hi
  have := hL i hLi
  rw [← ht, List.length_append] at this
  omega

theorem readerFasta_err_last_any (e : Ending) (x : Bytes) (f : Item Fasta.Fa → Bool) (i : Nat)
    (h : (fastaReader e x f)[i]? = some Item.err) : i + 1 = (fastaReader e x f).length :=
  err_last_any_consumer _ _ (readerFasta_log e x) (Fasta.err_only_last e x) f i h

theorem readerFastq_err_last_any (e : Ending) (x : Bytes) (f : Item Fastq.Fq → Bool) (i : Nat)
    (h : (fastqReader e x f)[i]? = some Item.err) : i + 1 = (fastqReader e x f).length :=
  err_last_any_consumer _ _ (readerFastq_log e x) (Fastq.err_only_last e x) f i h

theorem readerBed_err_last_any (e : Ending) (x : Bytes) (f : Item Bed.Bed → Bool) (i : Nat)
    (h : (bedReader e x f)[i]? = some Item.err) : i + 1 = (bedReader e x f).length :=
  err_last_any_consumer _ _ (readerBed_log e x) (Bed.err_only_last_idx e x) f i h

theorem readerNewick_err_last_any (pd : Bytes → Option Newick.Dist) (e : Ending) (x : Bytes)
    (f : Item Newick.Tree → Bool) (i : Nat)
    (h : (newickReader pd e x f)[i]? = some Item.err) : i + 1 = (newickReader pd e x f).length :=
  err_last_any_consumer _ _ (readerNewick_log pd e x) (Newick.err_only_last pd e x) f i h

/-! ## 5. Concrete runs: three or more items, the consumer stops at the second -/

/-- ">a\nAC\n>b\nG\n>c\nT\n" -/
def exFasta : Bytes := [62, 97, 10, 65, 67, 10, 62, 98, 10, 71, 10, 62, 99, 10, 84, 10]

example : Fasta.decodeSrc .eof exFasta
    = [.ok ⟨[97], [65, 67]⟩, .ok ⟨[98], [71]⟩, .ok ⟨[99], [84]⟩] := by decide +kernel
example : fastaReader .eof exFasta (fun it => it != .ok ⟨[98], [71]⟩)
    = [.ok ⟨[97], [65, 67]⟩, .ok ⟨[98], [71]⟩] := by decide +kernel
example : fastaReader .eof exFasta (fun _ => false) = [.ok ⟨[97], [65, 67]⟩] := by decide +kernel
example : fastaReader .eof exFasta (fun _ => true) = Fasta.decodeSrc .eof exFasta := by
  decide +kernel
-- a failing source: the error is handed over although nobody asks the consumer afterwards
example : fastaReader .fail exFasta (fun _ => true)
    = [.ok ⟨[97], [65, 67]⟩, .ok ⟨[98], [71]⟩, .err] := by decide +kernel
example : fastaFile (some (.eof, exFasta)) (fun it => it != .ok ⟨[98], [71]⟩)
    = [.ok ⟨[97], [65, 67]⟩, .ok ⟨[98], [71]⟩] := by decide +kernel
example : fastaFile none (fun _ => true) = [.err] := by decide
-- an instance of the hypothesis of `readerFasta_err_last`
example : (fastaReader .fail exFasta (fun _ => true))[2]? = some Item.err := by decide +kernel
-- an instance of the hypothesis of `readerFasta_err_last_any` (a consumer that stops at the error)
example : (fastaReader .fail exFasta (fun it => it != .err))[2]? = some Item.err := by
  decide +kernel

/-- "@a\nAC\n+\nII\n@b\nG\n+\nI\n@c\nT\n+\nI\n" -/
def exFastq : Bytes :=
  [64, 97, 10, 65, 67, 10, 43, 10, 73, 73, 10, 64, 98, 10, 71, 10, 43, 10, 73, 10,
   64, 99, 10, 84, 10, 43, 10, 73, 10]

example : Fastq.decodeSrc .eof exFastq
    = [.ok ⟨[97], [65, 67], [73, 73]⟩, .ok ⟨[98], [71], [73]⟩, .ok ⟨[99], [84], [73]⟩] := by
  decide +kernel
example : fastqReader .eof exFastq (fun it => it != .ok ⟨[98], [71], [73]⟩)
    = [.ok ⟨[97], [65, 67], [73, 73]⟩, .ok ⟨[98], [71], [73]⟩] := by decide +kernel
example : (fastqReader .fail exFastq (fun _ => true))[3]? = some Item.err := by decide +kernel

/-- "a\t1\t2\n#c\nb\t3\t4\n\nc\t5\t6\n" — a comment and a blank line are skipped inside `read`. -/
def exBed : Bytes :=
  [97, 9, 49, 9, 50, 10, 35, 99, 10, 98, 9, 51, 9, 52, 10, 10, 99, 9, 53, 9, 54, 10]

def stopAtChromB : Item Bed.Bed → Bool
  | .ok b => b.chrom != [98]
  | .err => true

example : (Bed.decodeSrc .eof exBed).length = 3 := by decide +kernel
example : bedReader .eof exBed stopAtChromB = (Bed.decodeSrc .eof exBed).take 2 := by
  decide +kernel
example : (bedReader .eof exBed stopAtChromB).length = 2 := by decide +kernel
example : (bedReader .fail exBed (fun _ => true))[3]? = some Item.err := by decide +kernel

/-- "a;(b,c);d;" -/
def exNewick : Bytes := [97, 59, 40, 98, 44, 99, 41, 59, 100, 59]

def stopAtUnnamed : Item Newick.Tree → Bool
  | .ok t => t.name != []
  | .err => true

example : (Newick.decodeSrc Newick.pdEx .eof exNewick).length = 3 := by decide +kernel
example : newickReader Newick.pdEx .eof exNewick stopAtUnnamed
    = (Newick.decodeSrc Newick.pdEx .eof exNewick).take 2 := by decide +kernel
example : (newickReader Newick.pdEx .eof exNewick stopAtUnnamed).length = 2 := by decide +kernel
example : (newickReader Newick.pdEx .fail exNewick (fun _ => true))[3]? = some Item.err := by
  decide +kernel

/-- "@HD\nr1\t0\t*\t0\t0\t*\t*\t0\t0\t*\t*\n\nbad\nr2\t16\tc\t5\t9\t3M\t*\t0\t0\tACG\t*\n":
a header, a record, a blank line, a line that does not parse, a record. -/
def exSam : Bytes :=
  [64, 72, 68, 10, 114, 49, 9, 48, 9, 42, 9, 48, 9, 48, 9, 42, 9, 42, 9, 48, 9, 48, 9, 42, 9, 42,
   10, 10, 98, 97, 100, 10, 114, 50, 9, 49, 54, 9, 99, 9, 53, 9, 57, 9, 51, 77, 9, 42, 9, 48, 9,
   48, 9, 65, 67, 71, 9, 42, 10]

def exR1 : Sam.Sam := ⟨[114, 49], 0, [42], 0, 0, [42], [42], 0, 0, [42], [42], []⟩
def exR2 : Sam.Sam := ⟨[114, 50], 16, [99], 5, 9, [51, 77], [42], 0, 0, [65, 67, 71], [42], []⟩
def noFloat : Bytes → Option Bytes := fun _ => none

example : Sam.decodeHeaderSrc noFloat .eof exSam
    = [.ok (.hdr [64, 72, 68]), .ok (.sam exR1), .err, .ok (.sam exR2)] := by decide +kernel
-- the parse error is in the middle and the iteration goes on after it
example : samReaderHeader noFloat .eof exSam (fun _ => true)
    = [.ok (.hdr [64, 72, 68]), .ok (.sam exR1), .err, .ok (.sam exR2)] := by decide +kernel
-- stop at the second item
example : samReaderHeader noFloat .eof exSam (fun it => it != .ok (.sam exR1))
    = [.ok (.hdr [64, 72, 68]), .ok (.sam exR1)] := by decide +kernel
-- `Reader`: the header gives no callback; stop at the second item (the error)
example : samReader noFloat .eof exSam (fun _ => true) = [.ok exR1, .err, .ok exR2] := by
  decide +kernel
example : samReader noFloat .eof exSam (fun it => it != .err) = [.ok exR1, .err] := by
  decide +kernel
-- a consumer that declines the very first record never hears of anything else
example : samReader noFloat .eof exSam (fun _ => false) = [.ok exR1] := by decide +kernel
-- a failing source: the read error is one more item, the last
example : samReader noFloat .fail exSam (fun _ => true) = [.ok exR1, .err, .ok exR2, .err] := by
  decide +kernel
example : samFile noFloat none (fun _ => false) = [.err] := by decide
example : samFileHeader noFloat (some (.eof, exSam)) (fun it => it != .ok (.sam exR1))
    = [.ok (.hdr [64, 72, 68]), .ok (.sam exR1)] := by decide +kernel

end Bio.Iter
