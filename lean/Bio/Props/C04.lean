/-
  C04 — BED: what `Write` emits for a well-formed record is read back as the
  same record (restricted to its first N fields); the writer refuses N outside
  3…12; files of records round-trip; errors end the iteration; a source that
  fails after k bytes yields a prefix of the records and then one error.
-/
import Bio.Lemmas.Bed
namespace Bio.Bed

/-! ## Definitions that are part of the statements -/

/-- A text field the format can carry: no TAB, LF, CR.  Everything else
(double quotes, NUL, 0xFF, '#', spaces …) is allowed. -/
def textOK (s : Bytes) : Prop := ∀ b ∈ s, b ≠ 9 ∧ b ≠ 10 ∧ b ≠ 13

/-- Fits Go's `int` on a 64-bit platform. -/
def inRange (i : Int) : Prop := int64Min ≤ i ∧ i ≤ int64Max

/-- Zero the fields beyond the first `N` (what a reader of an N-field line reports). -/
def truncate (N : Nat) (b : Bed) : Bed :=
  { b with
    n := N
    name := if N > 3 then b.name else []
    score := if N > 4 then b.score else 0
    strand := if N > 5 then b.strand else []
    thickStart := if N > 6 then b.thickStart else 0
    thickEnd := if N > 7 then b.thickEnd else 0
    rgb := if N > 8 then b.rgb else (0, 0, 0)
    blockCount := if N > 9 then b.blockCount else 0
    blockSizes := if N > 10 then b.blockSizes else []
    blockStarts := if N > 11 then b.blockStarts else [] }

/-- Well-formed record with `N` fields. -/
def WF (N : Nat) (b : Bed) : Prop :=
  3 ≤ N ∧ N ≤ 12 ∧ b.n = N ∧
  textOK b.chrom ∧ b.chrom.head? ≠ some 35 ∧ textOK b.name ∧ validStrand b.strand = true ∧
  inRange b.chromStart ∧ inRange b.chromEnd ∧ inRange b.score ∧
  inRange b.thickStart ∧ inRange b.thickEnd ∧ inRange b.blockCount ∧
  (∀ i ∈ b.blockSizes, inRange i) ∧ (∀ i ∈ b.blockStarts, inRange i) ∧
  -- block consistency, as the reader checks it: a list is compared with the block
  -- count only when the line carries it (field 11 = sizes, field 12 = starts)
  (N > 10 → (b.blockSizes.length : Int) = b.blockCount) ∧
  (N > 11 → (b.blockStarts.length : Int) = b.blockCount)

instance (s : Bytes) : Decidable (textOK s) := by unfold textOK; infer_instance
instance (i : Int) : Decidable (inRange i) := by unfold inRange; infer_instance
instance (N : Nat) (b : Bed) : Decidable (WF N b) := by unfold WF; infer_instance

/-- One physical line of a BED file: a record, or a line the reader skips
(blank or `#` comment); each with its own terminator (LF or CR LF). -/
inductive Entry where
  | record (b : Bed) (crlf : Bool)
  | skip (l : Bytes) (crlf : Bool)

def lineEnd (crlf : Bool) : Bytes := if crlf then [13, 10] else [10]

def Entry.line : Entry → Bytes
  | .record b _ => (encodeLine b).getD []
  | .skip l _ => l

def Entry.crlf : Entry → Bool
  | .record _ c => c
  | .skip _ c => c

/-- The bytes of the line including its terminator. -/
def Entry.bytes (e : Entry) : Bytes := e.line ++ lineEnd e.crlf

/-- What the reader reports for the line. -/
def Entry.out (N : Nat) : Entry → Option Bed
  | .record b _ => some (truncate N b)
  | .skip _ _ => none

def Entry.OK (N : Nat) : Entry → Prop
  | .record b _ => WF N b
  | .skip l _ => isSkipped l = true ∧ ∀ c ∈ l, c ≠ 10 ∧ c ≠ 13

instance (N : Nat) (e : Entry) : Decidable (e.OK N) := by
  cases e <;> unfold Entry.OK <;> infer_instance

/-! ## Example records used for non-vacuity -/

/-- 12 fields, two blocks, a name with a double quote, NUL and 0xFF, negative ints. -/
def ex12 : Bed :=
  { n := 12, chrom := [99, 104, 114, 49], chromStart := -5, chromEnd := 9223372036854775807,
    name := [34, 97, 34, 0, 255, 35, 32], score := -9223372036854775808, strand := [45],
    thickStart := 0, thickEnd := -1, rgb := (255, 0, 7), blockCount := 2,
    blockSizes := [10, -20], blockStarts := [0, 300] }

/-- 3 fields; the fields beyond the third hold junk that is not written. -/
def ex3 : Bed :=
  { ex12 with n := 3, chrom := [], blockCount := 77 }

/-- 11 fields: the sizes must agree with the block count; the starts are not written
and may hold anything. -/
def ex11 : Bed :=
  { ex12 with n := 11, blockCount := 2, blockSizes := [10, -20], blockStarts := [1, 2, 3] }

/-- 10 fields: a non-zero block count with neither list written. -/
def ex10 : Bed :=
  { ex12 with n := 10, blockCount := 2, blockSizes := [7], blockStarts := [1, 2, 3] }

/-! ## Consequences of the block-consistency clause -/

/-- With at most 10 fields the block clause is no constraint at all: any block count and
any (unwritten) lists are allowed. -/
theorem wf_blocks_le10 (N : Nat) (b : Bed) (h : N ≤ 10) :
    (N > 10 → (b.blockSizes.length : Int) = b.blockCount) ∧
    (N > 11 → (b.blockStarts.length : Int) = b.blockCount) :=
  ⟨fun h' => by omega, fun h' => by omega⟩

theorem wf_blocks_le9 (N : Nat) (b : Bed) (h : N ≤ 9) :
    (N > 10 → (b.blockSizes.length : Int) = b.blockCount) ∧
    (N > 11 → (b.blockStarts.length : Int) = b.blockCount) :=
  wf_blocks_le10 N b (by omega)

/-- 10 fields: only the range of the block count matters; replacing it by any other
in-range count keeps the record well-formed (no relation to the unwritten lists). -/
theorem wf_blocks_10 (b : Bed) (h : WF 10 b) (bc : Int) (hbc : inRange bc) :
    WF 10 { b with blockCount := bc } := by
  obtain ⟨h3, h12, hn, hc, hhead, hname, hstrand, hcs, hce, hsc, hts, hte, _, hsz, hst, _, _⟩ := h
  exact ⟨h3, h12, hn, hc, hhead, hname, hstrand, hcs, hce, hsc, hts, hte, hbc, hsz, hst,
    fun h' => by omega, fun h' => by omega⟩

/-- 11 fields: the sizes (written) must agree with the count; the starts (not written) are free. -/
theorem wf_blocks_11 (b : Bed) (h : WF 11 b) : (b.blockSizes.length : Int) = b.blockCount :=
  h.2.2.2.2.2.2.2.2.2.2.2.2.2.2.2.1 (by omega)

theorem wf_blocks_12 (b : Bed) (h : WF 12 b) :
    (b.blockSizes.length : Int) = b.blockCount ∧ (b.blockStarts.length : Int) = b.blockCount :=
  ⟨h.2.2.2.2.2.2.2.2.2.2.2.2.2.2.2.1 (by omega), h.2.2.2.2.2.2.2.2.2.2.2.2.2.2.2.2 (by omega)⟩

example : WF 12 ex12 := by decide
example : WF 3 ex3 := by decide
example : WF 11 ex11 := by decide
example : WF 10 ex10 := by decide
/-- New domain, N = 10: non-zero block count, lists that do not match it. -/
example : WF 10 ex10 ∧ ex10.blockCount ≠ 0 ∧ (ex10.blockSizes.length : Int) ≠ ex10.blockCount ∧
    (ex10.blockStarts.length : Int) ≠ ex10.blockCount := by decide
/-- New domain, N = 11: sizes = count ≠ 0, and non-empty unwritten starts of another length. -/
example : WF 11 ex11 ∧ ex11.blockCount ≠ 0 ∧ (ex11.blockSizes.length : Int) = ex11.blockCount ∧
    ex11.blockStarts ≠ [] ∧ (ex11.blockStarts.length : Int) ≠ ex11.blockCount := by decide
/-- `ex12` cut to 10 or 11 fields is well-formed as well (it was not before the reader's repair). -/
example : WF 11 { ex12 with n := 11 } ∧ WF 10 { ex12 with n := 10 } := by decide
/-- Still outside: sizes that disagree with the count, from 11 fields on. -/
example : ¬ WF 11 { ex12 with n := 11, blockSizes := [10] } := by decide
example : ¬ WF 12 { ex12 with blockSizes := [10] } := by decide
example : ¬ WF 12 { ex12 with blockStarts := [0, 300, 5] } := by decide
/-- Hypotheses of `wf_blocks_10` are satisfiable. -/
example : WF 10 ex10 ∧ inRange 9223372036854775807 := by decide

/-! ## 1. Record round trip -/

/-- Bridge to the lemma file: everything the reader needs about the written line. -/
private theorem lineOK_of_WF (N : Nat) (b : Bed) (h : WF N b) :
    encodeLine b = some (joinWith TAB ((allFields b).take N)) ∧
    LineOK N (joinWith TAB ((allFields b).take N)) (truncate N b) := by
  obtain ⟨h3, h12, hn, hc, hhead, hname, hstrand, hcs, hce, hsc, hts, hte, hbc, hsz, hst, hbs, hbst⟩ := h
  exact ⟨encodeLine_eq b N hn h3 h12,
    lineOK_fields b N h3 h12 hc hhead hname hstrand hcs hce hsc hts hte hbc hsz hst hbs hbst⟩

theorem roundtrip (N : Nat) (b : Bed) (h : WF N b) :
    ∃ line, encodeLine b = some line ∧ (splitOn TAB line).length = N ∧
      parseLine (splitOn TAB line) = some (truncate N b) := by
  obtain ⟨he, hl⟩ := lineOK_of_WF N b h
  exact ⟨_, he, hl.len, hl.parse⟩

example : WF 12 ex12 ∧ truncate 12 ex12 = ex12 := by decide
example : WF 3 ex3 ∧ truncate 3 ex3 ≠ ex3 := by decide
/-- The line written for `ex12` (chr1, -5, maxInt64, `"a"\0\xFF# `, minInt64, `-`, 0, -1, `255,0,7`, 2, `10,-20`, `0,300`). -/
example : encodeLine ex12 = some
    [99, 104, 114, 49, 9, 45, 53, 9, 57, 50, 50, 51, 51, 55, 50, 48, 51, 54, 56, 53, 52, 55, 55, 53, 56, 48, 55, 9,
     34, 97, 34, 0, 255, 35, 32, 9, 45, 57, 50, 50, 51, 51, 55, 50, 48, 51, 54, 56, 53, 52, 55, 55, 53, 56, 48, 56,
     9, 45, 9, 48, 9, 45, 49, 9, 50, 53, 53, 44, 48, 44, 55, 9, 50, 9, 49, 48, 44, 45, 50, 48, 9, 48, 44, 51, 48, 48] := by
  decide +kernel
/-- Empty chrom, three fields: the line starts with a TAB. -/
example : encodeLine ex3 = some
    [9, 45, 53, 9, 57, 50, 50, 51, 51, 55, 50, 48, 51, 54, 56, 53, 52, 55, 55, 53, 56, 48, 55] := by
  decide +kernel
example : parseLine (splitOn TAB ((encodeLine ex12).getD [])) = some ex12 := by decide +kernel
example : parseLine (splitOn TAB ((encodeLine ex3).getD [])) = some (truncate 3 ex3) := by decide +kernel

/-- 10 fields and block count 2 DO round-trip (since the reader's repair): the lists are
not written, the reader reports block count 2 and empty lists. -/
example : parseLine (splitOn TAB ((encodeLine { ex12 with n := 10 }).getD []))
    = some (truncate 10 { ex12 with n := 10 }) := by decide +kernel
example : (truncate 10 { ex12 with n := 10 }).blockCount = 2 ∧
    (truncate 10 { ex12 with n := 10 }).blockSizes = [] ∧
    (truncate 10 { ex12 with n := 10 }).blockStarts = [] := by decide
example : parseLine (splitOn TAB ((encodeLine ex10).getD [])) = some (truncate 10 ex10) := by
  decide +kernel
/-- 11 fields, sizes = count = 2, three unwritten starts: round-trips, the starts read back empty. -/
example : parseLine (splitOn TAB ((encodeLine ex11).getD [])) = some (truncate 11 ex11) := by
  decide +kernel
example : (truncate 11 ex11).blockCount = 2 ∧ (truncate 11 ex11).blockSizes = [10, -20] ∧
    (truncate 11 ex11).blockStarts = [] := by decide
/-- The block clause of `WF` is needed from 11 fields on.  12 fields, one size for block
count 2: the writer writes the line, the reader rejects it. -/
example : (encodeLine { ex12 with blockSizes := [10] }).isSome ∧
    parseLine (splitOn TAB ((encodeLine { ex12 with blockSizes := [10] }).getD [])) = none := by
  decide +kernel
/-- 12 fields, three starts for block count 2: rejected. -/
example : (encodeLine { ex12 with blockStarts := [0, 300, 5] }).isSome ∧
    parseLine (splitOn TAB ((encodeLine { ex12 with blockStarts := [0, 300, 5] }).getD [])) = none := by
  decide +kernel
/-- 11 fields, one size for block count 2: rejected. -/
example : (encodeLine { ex12 with n := 11, blockSizes := [10] }).isSome ∧
    parseLine (splitOn TAB ((encodeLine { ex12 with n := 11, blockSizes := [10] }).getD [])) = none := by
  decide +kernel
/-- The `#` clause of `WF` is needed: a chrom starting with `#` makes the line a comment. -/
example : decode ((encode { ex12 with chrom := [35, 49] }).getD []) = [] := by decide +kernel

/-! ## 2. The writer -/

theorem write_refuses (b : Bed) (h : b.n < 3 ∨ b.n > 12) : encode b = none := by
  simp [encode, encodeLine, h]

theorem encode_some (b : Bed) (h : 3 ≤ b.n ∧ b.n ≤ 12) : (encode b).isSome := by
  have : ¬ (b.n < 3 ∨ b.n > 12) := by omega
  simp [encode, encodeLine, this]

example : ({ ex12 with n := 2 } : Bed).n < 3 ∨ ({ ex12 with n := 2 } : Bed).n > 12 := by decide
example : ({ ex12 with n := -1 } : Bed).n < 3 ∨ ({ ex12 with n := -1 } : Bed).n > 12 := by decide
example : ({ ex12 with n := 13 } : Bed).n < 3 ∨ ({ ex12 with n := 13 } : Bed).n > 12 := by decide
example : 3 ≤ ex3.n ∧ ex3.n ≤ 12 := by decide

/-- What is written for a well-formed record is exactly one line: `line ++ [LF]`
with `line` free of LF and CR, non-empty and not a comment. -/
theorem encode_one_line (N : Nat) (b : Bed) (h : WF N b) :
    ∃ line, encode b = some (line ++ [LF]) ∧ encodeLine b = some line ∧
      (∀ c ∈ line, c ≠ 10 ∧ c ≠ 13) ∧ line ≠ [] ∧ line.head? ≠ some 35 ∧ isSkipped line = false := by
  obtain ⟨he, hl⟩ := lineOK_of_WF N b h
  have := not_skipped_shape _ hl.notSkipped
  exact ⟨_, by simp [encode, he], he, hl.noNL, this.1, this.2, hl.notSkipped⟩

/-! ## 3. File round trip -/

private theorem spec_of_WF (N : Nat) (b : Bed) (h : WF N b) :
    Spec N ((encodeLine b).getD []) (some (truncate N b)) := by
  obtain ⟨he, hl⟩ := lineOK_of_WF N b h
  simpa [he, Spec] using hl

/-- LF-terminated records. -/
theorem file_roundtrip (N : Nat) (bs : List Bed) (h : ∀ b ∈ bs, WF N b) :
    decode (bs.map fun b => (encodeLine b).getD [] ++ [10]).flatten
      = bs.map (fun b => Item.ok (truncate N b)) := by
  have := decode_file N (fun b => (encodeLine b).getD []) (fun _ => false)
    (fun b => some (truncate N b)) bs (fun b hb => spec_of_WF N b (h b hb))
  simpa [term, List.filterMap_eq_map, Function.comp_def] using this

/-- The file really is what the writer produces: the concatenation of `encode`. -/
theorem file_roundtrip_encode (N : Nat) (bs : List Bed) (h : ∀ b ∈ bs, WF N b) :
    decode (bs.map fun b => (encode b).getD []).flatten
      = bs.map (fun b => Item.ok (truncate N b)) := by
  have hmap : (bs.map fun b => (encode b).getD []) = bs.map fun b => (encodeLine b).getD [] ++ [10] := by
    apply List.map_congr_left
    intro b hb
    obtain ⟨line, h1, h2, _⟩ := encode_one_line N b (h b hb)
    simp [h1, h2, LF]
  rw [hmap]; exact file_roundtrip N bs h

/-- CR LF terminated records. -/
theorem file_roundtrip_crlf (N : Nat) (bs : List Bed) (h : ∀ b ∈ bs, WF N b) :
    decode (bs.map fun b => (encodeLine b).getD [] ++ [13, 10]).flatten
      = bs.map (fun b => Item.ok (truncate N b)) := by
  have := decode_file N (fun b => (encodeLine b).getD []) (fun _ => true)
    (fun b => some (truncate N b)) bs (fun b hb => spec_of_WF N b (h b hb))
  simpa [term, List.filterMap_eq_map, Function.comp_def] using this

/-- The last record without a line terminator. -/
theorem file_roundtrip_no_final_lf (N : Nat) (bs : List Bed) (last : Bed)
    (h : ∀ b ∈ bs, WF N b) (hlast : WF N last) :
    decode ((bs.map fun b => (encodeLine b).getD [] ++ [10]).flatten ++ (encodeLine last).getD [])
      = (bs ++ [last]).map (fun b => Item.ok (truncate N b)) := by
  have := decode_file_last N (fun b => (encodeLine b).getD []) (fun _ => false)
    (fun b => some (truncate N b)) bs (fun b hb => spec_of_WF N b (h b hb))
    ((encodeLine last).getD []) (truncate N last) (spec_of_WF N last hlast)
  simpa [term, List.filterMap_eq_map, Function.comp_def] using this

private theorem entry_spec (N : Nat) (e : Entry) (h : e.OK N) : Spec N e.line (e.out N) := by
  cases e with
  | record b c => exact spec_of_WF N b h
  | skip l c => exact ⟨h.2, h.1⟩

private theorem entry_bytes (es : List Entry) :
    (es.map fun e => e.line ++ term e.crlf) = es.map Entry.bytes := by
  apply List.map_congr_left
  intro e _
  simp [Entry.bytes, term, lineEnd]

/-- Records mixed with blank lines and `#` comment lines, each line ending in
LF or CR LF. -/
theorem file_roundtrip_mixed (N : Nat) (es : List Entry) (h : ∀ e ∈ es, e.OK N) :
    decode (es.map Entry.bytes).flatten = (es.filterMap (Entry.out N)).map Item.ok := by
  have := decode_file N Entry.line Entry.crlf (Entry.out N) es (fun e he => entry_spec N e (h e he))
  rw [entry_bytes] at this
  exact this

/-- Same, with a final record that has no line terminator. -/
theorem file_roundtrip_mixed_no_final_lf (N : Nat) (es : List Entry) (last : Bed)
    (h : ∀ e ∈ es, e.OK N) (hlast : WF N last) :
    decode ((es.map Entry.bytes).flatten ++ (encodeLine last).getD [])
      = (es.filterMap (Entry.out N)).map Item.ok ++ [Item.ok (truncate N last)] := by
  have := decode_file_last N Entry.line Entry.crlf (Entry.out N) es
    (fun e he => entry_spec N e (h e he))
    ((encodeLine last).getD []) (truncate N last) (spec_of_WF N last hlast)
  rw [entry_bytes] at this
  exact this

example : ∀ b ∈ [ex12, { ex12 with name := [], blockCount := 0, blockSizes := [], blockStarts := [] }],
    WF 12 b := by decide
example : ∀ b ∈ [ex3, ex3], WF 3 b := by decide
example : ∀ e ∈ [Entry.skip [35, 9, 120] true, Entry.record ex12 false, Entry.skip [] false,
    Entry.record ex12 true, Entry.skip [35] false], e.OK 12 := by decide

/-- Concrete instance, evaluated directly on the model: comment (CR LF), record, blank line,
record (CR LF), comment. -/
example : decode ([Entry.skip [35, 9, 120] true, Entry.record ex12 false, Entry.skip [] false,
      Entry.record ex12 true, Entry.skip [35] false].map Entry.bytes).flatten
    = [Item.ok ex12, Item.ok ex12] := by decide +kernel

/-! ## 4. An error ends the iteration -/

/-- Whatever the bytes and however the source ends: if the reader's output
contains an error item, nothing follows it. -/
theorem err_only_last (e : Ending) (x : Bytes) (pre post : List (Item Bed))
    (h : decodeSrc e x = pre ++ Item.err :: post) : post = [] :=
  fromLines_errLast e _ none pre post h

/-- Index form: an error item sits at the last position. -/
theorem err_only_last_idx (e : Ending) (x : Bytes) (i : Nat)
    (h : (decodeSrc e x)[i]? = some Item.err) : i + 1 = (decodeSrc e x).length := by
  have hi : i < (decodeSrc e x).length := by
    rcases Nat.lt_or_ge i (decodeSrc e x).length with hlt | hge
    · exact hlt
    · rw [List.getElem?_eq_none hge] at h; cases h
  have hget : (decodeSrc e x)[i] = Item.err := by
    rw [List.getElem?_eq_getElem hi] at h; exact Option.some.inj h
  have hsplit : decodeSrc e x = (decodeSrc e x).take i ++ Item.err :: (decodeSrc e x).drop (i + 1) := by
    rw [← hget, ← List.drop_eq_getElem_cons hi, List.take_append_drop]
  have hpost := err_only_last e x _ _ hsplit
  have := congrArg List.length hpost
  simp at this
  omega

/-- The record read from the line `a<TAB>1<TAB>2`. -/
def exA : Bed :=
  { n := 3, chrom := [97], chromStart := 1, chromEnd := 2, name := [], score := 0, strand := [],
    thickStart := 0, thickEnd := 0, rgb := (0, 0, 0), blockCount := 0, blockSizes := [],
    blockStarts := [] }

/-- Instances with an error item: a non-numeric start; a field-count change; a failing source. -/
example : decodeSrc .eof [97, 9, 98, 9, 99, 10, 97, 9, 49, 9, 50, 10] = [Item.err] := by decide +kernel
example : decodeSrc .eof [97, 9, 49, 9, 50, 10, 97, 9, 49, 9, 50, 9, 120, 10, 97, 9, 49, 9, 50, 10]
    = [Item.ok exA, Item.err] := by decide +kernel
example : decodeSrc .fail [97, 9, 49, 9, 50, 10, 97, 9, 49] = [Item.ok exA, Item.err] := by decide +kernel

/-! ## 5. Source failing after k bytes of a well-formed file -/

theorem fault_prefix_wf (N : Nat) (bs : List Bed) (h : ∀ b ∈ bs, WF N b) (k : Nat) :
    ∃ n, decodeSrc .fail ((bs.map fun b => (encodeLine b).getD [] ++ [10]).flatten.take k)
      = (bs.take n).map (fun b => Item.ok (truncate N b)) ++ [Item.err] := by
  exact fault_prefix N (fun b => (encodeLine b).getD []) (truncate N) bs
    (fun b hb => spec_of_WF N b (h b hb)) none (Or.inl rfl) k

/-- Cutting the two-record file of `ex12` inside the second record: one record, then the error. -/
example : decodeSrc .fail (([ex12, ex12].map fun b => (encodeLine b).getD [] ++ [10]).flatten.take 120)
    = [Item.ok ex12, Item.err] := by decide +kernel
example : ∀ b ∈ [ex12, ex12], WF 12 b := by decide

end Bio.Bed
