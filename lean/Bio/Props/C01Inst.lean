/-
  C01 for the line width observed on the running code (regenerated).
-/
import Bio.Props.C01
import Bio.Generated.Tables
namespace Bio.Fasta

theorem generated_width : Generated.fastaLineLen = 80 := by decide

theorem generated_roundtrip (rs : List Fa) (h : ∀ r ∈ rs, WF r) :
    decode (encodeAll Generated.fastaLineLen rs) = rs.map Item.ok :=
  roundtrip _ (by decide) rs h

theorem generated_lines_le_80 (s : Bytes) : ∀ l ∈ wrap Generated.fastaLineLen s, l.length ≤ 80 := by
  intro l hl
  have := (wrap_lines Generated.fastaLineLen (by decide) s).1 l hl
  rw [generated_width] at this; exact this.2

end Bio.Fasta
