/-
  Property C03: formats/sam record and file round trips, one record per line,
  local line errors, fault prefix.

  The float codec `pf` (assumed `FormatFloat ∘ ParseFloat`) is a parameter; the only
  assumption about it sits inside `WF`: an `F t` tag of the record satisfies
  `pf t = some t` (its token is canonical).

  Vocabulary (defined in `Bio/Lemmas/Sam.lean`, all decidable):
  * `textOK s`   : `s` is free of TAB, LF, CR
  * `lineOK s`   : `s` is free of LF, CR
  * `nameOK n`   : `n` is free of colon, TAB, LF, CR (no length restriction is needed:
                   the parser's map insertion re-sorts by name, so the sort order of the
                   *texts* is irrelevant for the round trip)
  * `WFVal pf v` / `WF pf s` : as in the task statement
  * `hdrOK h`    : `h.head? = some 64 ∧ lineOK h`
  * `plainLine l`: `10 ∉ l ∧ l.getLast? ≠ some 13`
  * `lfFile ls = (ls.map (· ++ [10])).flatten`, `crlfFile ls = (ls.map (· ++ [13,10])).flatten`
-/
import Bio.Lemmas.Sam
namespace Bio.Sam
open Bio

/-! ## Example data used by the non-vacuity checks -/

/-- Accepts exactly the canonical token `1.5e+00`. -/
def exPf : Bytes → Option Bytes :=
  fun t => if t = [49, 46, 53, 101, 43, 48, 48] then some t else none

/-- A record with double quotes, 0x00, 0xFF, an empty field, negative and extreme ints, and
one tag of each of the five types (the `Z` value contains colons and a double quote). -/
def exSam : Sam :=
  { qname := [114, 34, 49], flag := 99, rname := [], pos := -5, mapq := 60,
    cigar := [42], rnext := [61], pnext := 0, tlen := 9223372036854775807,
    seq := [65, 0, 255], qual := [34, 33, 34],
    tags := [([65, 65], .A 34), ([78, 77], .I (-3)),
             ([88, 70], .F [49, 46, 53, 101, 43, 48, 48]),
             ([88, 72], .H [0, 255, 16]), ([88, 90], .Z [58, 34, 58, 32])] }

/-- A second record: empty qname, no tags. -/
def exSam2 : Sam :=
  { qname := [], flag := 0, rname := [42], pos := 0, mapq := 255, cigar := [42], rnext := [42],
    pnext := -9223372036854775808, tlen := 0, seq := [42], qual := [34], tags := [] }

def exHs : List Bytes := [[64, 72, 68, 9, 86, 78, 58, 49], [64]]
def exRs : List Sam := [exSam, exSam2, exSam]

theorem exSam_WF : WF exPf exSam := by decide
theorem exSam2_WF : WF exPf exSam2 := by decide
theorem exHs_ok : ∀ h ∈ exHs, hdrOK h := by decide
theorem exRs_ok : ∀ s ∈ exRs, WF exPf s := by decide

/-! ## 1. Record round trip -/

theorem record_roundtrip (pf : Bytes → Option Bytes) (s : Sam) (h : WF pf s) :
    parseLine pf (splitOn TAB (encodeLine s)) = some s := by
  rw [splitOn_encodeLine pf h]; exact parseLine_fields pf h

example : WF exPf exSam := exSam_WF
example : parseLine exPf (splitOn TAB (encodeLine exSam)) = some exSam :=
  record_roundtrip _ _ exSam_WF

/-! ## 2. One record per line, sorted tags, write calls -/

theorem one_line (pf : Bytes → Option Bytes) (s : Sam) (h : WF pf s) :
    (10 : UInt8) ∉ encodeLine s ∧ (13 : UInt8) ∉ encodeLine s ∧
    encode s = encodeLine s ++ [10] ∧ encodeLine s ≠ [] :=
  have hl := encodeLine_textOK_or_tab pf h
  ⟨fun hm => (hl _ hm).1 rfl, fun hm => (hl _ hm).2 rfl, rfl, encodeLine_ne_nil s⟩

example : WF exPf exSam2 := exSam2_WF

theorem tags_sorted (s : Sam) :
    List.Pairwise (fun a b => bytesLe a b = true) (tagsToText s.tags) :=
  sortBytes_sorted _

theorem writeCalls_flatten (s : Sam) : (writeCalls s).flatten = encode s :=
  writeCalls_flatten' s

/-! ## 3. File round trip -/

theorem file_roundtrip (pf : Bytes → Option Bytes) (hs : List Bytes) (rs : List Sam)
    (hh : ∀ h ∈ hs, hdrOK h) (hr : ∀ s ∈ rs, WF pf s) :
    decodeHeader pf ((hs ++ rs.map encodeLine).map (· ++ [10])).flatten =
      hs.map (fun h => Item.ok (Entry.hdr h)) ++ rs.map (fun s => Item.ok (Entry.sam s)) ∧
    decode pf ((hs ++ rs.map encodeLine).map (· ++ [10])).flatten = rs.map Item.ok := by
  have e : decodeHeader pf ((hs ++ rs.map encodeLine).map (· ++ [10])).flatten =
      hs.map (fun h => Item.ok (Entry.hdr h)) ++ rs.map (fun s => Item.ok (Entry.sam s)) := by
    rw [← itemsOfLines_samLines pf hs rs hh hr]
    exact decodeHeader_lfFile pf _ (samLines_plain pf hs rs hh hr)
  refine ⟨e, ?_⟩
  rw [decode_eq, e, dropHeaders_samItems]

example : (∀ h ∈ exHs, hdrOK h) ∧ (∀ s ∈ exRs, WF exPf s) := ⟨exHs_ok, exRs_ok⟩

/-- CRLF variant: every line terminated by CR LF. -/
theorem file_roundtrip_crlf (pf : Bytes → Option Bytes) (hs : List Bytes) (rs : List Sam)
    (hh : ∀ h ∈ hs, hdrOK h) (hr : ∀ s ∈ rs, WF pf s) :
    decodeHeader pf ((hs ++ rs.map encodeLine).map (· ++ [13, 10])).flatten =
      hs.map (fun h => Item.ok (Entry.hdr h)) ++ rs.map (fun s => Item.ok (Entry.sam s)) ∧
    decode pf ((hs ++ rs.map encodeLine).map (· ++ [13, 10])).flatten = rs.map Item.ok := by
  have e : decodeHeader pf ((hs ++ rs.map encodeLine).map (· ++ [13, 10])).flatten =
      hs.map (fun h => Item.ok (Entry.hdr h)) ++ rs.map (fun s => Item.ok (Entry.sam s)) := by
    rw [← itemsOfLines_samLines pf hs rs hh hr]
    exact decodeHeader_crlfFile pf _ (fun l hl => (samLines_plain pf hs rs hh hr l hl).1)
  refine ⟨e, ?_⟩
  rw [decode_eq, e, dropHeaders_samItems]

/-- Missing final newline: the last record `r` is not LF-terminated. -/
theorem file_roundtrip_no_final_newline (pf : Bytes → Option Bytes) (hs : List Bytes)
    (rs : List Sam) (r : Sam)
    (hh : ∀ h ∈ hs, hdrOK h) (hr : ∀ s ∈ rs, WF pf s) (hlast : WF pf r) :
    decodeHeader pf (((hs ++ rs.map encodeLine).map (· ++ [10])).flatten ++ encodeLine r) =
      hs.map (fun h => Item.ok (Entry.hdr h)) ++
        (rs ++ [r]).map (fun s => Item.ok (Entry.sam s)) ∧
    decode pf (((hs ++ rs.map encodeLine).map (· ++ [10])).flatten ++ encodeLine r) =
      (rs ++ [r]).map Item.ok := by
  have hr' : ∀ s ∈ rs ++ [r], WF pf s := by
    intro s hs'
    rcases List.mem_append.1 hs' with h | h
    · exact hr s h
    · simp at h; subst h; exact hlast
  have e : decodeHeader pf (((hs ++ rs.map encodeLine).map (· ++ [10])).flatten ++ encodeLine r) =
      hs.map (fun h => Item.ok (Entry.hdr h)) ++
        (rs ++ [r]).map (fun s => Item.ok (Entry.sam s)) := by
    rw [← itemsOfLines_samLines pf hs (rs ++ [r]) hh hr']
    have := decodeHeader_lfFile_last pf (hs ++ rs.map encodeLine) (encodeLine r)
      (samLines_plain pf hs rs hh hr) (encodeLine_ne_nil r) (encodeLine_plain pf hlast)
    have e2 : hs ++ List.map encodeLine (rs ++ [r]) = hs ++ rs.map encodeLine ++ [encodeLine r] := by
      simp
    rw [e2]
    exact this
  refine ⟨e, ?_⟩
  rw [decode_eq, e, dropHeaders_samItems]

example : (∀ h ∈ exHs, hdrOK h) ∧ (∀ s ∈ exRs, WF exPf s) ∧ WF exPf exSam2 :=
  ⟨exHs_ok, exRs_ok, exSam2_WF⟩

/-! ## 4. A bad line yields exactly one error item, in place -/

theorem line_error_local (pf : Bytes → Option Bytes) (pre post : List Bytes) (l' : Bytes)
    (hpre : ∀ l ∈ pre, plainLine l) (hpost : ∀ l ∈ post, plainLine l)
    (hl : plainLine l') (hne : l' ≠ []) (h64 : l'.head? ≠ some 64)
    (hbad : parseLine pf (splitOn TAB l') = none) :
    decodeHeader pf (lfFile (pre ++ [l'] ++ post)) =
      decodeHeader pf (lfFile pre) ++ [Item.err] ++ decodeHeader pf (lfFile post) ∧
    decode pf (lfFile (pre ++ [l'] ++ post)) =
      decode pf (lfFile pre) ++ [Item.err] ++ decode pf (lfFile post) := by
  have hall : ∀ l ∈ pre ++ [l'] ++ post, plainLine l := by
    intro l hm
    simp only [List.mem_append, List.mem_singleton] at hm
    rcases hm with (hm | hm) | hm
    · exact hpre l hm
    · subst hm; exact hl
    · exact hpost l hm
  have e : decodeHeader pf (lfFile (pre ++ [l'] ++ post)) =
      decodeHeader pf (lfFile pre) ++ [Item.err] ++ decodeHeader pf (lfFile post) := by
    rw [decodeHeader_lfFile pf _ hall, decodeHeader_lfFile pf _ hpre,
      decodeHeader_lfFile pf _ hpost, itemsOfLines_append, itemsOfLines_append,
      itemsOfLines_cons pf hne, lineItem_bad pf h64 hbad, itemsOfLines_nil]
  refine ⟨e, ?_⟩
  rw [decode_eq, e, dropHeaders_append, dropHeaders_append]
  rfl

example : lfFile [[97], [98, 99]] = [97, 10, 98, 99, 10] := by decide

/-- Non-vacuity: surrounding lines include a header, an empty line, another bad line and a
good record; the bad line has three fields. -/
example :
    let pre : List Bytes := [[64, 72, 68], [], [120, 9, 121]]
    let post : List Bytes := [[], [34, 34]]
    let l' : Bytes := [97, 34, 9, 98, 9, 99]
    (∀ l ∈ pre, plainLine l) ∧ (∀ l ∈ post, plainLine l) ∧ plainLine l' ∧ l' ≠ [] ∧
    l'.head? ≠ some 64 ∧ parseLine exPf (splitOn TAB l') = none := by decide

example : plainLine (encodeLine exSam) := encodeLine_plain exPf exSam_WF

/-- Corruption kind 1: fewer than 11 fields. -/
theorem corrupt_too_few_fields (pf : Bytes → Option Bytes) (fs : List Bytes)
    (h : fs.length < 11) : parseLine pf fs = none :=
  parseLine_too_few pf fs h

example : (splitOn TAB [97, 9, 98, 9, 9, 99]).length < 11 := by decide

/-- Corruption kind 2: one of the five integer fields (indices 1, 3, 4, 7, 8) is not accepted
by `atoi`. -/
theorem corrupt_bad_int (pf : Bytes → Option Bytes) (fs : List Bytes)
    (h : ∃ i ∈ [1, 3, 4, 7, 8], ∃ f, fs[i]? = some f ∧ atoi f = none) :
    parseLine pf fs = none :=
  parseLine_bad_int pf fs h

example : ∃ i ∈ [1, 3, 4, 7, 8], ∃ f,
    ([[113], [48], [42], [49], [49, 120], [42], [42], [48], [48], [42], [42]] : List Bytes)[i]?
      = some f ∧ atoi f = none :=
  ⟨4, by decide, [49, 120], by decide, by decide⟩

/-- What "non-numeric" means concretely: a byte that is neither a digit nor a sign, or the
empty string, makes `atoi` fail. -/
theorem atoi_nonnumeric (s : Bytes)
    (h : s = [] ∨ ∃ b ∈ s, isDigit b = false ∧ b ≠ 43 ∧ b ≠ 45) : atoi s = none := by
  rcases h with h | h
  · subst h; exact atoi_nil
  · exact atoi_none_of_nondigit h

example : ∃ b ∈ ([49, 120] : Bytes), isDigit b = false ∧ b ≠ 43 ∧ b ≠ 45 := by decide

/-- Corruption kind 3: a tag field with fewer than two colons. -/
theorem corrupt_tag_few_colons (pf : Bytes → Option Bytes) (fs : List Bytes) (f : Bytes)
    (hf : f ∈ fs.drop 11) (hc : f.count 58 < 2) : parseLine pf fs = none :=
  parseLine_none_of_tag pf fs hf (parseTag_none_of_splitTag (splitTag_none_of_count hc))

example : ([78, 77, 58, 105, 49] : Bytes) ∈
    ([[113], [48], [42], [49], [49], [42], [42], [48], [48], [42], [42],
      [78, 77, 58, 105, 49]] : List Bytes).drop 11 ∧
    ([78, 77, 58, 105, 49] : Bytes).count 58 < 2 := by decide

/-- Corruption kind 4: a tag `name:ty:val` whose value its type rejects (`A` with length ≠ 1,
`i` rejected by `atoi`, `H` of odd length), or whose type is unknown. -/
theorem corrupt_tag_bad_value (pf : Bytes → Option Bytes) (fs : List Bytes)
    (name ty val : Bytes)
    (hf : name ++ 58 :: (ty ++ 58 :: val) ∈ fs.drop 11)
    (hn : (58 : UInt8) ∉ name) (ht : (58 : UInt8) ∉ ty)
    (hbad : (ty = [65] ∧ val.length ≠ 1) ∨ (ty = [105] ∧ atoi val = none) ∨
            (ty = [72] ∧ val.length % 2 = 1) ∨
            ty ∉ [[65], [105], [102], [90], [72], [66]]) :
    parseLine pf fs = none := by
  apply parseLine_none_of_tag pf fs hf
  apply parseTag_bad_value pf val hn ht
  rcases hbad with ⟨rfl, h⟩ | ⟨rfl, h⟩ | ⟨rfl, h⟩ | h
  · exact parseTagVal_A_bad pf h
  · exact parseTagVal_i_bad pf h
  · exact parseTagVal_H_bad pf h
  · exact parseTagVal_unknown pf val h

/-- Non-vacuity for each disjunct of `hbad` (`XX:A:ab`, `XX:i:1x`, `XX:H:abc`, `XX:q:1`). -/
example :
    (([65] : Bytes) = [65] ∧ ([97, 98] : Bytes).length ≠ 1) ∧
    (([105] : Bytes) = [105] ∧ atoi [49, 120] = none) ∧
    (([72] : Bytes) = [72] ∧ ([97, 98, 99] : Bytes).length % 2 = 1) ∧
    (([113] : Bytes) ∉ ([[65], [105], [102], [90], [72], [66]] : List Bytes)) ∧
    ([88, 88] : Bytes) ++ 58 :: (([113] : Bytes) ++ 58 :: [49]) ∈
      ([[113], [48], [42], [49], [49], [42], [42], [48], [48], [42], [42],
        [88, 88, 58, 113, 58, 49]] : List Bytes).drop 11 ∧
    (58 : UInt8) ∉ ([88, 88] : Bytes) ∧ (58 : UInt8) ∉ ([113] : Bytes) := by decide

/-! ## 5. Read fault: a prefix of the fault-free items, then one error, nothing else -/

/-- General form, for any file of LF-terminated plain lines. -/
theorem fault_prefix_lines (pf : Bytes → Option Bytes) (ls : List Bytes)
    (h : ∀ l ∈ ls, plainLine l) (k : Nat) :
    (∃ n, decodeHeaderSrc pf .fail ((lfFile ls).take k) =
      (decodeHeader pf (lfFile ls)).take n ++ [Item.err]) ∧
    (∃ n, decodeSrc pf .fail ((lfFile ls).take k) =
      (decode pf (lfFile ls)).take n ++ [Item.err]) := by
  obtain ⟨n, hn⟩ := decodeHeaderSrc_fail_take pf ls h k
  obtain ⟨m, hm⟩ := itemsOfLines_take pf ls n
  have e : decodeHeaderSrc pf .fail ((lfFile ls).take k) =
      (decodeHeader pf (lfFile ls)).take m ++ [Item.err] := by
    rw [hn, hm, decodeHeader_lfFile pf ls h]
  refine ⟨⟨m, e⟩, ?_⟩
  obtain ⟨j, hj⟩ := dropHeaders_take (decodeHeader pf (lfFile ls)) m
  refine ⟨j, ?_⟩
  show dropHeaders (decodeHeaderSrc pf .fail ((lfFile ls).take k)) = _
  rw [e, dropHeaders_append, hj]
  rfl

theorem fault_prefix (pf : Bytes → Option Bytes) (hs : List Bytes) (rs : List Sam)
    (hh : ∀ h ∈ hs, hdrOK h) (hr : ∀ s ∈ rs, WF pf s) (k : Nat) :
    (∃ n, decodeHeaderSrc pf .fail
        (((hs ++ rs.map encodeLine).map (· ++ [10])).flatten.take k) =
      (decodeHeader pf ((hs ++ rs.map encodeLine).map (· ++ [10])).flatten).take n
        ++ [Item.err]) ∧
    (∃ n, decodeSrc pf .fail
        (((hs ++ rs.map encodeLine).map (· ++ [10])).flatten.take k) =
      (decode pf ((hs ++ rs.map encodeLine).map (· ++ [10])).flatten).take n
        ++ [Item.err]) :=
  fault_prefix_lines pf _ (samLines_plain pf hs rs hh hr) k

example : (∀ h ∈ exHs, hdrOK h) ∧ (∀ s ∈ exRs, WF exPf s) := ⟨exHs_ok, exRs_ok⟩
example : ∀ l ∈ ([[64, 72, 68], [], [120, 9, 121]] : List Bytes), plainLine l := by decide

end Bio.Sam
