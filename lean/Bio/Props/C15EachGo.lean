/-
  C15 / C18 for the Go SOURCE TEXT of trie/trie.go, second half: `(*Trie).keys` and
  `(*Trie).ForEach`, translated statement by statement on every run into
  `Bio.Generated.GoSrc.Trie_keys` / `Trie_ForEach`.

  Conventions of the translation (as for `New` / `Add` / `Has` / `Delete`, see `Bio.Props.C15Go`):
  `*Trie` values live in the explicit `heap : List (List (UInt8 × Int))`, a pointer is an index,
  `nil = -1`.  New here:
  * the `*forEachStep` values (fields `t *Trie`, `k []byte`, `i int`) never leave the function, so
    their cells live in a FUNCTION-LOCAL heap that starts empty; the Go stack is a list of indices
    into it (top frame last), `step.i++` is a write into it;
  * `for k := range t.m` visits the association list in LIST order.  Go's map order is unspecified;
    the theorems below hold for EVERY heap that represents the trie, i.e. for every list
    representing each map, hence for every order Go may pick (the model trie `t` carries the order);
  * the callback `f func([]byte) bool` is a history consumer `h : List Bytes → Bool` (asked about
    all items handed to it so far, the current one last), the result is the LOG of items handed to it;
  * the `for { }` loop runs at most `fuel` iterations; `none` = a Go panic or out of fuel.

  Proved: for every `heap`, `root`, `t` with `HWF heap root` and `Rep heap root t`, every history
  consumer `h` and every `fuel ≥ 2 * t.size + 1` (sharp: `go_ForEach_fuel_sharp`)

      Trie_ForEach fuel heap root h = some (IterH.forEachLogH h t)

  — the translated explicit-stack loop is the hand model's `eachLoopH` step for step (one Go
  iteration = one model step; `Bio.GoSrcLemmas.TrieEach.each_loop`, relation `Sim`) — and from it,
  on the source level, C18Hist's early-stop law, C15's "exactly the members, each once", no panic,
  dependence on the heap only through the footprint, and the `ForEach` half of "the trie behaves as
  a set under any history".
  Guarded by the translator's `<f>_Found` flags (see `Bio.Lemmas.GoSrc`).
-/
import Bio.Lemmas.GoSrcTrieEach
import Bio.Props.C15Go
import Bio.Props.C18Hist
namespace Bio.Props.C15EachGo
open Bio Bio.GoRt Bio.Generated Bio.GoSrcLemmas Bio.GoSrcLemmas.TrieGo Bio.GoSrcLemmas.TrieEach Bio.Trie
open Bio.Props.C15Go (heapA trieA heapA_ok heapG heapG_ok opsEx)

/-- every translator flag this file depends on; the non-vacuity examples below are stated as
`allFound = false ∨ …` so that a source the translator no longer recognises is not an alarm -/
def allFound : Bool :=
  GoSrc.New_Found && GoSrc.Trie_Add_Found && GoSrc.Trie_Delete_Found && GoSrc.Trie_keys_Found &&
    GoSrc.Trie_ForEach_Found

/-! ## 1. `keys` -/

/-- `keys` of a node = the keys of its edge list, in list order (the order `range` visits them in);
`none` (a nil-pointer panic) exactly for a nil or dangling pointer. -/
theorem go_keys : GoSrc.Trie_keys_Found = true → ∀ (heap : Heap) (p : Int),
    (∀ (n : Nat) (es : List (UInt8 × Int)), p = (n : Int) → heap[n]? = some es →
      GoSrc.Trie_keys heap p = some (es.map (·.1))) ∧
    (GoSrc.Trie_keys heap p = none ↔ (p < 0 ∨ (heap.length : Int) ≤ p)) := by
  intro hK heap p
  refine ⟨?_, Trie_keys_none hK heap p⟩
  rintro n es rfl hn
  exact Trie_keys_eq hK heap n es hn

example : (0 : Int) = ((0 : Nat) : Int) ∧ heapA[0]? = some [(97, 1), (98, 4)] := by decide

example : allFound = false ∨
    (GoSrc.Trie_keys heapA 0 = some [97, 98] ∧ GoSrc.Trie_keys heapA 1 = some [98, 99] ∧
     GoSrc.Trie_keys heapA 2 = some [] ∧ GoSrc.Trie_keys heapA (-1) = none ∧
     GoSrc.Trie_keys heapA 5 = none) := by decide

/-! ## 2. `ForEach` is the model's explicit-stack loop -/

/-- THE statement: on an invariant heap the translated `ForEach` logs exactly what the hand model
`IterH.forEachLogH` logs, for EVERY deterministic consumer (stateful ones included), and the loop
ends by itself within `2 * size + 1` iterations. -/
theorem go_ForEach : GoSrc.Trie_ForEach_Found = true → GoSrc.Trie_keys_Found = true →
    ∀ (heap : Heap) (root : Int) (t : T) (h : List Bytes → Bool) (fuel : Nat),
      HWF heap root → Rep heap root t → 2 * t.size + 1 ≤ fuel →
      GoSrc.Trie_ForEach fuel heap root h = some (IterH.forEachLogH h t) := by
  intro hF hK heap root t h fuel hw hr hf
  obtain ⟨n, S, rfl, hg⟩ := good_of hw hr
  exact ForEach_eq hF hK heap n t S h fuel hg hf

/-- … step for step: the result is the model MACHINE `eachLoopH` started on the root frame, for any
model fuel `m ≥ 2 * size + 1` (the model's own `2 * size + 2` is one more than needed). -/
theorem go_ForEach_machine : GoSrc.Trie_ForEach_Found = true → GoSrc.Trie_keys_Found = true →
    ∀ (heap : Heap) (root : Int) (t : T) (h : List Bytes → Bool) (fuel m : Nat),
      HWF heap root → Rep heap root t → 2 * t.size + 1 ≤ fuel → 2 * t.size + 1 ≤ m →
      GoSrc.Trie_ForEach fuel heap root h = some (IterH.eachLoopH h m [(t.isNil, t)] [] []) := by
  intro hF hK heap root t h fuel m hw hr hf hm
  obtain ⟨n, S, rfl, es, hn, hre, hnd, hk⟩ := good_of hw hr
  exact Trie_ForEach_loop hF hK heap n es t S h fuel m hn hre (hk n (by simp) es hn)
    (fun x hx => hk x (by simp [hx])) hf hm

/-- The tree shape of `HWF` is not needed for reading: it is enough that `root` represents `t` and
that every cell of the footprint (and the root cell) is a map — pairwise distinct keys.  Shared
sub-tries are fine. -/
theorem go_ForEach_maps : GoSrc.Trie_ForEach_Found = true → GoSrc.Trie_keys_Found = true →
    ∀ (heap : Heap) (n : Nat) (es : List (UInt8 × Int)) (t : T) (S : List Nat)
      (h : List Bytes → Bool) (fuel : Nat),
      heap[n]? = some es → RepE heap es t S → KeysOK heap (n :: S) → 2 * t.size + 1 ≤ fuel →
      GoSrc.Trie_ForEach fuel heap (n : Int) h = some (IterH.forEachLogH h t) := by
  intro hF hK heap n es t S h fuel hn hre hk hf
  exact Trie_ForEach_loop hF hK heap n es t S h fuel _ hn hre (hk n (by simp) es hn)
    (fun x hx => hk x (by simp [hx])) hf (by omega)

/-- The fuel bound is sharp: with `2 * size` iterations or fewer a consumer that never stops is not
done, and the translation reports `none` (= no claim). -/
theorem go_ForEach_fuel_sharp : GoSrc.Trie_ForEach_Found = true → GoSrc.Trie_keys_Found = true →
    ∀ (heap : Heap) (root : Int) (t : T) (fuel : Nat),
      HWF heap root → Rep heap root t → fuel ≤ 2 * t.size →
      GoSrc.Trie_ForEach fuel heap root (fun _ => true) = none := by
  intro hF hK heap root t fuel hw hr hf
  obtain ⟨n, S, rfl, hg⟩ := good_of hw hr
  exact ForEach_short hF hK heap n t S fuel hg hf

-- the hypotheses are satisfiable: `heapA` (after Add "ab", "ac", "b"), 4 edges: 9 iterations
example : HWF heapA 0 ∧ Rep heapA 0 trieA ∧ 2 * trieA.size + 1 ≤ 9 ∧ 8 ≤ 2 * trieA.size :=
  ⟨heapA_ok.1, heapA_ok.2, by decide, by decide⟩

example : IterH.forEachLogH (fun _ => true) trieA = [[97, 98], [97, 99], [98]] ∧
    IterH.forEachLogH (fun l => l.length < 2) trieA = [[97, 98], [97, 99]] := by decide

example : allFound = false ∨
    (GoSrc.Trie_ForEach 9 heapA 0 (fun _ => true) = some [[97, 98], [97, 99], [98]] ∧
     -- a stateful consumer: "stop at the second item"
     GoSrc.Trie_ForEach 9 heapA 0 (fun l => l.length < 2) = some [[97, 98], [97, 99]] ∧
     GoSrc.Trie_ForEach 9 heapA 0 (fun _ => false) = some [[97, 98]] ∧
     -- a sub-trie: node 1 ("a")
     GoSrc.Trie_ForEach 5 heapA 1 (fun _ => true) = some [[98], [99]] ∧
     -- insufficient fuel: `none`
     GoSrc.Trie_ForEach 8 heapA 0 (fun _ => true) = none ∧
     -- … unless the consumer stops early enough
     GoSrc.Trie_ForEach 8 heapA 0 (fun l => l.length < 3) = some [[97, 98], [97, 99], [98]] ∧
     GoSrc.Trie_ForEach 7 heapA 0 (fun l => l.length < 3) = none) := by
  decide

/-- the empty trie: the root is a leaf but `cur` is empty — no callback, one iteration -/
example : allFound = false ∨
    (GoSrc.Trie_ForEach 1 [[]] 0 (fun _ => false) = some [] ∧
     GoSrc.Trie_ForEach 0 [[]] 0 (fun _ => false) = none) := by decide
example : HWF [[]] 0 ∧ Rep [[]] 0 .nil ∧ 2 * T.nil.size + 1 ≤ 1 :=
  ⟨(of_good (good_new [])).1, (of_good (good_new [])).2, by decide⟩

/-- the same trie with the edges of the root listed in the other order (another order Go's map
iteration may pick) is another heap and another model trie: the log follows the list order -/
example : allFound = false ∨
    GoSrc.Trie_ForEach 11 [[(98, 4), (97, 1)], [(99, 3), (98, 2)], [], [], []] 0 (fun _ => true)
      = some [[98], [97, 99], [97, 98]] := by decide

/-- `HWF` (distinct keys) IS needed: a "map" with the key 97 twice represents (`Rep`) a trie with
two edges 97, but the map lookup `step.t.m[key]` finds the first one both times -/
example : Rep [[(97, 1), (97, 2)], [(98, 3)], [], []] 0
    (.cons 97 (.cons 98 .nil .nil) (.cons 97 .nil .nil)) :=
  ⟨0, _, [1, 3, 2], rfl, rfl, absE_sound _ 8 _ _ _ (by decide)⟩
example : IterH.forEachLogH (fun _ => true) (.cons 97 (.cons 98 .nil .nil) (.cons 97 .nil .nil))
    = [[97, 98], [97]] := by decide
example : allFound = false ∨
    GoSrc.Trie_ForEach 11 [[(97, 1), (97, 2)], [(98, 3)], [], []] 0 (fun _ => true)
      = some [[97, 98], [97, 98]] := by decide

/-! ## 3. Corollaries on the source level -/

/-- The log is the list of leaf paths in edge order (= the members), up to and including the first
one after which the consumer — asked about everything it was handed so far — said stop. -/
theorem go_ForEach_log : GoSrc.Trie_ForEach_Found = true → GoSrc.Trie_keys_Found = true →
    ∀ (heap : Heap) (root : Int) (t : T) (h : List Bytes → Bool) (fuel : Nat),
      HWF heap root → Rep heap root t → 2 * t.size + 1 ≤ fuel →
      GoSrc.Trie_ForEach fuel heap root h = some (takeThroughH h [] (Trie.leaves t)) ∧
      GoSrc.Trie_ForEach fuel heap root h = some (takeThroughH h [] (Trie.members t)) := by
  intro hF hK heap root t h fuel hw hr hf
  rw [go_ForEach hF hK heap root t h fuel hw hr hf]
  exact ⟨congrArg some (C18Hist.forEachLogH_log h t).1, congrArg some (C18Hist.forEachLogH_log h t).2⟩

/-- With a consumer that never stops `ForEach` reports exactly the members of the trie (the maximal
sequences, `abs t`), in edge order, each once, and never the root / the empty sequence
(`C15_forEach_members`, `C15_members_eq` for the source text). -/
theorem go_ForEach_all : GoSrc.Trie_ForEach_Found = true → GoSrc.Trie_keys_Found = true →
    ∀ (heap : Heap) (root : Int) (t : T) (fuel : Nat),
      HWF heap root → Rep heap root t → 2 * t.size + 1 ≤ fuel →
      ∃ log, GoSrc.Trie_ForEach fuel heap root (fun _ => true) = some log ∧
        log = members t ∧ log = abs t ∧ (∀ y, y ∈ log ↔ y ∈ abs t) ∧ log.Nodup ∧ [] ∉ log := by
  intro hF hK heap root t fuel hw hr hf
  refine ⟨members t, ?_, rfl, C15_members_eq t, ?_⟩
  · rw [(go_ForEach_log hF hK heap root t _ fuel hw hr hf).2]
    exact congrArg some (by simpa using IterH.takeThroughH_true (members t) [])
  · exact C15_forEach_members t (C15Go.go_noDupKeys heap root t hw hr)

/-- Early stop, for EVERY deterministic consumer: (a) the log is a prefix of the uninterrupted run
(the members); (b) the consumer answered `true` on every proper prefix of the log — every answer but
the last; (c) an item after which the consumer said stop is the last item: no further call. -/
theorem go_ForEach_early_stop : GoSrc.Trie_ForEach_Found = true → GoSrc.Trie_keys_Found = true →
    ∀ (heap : Heap) (root : Int) (t : T) (h : List Bytes → Bool) (fuel : Nat),
      HWF heap root → Rep heap root t → 2 * t.size + 1 ≤ fuel →
      ∃ log, GoSrc.Trie_ForEach fuel heap root h = some log ∧
        log <+: members t ∧
        (∀ i, i + 1 < log.length → h (log.take (i + 1)) = true) ∧
        (∀ i, i < log.length → h (log.take (i + 1)) = false → i + 1 = log.length) := by
  intro hF hK heap root t h fuel hw hr hf
  exact ⟨_, go_ForEach hF hK heap root t h fuel hw hr hf, C18Hist.forEachLogH_early_stop h t⟩

-- (c) is not vacuous: in the run above the consumer says `false` on the history of length 2
example : (1 : Nat) < ([[97, 98], [97, 99]] : List Bytes).length ∧
    (fun l : List Bytes => decide (l.length < 2)) (([[97, 98], [97, 99]] : List Bytes).take (1 + 1))
      = false := by decide

/-- No panic: on an invariant heap, with enough fuel, `ForEach` never ends in `none`, whatever the
consumer does. -/
theorem go_ForEach_no_panic : GoSrc.Trie_ForEach_Found = true → GoSrc.Trie_keys_Found = true →
    ∀ (heap : Heap) (root : Int) (t : T) (h : List Bytes → Bool) (fuel : Nat),
      HWF heap root → Rep heap root t → 2 * t.size + 1 ≤ fuel →
      (GoSrc.Trie_ForEach fuel heap root h).isSome = true := by
  intro hF hK heap root t h fuel hw hr hf
  rw [go_ForEach hF hK heap root t h fuel hw hr hf]; rfl

-- without the invariant the code does panic: a nil root, a dangling child pointer
example : allFound = false ∨
    (GoSrc.Trie_ForEach 11 heapA (-1) (fun _ => true) = none ∧
     GoSrc.Trie_ForEach 11 [[(97, 7)]] 0 (fun _ => true) = none) := by decide

/-- Read-only: the heap is not an output of `ForEach`, and the log depends on the heap only through
the cells reachable from `root` — two heaps that agree on the root cell and on the footprint `S`
(garbage, other tries, later allocations may differ) give the same log. -/
theorem go_ForEach_readonly : GoSrc.Trie_ForEach_Found = true → GoSrc.Trie_keys_Found = true →
    ∀ (heap heap' : Heap) (n : Nat) (t : T) (S : List Nat) (h : List Bytes → Bool) (fuel : Nat),
      Good heap n t S → (∀ x ∈ n :: S, heap'[x]? = heap[x]?) → 2 * t.size + 1 ≤ fuel →
      GoSrc.Trie_ForEach fuel heap' (n : Int) h = GoSrc.Trie_ForEach fuel heap (n : Int) h ∧
      GoSrc.Trie_ForEach fuel heap' (n : Int) h = some (IterH.forEachLogH h t) := by
  intro hF hK heap heap' n t S h fuel hg hag hf
  have h1 := ForEach_eq hF hK heap n t S h fuel hg hf
  have h2 := ForEach_eq hF hK heap' n t S h fuel (good_frame hg hag) hf
  exact ⟨h2.trans h1.symm, h2⟩

-- `heapG` has garbage cells 2, 3, 4 (left behind by `Delete "ab"`); its footprint is `[1, 5]`
example : Good heapG 0 (.cons 97 (.cons 120 .nil .nil) .nil) [1, 5] :=
  ⟨[(97, 1)], by decide, absE_sound heapG 8 _ _ _ (by decide), by decide, keysOK_of_b (by decide)⟩
example : ∀ x ∈ [0, 1, 5], ([[(97, 1)], [(120, 5)], [(7, 7), (7, 7)], [], [(1, -1)], [], [(3, 0)]] : Heap)[x]?
    = heapG[x]? := by decide
example : allFound = false ∨
    (GoSrc.Trie_ForEach 5 heapG 0 (fun _ => true) = some [[97, 120]] ∧
     GoSrc.Trie_ForEach 5 [[(97, 1)], [(120, 5)], [(7, 7), (7, 7)], [], [(1, -1)], [], [(3, 0)]] 0
       (fun _ => true) = some [[97, 120]]) := by decide

/-! ## 4. Every history -/

/-- The `ForEach` half of "the trie behaves as a set under any history", on the source text: after
ANY list of `Add` / `Delete` calls on the trie returned by `New()` (`goHistory`), `ForEach` on the
final heap with a consumer that never stops yields exactly the members of the model's final trie —
which are exactly the elements of the specified set `runSpec ops ∅`, each once
(`C15_reachable_observe`). -/
theorem go_history_forEach : GoSrc.New_Found = true → GoSrc.Trie_Add_Found = true →
    GoSrc.Trie_Delete_Found = true → GoSrc.Trie_ForEach_Found = true → GoSrc.Trie_keys_Found = true →
    ∀ (ops : List Op) (fuel : Nat), (∀ op ∈ ops, (opBytes op).length + 1 ≤ fuel) →
      ∃ heap', goHistory fuel ops = some (results ops .nil, heap', 0) ∧
        ∀ fuel', 2 * (run ops .nil).size + 1 ≤ fuel' →
          ∃ log, GoSrc.Trie_ForEach fuel' heap' 0 (fun _ => true) = some log ∧
            log = members (run ops .nil) ∧
            (∀ y, y ∈ log ↔ runSpec ops SSet.empty y) ∧ log.Nodup := by
  intro hN hA hD hF hK ops fuel hf
  obtain ⟨heap', h1, hw, hr⟩ := C15Go.go_history hN hA hD ops fuel hf
  refine ⟨heap', h1, fun fuel' hf' => ?_⟩
  obtain ⟨log, hl, rfl, _⟩ := go_ForEach_all hF hK heap' 0 _ fuel' hw hr hf'
  obtain ⟨_, o2, o3⟩ := C15_reachable_observe ops
  exact ⟨_, hl, rfl, o2, o3⟩

/-- … and with ANY consumer: the members of the model's final trie, cut by the consumer. -/
theorem go_history_forEach_any : GoSrc.New_Found = true → GoSrc.Trie_Add_Found = true →
    GoSrc.Trie_Delete_Found = true → GoSrc.Trie_ForEach_Found = true → GoSrc.Trie_keys_Found = true →
    ∀ (ops : List Op) (fuel : Nat), (∀ op ∈ ops, (opBytes op).length + 1 ≤ fuel) →
      ∃ heap', goHistory fuel ops = some (results ops .nil, heap', 0) ∧
        ∀ (h : List Bytes → Bool) (fuel' : Nat), 2 * (run ops .nil).size + 1 ≤ fuel' →
          GoSrc.Trie_ForEach fuel' heap' 0 h = some (takeThroughH h [] (members (run ops .nil))) := by
  intro hN hA hD hF hK ops fuel hf
  obtain ⟨heap', h1, hw, hr⟩ := C15Go.go_history hN hA hD ops fuel hf
  exact ⟨heap', h1, fun h fuel' hf' => (go_ForEach_log hF hK heap' 0 _ h fuel' hw hr hf').2⟩

/-- … with a fuel bound in terms of the calls alone: the final trie has at most as many edges as the
history added bytes (`addBytes`), so `2 * addBytes ops + 1` iterations always suffice. -/
theorem go_history_forEach_fuel : GoSrc.New_Found = true → GoSrc.Trie_Add_Found = true →
    GoSrc.Trie_Delete_Found = true → GoSrc.Trie_ForEach_Found = true → GoSrc.Trie_keys_Found = true →
    ∀ (ops : List Op) (fuel : Nat), (∀ op ∈ ops, (opBytes op).length + 1 ≤ fuel) →
      ∃ heap', goHistory fuel ops = some (results ops .nil, heap', 0) ∧
        ∀ (h : List Bytes → Bool) (fuel' : Nat), 2 * addBytes ops + 1 ≤ fuel' →
          GoSrc.Trie_ForEach fuel' heap' 0 h = some (takeThroughH h [] (members (run ops .nil))) ∧
          (GoSrc.Trie_ForEach fuel' heap' 0 (fun _ => true)).isSome = true := by
  intro hN hA hD hF hK ops fuel hf
  obtain ⟨heap', h1, h2⟩ := go_history_forEach_any hN hA hD hF hK ops fuel hf
  refine ⟨heap', h1, fun h fuel' hf' => ?_⟩
  have hs := size_run ops .nil
  simp only [T.size, Nat.zero_add] at hs
  refine ⟨h2 h fuel' (by omega), ?_⟩
  rw [h2 _ fuel' (by omega)]; rfl

example : addBytes opsEx = 9 ∧ (run opsEx .nil).size = 1 := by decide

/-! ## 5. A concrete history -/

example : ∀ op ∈ opsEx, (opBytes op).length + 1 ≤ 4 := by decide

-- after the three Adds "abc", "abd", "ax" (shared prefixes "ab", "a"): 5 edges, 11 iterations
example : run (opsEx.take 3) .nil
    = .cons 97 (.cons 98 (.cons 99 .nil (.cons 100 .nil .nil)) (.cons 120 .nil .nil)) .nil ∧
    2 * (run (opsEx.take 3) .nil).size + 1 ≤ 11 := by decide

example : allFound = false ∨
    ((goHistory 4 (opsEx.take 3)).bind fun r => GoSrc.Trie_ForEach 11 r.2.1 r.2.2 (fun _ => true))
      = some [[97, 98, 99], [97, 98, 100], [97, 120]] := by decide
example : allFound = false ∨
    ((goHistory 4 (opsEx.take 3)).bind fun r => GoSrc.Trie_ForEach 11 r.2.1 r.2.2 (fun l => l.length < 2))
      = some [[97, 98, 99], [97, 98, 100]] := by decide
-- after Delete "abc": "abd" and "ax" are left
example : allFound = false ∨
    ((goHistory 4 (opsEx.take 4)).bind fun r => GoSrc.Trie_ForEach 11 r.2.1 r.2.2 (fun _ => true))
      = some [[97, 98, 100], [97, 120]] := by decide
-- after Delete "abd" as well: the node "ab" is pruned, only "ax" is left
example : allFound = false ∨
    ((goHistory 4 (opsEx.take 5)).bind fun r => GoSrc.Trie_ForEach 11 r.2.1 r.2.2 (fun _ => true))
      = some [[97, 120]] := by decide
-- the whole history: only "b" is left (the cells 1 … 5 are garbage and are not visited)
example : allFound = false ∨
    ((goHistory 4 opsEx).bind fun r => GoSrc.Trie_ForEach 3 r.2.1 r.2.2 (fun _ => true))
      = some [[98]] := by decide
example : members (run opsEx .nil) = [[98]] ∧ 2 * (run opsEx .nil).size + 1 ≤ 3 := by decide
-- … and one iteration fewer is not enough
example : allFound = false ∨
    ((goHistory 4 opsEx).bind fun r => GoSrc.Trie_ForEach 2 r.2.1 r.2.2 (fun _ => true)) = none := by
  decide

example : allFound = false ∨ allFound = true := by decide

end Bio.Props.C15EachGo
