/-
  Source-level tie for C13: `Iton` (sequtil/sequtil.go), translated from the Go
  source on every run, IS the model's `iton` for every int.  Best-effort.
-/
import Bio.Model.Sequtil
import Bio.Generated.Src
namespace Bio.SrcFacts
open Bio.Generated

theorem iton_is_model :
    Src.itonFound = true → ∀ n : Int, Src.iton n = ((Bio.Sequtil.iton n).toNat : Int) := by
  intro h
  first
    | exact absurd h (by decide)
    | (intro n
       unfold Src.iton Bio.Sequtil.iton
       by_cases h0 : n = 0 <;> by_cases h1 : n = 1 <;> by_cases h2 : n = 2 <;> by_cases h3 : n = 3 <;>
         simp [h0, h1, h2, h3] <;> omega)

end Bio.SrcFacts
