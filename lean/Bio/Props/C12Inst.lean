/-
  C12 for the tables regenerated from /repo: the complement table the running
  code implements is the standard one, so every C12 theorem applies to it.
  Re-checked by `decide +kernel` on every run.
-/
import Bio.Props.C12
import Bio.Generated.Tables
namespace Bio.Sequtil

theorem generated_compTable_ok : compTableOK Generated.compTable = true := by decide +kernel

theorem generated_revComp_spec (dst src : Bytes) (hs : ∀ b ∈ src, isDNAN b = true) :
    revComp Generated.compTable dst src = some (dst ++ src.reverse.map stdComp) :=
  revComp_spec generated_compTable_ok dst src hs

example : (∀ b ∈ ([65, 99, 78] : Bytes), isDNAN b = true) := by decide

end Bio.Sequtil
