/-
  C01 / C02, `MarshalText`, for the Go SOURCE TEXT: `(*Fasta).MarshalText` of
  formats/fasta/fasta.go and `(*Fastq).MarshalText` of formats/fastq/fastq.go, as translated on
  every run into `Bio.Generated.GoSrc.fasta_MarshalText` / `fastq_MarshalText`.  Each computes the
  length `n` of the text in advance (`2 + len(name) + len(seq) + (len(seq)+80-1)/80`, resp.
  `6 + len(name) + len(seq) + len(quals)`), lets the translated `Write` write the record into a
  `bytes.Buffer`, and PANICS (`none`) if the buffer's length then differs from `n`.

  The `bytes.Buffer` is the abstract writer `Bio.GoRt.Wr` with `room` bytes of room, `room` a
  parameter of the translated function.  A real Buffer never refuses bytes, so the theorems are for
  every `room` at least the length of the text:

  * the result is `some (text, nil)` with `text` the model's text of the record
    (`Fasta.encode 80 ⟨name, seq⟩` / `Fastq.encode ⟨name, seq, quals⟩`, the functions of C01, C02 and
    C07Go), of exactly the pre-computed length: the self-check never fires, no panic — for every
    name and sequence, and for FASTQ also for `seq` and `quals` of different lengths;
  * the result does not depend on `room`;
  * (about the model only) with `room` smaller than the text the translated function is `none`:
    the writer cut the text, `Write`'s error is dropped by `MarshalText` (as in the Go text:
    `f.Write(buf)` is an expression statement) and the self-check fires.  This is the sense in which
    the hypothesis on `room` stands for "a Buffer never refuses bytes";
  * the exact value for every `room` (`go_fasta_marshal_exact`, `go_fastq_marshal_exact`);
  * round trip: the marshalled bytes of a record in the domain of C01 / C02, read back with the
    translated `read` (iterated: `C01Go.goDecode`, `C02Go.goDecode`), give the record.

  All requested statements hold as requested; nothing was weakened.

  Guarded by the translator's `<f>_Found` flags (see `Bio.Lemmas.GoSrc`).
-/
import Bio.Lemmas.GoSrcMarshal
import Bio.Props.C07Go
namespace Bio.Props.C01MarshalGo
open Bio Bio.GoRt Bio.Generated Bio.GoSrcLemmas

/-- every translator flag this file depends on; the non-vacuity examples below are stated as
`allFound = false ∨ …` so that a source the translator no longer recognises is not an alarm -/
def allFound : Bool :=
  GoSrc.fasta_MarshalText_Found && GoSrc.fastq_MarshalText_Found && GoSrc.fasta_Write_Found
    && GoSrc.fastq_Write_Found && GoSrc.fasta_read_Found && GoSrc.fastq_read_Found

example : allFound = false ∨ (GoSrc.fasta_MarshalText_Found = true ∧ GoSrc.fastq_MarshalText_Found = true
    ∧ GoSrc.fasta_Write_Found = true ∧ GoSrc.fastq_Write_Found = true) := by decide

/-! ## The length of the model's text is the length `MarshalText` computes in advance -/

theorem fasta_text_length (name seq : Bytes) :
    (Fasta.encode 80 ⟨name, seq⟩).length = 2 + name.length + seq.length + (seq.length + 79) / 80 :=
  fasta_encode_length name seq

theorem fastq_text_length (name seq quals : Bytes) :
    (Fastq.encode ⟨name, seq, quals⟩).length = 6 + name.length + seq.length + quals.length :=
  fastq_encode_length name seq quals

/-! ## FASTA -/

/-- The exact value of the translated `MarshalText`, for every `room`. -/
theorem go_fasta_marshal_exact : GoSrc.fasta_MarshalText_Found = true → GoSrc.fasta_Write_Found = true →
    ∀ (room : Nat) (name seq : Bytes),
      GoSrc.fasta_MarshalText room name seq
        = if 2 + name.length + seq.length + (seq.length + 79) / 80 ≤ room
          then some (Fasta.encode 80 ⟨name, seq⟩, GoErr.nil) else none := by
  intro hM hW room name seq
  rw [fasta_MarshalText_eq hM hW, fasta_encode_length]

/-- 1. With a buffer that does not refuse bytes: the model's text, no error, of exactly the
pre-computed length; the self-check does not fire (no panic). -/
theorem go_fasta_marshal_total : GoSrc.fasta_MarshalText_Found = true → GoSrc.fasta_Write_Found = true →
    ∀ (name seq : Bytes) (room : Nat),
      2 + name.length + seq.length + (seq.length + 79) / 80 ≤ room →
      GoSrc.fasta_MarshalText room name seq = some (Fasta.encode 80 ⟨name, seq⟩, GoErr.nil)
      ∧ GoSrc.fasta_MarshalText room name seq ≠ none
      ∧ (Fasta.encode 80 ⟨name, seq⟩).length = 2 + name.length + seq.length + (seq.length + 79) / 80 := by
  intro hM hW name seq room h
  have h1 := go_fasta_marshal_exact hM hW room name seq
  rw [if_pos h] at h1
  exact ⟨h1, by rw [h1]; exact Option.some_ne_none _, fasta_encode_length name seq⟩

example : 2 + ([114, 49] : Bytes).length + (List.replicate 81 (65 : UInt8)).length
    + ((List.replicate 81 (65 : UInt8)).length + 79) / 80 ≤ 100 := by decide

/-- 2. The result is the same for all sufficiently large `room`. -/
theorem go_fasta_marshal_room_independent : GoSrc.fasta_MarshalText_Found = true →
    GoSrc.fasta_Write_Found = true → ∀ (name seq : Bytes) (room room' : Nat),
      2 + name.length + seq.length + (seq.length + 79) / 80 ≤ room →
      2 + name.length + seq.length + (seq.length + 79) / 80 ≤ room' →
      GoSrc.fasta_MarshalText room name seq = GoSrc.fasta_MarshalText room' name seq := by
  intro hM hW name seq room room' h h'
  rw [(go_fasta_marshal_total hM hW name seq room h).1, (go_fasta_marshal_total hM hW name seq room' h').1]

/-- 4. (The model only.)  With less room than the text needs the translated function is `none`: the
hypothesis on `room` above is what stands for "a Buffer never refuses bytes". -/
theorem go_fasta_marshal_small_room : GoSrc.fasta_MarshalText_Found = true →
    GoSrc.fasta_Write_Found = true → ∀ (name seq : Bytes) (room : Nat),
      room < 2 + name.length + seq.length + (seq.length + 79) / 80 →
      GoSrc.fasta_MarshalText room name seq = none := by
  intro hM hW name seq room h
  rw [go_fasta_marshal_exact hM hW, if_neg (by omega)]

example : 5 < 2 + ([114, 49] : Bytes).length + ([65, 67] : Bytes).length
    + (([65, 67] : Bytes).length + 79) / 80 := by decide

/-! ## FASTQ (any `seq` and `quals`, also of different lengths) -/

theorem go_fastq_marshal_exact : GoSrc.fastq_MarshalText_Found = true → GoSrc.fastq_Write_Found = true →
    ∀ (room : Nat) (name seq quals : Bytes),
      GoSrc.fastq_MarshalText room name seq quals
        = if 6 + name.length + seq.length + quals.length ≤ room
          then some (Fastq.encode ⟨name, seq, quals⟩, GoErr.nil) else none := by
  intro hM hW room name seq quals
  rw [fastq_MarshalText_eq hM hW, fastq_encode_length]

/-- 3a. -/
theorem go_fastq_marshal_total : GoSrc.fastq_MarshalText_Found = true → GoSrc.fastq_Write_Found = true →
    ∀ (name seq quals : Bytes) (room : Nat),
      6 + name.length + seq.length + quals.length ≤ room →
      GoSrc.fastq_MarshalText room name seq quals = some (Fastq.encode ⟨name, seq, quals⟩, GoErr.nil)
      ∧ GoSrc.fastq_MarshalText room name seq quals ≠ none
      ∧ (Fastq.encode ⟨name, seq, quals⟩).length = 6 + name.length + seq.length + quals.length := by
  intro hM hW name seq quals room h
  have h1 := go_fastq_marshal_exact hM hW room name seq quals
  rw [if_pos h] at h1
  exact ⟨h1, by rw [h1]; exact Option.some_ne_none _, fastq_encode_length name seq quals⟩

-- unequal lengths of `seq` and `quals`
example : 6 + ([114, 49] : Bytes).length + ([65, 67, 71] : Bytes).length + ([73] : Bytes).length ≤ 12 := by
  decide

/-- 3b. -/
theorem go_fastq_marshal_room_independent : GoSrc.fastq_MarshalText_Found = true →
    GoSrc.fastq_Write_Found = true → ∀ (name seq quals : Bytes) (room room' : Nat),
      6 + name.length + seq.length + quals.length ≤ room →
      6 + name.length + seq.length + quals.length ≤ room' →
      GoSrc.fastq_MarshalText room name seq quals = GoSrc.fastq_MarshalText room' name seq quals := by
  intro hM hW name seq quals room room' h h'
  rw [(go_fastq_marshal_total hM hW name seq quals room h).1,
    (go_fastq_marshal_total hM hW name seq quals room' h').1]

theorem go_fastq_marshal_small_room : GoSrc.fastq_MarshalText_Found = true →
    GoSrc.fastq_Write_Found = true → ∀ (name seq quals : Bytes) (room : Nat),
      room < 6 + name.length + seq.length + quals.length →
      GoSrc.fastq_MarshalText room name seq quals = none := by
  intro hM hW name seq quals room h
  rw [go_fastq_marshal_exact hM hW, if_neg (by omega)]

example : 9 < 6 + ([114, 49] : Bytes).length + ([65, 67, 71] : Bytes).length + ([73] : Bytes).length := by
  decide

/-! ## Round trip through the translated readers -/

/-- 5. FASTA: the marshalled bytes of a record in the domain of C01, read back by the translated
`read` (iterated as `(*reader).iter` does: `C01Go.goDecode`), give exactly the record. -/
theorem go_fasta_marshal_read : GoSrc.fasta_MarshalText_Found = true → GoSrc.fasta_Write_Found = true →
    GoSrc.fasta_read_Found = true → ∀ (name seq : Bytes), Fasta.WF ⟨name, seq⟩ → ∀ (room : Nat),
      2 + name.length + seq.length + (seq.length + 79) / 80 ≤ room →
      ∃ text, GoSrc.fasta_MarshalText room name seq = some (text, GoErr.nil)
        ∧ C01Go.goDecode (text.length + 1) .eof text = [Item.ok ⟨name, seq⟩] := by
  intro hM hW hR name seq hwf room h
  refine ⟨_, (go_fasta_marshal_total hM hW name seq room h).1, ?_⟩
  have := C01Go.go_roundtrip hR 80 (by decide) [⟨name, seq⟩] (by simpa using hwf)
  simpa [Fasta.encodeAll] using this

/-- FASTQ: the same, for a record in the domain of C02 (in particular as many qualities as bases). -/
theorem go_fastq_marshal_read : GoSrc.fastq_MarshalText_Found = true → GoSrc.fastq_Write_Found = true →
    GoSrc.fastq_read_Found = true → ∀ (name seq quals : Bytes), Fastq.WF ⟨name, seq, quals⟩ →
      ∀ (room : Nat), 6 + name.length + seq.length + quals.length ≤ room →
      ∃ text, GoSrc.fastq_MarshalText room name seq quals = some (text, GoErr.nil)
        ∧ C02Go.goDecode ((scanLines text).length + 1) .eof (scanLines text)
            = [Item.ok ⟨name, seq, quals⟩] := by
  intro hM hW hR name seq quals hwf room h
  refine ⟨_, (go_fastq_marshal_total hM hW name seq quals room h).1, ?_⟩
  have := C02Go.go_roundtrip hR [⟨name, seq, quals⟩] (by simpa using hwf)
  simpa [Fastq.encodeAll] using this

example : allFound = false ∨ (allFound = true
    ∧ Fasta.WF ⟨[114, 49], List.replicate 81 65⟩ ∧ Fastq.WF ⟨[114, 49], [65, 67, 71], [73, 43, 64]⟩) := by
  decide

/-! ## Non-vacuity: the translated functions evaluated -/

-- ">r1\n" + 80 × 'A' + "\n" + "A\n": 2 + 2 + 81 + 2 = 87 bytes; the second line is the 81st base
example : allFound = false ∨ (
    (GoSrc.fasta_MarshalText 87 [114, 49] (List.replicate 81 65)).map (fun p => (p.1.length, p.2))
      = some (87, GoErr.nil)
    ∧ (GoSrc.fasta_MarshalText 1000 [114, 49] (List.replicate 81 65)).map (fun p => (p.1.length, p.2))
      = some (87, GoErr.nil)
    ∧ (GoSrc.fasta_MarshalText 87 [114, 49] (List.replicate 81 65)).map (fun p => p.1.take 5)
      = some [62, 114, 49, 10, 65]
    ∧ (GoSrc.fasta_MarshalText 87 [114, 49] (List.replicate 81 65)).map (fun p => p.1.drop 83)
      = some [65, 10, 65, 10]
    ∧ GoSrc.fasta_MarshalText 86 [114, 49] (List.replicate 81 65) = none
    ∧ GoSrc.fasta_MarshalText 9 [114, 49] [65, 67, 71, 84] = some ([62, 114, 49, 10, 65, 67, 71, 84, 10], GoErr.nil)
    ∧ GoSrc.fasta_MarshalText 3 [] [] = some ([62, 10], GoErr.nil)) := by decide

-- "@r1\nACG\n+\nI\n" (3 bases, 1 quality): 6 + 2 + 3 + 1 = 12 bytes
set_option maxRecDepth 4000 in
example : allFound = false ∨ (
    GoSrc.fastq_MarshalText 12 [114, 49] [65, 67, 71] [73]
      = some ([64, 114, 49, 10, 65, 67, 71, 10, 43, 10, 73, 10], GoErr.nil)
    ∧ GoSrc.fastq_MarshalText 11 [114, 49] [65, 67, 71] [73] = none
    ∧ (GoSrc.fastq_MarshalText 200 [114, 49] (List.replicate 81 65) (List.replicate 81 73)).map
        (fun p => (p.1.length, p.2)) = some (170, GoErr.nil)
    ∧ GoSrc.fastq_MarshalText 6 [] [] [] = some ([64, 10, 10, 43, 10, 10], GoErr.nil)) := by decide

end Bio.Props.C01MarshalGo
