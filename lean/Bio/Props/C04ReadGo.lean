/-
  C04 (BED), READER half, for the Go SOURCE TEXT of `parseLine` and `(*reader).read`
  (formats/bed/bed.go), as translated on every run into `Bio.Generated.GoSrc.parseLine` and
  `Bio.Generated.GoSrc.bed_read`, iterated as `Reader` of formats/bed/iter.go does (`goBedDecode`).

  `strconv.Atoi` and `strconv.ParseUint` are PARAMETERS `f`, `g` of the translated code; what is
  assumed about them is stated as explicit hypotheses:
  * `AtoiModel f`: no error and the model's value where the model's `atoi` accepts, an error (any
    error, any value) where it rejects;
  * `PUCanon g` (weak): `g (natDigits n) 0 8 = (n, nil)` for `n < 256` — all the round trip needs;
  * `PUModel g` (strong): `g · 0 8` accepts exactly the canonical decimals `0…255` (the model's
    `parseU8`; the real `ParseUint(s, 0, 8)` also accepts `0x…`, `0b…`, `0o…`, a leading `0` as octal and
    underscores, so it satisfies `PUCanon` but NOT `PUModel`).

  1. `go_parseLine_param`: for ARBITRARY `f`, `g`, `parseLine` is the parametrised model parser
     (`BedRd.parseSpec (reqA f) (u8G g)`); `go_parseLine_no_panic`; `go_parseLine_model`: under
     `AtoiModel` and `PUModel` it is the hand model `Bed.parseLine` on all inputs.
  2. `go_bed_read_step` / `go_bed_read_cases`: one call of `read`.
  3. `go_bed_decode`: the translated reader is `Bed.decodeSrc` on ALL inputs and both endings.
  4. `go_bed_roundtrip`: what the translated `Write` writes is read back by the translated reader
     (under `AtoiModel` and the weak `PUCanon` only).
  5. `go_bed_read_no_panic`: `read` returns for arbitrary `f`, `g` with enough fuel.

  Guarded by the translator's `_Found` flags (see `Bio.Lemmas.GoSrc`).
-/
import Bio.Lemmas.GoSrcBedRead
import Bio.Props.C04Go
namespace Bio.Props.C04ReadGo
open Bio Bio.GoRt Bio.Generated Bio.GoSrcLemmas Bio.GoSrcLemmas.BedRd

/-- every translator flag this file depends on; the non-vacuity examples below are stated as
`allFound = false ∨ …` so that a source the translator no longer recognises is not an alarm -/
def allFound : Bool := GoSrc.parseLine_Found && GoSrc.bed_read_Found && GoSrc.bed_Write_Found

/-! ## 1. `parseLine` -/

/-- For ARBITRARY `strconv` parameters: the translated `parseLine` is the model's parser with the
integer parser `reqA f` (value of `f s` when its error is nil) and the byte parser `u8G g`
(`byte(value)` of `g s 0 8` when its error is nil). -/
theorem go_parseLine_param : GoSrc.parseLine_Found = true →
    ∀ (f : Bytes → Int × GoErr) (g : Bytes → Int → Int → Int × GoErr) (fields : List Bytes),
    GoSrc.parseLine f g fields = some (resultOf (parseSpec (reqA f) (u8G g) fields)) :=
  fun hF f g fields => go_parseLine_spec hF f g fields

/-- `parseLine` never panics, whatever the two `strconv` functions return: every index is in range
(the padded slice has 12 elements; the RGB loop runs over exactly 3 pieces and writes `ItemRGB[0..2]`;
each block loop runs over the pieces its slice was allocated for). -/
theorem go_parseLine_no_panic : GoSrc.parseLine_Found = true →
    ∀ (f : Bytes → Int × GoErr) (g : Bytes → Int → Int → Int × GoErr) (fields : List Bytes),
    GoSrc.parseLine f g fields ≠ none := by
  intro hF f g fields
  rw [go_parseLine_spec hF]; simp

/-- Under `AtoiModel` and the strong `PUModel`: the translated `parseLine` IS the hand model, on all
inputs (any number of fields, any bytes). -/
theorem go_parseLine_model : GoSrc.parseLine_Found = true →
    ∀ (f : Bytes → Int × GoErr) (g : Bytes → Int → Int → Int × GoErr), AtoiModel f → PUModel g →
    ∀ (fields : List Bytes),
    GoSrc.parseLine f g fields = some (match Bed.parseLine fields with
      | some b => (some (tupleOf b), GoErr.nil)
      | none => (none, GoErr.other)) := by
  intro hF f g hf hg fields
  rw [go_parseLine_spec hF, parseSpec_of_models hf hg]
  rfl

/-- The hypotheses are satisfiable: the model's own `atoi` / `parseU8` as Go functions. -/
example : AtoiModel atoiP ∧ PUModel puP ∧ PUCanon puP := ⟨atoiP_model, puP_model, puP_model.canon⟩
/-- concrete consequences on sample strings: `-5`, `+7`, `x`, the empty string, `9223372036854775808`
(out of range); `255`, `0`, `256`, `07` (leading zero), `0x1` (hex: the real function accepts it) -/
example : atoiP [45, 53] = (-5, GoErr.nil) ∧ atoiP [43, 55] = (7, GoErr.nil) ∧ atoiP [120] = (0, GoErr.other)
    ∧ atoiP [] = (0, GoErr.other)
    ∧ atoiP [57, 50, 50, 51, 51, 55, 50, 48, 51, 54, 56, 53, 52, 55, 55, 53, 56, 48, 56] = (0, GoErr.other) := by
  decide +kernel
example : puP [50, 53, 53] 0 8 = (255, GoErr.nil) ∧ puP [48] 0 8 = (0, GoErr.nil) ∧ puP [50, 53, 54] 0 8 = (0, GoErr.other)
    ∧ puP [48, 55] 0 8 = (0, GoErr.other) ∧ puP [48, 120, 49] 0 8 = (0, GoErr.other) := by
  decide +kernel
/-- `PUCanon` at `n = 255` and `n = 7` -/
example : puP (natDigits 255) 0 8 = (255, GoErr.nil) ∧ puP (natDigits 7) 0 8 = (7, GoErr.nil) := by
  decide +kernel
/-- `PUCanon` is strictly weaker: a function that also reads `0x10` as 16 satisfies it, not `PUModel` -/
example : ∃ g, PUCanon g ∧ ¬ PUModel g := by
  refine ⟨fun s b n => if s = [48, 120, 49, 48] then (16, GoErr.nil) else puP s b n, ?_, ?_⟩
  · intro n hn
    have hne : natDigits n ≠ [48, 120, 49, 48] := by
      intro h
      have := Bed.natDigits_isDigit n 120 (by rw [h]; simp)
      revert this; decide
    simp only [hne, if_false]
    exact puP_model.canon n hn
  · intro h
    have := h.bad [48, 120, 49, 48] (by decide +kernel)
    simp at this

/-- the translated code itself on the fields of `chr1 -5 maxInt64 … 255,0,7 2 10,-20 0,300` (the line
written for `ex12`), on three fields, on a bad integer, a bad strand, a bad RGB value, a block count
that disagrees with the sizes, and on two / thirteen fields -/
example : allFound = false ∨ (
    GoSrc.parseLine atoiP puP (splitOn 9 ((Bed.encodeLine Bed.ex12).getD [])) = some (some (tupleOf Bed.ex12), GoErr.nil)
    ∧ GoSrc.parseLine atoiP puP [[97], [49], [50]] = some (some (tupleOf Bed.exA), GoErr.nil)
    ∧ GoSrc.parseLine atoiP puP [[97], [49], [120]] = some (none, GoErr.other)
    ∧ GoSrc.parseLine atoiP puP [[97], [49], [50], [], [], [47]] = some (none, GoErr.other)
    ∧ GoSrc.parseLine atoiP puP [[97], [49], [50], [], [], [], [], [], [49, 44, 50]] = some (none, GoErr.other)
    ∧ GoSrc.parseLine atoiP puP [[97], [49], [50], [], [], [], [], [], [], [50], [49]] = some (none, GoErr.other)
    ∧ GoSrc.parseLine atoiP puP [[97], [49]] = some (none, GoErr.other)
    ∧ GoSrc.parseLine atoiP puP (List.replicate 13 [49]) = some (none, GoErr.other)) := by
  decide +kernel

/-! ## 2. One call of `read` -/

/-- One call of the translated `read` on the reader state `(⟨rest, e⟩, nf)` (`rest` = bytes not yet
read, `e` = how the source ends, `nf` = `r.nfields`, 0 = not fixed yet), in terms of the model's text
lines `textLines e rest`, with more fuel than there are leading skipped lines (blank or `#`):
* no record line left: `(nil, io.EOF)` at a clean end, `(nil, err)` when the source fails — nothing is
  left to read;
* otherwise, for the first record line `t` (`lineOut`): with `nf ≠ 0` and a different number of fields,
  `(nil, error)`; else what the model's `parseLine` says about the fields (the record, or `(nil, error)`),
  with `nfields` set to the number of fields if it was 0; the reader is left at bytes `rest'` whose
  text lines are exactly the lines after `t`. -/
theorem go_bed_read_step : GoSrc.bed_read_Found = true → GoSrc.parseLine_Found = true →
    ∀ (f : Bytes → Int × GoErr) (g : Bytes → Int → Int → Int × GoErr), AtoiModel f → PUModel g →
    ∀ (e : Ending) (rest : Bytes) (nf : Int) (fuel : Nat), leadSkips (textLines e rest) < fuel →
      match (textLines e rest).dropWhile Bed.isSkipped with
      | [] => GoSrc.bed_read f g fuel ⟨rest, e⟩ nf = some (none, endErr e, ⟨[], e⟩, nf)
      | t :: more => ∃ rest', textLines e rest' = more ∧ rest'.length < rest.length
          ∧ GoSrc.bed_read f g fuel ⟨rest, e⟩ nf = some (lineOut Bed.parseLine nf t ⟨rest', e⟩) := by
  intro hF hP f g hf hg e rest nf fuel hfuel
  rw [bed_read_spec hF hP, parseSpec_of_models hf hg]
  exact readSpec_lines Bed.parseLine e _ rest rfl fuel nf hfuel

/-- The same call, byte by byte (`l` = the bytes up to the next LF, `dropCR l` = the line with one
trailing CR removed):
* nothing left: the source's end (`io.EOF` or the read error);
* an unterminated tail and a failing source: the read error, the tail is dropped;
* an unterminated tail at a clean end: a skipped line gives `io.EOF`, a record line its outcome;
* a terminated line: a skipped line costs one unit of fuel and the call goes on with the bytes after
  it, a record line gives its outcome and leaves the reader after the LF. -/
theorem go_bed_read_cases : GoSrc.bed_read_Found = true → GoSrc.parseLine_Found = true →
    ∀ (f : Bytes → Int × GoErr) (g : Bytes → Int → Int → Int × GoErr), AtoiModel f → PUModel g →
    ∀ (fuel : Nat) (nf : Int),
    (∀ e, GoSrc.bed_read f g (fuel + 1) ⟨[], e⟩ nf = some (none, endErr e, ⟨[], e⟩, nf))
    ∧ (∀ l : Bytes, (∀ b ∈ l, b ≠ 10) →
        GoSrc.bed_read f g (fuel + 1) ⟨l, .fail⟩ nf = some (none, GoErr.other, ⟨[], .fail⟩, nf))
    ∧ (∀ l : Bytes, l ≠ [] → (∀ b ∈ l, b ≠ 10) →
        GoSrc.bed_read f g (fuel + 1) ⟨l, .eof⟩ nf
          = if Bed.isSkipped (dropCR l) = true then some (none, GoErr.eof, ⟨[], .eof⟩, nf)
            else some (lineOut Bed.parseLine nf (dropCR l) ⟨[], .eof⟩))
    ∧ (∀ (l rest' : Bytes) (e : Ending), (∀ b ∈ l, b ≠ 10) →
        GoSrc.bed_read f g (fuel + 1) ⟨l ++ 10 :: rest', e⟩ nf
          = if Bed.isSkipped (dropCR l) = true then GoSrc.bed_read f g fuel ⟨rest', e⟩ nf
            else some (lineOut Bed.parseLine nf (dropCR l) ⟨rest', e⟩)) := by
  intro hF hP f g hf hg fuel nf
  simp only [bed_read_spec hF hP, parseSpec_of_models hf hg]
  exact ⟨fun e => readSpec_nil _ fuel e nf, fun l hl => readSpec_free_fail _ fuel l nf hl,
    fun l hne hl => readSpec_free_eof _ fuel l nf hne hl,
    fun l rest' e hl => readSpec_line _ fuel l rest' e nf hl⟩

/-- hypotheses of `go_bed_read_cases`: LF-free pieces (`a<TAB>1<TAB>2<CR>`, `#c`) -/
example : (∀ b ∈ ([97, 9, 49, 9, 50, 13] : Bytes), b ≠ 10) ∧ ([35, 99] : Bytes) ≠ [] ∧ (∀ b ∈ ([35, 99] : Bytes), b ≠ 10) := by
  decide

/-- `lineOut`, spelled out: the `nfields` rule and the parse. -/
theorem lineOut_eq : ∀ (nf : Int) (t : Bytes) (r' : BufRd),
    lineOut Bed.parseLine nf t r' =
      if nf ≠ 0 ∧ len (splitOn 9 t) ≠ nf then (none, GoErr.other, r', nf)
      else match Bed.parseLine (splitOn 9 t) with
        | some b => (some (tupleOf b), GoErr.nil, r', if nf = 0 then len (splitOn 9 t) else nf)
        | none => (none, GoErr.other, r', if nf = 0 then len (splitOn 9 t) else nf) := by
  intro nf t r'
  unfold lineOut
  by_cases h0 : nf = 0
  · simp only [h0, if_true, ne_eq, not_true_eq_false, false_and, if_false]
    cases Bed.parseLine (splitOn 9 t) <;> rfl
  · by_cases hl : len (splitOn 9 t) = nf
    · simp only [h0, if_false, hl, ne_eq, not_true_eq_false, and_false]
      cases Bed.parseLine (splitOn 9 t) <;> rfl
    · simp [h0, hl]

/-- Non-vacuity: `#c`, a blank line (CR LF), then `a<TAB>1<TAB>2` and more: two skipped lines, so fuel 3. -/
example : leadSkips (textLines .eof [35, 99, 10, 13, 10, 97, 9, 49, 9, 50, 10, 120]) < 3 := by decide +kernel
set_option synthInstance.maxSize 1024 in
example : allFound = false ∨ (
    GoSrc.bed_read atoiP puP 3 ⟨[35, 99, 10, 13, 10, 97, 9, 49, 9, 50, 10, 120], .eof⟩ 0
      = some (some (tupleOf Bed.exA), GoErr.nil, ⟨[120], .eof⟩, 3)
    -- not enough fuel: no claim
    ∧ GoSrc.bed_read atoiP puP 2 ⟨[35, 99, 10, 13, 10, 97, 9, 49, 9, 50, 10, 120], .eof⟩ 0 = none
    -- `nfields` already 4: wrong number of fields
    ∧ GoSrc.bed_read atoiP puP 3 ⟨[35, 99, 10, 13, 10, 97, 9, 49, 9, 50, 10, 120], .eof⟩ 4
      = some (none, GoErr.other, ⟨[120], .eof⟩, 4)
    -- the unterminated tail: a record line at a clean end (one field: a parse error), dropped when the source fails
    ∧ GoSrc.bed_read atoiP puP 1 ⟨[120], .eof⟩ 0 = some (none, GoErr.other, ⟨[], .eof⟩, 1)
    ∧ GoSrc.bed_read atoiP puP 1 ⟨[120], .fail⟩ 3 = some (none, GoErr.other, ⟨[], .fail⟩, 3)
    ∧ GoSrc.bed_read atoiP puP 1 ⟨[], .eof⟩ 3 = some (none, GoErr.eof, ⟨[], .eof⟩, 3)
    ∧ GoSrc.bed_read atoiP puP 2 ⟨[35, 13], .eof⟩ 3 = some (none, GoErr.eof, ⟨[], .eof⟩, 3)) := by
  decide +kernel

/-! ## 5. `read` never panics -/

/-- For ARBITRARY `strconv` parameters: with more fuel than leading skipped lines — in particular
with more fuel than bytes left — `read` returns (no panic: `line[0]` is only evaluated on a non-empty
line; no running out of fuel). -/
theorem go_bed_read_no_panic : GoSrc.bed_read_Found = true → GoSrc.parseLine_Found = true →
    ∀ (f : Bytes → Int × GoErr) (g : Bytes → Int → Int → Int × GoErr) (e : Ending) (rest : Bytes)
      (nf : Int) (fuel : Nat),
    (leadSkips (textLines e rest) < fuel → GoSrc.bed_read f g fuel ⟨rest, e⟩ nf ≠ none)
    ∧ (rest.length < fuel → GoSrc.bed_read f g fuel ⟨rest, e⟩ nf ≠ none) := by
  intro hF hP f g e rest nf fuel
  have h1 : leadSkips (textLines e rest) < fuel → GoSrc.bed_read f g fuel ⟨rest, e⟩ nf ≠ none := by
    intro h
    rw [bed_read_spec hF hP]
    have := readSpec_isSome (parseSpec (reqA f) (u8G g)) e rest fuel nf h
    intro h0; rw [h0] at this; cases this
  exact ⟨h1, fun h => h1 (by have := leadSkips_le e rest; omega)⟩

/-- arbitrary (even absurd) `strconv` functions: every integer "parses" as 1000 without error -/
example : allFound = false ∨ (
    GoSrc.bed_read (fun _ => (1000, GoErr.nil)) (fun _ _ _ => (1000, GoErr.nil)) 1
        ⟨[97, 9, 9, 9, 9, 9, 9, 9, 9, 120, 44, 121, 44, 122, 9, 9, 9], .eof⟩ 0
      = some (some (12, [97], 1000, 1000, [], 0, [], 0, 0, [232, 232, 232], 0, [], []), GoErr.nil, ⟨[], .eof⟩, 12)) := by
  decide +kernel

/-! ## 3. The translated reader is the model decoder -/

/-- Under `AtoiModel` and `PUModel`, for EVERY input `x` (CR LF, a missing final newline, comments,
blank lines, NUL bytes … included) and both endings: iterating the translated `read` as `Reader` does
gives exactly the items of the model decoder, with any fuel above `len(x)`. -/
theorem go_bed_decode : GoSrc.bed_read_Found = true → GoSrc.parseLine_Found = true →
    ∀ (f : Bytes → Int × GoErr) (g : Bytes → Int → Int → Int × GoErr), AtoiModel f → PUModel g →
    ∀ (x : Bytes) (e : Ending) (fuel : Nat), x.length < fuel →
    goBedDecode f g fuel x e = some (Bed.decodeSrc e x) := by
  intro hF hP f g hf hg x e fuel hfuel
  apply goBedDecode_eq hF hP f g fuel x e hfuel
  intro l _
  rw [parseSpec_of_models hf hg]

/-- a comment (CR LF), a blank line, a record (CR LF), a record with a fourth field: the record, then
the error for the wrong field count; the last line is never looked at -/
def exInput : Bytes :=
  [35, 99, 13, 10, 10, 97, 9, 49, 9, 50, 13, 10, 98, 9, 51, 9, 52, 9, 120, 10, 122, 9, 49, 9, 50, 10]

example : exInput.length < 30 := by decide
example : allFound = false ∨ (
    goBedDecode atoiP puP 30 exInput .eof = some (Bed.decode exInput)
    ∧ Bed.decode exInput = [Item.ok Bed.exA, Item.err]
    -- a failing source after the first record (cut inside the second): the record, then the read error
    ∧ goBedDecode atoiP puP 30 (exInput.take 15) .fail = some (Bed.decodeSrc .fail (exInput.take 15))
    ∧ Bed.decodeSrc .fail (exInput.take 15) = [Item.ok Bed.exA, Item.err]
    -- a clean end without a final newline: the last line counts
    ∧ goBedDecode atoiP puP 30 [97, 9, 49, 9, 50] .eof = some [Item.ok Bed.exA]) := by
  decide +kernel

/-! ## 4. Write, then read: the source-level round trip of C04 -/

/-- The translated `Write` of every record of `bs` (well-formed with `N` fields in the sense of
`Bio.Props.C04`) on a large enough writer, then the translated reader on what was written: exactly the
records, restricted to their first `N` fields.  Only `AtoiModel` and the WEAK `PUCanon` are assumed
about the `strconv` functions. -/
theorem go_bed_roundtrip : GoSrc.bed_Write_Found = true → GoSrc.bed_read_Found = true →
    GoSrc.parseLine_Found = true →
    ∀ (f : Bytes → Int × GoErr) (g : Bytes → Int → Int → Int × GoErr), AtoiModel f → PUCanon g →
    ∀ (N : Nat) (bs : List Bed.Bed), (∀ b ∈ bs, Bed.WF N b) →
    ∀ (k fuel : Nat), (bedEncodeAll bs).length ≤ k → (bedEncodeAll bs).length < fuel →
    ∃ w', bedWriteAll bs ⟨k, []⟩ = some (GoErr.nil, w')
      ∧ goBedDecode f g fuel w'.out .eof = some (bs.map fun b => Item.ok (Bed.truncate N b)) := by
  intro hW hF hP f g hf hg N bs h k fuel hk hfuel
  have hn : ∀ b ∈ bs, 3 ≤ b.n ∧ b.n ≤ 12 := by
    intro b hb
    obtain ⟨h3, h12, hbn, _⟩ := h b hb
    rw [hbn]; omega
  refine ⟨_, bedWriteAll_ok hW bs hn k [] hk, ?_⟩
  simp only [List.nil_append]
  by_cases hbs : bs = []
  · subst hbs
    have : goBedDecode f g fuel (bedEncodeAll []) .eof = some (Bed.decodeSrc .eof (bedEncodeAll [])) :=
      goBedDecode_eq hF hP f g fuel _ .eof hfuel (by intro l hl; simp [bedEncodeAll, textLines, scanLines] at hl)
    rw [this]; rfl
  · have h3 : 3 ≤ N := by
      obtain ⟨b, hb⟩ := List.exists_mem_of_ne_nil bs hbs
      exact (h b hb).1
    have henc : bedEncodeAll bs = (bs.map fun b => joinWith TAB ((Bed.allFields b).take N) ++ [10]).flatten := by
      unfold bedEncodeAll
      congr 1
      apply List.map_congr_left
      intro b hb
      obtain ⟨h3, h12, hbn, _⟩ := h b hb
      simp [Bed.encode, Bed.encodeLine_eq b N hbn h3 h12, LF]
    have hclean : ∀ b ∈ bs, ∀ fl ∈ Bed.allFields b, Bed.Clean fl := by
      intro b hb
      obtain ⟨_, _, _, hc, _, hname, hstrand, _⟩ := h b hb
      exact Bed.clean_allFields b hc hname hstrand
    rw [henc] at hfuel ⊢
    rw [goBedDecode_written hF hP f g hf hg N h3 bs hclean fuel hfuel, ← henc]
    exact congrArg some (Bed.file_roundtrip_encode N bs h)

/-- Non-vacuity: the flags; records in the domain of C04 (12 fields with two blocks, odd bytes and
extreme integers; 3 fields; 11 fields); room and fuel. -/
example : allFound = false ∨ (allFound = true
    ∧ (∀ b ∈ [Bed.ex12, { Bed.ex12 with name := [], blockCount := 0, blockSizes := [], blockStarts := [] }],
        Bed.WF 12 b)
    ∧ Bed.WF 3 Bed.ex3 ∧ Bed.WF 11 Bed.ex11) := by decide
example : (bedEncodeAll [Bed.ex12, { Bed.ex12 with name := [], blockCount := 0, blockSizes := [], blockStarts := [] }]).length
    ≤ 200 ∧
    (bedEncodeAll [Bed.ex12, { Bed.ex12 with name := [], blockCount := 0, blockSizes := [], blockStarts := [] }]).length
    < 201 := by decide +kernel
/-- the 12-field record with two blocks (`"a"\0\xFF# ` as name, maxInt64, minInt64, `255,0,7`,
`10,-20`, `0,300`) through the translated `Write`, then through the translated reader -/
example : allFound = false ∨ (
    ((bedWriteAll [Bed.ex12] ⟨100, []⟩).bind fun p => goBedDecode atoiP puP 100 p.2.out .eof)
      = some [Item.ok Bed.ex12]
    ∧ ((bedWriteAll [Bed.ex3, Bed.ex3] ⟨100, []⟩).bind fun p => goBedDecode atoiP puP 100 p.2.out .eof)
      = some [Item.ok (Bed.truncate 3 Bed.ex3), Item.ok (Bed.truncate 3 Bed.ex3)]
    ∧ ((bedWriteAll [Bed.ex11] ⟨100, []⟩).bind fun p => goBedDecode atoiP puP 100 p.2.out .eof)
      = some [Item.ok (Bed.truncate 11 Bed.ex11)]) := by
  decide +kernel

end Bio.Props.C04ReadGo
