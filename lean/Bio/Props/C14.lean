/-
  C14 — sequtil/amino.go: `Translate`, `TranslateReadingFrames`, `AminoName`.

  Table parameters: `codonTableOK tbl` — the table (which lists every accepted
  raw triple, i.e. the 512 case variants) agrees with `stdCodon`, the standard
  genetic code (NCBI translation table 1) given by the string
  "FFLLSSSSYY**CC*WLLLLPPPPHHQQRRRRIIIMTTTTNNKKSSRRVVVVAAAADDEEGGGG" in TCAG
  order; `aminoTableOK tbl aminoAcids` — the accepted bytes of the name table
  are the symbols of `AminoAcids` in either case, all codes and names
  non-empty.  Both are defined in `Bio/Lemmas/Sequtil.lean` and discharged on
  the regenerated tables by `decide +kernel`.
-/
import Bio.Lemmas.Sequtil
namespace Bio.Sequtil

/-! ## Literal tables for the non-vacuity examples -/

/-- The 64 entries of `codonToAmino`, copied from amino.go. -/
def exCodons64 : CodonTable :=
  [((65, 65, 65), 75), ((65, 65, 67), 78), ((65, 65, 71), 75), ((65, 65, 84), 78),
   ((65, 67, 65), 84), ((65, 67, 67), 84), ((65, 67, 71), 84), ((65, 67, 84), 84),
   ((65, 71, 65), 82), ((65, 71, 67), 83), ((65, 71, 71), 82), ((65, 71, 84), 83),
   ((65, 84, 65), 73), ((65, 84, 67), 73), ((65, 84, 71), 77), ((65, 84, 84), 73),
   ((67, 65, 65), 81), ((67, 65, 67), 72), ((67, 65, 71), 81), ((67, 65, 84), 72),
   ((67, 67, 65), 80), ((67, 67, 67), 80), ((67, 67, 71), 80), ((67, 67, 84), 80),
   ((67, 71, 65), 82), ((67, 71, 67), 82), ((67, 71, 71), 82), ((67, 71, 84), 82),
   ((67, 84, 65), 76), ((67, 84, 67), 76), ((67, 84, 71), 76), ((67, 84, 84), 76),
   ((71, 65, 65), 69), ((71, 65, 67), 68), ((71, 65, 71), 69), ((71, 65, 84), 68),
   ((71, 67, 65), 65), ((71, 67, 67), 65), ((71, 67, 71), 65), ((71, 67, 84), 65),
   ((71, 71, 65), 71), ((71, 71, 67), 71), ((71, 71, 71), 71), ((71, 71, 84), 71),
   ((71, 84, 65), 86), ((71, 84, 67), 86), ((71, 84, 71), 86), ((71, 84, 84), 86),
   ((84, 65, 65), 42), ((84, 65, 67), 89), ((84, 65, 71), 42), ((84, 65, 84), 89),
   ((84, 67, 65), 83), ((84, 67, 67), 83), ((84, 67, 71), 83), ((84, 67, 84), 83),
   ((84, 71, 65), 42), ((84, 71, 67), 67), ((84, 71, 71), 87), ((84, 71, 84), 67),
   ((84, 84, 65), 76), ((84, 84, 67), 70), ((84, 84, 71), 76), ((84, 84, 84), 70)]

/-- All raw triples the Go code accepts: each base upper- or lower-case. -/
def exCodonTable : CodonTable :=
  exCodons64.flatMap fun e =>
    [e.1.1, e.1.1 + 32].flatMap fun a => [e.1.2.1, e.1.2.1 + 32].flatMap fun b =>
      [e.1.2.2, e.1.2.2 + 32].map fun c => ((a, b, c), e.2)

example : exCodonTable.length = 512 := by decide +kernel
theorem exCodonTable_ok : codonTableOK exCodonTable = true := by decide +kernel
/-- The predicate is not trivially true: a missing entry, a wrong letter, an extra entry. -/
example : codonTableOK (exCodonTable.drop 1) = false := by decide +kernel
example : codonTableOK (((84, 71, 65), 87) :: exCodonTable) = false := by decide +kernel
example : codonTableOK (exCodonTable ++ [((78, 78, 78), 88)]) = false := by decide +kernel

/-- `aminoToName` of amino.go (upper-case keys). -/
def exAminoUpper : List (UInt8 × Bytes × Bytes) :=
  [(65, [65, 108, 97], [65, 108, 97, 110, 105, 110, 101]),
   (66, [65, 115, 120], [65, 115, 112, 97, 114, 97, 103, 105, 110, 101]),
   (67, [67, 121, 115], [67, 121, 115, 116, 101, 105, 110, 101]),
   (68, [65, 115, 112], [65, 115, 112, 97, 114, 116, 105, 99]),
   (69, [71, 108, 117], [71, 108, 117, 116, 97, 109, 105, 99]),
   (70, [80, 104, 101], [80, 104, 101, 110, 121, 108, 97, 108, 97, 110, 105, 110, 101]),
   (71, [71, 108, 121], [71, 108, 121, 99, 105, 110, 101]),
   (72, [72, 105, 115], [72, 105, 115, 116, 105, 100, 105, 110, 101]),
   (73, [73, 108, 101], [73, 115, 111, 108, 101, 117, 99, 105, 110, 101]),
   (75, [76, 121, 115], [76, 121, 115, 105, 110, 101]),
   (76, [76, 101, 117], [76, 101, 117, 99, 105, 110, 101]),
   (77, [77, 101, 116], [77, 101, 116, 104, 105, 111, 110, 105, 110, 101]),
   (78, [65, 115, 110], [65, 115, 112, 97, 114, 97, 103, 105, 110, 101]),
   (80, [80, 114, 111], [80, 114, 111, 108, 105, 110, 101]),
   (81, [71, 108, 110], [71, 108, 117, 116, 97, 109, 105, 110, 101]),
   (82, [65, 114, 103], [65, 114, 103, 105, 110, 105, 110, 101]),
   (83, [83, 101, 114], [83, 101, 114, 105, 110, 101]),
   (84, [84, 104, 114], [84, 104, 114, 101, 111, 110, 105, 110, 101]),
   (86, [86, 97, 108], [86, 97, 108, 105, 110, 101]),
   (87, [84, 114, 112], [84, 114, 121, 112, 116, 111, 112, 104, 97, 110]),
   (88, [88], [65, 110, 121, 32, 99, 111, 100, 111, 110]),
   (89, [84, 121, 114], [84, 121, 114, 111, 115, 105, 110, 101]),
   (90, [71, 108, 120], [71, 108, 117, 116, 97, 109, 105, 110, 101]),
   (42, [42], [83, 116, 111, 112, 32, 99, 111, 100, 111, 110])]

/-- Every accepted raw byte: the keys and the lower-case forms of the letter keys. -/
def exAminoTable : List (UInt8 × Bytes × Bytes) :=
  exAminoUpper ++ (exAminoUpper.filter fun e => isUpper e.1).map fun e => (e.1 + 32, e.2)

/-- "ABCDEFGHIKLMNPQRSTVWXYZ*" -/
def exAminoAcids : Bytes :=
  [65, 66, 67, 68, 69, 70, 71, 72, 73, 75, 76, 77, 78, 80, 81, 82, 83, 84, 86, 87, 88, 89, 90, 42]

example : aminoTableOK exAminoTable exAminoAcids = true := by decide +kernel
example : aminoTableOK exAminoUpper exAminoAcids = false := by decide +kernel
example : aminoTableOK ((74, [74], [74]) :: exAminoTable) exAminoAcids = false := by decide +kernel

/-! ## 1. The codon table is the standard genetic code -/

theorem codon_spec {tbl : CodonTable} (h : codonTableOK tbl = true) (a b c : UInt8) :
    codon tbl a b c = stdCodon a b c := codon_eq_std h a b c

/-- Accepted triples are exactly those over `aAcCgGtT` (8³ = 512 of them). -/
theorem codon_accepts_iff {tbl : CodonTable} (h : codonTableOK tbl = true) (a b c : UInt8) :
    (codon tbl a b c).isSome = (isDNA a && isDNA b && isDNA c) := by
  rw [codon_eq_std h, stdCodon_isSome]

/-- ATG = M, tga = *, TtT = F, GGN rejected. -/
example : stdCodon 65 84 71 = some 77 ∧ stdCodon 116 103 97 = some 42
    ∧ stdCodon 84 116 84 = some 70 ∧ stdCodon 71 71 78 = none := by decide

/-! ## 2. `Translate` -/

theorem translate_spec {tbl : CodonTable} (h : codonTableOK tbl = true) (dst src : Bytes) :
    translate tbl dst src =
      if src.length % 3 = 0 then
        ((codons src).mapM fun t => stdCodon t.1 t.2.1 t.2.2).map (dst ++ ·)
      else none := by
  rw [translate_eq]
  simp only [codon_eq_std h]

/-- "ATGtaa" → "M*" appended to dst. -/
example : translate exCodonTable [7] [65, 84, 71, 116, 97, 97] = some [7, 77, 42] := by
  rw [translate_spec exCodonTable_ok]; decide

/-- On DNA input of length divisible by 3: one standard letter per codon, after `dst`. -/
theorem translate_dna {tbl : CodonTable} (h : codonTableOK tbl = true) (dst src : Bytes)
    (hl : src.length % 3 = 0) (hs : ∀ b ∈ src, isDNA b = true) :
    translate tbl dst src = some (dst ++ (codons src).map stdAA) := by
  rw [translate_spec h, if_pos hl,
    mapM_some_of_forall (g := stdAA) (fun t ht => stdCodon_of_dna t (mem_codons_dna src hs t ht))]
  rfl

example : [65, 84, 71, 116, 97, 97].length % 3 = 0 ∧ ∀ b ∈ [65, 84, 71, 116, 97, 97], isDNA b = true := by
  decide

theorem translate_append (tbl : CodonTable) (dst x y : Bytes) (hx : x.length % 3 = 0) :
    translate tbl dst (x ++ y) = (translate tbl dst x).bind fun d => translate tbl d y :=
  translate_append_aux tbl x y dst hx

example : translate exCodonTable [] ([65, 84, 71] ++ [116, 97, 97])
    = (translate exCodonTable [] [65, 84, 71]).bind fun d => translate exCodonTable d [116, 97, 97] :=
  translate_append _ _ _ _ (by decide)

/-- One letter per codon. -/
theorem translate_length (tbl : CodonTable) (dst src r : Bytes)
    (h : translate tbl dst src = some r) : r.length = dst.length + src.length / 3 :=
  translate_length_aux tbl src dst r h

/-- `dst` is untouched: the result is `dst` followed by the translation proper. -/
theorem translate_dst (tbl : CodonTable) (dst src : Bytes) :
    translate tbl dst src = (translate tbl [] src).map (dst ++ ·) := by
  rw [translate_eq, translate_eq]
  split
  · cases (codons src).mapM fun t => codon tbl t.1 t.2.1 t.2.2 <;> simp
  · rfl

/-- Panic exactly on a bad length or a triple the table rejects (any table). -/
theorem translate_none_iff (tbl : CodonTable) (dst src : Bytes) :
    translate tbl dst src = none ↔
      src.length % 3 ≠ 0 ∨ ∃ t ∈ codons src, codon tbl t.1 t.2.1 t.2.2 = none := by
  rw [translate_eq]
  split
  · rename_i hl
    simp only [Option.map_eq_none_iff, mapM_eq_none_iff, hl, ne_eq, not_true_eq_false, false_or]
  · rename_i hl
    simp [hl]

/-- With the standard table: defined exactly on DNA of length divisible by 3. -/
theorem translate_isSome_iff {tbl : CodonTable} (h : codonTableOK tbl = true) (dst src : Bytes) :
    (translate tbl dst src).isSome = true ↔ src.length % 3 = 0 ∧ ∀ b ∈ src, isDNA b = true := by
  constructor
  · intro hsome
    have hnn : ¬ translate tbl dst src = none := by
      intro hn; rw [hn] at hsome; simp at hsome
    rw [translate_none_iff] at hnn
    have hl : src.length % 3 = 0 := by
      apply Decidable.byContradiction; intro hc; exact hnn (Or.inl hc)
    refine ⟨hl, ?_⟩
    intro b hb
    cases hd : isDNA b with
    | true => rfl
    | false =>
      exfalso
      apply hnn
      right
      obtain ⟨t, ht, hbt⟩ := mem_codons_of_mem src hl b hb
      refine ⟨t, ht, ?_⟩
      have := stdCodon_isSome t.1 t.2.1 t.2.2
      rw [codon_eq_std h]
      cases hc : stdCodon t.1 t.2.1 t.2.2 with
      | none => rfl
      | some x =>
        rw [hc] at this
        rcases hbt with rfl | rfl | rfl <;> simp [hd] at this
  · rintro ⟨hl, hs⟩
    rw [translate_dna h dst src hl hs]; rfl

theorem translate_bad_length (tbl : CodonTable) (dst src : Bytes) (hl : src.length % 3 ≠ 0) :
    translate tbl dst src = none := (translate_none_iff tbl dst src).mpr (Or.inl hl)

theorem translate_bad_base {tbl : CodonTable} (h : codonTableOK tbl = true) (dst src : Bytes)
    (hb : ∃ b ∈ src, isDNA b = false) : translate tbl dst src = none := by
  cases ht : translate tbl dst src with
  | none => rfl
  | some r =>
    have := (translate_isSome_iff h dst src).mp (by rw [ht]; rfl)
    obtain ⟨b, hm, hd⟩ := hb
    rw [this.2 b hm] at hd
    cases hd

example : [65, 84].length % 3 ≠ 0 := by decide
example : translate exCodonTable [] [65, 84, 71, 65] = none := translate_bad_length _ _ _ (by decide)
example : ∃ b ∈ [65, 84, 71, 65, 78, 71], isDNA b = false := by decide
example : translate exCodonTable [] [65, 84, 71, 65, 78, 71] = none :=
  translate_bad_base exCodonTable_ok _ _ (by decide)

/-! ## 3. `TranslateReadingFrames` -/

/-- The three frames: offsets 0, 1, 2, each trimmed to a multiple of 3. -/
theorem frames_spec (tbl : CodonTable) (seq : Bytes) :
    frames tbl seq =
      [seq, seq.drop 1, seq.drop 2].mapM fun s => translate tbl [] (s.take (s.length / 3 * 3)) :=
  rfl

theorem frame_dna {tbl : CodonTable} (h : codonTableOK tbl = true) (s : Bytes)
    (hs : ∀ b ∈ s, isDNA b = true) : frame tbl s = some ((codons s).map stdAA) := by
  unfold frame
  rw [translate_dna h [] _ (take_length_mod3 s) (fun b hb => hs b (List.mem_of_mem_take hb)),
    codons_take]
  rfl

/-- Closed form on DNA input of EVERY length (including 0, 1, 2). -/
theorem frames_dna {tbl : CodonTable} (h : codonTableOK tbl = true) (seq : Bytes)
    (hs : ∀ b ∈ seq, isDNA b = true) :
    frames tbl seq = some [(codons seq).map stdAA, (codons (seq.drop 1)).map stdAA,
      (codons (seq.drop 2)).map stdAA] := by
  unfold frames
  simp only [List.mapM_cons, List.mapM_nil, frame_dna h seq hs,
    frame_dna h (seq.drop 1) (fun b hb => hs b (List.mem_of_mem_drop hb)),
    frame_dna h (seq.drop 2) (fun b hb => hs b (List.mem_of_mem_drop hb))]
  rfl

theorem frames_total {tbl : CodonTable} (h : codonTableOK tbl = true) (seq : Bytes)
    (hs : ∀ b ∈ seq, isDNA b = true) : (frames tbl seq).isSome = true := by
  rw [frames_dna h seq hs]; rfl

theorem frames_nil (tbl : CodonTable) : frames tbl [] = some [[], [], []] := by
  simp [frames, frame, translate]

theorem frames_one {tbl : CodonTable} (h : codonTableOK tbl = true) (a : UInt8)
    (ha : isDNA a = true) : frames tbl [a] = some [[], [], []] := by
  rw [frames_dna h [a] (by simpa using ha)]; rfl

example : ∀ b ∈ [65, 84, 71, 116, 97, 97, 67], isDNA b = true := by decide
/-- "ATGtaaC": frame 0 "M*", frame 1 "TGt aaC" = "CN", frame 2 "Gta" = "V". -/
example : frames exCodonTable [65, 84, 71, 116, 97, 97, 67] = some [[77, 42], [67, 78], [86]] := by
  rw [frames_dna exCodonTable_ok _ (by decide)]; decide
example : frames exCodonTable [71] = some [[], [], []] :=
  frames_one exCodonTable_ok 71 (by decide)

/-! ## 4. `AminoName` -/

/-- Accepted bytes: those whose upper-case form is a symbol of `AminoAcids`;
the answer does not depend on case; code and name are non-empty. -/
theorem aminoName_spec {tbl : List (UInt8 × Bytes × Bytes)} {aminoAcids : Bytes}
    (h : aminoTableOK tbl aminoAcids = true) (b : UInt8) :
    ((aminoName tbl b).isSome = true ↔ upperAZ b ∈ aminoAcids)
    ∧ aminoName tbl b = aminoName tbl (upperAZ b)
    ∧ ∀ r, aminoName tbl b = some r → r.1 ≠ [] ∧ r.2 ≠ [] := by
  simp only [aminoTableOK, Bool.and_eq_true] at h
  obtain ⟨⟨h1, h2⟩, _⟩ := h
  have hb := forall_uint8_of_all
    (p := fun b => ((aminoName tbl b).isSome == aminoAcids.contains (upperAZ b))
      && (aminoName tbl b == aminoName tbl (upperAZ b))) h1 b
  simp only [Bool.and_eq_true, beq_iff_eq] at hb
  refine ⟨?_, hb.2, ?_⟩
  · rw [hb.1]; simp
  · intro r hr
    unfold aminoName at hr
    cases hf : tbl.find? (fun e => e.1 == b) with
    | none => simp [hf] at hr
    | some e =>
      simp only [hf, Option.map_some, Option.some.injEq] at hr
      subst hr
      have := (List.all_eq_true.mp h2) e (List.mem_of_find?_eq_some hf)
      simpa using this

/-- "A letter of `AminoAcids` in either case": every symbol is accepted, so is
the lower-case form of every letter symbol, and nothing else is. -/
theorem aminoName_accepts {tbl : List (UInt8 × Bytes × Bytes)} {aminoAcids : Bytes}
    (h : aminoTableOK tbl aminoAcids = true) :
    (∀ c ∈ aminoAcids, (aminoName tbl c).isSome = true
        ∧ (isUpper c = true → (aminoName tbl (c + 32)).isSome = true))
    ∧ ∀ b, (aminoName tbl b).isSome = true →
        b ∈ aminoAcids ∨ (97 ≤ b ∧ b ≤ 122 ∧ b - 32 ∈ aminoAcids) := by
  have hall : ∀ c ∈ aminoAcids, (isUpper c || c == 42) = true := by
    simp only [aminoTableOK, Bool.and_eq_true] at h
    exact List.all_eq_true.mp h.2
  constructor
  · intro c hc
    constructor
    · rw [(aminoName_spec h c).1, upperAZ_of_upper_or_star c (hall c hc)]; exact hc
    · intro hu
      rw [(aminoName_spec h (c + 32)).1, upperAZ_lower c hu]; exact hc
  · intro b hb
    rw [(aminoName_spec h b).1] at hb
    rcases upperAZ_cases b with he | ⟨h1, h2, he⟩
    · left; rwa [he] at hb
    · right; rw [he] at hb; exact ⟨h1, h2, hb⟩

/-- 'm' and 'M' give ("Met", "Methionine"); 'J' and '+' are rejected; '*' is accepted. -/
example : aminoName exAminoTable 109 = aminoName exAminoTable 77
    ∧ aminoName exAminoTable 77 = some ([77, 101, 116], [77, 101, 116, 104, 105, 111, 110, 105, 110, 101])
    ∧ aminoName exAminoTable 74 = none ∧ aminoName exAminoTable 43 = none
    ∧ (aminoName exAminoTable 42).isSome = true := by decide +kernel

end Bio.Sequtil
