/-
  Source-level tie for C05 / C11: facts extracted by go/ast from the SOURCE TEXT of /repo
  (Bio/Generated/Src.lean, regenerated on every run).  Best-effort: a fact whose
  source shape is not recognised is `none` and nothing is claimed about it (the
  behaviour-level tie through Bio/Generated/Tables.lean and the correspondence
  run remains); a fact that IS extracted must agree with the model and with the
  observed behaviour.  Re-checked by `decide` on every run.
-/
import Bio.Model.Newick
import Bio.Generated.Src
import Bio.Generated.Tables
namespace Bio.SrcFacts
open Bio.Generated

def sameSet (a b : List UInt8) : Bool := a.all (b.contains ·) && b.all (a.contains ·)

/-- The quote set in `nameToText`'s source is, as a set, the set of bytes the running
writer was observed to quote. -/
theorem newick_quote_set : ∀ q, Src.newickQuoteChars = some q → sameSet q Generated.newickQuoteBytes = true := by
  decide

/-- The tokenizer's `switch b` cases are the model's `isStruct` / `isWS` / quote byte. -/
theorem newick_token_classes :
    (∀ q, Src.newickTokQuote = some q → q = [Bio.Newick.QUOTE]) ∧
    (∀ st, Src.newickTokStruct = some st →
      (List.range 256).all (fun n => Bio.Newick.isStruct (UInt8.ofNat n) == st.contains (UInt8.ofNat n)) = true) ∧
    (∀ ws, Src.newickTokSpace = some ws →
      (List.range 256).all (fun n => Bio.Newick.isWS (UInt8.ofNat n) == ws.contains (UInt8.ofNat n)) = true) := by
  refine ⟨by decide, ?_, ?_⟩ <;> intro x hx <;> simp only [Src.newickTokStruct, Src.newickTokSpace, Option.some.injEq] at hx <;>
    subst hx <;> decide +kernel

end Bio.SrcFacts
