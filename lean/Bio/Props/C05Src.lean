/-
  Source-level tie for C05 / C11: facts extracted by go/ast from the SOURCE TEXT of /repo
  (Bio/Generated/Src.lean, regenerated on every run).  Best-effort: a fact whose
  source shape is not recognised is `none` and nothing is claimed about it (the
  behaviour-level tie through Bio/Generated/Tables.lean and the correspondence
  run remains); a fact that IS extracted must agree with the model and with the
  observed behaviour.  `holdsIfFound o p` is `true` for `none` and `p x` for
  `some x`; every theorem is closed by `decide` whichever it is.
-/
import Bio.Lemmas.SrcFacts
import Bio.Model.Newick
import Bio.Generated.Src
import Bio.Generated.Tables
namespace Bio.SrcFacts
open Bio.Generated

def sameSet (a b : List UInt8) : Bool := a.all (b.contains ·) && b.all (a.contains ·)

/-- The quote set in `nameToText`'s source is, as a set, the set of bytes the running
writer was observed to quote. -/
theorem newick_quote_set :
    holdsIfFound Src.newickQuoteChars (fun q => sameSet q Generated.newickQuoteBytes) = true := by decide

/-- The tokenizer's `switch b` cases are the model's `isStruct` / `isWS` / quote byte. -/
theorem newick_token_classes :
    holdsIfFound Src.newickTokQuote (· == [Bio.Newick.QUOTE]) = true ∧
    holdsIfFound Src.newickTokStruct (fun st =>
      (List.range 256).all fun n => Bio.Newick.isStruct (UInt8.ofNat n) == st.contains (UInt8.ofNat n)) = true ∧
    holdsIfFound Src.newickTokSpace (fun ws =>
      (List.range 256).all fun n => Bio.Newick.isWS (UInt8.ofNat n) == ws.contains (UInt8.ofNat n)) = true := by
  decide +kernel

end Bio.SrcFacts
