/-
  Source-level tie for C05 / C11: facts extracted by go/ast from the SOURCE TEXT of /repo
  (Bio/Generated/Src.lean, regenerated on every run) agree with what the model
  assumes and with what the running code was observed to do
  (Bio/Generated/Tables.lean).  Re-checked by `decide` on every run; an
  unrecognised source shape makes the generated file fail to elaborate.
-/
import Bio.Model.Newick
import Bio.Generated.Src
import Bio.Generated.Tables
namespace Bio.SrcFacts
open Bio.Generated

/-- C05: the quote set in `nameToText`'s source is, as a set, the set of bytes the
running writer was observed to quote. -/
theorem newick_quote_set :
    (∀ b ∈ Src.newickQuoteChars, b ∈ Generated.newickQuoteBytes) ∧
    (∀ b ∈ Generated.newickQuoteBytes, b ∈ Src.newickQuoteChars) := by decide

/-- C05/C11: the tokenizer's `switch b` cases are the model's `isStruct` / `isWS` / quote byte. -/
theorem newick_token_classes :
    Src.newickTokQuote = [Bio.Newick.QUOTE] ∧
    (List.range 256).all (fun n =>
      let b := UInt8.ofNat n
      (Bio.Newick.isStruct b == Src.newickTokStruct.contains b) &&
      (Bio.Newick.isWS b == Src.newickTokSpace.contains b)) = true := by decide +kernel

end Bio.SrcFacts
