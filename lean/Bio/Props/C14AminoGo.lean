/-
  C14 / C12 for the Go SOURCE TEXT, two small functions: `AminoName` (sequtil/amino.go) with the map
  literal `aminoToName`, and `ReverseComplementString` (sequtil/sequtil.go), as translated on every
  run into `Bio.Generated.GoSrc`:

  * `AminoName` on the source's own map literal is the model's `aminoName` on the table OBSERVED from
    the running code, for all 256 bytes (lower case folded, a panic exactly on the other bytes) — a
    finite check lifted to `∀ b : UInt8`; hence the results of `Bio/Props/C14.lean` about the observed
    table hold for the source text;
  * `ReverseComplementString s` is `ReverseComplement(nil, s)` (the model's `revComp`), for every `s`.

  Guarded by the translator's `<f>_Found` flags.
-/
import Bio.Props.C14Inst
import Bio.Props.C12Go
namespace Bio.Props.C14AminoGo
open Bio Bio.GoRt Bio.Generated Bio.GoSrcLemmas

def allFound : Bool :=
  GoSrc.g_aminoToName_Found && GoSrc.AminoName_Found && GoSrc.ReverseComplementString_Found && GoSrc.complementByte_Found

/-- `AminoName` of the source = the model on the observed table, for every byte. -/
theorem go_AminoName : GoSrc.AminoName_Found = true → GoSrc.g_aminoToName_Found = true →
    ∀ b : UInt8, GoSrc.AminoName GoSrc.g_aminoToName b = Sequtil.aminoName Generated.aminoTable b := by
  intro h1 h2
  first
  | exact absurd h1 (by decide)
  | exact absurd h2 (by decide)
  | (have h : (List.range 256).all (fun n =>
        GoSrc.AminoName GoSrc.g_aminoToName (UInt8.ofNat n)
          == Sequtil.aminoName Generated.aminoTable (UInt8.ofNat n)) = true := by decide +kernel
     intro b
     have := Sequtil.forall_uint8_of_all
       (p := fun b => GoSrc.AminoName GoSrc.g_aminoToName b == Sequtil.aminoName Generated.aminoTable b) h b
     simpa using this)

/-- Accepted exactly on the letters of `AminoAcids` in either case; both names non-empty; lower case
gives the same answer as upper case; every other byte panics. -/
theorem go_AminoName_spec : GoSrc.AminoName_Found = true → GoSrc.g_aminoToName_Found = true →
    ∀ b : UInt8,
      ((GoSrc.AminoName GoSrc.g_aminoToName b).isSome = true ↔ Sequtil.upperAZ b ∈ Generated.aminoAcids)
      ∧ GoSrc.AminoName GoSrc.g_aminoToName b = GoSrc.AminoName GoSrc.g_aminoToName (Sequtil.upperAZ b)
      ∧ ∀ r, GoSrc.AminoName GoSrc.g_aminoToName b = some r → r.1 ≠ [] ∧ r.2 ≠ [] := by
  intro h1 h2 b
  rw [go_AminoName h1 h2 b, go_AminoName h1 h2 (Sequtil.upperAZ b)]
  exact Sequtil.aminoName_spec Sequtil.generated_aminoTable_ok b

example : allFound = false ∨ (GoSrc.AminoName GoSrc.g_aminoToName 109 = some ([77, 101, 116], [77, 101, 116, 104, 105, 111, 110, 105, 110, 101])
    ∧ GoSrc.AminoName GoSrc.g_aminoToName 42 = some ([42], [83, 116, 111, 112, 32, 99, 111, 100, 111, 110])
    ∧ GoSrc.AminoName GoSrc.g_aminoToName 74 = none ∧ GoSrc.AminoName GoSrc.g_aminoToName 10 = none) := by decide +kernel

/-- `ReverseComplementString` is `ReverseComplement` into an empty destination. -/
theorem go_ReverseComplementString : GoSrc.ReverseComplementString_Found = true → GoSrc.complementByte_Found = true →
    ∀ (tbl : List UInt8) (s : Bytes), GoSrc.ReverseComplementString tbl s = Sequtil.revComp tbl [] s := by
  intro hF hC tbl s
  first
  | exact absurd hF (by decide)
  | exact absurd hC (by decide)
  | (unfold GoSrc.ReverseComplementString Sequtil.revComp
     simp only [Option.pure_def, Option.bind_eq_bind]
     have := forIn_downFrom_idx s ([] : Bytes) (fun x st => (GoSrc.complementByte tbl x).bind fun y => some (ForInStep.yield (st ++ [y])))
     simp at this ⊢
     rw [this]
     simp only [complementByte_eq hC]
     rw [appendLoop_eq]
     cases (List.mapM (Sequtil.comp tbl) s.reverse) <;> simp)

example : allFound = false ∨ (GoSrc.ReverseComplementString Generated.compTable [65, 65, 99, 78] = some [78, 103, 84, 84]
    ∧ GoSrc.ReverseComplementString Generated.compTable [65, 88] = none) := by decide

end Bio.Props.C14AminoGo
