/-
  C03 / C11 / C18 (SAM), ITERATOR level, for the Go SOURCE TEXT of `ReaderHeader` (formats/sam/iter.go),
  as translated on every run, statement by statement, into `Bio.Generated.GoSrc.sam_ReaderHeader`:

      sam_ReaderHeader h f g fuel ⟨x, e⟩ yield : Option (List item)

  `h`, `f`, `g` stand for `hex.DecodeString`, `strconv.Atoi`, `strconv.ParseFloat` (PARAMETERS; what is
  assumed about them is `HexModel h`, `AtoiModel f`, `PFModel g pf`, as in `Bio.Props.C03ReadGo`);
  `⟨x, e⟩` is the `bufio.Reader` (the bytes `x`, then `io.EOF` or a read error); `yield` is a HISTORY
  consumer (asked about all items handed to it so far, the current one last; not asked about the
  read-error item, whose verdict the Go code ignores); the result is the LOG of the items handed over;
  `fuel` bounds the `for { }` loop (`none` = out of fuel or a panic).  It calls the translated
  `sam_parseLine` (`Bio.Props.C03ReadGo`).

  An item is `((H, S), err)` (`SAMOrHeader{H *string, S *SAM}` and the error).  The Go tag map of a
  record is an association list in INSERTION order, the model's is SORTED by name; `normItem` turns a
  Go item into a model item `Item Sam.Entry`: `err ≠ nil ↦ .err`, a header `↦ .ok (.hdr h)`, a record
  `↦ .ok (.sam r)` with `r`'s tags normalised by `Sam.insertAll · []`.

  1. `go_readerHeader_log`: for every input, ending and consumer of normalised histories, with
     `number of text lines + 1` fuel (at most `len x + 1`: `go_readerHeader_fuel`): the normalised log IS
     `takeThroughH y' [] (Sam.decodeHeaderSrc pf e x)` = the model closure `samReaderHeaderH pf e x y'`.
     `go_readerHeader_raw` / `go_readerHeader_items`: the un-normalised log for an ARBITRARY consumer.
  2. `go_readerHeader_all`: the consumer that never stops sees `Sam.decodeHeaderSrc`; without the
     headers, `Sam.decodeSrc`.  `go_readerHeader_line_error`: C11 on the translated code.
  3. `go_readerHeader_early_stop` (ANY Go-level consumer), `go_readerHeader_early_stop_norm`.
  4. `go_readerHeader_no_panic`: arbitrary library functions, arbitrary consumer.
  5. `go_readerHeader_roundtrip`: the translated `Write`, then the translated `ReaderHeader`.

  Guarded by the translator's `_Found` flags (see `Bio.Lemmas.GoSrc`).
-/
import Bio.Lemmas.GoSrcSamIter
import Bio.Props.C03ReadGo
import Bio.Props.C18Hist
set_option linter.unusedVariables false
namespace Bio.Props.C03IterGo
open Bio Bio.GoRt Bio.Generated Bio.GoSrcLemmas Bio.GoSrcLemmas.SamP Bio.GoSrcLemmas.BedRd
  Bio.GoSrcLemmas.SamIt

/-- every translator flag this file depends on; the non-vacuity examples below are stated as
`allFound = false ∨ …` so that a source the translator no longer recognises is not an alarm -/
def allFound : Bool :=
  GoSrc.sam_ReaderHeader_Found && GoSrc.sam_parseLine_Found && GoSrc.parseTags_Found && GoSrc.parseInts_Found
    && GoSrc.splitTag_Found && GoSrc.sam_Write_Found

/-! ## The hypotheses are satisfiable; `normItem`, spelled out -/

example : AtoiModel atoiP ∧ PFModel (pfP Sam.exPf) Sam.exPf ∧ HexModel hexP :=
  ⟨atoiP_model, pfP_model _, hexP_model⟩

/-- `normItem` on the four shapes: a header; a record (`tupleOf s r`: the fields of `s` with the Go tag
map `r`) — the tags are sorted by insertion; any error; the pair `(SAMOrHeader{}, nil)` (never produced) -/
example (hd : Bytes) (s : Sam.Sam) (r : Sam.Tags) (o : Option Bytes) (t : Option SamT) :
    normItem ((some hd, t), GoErr.nil) = .ok (.hdr hd)
    ∧ normItem ((none, some (tupleOf s r)), GoErr.nil) = .ok (.sam { s with tags := Sam.insertAll r [] })
    ∧ normItem ((o, t), GoErr.other) = .err ∧ normItem ((o, t), GoErr.eof) = .err
    ∧ normItem ((none, none), GoErr.nil) = .err := by
  refine ⟨rfl, rfl, ?_, ?_, rfl⟩ <;> cases o <;> cases t <;> rfl

/-- enough fuel: one iteration per text line and one more to meet the end of the input; never more
than `len x + 1` -/
theorem go_readerHeader_fuel (e : Ending) (x : Bytes) : (textLines e x).length + 1 ≤ x.length + 1 :=
  lines_le e x

/-! ## 1. The log -/

/-- For ARBITRARY library functions and an ARBITRARY consumer `y` of Go-level histories: the log is the
list `goItems …` of the Go items of an uninterrupted run — for each non-empty text line of `x`
(`textLines e x`: split at LF, one CR stripped, an unterminated last line kept at `io.EOF` and dropped
at a read error), `(H = the line, nil)` if it starts with `@` and else what the translated `parseLine`
returns on its TAB-separated fields; then `(SAMOrHeader{}, err)` if the source failed — up to and
including the first item after which `y` said stop. -/
theorem go_readerHeader_raw : GoSrc.sam_ReaderHeader_Found = true → GoSrc.sam_parseLine_Found = true →
    GoSrc.parseInts_Found = true → GoSrc.parseTags_Found = true → GoSrc.splitTag_Found = true →
    ∀ (h : Bytes → Bytes × GoErr) (f : Bytes → Int × GoErr) (g : Bytes → Int → Bytes × GoErr)
      (x : Bytes) (e : Ending) (y : List GoItem → Bool) (fuel : Nat), (textLines e x).length + 1 ≤ fuel →
    GoSrc.sam_ReaderHeader h f g fuel ⟨x, e⟩ y
      = some (takeThroughH y []
          (((textLines e x).filter (· ≠ [])).map (fun l =>
              if List.isPrefixOf [64] l = true then (((some l, none), GoErr.nil) : GoItem)
              else ((none, (lineSpec h f g (splitOn 9 l)).1), (lineSpec h f g (splitOn 9 l)).2))
            ++ (match e with | .eof => [] | .fail => [((none, none), GoErr.other)]))) := by
  intro hR hF hI hT hS h f g x e y fuel hfuel
  rw [sam_ReaderHeader_raw hR hF hI hT hS h f g fuel x e y hfuel]
  cases e <;> rfl

/-- Under the three hypotheses those Go items, normalised, are the model's items. -/
theorem go_readerHeader_items :
    ∀ (h : Bytes → Bytes × GoErr) (f : Bytes → Int × GoErr) (g : Bytes → Int → Bytes × GoErr)
      (pf : Bytes → Option Bytes), AtoiModel f → PFModel g pf → HexModel h → ∀ (x : Bytes) (e : Ending),
    (goItems (lineSpec h f g) e x).map normItem = Sam.decodeHeaderSrc pf e x :=
  fun h f g pf hf hg hh x e => goItems_norm hf hg hh e x

/-- THE LOG.  Under `AtoiModel f`, `PFModel g pf`, `HexModel h`, for every input `x`, ending `e`, every
consumer `y'` of normalised histories (and `y` any Go-level consumer that answers as `y'` does on the
normalised history — `y := fun l => y' (l.map normItem)` is one), and `fuel ≥ text lines + 1`: the
normalised log of the translated closure is the model's item list `Sam.decodeHeaderSrc pf e x` cut by
`y'`, i.e. the log of the model closure `samReaderHeaderH pf e x y'`: one error item per malformed line
and reading continues, header lines verbatim, blank lines skipped, CRLF and a missing final newline
handled, a read error is the last item (and the consumer is not asked about it). -/
theorem go_readerHeader_log : GoSrc.sam_ReaderHeader_Found = true → GoSrc.sam_parseLine_Found = true →
    GoSrc.parseInts_Found = true → GoSrc.parseTags_Found = true → GoSrc.splitTag_Found = true →
    ∀ (h : Bytes → Bytes × GoErr) (f : Bytes → Int × GoErr) (g : Bytes → Int → Bytes × GoErr)
      (pf : Bytes → Option Bytes), AtoiModel f → PFModel g pf → HexModel h →
    ∀ (x : Bytes) (e : Ending) (y' : List (Item Sam.Entry) → Bool) (y : List GoItem → Bool),
    (∀ l, y l = y' (l.map normItem)) → ∀ (fuel : Nat), (textLines e x).length + 1 ≤ fuel →
    (GoSrc.sam_ReaderHeader h f g fuel ⟨x, e⟩ y).map (·.map normItem)
        = some (takeThroughH y' [] (Sam.decodeHeaderSrc pf e x))
    ∧ (GoSrc.sam_ReaderHeader h f g fuel ⟨x, e⟩ y).map (·.map normItem)
        = some (IterH.samReaderHeaderH pf e x y') := by
  intro hR hF hI hT hS h f g pf hf hg hh x e y' y hy fuel hfuel
  have hy' : y = fun l => y' (l.map normItem) := funext hy
  have h1 : (GoSrc.sam_ReaderHeader h f g fuel ⟨x, e⟩ y).map (·.map normItem)
      = some (takeThroughH y' [] (Sam.decodeHeaderSrc pf e x)) := by
    rw [sam_ReaderHeader_raw hR hF hI hT hS h f g fuel x e y hfuel, hy', Option.map_some,
      takeThroughH_map normItem y' _ [], goItems_norm hf hg hh e x]
    rfl
  exact ⟨h1, by rw [h1, C18Hist.samReaderHeaderH_log]⟩

/-- the consumer hypothesis of `go_readerHeader_log` is satisfiable: the lifted consumer itself; and a
consumer that looks at Go items only through what `normItem` keeps (here: "stop at the first error") -/
example (y' : List (Item Sam.Entry) → Bool) : ∀ l : List GoItem, liftY y' l = y' (l.map normItem) := fun _ => rfl
example : ∀ l : List GoItem,
    (fun l : List GoItem => (l.map normItem).getLast? != some .err) l
      = (fun l' : List (Item Sam.Entry) => l'.getLast? != some .err) (l.map normItem) := fun _ => rfl

/-! ## 2. The consumer that never stops -/

/-- With the consumer that never stops the normalised log is exactly `Sam.decodeHeaderSrc pf e x`, and
without the header items it is `Sam.decodeSrc pf e x` — what `Reader` yields. -/
theorem go_readerHeader_all : GoSrc.sam_ReaderHeader_Found = true → GoSrc.sam_parseLine_Found = true →
    GoSrc.parseInts_Found = true → GoSrc.parseTags_Found = true → GoSrc.splitTag_Found = true →
    ∀ (h : Bytes → Bytes × GoErr) (f : Bytes → Int × GoErr) (g : Bytes → Int → Bytes × GoErr)
      (pf : Bytes → Option Bytes), AtoiModel f → PFModel g pf → HexModel h →
    ∀ (x : Bytes) (e : Ending) (fuel : Nat), (textLines e x).length + 1 ≤ fuel →
    (GoSrc.sam_ReaderHeader h f g fuel ⟨x, e⟩ (fun _ => true)).map (·.map normItem)
        = some (Sam.decodeHeaderSrc pf e x)
    ∧ (GoSrc.sam_ReaderHeader h f g fuel ⟨x, e⟩ (fun _ => true)).map (fun L => Sam.dropHeaders (L.map normItem))
        = some (Sam.decodeSrc pf e x) := by
  intro hR hF hI hT hS h f g pf hf hg hh x e fuel hfuel
  have h1 := (go_readerHeader_log hR hF hI hT hS h f g pf hf hg hh x e (fun _ => true) (fun _ => true)
    (fun _ => rfl) fuel hfuel).1
  rw [IterH.takeThroughH_true, List.nil_append] at h1
  refine ⟨h1, ?_⟩
  cases hq : GoSrc.sam_ReaderHeader h f g fuel ⟨x, e⟩ (fun _ => true) with
  | none => rw [hq] at h1; cases h1
  | some L =>
    rw [hq] at h1
    simp only [Option.map_some, Option.some.injEq] at h1 ⊢
    rw [h1]; rfl

/-- C11 on the translated code: in a file of LF-terminated plain lines, a non-empty, non-header line
that the model's `parseLine` rejects is exactly ONE error item, in place, and reading continues: the
items before it and after it are those of the files without it. -/
theorem go_readerHeader_line_error : GoSrc.sam_ReaderHeader_Found = true → GoSrc.sam_parseLine_Found = true →
    GoSrc.parseInts_Found = true → GoSrc.parseTags_Found = true → GoSrc.splitTag_Found = true →
    ∀ (h : Bytes → Bytes × GoErr) (f : Bytes → Int × GoErr) (g : Bytes → Int → Bytes × GoErr)
      (pf : Bytes → Option Bytes), AtoiModel f → PFModel g pf → HexModel h →
    ∀ (pre post : List Bytes) (l' : Bytes),
    (∀ l ∈ pre, Sam.plainLine l) → (∀ l ∈ post, Sam.plainLine l) → Sam.plainLine l' → l' ≠ [] →
    l'.head? ≠ some 64 → Sam.parseLine pf (splitOn TAB l') = none →
    ∀ (fuel : Nat), pre.length + post.length + 2 ≤ fuel →
    (GoSrc.sam_ReaderHeader h f g fuel ⟨lfFile (pre ++ [l'] ++ post), .eof⟩ (fun _ => true)).map (·.map normItem)
      = some (Sam.decodeHeader pf (lfFile pre) ++ [Item.err] ++ Sam.decodeHeader pf (lfFile post)) := by
  intro hR hF hI hT hS h f g pf hf hg hh pre post l' hpre hpost hl hne h64 hbad fuel hfuel
  have hall : ∀ l ∈ pre ++ [l'] ++ post, Sam.plainLine l := by
    intro l hm
    simp only [List.mem_append, List.mem_singleton] at hm
    rcases hm with (hm | hm) | hm
    · exact hpre l hm
    · subst hm; exact hl
    · exact hpost l hm
  have hlines : textLines .eof (lfFile (pre ++ [l'] ++ post)) = pre ++ [l'] ++ post :=
    textLines_eof_lfFile _ hall
  rw [(go_readerHeader_all hR hF hI hT hS h f g pf hf hg hh _ .eof fuel (by rw [hlines]; simp; omega)).1]
  exact congrArg some (Sam.line_error_local pf pre post l' hpre hpost hl hne h64 hbad).1

/-- Non-vacuity: surrounding lines include a header, an empty line, another bad line and a good
record; the bad line has three fields. -/
example :
    let pre : List Bytes := [[64, 72, 68], [], [120, 9, 121]]
    let post : List Bytes := [[], [34, 34]]
    let l' : Bytes := [97, 34, 9, 98, 9, 99]
    (∀ l ∈ pre, Sam.plainLine l) ∧ (∀ l ∈ post, Sam.plainLine l) ∧ Sam.plainLine l' ∧ l' ≠ [] ∧
    l'.head? ≠ some 64 ∧ Sam.parseLine Sam.exPf (splitOn TAB l') = none := by decide

/-! ## 3. Early stop -/

/-- For ANY Go-level consumer `y` (it may keep state, and may look at the tag order): the closure
returns a log `L` such that (a) `L`, normalised, is a prefix of the model's uninterrupted run
`Sam.decodeHeaderSrc pf e x` (and `L` itself a prefix of the Go items of the uninterrupted run);
(b) `y` answered `true` on every proper prefix history; (c) an item after which `y` answered `false` is
the last one. -/
theorem go_readerHeader_early_stop : GoSrc.sam_ReaderHeader_Found = true → GoSrc.sam_parseLine_Found = true →
    GoSrc.parseInts_Found = true → GoSrc.parseTags_Found = true → GoSrc.splitTag_Found = true →
    ∀ (h : Bytes → Bytes × GoErr) (f : Bytes → Int × GoErr) (g : Bytes → Int → Bytes × GoErr)
      (pf : Bytes → Option Bytes), AtoiModel f → PFModel g pf → HexModel h →
    ∀ (x : Bytes) (e : Ending) (y : List GoItem → Bool) (fuel : Nat), (textLines e x).length + 1 ≤ fuel →
    ∃ L, GoSrc.sam_ReaderHeader h f g fuel ⟨x, e⟩ y = some L
      ∧ L.map normItem <+: Sam.decodeHeaderSrc pf e x
      ∧ L <+: goItems (lineSpec h f g) e x
      ∧ (∀ i, i + 1 < L.length → y (L.take (i + 1)) = true)
      ∧ (∀ i, i < L.length → y (L.take (i + 1)) = false → i + 1 = L.length) := by
  intro hR hF hI hT hS h f g pf hf hg hh x e y fuel hfuel
  refine ⟨_, sam_ReaderHeader_raw hR hF hI hT hS h f g fuel x e y hfuel, ?_, takeThroughH_prefix _ _,
    takeThroughH_go_on _ _, takeThroughH_stop _ _⟩
  rw [← goItems_norm hf hg hh e x]
  exact (takeThroughH_prefix y _).map normItem

/-- The same for a consumer `y'` of normalised histories, about the normalised log `L'` — the (a)–(c) of
`C18Hist.samReaderHeaderH_early_stop`, on the translated closure. -/
theorem go_readerHeader_early_stop_norm : GoSrc.sam_ReaderHeader_Found = true → GoSrc.sam_parseLine_Found = true →
    GoSrc.parseInts_Found = true → GoSrc.parseTags_Found = true → GoSrc.splitTag_Found = true →
    ∀ (h : Bytes → Bytes × GoErr) (f : Bytes → Int × GoErr) (g : Bytes → Int → Bytes × GoErr)
      (pf : Bytes → Option Bytes), AtoiModel f → PFModel g pf → HexModel h →
    ∀ (x : Bytes) (e : Ending) (y' : List (Item Sam.Entry) → Bool) (fuel : Nat),
    (textLines e x).length + 1 ≤ fuel →
    ∃ L', (GoSrc.sam_ReaderHeader h f g fuel ⟨x, e⟩ (fun l => y' (l.map normItem))).map (·.map normItem) = some L'
      ∧ L' <+: Sam.decodeHeaderSrc pf e x
      ∧ (∀ i, i + 1 < L'.length → y' (L'.take (i + 1)) = true)
      ∧ (∀ i, i < L'.length → y' (L'.take (i + 1)) = false → i + 1 = L'.length) := by
  intro hR hF hI hT hS h f g pf hf hg hh x e y' fuel hfuel
  exact ⟨_, (go_readerHeader_log hR hF hI hT hS h f g pf hf hg hh x e y' _ (fun _ => rfl) fuel hfuel).1,
    takeThroughH_prefix _ _, takeThroughH_go_on _ _, takeThroughH_stop _ _⟩

/-! ## 4. No panic -/

/-- For ARBITRARY `hex.DecodeString`, `strconv.Atoi`, `strconv.ParseFloat` and an ARBITRARY consumer, with
`text lines + 1` fuel (e.g. `len x + 1`): the closure returns — no panic (the translated `parseLine` never
panics: `C03ReadGo.go_sam_parseLine_no_panic`), and the loop ends within the fuel. -/
theorem go_readerHeader_no_panic : GoSrc.sam_ReaderHeader_Found = true → GoSrc.sam_parseLine_Found = true →
    GoSrc.parseInts_Found = true → GoSrc.parseTags_Found = true → GoSrc.splitTag_Found = true →
    ∀ (h : Bytes → Bytes × GoErr) (f : Bytes → Int × GoErr) (g : Bytes → Int → Bytes × GoErr)
      (x : Bytes) (e : Ending) (y : List GoItem → Bool) (fuel : Nat), (textLines e x).length + 1 ≤ fuel →
    GoSrc.sam_ReaderHeader h f g fuel ⟨x, e⟩ y ≠ none := by
  intro hR hF hI hT hS h f g x e y fuel hfuel
  rw [sam_ReaderHeader_raw hR hF hI hT hS h f g fuel x e y hfuel]
  simp

/-! ## 5. Write, then read -/

/-- Header lines `hs` (each beginning with `@`, free of LF and CR), written as they are, each followed by
LF, and then the well-formed records `rs` written by the translated `(*SAM).Write` (`goWriteAll`: one
record after the other onto the same writer, which has room): no write error; the bytes written are
the LF-terminated lines; the translated `ReaderHeader` on them, with the consumer that never stops,
hands over — normalised — the header lines and the records, unchanged and in order; without the header
items, the records (what `Reader` yields). -/
theorem go_readerHeader_roundtrip : GoSrc.sam_Write_Found = true → GoSrc.sam_ReaderHeader_Found = true →
    GoSrc.sam_parseLine_Found = true → GoSrc.parseInts_Found = true → GoSrc.parseTags_Found = true →
    GoSrc.splitTag_Found = true →
    ∀ (h : Bytes → Bytes × GoErr) (f : Bytes → Int × GoErr) (g : Bytes → Int → Bytes × GoErr)
      (pf : Bytes → Option Bytes), AtoiModel f → PFModel g pf → HexModel h →
    ∀ (hs : List Bytes) (rs : List Sam.Sam), (∀ l ∈ hs, Sam.hdrOK l) → (∀ s ∈ rs, Sam.WF pf s) →
    ∀ (k : Nat), ((rs.map Sam.encode).flatten).length ≤ k →
    ∀ (fuel : Nat), hs.length + rs.length + 1 ≤ fuel →
    ∃ w', goWriteAll rs ⟨k, lfFile hs⟩ = some (GoErr.nil, w')
      ∧ w'.out = ((hs ++ rs.map Sam.encodeLine).map (· ++ [10])).flatten
      ∧ (GoSrc.sam_ReaderHeader h f g fuel ⟨w'.out, .eof⟩ (fun _ => true)).map (·.map normItem)
          = some (hs.map (fun l => Item.ok (Sam.Entry.hdr l)) ++ rs.map (fun s => Item.ok (Sam.Entry.sam s)))
      ∧ (GoSrc.sam_ReaderHeader h f g fuel ⟨w'.out, .eof⟩ (fun _ => true)).map
            (fun L => Sam.dropHeaders (L.map normItem))
          = some (rs.map Item.ok) := by
  intro hW hR hF hI hT hS h f g pf hf hg hh hs rs hhs hrs k hk fuel hfuel
  refine ⟨_, goWriteAll_bytes hW rs k (lfFile hs) hk, ?_, ?_⟩
  · simp only [written_file]; rfl
  · simp only [written_file]
    have hlines := written_lines pf hs rs hhs hrs
    have hall := go_readerHeader_all hR hF hI hT hS h f g pf hf hg hh
      (lfFile (hs ++ rs.map Sam.encodeLine)) .eof fuel (by rw [hlines]; simp; omega)
    have hrt := Sam.file_roundtrip pf hs rs hhs hrs
    exact ⟨by rw [hall.1]; exact congrArg some hrt.1, by rw [hall.2]; exact congrArg some hrt.2⟩

/-- Non-vacuity: C03's sample header lines and records; room; fuel -/
example : (∀ l ∈ Sam.exHs, Sam.hdrOK l) ∧ (∀ s ∈ Sam.exRs, Sam.WF Sam.exPf s) := ⟨Sam.exHs_ok, Sam.exRs_ok⟩
example : ((Sam.exRs.map Sam.encode).flatten).length ≤ 400 ∧ Sam.exHs.length + Sam.exRs.length + 1 ≤ 6 := by
  decide +kernel

/-! ## Concrete runs of the translated closure -/

/-- `@HD\tVN:1\r\n`, an empty line, `r1\t0\t*\t0\t0\t*\t*\t0\t0\t*\t*\tZZ:Z:a\tNM:i:3\n` (a good record, two tags
given out of order), `bad\tline\n`, `r2\t16\t*\t7\t0\t*\t*\t0\t0\t*\t*` (a good record, no final newline) -/
def exIn : Bytes :=
  [64, 72, 68, 9, 86, 78, 58, 49, 13, 10, 10,
   114, 49, 9, 48, 9, 42, 9, 48, 9, 48, 9, 42, 9, 42, 9, 48, 9, 48, 9, 42, 9, 42, 9, 90, 90, 58, 90, 58, 97, 9, 78, 77, 58, 105, 58, 51, 10,
   98, 97, 100, 9, 108, 105, 110, 101, 10,
   114, 50, 9, 49, 54, 9, 42, 9, 55, 9, 48, 9, 42, 9, 42, 9, 48, 9, 48, 9, 42, 9, 42]

def exHd : Bytes := [64, 72, 68, 9, 86, 78, 58, 49]
def exR1 : Sam.Sam :=
  { qname := [114, 49], flag := 0, rname := [42], pos := 0, mapq := 0, cigar := [42], rnext := [42], pnext := 0,
    tlen := 0, seq := [42], qual := [42], tags := [([78, 77], .I 3), ([90, 90], .Z [97])] }
def exR2 : Sam.Sam :=
  { qname := [114, 50], flag := 16, rname := [42], pos := 7, mapq := 0, cigar := [42], rnext := [42], pnext := 0,
    tlen := 0, seq := [42], qual := [42], tags := [] }

/-- the fuel hypothesis: five text lines at `io.EOF`, four before a read error (the unterminated last
line is not a line then) -/
example : (textLines .eof exIn).length + 1 ≤ 6 ∧ (textLines .fail exIn).length + 1 ≤ 5 := by decide +kernel

/-- the consumer that never stops: header (CR stripped), the blank line skipped, record, ONE error for the
bad line, and reading continues: the record without a final newline.  The model says the same. -/
example : allFound = false ∨ (
    (GoSrc.sam_ReaderHeader hexP atoiP (pfP Sam.exPf) 6 ⟨exIn, .eof⟩ (fun _ => true)).map (·.map normItem)
      = some [.ok (.hdr exHd), .ok (.sam exR1), .err, .ok (.sam exR2)]
    ∧ Sam.decodeHeaderSrc Sam.exPf .eof exIn = [.ok (.hdr exHd), .ok (.sam exR1), .err, .ok (.sam exR2)]
    ∧ (GoSrc.sam_ReaderHeader hexP atoiP (pfP Sam.exPf) 6 ⟨exIn, .eof⟩ (fun _ => true)).map
        (fun L => Sam.dropHeaders (L.map normItem)) = some [.ok exR1, .err, .ok exR2]) := by
  decide +kernel

/-- the log itself, not normalised: the Go tag map is in insertion order (`ZZ` before `NM`), the error
item is `(SAMOrHeader{}, err)` -/
example : allFound = false ∨ (
    GoSrc.sam_ReaderHeader hexP atoiP (pfP Sam.exPf) 6 ⟨exIn, .eof⟩ (fun _ => true)
      = some [((some exHd, none), GoErr.nil),
              ((none, some (tupleOf exR1 [([90, 90], .Z [97]), ([78, 77], .I 3)])), GoErr.nil),
              ((none, none), GoErr.other),
              ((none, some (tupleOf exR2 [])), GoErr.nil)]) := by
  decide +kernel

/-- a consumer WITH state, "stop at the second item": header and first record, on the translated closure
(Go-level histories and normalised ones) and on the model closure -/
example : allFound = false ∨ (
    (GoSrc.sam_ReaderHeader hexP atoiP (pfP Sam.exPf) 6 ⟨exIn, .eof⟩ (fun l => l.length < 2)).map (·.map normItem)
      = some [.ok (.hdr exHd), .ok (.sam exR1)]
    ∧ (GoSrc.sam_ReaderHeader hexP atoiP (pfP Sam.exPf) 6 ⟨exIn, .eof⟩
        (liftY fun l => l.length < 2)).map (·.map normItem) = some [.ok (.hdr exHd), .ok (.sam exR1)]
    ∧ IterH.samReaderHeaderH Sam.exPf .eof exIn (fun l => l.length < 2) = [.ok (.hdr exHd), .ok (.sam exR1)]
    -- "stop at the first error": the bad line is the last item
    ∧ (GoSrc.sam_ReaderHeader hexP atoiP (pfP Sam.exPf) 6 ⟨exIn, .eof⟩
        (liftY fun l => l.getLast? != some .err)).map (·.map normItem)
      = some [.ok (.hdr exHd), .ok (.sam exR1), .err]
    -- an instance of the hypotheses of (b) and (c) of `go_readerHeader_early_stop`
    ∧ ((GoSrc.sam_ReaderHeader hexP atoiP (pfP Sam.exPf) 6 ⟨exIn, .eof⟩ (fun l => l.length < 2)).map fun L =>
        (decide (1 < L.length), decide (0 + 1 < L.length), (fun l : List GoItem => decide (l.length < 2)) (L.take (1 + 1))))
      = some (true, true, false)) := by
  decide +kernel

set_option synthInstance.maxSize 4096 in
/-- the source FAILS after these bytes: the unterminated last line is not parsed, the read error is the
last item; a consumer that would stop there ("at most three items") is not asked: the same log; "at most
two items" stops before -/
example : allFound = false ∨ (
    (GoSrc.sam_ReaderHeader hexP atoiP (pfP Sam.exPf) 5 ⟨exIn, .fail⟩ (fun _ => true)).map (·.map normItem)
      = some [.ok (.hdr exHd), .ok (.sam exR1), .err, .err]
    ∧ (GoSrc.sam_ReaderHeader hexP atoiP (pfP Sam.exPf) 5 ⟨exIn, .fail⟩ (fun l => l.length < 4) : Option (List GoItem))
      = GoSrc.sam_ReaderHeader hexP atoiP (pfP Sam.exPf) 5 ⟨exIn, .fail⟩ (fun _ => true)
    ∧ ((GoSrc.sam_ReaderHeader hexP atoiP (pfP Sam.exPf) 5 ⟨exIn, .fail⟩ (fun _ => true)).map fun L => L.getLast?)
      = some (some (((none, none), GoErr.other) : GoItem))
    ∧ Sam.decodeHeaderSrc Sam.exPf .fail exIn = [.ok (.hdr exHd), .ok (.sam exR1), .err, .err]
    ∧ (GoSrc.sam_ReaderHeader hexP atoiP (pfP Sam.exPf) 5 ⟨exIn, .fail⟩ (fun l => l.length < 2)).map (·.map normItem)
      = some [.ok (.hdr exHd), .ok (.sam exR1)]) := by
  decide +kernel

/-- too little fuel for the loop to reach the end of the input: `none` (no claim) — unless the consumer
stops it before -/
example : allFound = false ∨ (
    GoSrc.sam_ReaderHeader hexP atoiP (pfP Sam.exPf) 3 ⟨exIn, .eof⟩ (fun _ => true) = none
    ∧ GoSrc.sam_ReaderHeader hexP atoiP (pfP Sam.exPf) 0 ⟨[], .eof⟩ (fun _ => true) = none
    ∧ (GoSrc.sam_ReaderHeader hexP atoiP (pfP Sam.exPf) 3 ⟨exIn, .eof⟩ (fun l => l.length < 2)).map (·.map normItem)
      = some [.ok (.hdr exHd), .ok (.sam exR1)]) := by
  decide +kernel

set_option synthInstance.maxSize 4096 in
/-- edge inputs: a line that is just CR, a header line `@` alone, then an unterminated `abc`: at `io.EOF`
the line `abc` is a (bad) line, at a read error it is not parsed; the empty input; only a newline -/
example : allFound = false ∨ (
    (GoSrc.sam_ReaderHeader hexP atoiP (pfP Sam.exPf) 4 ⟨[13, 10, 64, 10, 97, 98, 99], .eof⟩ (fun _ => true)).map
        (·.map normItem) = some [.ok (.hdr [64]), .err]
    ∧ Sam.decodeHeaderSrc Sam.exPf .eof [13, 10, 64, 10, 97, 98, 99] = [.ok (.hdr [64]), .err]
    ∧ GoSrc.sam_ReaderHeader hexP atoiP (pfP Sam.exPf) 4 ⟨[13, 10, 64, 10, 97, 98, 99], .fail⟩ (fun _ => true)
      = some ([((some [64], none), GoErr.nil), ((none, none), GoErr.other)] : List GoItem)
    ∧ Sam.decodeHeaderSrc Sam.exPf .fail [13, 10, 64, 10, 97, 98, 99] = [.ok (.hdr [64]), .err]
    ∧ GoSrc.sam_ReaderHeader hexP atoiP (pfP Sam.exPf) 1 ⟨[], .eof⟩ (fun _ => false) = some ([] : List GoItem)
    ∧ GoSrc.sam_ReaderHeader hexP atoiP (pfP Sam.exPf) 1 ⟨[], .fail⟩ (fun _ => false)
      = some ([((none, none), GoErr.other)] : List GoItem)
    ∧ GoSrc.sam_ReaderHeader hexP atoiP (pfP Sam.exPf) 2 ⟨[10], .eof⟩ (fun _ => false) = some ([] : List GoItem)) := by
  decide +kernel

/-- arbitrary (absurd) library functions — every integer "parses" as 7, no float or hex string does: the
closure still returns -/
example : allFound = false ∨ (
    (GoSrc.sam_ReaderHeader (fun _ => ([], GoErr.other)) (fun _ => (7, GoErr.nil)) (fun _ _ => ([], GoErr.eof)) 6
        ⟨exIn, .eof⟩ (fun _ => true)).map (·.map (·.2))
      = some [GoErr.nil, GoErr.nil, GoErr.other, GoErr.nil]) := by
  decide +kernel

/-- the round trip on C03's samples: two header lines (one of them `@` alone) and three records (all five
tag types, odd bytes, extreme integers; no tags), written by the translated `Write`, read back by the
translated `ReaderHeader` -/
example : allFound = false ∨ (
    ((goWriteAll Sam.exRs ⟨400, lfFile Sam.exHs⟩).bind fun p =>
        (GoSrc.sam_ReaderHeader hexP atoiP (pfP Sam.exPf) 6 ⟨p.2.out, .eof⟩ (fun _ => true)).map fun L =>
          (p.1, L.map normItem))
      = some (GoErr.nil, Sam.exHs.map (fun l => Item.ok (Sam.Entry.hdr l))
          ++ Sam.exRs.map (fun s => Item.ok (Sam.Entry.sam s)))) := by
  decide +kernel

end Bio.Props.C03IterGo
