/-
  C20 (with the C11 and C07 clauses for this decoder) for the Go SOURCE TEXT of
  formats/smtext/smtext.go: `ReadNCBI` and `extractSingleChar`, as translated on every run into
  `Bio.Generated.GoSrc.smtext_ReadNCBI` / `extractSingleChar`.

  `strconv.ParseFloat` is a PARAMETER `pf` of the translated function (nothing is assumed about
  it); the scanner is a `ScanRd` (the line tokens still to come and how the source ends); the
  result map `map[[2]byte]float64` is an association list keyed by two-element lists, compared
  with the hand model's `Matrix.M` extensionally (`mapHas` / `mapGet` at every key, as in
  `Bio.Props.C20Go`), because the hand model keeps its list sorted and the Go side keeps
  insertion order.  `none` = the Go code panics.

  1. `go_extractSingleChar_eq`: `extractSingleChar` never panics and is `Matrix.singleChar`
     (`*` is the gap byte 255; anything that is not exactly one byte is an error with byte 0).
  2. `go_nonSpaceFields_eq`: GoRt's `\S+` matcher (an accumulator loop) is the model's `fields`.
  3. `go_readNCBI_total`: `ReadNCBI` never panics, for EVERY score parser, token list and ending
     (C11 "arbitrary bytes never panic": each `idx` / `slice` is guarded by a length check).
  4. `go_readNCBI_refines`: against `readRowsP`, the hand model's `Matrix.readRows` with the score
     parser as a parameter (`readRowsP_parseQuarter`: at `Matrix.parseQuarter` it IS `readRows`):
     a model failure is an error return under either ending; a model success `m` is, at a clean
     end of input, `(gm, nil)` with `gm` a well-formed map equal to `m` at every key, and under a
     failing stream an error (C07 "a failing stream is reported").
     `go_readNCBI_fail`: under a failing stream the result is always `([], error)`.
     `go_readNCBI_ok_iff`: at a clean end the Go code returns `nil` exactly when the model succeeds.
  5. `go_readNCBI_model`: the instance at the quarter-decimal parser and `scanLines x`, against
     `Matrix.readNCBI x`.

  What differs from the statements as first suggested: nothing is weaker.  Stronger: every error
  return is exactly `([], GoErr.other)` (the Go code returns a nil map with each error, and the
  translation has a single non-EOF error value), so the "error" conclusions are stated as that
  equation (`err ≠ nil` follows, `go_readNCBI_refines` spells it out); the map conclusion also
  gives `WF gm` (keys of length 2 AND pairwise distinct).  The nil-vs-empty point: Go's
  `chars == nil` is translated as `len chars == 0`; the model's `Option (List UInt8)` is `none`
  exactly when the list is empty (`if cs.isEmpty then none else some cs`), so the loop invariant
  relates `chars` to `co chars = if chars.isEmpty then none else some chars`
  (`Bio.GoSrcLemmas.NcbiGo.loop_refines`); a header row consisting of blanks only leaves both
  sides waiting for a header.

  Every theorem is guarded by the translator's `<f>_Found` flags (see `Bio.Lemmas.GoSrc`).
-/
import Bio.Lemmas.GoSrcNcbi
namespace Bio.Props.C20NcbiGo
open Bio Bio.GoRt Bio.Generated Bio.GoSrcLemmas.MxGo Bio.GoSrcLemmas.NcbiGo

/-- every translator flag this file depends on; the non-vacuity examples below are stated as
`allFound = false ∨ …` so that a source the translator no longer recognises is not an alarm -/
def allFound : Bool := GoSrc.extractSingleChar_Found && GoSrc.smtext_ReadNCBI_Found

example : allFound = false ∨
    (GoSrc.extractSingleChar_Found = true ∧ GoSrc.smtext_ReadNCBI_Found = true) := by decide

/-! ## 1. `extractSingleChar` -/

/-- `extractSingleChar` never panics and is the model's `singleChar`. -/
theorem go_extractSingleChar_eq : GoSrc.extractSingleChar_Found = true →
    ∀ s : List UInt8, GoSrc.extractSingleChar s
      = some (match Matrix.singleChar s with
              | some c => (c, GoErr.nil)
              | none => (0, GoErr.other)) := by
  intro hF s
  exact extractSingleChar_eq hF s

example : allFound = false ∨
    (GoSrc.extractSingleChar [42] = some (255, GoErr.nil) ∧
     GoSrc.extractSingleChar [65] = some (65, GoErr.nil) ∧
     GoSrc.extractSingleChar [] = some (0, GoErr.other) ∧
     GoSrc.extractSingleChar [65, 66] = some (0, GoErr.other)) := by decide

/-! ## 2. `\S+` -/

/-- GoRt's `regexp.MustCompile(`\S+`).FindAllString(s, -1)` is the model's `fields`. -/
theorem go_nonSpaceFields_eq : ∀ s : List UInt8, nonSpaceFields s = Matrix.fields s :=
  nonSpaceFields_eq

example : nonSpaceFields [32, 32, 65, 9, 32, 42, 66, 13] = [[65], [42, 66]] := by decide

/-! ## 3. `ReadNCBI` never panics -/

/-- For every score parser, every token list and either ending the translated `ReadNCBI` returns
(`none` would be a run-time panic: index or slice out of range). -/
theorem go_readNCBI_total : GoSrc.smtext_ReadNCBI_Found = true → GoSrc.extractSingleChar_Found = true →
    ∀ (pf : List UInt8 → Int → Int × GoErr) (r : ScanRd), GoSrc.smtext_ReadNCBI pf r ≠ none := by
  intro hF hE pf r
  rw [ReadNCBI_eq hF hE]
  exact Option.some_ne_none _

/-! ## 4. `ReadNCBI` against the hand model -/

/-- The model's scan loop with the score parser as a parameter is `Matrix.readRows` at the
model's own parser. -/
theorem readRowsP_parseQuarter (chars : Option (List UInt8)) (ls : List Bytes) (m : Matrix.M) :
    readRowsP Matrix.parseQuarter chars ls m = Matrix.readRows chars ls m :=
  Bio.GoSrcLemmas.NcbiGo.readRowsP_parseQuarter chars ls m

/-- the defining equation of `readRowsP` at the end of input (the other one is `Matrix.readRows`'s with
`pf` for `parseQuarter`, see `Bio.Lemmas.GoSrcNcbi`) -/
example (pf : Bytes → Option Int) (chars : Option (List UInt8)) (m : Matrix.M) :
    readRowsP pf chars [] m = some m := readRowsP_nil pf chars m

/-- For every score parser `pf` (a value and an error, as `strconv.ParseFloat(val, 64)`) and every
list of line tokens `ls`, with `pf' s = some value` exactly when `pf s 64` reports `nil`:

* if the hand model fails on `ls`, `ReadNCBI` returns `([], err)` with `err ≠ nil`, however the
  stream ends;
* if the hand model yields `m`, then under a failing stream `ReadNCBI` returns `([], err)` with
  `err ≠ nil`, and at a clean end of input it returns `(gm, nil)` where `gm` is a well-formed Go
  map (every key has length 2, keys pairwise distinct) that is `m` at every key. -/
theorem go_readNCBI_refines : GoSrc.smtext_ReadNCBI_Found = true → GoSrc.extractSingleChar_Found = true →
    ∀ (pf : List UInt8 → Int → Int × GoErr) (ls : List Bytes),
      let pf' : List UInt8 → Option Int :=
        fun s => if (pf s 64).2 = GoErr.nil then some (pf s 64).1 else none
      (readRowsP pf' none ls [] = none →
        ∀ e : Ending, ∃ err, GoSrc.smtext_ReadNCBI pf ⟨ls, e⟩ = some ([], err) ∧ err ≠ GoErr.nil ∧
          err = GoErr.other) ∧
      (∀ m, readRowsP pf' none ls [] = some m →
        (∃ err, GoSrc.smtext_ReadNCBI pf ⟨ls, .fail⟩ = some ([], err) ∧ err ≠ GoErr.nil ∧
          err = GoErr.other) ∧
        ∃ gm, GoSrc.smtext_ReadNCBI pf ⟨ls, .eof⟩ = some (gm, GoErr.nil) ∧
          WF gm ∧ (∀ e ∈ gm, e.1.length = 2) ∧
          ∀ a b : UInt8, Matrix.get m (a, b)
            = (if mapHas gm [a, b] = true then some (mapGet gm [a, b] 0) else none)) := by
  intro hF hE pf ls pf'
  constructor
  · intro h e
    exact ⟨GoErr.other, ReadNCBI_of_none hF hE pf ls e h, by decide, rfl⟩
  · intro m h
    obtain ⟨h1, gm, h2, hr⟩ := ReadNCBI_of_some hF hE pf ls m h
    refine ⟨⟨GoErr.other, h1, by decide, rfl⟩, gm, h2, hr.1, hr.1.1, ?_⟩
    intro a b
    rw [look_eq_has_get]
    exact (hr.2 (a, b)).symm

/-- C07 for this decoder: under a failing stream `ReadNCBI` never returns a matrix, whatever was
read before the failure. -/
theorem go_readNCBI_fail : GoSrc.smtext_ReadNCBI_Found = true → GoSrc.extractSingleChar_Found = true →
    ∀ (pf : List UInt8 → Int → Int × GoErr) (ls : List Bytes),
      GoSrc.smtext_ReadNCBI pf ⟨ls, .fail⟩ = some ([], GoErr.other) := by
  intro hF hE pf ls
  cases h : readRowsP (pfO pf) none ls [] with
  | none => exact ReadNCBI_of_none hF hE pf ls .fail h
  | some m => exact (ReadNCBI_of_some hF hE pf ls m h).1

/-- At a clean end of input the Go code returns `nil` exactly when the hand model succeeds. -/
theorem go_readNCBI_ok_iff : GoSrc.smtext_ReadNCBI_Found = true → GoSrc.extractSingleChar_Found = true →
    ∀ (pf : List UInt8 → Int → Int × GoErr) (ls : List Bytes),
      (∃ gm, GoSrc.smtext_ReadNCBI pf ⟨ls, .eof⟩ = some (gm, GoErr.nil)) ↔
      (readRowsP (fun s => if (pf s 64).2 = GoErr.nil then some (pf s 64).1 else none) none ls []).isSome
        = true := by
  intro hF hE pf ls
  cases h : readRowsP (pfO pf) none ls [] with
  | none =>
    have h' := ReadNCBI_of_none hF hE pf ls .eof h
    have hh : readRowsP (fun s => if (pf s 64).2 = GoErr.nil then some (pf s 64).1 else none) none ls []
        = none := h
    rw [hh, h']
    simp
  | some m =>
    obtain ⟨_, gm, h2, _⟩ := ReadNCBI_of_some hF hE pf ls m h
    have hh : readRowsP (fun s => if (pf s 64).2 = GoErr.nil then some (pf s 64).1 else none) none ls []
        = some m := h
    rw [hh]
    exact ⟨fun _ => rfl, fun _ => ⟨gm, h2⟩⟩

/-! ## 5. The quarter-decimal parser: `Matrix.readNCBI` -/

/-- `pfQ s _ = (q, nil)` when `Matrix.parseQuarter s = some q`, else `(0, other)`. -/
example (s : Bytes) (b : Int) : pfQ s b =
    match Matrix.parseQuarter s with
    | some q => (q, GoErr.nil)
    | none => (0, GoErr.other) := by
  unfold pfQ; cases Matrix.parseQuarter s <;> rfl

/-- With the model's quarter-decimal parser standing for `strconv.ParseFloat`, on the line tokens
of a complete input `x`: `ReadNCBI` returns an error iff `Matrix.readNCBI x` fails, and otherwise
the two matrices are the same map. -/
theorem go_readNCBI_model : GoSrc.smtext_ReadNCBI_Found = true → GoSrc.extractSingleChar_Found = true →
    ∀ x : Bytes,
      (Matrix.readNCBI x = none →
        GoSrc.smtext_ReadNCBI pfQ ⟨scanLines x, .eof⟩ = some ([], GoErr.other)) ∧
      (∀ m, Matrix.readNCBI x = some m →
        ∃ gm, GoSrc.smtext_ReadNCBI pfQ ⟨scanLines x, .eof⟩ = some (gm, GoErr.nil) ∧
          WF gm ∧
          ∀ a b : UInt8, Matrix.get m (a, b)
            = (if mapHas gm [a, b] = true then some (mapGet gm [a, b] 0) else none)) := by
  intro hF hE x
  constructor
  · intro h
    exact ReadNCBI_of_none hF hE pfQ _ .eof (by rw [readRowsP_pfQ]; exact h)
  · intro m h
    obtain ⟨_, gm, h2, hr⟩ := ReadNCBI_of_some hF hE pfQ (scanLines x) m (by rw [readRowsP_pfQ]; exact h)
    refine ⟨gm, h2, hr.1, ?_⟩
    intro a b
    rw [look_eq_has_get]
    exact (hr.2 (a, b)).symm

/-! ## Non-vacuity -/

/-- `# c` / `  A  *` / `A 1 -2` / `* 0.5 0` -/
def okLines : List Bytes :=
  [[35, 32, 99], [32, 32, 65, 32, 32, 42], [65, 32, 49, 32, 45, 50], [42, 32, 48, 46, 53, 32, 48]]
/-- the same as one input, CRLF on the second line and no final newline -/
def okText : Bytes :=
  [35, 32, 99, 10, 32, 32, 65, 32, 32, 42, 13, 10, 65, 32, 49, 32, 45, 50, 10, 42, 32, 48, 46, 53, 32, 48]
/-- one value too few in the last row -/
def shortLines : List Bytes := [[32, 65, 32, 42], [65, 32, 49, 32, 45, 50], [42, 32, 48]]
/-- a label of two bytes -/
def labelLines : List Bytes := [[65, 32, 42], [65, 66, 32, 49, 32, 50]]
/-- a score that is not a quarter decimal -/
def scoreLines : List Bytes := [[65], [65, 32, 120]]

example : scanLines okText = okLines := by decide

example : allFound = false ∨
    GoSrc.smtext_ReadNCBI pfQ ⟨okLines, .eof⟩
      = some ([([65, 65], 4), ([65, 255], -8), ([255, 65], 2), ([255, 255], 0)], GoErr.nil) := by
  decide +kernel
example : allFound = false ∨
    GoSrc.smtext_ReadNCBI pfQ ⟨okLines, .fail⟩ = some ([], GoErr.other) := by decide +kernel
example : Matrix.readNCBI okText
    = some [((65, 65), 4), ((65, 255), -8), ((255, 65), 2), ((255, 255), 0)] := by decide +kernel
example : readRowsP (fun s => if (pfQ s 64).2 = GoErr.nil then some (pfQ s 64).1 else none) none okLines []
    = some [((65, 65), 4), ((65, 255), -8), ((255, 65), 2), ((255, 255), 0)] := by decide +kernel
/-- a later row overwrites an earlier one: the Go map keeps the first position, the model's sorted
list is the same map -/
example : allFound = false ∨
    GoSrc.smtext_ReadNCBI pfQ ⟨[[66, 32, 65], [65, 32, 49, 32, 50], [65, 32, 51, 32, 52]], .eof⟩
      = some ([([65, 66], 12), ([65, 65], 16)], GoErr.nil) := by decide +kernel
example : Matrix.readRows none [[66, 32, 65], [65, 32, 49, 32, 50], [65, 32, 51, 32, 52]] []
    = some [((65, 65), 16), ((65, 66), 12)] := by decide +kernel
/-- malformed inputs: an error, and the model fails -/
example : allFound = false ∨
    GoSrc.smtext_ReadNCBI pfQ ⟨shortLines, .eof⟩ = some ([], GoErr.other) := by decide +kernel
example : allFound = false ∨
    GoSrc.smtext_ReadNCBI pfQ ⟨labelLines, .eof⟩ = some ([], GoErr.other) := by decide +kernel
example : allFound = false ∨
    GoSrc.smtext_ReadNCBI pfQ ⟨scoreLines, .eof⟩ = some ([], GoErr.other) := by decide +kernel
example : Matrix.readRows none shortLines [] = none ∧ Matrix.readRows none labelLines [] = none ∧
    Matrix.readRows none scoreLines [] = none := by decide +kernel
example : readRowsP (fun s => if (pfQ s 64).2 = GoErr.nil then some (pfQ s 64).1 else none) none shortLines []
    = none := by decide +kernel
/-- ` A *` / `A 1 -2` / `* 0` as one input: `readNCBI` fails -/
example : scanLines [32, 65, 32, 42, 10, 65, 32, 49, 32, 45, 50, 10, 42, 32, 48, 10] = shortLines ∧
    Matrix.readNCBI [32, 65, 32, 42, 10, 65, 32, 49, 32, 45, 50, 10, 42, 32, 48, 10] = none := by
  decide +kernel
/-- blank-only and comment lines before the header, an empty input: the empty matrix -/
example : allFound = false ∨
    (GoSrc.smtext_ReadNCBI pfQ ⟨[[32, 9], [35], []], .eof⟩ = some ([], GoErr.nil) ∧
     GoSrc.smtext_ReadNCBI pfQ ⟨[], .eof⟩ = some ([], GoErr.nil)) := by decide +kernel
/-- any other score parser: here every score parses, as its length -/
example : allFound = false ∨
    GoSrc.smtext_ReadNCBI (fun s _ => ((s.length : Int), GoErr.nil)) ⟨[[65], [65, 32, 120, 121]], .eof⟩
      = some ([([65, 65], 2)], GoErr.nil) := by decide +kernel

end Bio.Props.C20NcbiGo
