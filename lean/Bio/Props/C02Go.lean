/-
  C02 for the Go SOURCE TEXT: `(*reader).read` of formats/fastq/fastq.go, as translated on every run
  into `Bio.Generated.GoSrc.fastq_read` (four `Scanner.Scan()` calls over the remaining tokens),
  iterated the way formats/fastq/iter.go does, computes the hand-written model `Fastq.fromLines` for
  EVERY token sequence and both endings — hence, on the `bufio.ScanLines` tokens of an input, the
  model decoder `Fastq.decodeSrc`, and the write → read round trip of `Bio.Props.C02` holds for the
  translated reader.  Guarded by the translator's `<f>_Found` flag (see `Bio.Lemmas.GoSrc`).
-/
import Bio.Lemmas.GoSrcReaders
import Bio.Props.C02
namespace Bio.Props.C02Go
open Bio Bio.GoRt Bio.Generated Bio.GoSrcLemmas

/-- every translator flag this file depends on; the non-vacuity examples below are stated as
`allFound = false ∨ …` so that a source the translator no longer recognises is not an alarm -/
def allFound : Bool := GoSrc.fastq_read_Found

/-- `(*reader).iter` of formats/fastq/iter.go over the translated `read`:
`for { fq, err := r.read(); if err != nil { if err != io.EOF { yield(nil, err) }; break }; yield(fq, nil) }`,
at most `fuel` calls. -/
def goDecode : Nat → Ending → List Bytes → List (Item Fastq.Fq)
  | 0, _, _ => []
  | fuel + 1, e, ls =>
    match GoSrc.fastq_read ls e with
    | none => [.err]                                               -- a panic (never: `go_read_total`)
    | some ((_, GoErr.eof), _) => []                               -- `break`
    | some ((_, GoErr.other), _) => [.err]                         -- `yield(nil, err); break`
    | some ((none, GoErr.nil), _) => [.err]                        -- `(nil, nil)` (never: `go_read`)
    | some ((some (n, s, q), GoErr.nil), rest) => .ok ⟨n, s, q⟩ :: goDecode fuel e rest   -- `yield(fq, nil)`

/-- One call of the translated `read`, on every token sequence:
* no tokens: `io.EOF` at a clean end of input, an error if the scanner failed;
* `'@'name, seq, '+'…, quals` with `len(quals) = len(seq)`: the record, and the tokens after it;
* anything else: no record and an error other than `io.EOF` (the tokens left unread are
  `(fastqStep e ls).2`: everything after the last token scanned). -/
theorem go_read : GoSrc.fastq_read_Found = true → ∀ (e : Ending),
    GoSrc.fastq_read [] e = some ((none, if e = .eof then GoErr.eof else GoErr.other), [])
    ∧ (∀ (name sq pl ql : Bytes) (rest : List Bytes), ql.length = sq.length →
        GoSrc.fastq_read ((64 :: name) :: sq :: (43 :: pl) :: ql :: rest) e
          = some ((some (name, sq, ql), GoErr.nil), rest))
    ∧ (∀ ls : List Bytes, ls ≠ [] →
        (¬ ∃ name sq pl ql rest, ls = (64 :: name) :: sq :: (43 :: pl) :: ql :: rest ∧ ql.length = sq.length) →
        GoSrc.fastq_read ls e = some ((none, GoErr.other), (fastqStep e ls).2)) :=
  fun hF e => ⟨fastq_read_nil hF e, fun name sq pl ql rest h => fastq_read_ok hF e name sq pl ql rest h,
    fun ls hne hbad => fastq_read_err hF e ls hne hbad⟩

/-- The translated `read` never panics. -/
theorem go_read_total : GoSrc.fastq_read_Found = true →
    ∀ (ls : List Bytes) (e : Ending), (GoSrc.fastq_read ls e).isSome = true :=
  fun hF ls e => by rw [fastq_read_spec hF]; rfl

example : allFound = false ∨ (GoSrc.fastq_read_Found = true) := by decide
-- "@r", "AC", "+x", "II", "@s": a record, one token left; a short quality line; a missing '@';
-- a group cut after the '+' line (clean end and failing scanner alike)
set_option synthInstance.maxSize 1024 in
example : allFound = false ∨ (
    GoSrc.fastq_read [[64, 114], [65, 67], [43, 120], [73, 73], [64, 115]] .eof
      = some ((some ([114], [65, 67], [73, 73]), GoErr.nil), [[64, 115]])
    ∧ GoSrc.fastq_read [[64, 114], [65, 67], [43], [73], [64, 115]] .eof = some ((none, GoErr.other), [[64, 115]])
    ∧ GoSrc.fastq_read [[114], [65, 67]] .eof = some ((none, GoErr.other), [[65, 67]])) := by decide
set_option synthInstance.maxSize 1024 in
example : allFound = false ∨ (
    GoSrc.fastq_read [[64, 114], [65, 67], [43]] .eof = some ((none, GoErr.other), [])
    ∧ GoSrc.fastq_read [[64, 114], [65, 67], [43]] .fail = some ((none, GoErr.other), [])
    ∧ GoSrc.fastq_read [] .eof = some ((none, GoErr.eof), [])
    ∧ GoSrc.fastq_read [] .fail = some ((none, GoErr.other), [])) := by decide

/-- The iterator over the translated reader IS the model's record reader: every token sequence,
both endings. -/
theorem go_decode : GoSrc.fastq_read_Found = true →
    ∀ (e : Ending) (ls : List Bytes), goDecode (ls.length + 1) e ls = Fastq.fromLines e ls := by
  intro hF e ls
  suffices h : ∀ (fuel : Nat) (ls : List Bytes), ls.length < fuel → goDecode fuel e ls = Fastq.fromLines e ls from
    h _ ls (Nat.lt_succ_self _)
  intro fuel
  induction fuel with
  | zero => intro ls hls; omega
  | succ fuel ih =>
    intro ls hls
    rw [goDecode, fastq_read_spec hF]
    rcases fastqStep_cases e ls with ⟨_, h1, h2⟩ | ⟨name, sq, pl, ql, rest, hls', _, h1, h2⟩ | ⟨_, _, h1, h2⟩
    · rw [h1, h2]; cases e <;> rfl
    · rw [h1, h2]
      simp only
      rw [ih rest (by subst hls'; simp only [List.length_cons] at hls; omega)]
    · rw [h2]
      generalize fastqStep e ls = r at h1
      obtain ⟨⟨a, b⟩, c⟩ := r
      simp only [Prod.mk.injEq] at h1
      obtain ⟨rfl, rfl⟩ := h1
      rfl

/-- … so on the `bufio.ScanLines` tokens of an input it is the model decoder. -/
theorem go_decode_src : GoSrc.fastq_read_Found = true →
    ∀ (e : Ending) (x : Bytes),
      goDecode ((scanLines x).length + 1) e (scanLines x) = Fastq.decodeSrc e x :=
  fun hF e x => go_decode hF e (scanLines x)

example : allFound = false ∨ (GoSrc.fastq_read_Found = true) := by decide
-- two records; a failing scanner adds an error; a bad '+' line stops the iteration
example : allFound = false ∨ (
    goDecode 9 .eof [[64, 114], [65, 67], [43], [73, 73], [64], [], [43, 64], []]
      = [.ok ⟨[114], [65, 67], [73, 73]⟩, .ok ⟨[], [], []⟩]
    ∧ goDecode 9 .fail [[64, 114], [65, 67], [43], [73, 73], [64], [], [43, 64], []]
      = [.ok ⟨[114], [65, 67], [73, 73]⟩, .ok ⟨[], [], []⟩, .err]
    ∧ goDecode 9 .eof [[64, 114], [65, 67], [45], [73, 73], [64], [], [43], []]
      = [.err]) := by decide

/-- Write then read with the translated reader returns the records: every record count, every
length, every content in the domain of C02. -/
theorem go_roundtrip : GoSrc.fastq_read_Found = true →
    ∀ (rs : List Fastq.Fq), (∀ r ∈ rs, Fastq.WF r) →
      goDecode ((scanLines (Fastq.encodeAll rs)).length + 1) .eof (scanLines (Fastq.encodeAll rs))
        = rs.map Item.ok := by
  intro hF rs h
  rw [go_decode_src hF]
  exact Fastq.roundtrip rs h

/-- Non-vacuity: the flag and records in the domain (names with spaces / `'@'` / `'+'`, a quality
line starting with `'+'` and one starting with `'@'`, an empty read). -/
example : allFound = false ∨ (GoSrc.fastq_read_Found = true ∧
    ∀ r ∈ ([⟨[114, 32, 49], [65, 67, 71, 84], [43, 64, 73, 73]⟩, ⟨[], [], []⟩,
            ⟨[64, 43], [78], [64]⟩] : List Fastq.Fq), Fastq.WF r) := by decide

end Bio.Props.C02Go
