/-
  Property C11 — parsers are total; accepted records are fixed points of their codec; SAM
  line errors are local.

  **Totality.**  Every decoder of `Bio/Model/*.lean` is a total Lean function on arbitrary
  byte strings (no `partial`, no fuel): Lean accepted the definitions, so on every input each
  returns a finite list of items and nothing else — a panic has no counterpart in the model.
  The termination arguments are:
  * FASTA `decodeSrc`: `Fasta.loop_rest_le` (`Bio/Model/Fasta.lean`) — the unread rest after
    one `read` is no longer than the input after its first byte, so each record consumes ≥ 1 byte;
  * FASTQ / SAM / BED: structural recursion over the list of lines (`scanLines`, `textLines`
    are structural over the bytes);
  * Newick `readLoop` / `decodeSrc`: `Newick.nextToken_lt` (`Bio/Model/Newick.lean`) — every
    token consumes ≥ 1 byte; `decodeSrc` carries a progress guard which `C11_newick_read_consumes`
    shows to be dead code.

  **Fixed points.**  For every format: a record delivered by the reader from ANY input `x`,
  whose text fields are free of TAB/CR/LF (`clean`; for FASTA also no `'>'` in the sequence),
  is written and read back as exactly itself.  The hypothesis `Item.ok r ∈ decode x` is the
  property's own antecedent ("accepted record"); everything else is a decidable predicate on `r`.
  Assumptions about external functions (not about the library): SAM `pf` (float normaliser) is
  idempotent; Newick `pd` returns canonical distance tokens.
-/
import Bio.Lemmas.CrossSam
import Bio.Lemmas.CrossNewick
namespace Bio

/-! ## FASTA -/

/-- `clean r` for FASTA is `Fasta.WF r`: name and sequence free of CR/LF, sequence free of `'>'`. -/
theorem C11_fasta_fixed_point (w : Nat) (hw : 0 < w) (x : Bytes) (r : Fasta.Fa)
    (_hm : Item.ok r ∈ Fasta.decode x) (hc : Fasta.WF r) :
    Fasta.decode (Fasta.encode w r) = [Item.ok r] := by
  have := Fasta.roundtrip w hw [r] (by simpa using hc)
  simpa [Fasta.encodeAll] using this

/-- Non-vacuity: the record read from `">s 1\nAC\r\nGT"`. -/
example :
    (0 : Nat) < 3 ∧
    Item.ok (⟨[115, 32, 49], [65, 67, 71, 84]⟩ : Fasta.Fa) ∈
      Fasta.decode [62, 115, 32, 49, 10, 65, 67, 13, 10, 71, 84] ∧
    Fasta.WF ⟨[115, 32, 49], [65, 67, 71, 84]⟩ := by
  refine ⟨by decide, ?_, by decide⟩
  simp [Fasta.decode, Fasta.decodeSrc, Fasta.readOne, Fasta.loop, Fasta.startState,
    Fasta.startSeq, isNL]

/-! ## FASTQ -/

/-- No CR/LF in the three fields (TAB is an ordinary byte in FASTQ). -/
def Fastq.clean (r : Fastq.Fq) : Prop := ∀ b ∈ r.name ++ r.seq ++ r.quals, b ≠ 10 ∧ b ≠ 13

instance (r : Fastq.Fq) : Decidable (Fastq.clean r) := by unfold Fastq.clean; infer_instance

/-- What the parser guarantees: as many qualities as bases. -/
theorem C11_fastq_accepted_len (e : Ending) (x : Bytes) (r : Fastq.Fq)
    (hm : Item.ok r ∈ Fastq.decodeSrc e x) : r.seq.length = r.quals.length :=
  Fastq.fromLines_ok_len e _ r hm

theorem C11_fastq_fixed_point (x : Bytes) (r : Fastq.Fq)
    (hm : Item.ok r ∈ Fastq.decode x) (hc : Fastq.clean r) :
    Fastq.decode (Fastq.encode r) = [Item.ok r] := by
  have hwf : Fastq.WF r := ⟨hc, C11_fastq_accepted_len .eof x r hm⟩
  have := Fastq.roundtrip [r] (by simpa using hwf)
  simpa [Fastq.encodeAll] using this

/-- Non-vacuity: the record read from `"@r 1\r\nACGT\n+x\nII+@\n"`. -/
example :
    Item.ok (⟨[114, 32, 49], [65, 67, 71, 84], [73, 73, 43, 64]⟩ : Fastq.Fq) ∈
      Fastq.decode [64, 114, 32, 49, 13, 10, 65, 67, 71, 84, 10, 43, 120, 10, 73, 73, 43, 64, 10] ∧
    Fastq.clean ⟨[114, 32, 49], [65, 67, 71, 84], [73, 73, 43, 64]⟩ := by
  decide

/-! ## BED -/

/-- The two free-text fields are free of TAB/CR/LF (the strand is one of `""`, `+`, `-`, `.`
by the parser's own check). -/
def Bed.clean (b : Bed.Bed) : Prop := Bed.textOK b.chrom ∧ Bed.textOK b.name

instance (b : Bed.Bed) : Decidable (Bed.clean b) := by unfold Bed.clean; infer_instance

/-- What the parser guarantees about every accepted record: it is well formed for its own
field count `N` (ints in the 64-bit range, valid strand, the block lists the line carries
— sizes from 11 fields on, starts with 12 — as long as the block count, chrom not starting
with `#`), and the fields beyond `N` are zero. -/
theorem C11_bed_accepted_wf (e : Ending) (x : Bytes) (b : Bed.Bed)
    (hm : Item.ok b ∈ Bed.decodeSrc e x) (hc : Bed.clean b) :
    ∃ N : Nat, Bed.WF N b ∧ Bed.truncate N b = b :=
  Bed.accepted_WF e x b hm hc.1 hc.2

theorem C11_bed_fixed_point (x : Bytes) (b : Bed.Bed)
    (hm : Item.ok b ∈ Bed.decode x) (hc : Bed.clean b) :
    ∃ text, Bed.encode b = some text ∧ Bed.decode text = [Item.ok b] := by
  obtain ⟨N, hwf, htr⟩ := C11_bed_accepted_wf .eof x b hm hc
  obtain ⟨line, h1, _⟩ := Bed.encode_one_line N b hwf
  refine ⟨_, h1, ?_⟩
  have := Bed.file_roundtrip_encode N [b] (by simpa using hwf)
  simpa [h1, htr] using this

/-- Non-vacuity: the 12-field example record is delivered from its own line (after a comment
line and with a CR LF terminator) and is clean. -/
example :
    Item.ok Bed.ex12 ∈ Bed.decode ([35, 120, 10] ++ (Bed.encodeLine Bed.ex12).getD [] ++ [13, 10]) ∧
    Bed.clean Bed.ex12 := by
  decide +kernel

/-- A 3-field line with an empty chrom (`"\t1\t2"`). -/
example :
    Item.ok ({ Bed.exA with chrom := [] } : Bed.Bed) ∈ Bed.decode [9, 49, 9, 50] ∧
    Bed.clean { Bed.exA with chrom := [] } := by
  decide +kernel

/-- A 10-field line with block count 5 (`a\t1\t2\t\t\t\t\t\t\t5`): accepted, with block count 5
and empty lists; the record is well formed for `N = 10` and is a fixed point. -/
example :
    Item.ok ({ Bed.exA with n := 10, blockCount := 5 } : Bed.Bed) ∈
      Bed.decode [97, 9, 49, 9, 50, 9, 9, 9, 9, 9, 9, 9, 53] ∧
    Bed.clean { Bed.exA with n := 10, blockCount := 5 } ∧
    Bed.WF 10 { Bed.exA with n := 10, blockCount := 5 } ∧
    Bed.truncate 10 { Bed.exA with n := 10, blockCount := 5 } = { Bed.exA with n := 10, blockCount := 5 } := by
  decide +kernel

/-- An 11-field line with block count 2 and two sizes, no starts. -/
example :
    Item.ok (Bed.truncate 11 Bed.ex11) ∈ Bed.decode ((Bed.encodeLine Bed.ex11).getD []) ∧
    Bed.clean (Bed.truncate 11 Bed.ex11) ∧ (Bed.truncate 11 Bed.ex11).blockCount = 2 := by
  decide +kernel

/-! ## SAM -/

/-- Every text of the record — the six text fields, tag names, `Z` values, `F` tokens — is free
of TAB/CR/LF, and an `A` byte is none of them (`Sam.Clean`, `Sam.valClean` are defined in
`Bio/Lemmas/CrossSam.lean`). -/
theorem C11_sam_clean_def (s : Sam.Sam) :
    Sam.Clean s ↔
      (Sam.textOK s.qname ∧ Sam.textOK s.rname ∧ Sam.textOK s.cigar ∧ Sam.textOK s.rnext ∧
       Sam.textOK s.seq ∧ Sam.textOK s.qual ∧
       ∀ p ∈ s.tags, Sam.textOK p.1 ∧
         match p.2 with
         | .A c => c ≠ 9 ∧ c ≠ 10 ∧ c ≠ 13
         | .F t => Sam.textOK t
         | .Z z => Sam.textOK z
         | _ => True) := by
  unfold Sam.Clean
  constructor
  · rintro ⟨h1, h2, h3, h4, h5, h6, h7⟩
    refine ⟨h1, h2, h3, h4, h5, h6, fun p hp => ⟨(h7 p hp).1, ?_⟩⟩
    have := (h7 p hp).2
    cases h : p.2 <;> simp only [h, Sam.valClean] at this ⊢ <;> exact this
  · rintro ⟨h1, h2, h3, h4, h5, h6, h7⟩
    refine ⟨h1, h2, h3, h4, h5, h6, fun p hp => ⟨(h7 p hp).1, ?_⟩⟩
    have := (h7 p hp).2
    cases h : p.2 <;> simp only [h, Sam.valClean] at this ⊢ <;> exact this

/-- What the parser guarantees about every accepted record, given `Clean`: it is in the domain
`WF` of the round-trip theorem (ints in range, tags strictly sorted by name with colon-free
names, values well-typed, `qname` not starting with `@`).  `hpf` is an assumption about the
external float normaliser only. -/
theorem C11_sam_accepted_wf (pf : Bytes → Option Bytes)
    (hpf : ∀ t t', pf t = some t' → pf t' = some t')
    (e : Ending) (x : Bytes) (s : Sam.Sam)
    (hm : Item.ok s ∈ Sam.decodeSrc pf e x) (hc : Sam.Clean s) : Sam.WF pf s :=
  Sam.accepted_WF pf hpf e x s hm hc

theorem C11_sam_fixed_point (pf : Bytes → Option Bytes)
    (hpf : ∀ t t', pf t = some t' → pf t' = some t')
    (x : Bytes) (s : Sam.Sam)
    (hm : Item.ok s ∈ Sam.decode pf x) (hc : Sam.Clean s) :
    Sam.decode pf (Sam.encode s) = [Item.ok s] ∧
    Sam.decodeHeader pf (Sam.encode s) = [Item.ok (Sam.Entry.sam s)] := by
  have hwf := C11_sam_accepted_wf pf hpf .eof x s hm hc
  exact ⟨(Sam.decode_encode pf s hwf).2, (Sam.decode_encode pf s hwf).1⟩

/-- Non-vacuity: `exPf` is idempotent; the example record (five tag types, odd bytes) is
delivered from its own line after a header line, and is clean. -/
example :
    (∀ t t', Sam.exPf t = some t' → Sam.exPf t' = some t') ∧
    Item.ok Sam.exSam ∈ Sam.decode Sam.exPf ([64, 72, 68, 10] ++ Sam.encode Sam.exSam) ∧
    Sam.Clean Sam.exSam := by
  refine ⟨?_, ?_, by decide⟩
  · intro t t' h
    unfold Sam.exPf at h ⊢
    split at h
    · cases h; simp_all
    · cases h
  · have := (Sam.file_roundtrip Sam.exPf [[64, 72, 68]] [Sam.exSam] (by decide)
      (by simpa using Sam.exSam_WF)).2
    have e : ([64, 72, 68, 10] : Bytes) ++ Sam.encode Sam.exSam =
        (([[64, 72, 68]] ++ [Sam.exSam].map Sam.encodeLine).map (· ++ [10])).flatten := by
      simp [Sam.encode, LF]
    rw [e, this]; simp

/-! ## SAM: a bad line is one error item, in place; the other lines are unaffected -/

theorem C11_sam_line_error_local (pf : Bytes → Option Bytes) (pre post : List Bytes) (l' : Bytes)
    (hpre : ∀ l ∈ pre, Sam.plainLine l) (hpost : ∀ l ∈ post, Sam.plainLine l)
    (hl : Sam.plainLine l') (hne : l' ≠ []) (h64 : l'.head? ≠ some 64)
    (hbad : Sam.parseLine pf (splitOn TAB l') = none) :
    Sam.decodeHeader pf (lfFile (pre ++ [l'] ++ post)) =
      Sam.decodeHeader pf (lfFile pre) ++ [Item.err] ++ Sam.decodeHeader pf (lfFile post) ∧
    Sam.decode pf (lfFile (pre ++ [l'] ++ post)) =
      Sam.decode pf (lfFile pre) ++ [Item.err] ++ Sam.decode pf (lfFile post) :=
  Sam.line_error_local pf pre post l' hpre hpost hl hne h64 hbad

example :
    let pre : List Bytes := [[64, 72, 68], [], [120, 9, 121]]
    let post : List Bytes := [[], [34, 34]]
    let l' : Bytes := [97, 34, 9, 98, 9, 99]
    (∀ l ∈ pre, Sam.plainLine l) ∧ (∀ l ∈ post, Sam.plainLine l) ∧ Sam.plainLine l' ∧ l' ≠ [] ∧
    l'.head? ≠ some 64 ∧ Sam.parseLine Sam.exPf (splitOn TAB l') = none := by decide

/-- The lines around the bad one may be written records: `encodeLine` of a well-formed record
is a plain line. -/
example : Sam.plainLine (Sam.encodeLine Sam.exSam) := Sam.encodeLine_plain Sam.exPf Sam.exSam_WF

/-- Corruption kind 1: fewer than 11 fields. -/
theorem C11_sam_corrupt_too_few_fields (pf : Bytes → Option Bytes) (fs : List Bytes)
    (h : fs.length < 11) : Sam.parseLine pf fs = none := Sam.corrupt_too_few_fields pf fs h

example : (splitOn TAB [97, 9, 98, 9, 9, 99]).length < 11 := by decide

/-- Corruption kind 2: a non-numeric integer field. -/
theorem C11_sam_corrupt_bad_int (pf : Bytes → Option Bytes) (fs : List Bytes)
    (h : ∃ i ∈ [1, 3, 4, 7, 8], ∃ f, fs[i]? = some f ∧ atoi f = none) :
    Sam.parseLine pf fs = none := Sam.corrupt_bad_int pf fs h

example : ∃ i ∈ [1, 3, 4, 7, 8], ∃ f,
    ([[113], [48], [42], [49], [49, 120], [42], [42], [48], [48], [42], [42]] : List Bytes)[i]?
      = some f ∧ atoi f = none :=
  ⟨4, by decide, [49, 120], by decide, by decide⟩

/-- Corruption kind 3: a tag field with fewer than two colons. -/
theorem C11_sam_corrupt_tag_few_colons (pf : Bytes → Option Bytes) (fs : List Bytes) (f : Bytes)
    (hf : f ∈ fs.drop 11) (hc : f.count 58 < 2) : Sam.parseLine pf fs = none :=
  Sam.corrupt_tag_few_colons pf fs f hf hc

example : ([78, 77, 58, 105, 49] : Bytes) ∈
    ([[113], [48], [42], [49], [49], [42], [42], [48], [48], [42], [42],
      [78, 77, 58, 105, 49]] : List Bytes).drop 11 ∧
    ([78, 77, 58, 105, 49] : Bytes).count 58 < 2 := by decide

/-- Corruption kind 4: a tag whose value its type rejects, or of unknown type. -/
theorem C11_sam_corrupt_tag_bad_value (pf : Bytes → Option Bytes) (fs : List Bytes)
    (name ty val : Bytes)
    (hf : name ++ 58 :: (ty ++ 58 :: val) ∈ fs.drop 11)
    (hn : (58 : UInt8) ∉ name) (ht : (58 : UInt8) ∉ ty)
    (hbad : (ty = [65] ∧ val.length ≠ 1) ∨ (ty = [105] ∧ atoi val = none) ∨
            (ty = [72] ∧ val.length % 2 = 1) ∨
            ty ∉ [[65], [105], [102], [90], [72], [66]]) :
    Sam.parseLine pf fs = none :=
  Sam.corrupt_tag_bad_value pf fs name ty val hf hn ht hbad

example :
    (([65] : Bytes) = [65] ∧ ([97, 98] : Bytes).length ≠ 1) ∧
    ([88, 88] : Bytes) ++ 58 :: (([65] : Bytes) ++ 58 :: [97, 98]) ∈
      ([[113], [48], [42], [49], [49], [42], [42], [48], [48], [42], [42],
        [88, 88, 58, 65, 58, 97, 98]] : List Bytes).drop 11 ∧
    (58 : UInt8) ∉ ([88, 88] : Bytes) ∧ (58 : UInt8) ∉ ([65] : Bytes) := by decide

/-! ## Newick -/

/-- What the parser guarantees about every delivered tree: every distance is a canonical token
of `pd`.  `hpd` is an assumption about the external distance parser only: a token it returns
is non-empty, free of structural / whitespace / quote bytes, and is re-read as itself. -/
theorem C11_newick_accepted_dists (pd : Bytes → Option Newick.Dist)
    (hpd : ∀ t d, pd t = some (some d) → Newick.DistOK pd (some d))
    (e : Ending) (x : Bytes) (t : Newick.Tree) (hm : Item.ok t ∈ Newick.decodeSrc pd e x) :
    t.AllDist (Newick.DistOK pd) :=
  Newick.accepted_allDist pd hpd e x t hm

/-- Names are arbitrary byte strings (`name_roundtrip` of C05 holds for all of them), so no
`clean` hypothesis is needed. -/
theorem C11_newick_fixed_point (qs : Bytes) (pd : Bytes → Option Newick.Dist)
    (hq : Newick.QS_OK qs)
    (hpd : ∀ t d, pd t = some (some d) → Newick.DistOK pd (some d))
    (x : Bytes) (t : Newick.Tree) (hm : Item.ok t ∈ Newick.decode pd x) :
    Newick.decode pd (Newick.write qs t) = [Item.ok t] :=
  Newick.decode_write qs pd hq t (C11_newick_accepted_dists pd hpd .eof x t hm)

/-- Non-vacuity: `pdEx` satisfies `hpd`; the example tree is delivered from
`" \n" ++ its text ++ "\r\n"`. -/
example :
    Newick.QS_OK Newick.qsGo ∧
    (∀ t d, Newick.pdEx t = some (some d) → Newick.DistOK Newick.pdEx (some d)) ∧
    Item.ok Newick.exTree ∈
      Newick.decode Newick.pdEx ([32, 10] ++ Newick.write Newick.qsGo Newick.exTree ++ [13, 10]) := by
  refine ⟨by decide, ?_, ?_⟩
  · intro t d h
    unfold Newick.pdEx at h
    split at h
    · cases h; decide
    · split at h
      · cases h; decide
      · cases h
  · have := Newick.trees_roundtrip Newick.qsGo Newick.pdEx (by decide) [32, 10]
      [(Newick.exTree, [13, 10])] (by decide) (by decide) (by decide)
    simp only [List.flatMap_cons, List.flatMap_nil, List.append_nil, List.map_cons,
      List.map_nil] at this
    rw [← List.append_assoc] at this
    rw [this]; simp

/-! ## Totality: progress of the tree reader -/

/-- Every tree consumes at least one byte: the progress guard in `Newick.decodeSrc` is dead
code, and the reader loop terminates on every input. -/
theorem C11_newick_read_consumes (pd : Bytes → Option Newick.Dist) (e : Ending) (x : Bytes)
    (t : Newick.Tree) (rest : Bytes) (h : Newick.readTree pd e x = .tree t rest) :
    rest.length < x.length :=
  Newick.read_consumes pd e x t rest h

example : Newick.readTree Newick.pdEx .eof [97, 59, 98] = .tree ⟨[97], none, .nil⟩ [98] := by
  decide +kernel

/-- FASTA: one `read` leaves no more than what followed its first byte. -/
theorem C11_fasta_read_consumes (st : Fasta.St) (x : Bytes) :
    (Fasta.loop st x).2.2.length ≤ x.length := Fasta.loop_rest_le st x

/-- Every tokenizer step consumes at least one byte. -/
theorem C11_newick_token_consumes (e : Ending) (x t rest : Bytes)
    (h : Newick.nextToken e x = .tok t rest) : rest.length < x.length :=
  Newick.nextToken_lt e x t rest h

example : Newick.nextToken .eof [32, 97, 98, 59] = .tok [97, 98] [59] := by decide

end Bio
