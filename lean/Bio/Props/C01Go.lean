/-
  C01 for the Go SOURCE TEXT: `(*reader).read` of formats/fasta/fasta.go, as translated on every run
  into `Bio.Generated.GoSrc.fasta_read` (the `ReadByte`/`UnreadByte` loop over the remaining input),
  iterated the way formats/fasta/iter.go does, computes the hand-written model `Fasta.decodeSrc` for
  EVERY input and both endings of the byte source — hence the write → read round trip of
  `Bio.Props.C01` holds for the translated reader.  Guarded by the translator's `<f>_Found` flag
  (see `Bio.Lemmas.GoSrc`).
-/
import Bio.Lemmas.GoSrcReaders
import Bio.Props.C01Inst
namespace Bio.Props.C01Go
open Bio Bio.GoRt Bio.Generated Bio.GoSrcLemmas

/-- every translator flag this file depends on; the non-vacuity examples below are stated as
`allFound = false ∨ …` so that a source the translator no longer recognises is not an alarm -/
def allFound : Bool := GoSrc.fasta_read_Found

/-- `(*reader).iter` of formats/fasta/iter.go over the translated `read`:
`for { fa, err := r.read(); if err != nil { if err != io.EOF { yield(nil, err) }; break }; yield(fa, nil) }`,
at most `fuel` calls. -/
def goDecode : Nat → Ending → Bytes → List (Item Fasta.Fa)
  | 0, _, _ => []
  | fuel + 1, e, x =>
    match GoSrc.fasta_read x e with
    | none => [.err]                                               -- a panic (never: `go_read_total`)
    | some ((_, GoErr.eof), _) => []                               -- `break`
    | some ((_, GoErr.other), _) => [.err]                         -- `yield(nil, err); break`
    | some ((none, GoErr.nil), _) => [.err]                        -- `(nil, nil)` (never: `go_read_cons`)
    | some ((some (n, s), GoErr.nil), rest) => .ok ⟨n, s⟩ :: goDecode fuel e rest   -- `yield(fa, nil)`

/-- A call on exhausted input reads nothing and returns `io.EOF`, or the source's read error. -/
theorem go_read_nil : GoSrc.fasta_read_Found = true →
    ∀ e : Ending, GoSrc.fasta_read [] e = some ((none, endErr e), []) :=
  fun hF e => fasta_read_nil hF e

/-- A call on non-empty input is the model's `readOne`: the record and the unread rest — unless the
input was read to its end and the source then fails, in which case the partial record is dropped
and the error returned. -/
theorem go_read_cons : GoSrc.fasta_read_Found = true →
    ∀ (b : UInt8) (rest : Bytes) (e : Ending),
      GoSrc.fasta_read (b :: rest) e = some (
        if (Fasta.readOne b rest).2 = [] ∧ e = Ending.fail then ((none, GoErr.other), [])
        else ((some ((Fasta.readOne b rest).1.name, (Fasta.readOne b rest).1.seq), GoErr.nil),
              (Fasta.readOne b rest).2)) :=
  fun hF b rest e => fasta_read_cons hF b rest e

/-- The translated `read` never panics. -/
theorem go_read_total : GoSrc.fasta_read_Found = true →
    ∀ (x : Bytes) (e : Ending), (GoSrc.fasta_read x e).isSome = true :=
  fun hF x e => fasta_read_isSome hF x e

example : allFound = false ∨ (GoSrc.fasta_read_Found = true) := by decide
-- ">ab\nAC\nGT\n>c\nA": the first call stops in front of the second '>', also on a failing source;
-- ">x" on a failing source: the record is dropped; "\n\n>a\nA": an empty first record
set_option synthInstance.maxSize 1024 in
example : allFound = false ∨ (
    GoSrc.fasta_read [62, 97, 98, 10, 65, 67, 10, 71, 84, 10, 62, 99, 10, 65] .fail
      = some ((some ([97, 98], [65, 67, 71, 84]), GoErr.nil), [62, 99, 10, 65])
    ∧ GoSrc.fasta_read [] .eof = some ((none, GoErr.eof), [])) := by decide
set_option synthInstance.maxSize 1024 in
example : allFound = false ∨ (
    GoSrc.fasta_read [62, 120] .eof = some ((some ([120], []), GoErr.nil), [])
    ∧ GoSrc.fasta_read [62, 120] .fail = some ((none, GoErr.other), [])
    ∧ GoSrc.fasta_read [10, 10, 62, 97, 10, 65] .eof = some ((some ([], []), GoErr.nil), [62, 97, 10, 65])) := by decide

/-- The iterator over the translated reader IS the model decoder: every input, both endings. -/
theorem go_decode : GoSrc.fasta_read_Found = true →
    ∀ (e : Ending) (x : Bytes), goDecode (x.length + 1) e x = Fasta.decodeSrc e x := by
  intro hF e x
  suffices h : ∀ (fuel : Nat) (x : Bytes), x.length < fuel → goDecode fuel e x = Fasta.decodeSrc e x from
    h _ x (Nat.lt_succ_self _)
  intro fuel
  induction fuel with
  | zero => intro x hx; omega
  | succ fuel ih =>
    intro x hx
    cases x with
    | nil =>
      rw [goDecode, fasta_read_nil hF, Fasta.decodeSrc_nil]
      cases e <;> rfl
    | cons b rest =>
      rw [goDecode, fasta_read_cons hF, Fasta.decodeSrc_cons]
      have hlt := fasta_readOne_rest_lt b rest
      by_cases h2 : (Fasta.readOne b rest).2 = []
      · cases e with
        | fail => simp [h2]
        | eof =>
          have hf : fuel = (fuel - 1) + 1 := by simp only [List.length_cons] at hx; omega
          simp only [h2, true_and, reduceCtorEq, if_false, if_true]
          rw [hf, goDecode, fasta_read_nil hF]
          rfl
      · simp only [h2, false_and, if_false]
        rw [ih _ (by simp only [List.length_cons] at hx hlt; omega)]

example : allFound = false ∨ (GoSrc.fasta_read_Found = true) := by decide
-- two records, blank lines, CRLF; a failing source replaces the last record by an error
example : allFound = false ∨ (
    goDecode 20 .eof [62, 97, 98, 13, 10, 65, 67, 10, 10, 71, 84, 10, 62, 99, 10, 65]
      = [.ok ⟨[97, 98], [65, 67, 71, 84]⟩, .ok ⟨[99], [65]⟩]
    ∧ goDecode 20 .fail [62, 97, 98, 13, 10, 65, 67, 10, 10, 71, 84, 10, 62, 99, 10, 65]
      = [.ok ⟨[97, 98], [65, 67, 71, 84]⟩, .err]
    ∧ goDecode 1 .eof [] = [] ∧ goDecode 1 .fail [] = [.err]) := by decide

/-- Write then read with the translated reader returns the records: every record count, every
length, every content in the domain of C01, every positive line width. -/
theorem go_roundtrip : GoSrc.fasta_read_Found = true →
    ∀ (w : Nat), 0 < w → ∀ (rs : List Fasta.Fa), (∀ r ∈ rs, Fasta.WF r) →
      goDecode ((Fasta.encodeAll w rs).length + 1) .eof (Fasta.encodeAll w rs) = rs.map Item.ok := by
  intro hF w hw rs h
  rw [go_decode hF]
  exact Fasta.roundtrip w hw rs h

/-- … in particular at the line width observed on the running code. -/
theorem go_generated_roundtrip : GoSrc.fasta_read_Found = true →
    ∀ (rs : List Fasta.Fa), (∀ r ∈ rs, Fasta.WF r) →
      goDecode ((Fasta.encodeAll Generated.fastaLineLen rs).length + 1) .eof
        (Fasta.encodeAll Generated.fastaLineLen rs) = rs.map Item.ok :=
  fun hF rs h => go_roundtrip hF _ (by decide) rs h

/-- Non-vacuity: the flag, a positive width, and records in the domain (7-byte sequence over 3
lines at width 3, an empty record, odd bytes). -/
example : allFound = false ∨ (GoSrc.fasta_read_Found = true ∧ (0 : Nat) < 3 ∧
    ∀ r ∈ ([⟨[115, 32, 49], [65, 67, 71, 84, 65, 67, 71]⟩, ⟨[], []⟩, ⟨[62, 64], [255, 0, 43]⟩] : List Fasta.Fa),
      Fasta.WF r) := by decide

end Bio.Props.C01Go
