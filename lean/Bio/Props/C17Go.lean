/-
  C17 for the Go SOURCE TEXT: `Add` of mash/mash.go, as translated statement by statement on every
  run into `Bio.Generated.GoSrc.mash_Add`.  The external sketch object (`*minhash.MinHash[uint64]`) is
  an abstract state `σ` whose methods `Push`/`Sort` are PARAMETERS, so are the murmur3 hash
  (`hash seed bytes`, applied to the package variable `Seed`) and `bytes.ToUpper`; the iterator is
  the translated (and proved, C12Go) `CanonicalSubsequences`.  `none` = Go panics.

  1. `go_mash_Add` — for ARBITRARY parameters: the result is `Sort` of pushing, in order, the
     hashes of the canonical k-mers of the `ToUpper`ed sequences (`kmersWith`).
  2. `go_mash_Add_model` — with the parameters of the hand-written model (`Mash.push n` on
     descending lists, `Sort = id`, `Mash.upper`, a hash with values `< 2^64`) it is `Mash.addTo`;
     hence `go_sketch_is_bottom_n`, `go_perm`, `go_strand` (C17 at the source level).
  3. For arbitrary `Push`/`Sort`/hash: `go_kmer_content_only`, `go_case_insensitive`,
     `go_case_upper`, `go_incremental` (`go_incremental_id`), `go_panics_iff`.
  Guarded by the translator's `<f>_Found` flags (see `Bio.Lemmas.GoSrc`).
-/
import Bio.Lemmas.GoSrcMash
import Bio.Generated.Tables
namespace Bio.Props.C17Go
open Bio Bio.Generated Bio.GoSrcLemmas

/-- every translator flag this file depends on; the non-vacuity examples below are stated as
`allFound = false ∨ …` so that a source the translator no longer recognises is not an alarm -/
def allFound : Bool := GoSrc.mash_Add_Found && GoSrc.CanonicalSubsequences_Found &&
  GoSrc.ReverseComplement_Found && GoSrc.complementByte_Found

/-! ### Example data for the non-vacuity checks -/

/-- A small concrete seeded 64-bit hash. -/
def exHash64 (seed : UInt32) (b : Bytes) : UInt64 :=
  b.foldl (fun acc x => (acc * 31 + x.toUInt64) % 101) seed.toUInt64

/-- A small concrete hash with `Nat` values (below 101). -/
def exH (b : Bytes) : Nat := (b.foldl (fun acc x => acc * 31 + x.toNat) 7) % 101

/-- A `Push` that makes the pushed order visible: append. -/
def exPush (s : List UInt64) (x : UInt64) : List UInt64 := s ++ [x]

/-- A sketch object with a "sorted" flag: `Push` adds to a sum and clears the flag, `Sort` sets it. -/
def flagPush (s : Nat × Bool) (x : UInt64) : Nat × Bool := (s.1 + x.toNat, false)
def flagSort (s : Nat × Bool) : Nat × Bool := (s.1, true)

example : allFound = false ∨ (GoSrc.mash_Add_Found = true ∧ GoSrc.CanonicalSubsequences_Found = true
    ∧ GoSrc.ReverseComplement_Found = true ∧ GoSrc.complementByte_Found = true) := by decide

/-! ## 1. The translated `Add`, arbitrary parameters -/

/-- For ARBITRARY `Seed`, complement table, `ToUpper`, hash, `Push`, `Sort`, every state `mh`,
every `k : Nat` and all sequences: `Add(mh, k, seqs...)` leaves the object in the state
`Sort(Push(… Push(mh, hash(Seed, b₁)) …, hash(Seed, b_m)))` where `b₁ … b_m` are the canonical
k-mers of `ToUpper(seq)` for the sequences in order (`kmersWith`, defined from the model's
`Sequtil.canonical`); it panics exactly when `kmersWith` is `none`. -/
theorem go_mash_Add : GoSrc.mash_Add_Found = true → GoSrc.CanonicalSubsequences_Found = true →
    GoSrc.ReverseComplement_Found = true → GoSrc.complementByte_Found = true →
    ∀ {σ : Type} (seed : UInt32) (tbl : List UInt8) (up : Bytes → Bytes) (hash : UInt32 → Bytes → UInt64)
      (push : σ → UInt64 → σ) (sort : σ → σ) (mh : σ) (k : Nat) (seqs : List Bytes),
      GoSrc.mash_Add seed tbl up hash push sort mh (k : Int) seqs
        = (kmersWith tbl up k seqs).map fun ks => sort ((ks.map (hash seed)).foldl push mh) :=
  fun hF hI hR hC _ seed tbl up hash push sort mh k seqs =>
    mash_Add_eq hF hI hR hC seed tbl up hash push sort mh k seqs

/-- `kmersWith` with the model's `ToUpper` is the model's `kmers`. -/
theorem go_kmersWith_upper (tbl : List UInt8) (k : Nat) (seqs : List Bytes) :
    kmersWith tbl Mash.upper k seqs = Mash.kmers tbl k seqs :=
  kmersWith_upper tbl k seqs

-- "aCgT", "ttA", k = 3: ACG|CGT -> ACG, CGT|ACG -> ACG, TTA|TAA -> TAA; the hashes are appended to
-- the state [1000] in that order, then `Sort` (here: reverse)
example : kmersWith Generated.compTable Mash.upper 3 [[97, 67, 103, 84], [116, 116, 65]]
    = some [[65, 67, 71], [65, 67, 71], [84, 65, 65]] := by decide +kernel
example : [[65, 67, 71], [65, 67, 71], [84, 65, 65]].map (exHash64 7) = [46, 46, 57] := by decide +kernel
example : allFound = false ∨
    (GoSrc.mash_Add 7 Generated.compTable Mash.upper exHash64 exPush List.reverse [1000] 3
        [[97, 67, 103, 84], [116, 116, 65]] = some [57, 46, 46, 1000]
    -- a different `ToUpper` (none at all): different k-mers ("aCg" < "CgT" …), different pushes
    ∧ GoSrc.mash_Add 7 Generated.compTable id exHash64 exPush List.reverse [1000] 3
        [[97, 67, 103, 84], [116, 116, 65]] = some [71, 28, 25, 1000]
    -- `k` larger than every sequence: nothing is pushed, `Sort` still runs
    ∧ GoSrc.mash_Add 7 Generated.compTable Mash.upper exHash64 exPush List.reverse [1, 2] 9
        [[97, 67, 103, 84], [116, 116, 65]] = some [2, 1]
    -- an invalid base ('X'): panic
    ∧ GoSrc.mash_Add 7 Generated.compTable Mash.upper exHash64 exPush List.reverse [1000] 3
        [[97, 67, 103, 84], [116, 88, 65]] = none) := by decide +kernel

/-! ## 2. With the parameters of the model -/

/-- The sketch object as the model has it (a descending `List Nat` of capacity `n`, `Push` =
`Mash.push n` on the value of the hash, `Sort` = nothing to do), `ToUpper = Mash.upper`, and a
hash `h : Bytes → Nat` with 64-bit values: the translated `Add` on state `s` is `Mash.addTo`. -/
theorem go_mash_Add_model : GoSrc.mash_Add_Found = true → GoSrc.CanonicalSubsequences_Found = true →
    GoSrc.ReverseComplement_Found = true → GoSrc.complementByte_Found = true →
    ∀ (seed : UInt32) (tbl : List UInt8) (h : Bytes → Nat), (∀ b, h b < 2 ^ 64) →
    ∀ (n k : Nat) (s : List Nat) (seqs : List Bytes),
      GoSrc.mash_Add seed tbl Mash.upper (fun _ b => UInt64.ofNat (h b))
          (fun s x => Mash.push n s x.toNat) id s (k : Int) seqs
        = Mash.addTo tbl h n k s seqs := by
  intro hF hI hR hC seed tbl h hb n k s seqs
  rw [mash_Add_eq hF hI hR hC, kmersWith_upper, Mash.addTo]
  congr 1; funext ks
  exact foldl_push_ofNat h hb n ks s

example : ∀ b, exH b < 2 ^ 64 := fun _ => Nat.lt_trans (Nat.mod_lt _ (by decide)) (by decide)
-- hashes 46, 46, 81, 57 pushed into a sketch of capacity 2
example : allFound = false ∨
    (GoSrc.mash_Add 0 Generated.compTable Mash.upper (fun _ b => UInt64.ofNat (exH b))
        (fun s x => Mash.push 2 s x.toNat) id [] 3 [[97, 67, 103, 84, 84], [116, 116, 65]] = some [57, 46]
    ∧ Mash.addTo Generated.compTable exH 2 3 [] [[97, 67, 103, 84, 84], [116, 116, 65]] = some [57, 46]) := by
  decide +kernel

/-- `Sequences(n, k, seqs...)` (= `Add` on the empty sketch) at the source level is the model's
`sketch`, i.e. (C17 `sketch_is_bottom_n`) the `n` smallest distinct hash values of the canonical
k-mers, descending. -/
theorem go_sketch_is_bottom_n : GoSrc.mash_Add_Found = true → GoSrc.CanonicalSubsequences_Found = true →
    GoSrc.ReverseComplement_Found = true → GoSrc.complementByte_Found = true →
    ∀ (seed : UInt32) (tbl : List UInt8) (h : Bytes → Nat), (∀ b, h b < 2 ^ 64) →
    ∀ (n k : Nat) (seqs : List Bytes),
      GoSrc.mash_Add seed tbl Mash.upper (fun _ b => UInt64.ofNat (h b))
          (fun s x => Mash.push n s x.toNat) id [] (k : Int) seqs
        = (Mash.kmers tbl k seqs).map fun ks => Mash.bottomN n (ks.map h) := by
  intro hF hI hR hC seed tbl h hb n k seqs
  rw [go_mash_Add_model hF hI hR hC seed tbl h hb]
  exact Mash.sketch_eq tbl h n k seqs

/-- (C17 `C17_perm`/`C17_set` at the source level) only the set of sequences matters. -/
theorem go_perm : GoSrc.mash_Add_Found = true → GoSrc.CanonicalSubsequences_Found = true →
    GoSrc.ReverseComplement_Found = true → GoSrc.complementByte_Found = true →
    ∀ (seed : UInt32) (tbl : List UInt8) (h : Bytes → Nat), (∀ b, h b < 2 ^ 64) →
    ∀ (n k : Nat) (seqs seqs' : List Bytes), (∀ s, s ∈ seqs ↔ s ∈ seqs') →
      GoSrc.mash_Add seed tbl Mash.upper (fun _ b => UInt64.ofNat (h b))
          (fun s x => Mash.push n s x.toNat) id [] (k : Int) seqs
        = GoSrc.mash_Add seed tbl Mash.upper (fun _ b => UInt64.ofNat (h b))
          (fun s x => Mash.push n s x.toNat) id [] (k : Int) seqs' := by
  intro hF hI hR hC seed tbl h hb n k seqs seqs' hm
  rw [go_mash_Add_model hF hI hR hC seed tbl h hb, go_mash_Add_model hF hI hR hC seed tbl h hb]
  exact Mash.sketch_congr_mem tbl h n k hm

example : ∀ s, s ∈ ([[65, 67], [65, 67], [71]] : List Bytes) ↔ s ∈ ([[71], [65, 67]] : List Bytes) := by
  intro s; simp [or_comm]

/-- (C17 `C17_strand` at the source level) replacing a sequence by its reverse complement, for a
complement table that is an involution and commutes with upper-casing. -/
theorem go_strand : GoSrc.mash_Add_Found = true → GoSrc.CanonicalSubsequences_Found = true →
    GoSrc.ReverseComplement_Found = true → GoSrc.complementByte_Found = true →
    ∀ (seed : UInt32) (tbl : List UInt8) (h : Bytes → Nat), (∀ b, h b < 2 ^ 64) →
    (∀ b c, Sequtil.comp tbl b = some c → Sequtil.comp tbl c = some b) →
    (∀ b, Sequtil.comp tbl (Mash.upperByte b) = (Sequtil.comp tbl b).map Mash.upperByte) →
    ∀ (n k : Nat) (pre post : List Bytes) (s r : Bytes), Sequtil.revComp tbl [] s = some r →
      GoSrc.mash_Add seed tbl Mash.upper (fun _ b => UInt64.ofNat (h b))
          (fun s x => Mash.push n s x.toNat) id [] (k : Int) (pre ++ r :: post)
        = GoSrc.mash_Add seed tbl Mash.upper (fun _ b => UInt64.ofNat (h b))
          (fun s x => Mash.push n s x.toNat) id [] (k : Int) (pre ++ s :: post) := by
  intro hF hI hR hC seed tbl h hb hc hu n k pre post s r hr
  rw [go_mash_Add_model hF hI hR hC seed tbl h hb, go_mash_Add_model hF hI hR hC seed tbl h hb]
  exact Mash.sketch_revComp hc hu h n k pre post hr

example : (∀ b c, Sequtil.comp Generated.compTable b = some c → Sequtil.comp Generated.compTable c = some b)
    ∧ (∀ b, Sequtil.comp Generated.compTable (Mash.upperByte b)
        = (Sequtil.comp Generated.compTable b).map Mash.upperByte) := by
  constructor
  · rw [Mash.forall_uint8]; decide +kernel
  · rw [Mash.forall_uint8]; decide +kernel
example : Sequtil.revComp Generated.compTable [] [116, 116, 65] = some [84, 97, 97] := by decide +kernel

/-! ## 3. Discrete C17 facts for arbitrary `Push` / `Sort` / hash -/

/-- Only the canonical k-mers, in push order, matter: two argument lists with the same
`kmersWith` leave the object in the same state (or both panic). -/
theorem go_kmer_content_only : GoSrc.mash_Add_Found = true → GoSrc.CanonicalSubsequences_Found = true →
    GoSrc.ReverseComplement_Found = true → GoSrc.complementByte_Found = true →
    ∀ {σ : Type} (seed : UInt32) (tbl : List UInt8) (up : Bytes → Bytes) (hash : UInt32 → Bytes → UInt64)
      (push : σ → UInt64 → σ) (sort : σ → σ) (mh : σ) (k : Nat) (seqs seqs' : List Bytes),
      kmersWith tbl up k seqs = kmersWith tbl up k seqs' →
      GoSrc.mash_Add seed tbl up hash push sort mh (k : Int) seqs
        = GoSrc.mash_Add seed tbl up hash push sort mh (k : Int) seqs' := by
  intro hF hI hR hC σ seed tbl up hash push sort mh k seqs seqs' e
  rw [mash_Add_eq hF hI hR hC, mash_Add_eq hF hI hR hC, e]

-- "ACGT" as one sequence, or cut with an overlap of k-1 = 2 into "ACG", "CGT"
example : kmersWith Generated.compTable Mash.upper 3 [[65, 67, 71, 84]]
    = kmersWith Generated.compTable Mash.upper 3 [[65, 67, 71], [67, 71, 84]] := by decide +kernel
example : allFound = false ∨
    GoSrc.mash_Add 7 Generated.compTable Mash.upper exHash64 exPush List.reverse [1000] 3 [[65, 67, 71, 84]]
      = GoSrc.mash_Add 7 Generated.compTable Mash.upper exHash64 exPush List.reverse [1000] 3
          [[65, 67, 71], [67, 71, 84]] := by decide +kernel

/-- Letter case, for an arbitrary `ToUpper`: sequences that agree after `ToUpper` give the same
result. -/
theorem go_case_insensitive : GoSrc.mash_Add_Found = true → GoSrc.CanonicalSubsequences_Found = true →
    GoSrc.ReverseComplement_Found = true → GoSrc.complementByte_Found = true →
    ∀ {σ : Type} (seed : UInt32) (tbl : List UInt8) (up : Bytes → Bytes) (hash : UInt32 → Bytes → UInt64)
      (push : σ → UInt64 → σ) (sort : σ → σ) (mh : σ) (k : Nat) (seqs seqs' : List Bytes),
      seqs.map up = seqs'.map up →
      GoSrc.mash_Add seed tbl up hash push sort mh (k : Int) seqs
        = GoSrc.mash_Add seed tbl up hash push sort mh (k : Int) seqs' := by
  intro hF hI hR hC σ seed tbl up hash push sort mh k seqs seqs' e
  rw [mash_Add_eq hF hI hR hC, mash_Add_eq hF hI hR hC, kmersWith_congr_up tbl up k e]

example : ([[97, 67, 103, 84], [116, 116, 65]] : List Bytes).map Mash.upper
    = ([[65, 99, 71, 116], [84, 84, 97]] : List Bytes).map Mash.upper := by decide

/-- Letter case, with `ToUpper = Mash.upper`: upper-casing the arguments changes nothing (C17
`C17_case` at the source level, for arbitrary `Push`/`Sort`/hash). -/
theorem go_case_upper : GoSrc.mash_Add_Found = true → GoSrc.CanonicalSubsequences_Found = true →
    GoSrc.ReverseComplement_Found = true → GoSrc.complementByte_Found = true →
    ∀ {σ : Type} (seed : UInt32) (tbl : List UInt8) (hash : UInt32 → Bytes → UInt64)
      (push : σ → UInt64 → σ) (sort : σ → σ) (mh : σ) (k : Nat) (seqs : List Bytes),
      GoSrc.mash_Add seed tbl Mash.upper hash push sort mh (k : Int) (seqs.map Mash.upper)
        = GoSrc.mash_Add seed tbl Mash.upper hash push sort mh (k : Int) seqs := by
  intro hF hI hR hC σ seed tbl hash push sort mh k seqs
  rw [mash_Add_eq hF hI hR hC, mash_Add_eq hF hI hR hC,
    kmersWith_congr_up tbl Mash.upper k (xs := seqs.map Mash.upper) (ys := seqs)
      (by simp [List.map_map, Function.comp_def, Mash.upper_idem])]

example : allFound = false ∨
    (GoSrc.mash_Add 7 Generated.compTable Mash.upper exHash64 exPush List.reverse [1000] 3
        [[65, 67, 71, 84], [84, 84, 65]] = some [57, 46, 46, 1000]
    ∧ GoSrc.mash_Add 7 Generated.compTable Mash.upper exHash64 exPush List.reverse [1000] 3
        [[97, 99, 103, 116], [116, 116, 97]] = some [57, 46, 46, 1000]) := by decide +kernel

/-- Building incrementally: `Add(mh, k, xs...)` followed by `Add(mh, k, ys...)` leaves the object in
the same state as `Add(mh, k, xs ++ ys ...)` (a panic propagates) PROVIDED the intermediate `Sort`
cannot be observed after the final one: `Sort` is idempotent, and `Push` on a sorted object gives,
after `Sort`, what `Push` on the unsorted one does.  Nothing else about `Push`/`Sort`/hash. -/
theorem go_incremental : GoSrc.mash_Add_Found = true → GoSrc.CanonicalSubsequences_Found = true →
    GoSrc.ReverseComplement_Found = true → GoSrc.complementByte_Found = true →
    ∀ {σ : Type} (seed : UInt32) (tbl : List UInt8) (up : Bytes → Bytes) (hash : UInt32 → Bytes → UInt64)
      (push : σ → UInt64 → σ) (sort : σ → σ),
      (∀ s, sort (sort s) = sort s) → (∀ s x, sort (push (sort s) x) = sort (push s x)) →
    ∀ (mh : σ) (k : Nat) (xs ys : List Bytes),
      (GoSrc.mash_Add seed tbl up hash push sort mh (k : Int) xs).bind
          (fun mh' => GoSrc.mash_Add seed tbl up hash push sort mh' (k : Int) ys)
        = GoSrc.mash_Add seed tbl up hash push sort mh (k : Int) (xs ++ ys) := by
  intro hF hI hR hC σ seed tbl up hash push sort h1 h2 mh k xs ys
  simp only [mash_Add_eq hF hI hR hC, kmersWith_append]
  cases kmersWith tbl up k xs <;> cases kmersWith tbl up k ys <;>
    simp [List.foldl_append, sort_foldl_sort push sort h1 h2]

example : (∀ s, flagSort (flagSort s) = flagSort s)
    ∧ (∀ s x, flagSort (flagPush (flagSort s) x) = flagSort (flagPush s x)) :=
  ⟨fun _ => rfl, fun _ _ => rfl⟩
example : allFound = false ∨
    ((GoSrc.mash_Add 7 Generated.compTable Mash.upper exHash64 flagPush flagSort (5, false) 3
        [[97, 67, 103, 84]]).bind
        (fun mh' => GoSrc.mash_Add 7 Generated.compTable Mash.upper exHash64 flagPush flagSort mh' 3
          [[116, 116, 65]]) = some (154, true)
    ∧ GoSrc.mash_Add 7 Generated.compTable Mash.upper exHash64 flagPush flagSort (5, false) 3
        [[97, 67, 103, 84], [116, 116, 65]] = some (154, true)) := by decide +kernel

/-- The same when `Sort` does nothing observable at all (`sort = id`, as in the model). -/
theorem go_incremental_id : GoSrc.mash_Add_Found = true → GoSrc.CanonicalSubsequences_Found = true →
    GoSrc.ReverseComplement_Found = true → GoSrc.complementByte_Found = true →
    ∀ {σ : Type} (seed : UInt32) (tbl : List UInt8) (up : Bytes → Bytes) (hash : UInt32 → Bytes → UInt64)
      (push : σ → UInt64 → σ) (mh : σ) (k : Nat) (xs ys : List Bytes),
      (GoSrc.mash_Add seed tbl up hash push id mh (k : Int) xs).bind
          (fun mh' => GoSrc.mash_Add seed tbl up hash push id mh' (k : Int) ys)
        = GoSrc.mash_Add seed tbl up hash push id mh (k : Int) (xs ++ ys) :=
  fun hF hI hR hC _ seed tbl up hash push mh k xs ys =>
    go_incremental hF hI hR hC seed tbl up hash push id (fun _ => rfl) (fun _ _ => rfl) mh k xs ys

/-- `Add` panics exactly when some sequence, after `ToUpper`, contains a byte the complement
table rejects (`Sequtil.comp tbl b = none`: entry 0 or outside the table) — for every `k : Nat`
(no `k` makes the iterator panic: `k = 0` yields `len+1` empty k-mers, `k > len(seq)` none), every
state and whatever `Push`/`Sort`/hash are. -/
theorem go_panics_iff : GoSrc.mash_Add_Found = true → GoSrc.CanonicalSubsequences_Found = true →
    GoSrc.ReverseComplement_Found = true → GoSrc.complementByte_Found = true →
    ∀ {σ : Type} (seed : UInt32) (tbl : List UInt8) (up : Bytes → Bytes) (hash : UInt32 → Bytes → UInt64)
      (push : σ → UInt64 → σ) (sort : σ → σ) (mh : σ) (k : Nat) (seqs : List Bytes),
      GoSrc.mash_Add seed tbl up hash push sort mh (k : Int) seqs = none
        ↔ ∃ s ∈ seqs, ∃ b ∈ up s, Sequtil.comp tbl b = none := by
  intro hF hI hR hC σ seed tbl up hash push sort mh k seqs
  rw [mash_Add_eq hF hI hR hC, Option.map_eq_none_iff, kmersWith_eq_none_iff]
  simp only [canonical_eq_none_iff]

example : Sequtil.comp Generated.compTable 88 = none ∧ (88 : UInt8) ∈ Mash.upper [116, 88, 65] := by
  decide +kernel
example : ∀ b ∈ Mash.upper [97, 67, 103, 84], Sequtil.comp Generated.compTable b ≠ none := by
  decide +kernel

end Bio.Props.C17Go
