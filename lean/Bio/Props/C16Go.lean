/-
  C16 for the Go SOURCE TEXT: the whole package regions/regions.go (`eventLess`, `keys`, `cp`,
  `NewIndex`, `(*Index).At`), as translated on every run into `Bio.Generated.GoSrc` (structs as
  tuples, `map[int]struct{}` as an ascending duplicate-free list, `sort.Slice`/`sort.Ints`/
  `sort.Search` as `sortByLess`/`sortInts`/`searchGo`; `none` = the Go code panics):

  * `NewIndex` IS the hand-written model `Regions.newIndex` (the active sets as Go `int`s), for all
    inputs, and panics exactly when the lengths differ;
  * `At` on an index with strictly ascending breakpoints IS the model's `at'`;
  * hence `NewIndex(starts, ends).At(i)` is exactly the ascending list of the `x` with
    `starts[x] ≤ i < ends[x]` (C16's `covering`), for all inputs of equal length and every `i`,
    and neither function panics.

  Guarded by the translator's `<f>_Found` flags (see `Bio.Lemmas.GoSrc`).
-/
import Bio.Lemmas.GoSrcRegions
import Bio.Props.C16
namespace Bio.Props.C16Go
open Bio Bio.GoRt Bio.Generated Bio.GoSrcLemmas

/-- every translator flag this file depends on; the non-vacuity examples below are stated as
`allFound = false ∨ …` so that a source the translator no longer recognises is not an alarm -/
def allFound : Bool :=
  GoSrc.NewIndex_Found && GoSrc.Index_At_Found && GoSrc.eventLess_Found && GoSrc.keys_Found && GoSrc.cp_Found

/-! ## The helpers -/

/-- `eventLess` on events with natural indices is the model's order `evLess`; it never panics. -/
theorem go_eventLess : GoSrc.eventLess_Found = true → ∀ (i j : Nat) (p q : Int) (s t : Bool),
    GoSrc.eventLess ((i : Int), p, s) ((j : Int), q, t) = some (Regions.evLess ⟨i, p, s⟩ ⟨j, q, t⟩) :=
  fun h i j p q s t => eventLess_eq h i j p q s t

/-- `keys` returns the members sorted (`sort.Ints`); on the ascending duplicate-free representation
of a set of naturals that is the set itself. -/
theorem go_keys : GoSrc.keys_Found = true → ∀ m : List Int, GoSrc.keys m = some (sortInts m) :=
  fun h m => keys_eq h m

theorem go_keys_set : GoSrc.keys_Found = true → ∀ l : List Nat, l.Pairwise (· < ·) →
    GoSrc.keys (l.map Int.ofNat) = some (l.map Int.ofNat) :=
  fun h l hl => keys_map_ofNat h l hl

example : ([0, 3, 7] : List Nat).Pairwise (· < ·) := by decide

/-- `cp` returns (a copy of) its argument. -/
theorem go_cp : GoSrc.cp_Found = true → ∀ a : List Int, GoSrc.cp a = some a :=
  fun h a => cp_eq h a

/-! ## `NewIndex` and `At` are the model -/

/-- For ALL inputs: the translated `NewIndex` is the model's `newIndex` — the same breakpoints with
the same active sets — and it panics (`none`) exactly when the model does. -/
theorem go_NewIndex : GoSrc.NewIndex_Found = true → GoSrc.eventLess_Found = true → GoSrc.keys_Found = true →
    ∀ starts ends : List Int, GoSrc.NewIndex starts ends = (Regions.newIndex starts ends).map ofIdx :=
  fun h hE hK starts ends => NewIndex_eq h hE hK starts ends

/-- On an index whose breakpoint positions are strictly ascending (what `Regions.breakpoints_sorted`
gives for every index built by `newIndex`), the translated `At` — Go's binary search — is the
model's linear scan `at'`, and does not panic. -/
theorem go_At : GoSrc.Index_At_Found = true → GoSrc.cp_Found = true →
    ∀ (idx : Regions.Index), idx.Pairwise (fun a b => a.1 < b.1) → ∀ i : Int,
      GoSrc.Index_At (ofIdx idx) i = some ((Regions.at' idx i).map Int.ofNat) :=
  fun h hC idx hs i => Index_At_eq h hC idx hs i

example : ([(1, [2]), (3, [2, 3, 4]), (4, [3, 4]), (9, [])] : Regions.Index).Pairwise (fun a b => a.1 < b.1) := by
  decide

/-! ## C16 for the source text -/

/-- `NewIndex(starts, ends).At(i)` is exactly the ascending list of the indices `x` with
`starts[x] ≤ i < ends[x]`, for all inputs of equal length and every integer `i`. -/
theorem go_at_spec : GoSrc.NewIndex_Found = true → GoSrc.Index_At_Found = true → GoSrc.eventLess_Found = true →
    GoSrc.keys_Found = true → GoSrc.cp_Found = true →
    ∀ starts ends : List Int, starts.length = ends.length → ∀ i : Int,
      (GoSrc.NewIndex starts ends).bind (fun ix => GoSrc.Index_At ix i)
        = some ((Regions.covering starts ends i).map Int.ofNat) := by
  intro hN hA hE hK hC starts ends h i
  obtain ⟨idx, h1, hs⟩ := Regions.breakpoints_sorted starts ends h
  obtain ⟨idx', h1', h2⟩ := Regions.at_spec starts ends h i
  rw [h1] at h1'
  cases h1'
  rw [NewIndex_eq hN hE hK, h1, Option.map_some, Option.bind_some, Index_At_eq hA hC idx hs, h2]

example : ([5, 3, 1, 10] : List Int).length = ([20, 3, 4, 12] : List Int).length := by decide

/-- `NewIndex` panics on lists of different lengths. -/
theorem go_length_mismatch : GoSrc.NewIndex_Found = true → GoSrc.eventLess_Found = true → GoSrc.keys_Found = true →
    ∀ starts ends : List Int, starts.length ≠ ends.length → GoSrc.NewIndex starts ends = none := by
  intro hN hE hK starts ends h
  rw [NewIndex_eq hN hE hK, Regions.length_mismatch starts ends h]
  rfl

example : ([1, 2] : List Int).length ≠ ([3] : List Int).length := by decide

/-- With equal lengths neither function panics: `NewIndex` returns an index, and `At` on it returns
for every position. -/
theorem go_no_panic : GoSrc.NewIndex_Found = true → GoSrc.Index_At_Found = true → GoSrc.eventLess_Found = true →
    GoSrc.keys_Found = true → GoSrc.cp_Found = true →
    ∀ starts ends : List Int, starts.length = ends.length →
      ∃ ix, GoSrc.NewIndex starts ends = some ix ∧ ∀ i : Int, (GoSrc.Index_At ix i).isSome = true := by
  intro hN hA hE hK hC starts ends h
  obtain ⟨idx, h1, hs⟩ := Regions.breakpoints_sorted starts ends h
  refine ⟨ofIdx idx, by rw [NewIndex_eq hN hE hK, h1]; rfl, fun i => ?_⟩
  rw [Index_At_eq hA hC idx hs]
  rfl

/-- The index built by the translated `NewIndex` has strictly ascending breakpoint positions (so the
binary search of `At` is meaningful), and every active set in it is strictly ascending. -/
theorem go_breakpoints_sorted : GoSrc.NewIndex_Found = true → GoSrc.eventLess_Found = true →
    GoSrc.keys_Found = true →
    ∀ starts ends : List Int, starts.length = ends.length →
      ∃ ix, GoSrc.NewIndex starts ends = some ix ∧ ix.Pairwise (fun a b => a.1 < b.1) := by
  intro hN hE hK starts ends h
  obtain ⟨idx, h1, hs⟩ := Regions.breakpoints_sorted starts ends h
  refine ⟨ofIdx idx, by rw [NewIndex_eq hN hE hK, h1]; rfl, ?_⟩
  unfold ofIdx
  rw [List.pairwise_map]
  exact hs

/-- The answer is strictly ascending (hence duplicate-free), and an empty or inverted interval
(`start ≥ end`) is never reported. -/
theorem go_result_ascending : GoSrc.NewIndex_Found = true → GoSrc.Index_At_Found = true →
    GoSrc.eventLess_Found = true → GoSrc.keys_Found = true → GoSrc.cp_Found = true →
    ∀ starts ends : List Int, starts.length = ends.length → ∀ i : Int,
      ∃ r, (GoSrc.NewIndex starts ends).bind (fun ix => GoSrc.Index_At ix i) = some r
        ∧ r.Pairwise (· < ·)
        ∧ ∀ (x : Nat) (s e : Int), starts[x]? = some s → ends[x]? = some e → s ≥ e → (x : Int) ∉ r := by
  intro hN hA hE hK hC starts ends h i
  refine ⟨_, go_at_spec hN hA hE hK hC starts ends h i,
    pairwise_map_ofNat _ (Regions.pairwise_covering starts ends i), ?_⟩
  intro x s e hs he hse hx
  rw [List.mem_map] at hx
  obtain ⟨y, hy, hxy⟩ := hx
  have : y = x := by
    have : (y : Int) = (x : Int) := hxy
    omega
  subst this
  obtain ⟨s', q', hs', hq', h3, h4⟩ := Regions.mem_covering.1 hy
  rw [hs] at hs'; rw [he] at hq'
  simp only [Option.some.injEq] at hs' hq'
  omega

/-! ## Non-vacuity / concrete instances -/

section Examples

private theorem flags (h : allFound = true) :
    GoSrc.NewIndex_Found = true ∧ GoSrc.Index_At_Found = true ∧ GoSrc.eventLess_Found = true
      ∧ GoSrc.keys_Found = true ∧ GoSrc.cp_Found = true := by
  simp only [allFound, Bool.and_eq_true] at h
  obtain ⟨⟨⟨⟨a, b⟩, c⟩, d⟩, e⟩ := h
  exact ⟨a, b, c, d, e⟩

/-- `At` of the translated index, through `go_at_spec`, is the (decidable) brute-force scan. -/
private theorem ex_at (starts ends : List Int) (i : Int) (r : List Int)
    (hl : starts.length = ends.length) (hr : (Regions.covering starts ends i).map Int.ofNat = r) :
    allFound = false ∨ (GoSrc.NewIndex starts ends).bind (fun ix => GoSrc.Index_At ix i) = some r := by
  by_cases h : allFound = true
  · obtain ⟨a, b, c, d, e⟩ := flags h
    right
    rw [go_at_spec a b c d e starts ends hl i, hr]
  · left
    simpa using h

example : allFound = false ∨ allFound = true := by decide

-- starts [5,3,1,10], ends [20,3,4,12]: interval 1 = [3,3) is empty, 3 = [10,12) is nested in 0 = [5,20)
example : allFound = false ∨
    (GoSrc.NewIndex [5, 3, 1, 10] [20, 3, 4, 12]).bind (fun ix => GoSrc.Index_At ix 11) = some [0, 3] :=
  ex_at _ _ _ _ (by decide) (by decide)
example : allFound = false ∨
    (GoSrc.NewIndex [5, 3, 1, 10] [20, 3, 4, 12]).bind (fun ix => GoSrc.Index_At ix 0) = some [] :=
  ex_at _ _ _ _ (by decide) (by decide)
-- the empty interval [3,3) is never reported, not even at 3
example : allFound = false ∨
    (GoSrc.NewIndex [5, 3, 1, 10] [20, 3, 4, 12]).bind (fun ix => GoSrc.Index_At ix 3) = some [2] :=
  ex_at _ _ _ _ (by decide) (by decide)
example : allFound = false ∨
    (GoSrc.NewIndex [5, 3, 1, 10] [20, 3, 4, 12]).bind (fun ix => GoSrc.Index_At ix 4) = some [] :=
  ex_at _ _ _ _ (by decide) (by decide)
example : allFound = false ∨
    (GoSrc.NewIndex [5, 3, 1, 10] [20, 3, 4, 12]).bind (fun ix => GoSrc.Index_At ix 12) = some [0] :=
  ex_at _ _ _ _ (by decide) (by decide)
example : allFound = false ∨
    (GoSrc.NewIndex [5, 3, 1, 10] [20, 3, 4, 12]).bind (fun ix => GoSrc.Index_At ix 20) = some [] :=
  ex_at _ _ _ _ (by decide) (by decide)
-- C16's sample: inverted, empty, and two duplicate intervals nested/overlapping with a third
example : allFound = false ∨
    (GoSrc.NewIndex [5, 3, 1, 3, 3] [2, 3, 4, 9, 9]).bind (fun ix => GoSrc.Index_At ix 3) = some [2, 3, 4] :=
  ex_at _ _ _ _ (by decide) (by decide)
example : allFound = false ∨
    (GoSrc.NewIndex [5, 3, 1, 3, 3] [2, 3, 4, 9, 9]).bind (fun ix => GoSrc.Index_At ix 8) = some [3, 4] :=
  ex_at _ _ _ _ (by decide) (by decide)
example : allFound = false ∨
    (GoSrc.NewIndex [5, 3, 1, 3, 3] [2, 3, 4, 9, 9]).bind (fun ix => GoSrc.Index_At ix (-7)) = some [] :=
  ex_at _ _ _ _ (by decide) (by decide)
-- no intervals at all, and only empty ones
example : allFound = false ∨ (GoSrc.NewIndex [] []).bind (fun ix => GoSrc.Index_At ix 0) = some [] :=
  ex_at _ _ _ _ (by decide) (by decide)
example : allFound = false ∨ (GoSrc.NewIndex [3, 7] [3, 2]).bind (fun ix => GoSrc.Index_At ix 3) = some [] :=
  ex_at _ _ _ _ (by decide) (by decide)

-- the index itself, through `go_NewIndex` and the evaluation of the model
example : allFound = false ∨ GoSrc.NewIndex [5, 3, 1, 10] [20, 3, 4, 12]
    = some [(1, [2]), (4, []), (5, [0]), (10, [0, 3]), (12, [0]), (20, [])] := by
  by_cases h : allFound = true
  · obtain ⟨a, b, c, d, e⟩ := flags h
    right
    rw [go_NewIndex a c d]
    simp [Regions.newIndex, Regions.eventsFrom, List.mergeSort, List.MergeSort.Internal.splitInTwo,
      Regions.evLe, Regions.evLess, Regions.sweep, Regions.insertNat, ofIdx]
  · left
    simpa using h

-- direct evaluation of the translated `At` (binary search) on that index, and of the small helpers
example : allFound = false ∨ (
    (List.map (GoSrc.Index_At [(1, [2]), (4, []), (5, [0]), (10, [0, 3]), (12, [0]), (20, [])])
        [0, 1, 3, 4, 5, 9, 10, 11, 12, 19, 20, 100])
      = [some [], some [2], some [2], some [], some [0], some [0], some [0, 3], some [0, 3], some [0],
         some [0], some [], some []]
    ∧ GoSrc.Index_At [] 5 = some []
    ∧ GoSrc.eventLess (3, 7, false) (1, 7, true) = some true
    ∧ GoSrc.eventLess (1, 7, true) (3, 7, false) = some false
    ∧ GoSrc.eventLess (1, 7, true) (3, 7, true) = some true
    ∧ GoSrc.eventLess (0, 8, false) (3, 7, true) = some false
    ∧ GoSrc.keys [] = some []
    ∧ GoSrc.cp [4, 1, 4] = some [4, 1, 4] ∧ GoSrc.cp [] = some []) := by decide

-- unequal lengths: the panic
example : allFound = false ∨ GoSrc.NewIndex [1, 2] [3] = none := by
  by_cases h : allFound = true
  · obtain ⟨a, b, c, d, e⟩ := flags h
    exact Or.inr (go_length_mismatch a c d _ _ (by decide))
  · left
    simpa using h

end Examples

end Bio.Props.C16Go
