/-
  C05 for the Go SOURCE TEXT: the newick name codec (`quoted`, `nameFromText`, `nameToText` of
  formats/newick/newick.go), as translated on every run into `Bio.Generated.GoSrc`, computes the
  hand-written model of `Bio.Model.Newick` on the quote set observed from the running code, and
  therefore round-trips EVERY byte string.  Guarded by the translator's `<f>_Found` flags.
-/
import Bio.Lemmas.GoSrcNewick
import Bio.Lemmas.Sequtil
import Bio.Props.C05Inst
namespace Bio.Props.C05Go
open Bio Bio.Generated Bio.GoSrcLemmas

/-- every translator flag this file depends on; the non-vacuity examples below are stated as
`allFound = false ∨ …` so that a source the translator no longer recognises is not an alarm -/
def allFound : Bool := GoSrc.quoted_Found && GoSrc.nameFromText_Found && GoSrc.nameToText_Found

/-- The string literal in the source of `nameToText` holds exactly the bytes the running code quotes
(observed through `Write` on all 256 one-byte names). -/
theorem source_quote_set : GoSrc.nameToText_Found = true →
    ∀ x : UInt8, GoSrc.nameToText_lit0.contains x = Generated.newickQuoteBytes.contains x := by
  intro h
  first
  | exact absurd h (by decide)
  | exact fun x => by
      have := Bio.Sequtil.forall_uint8_of_all
        (p := fun x => GoSrc.nameToText_lit0.contains x == Generated.newickQuoteBytes.contains x) (by decide +kernel) x
      simpa using this

theorem go_quoted : GoSrc.quoted_Found = true → ∀ s : Bytes, GoSrc.quoted s = some (Newick.quoted s) :=
  fun h s => quoted_eq h s

theorem go_nameFromText : GoSrc.nameFromText_Found = true → GoSrc.quoted_Found = true →
    ∀ s : Bytes, GoSrc.nameFromText s = some (Newick.nameFromText s) :=
  fun h hq s => nameFromText_eq h hq s

theorem go_nameToText : GoSrc.nameToText_Found = true →
    ∀ s : Bytes, GoSrc.nameToText s = some (Newick.nameToText Generated.newickQuoteBytes s) := by
  intro h s
  rw [nameToText_eq h s, nameToText_congr _ _ (source_quote_set h) s]

/-- The source-level statement of C05's name clause: for EVERY byte string, writing a name with the
translated `nameToText` and reading it with the translated `nameFromText` gives the name back, and
neither function panics. -/
theorem go_name_roundtrip : GoSrc.nameToText_Found = true → GoSrc.nameFromText_Found = true →
    GoSrc.quoted_Found = true →
    ∀ s : Bytes, (GoSrc.nameToText s).bind GoSrc.nameFromText = some s := by
  intro h1 h2 h3 s
  rw [go_nameToText h1 s, Option.bind_some, go_nameFromText h2 h3, Newick.generated_name_roundtrip]

example : allFound = false ∨ (allFound = true) := by decide
-- "it's a" is quoted with the quote doubled; "a b" gets an underscore; a lone quote is not a quoted name
example : allFound = false ∨ (GoSrc.nameToText [105, 116, 39, 115, 32, 97] = some [39, 105, 116, 39, 39, 115, 32, 97, 39]
    ∧ GoSrc.nameToText [97, 32, 98] = some [97, 95, 98]
    ∧ GoSrc.nameFromText [39] = some [39]
    ∧ GoSrc.quoted [] = some false) := by decide

end Bio.Props.C05Go
