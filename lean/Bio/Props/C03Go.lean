/-
  C03 (writer half) and C07 (failing writers) for the Go SOURCE TEXT of `(*SAM).Write` of
  formats/sam/sam.go, as translated on every run into `Bio.Generated.GoSrc.sam_Write` over the
  abstract writer `Bio.GoRt.Wr` (`room` = bytes it still accepts, `out` = bytes accepted so far; one
  `fmt.Fprintf` = one `wrWrite`; the parameter `s_TagTexts` is the value of `tagsToText(s.Tags)`,
  here the model's `Sam.tagsToText s.tags`).  For every record and every number `k` of bytes the
  destination accepts before it starts failing:

  * the translated `Write` IS the model's writer: the calls `Sam.writeCalls s` (the eleven fields
    joined by TABs, then TAB + tag for each tag text, then LF), in order, stopping at the first
    error — `runWriter k` of `Bio.Props.C07`;
  * it returns an error iff `k < len(Sam.encode s)`, the bytes accepted are the first `k` bytes of
    `Sam.encode s`, and with enough room the output is exactly `Sam.encode s`.

  Guarded by the translator's `<f>_Found` flag (see `Bio.Lemmas.GoSrc`).
-/
import Bio.Lemmas.GoSrcRegions
import Bio.Props.C03
import Bio.Props.C07
namespace Bio.Props.C03Go
open Bio Bio.GoRt Bio.Generated Bio.GoSrcLemmas

/-- every translator flag this file depends on; the non-vacuity examples below are stated as
`allFound = false ∨ …` so that a source the translator no longer recognises is not an alarm -/
def allFound : Bool := GoSrc.sam_Write_Found

/-- the translated `Write` applied to a model record (`tagsToText(s.Tags)` = `Sam.tagsToText s.tags`) -/
def goWrite (s : Sam.Sam) (w : Wr) : Option (GoErr × Wr) :=
  GoSrc.sam_Write s.qname s.flag s.rname s.pos s.mapq s.cigar s.rnext s.pnext s.tlen s.seq s.qual
    (Sam.tagsToText s.tags) w

/-- On ANY writer: the model's `Write` calls (`Sam.writeCalls`), in order, stopping at the first
error (`wrWriteAll`); never a panic. -/
theorem go_sam_write_calls : GoSrc.sam_Write_Found = true → ∀ (s : Sam.Sam) (w : Wr),
    goWrite s w = some ((wrWriteAll w (Sam.writeCalls s)).2, (wrWriteAll w (Sam.writeCalls s)).1) :=
  fun hF s w => sam_Write_eq hF s w

/-- On a fresh writer that accepts `k` bytes it is C07's `runWriter k` on the model's calls. -/
theorem go_sam_write_runWriter : GoSrc.sam_Write_Found = true → ∀ (s : Sam.Sam) (k : Nat),
    goWrite s ⟨k, []⟩
      = some (if (runWriter k (Sam.writeCalls s)).2 then GoErr.nil else GoErr.other,
          ⟨k - (runWriter k (Sam.writeCalls s)).1.length, (runWriter k (Sam.writeCalls s)).1⟩) := by
  intro hF s k
  rw [go_sam_write_calls hF, wrWriteAll_runWriter]

/-- The exact result on a writer that has already accepted `o`: the error value, the room left and
the bytes accepted. -/
theorem go_sam_write_exact : GoSrc.sam_Write_Found = true → ∀ (s : Sam.Sam) (k : Nat) (o : Bytes),
    goWrite s ⟨k, o⟩
      = some (if (Sam.encode s).length ≤ k then GoErr.nil else GoErr.other,
          ⟨k - ((Sam.encode s).take k).length, o ++ (Sam.encode s).take k⟩) := by
  intro hF s k o
  rw [go_sam_write_calls hF, wrWriteAll_take, Sam.writeCalls_flatten]

/-- C07: an error iff `k < len(text)`; the bytes accepted are the first `k` bytes of the text. -/
theorem go_sam_write_fault : GoSrc.sam_Write_Found = true → ∀ (s : Sam.Sam) (k : Nat),
    ∃ err w', goWrite s ⟨k, []⟩ = some (err, w')
      ∧ (err ≠ GoErr.nil ↔ k < (Sam.encode s).length)
      ∧ w'.out = (Sam.encode s).take k := by
  intro hF s k
  refine ⟨_, _, go_sam_write_exact hF s k [], ?_, by simp⟩
  by_cases h : (Sam.encode s).length ≤ k
  · simp only [h, if_true]; constructor
    · intro h'; exact absurd rfl h'
    · intro h'; omega
  · simp only [h, if_false]; constructor
    · intro _; omega
    · intro _ h'; cases h'

/-- With enough room the output is exactly `Sam.encode s`, and no error. -/
theorem go_sam_write_bytes : GoSrc.sam_Write_Found = true → ∀ (s : Sam.Sam) (k : Nat) (o : Bytes),
    (Sam.encode s).length ≤ k →
    goWrite s ⟨k, o⟩ = some (GoErr.nil, ⟨k - (Sam.encode s).length, o ++ Sam.encode s⟩) := by
  intro hF s k o h
  rw [go_sam_write_exact hF s k o]
  simp only [h, if_true, List.take_of_length_le h]

/-! ## Non-vacuity / concrete instances -/

example : allFound = false ∨ GoSrc.sam_Write_Found = true := by decide

/-- a small record with two tags (given out of order; `tagsToText` sorts the texts) -/
def exS : Sam.Sam :=
  { qname := [114], flag := 99, rname := [], pos := -5, mapq := 60, cigar := [42], rnext := [61],
    pnext := 0, tlen := 17, seq := [65, 67], qual := [33, 34],
    tags := [([88, 90], .Z [58]), ([78, 77], .I (-3))] }

-- "r\t99\t\t-5\t60\t*\t=\t0\t17\tAC\t!\"\tNM:i:-3\tXZ:Z::\n" (42 bytes)
example : Sam.encode exS = [114, 9, 57, 57, 9, 9, 45, 53, 9, 54, 48, 9, 42, 9, 61, 9, 48, 9, 49, 55, 9, 65, 67, 9, 33, 34,
    9, 78, 77, 58, 105, 58, 45, 51, 9, 88, 90, 58, 90, 58, 58, 10] := by decide +kernel
-- the hypothesis of `go_sam_write_bytes` is satisfiable, and so are both sides of the iff of `go_sam_write_fault`
example : (Sam.encode exS).length ≤ 50 ∧ (Sam.encode Sam.exSam).length ≤ 200 := by decide +kernel
example : 30 < (Sam.encode exS).length ∧ ¬ 42 < (Sam.encode exS).length := by decide +kernel

-- direct evaluation of the translated `Write`: room for everything (8 bytes left), after a prefix `o`;
-- room for 30 bytes: the fields call (26 bytes) fits, the first tag call "\tNM:i:-3" is cut after 4 bytes
-- and neither the second tag nor the newline is attempted; room for 3: the fields call is cut;
-- room for exactly the text; one byte less: only the final newline fails
example : allFound = false ∨ (
    goWrite exS ⟨50, [7]⟩ = some (GoErr.nil, ⟨8, 7 :: Sam.encode exS⟩)
    ∧ goWrite exS ⟨30, []⟩ = some (GoErr.other, ⟨0, (Sam.encode exS).take 30⟩)
    ∧ goWrite exS ⟨30, []⟩ = some (GoErr.other, ⟨0, [114, 9, 57, 57, 9, 9, 45, 53, 9, 54, 48, 9, 42, 9, 61, 9, 48, 9, 49, 55,
        9, 65, 67, 9, 33, 34, 9, 78, 77, 58]⟩)
    ∧ goWrite exS ⟨3, []⟩ = some (GoErr.other, ⟨0, [114, 9, 57]⟩)
    ∧ goWrite exS ⟨42, []⟩ = some (GoErr.nil, ⟨0, Sam.encode exS⟩)
    ∧ goWrite exS ⟨41, []⟩ = some (GoErr.other, ⟨0, (Sam.encode exS).dropLast⟩)
    ∧ goWrite exS ⟨0, []⟩ = some (GoErr.other, ⟨0, []⟩)) := by decide +kernel

-- C03's sample record (all five tag types, odd bytes, extreme ints) and the tag-less one
example : allFound = false ∨ (
    (goWrite Sam.exSam ⟨200, []⟩).map (fun p => (p.1, p.2.out)) = some (GoErr.nil, Sam.encode Sam.exSam)
    ∧ (goWrite Sam.exSam2 ⟨200, []⟩).map (fun p => (p.1, p.2.out)) = some (GoErr.nil, Sam.encode Sam.exSam2)
    ∧ (goWrite Sam.exSam ⟨40, []⟩).map (fun p => (p.1, p.2.out)) = some (GoErr.other, (Sam.encode Sam.exSam).take 40)) := by
  decide +kernel

end Bio.Props.C03Go
