/-
  The codec round-trip theorems of C03 / C05 / C11, instantiated with the concrete float-token
  recognisers the model driver runs against the Go code:
  `pf := FloatTok.samFloat` (SAM `f` tags), `pd := FloatTok.newickDist` (Newick distances).

  Every hypothesis about the float codec is replaced by a decidable canonicity condition on
  the tokens themselves (all defined in `Bio/Lemmas/FloatTok.lean`):
  * `Sam.WFCanon s`     : `Sam.WF` with the clause for an `F t` tag being `isCanonE t = true`
                          (`Sam.wfCanon_iff : WFCanon s ↔ WF samFloat s`);
  * `Newick.DistCanon d`: `d = none`, or `d = some t` with `isCanonG t = true`, `t ≠ "0"`,
                          `t ≠ "-0"`  (`Newick.distCanon_iff : DistCanon d ↔ DistOK newickDist d`);
  * the idempotence hypotheses `hpf` / `hpd` of C11 are proved (`hpf_samFloat`,
    `hpd_newickDist`) and no longer appear.
-/
import Bio.Lemmas.FloatTok
import Bio.Props.C03
import Bio.Props.C05
import Bio.Props.C11
namespace Bio
open FloatTok

/-! ## Example data -/

/-- Tags `XF:f:1.5e+00`, `XI:f:-Inf`, `XN:f:NaN` (plus an `i` and a `Z` tag). -/
def FloatInst.exSam : Sam.Sam :=
  { qname := [114, 49], flag := 99, rname := [99, 104, 114], pos := 7, mapq := 60,
    cigar := [42], rnext := [61], pnext := 0, tlen := -3,
    seq := [65, 67], qual := [73, 34],
    tags := [([78, 77], .I 2),
             ([88, 70], .F [49, 46, 53, 101, 43, 48, 48]),
             ([88, 73], .F [45, 73, 110, 102]),
             ([88, 78], .F [78, 97, 78]),
             ([88, 90], .Z [58, 32, 58])] }

/-- `((A:2.5,b:1e-07):+Inf,c)r;` — distances `2.5`, `1e-07`, `+Inf`. -/
def FloatInst.exTree : Newick.Tree :=
  ⟨[114], none,
    .cons [] (some [43, 73, 110, 102])
      (.cons [65] (some [50, 46, 53]) .nil
        (.cons [98] (some [49, 101, 45, 48, 55]) .nil .nil))
      (.cons [99] none .nil .nil)⟩

theorem FloatInst.exSam_canon : Sam.WFCanon FloatInst.exSam := by decide
theorem FloatInst.exTree_canon : FloatInst.exTree.AllDist Newick.DistCanon := by decide

/-- The canonicity checks are not trivially true: non-canonical spellings are rejected. -/
example : isCanonE [49, 46, 53] = false ∧ isCanonE [49, 46, 53, 101, 43, 48] = false ∧
    isCanonE [49, 53, 101, 43, 48, 49] = false ∧ isCanonE [73, 110, 102] = false ∧
    isCanonG [46, 53] = false ∧ isCanonG [49, 101, 55] = false ∧ isCanonG [] = false ∧
    isCanonG [50, 46, 53, 32] = false := by decide

example : samFloat [49, 46, 53, 101, 43, 48, 48] = some [49, 46, 53, 101, 43, 48, 48] ∧
    samFloat [78, 97, 78] = some [78, 97, 78] ∧
    samFloat [45, 73, 110, 102] = some [45, 73, 110, 102] ∧
    newickDist [50, 46, 53] = some (some [50, 46, 53]) ∧
    newickDist [49, 101, 45, 48, 55] = some (some [49, 101, 45, 48, 55]) ∧
    newickDist [43, 73, 110, 102] = some (some [43, 73, 110, 102]) ∧
    newickDist [48] = some none ∧ newickDist [45, 48] = some none ∧
    newickDist [48, 46, 48] = some (some [48, 46, 48]) := by decide

/-! ## SAM -/

theorem sam_record_roundtrip_inst (s : Sam.Sam) (h : Sam.WFCanon s) :
    Sam.parseLine samFloat (splitOn TAB (Sam.encodeLine s)) = some s :=
  Sam.record_roundtrip samFloat s ((Sam.wfCanon_iff s).1 h)

example : Sam.WFCanon FloatInst.exSam := FloatInst.exSam_canon
example : Sam.parseLine samFloat (splitOn TAB (Sam.encodeLine FloatInst.exSam))
    = some FloatInst.exSam := sam_record_roundtrip_inst _ FloatInst.exSam_canon

theorem sam_file_roundtrip_inst (hs : List Bytes) (rs : List Sam.Sam)
    (hh : ∀ h ∈ hs, Sam.hdrOK h) (hr : ∀ s ∈ rs, Sam.WFCanon s) :
    Sam.decodeHeader samFloat ((hs ++ rs.map Sam.encodeLine).map (· ++ [10])).flatten =
      hs.map (fun h => Item.ok (Sam.Entry.hdr h)) ++
        rs.map (fun s => Item.ok (Sam.Entry.sam s)) ∧
    Sam.decode samFloat ((hs ++ rs.map Sam.encodeLine).map (· ++ [10])).flatten =
      rs.map Item.ok :=
  Sam.file_roundtrip samFloat hs rs hh (fun s hm => (Sam.wfCanon_iff s).1 (hr s hm))

example : (∀ h ∈ Sam.exHs, Sam.hdrOK h) ∧
    (∀ s ∈ [FloatInst.exSam, Sam.exSam2, FloatInst.exSam], Sam.WFCanon s) := by decide

/-- C11 for SAM with `hpf` discharged. -/
theorem sam_fixed_point_inst (x : Bytes) (s : Sam.Sam)
    (hm : Item.ok s ∈ Sam.decode samFloat x) (hc : Sam.Clean s) :
    Sam.decode samFloat (Sam.encode s) = [Item.ok s] ∧
    Sam.decodeHeader samFloat (Sam.encode s) = [Item.ok (Sam.Entry.sam s)] :=
  C11_sam_fixed_point samFloat hpf_samFloat x s hm hc

/-- The same with nothing asked of the `F` tokens: for an accepted record they are canonical,
hence clean. -/
theorem sam_fixed_point_inst' (x : Bytes) (s : Sam.Sam)
    (hm : Item.ok s ∈ Sam.decode samFloat x) (hc : Sam.CleanNF s) :
    Sam.decode samFloat (Sam.encode s) = [Item.ok s] ∧
    Sam.decodeHeader samFloat (Sam.encode s) = [Item.ok (Sam.Entry.sam s)] :=
  sam_fixed_point_inst x s hm (Sam.accepted_clean_samFloat .eof x s hm hc)

/-- Non-vacuity: the example record is delivered from its own line after a header line. -/
example :
    Item.ok FloatInst.exSam ∈
      Sam.decode samFloat ([64, 72, 68, 10] ++ Sam.encode FloatInst.exSam) ∧
    Sam.Clean FloatInst.exSam ∧ Sam.CleanNF FloatInst.exSam := by
  refine ⟨?_, by decide, by decide⟩
  have := (sam_file_roundtrip_inst [[64, 72, 68]] [FloatInst.exSam] (by decide)
    (by simpa using FloatInst.exSam_canon)).2
  have e : ([64, 72, 68, 10] : Bytes) ++ Sam.encode FloatInst.exSam =
      (([[64, 72, 68]] ++ [FloatInst.exSam].map Sam.encodeLine).map (· ++ [10])).flatten := by
    simp [Sam.encode, LF]
  rw [e, this]; simp

/-! ## Newick -/

theorem newick_tree_roundtrip_inst (qs : Bytes) (h : Newick.QS_OK qs) (t : Newick.Tree)
    (hd : t.AllDist Newick.DistCanon) (rest : Bytes) :
    Newick.readTree newickDist .eof (Newick.write qs t ++ rest) = Newick.ReadRes.tree t rest :=
  Newick.tree_roundtrip qs newickDist h t (Newick.allDist_canon hd) rest

example : Newick.QS_OK Newick.qsGo ∧ FloatInst.exTree.AllDist Newick.DistCanon :=
  ⟨by decide, FloatInst.exTree_canon⟩

-- "((A:2.5,b:1e-07):+Inf,c)r;"
example : Newick.write Newick.qsGo FloatInst.exTree =
    [40, 40, 65, 58, 50, 46, 53, 44, 98, 58, 49, 101, 45, 48, 55, 41, 58, 43, 73, 110, 102, 44,
      99, 41, 114, 59] := by decide

example : Newick.readTree newickDist .eof (Newick.write Newick.qsGo FloatInst.exTree ++ [13, 10])
    = Newick.ReadRes.tree FloatInst.exTree [13, 10] :=
  newick_tree_roundtrip_inst _ (by decide) _ FloatInst.exTree_canon _

theorem newick_trees_roundtrip_inst (qs : Bytes) (h : Newick.QS_OK qs)
    (pre : Bytes) (tws : List (Newick.Tree × Bytes))
    (hpre : ∀ b ∈ pre, Newick.isWS b = true)
    (hd : ∀ p ∈ tws, p.1.AllDist Newick.DistCanon)
    (hw : ∀ p ∈ tws, ∀ b ∈ p.2, Newick.isWS b = true) :
    Newick.decode newickDist (pre ++ tws.flatMap fun p => Newick.write qs p.1 ++ p.2) =
      tws.map fun p => Item.ok p.1 :=
  Newick.trees_roundtrip qs newickDist h pre tws hpre
    (fun p hp => Newick.allDist_canon (hd p hp)) hw

example :
    let tws : List (Newick.Tree × Bytes) :=
      [(FloatInst.exTree, [13, 10]), (⟨[], none, .nil⟩, []), (FloatInst.exTree, [10, 9, 32])]
    Newick.QS_OK Newick.qsGo ∧ (∀ b ∈ ([32, 10] : Bytes), Newick.isWS b = true) ∧
    (∀ p ∈ tws, p.1.AllDist Newick.DistCanon) ∧
    (∀ p ∈ tws, ∀ b ∈ p.2, Newick.isWS b = true) := by decide

/-- C11 for Newick with `hpd` discharged. -/
theorem newick_fixed_point_inst (qs : Bytes) (hq : Newick.QS_OK qs)
    (x : Bytes) (t : Newick.Tree) (hm : Item.ok t ∈ Newick.decode newickDist x) :
    Newick.decode newickDist (Newick.write qs t) = [Item.ok t] :=
  C11_newick_fixed_point qs newickDist hq hpd_newickDist x t hm

/-- Non-vacuity: the example tree is delivered from `" \n" ++ its text ++ "\r\n"`. -/
example :
    Newick.QS_OK Newick.qsGo ∧
    Item.ok FloatInst.exTree ∈
      Newick.decode newickDist
        ([32, 10] ++ Newick.write Newick.qsGo FloatInst.exTree ++ [13, 10]) := by
  refine ⟨by decide, ?_⟩
  have := newick_trees_roundtrip_inst Newick.qsGo (by decide) [32, 10]
    [(FloatInst.exTree, [13, 10])] (by decide) (by decide) (by decide)
  simp only [List.flatMap_cons, List.flatMap_nil, List.append_nil, List.map_cons,
    List.map_nil] at this
  rw [← List.append_assoc] at this
  rw [this]; simp

/-- A distance the reader turns into "no distance" (`0`) is not a fixed point *as text*, but
the delivered tree (distance `none`) is: `"a:0;"` is read as the tree `a`, written `"a;"`. -/
example : Newick.decode newickDist [97, 58, 48, 59] = [Item.ok ⟨[97], none, .nil⟩] := by
  decide +kernel

end Bio
