/-
  C18 (early stop), and C01 / C02 (decode), for the Go SOURCE TEXT of the reader iterators:
  `(*reader).iter` of formats/fasta/iter.go and formats/fastq/iter.go, as translated on every run into
  `Bio.Generated.GoSrc.fasta_iter` / `fastq_iter` — the unbounded `for { x, err := r.read(); … }` loop
  around the translated `read`, bounded by `fuel`, returning the LOG of the `(record, error)` pairs
  handed to the consumer `yield`.  The consumer is ANY deterministic consumer, stateful ones
  included: it is asked about the whole history of items handed to it so far (the current one last).
  For every input, both endings of the source, every such consumer `h` and every
  `fuel ≥ len(input) + 1`:

    log  =  takeThroughH h [] (model decode, as (record, error) pairs)

  i.e. the consumer sees the items of `Fasta.decodeSrc` / `Fastq.fromLines`, in order, up to and
  including the first one after which it said stop, and nothing after it.  For a consumer without
  state (`lastH f`) this is `takeThrough (f declined)` of `Bio.Props.C18Readers`.  The result of
  `yield(nil, err)` is ignored in the Go code (the loop ends anyway) and an `io.EOF` is not handed
  over at all — the equation needs no side condition for that, because an error item is always the
  LAST item of the model decode, and `takeThroughH` does not depend on the verdict on the last item.
  Guarded by the translator's `<f>_Found` flags (see `Bio.Lemmas.GoSrc`).
-/
import Bio.Lemmas.GoSrcIterWrite
import Bio.Props.C18Readers
namespace Bio.Props.C18Go
open Bio Bio.GoRt Bio.Generated Bio.GoSrcLemmas

/-- every translator flag this file depends on; the non-vacuity examples below are stated as
`allFound = false ∨ …` so that a source the translator no longer recognises is not an alarm -/
def allFound : Bool :=
  GoSrc.fasta_iter_Found && GoSrc.fasta_read_Found && GoSrc.fastq_iter_Found && GoSrc.fastq_read_Found

/-! ## FASTA -/

/-- THE statement, for EVERY deterministic consumer, stateful ones included (`h` is asked about the
whole history of items handed to it, the current one last): the log is the model decode, as
`(*Fasta, error)` pairs (`faRaw`), up to and including the first item after which `h` said stop
(`takeThroughH`); hence as model items (`faItem`); and the loop ends by itself. -/
theorem go_fasta_iter_history : GoSrc.fasta_iter_Found = true → GoSrc.fasta_read_Found = true →
    ∀ (fuel : Nat) (src : Bytes) (e : Ending) (h : List (Option (Bytes × Bytes) × GoErr) → Bool),
      src.length + 1 ≤ fuel →
      GoSrc.fasta_iter fuel src e h = some (takeThroughH h [] ((Fasta.decodeSrc e src).map faRaw))
      ∧ (GoSrc.fasta_iter fuel src e h).map (·.map faItem)
          = some ((takeThroughH h [] ((Fasta.decodeSrc e src).map faRaw)).map faItem) :=
  fun hI hR fuel src e h hf => ⟨fasta_iter_raw hI hR fuel src e h hf, fasta_iter_items hI hR fuel src e h hf⟩

/-- C18 for every consumer with or without state: the log `L` is a prefix of the uninterrupted run
(raw and as model items); after every item but the last the consumer said "go on"; an item after
which it said "stop" is the last one logged — no call after it. -/
theorem go_fasta_early_stop_stateful : GoSrc.fasta_iter_Found = true → GoSrc.fasta_read_Found = true →
    ∀ (fuel : Nat) (src : Bytes) (e : Ending) (h : List (Option (Bytes × Bytes) × GoErr) → Bool),
      src.length + 1 ≤ fuel →
      ∃ L, GoSrc.fasta_iter fuel src e h = some L ∧ L <+: (Fasta.decodeSrc e src).map faRaw
        ∧ L.map faItem <+: Fasta.decodeSrc e src
        ∧ (∀ i, i + 1 < L.length → h (L.take (i + 1)) = true)
        ∧ (∀ i, i < L.length → h (L.take (i + 1)) = false → i + 1 = L.length) :=
  fun hI hR fuel src e h hf => fasta_iter_stops hI hR fuel src e h hf

/-- `takeThroughH`, spelled out; the verdict on the LAST item of a run does not matter (so it is no
loss that the Go code ignores the result of `yield(nil, err)`: an error item is always last); and
for a consumer without state (`lastH f`) it is `takeThrough`. -/
theorem go_takeThroughH_facts {α : Type} (h : List α → Bool) (acc : List α) (x : α) (xs : List α) :
    takeThroughH h acc [] = acc
    ∧ takeThroughH h acc (x :: xs) = (if h (acc ++ [x]) then takeThroughH h (acc ++ [x]) xs else acc ++ [x])
    ∧ (∀ g : List α → Bool, (∀ l, l.length < acc.length + xs.length → h l = g l) →
        takeThroughH h acc xs = takeThroughH g acc xs)
    ∧ (∀ f : α → Bool, takeThroughH (lastH f) [] xs = takeThrough (fun x => !f x) xs) :=
  ⟨rfl, rfl, fun g hg => takeThroughH_congr h g xs acc hg, fun f => takeThroughH_lastH f xs⟩

example : takeThroughH (fun l : List Nat => l.length < 2) [] [7, 7, 7, 7] = [7, 7] := by decide
example : takeThroughH (lastH fun n : Nat => n != 2) [] [1, 2, 3, 2, 5] = [1, 2] := by decide

/-- With enough fuel the loop ends by itself (and no `read` panics). -/
theorem go_fasta_iter_total : GoSrc.fasta_iter_Found = true → GoSrc.fasta_read_Found = true →
    ∀ (fuel : Nat) (src : Bytes) (e : Ending) (h : List (Option (Bytes × Bytes) × GoErr) → Bool),
      src.length + 1 ≤ fuel → (GoSrc.fasta_iter fuel src e h).isSome = true :=
  fun hI hR fuel src e h hf => fasta_iter_total hI hR fuel src e h hf

/-- The answer to `yield(nil, err)` is never looked at: consumers that agree on every history that
ends in a record get the same log (any fuel). -/
theorem go_fasta_err_verdict_ignored : GoSrc.fasta_iter_Found = true →
    ∀ (fuel : Nat) (src : Bytes) (e : Ending) (h g : List (Option (Bytes × Bytes) × GoErr) → Bool),
      (∀ l x, h (l ++ [(x, GoErr.nil)]) = g (l ++ [(x, GoErr.nil)])) →
      GoSrc.fasta_iter fuel src e h = GoSrc.fasta_iter fuel src e g :=
  fun hI fuel src e h g hg => fasta_iter_congr hI fuel src e h g hg

/-! ### Corollaries for a consumer without state: `lastH f` judges the current item by `f` -/

/-- The log is the model decode cut after the first declined item (`takeThrough`). -/
theorem go_fasta_iter_log : GoSrc.fasta_iter_Found = true → GoSrc.fasta_read_Found = true →
    ∀ (fuel : Nat) (src : Bytes) (e : Ending) (f : Option (Bytes × Bytes) × GoErr → Bool),
      src.length + 1 ≤ fuel →
      GoSrc.fasta_iter fuel src e (lastH f)
          = some ((takeThrough (fun it => !f (faRaw it)) (Fasta.decodeSrc e src)).map faRaw)
      ∧ (GoSrc.fasta_iter fuel src e (lastH f)).map (·.map faItem)
          = some (takeThrough (fun it => !f (faRaw it)) (Fasta.decodeSrc e src)) :=
  fun hI hR fuel src e f h => ⟨fasta_iter_raw_pure hI hR fuel src e f h, fasta_iter_log hI hR fuel src e f h⟩

/-- … which is what the hand-written closure model of `Bio.Props.C18Readers` logs. -/
theorem go_fasta_iter_model : GoSrc.fasta_iter_Found = true → GoSrc.fasta_read_Found = true →
    ∀ (fuel : Nat) (src : Bytes) (e : Ending) (f : Option (Bytes × Bytes) × GoErr → Bool),
      src.length + 1 ≤ fuel →
      (GoSrc.fasta_iter fuel src e (lastH f)).map (·.map faItem)
        = some (Iter.fastaIter e src fun it => f (faRaw it)) := by
  intro hI hR fuel src e f h
  rw [fasta_iter_log hI hR fuel src e f h, Iter.fastaIter_log]

/-- C01 at source level: a consumer that never stops sees the model decode. -/
theorem go_fasta_iter_all : GoSrc.fasta_iter_Found = true → GoSrc.fasta_read_Found = true →
    ∀ (fuel : Nat) (src : Bytes) (e : Ending), src.length + 1 ≤ fuel →
      (GoSrc.fasta_iter fuel src e (fun _ => true)).map (·.map faItem) = some (Fasta.decodeSrc e src) :=
  fun hI hR fuel src e h => fasta_iter_all hI hR fuel src e h

/-- C18, consumer without state: what it saw is a prefix of the uninterrupted run; every call but the
last returned `true`; so an item the consumer declined is the last one logged. -/
theorem go_fasta_early_stop : GoSrc.fasta_iter_Found = true → GoSrc.fasta_read_Found = true →
    ∀ (fuel : Nat) (src : Bytes) (e : Ending) (f : Option (Bytes × Bytes) × GoErr → Bool),
      src.length + 1 ≤ fuel →
      ∃ L, GoSrc.fasta_iter fuel src e (lastH f) = some L ∧ L.map faItem <+: Fasta.decodeSrc e src
        ∧ (∀ x ∈ L.dropLast, f x = true)
        ∧ (∀ i x, L[i]? = some x → f x = false → i + 1 = L.length) :=
  fun hI hR fuel src e f h => fasta_iter_stops_pure hI hR fuel src e f h

/-- Write → iterate with the translated closure returns the records (C01 at source level). -/
theorem go_fasta_iter_roundtrip : GoSrc.fasta_iter_Found = true → GoSrc.fasta_read_Found = true →
    ∀ (w : Nat), 0 < w → ∀ (rs : List Fasta.Fa), (∀ r ∈ rs, Fasta.WF r) →
      (GoSrc.fasta_iter ((Fasta.encodeAll w rs).length + 1) (Fasta.encodeAll w rs) .eof (fun _ => true)).map
        (·.map faItem) = some (rs.map Item.ok) := by
  intro hI hR w hw rs h
  rw [fasta_iter_all hI hR _ _ _ (Nat.le_refl _)]
  exact congrArg some (Fasta.roundtrip w hw rs h)

example : allFound = false ∨ (GoSrc.fasta_iter_Found = true ∧ GoSrc.fasta_read_Found = true) := by decide
example : ([62, 97, 98, 10, 65, 67, 10, 62, 99, 10, 65] : Bytes).length + 1 ≤ 12 := by decide
example : (0 : Nat) < 3 ∧ ∀ r ∈ ([⟨[115, 49], [65, 67, 71, 84, 65, 67, 71]⟩, ⟨[], [84]⟩] : List Fasta.Fa),
    Fasta.WF r := by decide
-- A genuinely STATEFUL consumer: "stop at the second item whatever it is" (`l.length < 2`), on
-- ">a\nA\n>a\nA\n>a\nA" — three IDENTICAL records: exactly two items are handed over.  No consumer
-- without state can do that: it stops at the first record or (all records being equal) at none.
set_option synthInstance.maxSize 1024 in
example : allFound = false ∨ (
    GoSrc.fasta_iter 20 [62, 97, 10, 65, 10, 62, 97, 10, 65, 10, 62, 97, 10, 65] .eof (fun l => l.length < 2)
      = some [(some ([97], [65]), GoErr.nil), (some ([97], [65]), GoErr.nil)]
    ∧ (∀ b : Bool,
        GoSrc.fasta_iter 20 [62, 97, 10, 65, 10, 62, 97, 10, 65, 10, 62, 97, 10, 65] .eof
            (lastH fun x => if x = (some ([97], [65]), GoErr.nil) then b else true)
          = if b then some [(some ([97], [65]), GoErr.nil), (some ([97], [65]), GoErr.nil),
                            (some ([97], [65]), GoErr.nil)]
            else some [(some ([97], [65]), GoErr.nil)])) := by decide
-- ">ab\nAC\n>c\nA": a consumer that declines the first record is handed exactly one item;
-- one that accepts everything sees both records, and under `.fail` the last item is an error whose
-- verdict does not matter; out of fuel is `none`
set_option synthInstance.maxSize 1024 in
example : allFound = false ∨ (
    GoSrc.fasta_iter 12 [62, 97, 98, 10, 65, 67, 10, 62, 99, 10, 65] .eof (fun _ => false)
      = some [(some ([97, 98], [65, 67]), GoErr.nil)]
    ∧ GoSrc.fasta_iter 12 [62, 97, 98, 10, 65, 67, 10, 62, 99, 10, 65] .eof (fun _ => true)
      = some [(some ([97, 98], [65, 67]), GoErr.nil), (some ([99], [65]), GoErr.nil)]) := by decide
set_option synthInstance.maxSize 1024 in
example : allFound = false ∨ (
    GoSrc.fasta_iter 12 [62, 97, 98, 10, 65, 67, 10, 62, 99, 10, 65] .fail (fun _ => true)
      = some [(some ([97, 98], [65, 67]), GoErr.nil), (none, GoErr.other)]
    ∧ GoSrc.fasta_iter 12 [62, 97, 98, 10, 65, 67, 10, 62, 99, 10, 65] .fail (lastH fun x => x.2 == GoErr.nil)
      = some [(some ([97, 98], [65, 67]), GoErr.nil), (none, GoErr.other)]
    ∧ GoSrc.fasta_iter 2 [62, 97, 98, 10, 65, 67, 10, 62, 99, 10, 65] .eof (fun _ => true) = none) := by decide
-- a consumer that stops at the record named "c"
set_option synthInstance.maxSize 1024 in
example : allFound = false ∨ (
    (GoSrc.fasta_iter 20 [62, 97, 10, 65, 10, 62, 99, 10, 67, 10, 62, 100, 10, 71] .eof
        (lastH fun x => x.1.map (·.1) != some [99])).map (·.map faItem)
      = some [.ok ⟨[97], [65]⟩, .ok ⟨[99], [67]⟩]) := by decide

/-! ## FASTQ -/

/-- THE statement for every consumer, stateful ones included. -/
theorem go_fastq_iter_history : GoSrc.fastq_iter_Found = true → GoSrc.fastq_read_Found = true →
    ∀ (fuel : Nat) (ls : List Bytes) (e : Ending) (h : List (Option (Bytes × Bytes × Bytes) × GoErr) → Bool),
      ls.length + 1 ≤ fuel →
      GoSrc.fastq_iter fuel ls e h = some (takeThroughH h [] ((Fastq.fromLines e ls).map fqRaw))
      ∧ (GoSrc.fastq_iter fuel ls e h).map (·.map fqItem)
          = some ((takeThroughH h [] ((Fastq.fromLines e ls).map fqRaw)).map fqItem) :=
  fun hI hR fuel ls e h hf => ⟨fastq_iter_raw hI hR fuel ls e h hf, fastq_iter_items hI hR fuel ls e h hf⟩

/-- C18 for the FASTQ closure, every consumer with or without state. -/
theorem go_fastq_early_stop_stateful : GoSrc.fastq_iter_Found = true → GoSrc.fastq_read_Found = true →
    ∀ (fuel : Nat) (ls : List Bytes) (e : Ending) (h : List (Option (Bytes × Bytes × Bytes) × GoErr) → Bool),
      ls.length + 1 ≤ fuel →
      ∃ L, GoSrc.fastq_iter fuel ls e h = some L ∧ L <+: (Fastq.fromLines e ls).map fqRaw
        ∧ L.map fqItem <+: Fastq.fromLines e ls
        ∧ (∀ i, i + 1 < L.length → h (L.take (i + 1)) = true)
        ∧ (∀ i, i < L.length → h (L.take (i + 1)) = false → i + 1 = L.length) :=
  fun hI hR fuel ls e h hf => fastq_iter_stops hI hR fuel ls e h hf

theorem go_fastq_iter_total : GoSrc.fastq_iter_Found = true → GoSrc.fastq_read_Found = true →
    ∀ (fuel : Nat) (ls : List Bytes) (e : Ending) (h : List (Option (Bytes × Bytes × Bytes) × GoErr) → Bool),
      ls.length + 1 ≤ fuel → (GoSrc.fastq_iter fuel ls e h).isSome = true :=
  fun hI hR fuel ls e h hf => fastq_iter_total hI hR fuel ls e h hf

theorem go_fastq_err_verdict_ignored : GoSrc.fastq_iter_Found = true →
    ∀ (fuel : Nat) (ls : List Bytes) (e : Ending) (h g : List (Option (Bytes × Bytes × Bytes) × GoErr) → Bool),
      (∀ l x, h (l ++ [(x, GoErr.nil)]) = g (l ++ [(x, GoErr.nil)])) →
      GoSrc.fastq_iter fuel ls e h = GoSrc.fastq_iter fuel ls e g :=
  fun hI fuel ls e h g hg => fastq_iter_congr hI fuel ls e h g hg

/-! ### Corollaries for a consumer without state -/

theorem go_fastq_iter_log : GoSrc.fastq_iter_Found = true → GoSrc.fastq_read_Found = true →
    ∀ (fuel : Nat) (ls : List Bytes) (e : Ending) (f : Option (Bytes × Bytes × Bytes) × GoErr → Bool),
      ls.length + 1 ≤ fuel →
      GoSrc.fastq_iter fuel ls e (lastH f)
          = some ((takeThrough (fun it => !f (fqRaw it)) (Fastq.fromLines e ls)).map fqRaw)
      ∧ (GoSrc.fastq_iter fuel ls e (lastH f)).map (·.map fqItem)
          = some (takeThrough (fun it => !f (fqRaw it)) (Fastq.fromLines e ls)) :=
  fun hI hR fuel ls e f h => ⟨fastq_iter_raw_pure hI hR fuel ls e f h, fastq_iter_log hI hR fuel ls e f h⟩

/-- On the `bufio.ScanLines` tokens of an input: the model decoder, and the hand-written closure
model of `Bio.Props.C18Readers`. -/
theorem go_fastq_iter_model : GoSrc.fastq_iter_Found = true → GoSrc.fastq_read_Found = true →
    ∀ (fuel : Nat) (x : Bytes) (e : Ending) (f : Option (Bytes × Bytes × Bytes) × GoErr → Bool),
      (scanLines x).length + 1 ≤ fuel →
      (GoSrc.fastq_iter fuel (scanLines x) e (lastH f)).map (·.map fqItem)
          = some (takeThrough (fun it => !f (fqRaw it)) (Fastq.decodeSrc e x))
      ∧ (GoSrc.fastq_iter fuel (scanLines x) e (lastH f)).map (·.map fqItem)
          = some (Iter.fastqIter e x fun it => f (fqRaw it)) := by
  intro hI hR fuel x e f h
  rw [fastq_iter_log hI hR fuel _ e f h, Iter.fastqIter_log]
  exact ⟨rfl, rfl⟩

/-- C02 at source level: a consumer that never stops sees the model's records. -/
theorem go_fastq_iter_all : GoSrc.fastq_iter_Found = true → GoSrc.fastq_read_Found = true →
    ∀ (fuel : Nat) (ls : List Bytes) (e : Ending), ls.length + 1 ≤ fuel →
      (GoSrc.fastq_iter fuel ls e (fun _ => true)).map (·.map fqItem) = some (Fastq.fromLines e ls) :=
  fun hI hR fuel ls e h => fastq_iter_all hI hR fuel ls e h

/-- C18 for the FASTQ closure, consumer without state. -/
theorem go_fastq_early_stop : GoSrc.fastq_iter_Found = true → GoSrc.fastq_read_Found = true →
    ∀ (fuel : Nat) (ls : List Bytes) (e : Ending) (f : Option (Bytes × Bytes × Bytes) × GoErr → Bool),
      ls.length + 1 ≤ fuel →
      ∃ L, GoSrc.fastq_iter fuel ls e (lastH f) = some L ∧ L.map fqItem <+: Fastq.fromLines e ls
        ∧ (∀ x ∈ L.dropLast, f x = true)
        ∧ (∀ i x, L[i]? = some x → f x = false → i + 1 = L.length) :=
  fun hI hR fuel ls e f h => fastq_iter_stops_pure hI hR fuel ls e f h

/-- Write → iterate with the translated closure returns the records (C02 at source level). -/
theorem go_fastq_iter_roundtrip : GoSrc.fastq_iter_Found = true → GoSrc.fastq_read_Found = true →
    ∀ (rs : List Fastq.Fq), (∀ r ∈ rs, Fastq.WF r) →
      (GoSrc.fastq_iter ((scanLines (Fastq.encodeAll rs)).length + 1) (scanLines (Fastq.encodeAll rs)) .eof
        (fun _ => true)).map (·.map fqItem) = some (rs.map Item.ok) := by
  intro hI hR rs h
  rw [fastq_iter_all hI hR _ _ _ (Nat.le_refl _)]
  exact congrArg some (Fastq.roundtrip rs h)

example : allFound = false ∨ (GoSrc.fastq_iter_Found = true ∧ GoSrc.fastq_read_Found = true) := by decide
example : ([[64, 114], [65, 67], [43], [73, 73], [64], [], [43, 64], []] : List Bytes).length + 1 ≤ 9 := by decide
example : ∀ r ∈ ([⟨[114, 32, 49], [65, 67, 71, 84], [43, 64, 73, 73]⟩, ⟨[], [], []⟩] : List Fastq.Fq),
    Fastq.WF r := by decide
-- the stateful consumer "stop at the second item" on three IDENTICAL records "@r","A","+","I"
set_option synthInstance.maxSize 1024 in
example : allFound = false ∨ (
    GoSrc.fastq_iter 13 [[64, 114], [65], [43], [73], [64, 114], [65], [43], [73], [64, 114], [65], [43], [73]] .eof
        (fun l => l.length < 2)
      = some [(some ([114], [65], [73]), GoErr.nil), (some ([114], [65], [73]), GoErr.nil)]) := by decide
-- "@r","AC","+","II","@","","+@","": declining the first record gives one item; a failing scanner
-- adds an error item after the two records; a bad '+' line is an error item and the end
set_option synthInstance.maxSize 1024 in
example : allFound = false ∨ (
    GoSrc.fastq_iter 9 [[64, 114], [65, 67], [43], [73, 73], [64], [], [43, 64], []] .eof (fun _ => false)
      = some [(some ([114], [65, 67], [73, 73]), GoErr.nil)]
    ∧ GoSrc.fastq_iter 9 [[64, 114], [65, 67], [43], [73, 73], [64], [], [43, 64], []] .fail (fun _ => true)
      = some [(some ([114], [65, 67], [73, 73]), GoErr.nil), (some ([], [], []), GoErr.nil), (none, GoErr.other)]
    ∧ GoSrc.fastq_iter 9 [[64, 114], [65, 67], [45], [73, 73]] .eof (fun _ => true) = some [(none, GoErr.other)]
    ∧ GoSrc.fastq_iter 1 [[64, 114], [65, 67], [43], [73, 73]] .eof (fun _ => true) = none) := by decide

end Bio.Props.C18Go
