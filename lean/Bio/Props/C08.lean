/-
  C08 — Global and Local return valid alignments that score what they claim.

  All theorems are about the model `Bio/Model/Align.lean` (single-state
  Needleman–Wunsch / Smith–Waterman with the gap-open score charged from the
  neighbour's stored step) and hold for ALL byte strings `a b` and ALL integer
  matrices `m` (asymmetric, any sign, any gap-open), except where a hypothesis
  is stated.  Helper lemmas are in `Bio/Lemmas/Align.lean`.
-/
import Bio.Lemmas.Align
namespace Bio.Align

/-! ## 1. Global -/

/-- The steps returned by Global, re-scored with the documented scoring from the
starts of `a` and `b`, consume exactly all of `a` and all of `b` (both
remainders are `[]`) and score exactly the returned score. -/
theorem global_valid (m : Mat) (a b : Bytes) :
    rescore m .none a b (globalT m a b).1 = some ((globalT m a b).2, [], []) := by
  have := (global_inv m a b (a.length + b.length + 1) a.length b.length (Nat.le_refl _)
    (Nat.le_refl _) (by omega)).1
  simpa [globalT] using this

/-- Counting form of "consumes exactly": no `.none` step is returned, matches
plus deletions number `|a|`, matches plus insertions number `|b|`. -/
theorem global_consumes (m : Mat) (a b : Bytes) :
    .none ∉ (globalT m a b).1 ∧
    a.length = (globalT m a b).1.count .mch + (globalT m a b).1.count .del ∧
    b.length = (globalT m a b).1.count .mch + (globalT m a b).1.count .ins := by
  have := rescore_consumes m _ _ _ _ _ _ _ (global_valid m a b)
  simpa using this

/-- The invariant behind `global_valid`, for every cell: the traceback path from
`(i,j)` re-scores, on the prefixes, to the cell's score, and its last step is the
cell's stored step (so charging gap-open from the stored step is the documented
"once per run" rule). -/
theorem global_cell_invariant (m : Mat) (a b : Bytes) (i j : Nat) (hi : i ≤ a.length)
    (hj : j ≤ b.length) :
    rescore m .none (a.take i) (b.take j)
        (traceG (table m false a b) (a.length + b.length + 1) i j).reverse =
      some ((cellAt (table m false a b) i j).score, [], []) ∧
    lastStep .none (traceG (table m false a b) (a.length + b.length + 1) i j).reverse =
      (cellAt (table m false a b) i j).step :=
  global_inv m a b _ i j hi hj (by omega)

/-- Stored steps of the global table: never `.none` off the origin, and each
points at a predecessor inside the table. -/
theorem global_steps_in_table (m : Mat) (a b : Bytes) (i j : Nat) (hi : i ≤ a.length)
    (hj : j ≤ b.length) (hij : ¬ (i = 0 ∧ j = 0)) :
    ((cellAt (table m false a b) i j).step = .mch ∧ 1 ≤ i ∧ 1 ≤ j) ∨
    ((cellAt (table m false a b) i j).step = .del ∧ 1 ≤ i) ∨
    ((cellAt (table m false a b) i j).step = .ins ∧ 1 ≤ j) :=
  global_step_shape m a b i j hi hj hij

/-! ## 2. Local -/

/-- The full C08 statement for Local (the hypothesis `gapScoresNonPos m a b` is
`m GAP GAP ≤ 0 ∧ (∀ x ∈ a, m x GAP ≤ 0) ∧ (∀ y ∈ b, m GAP y ≤ 0)`). -/
def C08_local_valid_full : Prop :=
  ∀ (m : Mat) (a b : Bytes), gapScoresNonPos m a b →
    ((localT m a b).1 = [] ∧ (localT m a b).2.2.2 = 0) ∨
    (0 ≤ (localT m a b).2.1 ∧ 0 ≤ (localT m a b).2.2.1 ∧ 0 < (localT m a b).2.2.2 ∧
      ∃ ra rb, rescore m .none (a.drop (localT m a b).2.1.toNat)
        (b.drop (localT m a b).2.2.1.toNat) (localT m a b).1 =
          some ((localT m a b).2.2.2, ra, rb))

/-- Local, under non-positive gap scores: either no steps and score 0, or
non-negative start offsets, a positive score, and the returned steps — applied
from the returned offsets — stay inside `a` and `b` and score exactly the
returned score.  True as stated: a first step that is a gap can never occur,
because a gap step out of a zero cell scores ≤ 0 and the walk only visits
positive cells (see `local_first_step_match`). -/
theorem local_valid (m : Mat) (a b : Bytes) (hg : gapScoresNonPos m a b) :
    ((localT m a b).1 = [] ∧ (localT m a b).2.2.2 = 0) ∨
    (0 ≤ (localT m a b).2.1 ∧ 0 ≤ (localT m a b).2.2.1 ∧ 0 < (localT m a b).2.2.2 ∧
      ∃ ra rb, rescore m .none (a.drop (localT m a b).2.1.toNat)
        (b.drop (localT m a b).2.2.1.toNat) (localT m a b).1 =
          some ((localT m a b).2.2.2, ra, rb)) := by
  rcases localT_cases m a b hg with h | ⟨p, li, lj, mi, mj, s, h, hs, _, _, _, _, _, hr, _⟩
  · left; rw [h]; exact ⟨rfl, rfl⟩
  · right
    rw [h]
    refine ⟨by simp, by simp, hs, a.drop mi, b.drop mj, ?_⟩
    simpa using hr

theorem C08_local_valid_full_holds : C08_local_valid_full := local_valid

/-- Sharper form: the offsets are naturals `li < mi ≤ |a|`, `lj < mj ≤ |b|`
where `(mi, mj)` is the maximal cell, the score is that cell's score, the
remainders are exactly `a.drop mi`, `b.drop mj`, and the first step is a match. -/
theorem local_valid_explicit (m : Mat) (a b : Bytes) (hg : gapScoresNonPos m a b) :
    localT m a b = ([], -1, -1, 0) ∨
    ∃ (p : List Step) (li lj mi mj : Nat) (s : Int),
      localT m a b = (p, (li : Int), (lj : Int), s) ∧ 0 < s ∧
      li < mi ∧ mi ≤ a.length ∧ lj < mj ∧ mj ≤ b.length ∧
      s = (cellAt (table m true a b) mi mj).score ∧
      rescore m .none (a.drop li) (b.drop lj) p = some (s, a.drop mi, b.drop mj) ∧
      p.head? = some .mch :=
  localT_cases m a b hg

/-- Under non-positive gap scores a non-empty local alignment starts with a match. -/
theorem local_first_step_match (m : Mat) (a b : Bytes) (hg : gapScoresNonPos m a b)
    (hne : (localT m a b).1 ≠ []) : (localT m a b).1.head? = some .mch := by
  rcases localT_cases m a b hg with h | ⟨p, li, lj, mi, mj, s, h, _, _, _, _, _, _, _, hh⟩
  · rw [h] at hne; simp at hne
  · rw [h]; exact hh

/-- The matrix of the examples: match 2, mismatch −1, per-character gap −1,
gap-open −3; byte 255 is the gap. -/
def exM : Mat := fun x y =>
  if x == GAP && y == GAP then -3 else if x == GAP || y == GAP then -1
  else if x == y then 2 else -1

/-- The hypothesis cannot be dropped: with a positive per-character gap score
Local returns a negative offset (`Local("a", "")` = `([del], 0, -1, 1)`). -/
theorem local_needs_nonpos_gaps :
    ∃ (m : Mat) (a b : Bytes),
      ¬ (((localT m a b).1 = [] ∧ (localT m a b).2.2.2 = 0) ∨
        (0 ≤ (localT m a b).2.1 ∧ 0 ≤ (localT m a b).2.2.1 ∧ 0 < (localT m a b).2.2.2 ∧
          ∃ ra rb, rescore m .none (a.drop (localT m a b).2.1.toNat)
            (b.drop (localT m a b).2.2.1.toNat) (localT m a b).1 =
              some ((localT m a b).2.2.2, ra, rb))) := by
  refine ⟨fun x y => if y == GAP && x != GAP then 1 else 0, [97], [], ?_⟩
  have h : localT (fun x y => if y == GAP && x != GAP then 1 else 0) [97] [] =
      ([.del], 0, -1, 1) := by decide
  rw [h]
  rintro (⟨h1, _⟩ | ⟨_, h2, _⟩)
  · exact absurd h1 (by decide)
  · exact absurd h2 (by decide)

/-! ## 3. Local: the empty answer, sign and maximality of the score -/

theorem local_empty (m : Mat) (a b : Bytes) :
    (argmax (table m true a b)).2.2 = 0 → localT m a b = ([], -1, -1, 0) :=
  localT_of_zero m a b

/-- "No positive cell" ⇔ the maximum is 0 ⇔ Local returns the empty answer. -/
theorem local_no_positive_cell_iff (m : Mat) (a b : Bytes) :
    (∀ i j, i ≤ a.length → j ≤ b.length → (cellAt (table m true a b) i j).score ≤ 0) ↔
      (argmax (table m true a b)).2.2 = 0 :=
  (argmax_local_zero_iff m a b).symm

theorem local_empty_iff (m : Mat) (a b : Bytes) :
    localT m a b = ([], -1, -1, 0) ↔
      ∀ i j, i ≤ a.length → j ≤ b.length → (cellAt (table m true a b) i j).score ≤ 0 := by
  rw [localT_eq_empty_iff, argmax_local_zero_iff]

theorem local_score_nonneg (m : Mat) (a b : Bytes) : 0 ≤ (localT m a b).2.2.2 := by
  rw [localT_score]; exact argmax_local_nonneg m a b

/-- The returned local score is the maximum over the table. -/
theorem local_score_is_max (m : Mat) (a b : Bytes) :
    (∀ i j, i ≤ a.length → j ≤ b.length →
      (cellAt (table m true a b) i j).score ≤ (localT m a b).2.2.2) ∧
    ∃ i j, i ≤ a.length ∧ j ≤ b.length ∧
      (localT m a b).2.2.2 = (cellAt (table m true a b) i j).score := by
  rw [localT_score]
  refine ⟨fun i j hi hj => argmax_table_max m true a b i j hi hj, _, _,
    (argmax_table_in_range m true a b).1, (argmax_table_in_range m true a b).2,
    (argmax_spec _).1⟩

/-! ## 4. No panic on total-enough matrices -/

theorem total_no_panic (pm : PMat) (a b : Bytes)
    (h : ∀ p ∈ needed a b, (pm p.1 p.2).isSome) :
    (globalP pm a b).isSome ∧ (localP pm a b).isSome := by
  rw [globalP_isSome pm a b h, localP_isSome pm a b h]
  exact ⟨rfl, rfl⟩

/-- What `needed` contains, exactly. -/
theorem needed_spec (a b : Bytes) (p : UInt8 × UInt8) :
    p ∈ needed a b ↔
      (p = (GAP, GAP) ∧ (a ≠ [] ∨ b ≠ [])) ∨ (∃ x ∈ a, p = (x, GAP)) ∨ (∃ y ∈ b, p = (GAP, y)) ∨
      (∃ x ∈ a, ∃ y ∈ b, p = (x, y)) :=
  mem_needed a b p

/-- Conversely a missing needed entry is a panic in the model. -/
theorem panic_of_missing (pm : PMat) (a b : Bytes) (p : UInt8 × UInt8) (hp : p ∈ needed a b)
    (hm : pm p.1 p.2 = none) : globalP pm a b = none ∧ localP pm a b = none := by
  have : ((needed a b).all fun p => (pm p.1 p.2).isSome) = false := by
    rw [List.all_eq_false]
    exact ⟨p, hp, by simp [hm]⟩
  simp [globalP, localP, this]

/-- The DP reads no entry outside `needed`: with all needed entries present the
result is that of ANY total matrix extending the partial one (so the filler
value used by `total` is irrelevant). -/
theorem result_independent_of_unneeded (pm : PMat) (m : Mat) (a b : Bytes)
    (h : ∀ p ∈ needed a b, pm p.1 p.2 = some (m p.1 p.2)) :
    globalP pm a b = some (globalT m a b) ∧ localP pm a b = some (localT m a b) := by
  have hs : ∀ p ∈ needed a b, (pm p.1 p.2).isSome := fun p hp => by rw [h p hp]; rfl
  have he : ∀ p ∈ needed a b, total pm p.1 p.2 = m p.1 p.2 := fun p hp => by
    simp [total, h p hp]
  rw [globalP_isSome pm a b hs, localP_isSome pm a b hs, globalT_congr _ m a b he,
    localT_congr _ m a b he]
  exact ⟨rfl, rfl⟩

/-! ## Non-vacuity: concrete instances -/

/-- "ab" against "aab" with `exM`. -/
example : globalT exM [97, 98] [97, 97, 98] = ([.ins, .mch, .mch], 0) := by decide

example : rescore exM .none [97, 98] [97, 97, 98] [.ins, .mch, .mch] = some (0, [], []) := by
  decide

/-- A run of two deletions: gap-open (−3) is charged once, 2 − 1 − 3 − 1 + 2 = −1. -/
example : globalT exM [97, 98, 99, 100] [97, 100] = ([.mch, .del, .del, .mch], -1) := by
  decide +kernel

example : rescore exM .none [97, 98, 99, 100] [97, 100] [.mch, .del, .del, .mch] =
    some (-1, [], []) := by decide

example : localT exM [97, 98] [97, 97, 98] = ([.mch, .mch], 0, 1, 4) := by decide

example : rescore exM .none ([97, 98] : Bytes) (([97, 97, 98] : Bytes).drop 1) [.mch, .mch] =
    some (4, [], []) := by decide

/-- `gapScoresNonPos` is satisfiable by a matrix with non-zero gap-open. -/
example : gapScoresNonPos exM [97, 98] [97, 97, 98] := by
  refine ⟨by decide, ?_, ?_⟩ <;> decide

/-- A local alignment containing a gap (so gap-open is exercised in the local
walk): match 3, gap −1, open −1. -/
def exM2 : Mat := fun x y =>
  if x == GAP && y == GAP then -1 else if x == GAP || y == GAP then -1
  else if x == y then 3 else -3

example : localT exM2 [97, 98, 99, 100] [120, 97, 98, 100] =
    ([.mch, .mch, .del, .mch], 0, 1, 7) := by decide +kernel

example : gapScoresNonPos exM2 [97, 98, 99, 100] [120, 97, 98, 100] := by
  refine ⟨by decide, ?_, ?_⟩ <;> decide

/-- An empty local answer exists (all mismatches). -/
example : (argmax (table exM true [97] [98])).2.2 = 0 ∧ localT exM [97] [98] = ([], -1, -1, 0) := by
  decide

/-- `total_no_panic`'s hypothesis is satisfiable by a genuinely partial matrix,
and a missing entry does panic. -/
def exPM : PMat := lookup
  [((97, 97), 2), ((97, 98), -1), ((98, 97), -1), ((98, 98), 2),
   ((97, GAP), -1), ((98, GAP), -1), ((GAP, 97), -1), ((GAP, 98), -1), ((GAP, GAP), -3)]

example : ∀ p ∈ needed [97, 98] [97, 97, 98], (exPM p.1 p.2).isSome := by decide

example : globalP exPM [97, 98] [97, 97, 98] = some ([.ins, .mch, .mch], 0) := by decide

example : localP exPM [97, 98] [97, 97, 98] = some ([.mch, .mch], 0, 1, 4) := by decide

/-- Hypothesis of `result_independent_of_unneeded`: `exPM` agrees with the total `exM`. -/
example : ∀ p ∈ needed [97, 98] [97, 97, 98], exPM p.1 p.2 = some (exM p.1 p.2) := by decide

example : (99, GAP) ∈ needed [97, 99] [97] ∧ exPM 99 GAP = none ∧
    globalP exPM [97, 99] [97] = none := by decide

end Bio.Align
