/-
  C13 for the tables regenerated from /repo (Ntoi, DNAFrom2Bit expansion, Iton samples).
-/
import Bio.Props.C13
import Bio.Generated.Tables
namespace Bio.Sequtil

theorem generated_ntoiTable_ok : ntoiTableOK Generated.ntoiTable = true := by decide +kernel
theorem generated_from2bitTable_ok : from2bitTableOK Generated.from2bitTable = true := by decide +kernel

/-- `Iton` as observed on -3..6 agrees with the model's `iton`. -/
theorem generated_iton_ok : Generated.itonSamples.all (fun p => iton p.1 == p.2) = true := by decide +kernel

theorem generated_to2bit_from2bit (p : Bytes) :
    to2bit Generated.ntoiTable [] (from2bit Generated.from2bitTable [] p) = some p :=
  to2bit_from2bit generated_ntoiTable_ok generated_from2bitTable_ok p

theorem generated_to2bit_spec (dst s : Bytes) (hs : ∀ b ∈ s, isDNA b = true) :
    to2bit Generated.ntoiTable dst s = some (dst ++ pack s) :=
  to2bit_spec generated_ntoiTable_ok dst s hs

example : (∀ b ∈ ([97, 67, 103, 84] : Bytes), isDNA b = true) := by decide

end Bio.Sequtil
