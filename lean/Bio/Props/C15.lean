/-
  C15 — The trie behaves as a set of sequences under any history of updates.

  "After any sequence of Add and Delete calls the trie is observationally the
  set M of maximal sequences defined by: Add(b) inserts a non-empty b unless b
  is already a prefix of a member, absorbing members that are proper prefixes
  of b (adding the empty sequence changes nothing); Delete(b) (b non-empty)
  removes every member that has prefix b and returns whether there was one.
  Has(x) is true exactly when x is empty or a prefix of a member, ForEach
  reports every member exactly once and nothing else, and a trie rebuilt from
  its JSON form is indistinguishable from the original."

  The abstraction `abs t` (leaf paths, root excluded), the invariant
  `NoDupKeys` (a Go map has distinct keys) and all helper lemmas live in
  `Bio/Lemmas/Trie.lean`.
-/
import Bio.Lemmas.Trie
namespace Bio.Trie

/-! ## The specification: sets of byte strings -/

/-- A set of sequences, as a predicate (no order, no multiplicity). -/
abbrev SSet := Bytes → Prop

def SSet.empty : SSet := fun _ => False

/-- The set of sequences a trie stands for. -/
def absSet (t : T) : SSet := fun y => y ∈ abs t

/-- Members are non-empty and pairwise prefix-incomparable ("maximal sequences"). -/
def IsAntichain (M : SSet) : Prop :=
  (∀ m, M m → m ≠ []) ∧ ∀ m1 m2, M m1 → M m2 → m1 <+: m2 → m1 = m2

/-- `b` is a prefix of a member. -/
def prefixOfMember (b : Bytes) (M : SSet) : Prop := ∃ m, M m ∧ b <+: m

/-- `Has(x)`: x is empty or a prefix of a member. -/
def specHas (x : Bytes) (M : SSet) : Prop := x = [] ∨ prefixOfMember x M

/-- `Add(b)`: nothing changes when b is empty or already a prefix of a member;
otherwise b is inserted and the members that are proper prefixes of b go. -/
def specAdd (b : Bytes) (M : SSet) : SSet := fun y =>
  ((b = [] ∨ prefixOfMember b M) ∧ M y) ∨
  (¬ (b = [] ∨ prefixOfMember b M) ∧ (y = b ∨ (M y ∧ ¬ (y <+: b ∧ y ≠ b))))

/-- `Delete(b)`, b non-empty: every member that has prefix b is removed. -/
def specDel (b : Bytes) (M : SSet) : SSet := fun y => M y ∧ ¬ b <+: y

/-- What `Delete(b)` returns: whether there was a member with prefix b. -/
def specDelFlag (b : Bytes) (M : SSet) : Prop := prefixOfMember b M

/-! ## 1. The map invariant is preserved -/

theorem C15_inv_new : NoDupKeys .nil := noDupKeys_nil

theorem C15_inv_add (b : Bytes) (t : T) (h : NoDupKeys t) : NoDupKeys (add b t) :=
  noDupKeys_add b t h

theorem C15_inv_del (b : Bytes) (t t' : T) (hd : del b t = some t') (h : NoDupKeys t) :
    NoDupKeys t' :=
  noDupKeys_del b t t' hd h

example : NoDupKeys (add [97, 98] (add [98] (add [97, 99] .nil))) := by decide
example : del [97, 98] (add [97, 98] (add [98] (add [97, 99] .nil))) =
    some (.cons 97 (.cons 99 .nil .nil) (.cons 98 .nil .nil)) := by decide

/-! ## 2. Has -/

theorem C15_has_spec (t : T) (x : Bytes) (h : NoDupKeys t) :
    has x t = true ↔ specHas x (absSet t) :=
  has_iff_abs t x h

/-- The same, spelled out. -/
theorem C15_has_spec' (t : T) (x : Bytes) (h : NoDupKeys t) :
    has x t = true ↔ x = [] ∨ ∃ m ∈ abs t, x <+: m :=
  has_iff_abs t x h

example : has [97] (add [97, 98] (add [98] .nil)) = true ∧
    has [99] (add [97, 98] (add [98] .nil)) = false := by decide

/-! ## 3. Add -/

theorem C15_add_empty (t : T) : add [] t = t := add_nil_left t

/-- Spelled out: if b is empty or already a prefix of a member, nothing
changes (the trie is even structurally the same) … -/
theorem C15_add_present (b : Bytes) (t : T) (h : NoDupKeys t)
    (hb : b = [] ∨ ∃ m ∈ abs t, b <+: m) : add b t = t :=
  add_of_has b t ((has_iff_abs t b h).2 hb)

/-- … otherwise the members are b and the old members that are not proper
prefixes of b. -/
theorem C15_add_absent (b : Bytes) (t : T) (h : NoDupKeys t)
    (hb : ¬ (b = [] ∨ ∃ m ∈ abs t, b <+: m)) (y : Bytes) :
    y ∈ abs (add b t) ↔ y = b ∨ (y ∈ abs t ∧ ¬ (y <+: b ∧ y ≠ b)) := by
  have hh : has b t = false := by
    cases hx : has b t with
    | false => rfl
    | true => exact absurd ((has_iff_abs t b h).1 hx) hb
  rw [mem_abs_add_of_not_has b t h hh y]
  constructor
  · rintro (rfl | ⟨h1, h2⟩)
    · exact Or.inl rfl
    · exact Or.inr ⟨h1, fun h3 => h2 h3.1⟩
  · rintro (rfl | ⟨h1, h2⟩)
    · exact Or.inl rfl
    · by_cases hyb : y = b
      · exact Or.inl hyb
      · exact Or.inr ⟨h1, fun h3 => h2 ⟨h3, hyb⟩⟩

theorem C15_add_spec (b : Bytes) (t : T) (h : NoDupKeys t) :
    absSet (add b t) = specAdd b (absSet t) := by
  funext y
  apply propext
  show y ∈ abs (add b t) ↔ specAdd b (absSet t) y
  by_cases hb : b = [] ∨ ∃ m ∈ abs t, b <+: m
  · rw [C15_add_present b t h hb]
    exact ⟨fun hy => Or.inl ⟨hb, hy⟩, fun hy => hy.elim (·.2) (fun h' => absurd hb h'.1)⟩
  · rw [C15_add_absent b t h hb]
    exact ⟨fun hy => Or.inr ⟨hb, hy⟩, fun hy => hy.elim (fun h' => absurd h'.1 hb) (·.2)⟩

example : abs (add [97, 98, 99] (add [98] (add [97, 98] .nil))) = [[97, 98, 99], [98]] := by
  decide
-- the hypotheses of `C15_add_present` / `C15_add_absent` are satisfiable
example : NoDupKeys (add [98] (add [97, 98] .nil)) ∧
    ([97] = [] ∨ ∃ m ∈ abs (add [98] (add [97, 98] .nil)), [97] <+: m) ∧
    ¬ ([97, 98, 99] = [] ∨ ∃ m ∈ abs (add [98] (add [97, 98] .nil)), [97, 98, 99] <+: m) := by
  decide
example : abs (add [97] (add [98] (add [97, 98] .nil))) = [[97, 98], [98]] := by decide

/-! ## 4. Delete -/

theorem C15_del_empty (t : T) : del [] t = some t := del_nil_left t

/-- `Delete(b)` returns false (and, by the meaning of `none`, changes nothing)
exactly when no member has prefix b. -/
theorem C15_del_flag (b : Bytes) (t : T) (hb : b ≠ []) (h : NoDupKeys t) :
    (del b t).isSome = true ↔ specDelFlag b (absSet t) := by
  have h1 := del_eq_none_iff b t
  have h2 := has_iff_abs t b h
  simp only [hb, false_or] at h2
  show _ ↔ ∃ m, m ∈ abs t ∧ b <+: m
  rw [← h2]
  cases hd : del b t with
  | none => simp [h1.1 hd]
  | some t' =>
    cases hx : has b t with
    | true => simp
    | false => rw [h1.2 hx] at hd; cases hd

theorem C15_del_none (b : Bytes) (t : T) (hb : b ≠ []) (h : NoDupKeys t) :
    del b t = none ↔ ¬ ∃ m ∈ abs t, b <+: m := by
  have := C15_del_flag b t hb h
  rw [← Option.not_isSome_iff_eq_none, this]
  rfl

/-- When it returns true, exactly the members with prefix b are gone: in
particular no proper prefix of b is left behind as a spurious member. -/
theorem C15_del_spec (b : Bytes) (t t' : T) (hb : b ≠ []) (h : NoDupKeys t)
    (hd : del b t = some t') : absSet t' = specDel b (absSet t) := by
  funext y
  exact propext (mem_abs_del b t t' hb h hd y)

/-- The same, spelled out. -/
theorem C15_del_spec' (b : Bytes) (t t' : T) (hb : b ≠ []) (h : NoDupKeys t)
    (hd : del b t = some t') (y : Bytes) : y ∈ abs t' ↔ (y ∈ abs t ∧ ¬ b <+: y) :=
  mem_abs_del b t t' hb h hd y

example : (del [97, 98] (add [97, 99] (add [97, 98, 99] (add [97, 98, 100] .nil)))).map abs
    = some [[97, 99]] := by decide
-- pruning: deleting the only member below "a" does not leave "a" behind
example : (del [97, 98, 99] (add [98] (add [97, 98, 99] .nil))).map abs = some [[98]] := by
  decide
example : del [97, 99] (add [97, 98] .nil) = none := by decide

/-! ## 5. The members are maximal sequences -/

theorem C15_abs_antichain (t : T) (h : NoDupKeys t) :
    IsAntichain (absSet t) ∧ (abs t).Nodup :=
  ⟨⟨fun _ hm => ne_nil_of_mem_abs hm,
    fun m1 m2 h1 h2 hp => abs_antichain t h m1 h1 m2 h2 hp⟩, abs_nodup t h⟩

/-! ## 6. Every history -/

inductive Op where
  | add (b : Bytes)
  | del (b : Bytes)
  deriving Repr, DecidableEq

/-- One call: the new trie and, for `Delete`, the returned flag.  A failed
`Delete` leaves the trie unchanged. -/
def step : Op → T → T × Option Bool
  | .add b, t => (add b t, none)
  | .del b, t =>
    match del b t with
    | none => (t, some false)
    | some t' => (t', some true)

def run : List Op → T → T
  | [], t => t
  | op :: ops, t => run ops (step op t).1

/-- The values returned by the calls of the history, in order. -/
def results : List Op → T → List (Option Bool)
  | [], _ => []
  | op :: ops, t => (step op t).2 :: results ops (step op t).1

/-- The specification of one call.  `Delete` of the empty sequence is outside
the property (it says "b non-empty"); the code returns true and changes
nothing, and the specification is extended with exactly that so that *all*
histories are covered. -/
def specStep : Op → SSet → SSet
  | .add b, M => specAdd b M
  | .del b, M => if b = [] then M else specDel b M

def specResult : Op → SSet → Option Prop
  | .add _, _ => none
  | .del b, M => some (if b = [] then True else specDelFlag b M)

def runSpec : List Op → SSet → SSet
  | [], M => M
  | op :: ops, M => runSpec ops (specStep op M)

def specResults : List Op → SSet → List (Option Prop)
  | [], _ => []
  | op :: ops, M => specResult op M :: specResults ops (specStep op M)

/-- A returned value agrees with the specified one. -/
def Agrees : Option Bool → Option Prop → Prop
  | none, none => True
  | some f, some p => f = true ↔ p
  | _, _ => False

/-- The two lists have the same length and agree position by position. -/
def AgreeAll : List (Option Bool) → List (Option Prop) → Prop
  | [], [] => True
  | f :: fs, p :: ps => Agrees f p ∧ AgreeAll fs ps
  | _, _ => False

theorem C15_step (op : Op) (t : T) (h : NoDupKeys t) :
    NoDupKeys (step op t).1 ∧ absSet (step op t).1 = specStep op (absSet t) ∧
      Agrees (step op t).2 (specResult op (absSet t)) := by
  cases op with
  | add b => exact ⟨noDupKeys_add b t h, C15_add_spec b t h, trivial⟩
  | del b =>
    by_cases hb : b = []
    · subst hb
      simp [step, specStep, specResult, Agrees, h]
    · have hflag := C15_del_flag b t hb h
      simp only [step, specStep, specResult, if_neg hb]
      cases hd : del b t with
      | none =>
        rw [hd] at hflag
        have hno : ¬ specDelFlag b (absSet t) := fun hp => by simpa using hflag.2 hp
        refine ⟨h, ?_, by simpa [Agrees] using hno⟩
        funext y
        apply propext
        constructor
        · intro hy
          exact ⟨hy, fun hp => hno ⟨y, hy, hp⟩⟩
        · exact fun hy => hy.1
      | some t' =>
        rw [hd] at hflag
        exact ⟨noDupKeys_del b t t' hd h, C15_del_spec b t t' hb h hd,
          by simpa [Agrees] using hflag.1 rfl⟩

theorem C15_run (ops : List Op) : ∀ (t : T), NoDupKeys t →
    NoDupKeys (run ops t) ∧ absSet (run ops t) = runSpec ops (absSet t) ∧
      AgreeAll (results ops t) (specResults ops (absSet t)) := by
  induction ops with
  | nil => intro t h; exact ⟨h, rfl, trivial⟩
  | cons op ops ih =>
    intro t h
    obtain ⟨h1, h2, h3⟩ := C15_step op t h
    obtain ⟨i1, i2, i3⟩ := ih (step op t).1 h1
    simp only [run, runSpec, results, specResults, AgreeAll]
    rw [← h2]
    exact ⟨i1, i2, h3, i3⟩

theorem absSet_nil : absSet .nil = SSet.empty := by
  funext y; simp [absSet, SSet.empty]

/-- After any history from `New()`: the invariant holds, the trie stands for
the set the specification computes, and every returned flag was the specified one. -/
theorem C15_reachable (ops : List Op) :
    NoDupKeys (run ops .nil) ∧
    (∀ y, y ∈ abs (run ops .nil) ↔ runSpec ops SSet.empty y) ∧
    IsAntichain (runSpec ops SSet.empty) ∧
    AgreeAll (results ops .nil) (specResults ops SSet.empty) := by
  obtain ⟨h1, h2, h3⟩ := C15_run ops .nil noDupKeys_nil
  rw [absSet_nil] at h2 h3
  refine ⟨h1, fun y => ?_, ?_, h3⟩
  · rw [← h2]; rfl
  · rw [← h2]; exact (C15_abs_antichain _ h1).1

/-- What can be observed after any history: `Has` and `ForEach`. -/
theorem C15_reachable_observe (ops : List Op) :
    (∀ x, has x (run ops .nil) = true ↔ specHas x (runSpec ops SSet.empty)) ∧
    (∀ y, y ∈ members (run ops .nil) ↔ runSpec ops SSet.empty y) ∧
    (members (run ops .nil)).Nodup := by
  obtain ⟨h1, h2, _, _⟩ := C15_reachable ops
  have hset : absSet (run ops .nil) = runSpec ops SSet.empty := by
    funext y; exact propext (h2 y)
  refine ⟨fun x => ?_, fun y => ?_, ?_⟩
  · rw [← hset]; exact C15_has_spec _ x h1
  · rw [members_eq_abs]; exact h2 y
  · rw [members_eq_abs]; exact abs_nodup _ h1

-- add "ab", add "abc", add "b", del "ab", add "a", del "x"
example : run [.add [97, 98], .add [97, 98, 99], .add [98], .del [97, 98], .add [97],
      .del [120]] .nil = .cons 98 .nil (.cons 97 .nil .nil) ∧
    results [.add [97, 98], .add [97, 98, 99], .add [98], .del [97, 98], .add [97],
      .del [120]] .nil = [none, none, none, some true, none, some false] := by decide

/-! ## 7. ForEach -/

/-- With a consumer that never stops `ForEach` reports exactly the members,
each once (and never the root / the empty sequence). -/
theorem C15_forEach_members (t : T) (h : NoDupKeys t) :
    (∀ y, y ∈ members t ↔ y ∈ abs t) ∧ (members t).Nodup ∧ [] ∉ members t := by
  rw [members_eq_abs]
  exact ⟨fun _ => Iff.rfl, abs_nodup t h, fun hm => ne_nil_of_mem_abs hm rfl⟩

/-- In the model's edge order the report is even the list `abs t` itself. -/
theorem C15_members_eq (t : T) : members t = abs t := members_eq_abs t

example : members (add [97, 98, 99] (add [98] (add [97, 98] .nil))) = [[97, 98, 99], [98]] := by
  decide
example : members .nil = [] := by decide

/-! ## 8. JSON

`fromJSON` (in `Bio/Lemmas/Trie.lean`) reads exactly the text `toJSON` writes:
`{"m":{` entries `}}`, an entry being `"<canonical decimal < 256>":<object>`,
entries separated by commas.  The rebuilt trie has its edges in the sorted key
order of the text, so it is equal to the original only up to edge order — which
no observation can see. -/

theorem C15_json_roundtrip (t : T) (h : NoDupKeys t) :
    ∃ t', fromJSON (toJSON t) = some t' ∧ NoDupKeys t' ∧
      (∀ y, y ∈ abs t' ↔ y ∈ abs t) ∧
      (∀ x, has x t' = has x t) ∧
      (∀ y, y ∈ members t' ↔ y ∈ members t) ∧ (members t').Nodup := by
  obtain ⟨t', hj, hs⟩ := fromJSON_toJSON t
  have h' : NoDupKeys t' := hs.noDupKeys.2 h
  refine ⟨t', hj, h', hs.mem_abs, fun x => ?_, fun y => ?_, ?_⟩
  · have h1 := has_iff_abs t' x h'
    have h2 := has_iff_abs t x h
    have : has x t' = true ↔ has x t = true := by
      rw [h1, h2]
      constructor
      · rintro (h | ⟨m, hm, hp⟩)
        · exact Or.inl h
        · exact Or.inr ⟨m, (hs.mem_abs m).1 hm, hp⟩
      · rintro (h | ⟨m, hm, hp⟩)
        · exact Or.inl h
        · exact Or.inr ⟨m, (hs.mem_abs m).2 hm, hp⟩
    cases h3 : has x t' <;> cases h4 : has x t <;> simp_all
  · rw [members_eq_abs, members_eq_abs]; exact hs.mem_abs y
  · rw [members_eq_abs]; exact abs_nodup t' h'

/-- The round trip needs no invariant to succeed and to give the same trie up
to the order of edges. -/
theorem C15_json_roundtrip_sim (t : T) : ∃ t', fromJSON (toJSON t) = some t' ∧ Sim t t' :=
  fromJSON_toJSON t

-- {"m":{"97":{"m":{"98":{"m":{}}}},"98":{"m":{}}}} is read back (edges re-sorted by key text)
example :
    toJSON (.cons 98 .nil (.cons 97 (.cons 98 .nil .nil) .nil)) =
      [123, 34, 109, 34, 58, 123, 34, 57, 55, 34, 58, 123, 34, 109, 34, 58, 123, 34, 57, 56, 34,
       58, 123, 34, 109, 34, 58, 123, 125, 125, 125, 125, 44, 34, 57, 56, 34, 58, 123, 34, 109, 34,
       58, 123, 125, 125, 125, 125] ∧
    fromJSON (toJSON (.cons 98 .nil (.cons 97 (.cons 98 .nil .nil) .nil))) =
      some (.cons 97 (.cons 98 .nil .nil) (.cons 98 .nil .nil)) := by
  have nd97 : natDigits 97 = [57, 55] := by
    rw [natDigits, dif_neg (by decide), natDigits, dif_pos (by decide)]; decide
  have nd98 : natDigits 98 = [57, 56] := by
    rw [natDigits, dif_neg (by decide), natDigits, dif_pos (by decide)]; decide
  have h97 : (97 : UInt8).toNat = 97 := rfl
  have h98 : (98 : UInt8).toNat = 98 := rfl
  have tj : toJSON (.cons 98 .nil (.cons 97 (.cons 98 .nil .nil) .nil)) =
      [123, 34, 109, 34, 58, 123, 34, 57, 55, 34, 58, 123, 34, 109, 34, 58, 123, 34, 57, 56, 34,
       58, 123, 34, 109, 34, 58, 123, 125, 125, 125, 125, 44, 34, 57, 56, 34, 58, 123, 34, 109, 34,
       58, 123, 125, 125, 125, 125] := by
    simp [toJSON, toJSON.entries, toJSON.insertE, renderEntries, h97, h98, nd97, nd98, bytesLe,
      bytesLt]
  refine ⟨tj, ?_⟩
  rw [tj]
  simp [fromJSON, parseEntries, dropPre, openB, closeB, isDigit, parseNat, parseNatAux, nd97, nd98]

-- the reader is exact: no trailing bytes, no non-canonical key ("07")
example : fromJSON (toJSON .nil ++ [32]) = none := by
  simp [toJSON, toJSON.entries, renderEntries, fromJSON, parseEntries, dropPre, openB, closeB]
example : fromJSON [123, 34, 109, 34, 58, 123, 34, 48, 55, 34, 58, 123, 34, 109, 34, 58, 123,
    125, 125, 125, 125] = none := by
  have nd7 : natDigits 7 = [55] := by rw [natDigits, dif_pos (by decide)]; decide
  simp [fromJSON, parseEntries, dropPre, openB, closeB, isDigit, parseNat, parseNatAux, nd7]

end Bio.Trie
