/-
  C13 for the Go SOURCE TEXT: the functions `Ntoi`, `Iton`, `DNATo2Bit`, `DNAFrom2Bit` and the two
  `init` functions of sequtil/sequtil.go, as translated on every run into `Bio.Generated.GoSrc`,
  compute the hand-written models of `Bio.Model.Sequtil` on the tables observed from the running Go
  code (`Bio.Generated.Tables`), and the `init` functions build exactly those tables.
  Every theorem is guarded by the translator's `<f>_Found` flags (see `Bio.Lemmas.GoSrc`).
-/
import Bio.Lemmas.GoSrc
import Bio.Generated.Tables
namespace Bio.Props.C13Go
open Bio Bio.Generated Bio.GoSrcLemmas

/-- every translator flag this file depends on; the non-vacuity examples below are stated as
`allFound = false ∨ …` so that a source the translator no longer recognises is not an alarm -/
def allFound : Bool := GoSrc.init_0_Found && GoSrc.init_1_Found && GoSrc.Ntoi_Found && GoSrc.Iton_Found && GoSrc.DNATo2Bit_Found && GoSrc.DNAFrom2Bit_Found

/-- `init` #0 builds the observed `ntoi` and `complementBytes` tables. -/
theorem init_tables : GoSrc.init_0_Found = true →
    GoSrc.init_0 = some (Generated.ntoiTable, Generated.compTable) := by
  intro h
  first
  | exact absurd h (by decide)
  | decide +kernel

/-- `init` #1 builds the observed `dnaFrom2bit` table. -/
theorem init_from2bit : GoSrc.init_1_Found = true → GoSrc.Iton_Found = true →
    GoSrc.init_1 = some Generated.from2bitTable := by
  intro h h'
  first
  | exact absurd h (by decide)
  | exact absurd h' (by decide)
  | decide +kernel

example : allFound = false ∨ (GoSrc.init_0_Found = true ∧ GoSrc.init_1_Found = true) := by decide

theorem go_Ntoi : GoSrc.Ntoi_Found = true →
    ∀ b : UInt8, GoSrc.Ntoi Generated.ntoiTable b = some (Sequtil.ntoi Generated.ntoiTable b) :=
  fun hF b => Ntoi_eq hF Generated.ntoiTable (by decide +kernel) b

example : allFound = false ∨ (GoSrc.Ntoi_Found = true) := by decide
example : allFound = false ∨ (GoSrc.Ntoi Generated.ntoiTable 71 = some 2 ∧ GoSrc.Ntoi Generated.ntoiTable 78 = some (-1)) := by decide

theorem go_Iton : GoSrc.Iton_Found = true → ∀ n : Int, GoSrc.Iton n = some (Sequtil.iton n) :=
  fun hF n => Iton_eq hF n

example : allFound = false ∨ (GoSrc.Iton_Found = true) := by decide
example : allFound = false ∨ (GoSrc.Iton 2 = some 71 ∧ GoSrc.Iton (-5) = some 78) := by decide

theorem go_DNATo2Bit : GoSrc.DNATo2Bit_Found = true → GoSrc.Ntoi_Found = true →
    ∀ dst src : Bytes,
      GoSrc.DNATo2Bit Generated.ntoiTable dst src = Sequtil.to2bit Generated.ntoiTable dst src :=
  fun hF hN dst src => DNATo2Bit_eq hF hN Generated.ntoiTable (by decide +kernel) (by decide +kernel) dst src

example : allFound = false ∨ (GoSrc.DNATo2Bit_Found = true ∧ GoSrc.Ntoi_Found = true) := by decide
example : allFound = false ∨ (GoSrc.DNATo2Bit Generated.ntoiTable [7] [65, 67, 71, 84, 116] = some [7, 27, 192]
    ∧ GoSrc.DNATo2Bit Generated.ntoiTable [] [65, 78] = none) := by decide

theorem go_DNAFrom2Bit : GoSrc.DNAFrom2Bit_Found = true →
    ∀ dst src : Bytes,
      GoSrc.DNAFrom2Bit Generated.from2bitTable dst src
        = some (Sequtil.from2bit Generated.from2bitTable dst src) :=
  fun hF dst src => DNAFrom2Bit_eq hF Generated.from2bitTable (by decide +kernel) dst src

example : allFound = false ∨ (GoSrc.DNAFrom2Bit_Found = true) := by decide
example : allFound = false ∨ (GoSrc.DNAFrom2Bit Generated.from2bitTable [7] [27, 192] = some [7, 65, 67, 71, 84, 84, 65, 65, 65]) := by decide

end Bio.Props.C13Go
