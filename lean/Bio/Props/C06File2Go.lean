/-
  C06 / C07 / C11 / C18, READER and FILE level, for the Go SOURCE TEXT of `fasta.Reader`, `fasta.File`
  (formats/fasta/iter.go) and `fastq.Reader`, `fastq.File` (formats/fastq/iter.go), as translated on every
  run, statement by statement, into `Bio.Generated.GoSrc.fasta_Reader`, `fasta_File`, `fastq_Reader`,
  `fastq_File`:

      func Reader(r io.Reader) iter.Seq2[*T, error] {
        return func(yield func(*T, error) bool) {
          for x, err := range newReader(r).iter() { if !yield(x, err) { break } } } }
      func File(file string) iter.Seq2[*T, error] {
        return func(yield func(*T, error) bool) {
          f, err := aio.Open(file)
          if err != nil { yield(nil, err); return }
          defer f.Close()
          for x, err := range Reader(f) { if !yield(x, err) { break } } } }

  THREE layers `File → Reader → (*reader).iter`, the upper two being the forwarding range-over-func loop
  of `Bio.Props.C06FileGo` (`FileW.fwd`, `fwdC`, `SamRd.runG`, `go_file_forwarding`).  The `io.Reader` /
  opened file is the pair the translated `fasta_iter` / `fastq_iter` work on: `(remaining bytes, ending)`
  for fasta, `(remaining bufio.ScanLines tokens, ending)` for fastq.  `o` stands for `aio.Open` — a
  PARAMETER `name ↦ (pair, error)`, nothing assumed.  `defer f.Close()` is not modelled.

  For fasta and fastq each, for an ARBITRARY `aio.Open`, file name and EVERY history consumer:

  1. `go_*_reader_eq_iter` (C06 / C18): `Reader fuel r yield = iter fuel r.1 r.2 yield`.
  2. `go_*_file_open_error` (C07): `aio.Open` failed — exactly ONE item `(nil, that error)`, whatever the
     consumer answers, any fuel.
     `go_*_file_eq_reader` (C06): `aio.Open` succeeded — `File file = Reader (opened pair) = iter …`.
     `go_*_file_no_panic` (C11 / C18): with the fuel of the inner theorems (`len + 1` of the opened
     bytes / line tokens) never `none`; through the three layers: `iter` returns a history `inner` under
     the loop body of `Reader` under the loop body of `File`; BOTH run-time-panic tests ("range function
     continued iteration after function for loop body returned false") fail on it; both replays give it
     back; `Reader` and `File` return it.  And for ANY fuel, `File = none ↔ iter = none` (out of fuel).
     `go_*_file_early_stop` (C18): the clauses of `C06FileGo.go_bed_file_early_stop`, path opened or not.
  3. `go_*_file_all` (C01 / C02 / C06): opened, consumer that never stops — the items, read back as model
     items (`faItem` / `fqItem`), are exactly the model decode `Fasta.decodeSrc e src` /
     `Fastq.fromLines e ls` (`= Fastq.decodeSrc e x` on the `bufio.ScanLines` tokens of `x`).
  4. Concrete runs (`decide`).

  DEVIATIONS: none of the suggested statements is false; (1) and `eq_reader` are proved in a STRONGER
  form than asked — for EVERY fuel, not only above the bound of the inner theorems (both sides run out of
  fuel together: `FileW2.iterSpec_fwdC`, `iterSpec_go_on`, `after_iterSpec`), and without the
  `*_read_Found` flags.  As in C06FileGo, "a consumer declining at the k-th item sees exactly k" is stated
  for an item that exists in the uninterrupted run (`k < I'.length`).

  Guarded by the translator's `_Found` flags (see `Bio.Lemmas.GoSrc`).
-/
import Bio.Lemmas.GoSrcFile2
import Bio.Props.C06FileGo
import Bio.Props.C18Go
set_option linter.unusedVariables false
namespace Bio.Props.C06File2Go
open Bio Bio.GoRt Bio.Generated Bio.GoSrcLemmas Bio.GoSrcLemmas.FileW Bio.GoSrcLemmas.FileW2
open Bio.GoSrcLemmas.SamRd (runG)

/-- every translator flag this file depends on; the non-vacuity examples below are stated as
`allFound = false ∨ …` so that a source the translator no longer recognises is not an alarm -/
def allFound : Bool :=
  GoSrc.fasta_Reader_Found && GoSrc.fasta_File_Found && GoSrc.fastq_Reader_Found && GoSrc.fastq_File_Found
    && C18Go.allFound

/-! ## 1. fasta -/

/-- C06 / C18: `Reader(r)` IS `newReader(r).iter()`, for EVERY history consumer and ANY fuel. -/
theorem go_fasta_reader_eq_iter : GoSrc.fasta_Reader_Found = true → GoSrc.fasta_iter_Found = true →
    ∀ (fuel : Nat) (r : Bytes × Ending) (yield : List FaItem → Bool),
      GoSrc.fasta_Reader fuel r yield = GoSrc.fasta_iter fuel r.1 r.2 yield :=
  fun hRd hI fuel r yield => fasta_Reader_any hRd hI fuel r yield

/-- C07: the path cannot be opened — exactly ONE item, `(nil, err)`, the consumer's verdict ignored. -/
theorem go_fasta_file_open_error : GoSrc.fasta_File_Found = true →
    ∀ (o : Bytes → (Bytes × Ending) × GoErr) (fuel : Nat) (file : Bytes) (yield : List FaItem → Bool),
      (o file).2 ≠ GoErr.nil →
    GoSrc.fasta_File o fuel file yield = some [(none, (o file).2)] := by
  intro hFl o fuel file yield ho
  rw [fasta_File_spec hFl, if_pos ho]

/-- C06: the path opens — `File(file)` IS `Reader(f)`, hence `newReader(f).iter()`, on the opened stream,
for EVERY history consumer and ANY fuel. -/
theorem go_fasta_file_eq_reader : GoSrc.fasta_File_Found = true → GoSrc.fasta_Reader_Found = true →
    GoSrc.fasta_iter_Found = true →
    ∀ (o : Bytes → (Bytes × Ending) × GoErr) (fuel : Nat) (file : Bytes), (o file).2 = GoErr.nil →
    ∀ yield : List FaItem → Bool,
      GoSrc.fasta_File o fuel file yield = GoSrc.fasta_Reader fuel (o file).1 yield
      ∧ GoSrc.fasta_File o fuel file yield = GoSrc.fasta_iter fuel (o file).1.1 (o file).1.2 yield := by
  intro hFl hRd hI o fuel file ho yield
  have h := fasta_File_any hFl hRd hI o fuel file yield ho
  exact ⟨h, by rw [h, fasta_Reader_any hRd hI]⟩

/-- C11 / C18, three layers.  With `len(opened bytes) + 1` fuel `File` is never `none`, path opened or
not.  When it opened: `iter`, run under the loop body of `Reader` run under the loop body of `File`,
returns a history `inner`; the run-time-panic test of `Reader` fails on it and its replay is `inner`, which
`Reader` returns; the run-time-panic test of `File` fails on it and its replay is `inner`, which `File`
returns.  And for ANY fuel: `File` is `none` exactly when `iter` itself is (out of fuel). -/
theorem go_fasta_file_no_panic : GoSrc.fasta_File_Found = true → GoSrc.fasta_Reader_Found = true →
    GoSrc.fasta_iter_Found = true → GoSrc.fasta_read_Found = true →
    ∀ (o : Bytes → (Bytes × Ending) × GoErr) (fuel : Nat) (file : Bytes) (yield : List FaItem → Bool),
    (((o file).2 = GoErr.nil → (o file).1.1.length + 1 ≤ fuel) →
      GoSrc.fasta_File o fuel file yield ≠ none
      ∧ ((o file).2 = GoErr.nil → ∃ inner,
          GoSrc.fasta_iter fuel (o file).1.1 (o file).1.2 (fwdC (fwdC yield)) = some inner
          ∧ (runG (fwd (fwdC yield)) inner.dropLast).2 = true ∧ (runG (fwd (fwdC yield)) inner).1 = inner
          ∧ GoSrc.fasta_Reader fuel (o file).1 (fwdC yield) = some inner
          ∧ (runG (fwd yield) inner.dropLast).2 = true ∧ (runG (fwd yield) inner).1 = inner
          ∧ GoSrc.fasta_File o fuel file yield = some inner))
    ∧ ((o file).2 = GoErr.nil →
        (GoSrc.fasta_File o fuel file yield = none
          ↔ GoSrc.fasta_iter fuel (o file).1.1 (o file).1.2 yield = none)) := by
  intro hFl hRd hI hR o fuel file yield
  refine ⟨fun hf => ⟨by rw [fasta_File_log hFl hRd hI hR o fuel file yield hf]; simp, fun ho => ?_⟩,
    fun ho => by rw [(go_fasta_file_eq_reader hFl hRd hI o fuel file ho yield).2]⟩
  have hraw := fun y => (C18Go.go_fasta_iter_history hI hR fuel (o file).1.1 (o file).1.2 y (hf ho)).1
  obtain ⟨a, b, c⟩ := after_layers (fwdC yield) ((Fasta.decodeSrc (o file).1.2 (o file).1.1).map faRaw)
  obtain ⟨a', b', c'⟩ := after_layers yield ((Fasta.decodeSrc (o file).1.2 (o file).1.1).map faRaw)
  refine ⟨_, hraw _, a, b, ?_, ?_, ?_, ?_⟩
  · rw [go_fasta_reader_eq_iter hRd hI, hraw, c]
  · rw [c]; exact a'
  · rw [c]; exact b'
  · rw [(go_fasta_file_eq_reader hFl hRd hI o fuel file ho yield).2, hraw, c, c']

/-- C18, nested layers `File → Reader → iter → read`, EVERY history consumer `y`, path opened or not:
`File` returns a log `L`; with the consumer that never stops it returns `I'` (when the path opened: the
uninterrupted log of `iter` on the opened stream); `L` is a prefix of `I'`; `y` answered `true` on every
proper prefix history and an item after which `y` answered `false` is the last one: nothing is handed
over after the consumer declined; if `y` first declines at item `k + 1` of `I'`, the log is exactly the
first `k + 1` items; if it never declines before the last item, the log is `I'`; the stateful "at most `k`
items" (`k ≥ 1`) sees `I'.take k`. -/
theorem go_fasta_file_early_stop : GoSrc.fasta_File_Found = true → GoSrc.fasta_Reader_Found = true →
    GoSrc.fasta_iter_Found = true → GoSrc.fasta_read_Found = true →
    ∀ (o : Bytes → (Bytes × Ending) × GoErr) (fuel : Nat) (file : Bytes) (y : List FaItem → Bool),
      ((o file).2 = GoErr.nil → (o file).1.1.length + 1 ≤ fuel) →
    ∃ L I', GoSrc.fasta_File o fuel file y = some L
      ∧ GoSrc.fasta_File o fuel file (fun _ => true) = some I'
      ∧ ((o file).2 = GoErr.nil → GoSrc.fasta_iter fuel (o file).1.1 (o file).1.2 (fun _ => true) = some I')
      ∧ L <+: I'
      ∧ (∀ i, i + 1 < L.length → y (L.take (i + 1)) = true)
      ∧ (∀ i, i < L.length → y (L.take (i + 1)) = false → i + 1 = L.length)
      ∧ (∀ k, k < I'.length → (∀ j, j < k → y (I'.take (j + 1)) = true) → y (I'.take (k + 1)) = false →
          L = I'.take (k + 1) ∧ L.length = k + 1)
      ∧ ((∀ j, j + 1 < I'.length → y (I'.take (j + 1)) = true) → L = I')
      ∧ (∀ k, 1 ≤ k → GoSrc.fasta_File o fuel file (fun l => decide (l.length < k)) = some (I'.take k)) := by
  intro hFl hRd hI hR o fuel file y hf
  have hl := fun y => fasta_File_log hFl hRd hI hR o fuel file y hf
  obtain ⟨h0, h1, h2, h3, h4, h5, h6⟩ := takeThroughH_early_stop y (fastaFileItems o file)
  have hall : GoSrc.fasta_File o fuel file (fun _ => true) = some (fastaFileItems o file) := by rw [hl, h0]
  refine ⟨_, _, hl y, hall, fun ho => ?_, h1, h2, h3, h4, h5, fun k hk => by rw [hl, h6 k hk]⟩
  rw [← (go_fasta_file_eq_reader hFl hRd hI o fuel file ho _).2, hall]

/-- C01 / C06: the path opens on the bytes `src` (then `io.EOF` or a read error `e`); with the consumer
that never stops `File` hands over — read back as model items — exactly the model decode
`Fasta.decodeSrc e src`. -/
theorem go_fasta_file_all : GoSrc.fasta_File_Found = true → GoSrc.fasta_Reader_Found = true →
    GoSrc.fasta_iter_Found = true → GoSrc.fasta_read_Found = true →
    ∀ (o : Bytes → (Bytes × Ending) × GoErr) (fuel : Nat) (file : Bytes), (o file).2 = GoErr.nil →
      (o file).1.1.length + 1 ≤ fuel →
    (GoSrc.fasta_File o fuel file (fun _ => true)).map (·.map faItem)
      = some (Fasta.decodeSrc (o file).1.2 (o file).1.1) := by
  intro hFl hRd hI hR o fuel file ho hf
  rw [(go_fasta_file_eq_reader hFl hRd hI o fuel file ho _).2]
  exact C18Go.go_fasta_iter_all hI hR fuel _ _ hf

/-! ## 2. fastq -/

/-- C06 / C18: `Reader(r)` IS `newReader(r).iter()`, for EVERY history consumer and ANY fuel. -/
theorem go_fastq_reader_eq_iter : GoSrc.fastq_Reader_Found = true → GoSrc.fastq_iter_Found = true →
    ∀ (fuel : Nat) (r : List Bytes × Ending) (yield : List FqItem → Bool),
      GoSrc.fastq_Reader fuel r yield = GoSrc.fastq_iter fuel r.1 r.2 yield :=
  fun hRd hI fuel r yield => fastq_Reader_any hRd hI fuel r yield

/-- C07: the path cannot be opened — exactly ONE item, `(nil, err)`, the consumer's verdict ignored. -/
theorem go_fastq_file_open_error : GoSrc.fastq_File_Found = true →
    ∀ (o : Bytes → (List Bytes × Ending) × GoErr) (fuel : Nat) (file : Bytes) (yield : List FqItem → Bool),
      (o file).2 ≠ GoErr.nil →
    GoSrc.fastq_File o fuel file yield = some [(none, (o file).2)] := by
  intro hFl o fuel file yield ho
  rw [fastq_File_spec hFl, if_pos ho]

/-- C06: the path opens — `File(file)` IS `Reader(f)`, hence `newReader(f).iter()`, on the opened stream,
for EVERY history consumer and ANY fuel. -/
theorem go_fastq_file_eq_reader : GoSrc.fastq_File_Found = true → GoSrc.fastq_Reader_Found = true →
    GoSrc.fastq_iter_Found = true →
    ∀ (o : Bytes → (List Bytes × Ending) × GoErr) (fuel : Nat) (file : Bytes), (o file).2 = GoErr.nil →
    ∀ yield : List FqItem → Bool,
      GoSrc.fastq_File o fuel file yield = GoSrc.fastq_Reader fuel (o file).1 yield
      ∧ GoSrc.fastq_File o fuel file yield = GoSrc.fastq_iter fuel (o file).1.1 (o file).1.2 yield := by
  intro hFl hRd hI o fuel file ho yield
  have h := fastq_File_any hFl hRd hI o fuel file yield ho
  exact ⟨h, by rw [h, fastq_Reader_any hRd hI]⟩

/-- C11 / C18, three layers (as `go_fasta_file_no_panic`; fuel: `number of line tokens + 1`). -/
theorem go_fastq_file_no_panic : GoSrc.fastq_File_Found = true → GoSrc.fastq_Reader_Found = true →
    GoSrc.fastq_iter_Found = true → GoSrc.fastq_read_Found = true →
    ∀ (o : Bytes → (List Bytes × Ending) × GoErr) (fuel : Nat) (file : Bytes) (yield : List FqItem → Bool),
    (((o file).2 = GoErr.nil → (o file).1.1.length + 1 ≤ fuel) →
      GoSrc.fastq_File o fuel file yield ≠ none
      ∧ ((o file).2 = GoErr.nil → ∃ inner,
          GoSrc.fastq_iter fuel (o file).1.1 (o file).1.2 (fwdC (fwdC yield)) = some inner
          ∧ (runG (fwd (fwdC yield)) inner.dropLast).2 = true ∧ (runG (fwd (fwdC yield)) inner).1 = inner
          ∧ GoSrc.fastq_Reader fuel (o file).1 (fwdC yield) = some inner
          ∧ (runG (fwd yield) inner.dropLast).2 = true ∧ (runG (fwd yield) inner).1 = inner
          ∧ GoSrc.fastq_File o fuel file yield = some inner))
    ∧ ((o file).2 = GoErr.nil →
        (GoSrc.fastq_File o fuel file yield = none
          ↔ GoSrc.fastq_iter fuel (o file).1.1 (o file).1.2 yield = none)) := by
  intro hFl hRd hI hR o fuel file yield
  refine ⟨fun hf => ⟨by rw [fastq_File_log hFl hRd hI hR o fuel file yield hf]; simp, fun ho => ?_⟩,
    fun ho => by rw [(go_fastq_file_eq_reader hFl hRd hI o fuel file ho yield).2]⟩
  have hraw := fun y => (C18Go.go_fastq_iter_history hI hR fuel (o file).1.1 (o file).1.2 y (hf ho)).1
  obtain ⟨a, b, c⟩ := after_layers (fwdC yield) ((Fastq.fromLines (o file).1.2 (o file).1.1).map fqRaw)
  obtain ⟨a', b', c'⟩ := after_layers yield ((Fastq.fromLines (o file).1.2 (o file).1.1).map fqRaw)
  refine ⟨_, hraw _, a, b, ?_, ?_, ?_, ?_⟩
  · rw [go_fastq_reader_eq_iter hRd hI, hraw, c]
  · rw [c]; exact a'
  · rw [c]; exact b'
  · rw [(go_fastq_file_eq_reader hFl hRd hI o fuel file ho yield).2, hraw, c, c']

/-- C18, nested layers `File → Reader → iter → read` (clauses as in `go_fasta_file_early_stop`). -/
theorem go_fastq_file_early_stop : GoSrc.fastq_File_Found = true → GoSrc.fastq_Reader_Found = true →
    GoSrc.fastq_iter_Found = true → GoSrc.fastq_read_Found = true →
    ∀ (o : Bytes → (List Bytes × Ending) × GoErr) (fuel : Nat) (file : Bytes) (y : List FqItem → Bool),
      ((o file).2 = GoErr.nil → (o file).1.1.length + 1 ≤ fuel) →
    ∃ L I', GoSrc.fastq_File o fuel file y = some L
      ∧ GoSrc.fastq_File o fuel file (fun _ => true) = some I'
      ∧ ((o file).2 = GoErr.nil → GoSrc.fastq_iter fuel (o file).1.1 (o file).1.2 (fun _ => true) = some I')
      ∧ L <+: I'
      ∧ (∀ i, i + 1 < L.length → y (L.take (i + 1)) = true)
      ∧ (∀ i, i < L.length → y (L.take (i + 1)) = false → i + 1 = L.length)
      ∧ (∀ k, k < I'.length → (∀ j, j < k → y (I'.take (j + 1)) = true) → y (I'.take (k + 1)) = false →
          L = I'.take (k + 1) ∧ L.length = k + 1)
      ∧ ((∀ j, j + 1 < I'.length → y (I'.take (j + 1)) = true) → L = I')
      ∧ (∀ k, 1 ≤ k → GoSrc.fastq_File o fuel file (fun l => decide (l.length < k)) = some (I'.take k)) := by
  intro hFl hRd hI hR o fuel file y hf
  have hl := fun y => fastq_File_log hFl hRd hI hR o fuel file y hf
  obtain ⟨h0, h1, h2, h3, h4, h5, h6⟩ := takeThroughH_early_stop y (fastqFileItems o file)
  have hall : GoSrc.fastq_File o fuel file (fun _ => true) = some (fastqFileItems o file) := by rw [hl, h0]
  refine ⟨_, _, hl y, hall, fun ho => ?_, h1, h2, h3, h4, h5, fun k hk => by rw [hl, h6 k hk]⟩
  rw [← (go_fastq_file_eq_reader hFl hRd hI o fuel file ho _).2, hall]

/-- C02 / C06: the path opens on the line tokens `ls`; with the consumer that never stops `File` hands
over — read back as model items — exactly the model's `Fastq.fromLines e ls`; when `ls` are the
`bufio.ScanLines` tokens of the bytes `x`, that is the model decode `Fastq.decodeSrc e x`. -/
theorem go_fastq_file_all : GoSrc.fastq_File_Found = true → GoSrc.fastq_Reader_Found = true →
    GoSrc.fastq_iter_Found = true → GoSrc.fastq_read_Found = true →
    ∀ (o : Bytes → (List Bytes × Ending) × GoErr) (fuel : Nat) (file : Bytes), (o file).2 = GoErr.nil →
      (o file).1.1.length + 1 ≤ fuel →
    (GoSrc.fastq_File o fuel file (fun _ => true)).map (·.map fqItem)
      = some (Fastq.fromLines (o file).1.2 (o file).1.1)
    ∧ (∀ x : Bytes, (o file).1.1 = scanLines x →
        (GoSrc.fastq_File o fuel file (fun _ => true)).map (·.map fqItem)
          = some (Fastq.decodeSrc (o file).1.2 x)) := by
  intro hFl hRd hI hR o fuel file ho hf
  have h1 : (GoSrc.fastq_File o fuel file (fun _ => true)).map (·.map fqItem)
      = some (Fastq.fromLines (o file).1.2 (o file).1.1) := by
    rw [(go_fastq_file_eq_reader hFl hRd hI o fuel file ho _).2]
    exact C18Go.go_fastq_iter_all hI hR fuel _ _ hf
  refine ⟨h1, fun x hx => ?_⟩
  rw [h1, hx]; rfl

/-! ## 3. Concrete runs of the translated closures -/

/-- the flags -/
example : allFound = false ∨ (GoSrc.fasta_Reader_Found = true ∧ GoSrc.fasta_File_Found = true
    ∧ GoSrc.fastq_Reader_Found = true ∧ GoSrc.fastq_File_Found = true ∧ C18Go.allFound = true) := by decide

/-- `a.fa`, `b.fa`, `a.fq`, `x` -/
def nameFa : Bytes := [97, 46, 102, 97]
def nameFb : Bytes := [98, 46, 102, 97]
def nameFq : Bytes := [97, 46, 102, 113]
def nameX : Bytes := [120]

/-- `>ab<LF>AC<LF>>c<LF>A` -/
def exFa : Bytes := [62, 97, 98, 10, 65, 67, 10, 62, 99, 10, 65]

/-- a toy `aio.Open`: `a.fa` opens on `exFa`; `b.fa` on the same bytes but the source FAILS after them;
any other name cannot be opened -/
def openFa (name : Bytes) : (Bytes × Ending) × GoErr :=
  if name = nameFa then ((exFa, .eof), GoErr.nil)
  else if name = nameFb then ((exFa, .fail), GoErr.nil)
  else (([], .eof), GoErr.other)

/-- the hypotheses of the theorems on it -/
example : (openFa nameX).2 ≠ GoErr.nil ∧ (openFa nameFa).2 = GoErr.nil
    ∧ (openFa nameFa).1.1.length + 1 ≤ 12
    ∧ ((openFa nameX).2 = GoErr.nil → (openFa nameX).1.1.length + 1 ≤ 0) := by decide

set_option synthInstance.maxSize 4096 in
/-- `fasta.Reader` and `fasta.File("a.fa")` read completely: the two records (what `iter` returns);
stopped after one item (a consumer that always declines; the stateful "at most one"); `iter` under the
two nested loop bodies handed over ONE item too; `"x"` cannot be opened: ONE error item, whatever the
consumer answers, even without fuel; a failing stream: the complete record, then the error item; too
little fuel: `none` -/
example : allFound = false ∨ (
    GoSrc.fasta_Reader 12 (exFa, .eof) (fun _ => true)
      = some [(some ([97, 98], [65, 67]), GoErr.nil), (some ([99], [65]), GoErr.nil)]
    ∧ GoSrc.fasta_File openFa 12 nameFa (fun _ => true)
      = some [(some ([97, 98], [65, 67]), GoErr.nil), (some ([99], [65]), GoErr.nil)]
    ∧ GoSrc.fasta_Reader 12 (exFa, .eof) (fun _ => false) = some [(some ([97, 98], [65, 67]), GoErr.nil)]
    ∧ GoSrc.fasta_File openFa 12 nameFa (fun _ => false) = some [(some ([97, 98], [65, 67]), GoErr.nil)]
    ∧ GoSrc.fasta_File openFa 12 nameFa (fun l => decide (l.length < 1))
      = some [(some ([97, 98], [65, 67]), GoErr.nil)]
    ∧ GoSrc.fasta_iter 12 exFa .eof (fwdC (fwdC (fun _ => false)))
      = some [(some ([97, 98], [65, 67]), GoErr.nil)]
    ∧ GoSrc.fasta_File openFa 0 nameX (fun _ => false) = some [(none, GoErr.other)]
    ∧ GoSrc.fasta_File openFa 0 nameX (fun _ => true) = some [(none, GoErr.other)]
    ∧ GoSrc.fasta_File openFa 12 nameFb (fun _ => true)
      = some [(some ([97, 98], [65, 67]), GoErr.nil), (none, GoErr.other)]
    ∧ GoSrc.fasta_File openFa 2 nameFa (fun _ => true) = none
    ∧ GoSrc.fasta_iter 2 exFa .eof (fun _ => true) = none) := by
  decide

/-- the model decode of the same bytes (`go_fasta_file_all`) -/
example : Fasta.decodeSrc .eof exFa = [.ok ⟨[97, 98], [65, 67]⟩, .ok ⟨[99], [65]⟩] := by decide +kernel

/-- the line tokens `@r`, `AC`, `+`, `II`, `@`, ``, `+@`, `` : two records -/
def exFq : List Bytes := [[64, 114], [65, 67], [43], [73, 73], [64], [], [43, 64], []]

/-- a toy `aio.Open` for FASTQ: `a.fq` opens on `exFq`, any other name fails (absurdly with `io.EOF`: it
is still reported) -/
def openFq (name : Bytes) : (List Bytes × Ending) × GoErr :=
  if name = nameFq then ((exFq, .eof), GoErr.nil) else (([], .eof), GoErr.eof)

example : (openFq nameX).2 ≠ GoErr.nil ∧ (openFq nameFq).2 = GoErr.nil
    ∧ (openFq nameFq).1.1.length + 1 ≤ 9 := by decide

set_option synthInstance.maxSize 4096 in
/-- `fastq.Reader` and `fastq.File("a.fq")` read completely: the two records; stopped after one item; the
stateful "at most two"; `"x"`: ONE error item carrying the error of `aio.Open`; a bad `+` line: one error
item and the end; too little fuel: `none` -/
example : allFound = false ∨ (
    GoSrc.fastq_Reader 9 (exFq, .eof) (fun _ => true)
      = some [(some ([114], [65, 67], [73, 73]), GoErr.nil), (some ([], [], []), GoErr.nil)]
    ∧ GoSrc.fastq_File openFq 9 nameFq (fun _ => true)
      = some [(some ([114], [65, 67], [73, 73]), GoErr.nil), (some ([], [], []), GoErr.nil)]
    ∧ GoSrc.fastq_Reader 9 (exFq, .eof) (fun _ => false) = some [(some ([114], [65, 67], [73, 73]), GoErr.nil)]
    ∧ GoSrc.fastq_File openFq 9 nameFq (fun _ => false) = some [(some ([114], [65, 67], [73, 73]), GoErr.nil)]
    ∧ GoSrc.fastq_File openFq 9 nameFq (fun l => decide (l.length < 1))
      = some [(some ([114], [65, 67], [73, 73]), GoErr.nil)]
    ∧ GoSrc.fastq_File openFq 9 nameFq (fun l => decide (l.length < 2))
      = some [(some ([114], [65, 67], [73, 73]), GoErr.nil), (some ([], [], []), GoErr.nil)]
    ∧ GoSrc.fastq_File openFq 0 nameX (fun _ => false) = some [(none, GoErr.eof)]
    ∧ GoSrc.fastq_File openFq 0 nameX (fun _ => true) = some [(none, GoErr.eof)]
    ∧ GoSrc.fastq_Reader 9 ([[64, 114], [65, 67], [45], [73, 73]], .eof) (fun _ => true)
      = some [(none, GoErr.other)]
    ∧ GoSrc.fastq_File openFq 1 nameFq (fun _ => true) = none) := by
  decide

/-- the model's records for the same tokens (`go_fastq_file_all`) -/
example : Fastq.fromLines .eof exFq = [.ok ⟨[114], [65, 67], [73, 73]⟩, .ok ⟨[], [], []⟩] := by decide

/-- an instance of the hypotheses of clause (c) of the early-stop theorems with `k = 1` -/
example : (fun l : List FaItem => decide (l.length < 2))
      ([(some ([97, 98], [65, 67]), GoErr.nil), (some ([99], [65]), GoErr.nil)].take 1) = true
    ∧ (fun l : List FaItem => decide (l.length < 2))
      ([(some ([97, 98], [65, 67]), GoErr.nil), (some ([99], [65]), GoErr.nil)].take 2) = false := by decide

end Bio.Props.C06File2Go
