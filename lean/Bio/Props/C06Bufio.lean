/-
  C06, the delivery-schedule clause, for the MODEL of the pull interface
  (Bio/Model/Bufio.lean): whatever the partition of the stream into successive
  Read results (any chunk sizes, empty reads, any number of chunks), a consumer
  that pulls bytes one at a time sees exactly the concatenation, then the
  ending.  Every model decoder is a function of (bytes, ending), hence of this
  view.  This is a theorem about the modelled bufio contract; that Go's bufio
  and the repository's use of it (ReadByte/UnreadByte, Scanner, ReadString)
  honour it is checked on the real code by the correspondence harness
  (every split offset, 1-byte reads, empty reads, data+EOF, File, gzip).
-/
import Bio.Model.Bufio
namespace Bio.Bufio

theorem fill_none (cs : List Bytes) (h : fill cs = none) : cs.flatten = [] := by
  induction cs with
  | nil => rfl
  | cons c cs ih =>
    cases c with
    | nil => simp only [fill] at h; simpa using ih h
    | cons b r => simp [fill] at h

theorem fill_some (cs : List Bytes) (b : UInt8) (r : Bytes) (cs' : List Bytes)
    (h : fill cs = some (b, r, cs')) :
    cs.flatten = b :: (r ++ cs'.flatten) ∧ cs'.length < cs.length := by
  induction cs with
  | nil => simp [fill] at h
  | cons c cs ih =>
    cases c with
    | nil =>
      simp only [fill] at h
      have := ih h
      exact ⟨by simpa using this.1, by simp; omega⟩
    | cons b' r' =>
      simp only [fill, Option.some.injEq, Prod.mk.injEq] at h
      obtain ⟨rfl, rfl, rfl⟩ := h
      exact ⟨by simp, by simp⟩

/-- All bytes still to come in state `s`. -/
def pending (s : St) : Bytes := s.buf ++ s.rest.flatten

theorem drain_spec (e : Ending) (fuel : Nat) (s : St)
    (hf : s.buf.length + s.rest.flatten.length + s.rest.length < fuel) :
    drain e fuel s = (pending s, some e) := by
  induction fuel generalizing s with
  | zero => omega
  | succ fuel ih =>
    obtain ⟨buf, rest⟩ := s
    cases buf with
    | cons b r =>
      simp only [drain, readByte, pending]
      rw [ih ⟨r, rest⟩ (by simp at hf ⊢; omega)]
      simp [pending]
    | nil =>
      simp only [drain, readByte, pending]
      cases hfill : fill rest with
      | none =>
        simp [fill_none rest hfill]
      | some t =>
        obtain ⟨b, r, cs⟩ := t
        have hs := fill_some rest b r cs hfill
        simp only
        rw [ih ⟨r, cs⟩ (by
          have h1 := congrArg List.length hs.1
          simp at h1 hf ⊢; omega)]
        simp [pending, hs.1]

/-- **Schedule independence.**  For every partition `chunks` of the data into
successive Read results and every ending, pulling bytes one at a time yields
the concatenation and then the ending. -/
theorem drain_schedule (e : Ending) (chunks : List Bytes) :
    drain e (chunks.flatten.length + chunks.length + 1) ⟨[], chunks⟩ = (chunks.flatten, some e) := by
  have := drain_spec e (chunks.flatten.length + chunks.length + 1) ⟨[], chunks⟩ (by simp)
  simpa [pending] using this

/-- Two schedules of the same stream are indistinguishable through the pull interface. -/
theorem schedules_indistinguishable (e : Ending) (c₁ c₂ : List Bytes) (h : c₁.flatten = c₂.flatten) :
    (drain e (c₁.flatten.length + c₁.length + 1) ⟨[], c₁⟩) =
    (drain e (c₂.flatten.length + c₂.length + 1) ⟨[], c₂⟩) := by
  rw [drain_schedule, drain_schedule, h]

/-- `UnreadByte` puts the byte back: the next `ReadByte` returns it and the state is restored. -/
theorem read_unread (e : Ending) (s : St) (b : UInt8) (s' : St) (h : readByte e s = .byte b s') :
    readByte e (unreadByte b s') = .byte b s' ∧ pending (unreadByte b s') = pending s := by
  refine ⟨by simp [readByte, unreadByte], ?_⟩
  obtain ⟨buf, rest⟩ := s
  cases buf with
  | cons b0 r =>
    simp only [readByte, RB.byte.injEq] at h
    obtain ⟨rfl, rfl⟩ := h
    simp [pending, unreadByte]
  | nil =>
    simp only [readByte] at h
    cases hfill : fill rest with
    | none => simp [hfill] at h
    | some t =>
      obtain ⟨b1, r, cs⟩ := t
      simp only [hfill, RB.byte.injEq] at h
      obtain ⟨rfl, rfl⟩ := h
      simp [pending, unreadByte, (fill_some rest _ r cs hfill).1]

example : drain .eof 20 ⟨[], [[1, 2], [], [], [3], [], [4, 5, 6]]⟩ = ([1, 2, 3, 4, 5, 6], some .eof) := by decide
example : drain .fail 20 ⟨[], [[], [7]]⟩ = ([7], some .fail) := by decide

end Bio.Bufio
