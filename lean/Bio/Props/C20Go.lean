/-
  C20 for the Go SOURCE TEXT: `(SubstitutionMatrix).Symmetrical` of align/align.go, the `init` of
  align/levenshtein.go (which builds `align.Levenshtein`) and `(SubstitutionMatrix).Get`, as
  translated on every run into `Bio.Generated.GoSrc.Matrix_Symmetrical` / `init_3` / `Matrix_Get`.

  A Go `map[[2]byte]float64` is an association list keyed by two-element lists (`mapGet`, `mapHas`,
  `mapSet` of `Bio.Model.GoRt`; scores are `Int` as in the hand model); `for k, v := range m`
  visits the list in list order.  Go leaves that order unspecified, so every theorem holds for
  EVERY well-formed list representing the map (`WF`: all keys of length 2, keys pairwise distinct,
  entries in any order), and results are described extensionally (`mapHas` / `mapGet` at every key)
  because the order of a Go map is not observable.  `none` = the Go code panics.

  1. `go_symmetrical_get`: `Symmetrical` panics exactly when two mirrored pairs carry different
     scores; otherwise the result holds exactly the original pairs and their mirror images, each
     with the original score, and is again a well-formed map.
  2. `go_symmetrical_model`: on the image `ofM m` of a model matrix the translated code panics iff
     the hand model `Bio.Matrix.symmetrical` does, and the two results are the same map.
  3. `go_symmetrical_order_independent`: the iteration order does not matter.
  4. `go_levenshtein_init`, `go_levenshtein_get`: the `init` does not panic and builds the complete
     256 × 256 table `0` on the diagonal, `-1` elsewhere, i.e. `Get` on it is `Bio.Align.levMat`
     (the matrix of `levenshtein_is_edit_distance`, C09).

  Every theorem is guarded by the translator's `<f>_Found` flags (see `Bio.Lemmas.GoSrc`).
-/
import Bio.Lemmas.GoSrcMatrix
import Bio.Props.C20
import Bio.Props.C09
namespace Bio.Props.C20Go
open Bio Bio.GoRt Bio.Generated Bio.GoSrcLemmas.MxGo

/-- every translator flag this file depends on; the non-vacuity examples below are stated as
`allFound = false ∨ …` so that a source the translator no longer recognises is not an alarm -/
def allFound : Bool :=
  GoSrc.Matrix_Symmetrical_Found && GoSrc.init_3_Found && GoSrc.Matrix_Get_Found

/-! ## 1. `Symmetrical` on any representation of the map

`keyOf k = [k.1, k.2]`, `ofM m = m.map fun e => (keyOf e.1, e.2)`,
`WF gm = (∀ e ∈ gm, e.1.length = 2) ∧ (gm.map (·.1)).Nodup` (decidable), see
`Bio.Lemmas.GoSrcMatrix`. -/

example : keyOf (65, 255) = [65, 255] := rfl
example (gm : List (List UInt8 × Int)) :
    WF gm ↔ (∀ e ∈ gm, e.1.length = 2) ∧ (gm.map (·.1)).Nodup := Iff.rfl
example (m : Matrix.M) : ofM m = m.map fun e => (keyOf e.1, e.2) := rfl

/-- For every well-formed `gm`, in ANY order: `Symmetrical` panics exactly when two mirrored pairs
carry different scores; otherwise the result `r` is a well-formed map that contains exactly the
original pairs and their mirror images, each with the original score. -/
theorem go_symmetrical_get : GoSrc.Matrix_Symmetrical_Found = true →
    ∀ gm : List (List UInt8 × Int), WF gm →
      (GoSrc.Matrix_Symmetrical gm = none ↔
        ∃ (a b : UInt8) (v v2 : Int), a ≠ b ∧ ([a, b], v) ∈ gm ∧ ([b, a], v2) ∈ gm ∧ v2 ≠ v) ∧
      ∀ r, GoSrc.Matrix_Symmetrical gm = some r →
        WF r ∧
        ∀ a b : UInt8,
          mapHas r [a, b] = (mapHas gm [a, b] || mapHas gm [b, a]) ∧
          mapGet r [a, b] 0
            = (if mapHas gm [a, b] = true then mapGet gm [a, b] 0 else mapGet gm [b, a] 0) := by
  intro hF gm h
  refine ⟨sym_none_iff hF h, ?_⟩
  intro r hr
  obtain ⟨hw, hl⟩ := sym_look hF h hr
  refine ⟨hw, ?_⟩
  intro a b
  simp only [mapHas_eq, mapGet_eq]
  exact has_get_of_iff (hl a b)

/-- `(A,C)=-3`, `(C,A)=-3`, `(A,A)=5`, `(G,gap)=2`: not symmetric (no `(gap,G)`), no conflict. -/
def gOK : List (List UInt8 × Int) := [([65, 67], -3), ([67, 65], -3), ([65, 65], 5), ([71, 255], 2)]
/-- the same map, entries in another order -/
def gOK' : List (List UInt8 × Int) := [([71, 255], 2), ([65, 65], 5), ([67, 65], -3), ([65, 67], -3)]
/-- `(A,C)=-3` but `(C,A)=1` -/
def gBad : List (List UInt8 × Int) := [([65, 67], -3), ([67, 65], 1)]

example : WF gOK ∧ WF gOK' ∧ WF gBad := by decide
example : allFound = false ∨ GoSrc.Matrix_Symmetrical_Found = true := by decide
example : allFound = false ∨ GoSrc.Matrix_Symmetrical gOK
    = some [([65, 67], -3), ([67, 65], -3), ([65, 65], 5), ([71, 255], 2), ([255, 71], 2)] := by
  decide
example : allFound = false ∨ GoSrc.Matrix_Symmetrical gBad = none := by decide
example : ∃ (a b : UInt8) (v v2 : Int), a ≠ b ∧ ([a, b], v) ∈ gBad ∧ ([b, a], v2) ∈ gBad ∧ v2 ≠ v :=
  ⟨65, 67, -3, 1, by decide, by decide, by decide, by decide⟩
/-- a key of the wrong length (not a `[2]byte`) is outside `WF` -/
example : ¬ WF [([65], 1)] ∧ ¬ WF [([65, 67], 1), ([65, 67], 2)] := by decide

/-! ## 2. The connection with the hand model -/

/-- On the image of a model matrix the translated `Symmetrical` panics iff the hand model does, and
otherwise the two results are the same map: the model's `get` is the Go map lookup. -/
theorem go_symmetrical_model : GoSrc.Matrix_Symmetrical_Found = true →
    ∀ m : Matrix.M, Matrix.KeyUnique m →
      (GoSrc.Matrix_Symmetrical (ofM m) = none ↔ Matrix.symmetrical m = none) ∧
      ∀ r r', GoSrc.Matrix_Symmetrical (ofM m) = some r → Matrix.symmetrical m = some r' →
        ∀ k, Matrix.get r' k
          = (if mapHas r (keyOf k) = true then some (mapGet r (keyOf k) 0) else none) := by
  intro hF m _
  obtain ⟨h1, h2⟩ := sym_model hF m
  refine ⟨h1, ?_⟩
  intro r r' hr hr' k
  rw [look_eq_has_get]
  exact h2 r r' hr hr' k

/-- The hypothesis `KeyUnique m` is exactly well-formedness of the Go-level image. -/
theorem wf_ofM_iff (m : Matrix.M) : WF (ofM m) ↔ Matrix.KeyUnique m := WF_ofM_iff m

example : Matrix.KeyUnique Matrix.mOK ∧ ofM Matrix.mOK = gOK := by decide
example : Matrix.KeyUnique Matrix.mBad ∧ ofM Matrix.mBad = gBad := by decide
example : allFound = false ∨
    (Matrix.symmetrical Matrix.mBad = none ∧ GoSrc.Matrix_Symmetrical (ofM Matrix.mBad) = none) := by
  decide
/-- the two result lists differ in order (the model's is sorted), not as maps -/
example : allFound = false ∨
    (Matrix.symmetrical Matrix.mOK
        = some [((65, 65), 5), ((65, 67), -3), ((67, 65), -3), ((71, 255), 2), ((255, 71), 2)] ∧
      GoSrc.Matrix_Symmetrical (ofM Matrix.mOK)
        = some [([65, 67], -3), ([67, 65], -3), ([65, 65], 5), ([71, 255], 2), ([255, 71], 2)]) := by
  decide

/-! ## 3. The iteration order does not matter -/

/-- For a well-formed `gm` and any rearrangement `gm'` of its entries: one panics iff the other
does, and otherwise the results agree as maps, at every key. -/
theorem go_symmetrical_order_independent : GoSrc.Matrix_Symmetrical_Found = true →
    ∀ gm gm' : List (List UInt8 × Int), WF gm → gm.Perm gm' →
      (GoSrc.Matrix_Symmetrical gm = none ↔ GoSrc.Matrix_Symmetrical gm' = none) ∧
      ∀ r r', GoSrc.Matrix_Symmetrical gm = some r → GoSrc.Matrix_Symmetrical gm' = some r' →
        ∀ k : List UInt8, mapHas r k = mapHas r' k ∧ mapGet r k 0 = mapGet r' k 0 := by
  intro hF gm gm' h hp
  have h' := WF_perm hp h
  constructor
  · rw [sym_none_iff hF h, sym_none_iff hF h']
    simp only [hp.mem_iff]
  · intro r r' hr hr' k
    exact has_get_ext (sym_perm_look hF h hp hr hr' k)

example : gOK.Perm gOK' := by decide
/-- the result lists really differ, as lists -/
example : allFound = false ∨
    (GoSrc.Matrix_Symmetrical gOK'
        = some [([71, 255], 2), ([255, 71], 2), ([65, 65], 5), ([67, 65], -3), ([65, 67], -3)] ∧
      GoSrc.Matrix_Symmetrical gOK' ≠ GoSrc.Matrix_Symmetrical gOK) := by
  decide
example : gBad.Perm gBad.reverse ∧
    (allFound = false ∨ GoSrc.Matrix_Symmetrical gBad.reverse = none) := by decide

/-! ## 4. `align.Levenshtein` -/

/-- The `init` of levenshtein.go does not panic, and the map it builds is well-formed, has exactly
`256 * 256` entries, and holds at every pair `0` on the diagonal and `-1` elsewhere (proved from
the two nested loops, not by evaluating them). -/
theorem go_levenshtein_init : GoSrc.init_3_Found = true →
    ∃ L, GoSrc.init_3 = some L ∧ WF L ∧ L.length = 65536 ∧
      ∀ x y : UInt8, mapHas L [x, y] = true ∧ mapGet L [x, y] 0 = (if x = y then 0 else -1) := by
  intro hF
  obtain ⟨L, hL, hinv⟩ := init_3_inv hF
  exact ⟨L, hL, levInv_final hinv⟩

/-- `Levenshtein.Get` never panics and is the matrix `levMat` of C09
(`levenshtein_is_edit_distance`). -/
theorem go_levenshtein_get : GoSrc.init_3_Found = true → GoSrc.Matrix_Get_Found = true →
    ∃ L, GoSrc.init_3 = some L ∧ ∀ x y : UInt8, GoSrc.Matrix_Get L x y = some (Align.levMat x y) := by
  intro hF hG
  obtain ⟨L, hL, _, _, hv⟩ := go_levenshtein_init hF
  exact ⟨L, hL, fun x y => Matrix_Get_of hG L x y _ (hv x y)⟩

example : allFound = false ∨ (GoSrc.init_3_Found = true ∧ GoSrc.Matrix_Get_Found = true) := by decide
example : Align.levMat 65 65 = 0 ∧ Align.levMat 65 67 = -1 ∧ Align.levMat 255 255 = 0 ∧
    Align.levMat 255 65 = -1 := by decide
/-- `Get` on a map that lacks the pair panics; on the 4-entry matrix it reads the gap pair. -/
example : allFound = false ∨
    (GoSrc.Matrix_Get gOK 71 255 = some 2 ∧ GoSrc.Matrix_Get gOK 255 71 = none) := by decide

end Bio.Props.C20Go
