/-
  C19 (and the C18 early stop) for the Go SOURCE TEXT of formats/newick/traverse.go:
  `(*Node).traverse`, `PreOrder`, `PostOrder`, as translated statement by statement on every run into
  `Bio.Generated.GoSrc.traverse` / `PreOrder` / `PostOrder`.  A Go `*Node` is the hand model's
  `Newick.Tree`, `n.Children` is `kidsOf n`; the `for len(stack) > 0 { … }` loop runs at most `fuel`
  iterations (out of fuel = `none`); the consumer `yield` is ANY deterministic consumer, stateful ones
  included: it is asked about the whole history of nodes handed to it so far (the current one last);
  the result is the log of the nodes handed over; `none` = a Go panic (index / slice out of range) or
  out of fuel.

  For every tree `t` (arbitrarily deep: no recursion anywhere), both orders, every consumer `h` and
  every `fuel ≥ 2 * size t` (the theorems are stated with the bound `2 * size t + 1` of the hand
  model; `go_traverse_sharp` has `2 * size t`, and `go_traverse_fuel_tight` shows that nothing
  smaller works for a consumer that never stops):

    GoSrc.traverse fuel t pre h  =  some (IterH.traverseH pre h t)
                                 =  some (takeThroughH h [] (if pre then preRec t else postRec t))

  i.e. the consumer sees the nodes in classic recursive pre- or post-order (children in order), every
  node exactly once, up to and including the first one after which it said stop, and nothing after
  it; no panic.  Proved through `GoSrcLemmas.trav_loop`: the translated loop from ANY well-formed
  stack and log is the model machine `IterH.travH` on the reversed stack (Go's top frame is last, the
  model's first), one loop iteration = one `travH` step.
  Guarded by the translator's `<f>_Found` flags (see `Bio.Lemmas.GoSrc`).
-/
import Bio.Lemmas.GoSrcTraverse
import Bio.Props.C19
namespace Bio.Props.C19Go
open Bio Bio.GoRt Bio.Generated Bio.GoSrcLemmas

/-- every translator flag this file depends on; the non-vacuity examples below are stated as
`allFound = false ∨ …` so that a source the translator no longer recognises is not an alarm -/
def allFound : Bool := GoSrc.traverse_Found && GoSrc.PreOrder_Found && GoSrc.PostOrder_Found

/-! ## 1. The translated `traverse` is the hand model, for every consumer -/

/-- THE statement: the translated closure, run with any consumer (it may keep state), logs what the
hand-written history machine `IterH.traverseH` logs — and does not panic or run out of fuel. -/
theorem go_traverse : GoSrc.traverse_Found = true →
    ∀ (t : Newick.Tree) (pre : Bool) (h : List Newick.Tree → Bool) (fuel : Nat), 2 * t.size + 1 ≤ fuel →
      GoSrc.traverse fuel t pre h = some (IterH.traverseH pre h t) :=
  fun hF t pre h fuel hf => traverse_eq hF t pre h fuel (by omega)

/-- The same with the smallest fuel: `2 * size - 1` iterations do the work (one per node entered,
one per child pushed … ), one more sees the empty stack. -/
theorem go_traverse_sharp : GoSrc.traverse_Found = true →
    ∀ (t : Newick.Tree) (pre : Bool) (h : List Newick.Tree → Bool) (fuel : Nat), 2 * t.size ≤ fuel →
      GoSrc.traverse fuel t pre h = some (IterH.traverseH pre h t) :=
  fun hF t pre h fuel hf => traverse_eq hF t pre h fuel hf

/-- … and no smaller fuel is enough for a consumer that never stops: out of fuel, `none`. -/
theorem go_traverse_fuel_tight : GoSrc.traverse_Found = true →
    ∀ (t : Newick.Tree) (pre : Bool) (fuel : Nat), fuel < 2 * t.size →
      GoSrc.traverse fuel t pre (fun _ => true) = none :=
  fun hF t pre fuel hf => traverse_short hF t pre fuel hf

/-! ## 2. The log: the recursive order, cut by the consumer -/

theorem go_traverse_log : GoSrc.traverse_Found = true →
    ∀ (t : Newick.Tree) (pre : Bool) (h : List Newick.Tree → Bool) (fuel : Nat), 2 * t.size + 1 ≤ fuel →
      GoSrc.traverse fuel t pre h
        = some (takeThroughH h [] (if pre then Newick.preRec t else Newick.postRec t)) :=
  fun hF t pre h fuel hf => traverse_log hF t pre h fuel (by omega)

/-- For a consumer without state (`lastH f` judges the current node by `f`) this is the pure-consumer
hand model `Newick.traverse` of C19 / C18. -/
theorem go_traverse_model : GoSrc.traverse_Found = true →
    ∀ (t : Newick.Tree) (pre : Bool) (f : Newick.Tree → Bool) (fuel : Nat), 2 * t.size + 1 ≤ fuel →
      GoSrc.traverse fuel t pre (lastH f) = some (Newick.traverse pre f t)
      ∧ GoSrc.traverse fuel t pre (lastH f)
          = some (takeThrough (fun x => !f x) (if pre then Newick.preRec t else Newick.postRec t)) := by
  intro hF t pre f fuel hf
  rw [traverse_log hF t pre _ fuel (by omega), takeThroughH_lastH, Newick.traverse_log]
  exact ⟨rfl, rfl⟩

/-! ## 3. The exported wrappers -/

theorem go_PreOrder : GoSrc.traverse_Found = true → GoSrc.PreOrder_Found = true →
    ∀ (t : Newick.Tree) (h : List Newick.Tree → Bool) (fuel : Nat), 2 * t.size + 1 ≤ fuel →
      GoSrc.PreOrder fuel t h = some (takeThroughH h [] (Newick.preRec t)) := by
  intro hF hP t h fuel hf
  rw [PreOrder_eq_traverse hP, traverse_log hF t true h fuel (by omega)]
  rfl

theorem go_PostOrder : GoSrc.traverse_Found = true → GoSrc.PostOrder_Found = true →
    ∀ (t : Newick.Tree) (h : List Newick.Tree → Bool) (fuel : Nat), 2 * t.size + 1 ≤ fuel →
      GoSrc.PostOrder fuel t h = some (takeThroughH h [] (Newick.postRec t)) := by
  intro hF hP t h fuel hf
  rw [PostOrder_eq_traverse hP, traverse_log hF t false h fuel (by omega)]
  rfl

/-- `PreOrder` / `PostOrder` are `traverse(true)` / `traverse(false)`, for every fuel and consumer. -/
theorem go_wrappers : GoSrc.PreOrder_Found = true → GoSrc.PostOrder_Found = true →
    ∀ (t : Newick.Tree) (h : List Newick.Tree → Bool) (fuel : Nat),
      GoSrc.PreOrder fuel t h = GoSrc.traverse fuel t true h
      ∧ GoSrc.PostOrder fuel t h = GoSrc.traverse fuel t false h :=
  fun hP hQ t h fuel => ⟨PreOrder_eq_traverse hP fuel t h, PostOrder_eq_traverse hQ fuel t h⟩

/-! ## 4. The uninterrupted run: every node once, in the documented order (C19) -/

/-- A consumer that never stops sees exactly the recursive pre- resp. post-order — which is what the
hand models `Newick.preOrder` / `Newick.postOrder` of C19 produce. -/
theorem go_traverse_all : GoSrc.traverse_Found = true →
    ∀ (t : Newick.Tree) (pre : Bool) (fuel : Nat), 2 * t.size + 1 ≤ fuel →
      GoSrc.traverse fuel t pre (fun _ => true)
        = some (if pre then Newick.preRec t else Newick.postRec t)
      ∧ GoSrc.traverse fuel t pre (fun _ => true)
        = some (if pre then Newick.preOrder t else Newick.postOrder t) := by
  intro hF t pre fuel hf
  rw [traverse_log hF t pre _ fuel (by omega), takeThroughH_true_nil]
  refine ⟨rfl, ?_⟩
  cases pre <;> simp [Newick.preOrder_eq, Newick.postOrder_eq]

/-- Mirror of `Newick.each_once` and `preOrder_unfold` / `postOrder_unfold` for the translated
`PreOrder` / `PostOrder`: the two logs `P`, `Q` are the recursive orders; each has exactly `size`
entries; they hold the same nodes the same number of times; the root comes first (pre) resp. last
(post); and `P` is the node followed by the pre-orders of its children in order, `Q` the post-orders
of its children in order followed by the node. -/
theorem go_each_once : GoSrc.traverse_Found = true → GoSrc.PreOrder_Found = true →
    GoSrc.PostOrder_Found = true →
    ∀ (t : Newick.Tree) (fuel : Nat), 2 * t.size + 1 ≤ fuel →
      ∃ P Q, GoSrc.PreOrder fuel t (fun _ => true) = some P
        ∧ GoSrc.PostOrder fuel t (fun _ => true) = some Q
        ∧ P = Newick.preRec t ∧ Q = Newick.postRec t
        ∧ P = Newick.preOrder t ∧ Q = Newick.postOrder t
        ∧ P.length = t.size ∧ Q.length = t.size
        ∧ P.Perm Q
        ∧ P.head? = some t ∧ Q.getLast? = some t
        ∧ P = t :: (kidsOf t).flatMap Newick.preRec
        ∧ Q = (kidsOf t).flatMap Newick.postRec ++ [t] := by
  intro hF hP hQ t fuel hf
  refine ⟨Newick.preRec t, Newick.postRec t, ?_, ?_, rfl, rfl, (Newick.preOrder_eq t).symm,
    (Newick.postOrder_eq t).symm, preRec_length t, postRec_length t, preRec_perm_postRec t, ?_, ?_,
    preRec_kidsOf t, postRec_kidsOf t⟩
  · rw [go_PreOrder hF hP t _ fuel hf, takeThroughH_true_nil]
  · rw [go_PostOrder hF hQ t _ fuel hf, takeThroughH_true_nil]
  · simp [Newick.preRec]
  · simp [Newick.postRec]

/-- The recursive characterisation entirely at the Go level: with the same fuel, the uninterrupted
`PreOrder` log of `n` is `n` followed by the `PreOrder` logs of `n.Children[0]`, `n.Children[1]`, …
and the `PostOrder` log is the `PostOrder` logs of the children followed by `n`. -/
theorem go_order_unfold : GoSrc.traverse_Found = true → GoSrc.PreOrder_Found = true →
    GoSrc.PostOrder_Found = true →
    ∀ (t : Newick.Tree) (fuel : Nat), 2 * t.size + 1 ≤ fuel →
      (∀ c ∈ kidsOf t, GoSrc.PreOrder fuel c (fun _ => true) = some (Newick.preRec c)
          ∧ GoSrc.PostOrder fuel c (fun _ => true) = some (Newick.postRec c))
      ∧ GoSrc.PreOrder fuel t (fun _ => true) = some (t :: (kidsOf t).flatMap Newick.preRec)
      ∧ GoSrc.PostOrder fuel t (fun _ => true) = some ((kidsOf t).flatMap Newick.postRec ++ [t]) := by
  intro hF hP hQ t fuel hf
  refine ⟨?_, ?_, ?_⟩
  · intro c hc
    have := size_of_mem_kidsOf t c hc
    rw [go_PreOrder hF hP c _ fuel (by omega), go_PostOrder hF hQ c _ fuel (by omega),
      takeThroughH_true_nil, takeThroughH_true_nil]
    exact ⟨rfl, rfl⟩
  · rw [go_PreOrder hF hP t _ fuel hf, takeThroughH_true_nil, preRec_kidsOf]
  · rw [go_PostOrder hF hQ t _ fuel hf, takeThroughH_true_nil, postRec_kidsOf]

/-! ## 5. Early stop (C18), for every consumer with or without state -/

/-- (a) the log `L` is a prefix of the full order; (b) the consumer answered `true` on every proper
prefix history of the log; (c) if it answered `false` at some history, that is the last item: no call
after it. -/
theorem go_traverse_early_stop : GoSrc.traverse_Found = true →
    ∀ (t : Newick.Tree) (pre : Bool) (h : List Newick.Tree → Bool) (fuel : Nat), 2 * t.size + 1 ≤ fuel →
      ∃ L, GoSrc.traverse fuel t pre h = some L
        ∧ L <+: (if pre then Newick.preRec t else Newick.postRec t)
        ∧ L <+: (if pre then Newick.preOrder t else Newick.postOrder t)
        ∧ (∀ i, i + 1 < L.length → h (L.take (i + 1)) = true)
        ∧ (∀ i, i < L.length → h (L.take (i + 1)) = false → i + 1 = L.length) := by
  intro hF t pre h fuel hf
  refine ⟨_, traverse_log hF t pre h fuel (by omega), takeThroughH_prefix _ _, ?_,
    takeThroughH_go_on _ _, takeThroughH_stop _ _⟩
  have := takeThroughH_prefix h (if pre then Newick.preRec t else Newick.postRec t)
  cases pre <;> simpa [Newick.preOrder_eq, Newick.postOrder_eq] using this

/-- The same for the exported `PreOrder` / `PostOrder`. -/
theorem go_PreOrder_PostOrder_early_stop : GoSrc.traverse_Found = true → GoSrc.PreOrder_Found = true →
    GoSrc.PostOrder_Found = true →
    ∀ (t : Newick.Tree) (h : List Newick.Tree → Bool) (fuel : Nat), 2 * t.size + 1 ≤ fuel →
      (∃ L, GoSrc.PreOrder fuel t h = some L ∧ L <+: Newick.preRec t
        ∧ (∀ i, i + 1 < L.length → h (L.take (i + 1)) = true)
        ∧ (∀ i, i < L.length → h (L.take (i + 1)) = false → i + 1 = L.length))
      ∧ (∃ L, GoSrc.PostOrder fuel t h = some L ∧ L <+: Newick.postRec t
        ∧ (∀ i, i + 1 < L.length → h (L.take (i + 1)) = true)
        ∧ (∀ i, i < L.length → h (L.take (i + 1)) = false → i + 1 = L.length)) :=
  fun hF hP hQ t h fuel hf =>
    ⟨⟨_, go_PreOrder hF hP t h fuel hf, takeThroughH_prefix _ _, takeThroughH_go_on _ _,
        takeThroughH_stop _ _⟩,
     ⟨_, go_PostOrder hF hQ t h fuel hf, takeThroughH_prefix _ _, takeThroughH_go_on _ _,
        takeThroughH_stop _ _⟩⟩

/-- Consumer without state: every node handed over but the last was accepted, and a declined node is
the last one logged. -/
theorem go_traverse_early_stop_pure : GoSrc.traverse_Found = true →
    ∀ (t : Newick.Tree) (pre : Bool) (f : Newick.Tree → Bool) (fuel : Nat), 2 * t.size + 1 ≤ fuel →
      ∃ L, GoSrc.traverse fuel t pre (lastH f) = some L
        ∧ L <+: (if pre then Newick.preRec t else Newick.postRec t)
        ∧ (∀ x ∈ L.dropLast, f x = true)
        ∧ (∀ i x, L[i]? = some x → f x = false → i + 1 = L.length) := by
  intro hF t pre f fuel hf
  have hd : ∀ x ∈ (takeThrough (fun x => !f x)
      (if pre then Newick.preRec t else Newick.postRec t)).dropLast, f x = true := by
    intro x hx
    simpa using takeThrough_dropLast (fun x => !f x) _ x hx
  exact ⟨_, (go_traverse_model hF t pre f fuel hf).2, takeThrough_isPrefix _ _, hd,
    declined_is_last f _ hd⟩

/-! ## 6. No panic, whatever the depth -/

/-- With enough fuel the translated closure never panics (no index or slice out of range) and ends by
itself, for every tree — arbitrarily deep: neither the Go code nor the translation recurses — and
every consumer. -/
theorem go_traverse_no_panic : GoSrc.traverse_Found = true → GoSrc.PreOrder_Found = true →
    GoSrc.PostOrder_Found = true →
    ∀ (t : Newick.Tree) (pre : Bool) (h : List Newick.Tree → Bool) (fuel : Nat), 2 * t.size + 1 ≤ fuel →
      GoSrc.traverse fuel t pre h ≠ none ∧ (GoSrc.traverse fuel t pre h).isSome = true
      ∧ GoSrc.PreOrder fuel t h ≠ none ∧ GoSrc.PostOrder fuel t h ≠ none := by
  intro hF hP hQ t pre h fuel hf
  rw [go_traverse hF t pre h fuel hf, go_PreOrder hF hP t h fuel hf, go_PostOrder hF hQ t h fuel hf]
  simp

/-! ## Concrete instances -/

example : allFound = false ∨ (GoSrc.traverse_Found = true ∧ GoSrc.PreOrder_Found = true
    ∧ GoSrc.PostOrder_Found = true) := by decide

/-- `((c,d)a,b,(f)e)r` — 7 nodes, depth 3 -/
def exT : Newick.Tree :=
  ⟨[114], none,
    .cons [97] none (.cons [99] none .nil (.cons [100] none .nil .nil))
      (.cons [98] none .nil
        (.cons [101] none (.cons [102] none .nil .nil) .nil))⟩

/-- a path `a0 - a1 - … ` of depth `d + 1` (for the depth examples) -/
def exPath : Nat → Newick.Tree
  | 0 => ⟨[48], none, .nil⟩
  | d + 1 => ⟨[49], none, .cons (exPath d).name (exPath d).dist (exPath d).kids .nil⟩

def names (r : Option (List Newick.Tree)) : Option (List Bytes) := r.map (·.map (·.name))

example : exT.size = 7 ∧ 2 * exT.size + 1 ≤ 15 ∧ 2 * exT.size ≤ 14 ∧ 13 < 2 * exT.size := by decide
example : (kidsOf exT).map (·.name) = [[97], [98], [101]] := by decide
example : (Newick.preRec exT).map (·.name) = [[114], [97], [99], [100], [98], [101], [102]] := by decide
example : (Newick.postRec exT).map (·.name) = [[99], [100], [97], [98], [102], [101], [114]] := by decide

-- the consumer that never stops: every node once, in pre- resp. post-order
example : allFound = false ∨ (
    names (GoSrc.traverse 15 exT true (fun _ => true)) = some [[114], [97], [99], [100], [98], [101], [102]]
    ∧ names (GoSrc.traverse 15 exT false (fun _ => true)) = some [[99], [100], [97], [98], [102], [101], [114]]
    ∧ GoSrc.PreOrder 15 exT (fun _ => true) = some (Newick.preRec exT)
    ∧ GoSrc.PostOrder 15 exT (fun _ => true) = some (Newick.postRec exT)
    ∧ GoSrc.PreOrder 15 exT (fun _ => true) = some (Newick.preOrder exT)
    ∧ GoSrc.PostOrder 15 exT (fun _ => true) = some (Newick.postOrder exT)) := by decide +kernel
-- a genuinely STATEFUL consumer: "stop at the third node whatever it is"
example : allFound = false ∨ (
    names (GoSrc.traverse 15 exT true (fun l => l.length < 3)) = some [[114], [97], [99]]
    ∧ names (GoSrc.traverse 15 exT false (fun l => l.length < 3)) = some [[99], [100], [97]]
    ∧ names (GoSrc.PreOrder 15 exT (fun l => l.length < 3)) = some [[114], [97], [99]]
    ∧ names (GoSrc.PostOrder 15 exT (fun l => l.length < 3)) = some [[99], [100], [97]]
    ∧ GoSrc.traverse 15 exT true (fun l => l.length < 3) = some (IterH.traverseH true (fun l => l.length < 3) exT)
    ∧ GoSrc.traverse 15 exT false (fun l => l.length < 3)
        = some (IterH.traverseH false (fun l => l.length < 3) exT)) := by decide +kernel
-- (b), (c) on that run: `true` after the first two nodes, `false` after the third, which is the last
example : allFound = false ∨ (
    (GoSrc.traverse 15 exT true (fun l => l.length < 3)).map (·.length) = some 3
    ∧ (fun l : List Newick.Tree => decide (l.length < 3)) ((Newick.preRec exT).take (1 + 1)) = true
    ∧ (fun l : List Newick.Tree => decide (l.length < 3)) ((Newick.preRec exT).take (2 + 1)) = false) := by
  decide +kernel
-- a consumer without state that declines node "d"; one that declines everything
example : allFound = false ∨ (
    names (GoSrc.traverse 15 exT true (lastH fun x => x.name != [100])) = some [[114], [97], [99], [100]]
    ∧ names (GoSrc.traverse 15 exT false (lastH fun x => x.name != [100])) = some [[99], [100]]
    ∧ names (GoSrc.traverse 15 exT true (fun _ => false)) = some [[114]]
    ∧ names (GoSrc.traverse 15 exT false (fun _ => false)) = some [[99]]) := by decide +kernel
-- the fuel: `2 * size = 14` is enough, `13` is not for a consumer that never stops (out of fuel =
-- `none`), but is for one that stops early
example : allFound = false ∨ (
    (GoSrc.traverse 14 exT true (fun _ => true)).isSome = true
    ∧ GoSrc.traverse 13 exT true (fun _ => true) = none
    ∧ GoSrc.traverse 13 exT false (fun _ => true) = none
    ∧ names (GoSrc.traverse 5 exT true (fun l => l.length < 3)) = some [[114], [97], [99]]) := by
  decide +kernel
-- depth: a path of 40 nodes (depth 40) — no panic, 40 nodes each way
example : allFound = false ∨ (
    (exPath 39).size = 40
    ∧ (GoSrc.traverse 81 (exPath 39) true (fun _ => true)).map (·.length) = some 40
    ∧ (GoSrc.traverse 81 (exPath 39) false (fun _ => true)).map (·.length) = some 40
    ∧ (GoSrc.traverse 81 (exPath 39) false (fun _ => true)).map (·.head?.map (·.name)) = some (some [48])) := by
  decide +kernel
-- a single leaf
example : allFound = false ∨ (
    GoSrc.traverse 3 ⟨[120], none, .nil⟩ true (fun _ => true) = some [⟨[120], none, .nil⟩]
    ∧ GoSrc.traverse 3 ⟨[120], none, .nil⟩ false (fun _ => false) = some [⟨[120], none, .nil⟩]
    ∧ GoSrc.traverse 1 ⟨[120], none, .nil⟩ true (fun _ => true) = none) := by decide +kernel

end Bio.Props.C19Go
