/-
  C20 for the byte-quoting table regenerated from /repo (`%q` of each byte as
  GoString prints it, `Gap` for 255): 256 entries, non-empty, pairwise
  distinct — so distinct keys print distinctly and the generated Go source
  denotes each key unambiguously.  (That each text is the Go rune literal of
  its byte is checked on the real output with go/parser by the harness.)
-/
import Bio.Props.C20
import Bio.Generated.Tables
namespace Bio.Matrix

theorem generated_quoteTable_ok :
    Generated.quoteTable.length = 256 ∧ Generated.quoteTable.Nodup ∧
    Generated.quoteTable.all (fun q => !q.isEmpty && !q.contains 10) = true := by
  decide +kernel

/-- The Gap symbol prints as the identifier `Gap`. -/
theorem generated_quote_gap : Generated.quoteTable[255]? = some [71, 97, 112] := by decide +kernel

end Bio.Matrix
