/-
  C04 (BED), writer half, for the Go SOURCE TEXT of `(*BED).Write` (formats/bed/bed.go), as translated
  on every run into `Bio.Generated.GoSrc.bed_Write` over the abstract writer `Bio.GoRt.Wr` (`room` =
  bytes it still accepts, `out` = bytes accepted so far; one `fmt.Fprintf` = one `wrWrite`).
  `goBedWrite b w` is the translated `Write` on the fields of the model record `b` (`ItemRGB [3]byte`
  as the 3-element list).  For every record, every writer and every number `k` of bytes the
  destination accepts before it starts failing:

  * with `3 ≤ N ≤ 12` the translated `Write` performs exactly the calls `bedWriteCalls b`, in order,
    stopping at the first failing one, and returns the writer's error; with `N` outside `3…12` it
    returns an error and writes NOTHING; it never panics;
  * the calls concatenated are the model's `Bed.encode b` (and `Bed.encode b = none` exactly for the
    refused field counts);
  * it returns an error iff `k < len(text)`, and the bytes accepted are the first `k` bytes of the text;
  * what it puts on a large enough writer is read back by the model reader (`Bed.decode`) as the
    records written (restricted to their first `N` fields), for records well-formed in the sense of
    `Bio.Props.C04`.

  Guarded by the translator's `bed_Write_Found` flag (see `Bio.Lemmas.GoSrc`).
-/
import Bio.Lemmas.GoSrcBed
import Bio.Props.C04
namespace Bio.Props.C04Go
open Bio Bio.GoRt Bio.Generated Bio.GoSrcLemmas

/-! ## 1. The translated `Write` is the sequence of `Write` calls -/

/-- On ANY writer: the calls `bedWriteCalls b` in order, stopping at the first failing one
(`wrWriteAll`); the error returned is the writer's. -/
theorem go_bed_write_calls : GoSrc.bed_Write_Found = true → ∀ (b : Bed.Bed) (w : Wr),
    3 ≤ b.n → b.n ≤ 12 →
    goBedWrite b w = some ((wrWriteAll w (bedWriteCalls b)).2, (wrWriteAll w (bedWriteCalls b)).1) :=
  fun hF b w h3 h12 => bed_Write_eq hF b w h3 h12

/-- A field count outside `3…12`: an error and NOTHING written (the writer is untouched). -/
theorem go_bed_write_bad_n : GoSrc.bed_Write_Found = true → ∀ (b : Bed.Bed) (w : Wr),
    (b.n < 3 ∨ b.n > 12) → goBedWrite b w = some (GoErr.other, w) :=
  fun hF b w h => bed_Write_bad_n hF b w h

/-- The calls, concatenated, are the model's text; the model refuses exactly the field counts the
Go code refuses.  (No translator flag needed: a statement about the model and `bedWriteCalls`.) -/
theorem bedWriteCalls_flatten : ∀ (b : Bed.Bed),
    (3 ≤ b.n → b.n ≤ 12 → Bed.encode b = some (bedWriteCalls b).flatten)
    ∧ ((b.n < 3 ∨ b.n > 12) → Bed.encode b = none) :=
  fun b => ⟨bedWriteCalls_flatten_eq b, bed_encode_none b⟩

/-- The translated `Write` never panics (the `[3]byte` array has its three elements). -/
theorem go_bed_no_panic : GoSrc.bed_Write_Found = true → ∀ (b : Bed.Bed) (w : Wr),
    goBedWrite b w ≠ none := by
  intro hF b w
  by_cases h : b.n < 3 ∨ b.n > 12
  · rw [bed_Write_bad_n hF b w h]; simp
  · rw [bed_Write_eq hF b w (by omega) (by omega)]; simp

/-- It succeeds or fails exactly as the model says: an error without a single byte written iff the
model's `encode` refuses the record. -/
theorem go_bed_write_refuses_iff : GoSrc.bed_Write_Found = true → ∀ (b : Bed.Bed),
    (Bed.encode b = none ↔ ∀ w, goBedWrite b w = some (GoErr.other, w)) := by
  intro hF b
  constructor
  · intro he w
    by_cases h : b.n < 3 ∨ b.n > 12
    · exact bed_Write_bad_n hF b w h
    · rw [bedWriteCalls_flatten_eq b (by omega) (by omega)] at he; cases he
  · intro hw
    by_cases h : b.n < 3 ∨ b.n > 12
    · exact bed_encode_none b h
    · have h1 := bed_Write_fault hF b _ (bedWriteCalls_flatten_eq b (by omega) (by omega))
        (bedWriteCalls b).flatten.length []
      rw [hw] at h1
      simp at h1

example : 3 ≤ Bed.ex12.n ∧ Bed.ex12.n ≤ 12 ∧ Bed.ex12.blockSizes.length = 2
    ∧ Bed.ex12.blockStarts.length = 2 := by decide
example : ({ Bed.ex12 with n := 13 } : Bed.Bed).n < 3 ∨ ({ Bed.ex12 with n := 13 } : Bed.Bed).n > 12 := by decide
example : ({ Bed.ex12 with n := -4 } : Bed.Bed).n < 3 ∨ ({ Bed.ex12 with n := -4 } : Bed.Bed).n > 12 := by decide

/-- The fifteen calls for `ex12` (12 fields, two blocks): `chr1 -5 maxInt64` together, then
`\t"a"\0\xFF# `, `\tminInt64`, `\t-`, `\t0`, `\t-1`, `\t255,0,7`, `\t2`, then `\t`, `10`, `,-20`, then
`\t`, `0`, `,300`, then the newline. -/
example : bedWriteCalls Bed.ex12 =
    [[99, 104, 114, 49, 9, 45, 53, 9, 57, 50, 50, 51, 51, 55, 50, 48, 51, 54, 56, 53, 52, 55, 55, 53, 56, 48, 55],
     [9, 34, 97, 34, 0, 255, 35, 32],
     [9, 45, 57, 50, 50, 51, 51, 55, 50, 48, 51, 54, 56, 53, 52, 55, 55, 53, 56, 48, 56],
     [9, 45], [9, 48], [9, 45, 49], [9, 50, 53, 53, 44, 48, 44, 55], [9, 50],
     [9], [49, 48], [44, 45, 50, 48], [9], [48], [44, 51, 48, 48], [10]] := by decide +kernel
/-- three fields: one call and the newline; eleven fields: no call for the starts -/
example : (bedWriteCalls Bed.ex3).length = 2 ∧ (bedWriteCalls Bed.ex11).length = 12
    ∧ (bedWriteCalls Bed.ex10).length = 9 := by decide +kernel

/-- the translator found the method -/
example : GoSrc.bed_Write_Found = false ∨ GoSrc.bed_Write_Found = true := by decide

/-- The translated code itself, run on `ex12`: enough room (after a byte already written); a field
count of 13 or 2: an error, the writer untouched. -/
example : GoSrc.bed_Write_Found = false ∨ (
    goBedWrite Bed.ex12 ⟨100, [7]⟩ = some (GoErr.nil, ⟨13,
      [7, 99, 104, 114, 49, 9, 45, 53, 9, 57, 50, 50, 51, 51, 55, 50, 48, 51, 54, 56, 53, 52, 55, 55, 53, 56, 48,
       55, 9, 34, 97, 34, 0, 255, 35, 32, 9, 45, 57, 50, 50, 51, 51, 55, 50, 48, 51, 54, 56, 53, 52, 55, 55, 53, 56,
       48, 56, 9, 45, 9, 48, 9, 45, 49, 9, 50, 53, 53, 44, 48, 44, 55, 9, 50, 9, 49, 48, 44, 45, 50, 48, 9, 48, 44,
       51, 48, 48, 10]⟩)
    ∧ goBedWrite { Bed.ex12 with n := 13 } ⟨200, [1]⟩ = some (GoErr.other, ⟨200, [1]⟩)
    ∧ goBedWrite { Bed.ex12 with n := 2 } ⟨200, [1]⟩ = some (GoErr.other, ⟨200, [1]⟩)
    ∧ goBedWrite Bed.ex3 ⟨200, []⟩ = some (GoErr.nil, ⟨176,
      [9, 45, 53, 9, 57, 50, 50, 51, 51, 55, 50, 48, 51, 54, 56, 53, 52, 55, 55, 53, 56, 48, 55, 10]⟩)) := by
  decide +kernel

/-! ## 2. The destination starts failing after `k` bytes -/

/-- The exact result on a writer that has already accepted `o` and accepts `k` more bytes: the
error value, the room left and the bytes accepted. -/
theorem go_bed_write_exact : GoSrc.bed_Write_Found = true → ∀ (b : Bed.Bed) (enc : Bytes),
    Bed.encode b = some enc → ∀ (k : Nat) (o : Bytes),
    goBedWrite b ⟨k, o⟩
      = some (if enc.length ≤ k then GoErr.nil else GoErr.other,
          ⟨k - (enc.take k).length, o ++ enc.take k⟩) :=
  fun hF b enc he k o => bed_Write_fault hF b enc he k o

/-- With enough room: no error, the output is exactly the model's text. -/
theorem go_bed_write_bytes : GoSrc.bed_Write_Found = true → ∀ (b : Bed.Bed) (enc : Bytes),
    Bed.encode b = some enc → ∀ (k : Nat) (o : Bytes), enc.length ≤ k →
    goBedWrite b ⟨k, o⟩ = some (GoErr.nil, ⟨k - enc.length, o ++ enc⟩) := by
  intro hF b enc he k o h
  rw [bed_Write_fault hF b enc he k o]
  simp only [h, if_true, List.take_of_length_le h]

/-- A writer that fails after `k` bytes, `k` less than the text: `Write` returns a non-nil error and
exactly the first `k` bytes of the text were written. -/
theorem go_bed_write_fault : GoSrc.bed_Write_Found = true → ∀ (b : Bed.Bed) (enc : Bytes),
    Bed.encode b = some enc → ∀ (k : Nat) (o : Bytes), k < enc.length →
    goBedWrite b ⟨k, o⟩ = some (GoErr.other, ⟨0, o ++ enc.take k⟩) := by
  intro hF b enc he k o h
  rw [bed_Write_fault hF b enc he k o]
  have h1 : ¬ enc.length ≤ k := by omega
  have h2 : k - (enc.take k).length = 0 := by simp only [List.length_take]; omega
  simp only [h1, if_false, h2]

/-- The form of `C07Go.go_fasta_write_fault`: an error iff `k < len(text)`; the bytes accepted are
the first `k` bytes of the text. -/
theorem go_bed_write_fault_iff : GoSrc.bed_Write_Found = true → ∀ (b : Bed.Bed) (enc : Bytes),
    Bed.encode b = some enc → ∀ (k : Nat),
    ∃ err w', goBedWrite b ⟨k, []⟩ = some (err, w')
      ∧ (err ≠ GoErr.nil ↔ k < enc.length) ∧ w'.out = enc.take k := by
  intro hF b enc he k
  refine ⟨_, _, bed_Write_fault hF b enc he k [], ?_, by simp⟩
  by_cases h : enc.length ≤ k
  · simp only [h, if_true]; constructor
    · intro h'; exact absurd rfl h'
    · intro h'; omega
  · simp only [h, if_false]; constructor
    · intro _; omega
    · intro _ h'; cases h'

/-- the text of `ex12` has 87 bytes -/
example : (Bed.encode Bed.ex12).map List.length = some 87 := by decide +kernel
example : ∃ enc, Bed.encode Bed.ex12 = some enc ∧ enc.length ≤ 100 ∧ 75 < enc.length :=
  ⟨_, rfl, by decide +kernel, by decide +kernel⟩
/-- Room for 75 bytes: the calls up to the TAB before the block sizes fit, the call `10` is cut
after its first byte and no further call is made; room for 80: cut exactly between two calls. -/
example : GoSrc.bed_Write_Found = false ∨ (
    goBedWrite Bed.ex12 ⟨75, []⟩ = some (GoErr.other, ⟨0,
      [99, 104, 114, 49, 9, 45, 53, 9, 57, 50, 50, 51, 51, 55, 50, 48, 51, 54, 56, 53, 52, 55, 55, 53, 56, 48, 55,
       9, 34, 97, 34, 0, 255, 35, 32, 9, 45, 57, 50, 50, 51, 51, 55, 50, 48, 51, 54, 56, 53, 52, 55, 55, 53, 56, 48,
       56, 9, 45, 9, 48, 9, 45, 49, 9, 50, 53, 53, 44, 48, 44, 55, 9, 50, 9, 49]⟩)
    ∧ (goBedWrite Bed.ex12 ⟨80, []⟩).map (fun p => (p.1, p.2.room, p.2.out.drop 72))
        = some (GoErr.other, 0, [50, 9, 49, 48, 44, 45, 50, 48])
    ∧ (goBedWrite Bed.ex12 ⟨86, []⟩).map (fun p => (p.1, p.2.room, p.2.out.length)) = some (GoErr.other, 0, 86)
    ∧ (goBedWrite Bed.ex12 ⟨87, []⟩).map (fun p => (p.1, p.2.room, p.2.out.length)) = some (GoErr.nil, 0, 87)
    ∧ (goBedWrite Bed.ex12 ⟨0, []⟩) = some (GoErr.other, ⟨0, []⟩)) := by
  decide +kernel

/-! ## 3. With enough room: the round trip through the model reader -/

/-- Writing records one after the other (`bedWriteAll`: `b.Write(w)` for each record, stop at the
first error) into a writer with enough room gives the concatenation of the model's texts. -/
theorem go_bed_write_all : GoSrc.bed_Write_Found = true → ∀ (bs : List Bed.Bed),
    (∀ b ∈ bs, 3 ≤ b.n ∧ b.n ≤ 12) → ∀ (k : Nat) (o : Bytes), (bedEncodeAll bs).length ≤ k →
    bedWriteAll bs ⟨k, o⟩ = some (GoErr.nil, ⟨k - (bedEncodeAll bs).length, o ++ bedEncodeAll bs⟩) :=
  fun hF bs hn k o h => bedWriteAll_ok hF bs hn k o h

/-- C04 with the writer at source level: what the translated `Write` puts on a large enough writer,
for records well-formed with `N` fields (`Bed.WF` of `Bio.Props.C04`), is decoded by the model reader
to the records written, restricted to their first `N` fields. -/
theorem go_bed_write_read : GoSrc.bed_Write_Found = true → ∀ (N : Nat) (bs : List Bed.Bed),
    (∀ b ∈ bs, Bed.WF N b) → ∀ (k : Nat), (bedEncodeAll bs).length ≤ k →
    ∃ w', bedWriteAll bs ⟨k, []⟩ = some (GoErr.nil, w')
      ∧ Bed.decode w'.out = bs.map (fun b => Item.ok (Bed.truncate N b)) := by
  intro hF N bs h k hk
  have hn : ∀ b ∈ bs, 3 ≤ b.n ∧ b.n ≤ 12 := by
    intro b hb
    obtain ⟨h3, h12, hbn, _⟩ := h b hb
    rw [hbn]; omega
  refine ⟨_, bedWriteAll_ok hF bs hn k [] hk, ?_⟩
  simp only [List.nil_append]
  exact Bed.file_roundtrip_encode N bs h

/-- One record: the translated `Write` leaves the model's text on the writer, and the model reader
reads it back as the record (its first `N` fields). -/
theorem go_bed_write_read_one : GoSrc.bed_Write_Found = true → ∀ (N : Nat) (b : Bed.Bed), Bed.WF N b →
    ∀ (k : Nat), ((Bed.encode b).getD []).length ≤ k →
    ∃ w', goBedWrite b ⟨k, []⟩ = some (GoErr.nil, w') ∧ Bed.encode b = some w'.out
      ∧ Bed.decode w'.out = [Item.ok (Bed.truncate N b)] := by
  intro hF N b h k hk
  have ⟨h3, h12, hbn, _⟩ := h
  have he := bedWriteCalls_flatten_eq b (by rw [hbn]; omega) (by rw [hbn]; omega)
  rw [he] at hk
  have hk' : (bedWriteCalls b).flatten.length ≤ k := hk
  refine ⟨_, go_bed_write_bytes hF b _ he k [] hk', ?_, ?_⟩
  · simp only [List.nil_append, he]
  · have := Bed.file_roundtrip_encode N [b] (by simpa using h)
    simpa [he] using this

/-- Non-vacuity: the flag; records in the domain of C04 (12 fields with two blocks, odd bytes and
extreme integers; the same record with empty name and no blocks) and a writer large enough. -/
example : GoSrc.bed_Write_Found = false ∨ (GoSrc.bed_Write_Found = true
    ∧ (∀ b ∈ [Bed.ex12, { Bed.ex12 with name := [], blockCount := 0, blockSizes := [], blockStarts := [] }],
        Bed.WF 12 b)
    ∧ Bed.WF 3 Bed.ex3 ∧ Bed.WF 11 Bed.ex11) := by decide
example : (bedEncodeAll [Bed.ex12, { Bed.ex12 with name := [], blockCount := 0, blockSizes := [], blockStarts := [] }]).length
    ≤ 200 := by decide +kernel
example : ((Bed.encode Bed.ex12).getD []).length ≤ 100 := by decide +kernel
/-- for 12 fields nothing is cut: the record itself comes back -/
example : Bed.truncate 12 Bed.ex12 = Bed.ex12 := by decide
/-- two records through the translated `Write`; the second call sequence stops in the second record
when the room runs out -/
example : GoSrc.bed_Write_Found = false ∨ (
    (bedWriteAll [Bed.ex3, Bed.ex12] ⟨200, []⟩).map (fun p => (p.1, p.2.room, p.2.out.take 30))
      = some (GoErr.nil, 89, [9, 45, 53, 9, 57, 50, 50, 51, 51, 55, 50, 48, 51, 54, 56, 53, 52, 55, 55, 53, 56, 48, 55,
          10, 99, 104, 114, 49, 9, 45])
    ∧ (bedWriteAll [Bed.ex3, Bed.ex12] ⟨30, []⟩).map (fun p => (p.1, p.2.room, p.2.out.length))
      = some (GoErr.other, 0, 30)
    ∧ (bedWriteAll [{ Bed.ex3 with n := 0 }, Bed.ex12] ⟨30, []⟩) = some (GoErr.other, ⟨30, []⟩)) := by
  decide +kernel
/-- what the translated `Write` wrote for `ex12`, decoded by the model reader -/
example : GoSrc.bed_Write_Found = false ∨
    (goBedWrite Bed.ex12 ⟨100, []⟩).map (fun p => Bed.decode p.2.out) = some [Item.ok Bed.ex12] := by
  decide +kernel

end Bio.Props.C04Go
