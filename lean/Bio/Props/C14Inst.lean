/-
  C14 for the tables regenerated from /repo: the accepted codon triples (all
  256^3 triples were tried) are exactly the 512 case variants of the 64 codons
  and map to NCBI translation table 1; the amino-acid name table.
-/
import Bio.Props.C14
import Bio.Generated.Tables
namespace Bio.Sequtil

theorem generated_codonTable_ok : codonTableOK Generated.codonTable = true := by decide +kernel

theorem generated_aminoTable_ok : aminoTableOK Generated.aminoTable Generated.aminoAcids = true := by
  decide +kernel

theorem generated_codon_spec (a b c : UInt8) : codon Generated.codonTable a b c = stdCodon a b c :=
  codon_spec generated_codonTable_ok a b c

theorem generated_frames_total (seq : Bytes) (hs : ∀ b ∈ seq, isDNA b = true) :
    (frames Generated.codonTable seq).isSome = true :=
  frames_total generated_codonTable_ok seq hs

example : (∀ b ∈ ([97] : Bytes), isDNA b = true) := by decide

end Bio.Sequtil
