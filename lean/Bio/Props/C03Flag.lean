/-
  C03 (flag part) — every SAM flag accessor and setter reads / writes exactly the
  bit the SAM specification assigns to it (0x1 … 0x800) and no other bit.

  `Bio/Generated/Flag.lean` is regenerated from /repo/formats/sam/flag.go on every
  run (constants `FlagX : BitVec 64`, getters `getX`, setters `setX`; Go's `Flag` is a
  64-bit signed `int`, `f&K > 0` is the signed comparison).  Nothing below copies
  that file's content: every proof re-checks the generated definitions (`rfl` /
  `decide` against the hand-written specification table), so a changed bit
  position, a getter testing another constant, or a setter of another shape makes
  this file fail to compile.  (A construct the translator does not recognise is
  emitted as the undefined identifier `unrecognisedShape`, which also fails here.)

  All statements are for ALL `f : BitVec 64` (2^64 values), not only `0 … 4095`.
  Generic single-bit lemmas: `Bio/Lemmas/Flag.lean`.
-/
import Bio.Generated.Flag
import Bio.Lemmas.Flag
namespace Bio.Generated.Flag

/-! ## The specification: the FLAG bit table of the SAM specification (SAMv1 §1.4), by hand -/

/-- The twelve flag names (Go accessor names of `sam.Flag`). -/
inductive Name where
  | Multiple
  | Each
  | Unmapped
  | Unmapped2
  | ReverseComplement
  | ReverseComplement2
  | First
  | Last
  | Secondary
  | NotPassing
  | Duplicate
  | Supplementary
  deriving DecidableEq, Repr

/-- SAM specification: bit index of each flag. -/
def specBit : Name → Nat
  | .Multiple => 0   -- template having multiple segments (0x1)
  | .Each => 1   -- each segment properly aligned (0x2)
  | .Unmapped => 2   -- segment unmapped (0x4)
  | .Unmapped2 => 3   -- next segment unmapped (0x8)
  | .ReverseComplement => 4   -- SEQ reverse complemented (0x10)
  | .ReverseComplement2 => 5   -- SEQ of next segment reverse complemented (0x20)
  | .First => 6   -- first segment in the template (0x40)
  | .Last => 7   -- last segment in the template (0x80)
  | .Secondary => 8   -- secondary alignment (0x100)
  | .NotPassing => 9   -- not passing filters (0x200)
  | .Duplicate => 10   -- PCR or optical duplicate (0x400)
  | .Supplementary => 11   -- supplementary alignment (0x800)

/-- SAM specification: mask value of each flag. -/
def specMask : Name → Nat
  | .Multiple => 0x1
  | .Each => 0x2
  | .Unmapped => 0x4
  | .Unmapped2 => 0x8
  | .ReverseComplement => 0x10
  | .ReverseComplement2 => 0x20
  | .First => 0x40
  | .Last => 0x80
  | .Secondary => 0x100
  | .NotPassing => 0x200
  | .Duplicate => 0x400
  | .Supplementary => 0x800

def Name.all : List Name :=
  [.Multiple, .Each, .Unmapped, .Unmapped2, .ReverseComplement, .ReverseComplement2, .First, .Last, .Secondary, .NotPassing, .Duplicate, .Supplementary]

/-- The spec table is self-consistent: mask = 2^bit, all bits below the sign bit, pairwise
distinct, and `Name.all` is complete. -/
theorem spec_table_consistent :
    (∀ n, specMask n = 2 ^ specBit n) ∧ (∀ n, specBit n < 12) ∧
    (∀ n n', specBit n = specBit n' → n = n') ∧ (∀ n, n ∈ Name.all) := by
  refine ⟨?_, ?_, ?_, ?_⟩
  · intro n; cases n <;> rfl
  · intro n; cases n <;> decide
  · intro n n'; cases n <;> cases n' <;> decide
  · intro n; cases n <;> decide

/-! ## The generated code, indexed by name -/

/-- The generated constant for a name. -/
def const : Name → F
  | .Multiple => FlagMultiple
  | .Each => FlagEach
  | .Unmapped => FlagUnmapped
  | .Unmapped2 => FlagUnmapped2
  | .ReverseComplement => FlagReverseComplement
  | .ReverseComplement2 => FlagReverseComplement2
  | .First => FlagFirst
  | .Last => FlagLast
  | .Secondary => FlagSecondary
  | .NotPassing => FlagNotPassing
  | .Duplicate => FlagDuplicate
  | .Supplementary => FlagSupplementary

/-- The generated getter for a name. -/
def getter : Name → F → Bool
  | .Multiple => getMultiple
  | .Each => getEach
  | .Unmapped => getUnmapped
  | .Unmapped2 => getUnmapped2
  | .ReverseComplement => getReverseComplement
  | .ReverseComplement2 => getReverseComplement2
  | .First => getFirst
  | .Last => getLast
  | .Secondary => getSecondary
  | .NotPassing => getNotPassing
  | .Duplicate => getDuplicate
  | .Supplementary => getSupplementary

/-- The generated setter for a name. -/
def setter : Name → F → Bool → F
  | .Multiple => setMultiple
  | .Each => setEach
  | .Unmapped => setUnmapped
  | .Unmapped2 => setUnmapped2
  | .ReverseComplement => setReverseComplement
  | .ReverseComplement2 => setReverseComplement2
  | .First => setFirst
  | .Last => setLast
  | .Secondary => setSecondary
  | .NotPassing => setNotPassing
  | .Duplicate => setDuplicate
  | .Supplementary => setSupplementary

/-- What "constant `K`, getter `get`, setter `set` implement bit `i` and nothing else" means. -/
structure BitOK (i : Nat) (K : F) (get : F → Bool) (set : F → Bool → F) : Prop where
  /-- the constant is the single-bit mask -/
  const_eq : K = 1#64 <<< i
  const_toNat : K.toNat = 2 ^ i
  /-- the getter returns bit `i` of its argument, for every 64-bit value -/
  get_eq : ∀ f : F, get f = f.getLsbD i
  /-- the setter writes `v` to bit `i` and leaves every other bit as it was -/
  set_bits : ∀ (f : F) (v : Bool) (j : Nat), (set f v).getLsbD j = if j = i then v else f.getLsbD j
  /-- reading back what was written -/
  get_set : ∀ (f : F) (v : Bool), get (set f v) = v

/-- From the generated *shape* (checked by `rfl` at each use) to `BitOK`. -/
theorem bitOK_of_shape (i : Nat) (hi : i < 63) (K : F) (get : F → Bool) (set : F → Bool → F)
    (hK : K = 1#64 <<< i)
    (hget : ∀ f, get f = decide (0 < (f &&& K).toInt))
    (hset : ∀ f v, set f v = if v then f ||| K else f &&& ~~~K) :
    BitOK i K get set := by
  subst hK
  exact
    { const_eq := rfl
      const_toNat := Bio.Flag.toNat_mask i (by omega)
      get_eq := fun f => by rw [hget, Bio.Flag.get_mask f i hi]
      set_bits := fun f v j => by rw [hset, Bio.Flag.getLsbD_set_mask f v i j (by omega)]
      get_set := fun f v => by rw [hget, hset, Bio.Flag.get_set_mask f v i hi] }

/-! ## The twelve flags, one by one (bit numbers are the specification's) -/

theorem Multiple_ok : BitOK 0 FlagMultiple getMultiple setMultiple :=
  bitOK_of_shape 0 (by decide) _ _ _ rfl (fun _ => rfl) (fun _ _ => rfl)
theorem FlagMultiple_eq : FlagMultiple = 1#64 <<< 0 ∧ FlagMultiple.toNat = 0x1 :=
  ⟨Multiple_ok.const_eq, Multiple_ok.const_toNat⟩
theorem getMultiple_eq (f : F) : getMultiple f = f.getLsbD 0 := Multiple_ok.get_eq f
theorem setMultiple_bits (f : F) (v : Bool) (j : Nat) :
    (setMultiple f v).getLsbD j = if j = 0 then v else f.getLsbD j := Multiple_ok.set_bits f v j
theorem getMultiple_setMultiple (f : F) (v : Bool) : getMultiple (setMultiple f v) = v := Multiple_ok.get_set f v

theorem Each_ok : BitOK 1 FlagEach getEach setEach :=
  bitOK_of_shape 1 (by decide) _ _ _ rfl (fun _ => rfl) (fun _ _ => rfl)
theorem FlagEach_eq : FlagEach = 1#64 <<< 1 ∧ FlagEach.toNat = 0x2 :=
  ⟨Each_ok.const_eq, Each_ok.const_toNat⟩
theorem getEach_eq (f : F) : getEach f = f.getLsbD 1 := Each_ok.get_eq f
theorem setEach_bits (f : F) (v : Bool) (j : Nat) :
    (setEach f v).getLsbD j = if j = 1 then v else f.getLsbD j := Each_ok.set_bits f v j
theorem getEach_setEach (f : F) (v : Bool) : getEach (setEach f v) = v := Each_ok.get_set f v

theorem Unmapped_ok : BitOK 2 FlagUnmapped getUnmapped setUnmapped :=
  bitOK_of_shape 2 (by decide) _ _ _ rfl (fun _ => rfl) (fun _ _ => rfl)
theorem FlagUnmapped_eq : FlagUnmapped = 1#64 <<< 2 ∧ FlagUnmapped.toNat = 0x4 :=
  ⟨Unmapped_ok.const_eq, Unmapped_ok.const_toNat⟩
theorem getUnmapped_eq (f : F) : getUnmapped f = f.getLsbD 2 := Unmapped_ok.get_eq f
theorem setUnmapped_bits (f : F) (v : Bool) (j : Nat) :
    (setUnmapped f v).getLsbD j = if j = 2 then v else f.getLsbD j := Unmapped_ok.set_bits f v j
theorem getUnmapped_setUnmapped (f : F) (v : Bool) : getUnmapped (setUnmapped f v) = v := Unmapped_ok.get_set f v

theorem Unmapped2_ok : BitOK 3 FlagUnmapped2 getUnmapped2 setUnmapped2 :=
  bitOK_of_shape 3 (by decide) _ _ _ rfl (fun _ => rfl) (fun _ _ => rfl)
theorem FlagUnmapped2_eq : FlagUnmapped2 = 1#64 <<< 3 ∧ FlagUnmapped2.toNat = 0x8 :=
  ⟨Unmapped2_ok.const_eq, Unmapped2_ok.const_toNat⟩
theorem getUnmapped2_eq (f : F) : getUnmapped2 f = f.getLsbD 3 := Unmapped2_ok.get_eq f
theorem setUnmapped2_bits (f : F) (v : Bool) (j : Nat) :
    (setUnmapped2 f v).getLsbD j = if j = 3 then v else f.getLsbD j := Unmapped2_ok.set_bits f v j
theorem getUnmapped2_setUnmapped2 (f : F) (v : Bool) : getUnmapped2 (setUnmapped2 f v) = v := Unmapped2_ok.get_set f v

theorem ReverseComplement_ok : BitOK 4 FlagReverseComplement getReverseComplement setReverseComplement :=
  bitOK_of_shape 4 (by decide) _ _ _ rfl (fun _ => rfl) (fun _ _ => rfl)
theorem FlagReverseComplement_eq : FlagReverseComplement = 1#64 <<< 4 ∧ FlagReverseComplement.toNat = 0x10 :=
  ⟨ReverseComplement_ok.const_eq, ReverseComplement_ok.const_toNat⟩
theorem getReverseComplement_eq (f : F) : getReverseComplement f = f.getLsbD 4 := ReverseComplement_ok.get_eq f
theorem setReverseComplement_bits (f : F) (v : Bool) (j : Nat) :
    (setReverseComplement f v).getLsbD j = if j = 4 then v else f.getLsbD j := ReverseComplement_ok.set_bits f v j
theorem getReverseComplement_setReverseComplement (f : F) (v : Bool) : getReverseComplement (setReverseComplement f v) = v := ReverseComplement_ok.get_set f v

theorem ReverseComplement2_ok : BitOK 5 FlagReverseComplement2 getReverseComplement2 setReverseComplement2 :=
  bitOK_of_shape 5 (by decide) _ _ _ rfl (fun _ => rfl) (fun _ _ => rfl)
theorem FlagReverseComplement2_eq : FlagReverseComplement2 = 1#64 <<< 5 ∧ FlagReverseComplement2.toNat = 0x20 :=
  ⟨ReverseComplement2_ok.const_eq, ReverseComplement2_ok.const_toNat⟩
theorem getReverseComplement2_eq (f : F) : getReverseComplement2 f = f.getLsbD 5 := ReverseComplement2_ok.get_eq f
theorem setReverseComplement2_bits (f : F) (v : Bool) (j : Nat) :
    (setReverseComplement2 f v).getLsbD j = if j = 5 then v else f.getLsbD j := ReverseComplement2_ok.set_bits f v j
theorem getReverseComplement2_setReverseComplement2 (f : F) (v : Bool) : getReverseComplement2 (setReverseComplement2 f v) = v := ReverseComplement2_ok.get_set f v

theorem First_ok : BitOK 6 FlagFirst getFirst setFirst :=
  bitOK_of_shape 6 (by decide) _ _ _ rfl (fun _ => rfl) (fun _ _ => rfl)
theorem FlagFirst_eq : FlagFirst = 1#64 <<< 6 ∧ FlagFirst.toNat = 0x40 :=
  ⟨First_ok.const_eq, First_ok.const_toNat⟩
theorem getFirst_eq (f : F) : getFirst f = f.getLsbD 6 := First_ok.get_eq f
theorem setFirst_bits (f : F) (v : Bool) (j : Nat) :
    (setFirst f v).getLsbD j = if j = 6 then v else f.getLsbD j := First_ok.set_bits f v j
theorem getFirst_setFirst (f : F) (v : Bool) : getFirst (setFirst f v) = v := First_ok.get_set f v

theorem Last_ok : BitOK 7 FlagLast getLast setLast :=
  bitOK_of_shape 7 (by decide) _ _ _ rfl (fun _ => rfl) (fun _ _ => rfl)
theorem FlagLast_eq : FlagLast = 1#64 <<< 7 ∧ FlagLast.toNat = 0x80 :=
  ⟨Last_ok.const_eq, Last_ok.const_toNat⟩
theorem getLast_eq (f : F) : getLast f = f.getLsbD 7 := Last_ok.get_eq f
theorem setLast_bits (f : F) (v : Bool) (j : Nat) :
    (setLast f v).getLsbD j = if j = 7 then v else f.getLsbD j := Last_ok.set_bits f v j
theorem getLast_setLast (f : F) (v : Bool) : getLast (setLast f v) = v := Last_ok.get_set f v

theorem Secondary_ok : BitOK 8 FlagSecondary getSecondary setSecondary :=
  bitOK_of_shape 8 (by decide) _ _ _ rfl (fun _ => rfl) (fun _ _ => rfl)
theorem FlagSecondary_eq : FlagSecondary = 1#64 <<< 8 ∧ FlagSecondary.toNat = 0x100 :=
  ⟨Secondary_ok.const_eq, Secondary_ok.const_toNat⟩
theorem getSecondary_eq (f : F) : getSecondary f = f.getLsbD 8 := Secondary_ok.get_eq f
theorem setSecondary_bits (f : F) (v : Bool) (j : Nat) :
    (setSecondary f v).getLsbD j = if j = 8 then v else f.getLsbD j := Secondary_ok.set_bits f v j
theorem getSecondary_setSecondary (f : F) (v : Bool) : getSecondary (setSecondary f v) = v := Secondary_ok.get_set f v

theorem NotPassing_ok : BitOK 9 FlagNotPassing getNotPassing setNotPassing :=
  bitOK_of_shape 9 (by decide) _ _ _ rfl (fun _ => rfl) (fun _ _ => rfl)
theorem FlagNotPassing_eq : FlagNotPassing = 1#64 <<< 9 ∧ FlagNotPassing.toNat = 0x200 :=
  ⟨NotPassing_ok.const_eq, NotPassing_ok.const_toNat⟩
theorem getNotPassing_eq (f : F) : getNotPassing f = f.getLsbD 9 := NotPassing_ok.get_eq f
theorem setNotPassing_bits (f : F) (v : Bool) (j : Nat) :
    (setNotPassing f v).getLsbD j = if j = 9 then v else f.getLsbD j := NotPassing_ok.set_bits f v j
theorem getNotPassing_setNotPassing (f : F) (v : Bool) : getNotPassing (setNotPassing f v) = v := NotPassing_ok.get_set f v

theorem Duplicate_ok : BitOK 10 FlagDuplicate getDuplicate setDuplicate :=
  bitOK_of_shape 10 (by decide) _ _ _ rfl (fun _ => rfl) (fun _ _ => rfl)
theorem FlagDuplicate_eq : FlagDuplicate = 1#64 <<< 10 ∧ FlagDuplicate.toNat = 0x400 :=
  ⟨Duplicate_ok.const_eq, Duplicate_ok.const_toNat⟩
theorem getDuplicate_eq (f : F) : getDuplicate f = f.getLsbD 10 := Duplicate_ok.get_eq f
theorem setDuplicate_bits (f : F) (v : Bool) (j : Nat) :
    (setDuplicate f v).getLsbD j = if j = 10 then v else f.getLsbD j := Duplicate_ok.set_bits f v j
theorem getDuplicate_setDuplicate (f : F) (v : Bool) : getDuplicate (setDuplicate f v) = v := Duplicate_ok.get_set f v

theorem Supplementary_ok : BitOK 11 FlagSupplementary getSupplementary setSupplementary :=
  bitOK_of_shape 11 (by decide) _ _ _ rfl (fun _ => rfl) (fun _ _ => rfl)
theorem FlagSupplementary_eq : FlagSupplementary = 1#64 <<< 11 ∧ FlagSupplementary.toNat = 0x800 :=
  ⟨Supplementary_ok.const_eq, Supplementary_ok.const_toNat⟩
theorem getSupplementary_eq (f : F) : getSupplementary f = f.getLsbD 11 := Supplementary_ok.get_eq f
theorem setSupplementary_bits (f : F) (v : Bool) (j : Nat) :
    (setSupplementary f v).getLsbD j = if j = 11 then v else f.getLsbD j := Supplementary_ok.set_bits f v j
theorem getSupplementary_setSupplementary (f : F) (v : Bool) : getSupplementary (setSupplementary f v) = v := Supplementary_ok.get_set f v

/-! ## The bundled statement (audit this one) -/

/-- For every flag name: the generated constant is `1 <<< specBit` (value `specMask`,
i.e. 0x1 … 0x800), the generated getter returns exactly bit `specBit` of ANY 64-bit
flag value, and the generated setter changes bit `specBit` to the given value and no
other bit. -/
theorem flag_table_ok (n : Name) :
    BitOK (specBit n) (const n) (getter n) (setter n) ∧ (const n).toNat = specMask n := by
  cases n
  · exact ⟨Multiple_ok, Multiple_ok.const_toNat⟩
  · exact ⟨Each_ok, Each_ok.const_toNat⟩
  · exact ⟨Unmapped_ok, Unmapped_ok.const_toNat⟩
  · exact ⟨Unmapped2_ok, Unmapped2_ok.const_toNat⟩
  · exact ⟨ReverseComplement_ok, ReverseComplement_ok.const_toNat⟩
  · exact ⟨ReverseComplement2_ok, ReverseComplement2_ok.const_toNat⟩
  · exact ⟨First_ok, First_ok.const_toNat⟩
  · exact ⟨Last_ok, Last_ok.const_toNat⟩
  · exact ⟨Secondary_ok, Secondary_ok.const_toNat⟩
  · exact ⟨NotPassing_ok, NotPassing_ok.const_toNat⟩
  · exact ⟨Duplicate_ok, Duplicate_ok.const_toNat⟩
  · exact ⟨Supplementary_ok, Supplementary_ok.const_toNat⟩

/-- The same, unfolded into plain statements about all names, flags, values and bits. -/
theorem flag_table_ok' :
    (∀ n, const n = 1#64 <<< specBit n ∧ (const n).toNat = specMask n) ∧
    (∀ n (f : F), getter n f = f.getLsbD (specBit n)) ∧
    (∀ n (f : F) (v : Bool) (j : Nat),
      (setter n f v).getLsbD j = if j = specBit n then v else f.getLsbD j) ∧
    (∀ n (f : F) (v : Bool), getter n (setter n f v) = v) :=
  ⟨fun n => ⟨(flag_table_ok n).1.const_eq, (flag_table_ok n).2⟩,
   fun n => (flag_table_ok n).1.get_eq,
   fun n => (flag_table_ok n).1.set_bits,
   fun n => (flag_table_ok n).1.get_set⟩

/-! ## Consequences: independence of the twelve flags -/

/-- A setter does not disturb any other getter. -/
theorem getter_setter_other (n n' : Name) (h : n ≠ n') (f : F) (v : Bool) :
    getter n' (setter n f v) = getter n' f := by
  rw [(flag_table_ok n').1.get_eq, (flag_table_ok n').1.get_eq, (flag_table_ok n).1.set_bits]
  have : specBit n' ≠ specBit n := fun e => h (spec_table_consistent.2.2.1 _ _ e).symm
  simp [this]

/-- The setter's result is *the* value with that bit table (as a 64-bit value). -/
theorem setter_unique (n : Name) (f g : F) (v : Bool)
    (hg : ∀ j, g.getLsbD j = if j = specBit n then v else f.getLsbD j) : setter n f v = g := by
  apply BitVec.eq_of_getLsbD_eq
  intro j _
  rw [(flag_table_ok n).1.set_bits, hg]

/-- Setting a flag to the value it already has changes nothing; setting twice = setting last. -/
theorem setter_idem (n : Name) (f : F) : setter n f (getter n f) = f := by
  apply setter_unique
  intro j
  by_cases h : j = specBit n
  · subst h; simp [(flag_table_ok n).1.get_eq]
  · simp [h]

/-- Go identifier stem of each name (by hand). -/
def goName : Name → String
  | .Multiple => "Multiple"
  | .Each => "Each"
  | .Unmapped => "Unmapped"
  | .Unmapped2 => "Unmapped2"
  | .ReverseComplement => "ReverseComplement"
  | .ReverseComplement2 => "ReverseComplement2"
  | .First => "First"
  | .Last => "Last"
  | .Secondary => "Secondary"
  | .NotPassing => "NotPassing"
  | .Duplicate => "Duplicate"
  | .Supplementary => "Supplementary"

/-- The translator saw exactly these twelve constants / accessors / setters in flag.go
(twelve of each, and each expected identifier among them; so no accessor in the source is
left unaccounted for by the table above). -/
theorem flag_names_exact :
    constNames.length = 12 ∧ getterNames.length = 12 ∧ setterNames.length = 12 ∧
    (∀ n ∈ Name.all, ("Flag" ++ goName n) ∈ constNames) ∧
    (∀ n ∈ Name.all, goName n ∈ getterNames) ∧
    (∀ n ∈ Name.all, ("Set" ++ goName n) ∈ setterNames) := by
  decide

/-! ## Non-vacuity: concrete values -/

example : getFirst 0x40#64 = true := by decide
example : getFirst 0x80#64 = false := by decide
example : getLast 0x80#64 = true := by decide
example : getMultiple 0xfff#64 = true ∧ getMultiple 0xffe#64 = false := by decide
example : getSupplementary 0x800#64 = true ∧ getSupplementary 0x7ff#64 = false := by decide
/-- A value outside `0 … 4095`, with the sign bit set: getters still read their own bit. -/
example : getDuplicate 0x8000000000000400#64 = true ∧ getDuplicate 0x8000000000000000#64 = false := by
  decide
example : setSecondary 0#64 true = 0x100#64 := by decide
example : setSecondary 0xfff#64 false = 0xeff#64 := by decide
example : setUnmapped 0xffffffffffffffff#64 false = 0xfffffffffffffffb#64 := by decide
example : [FlagMultiple, FlagEach, FlagUnmapped, FlagUnmapped2, FlagReverseComplement,
    FlagReverseComplement2, FlagFirst, FlagLast, FlagSecondary, FlagNotPassing, FlagDuplicate,
    FlagSupplementary].map BitVec.toNat
    = [0x1, 0x2, 0x4, 0x8, 0x10, 0x20, 0x40, 0x80, 0x100, 0x200, 0x400, 0x800] := by decide
example : Name.First ≠ Name.Last := by decide

end Bio.Generated.Flag
