/-
  C14 for the Go SOURCE TEXT: `Translate` and `TranslateReadingFrames` of sequtil/amino.go, as
  translated on every run into `Bio.Generated.GoSrc` (upper-casing each byte, then a look-up in the
  64-entry map literal `codonToAmino`, value 0 = absent = panic), compute the hand-written models
  `translate` / `frames` of `Bio.Model.Sequtil` on the table of all accepted raw triples observed
  from the running Go code — for every input of every length, panics (`none`) included.
  The two tables are related by a finite check (`codonTables_compat`): the observed keys are exactly
  the 8³ triples over `ACGTacgt`, each observed entry is the source map's value for the upper-cased
  triple and is non-zero, and every key byte of the source map is one of `ACGT`.
  Guarded by the translator's `<f>_Found` flags (see `Bio.Lemmas.GoSrc`).
-/
import Bio.Lemmas.GoSrc
import Bio.Generated.Tables
namespace Bio.Props.C14Go
open Bio Bio.GoRt Bio.Generated Bio.GoSrcLemmas

/-- every translator flag this file depends on; the non-vacuity examples below are stated as
`allFound = false ∨ …` so that a source the translator no longer recognises is not an alarm -/
def allFound : Bool := GoSrc.g_codonToAmino_Found && GoSrc.Translate_Found && GoSrc.TranslateReadingFrames_Found

/-- The source map and the observed table agree on all 256³ raw triples (0 = rejected). -/
theorem codonTables_compat : GoSrc.g_codonToAmino_Found = true →
    (∀ a b c : UInt8, mapGet GoSrc.g_codonToAmino [up a, up b, up c] 0
        = (Sequtil.codon Generated.codonTable a b c).getD 0)
    ∧ (∀ a b c v : UInt8, Sequtil.codon Generated.codonTable a b c = some v → v ≠ 0) := by
  intro h
  first
  | exact absurd h (by decide)
  | (have h1 : srcKeysOK GoSrc.g_codonToAmino = true := by decide +kernel
     have h2 : obsKeysOK Generated.codonTable = true := by decide +kernel
     have h3 : obsEntriesOK GoSrc.g_codonToAmino Generated.codonTable = true := by decide +kernel
     exact ⟨codon_tables_compat _ _ h1 h2 h3, codon_ne_zero _ _ h3⟩)

example : allFound = false ∨ (GoSrc.g_codonToAmino_Found = true) := by decide

theorem go_Translate : GoSrc.Translate_Found = true → GoSrc.g_codonToAmino_Found = true →
    ∀ dst src : Bytes,
      GoSrc.Translate GoSrc.g_codonToAmino dst src = Sequtil.translate Generated.codonTable dst src :=
  fun hF hG dst src =>
    Translate_eq hF GoSrc.g_codonToAmino Generated.codonTable
      (codonTables_compat hG).1 (codonTables_compat hG).2 dst src

example : allFound = false ∨ (GoSrc.Translate_Found = true ∧ GoSrc.g_codonToAmino_Found = true) := by decide
-- "ATGtaa" -> "M*" after dst; a length not divisible by 3 and a non-nucleotide both panic
example : allFound = false ∨ (GoSrc.Translate GoSrc.g_codonToAmino [7] [65, 84, 71, 116, 97, 97] = some [7, 77, 42]
    ∧ GoSrc.Translate GoSrc.g_codonToAmino [] [65, 84, 71, 65] = none
    ∧ GoSrc.Translate GoSrc.g_codonToAmino [] [65, 78, 71] = none
    ∧ GoSrc.Translate GoSrc.g_codonToAmino [] [65, 123, 71] = none) := by decide

theorem go_TranslateReadingFrames : GoSrc.TranslateReadingFrames_Found = true →
    GoSrc.Translate_Found = true → GoSrc.g_codonToAmino_Found = true →
    ∀ seq : Bytes,
      GoSrc.TranslateReadingFrames GoSrc.g_codonToAmino seq = Sequtil.frames Generated.codonTable seq :=
  fun hF hTr hG seq =>
    TranslateReadingFrames_eq hF hTr GoSrc.g_codonToAmino Generated.codonTable
      (codonTables_compat hG).1 (codonTables_compat hG).2 seq

example : allFound = false ∨ (GoSrc.TranslateReadingFrames_Found = true ∧ GoSrc.Translate_Found = true
    ∧ GoSrc.g_codonToAmino_Found = true) := by decide
-- "ATGtaaC": frames ATG|taa, TGt|aaC, Gta|aC. -> "M*", "CN", "V"; the empty and 1-byte inputs
example : allFound = false ∨ (GoSrc.TranslateReadingFrames GoSrc.g_codonToAmino [65, 84, 71, 116, 97, 97, 67]
      = some [[77, 42], [67, 78], [86]]
    ∧ GoSrc.TranslateReadingFrames GoSrc.g_codonToAmino [] = some [[], [], []]
    ∧ GoSrc.TranslateReadingFrames GoSrc.g_codonToAmino [65] = some [[], [], []]
    ∧ GoSrc.TranslateReadingFrames GoSrc.g_codonToAmino [65, 84, 78, 65] = none) := by decide

end Bio.Props.C14Go
