/-
  Source-level tie for C01: facts extracted by go/ast from the SOURCE TEXT of /repo
  (Bio/Generated/Src.lean, regenerated on every run).  Best-effort: a fact whose
  source shape is not recognised is `none` and nothing is claimed about it (the
  behaviour-level tie through Bio/Generated/Tables.lean and the correspondence
  run remains); a fact that IS extracted must agree with the model and with the
  observed behaviour.  Re-checked by `decide` on every run.
-/
import Bio.Generated.Src
import Bio.Generated.Tables
namespace Bio.SrcFacts
open Bio.Generated

/-- C01: the writer's line width constant is what was observed on its output. -/
theorem fasta_width : ∀ w, Src.fastaTextLineLen = some w → w = 80 ∧ w = Generated.fastaLineLen := by decide

end Bio.SrcFacts
