/-
  Source-level tie for C01: facts extracted by go/ast from the SOURCE TEXT of /repo
  (Bio/Generated/Src.lean, regenerated on every run).  Best-effort: a fact whose
  source shape is not recognised is `none` and nothing is claimed about it (the
  behaviour-level tie through Bio/Generated/Tables.lean and the correspondence
  run remains); a fact that IS extracted must agree with the model and with the
  observed behaviour.  `holdsIfFound o p` is `true` for `none` and `p x` for
  `some x`; every theorem is closed by `decide` whichever it is.
-/
import Bio.Lemmas.SrcFacts
import Bio.Generated.Src
import Bio.Generated.Tables
namespace Bio.SrcFacts
open Bio.Generated

/-- C01: the writer's line width constant is 80 and is what was observed on its output. -/
theorem fasta_width :
    holdsIfFound Src.fastaTextLineLen (fun w => w == 80 && w == Generated.fastaLineLen) = true := by decide

end Bio.SrcFacts
