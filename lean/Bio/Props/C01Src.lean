/-
  Source-level tie for C01: facts extracted by go/ast from the SOURCE TEXT of /repo
  (Bio/Generated/Src.lean, regenerated on every run) agree with what the model
  assumes and with what the running code was observed to do
  (Bio/Generated/Tables.lean).  Re-checked by `decide` on every run; an
  unrecognised source shape makes the generated file fail to elaborate.
-/
import Bio.Generated.Src
import Bio.Generated.Tables
namespace Bio.SrcFacts
open Bio.Generated

/-- C01: the writer's line width constant is what was observed on its output. -/
theorem fasta_width : Src.fastaTextLineLen = 80 ∧ Src.fastaTextLineLen = Generated.fastaLineLen := by decide

end Bio.SrcFacts
