/-
  Property C11, second part — what the decoders do on ARBITRARY byte strings `x` (no
  well-formedness hypothesis at all): a decoder never fabricates a record and never loses data.

  * FASTQ: item `i` of the output, when it is a record, is exactly the `i`-th group of four
    `bufio.ScanLines` lines of the input; everything before it is a record too; without an error
    item every line was consumed by a record.
  * SAM: `ReaderHeader` delivers one item per non-empty line, in order; `Reader` one item per
    non-empty line not starting with `'@'`; header items are input lines verbatim.
  * BED: the output is the parse of a prefix of the non-skipped lines, each record being the
    parse of its own line, followed by at most one error, and the error has a reason.
  * FASTA: the names and sequences of the delivered records, concatenated, are the input minus
    its line breaks and minus the record-introducing `'>'` bytes; the number of records is
    1 + the number of `'>'` bytes directly after a line break.

  Specification vocabulary (defined in `Bio/Lemmas/Arbitrary.lean`, independent of the readers):
  `Sam.isRecLine`, `Sam.recItem`; `Bed.kept`, `Bed.nFields`, `Bed.lineRec`, `Bed.goodLine`;
  `Fasta.payload`, `Fasta.stripAux`/`Fasta.strip`, `Fasta.gtAfterNL`.
-/
import Bio.Lemmas.Arbitrary

/-! ## FASTQ -/
namespace Bio.Fastq

/-- Every delivered record is exactly the `i`-th group of four lines of the input. -/
theorem decode_ok_lines (x : Bytes) (i : Nat) (r : Fq)
    (h : (decode x)[i]? = some (Item.ok r)) :
    ∃ pl, ((scanLines x).drop (4 * i)).take 4 = [64 :: r.name, r.seq, 43 :: pl, r.quals] ∧
      r.seq.length = r.quals.length := by
  obtain ⟨⟨pl, h1⟩, h2, _⟩ := fromLines_ok_lines .eof (scanLines x) i r h
  exact ⟨pl, h1, h2⟩

/-- Everything delivered before a record is a record (so the groups of four are aligned). -/
theorem decode_ok_before (x : Bytes) (i : Nat) (r : Fq)
    (h : (decode x)[i]? = some (Item.ok r)) :
    ∀ j < i, ∃ r', (decode x)[j]? = some (Item.ok r') :=
  (fromLines_ok_lines .eof (scanLines x) i r h).2.2

/-- Non-vacuity on a malformed input, `"@a\r\nAC\n+x\nI@\n@b\nG\n+\nI\nb\nG\n"`: the second
record (`i = 1`) is delivered, then the line `b` is an error. -/
example :
    (decode [64, 97, 13, 10, 65, 67, 10, 43, 120, 10, 73, 64, 10,
             64, 98, 10, 71, 10, 43, 10, 73, 10, 98, 10, 71, 10])[1]? =
      some (Item.ok ⟨[98], [71], [73]⟩) ∧
    decode [64, 97, 13, 10, 65, 67, 10, 43, 120, 10, 73, 64, 10,
             64, 98, 10, 71, 10, 43, 10, 73, 10, 98, 10, 71, 10] =
      [Item.ok ⟨[97], [65, 67], [73, 64]⟩, Item.ok ⟨[98], [71], [73]⟩, Item.err] := by
  decide

theorem decode_length_le (x : Bytes) : (decode x).length ≤ (scanLines x).length / 4 + 1 :=
  fromLines_length_le .eof (scanLines x)

/-- No error item ⇒ every line of the input was consumed in a record. -/
theorem decode_complete (x : Bytes) (h : Item.err ∉ decode x) :
    (decode x).length * 4 = (scanLines x).length :=
  fromLines_complete (scanLines x) h

/-- Non-vacuity: `"@a\nAC\n+\nII\n@\n\n+\n\n"` — eight lines; the second record has an empty
name, an empty sequence and empty qualities. -/
example :
    Item.err ∉ decode [64, 97, 10, 65, 67, 10, 43, 10, 73, 73, 10, 64, 10, 10, 43, 10, 10] ∧
    (decode [64, 97, 10, 65, 67, 10, 43, 10, 73, 73, 10, 64, 10, 10, 43, 10, 10]).length = 2 := by
  decide

/-- The bound of `decode_length_le` is attained by an input with an error
(`"@a\nAC\n+\nII\nx"`: 5 lines, 2 items). -/
example :
    (decode [64, 97, 10, 65, 67, 10, 43, 10, 73, 73, 10, 120]).length =
      (scanLines [64, 97, 10, 65, 67, 10, 43, 10, 73, 73, 10, 120]).length / 4 + 1 := by
  decide

end Bio.Fastq

/-! ## SAM -/
namespace Bio.Sam

/-- `ReaderHeader`: one item per non-empty line. -/
theorem decodeHeader_length (pf : Bytes → Option Bytes) (x : Bytes) :
    (decodeHeader pf x).length = ((scanLines x).filter (· ≠ [])).length := by
  simp [decodeHeader_eq]

/-- … in order, each item being the item of its own line. -/
theorem decodeHeader_getElem? (pf : Bytes → Option Bytes) (x : Bytes) (i : Nat) :
    (decodeHeader pf x)[i]? = (((scanLines x).filter (· ≠ []))[i]?).map (lineItem pf) := by
  simp [decodeHeader_eq]

/-- `Reader`: exactly the record items of the non-empty lines that do not start with `'@'`,
in order (`recItem pf l` is `.ok s` when `parseLine pf (splitOn TAB l) = some s`, else `.err`). -/
theorem decode_items (pf : Bytes → Option Bytes) (x : Bytes) :
    decode pf x = ((scanLines x).filter isRecLine).map (recItem pf) :=
  decode_eq_recLines pf x

theorem decode_length (pf : Bytes → Option Bytes) (x : Bytes) :
    (decode pf x).length =
      ((scanLines x).filter (fun l => l ≠ [] && l.head? ≠ some 64)).length := by
  rw [decode_items, List.length_map]
  rfl

/-- Header items are input lines verbatim. -/
theorem decodeHeader_hdr_verbatim (pf : Bytes → Option Bytes) (x : Bytes) (h : Bytes)
    (hm : Item.ok (Entry.hdr h) ∈ decodeHeader pf x) : h ∈ scanLines x ∧ h.head? = some 64 :=
  hdr_mem pf x h hm

/-- Non-vacuity on a malformed input, `"x\n@HD\r\n\n@\ny"` (garbage lines around two header
lines, one of them the bare `@`). -/
example :
    Item.ok (Entry.hdr [64, 72, 68]) ∈
      decodeHeader (fun t => some t) [120, 10, 64, 72, 68, 13, 10, 10, 64, 10, 121] ∧
    decodeHeader (fun t => some t) [120, 10, 64, 72, 68, 13, 10, 10, 64, 10, 121] =
      [Item.err, Item.ok (Entry.hdr [64, 72, 68]), Item.ok (Entry.hdr [64]), Item.err] ∧
    decode (fun t => some t) [120, 10, 64, 72, 68, 13, 10, 10, 64, 10, 121] =
      [Item.err, Item.err] := by
  decide

end Bio.Sam

/-! ## BED -/
namespace Bio.Bed

/-- Closed form of the reader on any input.  With `c` the field count of the first kept
(non-blank, non-comment) line, the output is the parse of the longest prefix of the kept lines
that have `c` fields and parse, followed by one error iff that prefix is not all kept lines. -/
theorem decode_exact (x : Bytes) :
    decode x =
      ((kept x).takeWhile (goodLine (nFields ((kept x).head?.getD [])))).filterMap lineRec ++
        if ((kept x).takeWhile (goodLine (nFields ((kept x).head?.getD [])))).length <
            (kept x).length then [Item.err] else [] :=
  decode_eq_itemsFor x

/-- Every delivered record is the parse of its own line, in order; nothing follows the first
error; the error has a reason.  `n` is the number of records. -/
theorem decode_prefix (x : Bytes) :
    ∃ n, n ≤ (kept x).length ∧
      decode x = ((kept x).take n).filterMap (fun l => (parseLine (splitOn TAB l)).map Item.ok) ++
        (if n < (kept x).length then [Item.err] else []) ∧
      (∀ l ∈ (kept x).take n, (parseLine (splitOn TAB l)).isSome ∧
        (splitOn TAB l).length = (splitOn TAB ((kept x).head?.getD [])).length) ∧
      (∀ l, (kept x)[n]? = some l → parseLine (splitOn TAB l) = none ∨
        (splitOn TAB l).length ≠ (splitOn TAB ((kept x).head?.getD [])).length) := by
  obtain ⟨n, h1, h2, h3, h4⟩ := itemsFor_spec (nFields ((kept x).head?.getD [])) (kept x)
  refine ⟨n, h1, ?_, ?_, ?_⟩
  · rw [decode_eq_itemsFor, h2]; rfl
  · intro l hl
    have := h3 l hl
    simp only [goodLine, nFields, Bool.and_eq_true, beq_iff_eq] at this
    exact ⟨this.2, this.1⟩
  · intro l hl
    have := h4 l hl
    simp only [goodLine, nFields, Bool.and_eq_false_iff, beq_eq_false_iff_ne, ne_eq,
      Option.isSome_eq_false_iff, Option.isNone_iff_eq_none] at this
    rcases this with h | h
    · exact Or.inr h
    · exact Or.inl h

/-- The requested `take` form: the first `n` items are the records of the first `n` kept lines,
and at most one item follows. -/
theorem decode_prefix_take (x : Bytes) :
    ∃ n, (decode x).take n =
        ((kept x).take n).filterMap (fun l => (parseLine (splitOn TAB l)).map Item.ok) ∧
      (decode x).length ≤ n + 1 := by
  obtain ⟨n, h1, h2, h3, _⟩ := decode_prefix x
  have hlen : (((kept x).take n).filterMap
      (fun l => (parseLine (splitOn TAB l)).map Item.ok)).length = n := by
    rw [filterMap_length_of_isSome]
    · simp [h1]
    · intro l hl
      simpa using (h3 l hl).1
  refine ⟨n, ?_, ?_⟩
  · rw [h2, List.take_left' hlen]
  · rw [h2, List.length_append, hlen]
    split <;> simp

/-- A concrete malformed input, `"a\t1\t2\n#c\n\nb\t3\t4\r\nc\t5\nd\t6\t7\n"`: two records, then
the two-field line is an error and the good last line is not delivered. -/
example :
    decode [97, 9, 49, 9, 50, 10, 35, 99, 10, 10, 98, 9, 51, 9, 52, 13, 10,
            99, 9, 53, 10, 100, 9, 54, 9, 55, 10] =
      [Item.ok { n := 3, chrom := [97], chromStart := 1, chromEnd := 2, name := [], score := 0,
                 strand := [], thickStart := 0, thickEnd := 0, rgb := (0, 0, 0), blockCount := 0,
                 blockSizes := [], blockStarts := [] },
       Item.ok { n := 3, chrom := [98], chromStart := 3, chromEnd := 4, name := [], score := 0,
                 strand := [], thickStart := 0, thickEnd := 0, rgb := (0, 0, 0), blockCount := 0,
                 blockSizes := [], blockStarts := [] },
       Item.err] ∧
    kept [97, 9, 49, 9, 50, 10, 35, 99, 10, 10, 98, 9, 51, 9, 52, 13, 10,
          99, 9, 53, 10, 100, 9, 54, 9, 55, 10] =
      [[97, 9, 49, 9, 50], [98, 9, 51, 9, 52], [99, 9, 53], [100, 9, 54, 9, 55]] := by
  decide +kernel

end Bio.Bed

/-! ## FASTA -/
namespace Bio.Fasta

/-- No byte is lost or invented: names and sequences of all records, concatenated in order,
are the input without line-break bytes and without the record-introducing `'>'` bytes. -/
theorem payload_decode (x : Bytes) : payload (decode x) = strip x :=
  payload_decodeSrc x

/-- In particular the payload is a subsequence of the input… -/
theorem payload_sublist (x : Bytes) : (payload (decode x)).Sublist x := by
  rw [payload_decode]; exact stripAux_sublist true x

theorem payload_mem (x : Bytes) : ∀ b ∈ payload (decode x), b ∈ x :=
  fun _ hb => (payload_sublist x).subset hb

/-- … and the bytes are accounted for exactly: payload + line breaks + a leading `'>'` +
`'>'` bytes directly after a line break. -/
theorem payload_length (x : Bytes) :
    (payload (decode x)).length + (x.filter isNL).length +
      (if x.head? = some 62 then 1 else 0) + gtAfterNL x = x.length := by
  have := stripAux_length true x
  rw [cntAux_true] at this
  rw [payload_decode, strip]
  omega

theorem decode_ne_nil_iff (x : Bytes) : decode x ≠ [] ↔ x ≠ [] := by
  constructor
  · rintro h rfl
    exact h (by simp [decode, decodeSrc_nil])
  · exact decodeSrc_ne_nil .eof x

/-- Number of records: one, plus one per `'>'` that directly follows a line-break byte. -/
theorem decode_length (x : Bytes) :
    (decode x).length = if x = [] then 0 else 1 + gtAfterNL x :=
  decodeSrc_length x

theorem decode_length_le (x : Bytes) : (decode x).length ≤ x.length := by
  rw [decode_length]
  split
  · simp
  · have := gtAfterNL_lt x ‹_›; omega

/-- The vocabulary on a malformed input, `"\n>a>b\r\nAC>\n\n>\nG"`: three records (empty;
`a>b`/`AC>`; empty name/`G`), payload `a>bAC>G`. -/
example :
    strip [10, 62, 97, 62, 98, 13, 10, 65, 67, 62, 10, 10, 62, 10, 71] =
      [97, 62, 98, 65, 67, 62, 71] ∧
    gtAfterNL [10, 62, 97, 62, 98, 13, 10, 65, 67, 62, 10, 10, 62, 10, 71] = 2 := by
  decide

example :
    decode [10, 62, 97, 62, 98, 13, 10, 65, 67, 62, 10, 10, 62, 10, 71] =
      [Item.ok ⟨[], []⟩, Item.ok ⟨[97, 62, 98], [65, 67, 62]⟩, Item.ok ⟨[], [71]⟩] := by
  simp [decode, decodeSrc, readOne, loop, startState, startSeq, isNL]

end Bio.Fasta
