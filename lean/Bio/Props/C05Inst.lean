/-
  C05 for the quote set regenerated from /repo (which single-byte names the
  writer quotes): it contains every structural byte, the quote, the
  underscore and every byte the tokenizer treats as whitespace inside a name
  (TAB, LF, CR), so the round-trip theorems apply to the code as it is.
-/
import Bio.Props.C05
import Bio.Generated.Tables
namespace Bio.Newick

theorem generated_quoteSet_ok : QS_OK Generated.newickQuoteBytes := by decide

/-- Space must NOT be quoted for the `_` convention to be what the model says. -/
theorem generated_space_unquoted : (32 : UInt8) ∉ Generated.newickQuoteBytes := by decide

theorem generated_name_roundtrip (s : Bytes) :
    nameFromText (nameToText Generated.newickQuoteBytes s) = s :=
  name_roundtrip _ generated_quoteSet_ok s

theorem generated_tree_roundtrip (pd : Bytes → Option Dist) (t : Tree)
    (hd : t.AllDist (DistOK pd)) (rest : Bytes) :
    readTree pd .eof (write Generated.newickQuoteBytes t ++ rest) = ReadRes.tree t rest :=
  tree_roundtrip _ pd generated_quoteSet_ok t hd rest

end Bio.Newick
